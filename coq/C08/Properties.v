(* C08 property theorems.  Nothing but statements closed by `exact`, a pin, and
   Print Assumptions.  The driver parses this file's output.

   c            configuration of the free-list stack (Model.cfg): cfg_lockfree size cap is
                lockfree_pool.rs, cfg_fivelevel size cap is five_level_pool.rs
   run c (init n c) sc   state after n threads executed schedule sc, a list of
                (thread, command) - any number of threads, any commands, any interleaving,
                including owners overwriting the link word of their blocks
   ncas s < gmod c       fewer successful compare-exchanges than the generation can count
                (2^32): the stated price of the 32-bit tag                                *)
From ZV.Common Require Import Base.
From ZV.C08 Require Import Model ProofsInv ProofsStep ProofsRefute ProofsRun.
From ZV.C08 Require Import ModelFixedCap ProofsFixedCapRun Cases.
From ZV.C08 Require Import ModelStats ModelVariants ProofsTagged2.
From ZV.C08 Require Import ModelSecure ProofsSecureInv ProofsSecureRun.
From ZV.C08 Require Import ModelMemPool ProofsMemPool.
Open Scope N_scope.

(* each block is owned by at most one thread at a time, under every interleaving *)
Theorem tagged_no_double_owner :
  forall c, cfg_wf c -> forall n sc, ncas (run c (init n c) sc) < gmod c ->
  forall t1 t2 l1 l2 b, t1 <> t2 ->
    nth_error (thr (run c (init n c) sc)) t1 = Some l1 ->
    nth_error (thr (run c (init n c) sc)) t2 = Some l2 ->
    In b (holds l1) -> ~ In b (holds l2).
Proof. intros c [H1 H2]. exact (no_double_owner_proof c H1 H2). Qed.
Check tagged_no_double_owner :
  forall c, cfg_wf c -> forall n sc, ncas (run c (init n c) sc) < gmod c ->
  forall t1 t2 l1 l2 b, t1 <> t2 ->
    nth_error (thr (run c (init n c) sc)) t1 = Some l1 ->
    nth_error (thr (run c (init n c) sc)) t2 = Some l2 ->
    In b (holds l1) -> ~ In b (holds l2).
Print Assumptions tagged_no_double_owner.

(* the free list as the code traverses it ends in TAIL after finitely many links, has no
   repetition (no cycle), stays inside the carved part of the arena (no dangling link) and
   contains no block that a thread owns *)
Theorem tagged_free_list_well_formed :
  forall c, cfg_wf c -> forall n sc, ncas (run c (init n c) sc) < gmod c ->
  let s := run c (init n c) sc in
  exists free, walk (length free) (tail c) (nxt s) (head s) = Some free /\ NoDup free /\
    (forall b, In b free -> b <> tail c /\ b < bump s) /\
    (forall b t l, In b free -> nth_error (thr s) t = Some l -> ~ In b (holds l)).
Proof. intros c [H1 H2]. exact (free_list_well_formed_proof c H1 H2). Qed.
Check tagged_free_list_well_formed :
  forall c, cfg_wf c -> forall n sc, ncas (run c (init n c) sc) < gmod c ->
  let s := run c (init n c) sc in
  exists free, walk (length free) (tail c) (nxt s) (head s) = Some free /\ NoDup free /\
    (forall b, In b free -> b <> tail c /\ b < bump s) /\
    (forall b t l, In b free -> nth_error (thr s) t = Some l -> ~ In b (holds l)).
Print Assumptions tagged_free_list_well_formed.

(* no block is lost and a freed block is available exactly once: every block ever carved is
   either on the free list (and then in nobody's hands) or in some thread's hands (and then
   not on the free list) *)
Theorem tagged_no_block_lost :
  forall c, cfg_wf c -> forall n sc, ncas (run c (init n c) sc) < gmod c ->
  let s := run c (init n c) sc in
  forall k, let b := bump0 c + k * bsize c in b + bsize c <= cap c -> b < bump s ->
    exists free, walk (length free) (tail c) (nxt s) (head s) = Some free /\
      ((In b free /\ forall t l, nth_error (thr s) t = Some l -> ~ In b (holds l)) \/
       (~ In b free /\ exists t l, nth_error (thr s) t = Some l /\ In b (holds l))).
Proof. intros c [H1 H2]. exact (no_block_lost_proof c H1 H2). Qed.
Check tagged_no_block_lost :
  forall c, cfg_wf c -> forall n sc, ncas (run c (init n c) sc) < gmod c ->
  let s := run c (init n c) sc in
  forall k, let b := bump0 c + k * bsize c in b + bsize c <= cap c -> b < bump s ->
    exists free, walk (length free) (tail c) (nxt s) (head s) = Some free /\
      ((In b free /\ forall t l, nth_error (thr s) t = Some l -> ~ In b (holds l)) \/
       (~ In b free /\ exists t l, nth_error (thr s) t = Some l /\ In b (holds l))).
Print Assumptions tagged_no_block_lost.

(* a thread never holds the same block twice *)
Theorem tagged_holds_nodup :
  forall c, cfg_wf c -> forall n sc, ncas (run c (init n c) sc) < gmod c ->
  forall t l, nth_error (thr (run c (init n c) sc)) t = Some l -> NoDup (holds l).
Proof. intros c [H1 H2]. exact (holds_nodup_proof c H1 H2). Qed.
Check tagged_holds_nodup :
  forall c, cfg_wf c -> forall n sc, ncas (run c (init n c) sc) < gmod c ->
  forall t l, nth_error (thr (run c (init n c) sc)) t = Some l -> NoDup (holds l).
Print Assumptions tagged_holds_nodup.

(* the count the bin reports equals the length of its free list once all threads are done *)
Theorem tagged_count_at_quiescence :
  forall c, cfg_wf c -> forall n sc, ncas (run c (init n c) sc) < gmod c ->
  let s := run c (init n c) sc in quiescent s ->
  exists free, walk (length free) (tail c) (nxt s) (head s) = Some free /\
               count s = N.of_nat (length free) mod W32.
Proof. intros c [H1 H2]. exact (count_at_quiescence_walk_proof c H1 H2). Qed.
Check tagged_count_at_quiescence :
  forall c, cfg_wf c -> forall n sc, ncas (run c (init n c) sc) < gmod c ->
  let s := run c (init n c) sc in quiescent s ->
  exists free, walk (length free) (tail c) (nxt s) (head s) = Some free /\
               count s = N.of_nat (length free) mod W32.
Print Assumptions tagged_count_at_quiescence.

(* the hypothesis on the generation holds for every schedule of fewer than 2^32 steps *)
Theorem generation_bound_by_steps :
  forall c n sc, N.of_nat (length sc) < gmod c -> ncas (run c (init n c) sc) < gmod c.
Proof. exact steps_bound_generation. Qed.
Check generation_bound_by_steps :
  forall c n sc, N.of_nat (length sc) < gmod c -> ncas (run c (init n c) sc) < gmod c.
Print Assumptions generation_bound_by_steps.

(* the two configurations of the code satisfy the side conditions *)
Theorem lockfree_pool_cfg_wf : forall size capacity, 0 < size -> cfg_wf (cfg_lockfree size capacity).
Proof. exact lockfree_cfg_ok. Qed.
Check lockfree_pool_cfg_wf : forall size capacity, 0 < size -> cfg_wf (cfg_lockfree size capacity).
Print Assumptions lockfree_pool_cfg_wf.

Theorem fivelevel_pool_cfg_wf :
  forall size capacity, 0 < size -> capacity < W32 -> cfg_wf (cfg_fivelevel size capacity).
Proof. exact fivelevel_cfg_ok. Qed.
Check fivelevel_pool_cfg_wf :
  forall size capacity, 0 < size -> capacity < W32 -> cfg_wf (cfg_fivelevel size capacity).
Print Assumptions fivelevel_pool_cfg_wf.

(* without a generation (the five-level and fixed-capacity heads before the fix) two threads
   end up owning the same block *)
Theorem untagged_aba_refuted :
  exists sc b l0 l1,
    let s := run aba_cfg (init 2 aba_cfg) sc in
    nth_error (thr s) 0 = Some l0 /\ nth_error (thr s) 1 = Some l1 /\
    In b (holds l0) /\ In b (holds l1).
Proof. exact untagged_aba_refuted_proof. Qed.
Check untagged_aba_refuted :
  exists sc b l0 l1,
    let s := run aba_cfg (init 2 aba_cfg) sc in
    nth_error (thr s) 0 = Some l0 /\ nth_error (thr s) 1 = Some l1 /\
    In b (holds l0) /\ In b (holds l1).
Print Assumptions untagged_aba_refuted.

(* ... and the same happens once a generation has wrapped: the bound cannot be dropped *)
Theorem narrow_generation_refuted :
  exists sc b l0 l1,
    let s := run wrap_cfg (init 2 wrap_cfg) sc in
    gmod wrap_cfg <= ncas s /\
    nth_error (thr s) 0 = Some l0 /\ nth_error (thr s) 1 = Some l1 /\
    In b (holds l0) /\ In b (holds l1).
Proof. exact narrow_generation_refuted_proof. Qed.
Check narrow_generation_refuted :
  exists sc b l0 l1,
    let s := run wrap_cfg (init 2 wrap_cfg) sc in
    gmod wrap_cfg <= ncas s /\
    nth_error (thr s) 0 = Some l0 /\ nth_error (thr s) 1 = Some l1 /\
    In b (holds l0) /\ In b (holds l1).
Print Assumptions narrow_generation_refuted.

(* secure_pool.rs LockFreeStack: ABA leaves the head pointing to a freed node although no
   freed node was ever read (finding secure_stack_aba) *)
Theorem treiber_aba_refuted :
  exists sc, let s := trun (tinit 2) sc in
    tfault s = false /\ thead s <> 0 /\ tlive s (thead s) = false /\ twalk 8 s (thead s) = None.
Proof. exact treiber_aba_refuted_proof. Qed.
Check treiber_aba_refuted :
  exists sc, let s := trun (tinit 2) sc in
    tfault s = false /\ thead s <> 0 /\ tlive s (thead s) = false /\ twalk 8 s (thead s) = None.
Print Assumptions treiber_aba_refuted.

(* secure_pool.rs LockFreeStack::pop reads the link of a node another thread has freed
   (finding secure_stack_use_after_free) *)
Theorem treiber_uaf_refuted : exists sc, tfault (trun (tinit 2) sc) = true.
Proof. exact treiber_uaf_refuted_proof. Qed.
Check treiber_uaf_refuted : exists sc, tfault (trun (tinit 2) sc) = true.
Print Assumptions treiber_uaf_refuted.

(* ==========================================================================================
   FixedCapacityMemoryPool (src/memory/fixed_capacity_pool.rs): one generation-tagged free list
   per size class, all blocks initially on the list of the largest class, requests of a
   smaller class walk up the classes (allocate_by_splitting, recursively) and free onto their
   own class.  c : fcfg (fc_code ncls bs total clear csz is the code), frun c (finit n c) sc the
   state after n threads executed schedule sc; fnc s < fc_gmod c: fewer than 2^32 successful
   compare-exchanges in total.
   ========================================================================================== *)

(* each block is owned by at most one thread at a time, under every interleaving *)
Theorem fixedcap_no_double_owner :
  forall c, fcfg_wf c -> forall n sc, fnc (frun c (finit n c) sc) < fc_gmod c ->
  forall t1 t2 l1 l2 b, t1 <> t2 ->
    nth_error (fthr (frun c (finit n c) sc)) t1 = Some l1 ->
    nth_error (fthr (frun c (finit n c) sc)) t2 = Some l2 ->
    In b (fholds l1) -> ~ In b (fholds l2).
Proof. intros c (H1 & H2 & H3). exact (fc_no_double_owner_proof c H1 H2 H3). Qed.
Check fixedcap_no_double_owner :
  forall c, fcfg_wf c -> forall n sc, fnc (frun c (finit n c) sc) < fc_gmod c ->
  forall t1 t2 l1 l2 b, t1 <> t2 ->
    nth_error (fthr (frun c (finit n c) sc)) t1 = Some l1 ->
    nth_error (fthr (frun c (finit n c) sc)) t2 = Some l2 ->
    In b (fholds l1) -> ~ In b (fholds l2).
Print Assumptions fixedcap_no_double_owner.

(* no block is lost and a freed block is available exactly once: every block of the pool is on exactly one
   class's free list (as the code traverses it) and in nobody's hands, or in some thread's hands and on no list *)
Theorem fixedcap_no_block_lost :
  forall c, fcfg_wf c -> forall n sc, fnc (frun c (finit n c) sc) < fc_gmod c ->
  let s := frun c (finit n c) sc in
  forall k, k < fc_total c -> let b := k * fc_bs c in
    exists frees : nat -> list N,
      (forall i, fwalk s (length (frees i)) i = Some (frees i)) /\
      ((exists i, In b (frees i) /\ (forall j, j <> i -> ~ In b (frees j)) /\
                  forall t l, nth_error (fthr s) t = Some l -> ~ In b (fholds l)) \/
       ((forall i, ~ In b (frees i)) /\ exists t l, nth_error (fthr s) t = Some l /\ In b (fholds l))).
Proof. intros c (H1 & H2 & H3). exact (fc_no_block_lost_proof c H1 H2 H3). Qed.
Check fixedcap_no_block_lost :
  forall c, fcfg_wf c -> forall n sc, fnc (frun c (finit n c) sc) < fc_gmod c ->
  let s := frun c (finit n c) sc in
  forall k, k < fc_total c -> let b := k * fc_bs c in
    exists frees : nat -> list N,
      (forall i, fwalk s (length (frees i)) i = Some (frees i)) /\
      ((exists i, In b (frees i) /\ (forall j, j <> i -> ~ In b (frees j)) /\
                  forall t l, nth_error (fthr s) t = Some l -> ~ In b (fholds l)) \/
       ((forall i, ~ In b (frees i)) /\ exists t l, nth_error (fthr s) t = Some l /\ In b (fholds l))).
Print Assumptions fixedcap_no_block_lost.

(* every class's free list ends in LIST_TAIL after finitely many links, without repetition (no cycle), consists of
   blocks of the pool (no dangling link) that no thread owns, and no block is on two lists *)
Theorem fixedcap_free_lists_well_formed :
  forall c, fcfg_wf c -> forall n sc, fnc (frun c (finit n c) sc) < fc_gmod c ->
  let s := frun c (finit n c) sc in
  exists frees : nat -> list N,
    (forall i, fwalk s (length (frees i)) i = Some (frees i) /\ NoDup (frees i)) /\
    (forall i b, In b (frees i) -> fblock c b /\
        (forall j, j <> i -> ~ In b (frees j)) /\
        (forall t l, nth_error (fthr s) t = Some l -> ~ In b (fholds l))).
Proof. intros c (H1 & H2 & H3). exact (fc_free_lists_well_formed_proof c H1 H2 H3). Qed.
Check fixedcap_free_lists_well_formed :
  forall c, fcfg_wf c -> forall n sc, fnc (frun c (finit n c) sc) < fc_gmod c ->
  let s := frun c (finit n c) sc in
  exists frees : nat -> list N,
    (forall i, fwalk s (length (frees i)) i = Some (frees i) /\ NoDup (frees i)) /\
    (forall i b, In b (frees i) -> fblock c b /\
        (forall j, j <> i -> ~ In b (frees j)) /\
        (forall t l, nth_error (fthr s) t = Some l -> ~ In b (fholds l))).
Print Assumptions fixedcap_free_lists_well_formed.

(* a thread never holds the same block twice *)
Theorem fixedcap_holds_nodup :
  forall c, fcfg_wf c -> forall n sc, fnc (frun c (finit n c) sc) < fc_gmod c ->
  forall t l, nth_error (fthr (frun c (finit n c) sc)) t = Some l -> NoDup (fholds l).
Proof. intros c (H1 & H2 & H3). exact (fc_holds_nodup_proof c H1 H2 H3). Qed.
Check fixedcap_holds_nodup :
  forall c, fcfg_wf c -> forall n sc, fnc (frun c (finit n c) sc) < fc_gmod c ->
  forall t l, nth_error (fthr (frun c (finit n c) sc)) t = Some l -> NoDup (fholds l).
Print Assumptions fixedcap_holds_nodup.

(* the count of every class equals the length of its free list once all threads are done *)
Theorem fixedcap_count_at_quiescence :
  forall c, fcfg_wf c -> forall n sc, fnc (frun c (finit n c) sc) < fc_gmod c ->
  let s := frun c (finit n c) sc in fquiescent s ->
  forall i, exists free, fwalk s (length free) i = Some free /\ fcount s i = N.of_nat (length free) mod W32.
Proof. intros c (H1 & H2 & H3). exact (fc_count_at_quiescence_proof c H1 H2 H3). Qed.
Check fixedcap_count_at_quiescence :
  forall c, fcfg_wf c -> forall n sc, fnc (frun c (finit n c) sc) < fc_gmod c ->
  let s := frun c (finit n c) sc in fquiescent s ->
  forall i, exists free, fwalk s (length free) i = Some free /\ fcount s i = N.of_nat (length free) mod W32.
Print Assumptions fixedcap_count_at_quiescence.

(* the statistics add up at quiescence, for every schedule (no hypothesis on the generation): active_blocks is the
   number of blocks in the threads' hands, allocations = deallocations + active_blocks, peak_blocks >= active_blocks *)
Theorem fixedcap_stats_at_quiescence :
  forall c n sc, let s := frun c (finit n c) sc in fquiescent s ->
  fs_active (fstats s) = N.of_nat (length (concat (map fheld (fthr s)))) /\
  fs_alloc (fstats s) = fs_dealloc (fstats s) + fs_active (fstats s) /\
  fs_active (fstats s) <= fs_peak (fstats s).
Proof. exact fstats_at_quiescence_proof. Qed.
Check fixedcap_stats_at_quiescence :
  forall c n sc, let s := frun c (finit n c) sc in fquiescent s ->
  fs_active (fstats s) = N.of_nat (length (concat (map fheld (fthr s)))) /\
  fs_alloc (fstats s) = fs_dealloc (fstats s) + fs_active (fstats s) /\
  fs_active (fstats s) <= fs_peak (fstats s).
Print Assumptions fixedcap_stats_at_quiescence.

(* the hypothesis on the generation holds for every schedule of fewer than 2^32 steps *)
Theorem fixedcap_generation_bound_by_steps :
  forall c n sc, N.of_nat (length sc) < fc_gmod c -> fnc (frun c (finit n c) sc) < fc_gmod c.
Proof. exact fc_steps_bound_generation. Qed.
Check fixedcap_generation_bound_by_steps :
  forall c n sc, N.of_nat (length sc) < fc_gmod c -> fnc (frun c (finit n c) sc) < fc_gmod c.
Print Assumptions fixedcap_generation_bound_by_steps.

(* the configurations FixedCapacityMemoryPool::new accepts satisfy the side conditions *)
Theorem fixedcap_code_cfg_wf :
  forall ncls bs total clear csz, 0 < bs -> 0 < total -> total * bs <= W32 - 1 ->
  fcfg_wf (fc_code ncls bs total clear csz).
Proof. exact fc_code_wf. Qed.
Check fixedcap_code_cfg_wf :
  forall ncls bs total clear csz, 0 < bs -> 0 < total -> total * bs <= W32 - 1 ->
  fcfg_wf (fc_code ncls bs total clear csz).
Print Assumptions fixedcap_code_cfg_wf.

(* with a bare offset as head (the code before fix 8b0a274) two threads end up owning block 16 *)
Theorem fixedcap_untagged_refuted :
  exists sc b l0 l1,
    let s := frun fc_aba_cfg (finit 2 fc_aba_cfg) sc in
    nth_error (fthr s) 0 = Some l0 /\ nth_error (fthr s) 1 = Some l1 /\
    In b (fholds l0) /\ In b (fholds l1).
Proof. exact fixedcap_untagged_refuted_proof. Qed.
Check fixedcap_untagged_refuted :
  exists sc b l0 l1,
    let s := frun fc_aba_cfg (finit 2 fc_aba_cfg) sc in
    nth_error (fthr s) 0 = Some l0 /\ nth_error (fthr s) 1 = Some l1 /\
    In b (fholds l0) /\ In b (fholds l1).
Print Assumptions fixedcap_untagged_refuted.

(* ==========================================================================================
   More about the tagged stack of lockfree_pool.rs / five_level_pool.rs: generation, the scrub
   of deallocate_with_zero, the reported counters (ModelStats.v), and the three seeded variants
   (ModelVariants.v).
   ========================================================================================== *)

(* the generation of the head never decreases along a run, whatever happens to the list (in particular when a pop
   empties it), and always equals the number of successful compare-exchanges *)
Theorem tagged_generation_monotone :
  forall c, cfg_wf c -> forall n sc1 sc2, ncas (run c (init n c) (sc1 ++ sc2)) < gmod c ->
  gen (run c (init n c) sc1) <= gen (run c (init n c) (sc1 ++ sc2)) /\
  gen (run c (init n c) (sc1 ++ sc2)) = ncas (run c (init n c) (sc1 ++ sc2)).
Proof. intros c [H1 H2]. exact (generation_monotone_proof c H1 H2). Qed.
Check tagged_generation_monotone :
  forall c, cfg_wf c -> forall n sc1 sc2, ncas (run c (init n c) (sc1 ++ sc2)) < gmod c ->
  gen (run c (init n c) sc1) <= gen (run c (init n c) (sc1 ++ sc2)) /\
  gen (run c (init n c) (sc1 ++ sc2)) = ncas (run c (init n c) (sc1 ++ sc2)).
Print Assumptions tagged_generation_monotone.

(* the pop of the last block made explicit: a thread about to exchange (h, g) for (LIST_TAIL, g + 1) whose
   exchange succeeds leaves the head at (LIST_TAIL, g + 1) - an empty list with a non-zero generation *)
Theorem tagged_pop_last_keeps_generation :
  forall c, cfg_wf c -> forall n sc t hl h g,
  let s := run c (init n c) sc in
  ncas s + 1 < gmod c ->
  nth_error (thr s) t = Some {| pc := PopRead h g (tail c); held := hl |} ->
  head s = h -> gen s = g ->
  let s' := fst (step c s t CNone) in
  head s' = tail c /\ gen s' = g + 1 /\ 0 < gen s' /\ fl s' = [].
Proof. intros c [H1 H2]. exact (pop_last_keeps_generation_proof c H1 H2). Qed.
Check tagged_pop_last_keeps_generation :
  forall c, cfg_wf c -> forall n sc t hl h g,
  let s := run c (init n c) sc in
  ncas s + 1 < gmod c ->
  nth_error (thr s) t = Some {| pc := PopRead h g (tail c); held := hl |} ->
  head s = h -> gen s = g ->
  let s' := fst (step c s t CNone) in
  head s' = tail c /\ gen s' = g + 1 /\ 0 < gen s' /\ fl s' = [].
Print Assumptions tagged_pop_last_keeps_generation.

(* deallocate_with_zero: whenever a thread's next step scrubs block b, b is on no free list and in no other
   thread's hands; the link words of all listed blocks and the traversed free list are the same after the step *)
Theorem zero_on_free_never_touches_listed_block :
  forall c, cfg_wf c -> forall n sc, ncas (run c (init n c) sc) < gmod c ->
  let s := run c (init n c) sc in
  forall t k b, zero_target s t k = Some b ->
    exists free, walk (length free) (tail c) (nxt s) (head s) = Some free /\ ~ In b free /\
      (forall x, In x free -> nxt (fst (step c s t k)) x = nxt s x) /\
      walk (length free) (tail c) (nxt (fst (step c s t k))) (head (fst (step c s t k))) = Some free /\
      (forall t' l', t' <> t -> nth_error (thr s) t' = Some l' -> ~ In b (holds l')).
Proof. intros c [H1 H2]. exact (zero_on_free_proof c H1 H2). Qed.
Check zero_on_free_never_touches_listed_block :
  forall c, cfg_wf c -> forall n sc, ncas (run c (init n c) sc) < gmod c ->
  let s := run c (init n c) sc in
  forall t k b, zero_target s t k = Some b ->
    exists free, walk (length free) (tail c) (nxt s) (head s) = Some free /\ ~ In b free /\
      (forall x, In x free -> nxt (fst (step c s t k)) x = nxt s x) /\
      walk (length free) (tail c) (nxt (fst (step c s t k))) (head (fst (step c s t k))) = Some free /\
      (forall t' l', t' <> t -> nth_error (thr s) t' = Some l' -> ~ In b (holds l')).
Print Assumptions zero_on_free_never_touches_listed_block.

(* the counters both pools report are exact once all threads are done, under every interleaving: count = length
   of the free list, fragment_size = length x block size (five-level), fast_deallocs = number of free calls = number
   of successful push exchanges, fast_allocs = number of successful pop exchanges = fast_deallocs - length,
   cas_successes = their sum, memory_usage = bytes carved (lockfree), blocks handed out = frees + blocks held,
   and blocks handed out = fast_allocs + blocks carved *)
Theorem counters_exact_at_quiescence :
  forall c, cfg_wf c -> forall n sc, ncas (run c (init n c) sc) < gmod c ->
  let x := xrun c (xinit n c) sc in
  quiescent (xs x) ->
  exists free, walk (length free) (tail c) (nxt (xs x)) (head (xs x)) = Some free /\
    count (xs x) = N.of_nat (length free) mod W32 /\
    frag (xst x) = (N.of_nat (length free) * bsize c) mod W64 /\
    fast_deallocs (xst x) = g_frees (xst x) /\
    fast_deallocs (xst x) = g_npush (xst x) /\ fast_allocs (xst x) = g_npop (xst x) /\
    fast_deallocs (xst x) = fast_allocs (xst x) + N.of_nat (length free) /\
    cas_ok (xst x) = fast_allocs (xst x) + fast_deallocs (xst x) /\
    (lfkind c = true -> mem_usage (xst x) + bump0 c = bump (xs x)) /\
    g_got (xst x) = g_frees (xst x) + N.of_nat (length (concat (map held (thr (xs x))))) /\
    bump (xs x) + fast_allocs (xst x) * bsize c = bump0 c + g_got (xst x) * bsize c.
Proof. intros c [H1 H2]. exact (counters_exact_proof c H1 H2). Qed.
Check counters_exact_at_quiescence :
  forall c, cfg_wf c -> forall n sc, ncas (run c (init n c) sc) < gmod c ->
  let x := xrun c (xinit n c) sc in
  quiescent (xs x) ->
  exists free, walk (length free) (tail c) (nxt (xs x)) (head (xs x)) = Some free /\
    count (xs x) = N.of_nat (length free) mod W32 /\
    frag (xst x) = (N.of_nat (length free) * bsize c) mod W64 /\
    fast_deallocs (xst x) = g_frees (xst x) /\
    fast_deallocs (xst x) = g_npush (xst x) /\ fast_allocs (xst x) = g_npop (xst x) /\
    fast_deallocs (xst x) = fast_allocs (xst x) + N.of_nat (length free) /\
    cas_ok (xst x) = fast_allocs (xst x) + fast_deallocs (xst x) /\
    (lfkind c = true -> mem_usage (xst x) + bump0 c = bump (xs x)) /\
    g_got (xst x) = g_frees (xst x) + N.of_nat (length (concat (map held (thr (xs x))))) /\
    bump (xs x) + fast_allocs (xst x) * bsize c = bump0 c + g_got (xst x) * bsize c.
Print Assumptions counters_exact_at_quiescence.

(* variant: a pop that empties the bin stores generation 0 - two threads end up owning block 72 although the
   generation is far from wrapping *)
Theorem generation_reset_refuted :
  exists sc b l0 l1,
    let s := vrun VResetGen reset_cfg (init 2 reset_cfg) sc in
    ncas s < gmod reset_cfg /\
    nth_error (thr s) 0 = Some l0 /\ nth_error (thr s) 1 = Some l1 /\
    In b (holds l0) /\ In b (holds l1).
Proof. exact generation_reset_refuted_proof. Qed.
Check generation_reset_refuted :
  exists sc b l0 l1,
    let s := vrun VResetGen reset_cfg (init 2 reset_cfg) sc in
    ncas s < gmod reset_cfg /\
    nth_error (thr s) 0 = Some l0 /\ nth_error (thr s) 1 = Some l1 /\
    In b (holds l0) /\ In b (holds l1).
Print Assumptions generation_reset_refuted.

(* variant: free counts the block before the compare-exchange, inside the retry loop - after one lost race the
   bin reports 3 blocks for a list of 2 *)
Theorem count_before_cas_refuted :
  exists sc, let s := vrun VCountEarly early_cfg (init 2 early_cfg) sc in
    all_idle s = true /\ walk 8 (tail early_cfg) (nxt s) (head s) = Some [0; 64] /\ count s = 3.
Proof. exact count_before_cas_refuted_proof. Qed.
Check count_before_cas_refuted :
  exists sc, let s := vrun VCountEarly early_cfg (init 2 early_cfg) sc in
    all_idle s = true /\ walk 8 (tail early_cfg) (nxt s) (head s) = Some [0; 64] /\ count s = 3.
Print Assumptions count_before_cas_refuted.

(* variant: deallocate_with_zero pushes first and scrubs afterwards - block 8 is carved, in nobody's hands and
   no longer on the list *)
Theorem zero_after_push_refuted :
  exists sc, let s := vrun VZeroLate zlate_cfg (init 1 zlate_cfg) sc in
    all_idle s = true /\ 8 < bump s /\
    walk 8 (tail zlate_cfg) (nxt s) (head s) = Some [72] /\ all_holds s = [].
Proof. exact zero_after_push_refuted_proof. Qed.
Check zero_after_push_refuted :
  exists sc, let s := vrun VZeroLate zlate_cfg (init 1 zlate_cfg) sc in
    all_idle s = true /\ 8 < bump s /\
    walk 8 (tail zlate_cfg) (nxt s) (head s) = Some [72] /\ all_holds s = [].
Print Assumptions zero_after_push_refuted.

(* ==========================================================================================
   SecureMemoryPool (src/memory/secure_pool.rs): per-thread caches in front of the shared Treiber
   stack, next_generation, the active-allocation table, the counters (ModelSecure.v).  c : scfg
   gives local_cache_size and the behaviour of the system allocator for stack nodes:
   s_reuse c = false - a node address is never handed out twice while the pool lives;
   s_reuse c = true - any address that is currently free (what malloc does).  The positive
   theorems are for the first machine, over any number of threads and all schedules; the
   refutation is the same machine with the second allocator (findings secure_stack_aba /
   secure_stack_use_after_free, next to treiber_aba_refuted / treiber_uaf_refuted above).
   ========================================================================================== *)

(* the shared stack as the code traverses it is finite, consists of live nodes and has no repetition, and every
   chunk ever created (serial below snew) occurs exactly once among the threads' hands, their caches, the pushes in
   flight and that stack; nothing else occurs anywhere: no chunk is lost, none is available twice *)
Theorem secure_concurrent_no_chunk_lost :
  forall c, s_reuse c = false -> forall n sc,
  let s := srun c (sinit n) sc in
  exists stack, swalk (length stack) s (shead s) = Some stack /\ NoDup stack /\
    forall x, (occ x (concat (map splaces (sthr s)) ++ map (fun a => fst (sdata s a)) stack) =
               b2n (N.ltb x (snew s)))%nat.
Proof. exact secure_no_chunk_lost_proof. Qed.
Check secure_concurrent_no_chunk_lost :
  forall c, s_reuse c = false -> forall n sc,
  let s := srun c (sinit n) sc in
  exists stack, swalk (length stack) s (shead s) = Some stack /\ NoDup stack /\
    forall x, (occ x (concat (map splaces (sthr s)) ++ map (fun a => fst (sdata s a)) stack) =
               b2n (N.ltb x (snew s)))%nat.
Print Assumptions secure_concurrent_no_chunk_lost.

(* no chunk is in the hands of two threads *)
Theorem secure_concurrent_no_double_owner :
  forall c, s_reuse c = false -> forall n sc,
  let s := srun c (sinit n) sc in
  forall t1 t2 l1 l2 ch1 ch2, t1 <> t2 ->
    nth_error (sthr s) t1 = Some l1 -> nth_error (sthr s) t2 = Some l2 ->
    In ch1 (sheld l1) -> In ch2 (sheld l2) -> fst ch1 <> fst ch2.
Proof. exact secure_no_double_owner_proof. Qed.
Check secure_concurrent_no_double_owner :
  forall c, s_reuse c = false -> forall n sc,
  let s := srun c (sinit n) sc in
  forall t1 t2 l1 l2 ch1 ch2, t1 <> t2 ->
    nth_error (sthr s) t1 = Some l1 -> nth_error (sthr s) t2 = Some l2 ->
    In ch1 (sheld l1) -> In ch2 (sheld l2) -> fst ch1 <> fst ch2.
Print Assumptions secure_concurrent_no_double_owner.

(* the active-allocation table knows every chunk in a thread's hands with its generation, so a guard drop never
   takes the double-free error path (which would drop the chunk) *)
Theorem secure_concurrent_free_finds_its_chunk :
  forall c, s_reuse c = false -> forall n sc,
  let s := srun c (sinit n) sc in
  forall t l ch, nth_error (sthr s) t = Some l -> In ch (sheld l) -> sact s (fst ch) = Some (snd ch).
Proof. exact secure_held_in_table_proof. Qed.
Check secure_concurrent_free_finds_its_chunk :
  forall c, s_reuse c = false -> forall n sc,
  let s := srun c (sinit n) sc in
  forall t l ch, nth_error (sthr s) t = Some l -> In ch (sheld l) -> sact s (fst ch) = Some (snd ch).
Print Assumptions secure_concurrent_free_finds_its_chunk.

(* once all threads are done pool_hits + pool_misses = alloc_count, local_cache_hits + cross_thread_steals =
   pool_hits, and no double free was reported *)
Theorem secure_counters_at_quiescence :
  forall c, s_reuse c = false -> forall n sc,
  let s := srun c (sinit n) sc in squiescent s ->
  c_hits (scnt s) + c_misses (scnt s) = c_alloc (scnt s) /\
  c_local (scnt s) + c_steals (scnt s) = c_hits (scnt s) /\ c_dbl (scnt s) = 0.
Proof. exact secure_counters_proof. Qed.
Check secure_counters_at_quiescence :
  forall c, s_reuse c = false -> forall n sc,
  let s := srun c (sinit n) sc in squiescent s ->
  c_hits (scnt s) + c_misses (scnt s) = c_alloc (scnt s) /\
  c_local (scnt s) + c_steals (scnt s) = c_hits (scnt s) /\ c_dbl (scnt s) = 0.
Print Assumptions secure_counters_at_quiescence.

(* with an allocator that recycles node addresses (malloc) the same machine hands chunk 0 to two threads: the
   stale compare-exchange of a pop succeeds on a recycled address and installs a freed node as head *)
Theorem secure_concurrent_reuse_refuted :
  exists sc l0 l1 ch,
    let s := srun sreuse_cfg (sinit 2) sc in
    nth_error (sthr s) 0 = Some l0 /\ nth_error (sthr s) 1 = Some l1 /\
    In ch (sheld l0) /\ In ch (sheld l1).
Proof. exact secure_reuse_refuted_proof. Qed.
Check secure_concurrent_reuse_refuted :
  exists sc l0 l1 ch,
    let s := srun sreuse_cfg (sinit 2) sc in
    nth_error (sthr s) 0 = Some l0 /\ nth_error (sthr s) 1 = Some l1 /\
    In ch (sheld l0) /\ In ch (sheld l1).
Print Assumptions secure_concurrent_reuse_refuted.

(* ==========================================================================================
   MemoryPool (src/memory/pool.rs): a VecDeque of pooled chunks behind a mutex that is only ever
   try_lock-ed (a busy lock sends an allocation to the system allocator and a free to direct
   release), byte accounting under a blocking write lock (repair e88cf6d), atomic counters
   (ModelMemPool.v).  Any number of threads, all schedules, no hypothesis.
   ========================================================================================== *)

(* once all threads are done: stats.allocated = chunk_size x (pooled chunks + chunks in the threads' hands) - the
   saturating subtraction never saturated and no update was skipped -, pool_hits + pool_misses = alloc_count, the
   queue lock is free, at most max_chunks chunks are pooled, and no chunk is pooled twice or pooled and held *)
Theorem mempool_accounting_exact_at_quiescence :
  forall c n sc,
  let s := mrun c (minit n) sc in mquiescent s ->
  mallocated s = m_csize c * N.of_nat (length (mqueue s) + length (concat (map mheld (mthr s)))) /\
  mc_hits s + mc_misses s = mc_alloc s /\ mlock s = None /\
  N.of_nat (length (mqueue s)) <= m_max c /\
  NoDup (mqueue s ++ concat (map mheld (mthr s))).
Proof. exact mempool_accounting_proof. Qed.
Check mempool_accounting_exact_at_quiescence :
  forall c n sc,
  let s := mrun c (minit n) sc in mquiescent s ->
  mallocated s = m_csize c * N.of_nat (length (mqueue s) + length (concat (map mheld (mthr s)))) /\
  mc_hits s + mc_misses s = mc_alloc s /\ mlock s = None /\
  N.of_nat (length (mqueue s)) <= m_max c /\
  NoDup (mqueue s ++ concat (map mheld (mthr s))).
Print Assumptions mempool_accounting_exact_at_quiescence.

(* in every reachable state no chunk is in two places (pooled, in a thread's hands, or carried through an operation) *)
Theorem mempool_no_chunk_in_two_places :
  forall c n sc,
  let s := mrun c (minit n) sc in NoDup (mqueue s ++ concat (map mplaces (mthr s))).
Proof. exact mempool_unique_proof. Qed.
Check mempool_no_chunk_in_two_places :
  forall c n sc,
  let s := mrun c (minit n) sc in NoDup (mqueue s ++ concat (map mplaces (mthr s))).
Print Assumptions mempool_no_chunk_in_two_places.
