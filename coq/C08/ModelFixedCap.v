(* C08 mechanism model of src/memory/fixed_capacity_pool.rs (FixedCapacityMemoryPool) under
   concurrency, as written:

   * total_blocks blocks of max_block_size bytes, laid out back to back; a block is named by its
     byte offset.  One free list per size class (generate_size_classes), each with a
     generation-tagged 64-bit head (offset, generation) and a 32-bit count.  All blocks start on
     the list of the largest class (initialize_free_lists): 0 -> bs -> 2 bs -> ... -> LIST_TAIL.
   * a free block carries a BlockHeader: magic word and link word (the size_class word is
     written but never read).
   * allocate(size) -> allocate_from_free_list(ci): load the head; LIST_TAIL -> allocate_by_splitting;
     read the header of the head block (magic must be 0xDEADBEEF, else Err "Block header
     corrupted" - no retry); compare-exchange (h, g) -> (next, g + 1); count.fetch_sub.
   * allocate_by_splitting(ci): for larger in ci+1 .. : peek at the head of class `larger`; when it is
     not LIST_TAIL call allocate_from_free_list(larger) - which may itself find the list empty
     again and split further (recursion), or fail, in which case the loop goes on with larger + 1.
     When the loop is exhausted allocation_failures is incremented and Err returned.  The block is
     NOT split: it is handed out whole, and the allocation remembers the class that was ASKED for,
     so that the block is freed onto the list of that (smaller) class.
   * deallocate(ptr, ci): optional secure_clear (zeroes size_classes[ci] bytes of the block: the link
     word only when the class has at least 12 bytes), header.size_class := ci,
     header.magic := MAGIC; then the push loop: load head, header.next := head offset,
     compare-exchange (h, g) -> (b, g + 1), count.fetch_add.
   * statistics: allocations / active_blocks / peak_blocks after a successful allocation,
     deallocations / active_blocks after a deallocation.

   Concurrency: as in Model.v - sequentially consistent, one step = the code between two
   schedule points of the zipora_verif hooks (one shared access).  [cs] in the program counters
   of a pop is the stack of classes of the nested allocate_from_free_list calls, innermost first:
   [hd cs] is the class whose list is being popped, [last cs] the class that was asked for.
   Owners may overwrite the header words of their blocks (FScribble).

   Definitions only.  [ffl] and [fnc] are ghost fields: nothing reads them. *)
From ZV.Common Require Import Base.
From ZV.C08 Require Import Model.
Open Scope N_scope.

Definition FC_TAIL : N := W32 - 1.
Definition FC_MAGIC : N := 3735928559.          (* 0xDEADBEEF *)

Record fcfg := {
  fc_gmod  : N;        (* generation modulus: 2^32 in the code, 1 = bare offset (before the ABA repair) *)
  fc_ncls  : nat;      (* number of size classes *)
  fc_bs    : N;        (* max_block_size: every block has this size *)
  fc_total : N;        (* total_blocks *)
  fc_clear : bool;     (* secure_clear *)
  fc_csize : nat -> N  (* size_classes[i]: secure_clear zeroes that many bytes of the block *)
}.
Definition fc_code (ncls : nat) (bs total : N) (clear : bool) (csz : nat -> N) : fcfg :=
  {| fc_gmod := W32; fc_ncls := ncls; fc_bs := bs; fc_total := total; fc_clear := clear; fc_csize := csz |}.
Definition fc_untagged (ncls : nat) (bs total : N) : fcfg :=
  {| fc_gmod := 1; fc_ncls := ncls; fc_bs := bs; fc_total := total; fc_clear := false; fc_csize := fun _ => bs |}.
(* generate_size_classes for alignment 8 and max_block_size <= 128: 8, 16, 24, ... *)
Definition csize8 (i : nat) : N := 8 * (N.of_nat i + 1).
(* secure_clear zeroes size_classes[ci] bytes: the link word (bytes 8..11 of the header) only from 12 bytes on *)
Definition clears_link (c : fcfg) (ci : nat) : bool := fc_clear c && (12 <=? fc_csize c ci).

Inductive fcmd :=
| FNone
| FPop (ci : nat)                    (* allocate a size of class ci *)
| FPush (b : N) (ci : nat)           (* drop the allocation of block b made for class ci *)
| FScribble (b m v : N).             (* the owner overwrites magic and link word of its block *)

Inductive fpc :=
| FIdle
| FPopStart (cs : list nat)                  (* before head.load of class hd cs *)
| FPopLoaded (cs : list nat) (h g : N)       (* before the header read of block h *)
| FPopRead (cs : list nat) (h g n : N)       (* before compare_exchange (h,g) -> (n,g+1) *)
| FPopWon (cs : list nat) (h : N)            (* before count.fetch_sub *)
| FSplitPeek (cs : list nat) (larger : nat)  (* allocate_by_splitting(hd cs): before the peek at class larger *)
| FPushStart (b : N) (ci : nat)              (* before head.load *)
| FPushLoaded (b : N) (ci : nat) (h g : N)   (* before header.next := h *)
| FPushWritten (b : N) (ci : nat) (h g : N)  (* before compare_exchange (h,g) -> (b,g+1) *)
| FPushWon (ci : nat).                       (* before count.fetch_add *)

Record flocal := { fpcv : fpc; fheld : list N }.

Record fstat := { fs_alloc : N; fs_dealloc : N; fs_active : N; fs_peak : N; fs_fail : N }.

Record fstate := {
  fhead  : nat -> N;
  fgen   : nat -> N;
  fcount : nat -> N;            (* u32, wraps *)
  fmagic : N -> N;              (* header.magic of the block at an offset *)
  fnext  : N -> N;              (* header.next *)
  fthr   : list flocal;
  fstats : fstat;
  ffl    : nat -> list N;       (* ghost: the abstract free list of every class *)
  fnc    : N                    (* ghost: number of successful compare-exchanges *)
}.

Definition updf {A : Type} (f : nat -> A) (i : nat) (v : A) : nat -> A :=
  fun j => if Nat.eqb j i then v else f j.

Fixpoint upd_fthr (l : list flocal) (t : nat) (x : flocal) : list flocal :=
  match l, t with
  | [], _ => []
  | _ :: r, O => x :: r
  | y :: r, S t' => y :: upd_fthr r t' x
  end.

Fixpoint fc_blocks (n : nat) (start bs : N) : list N :=
  match n with O => [] | S k => start :: fc_blocks k (start + bs) bs end.

Definition finit (nthreads : nat) (c : fcfg) : fstate :=
  let top := pred (fc_ncls c) in
  {| fhead := fun i => if Nat.eqb i top then 0 else FC_TAIL;
     fgen := fun _ => 0;
     fcount := fun i => if Nat.eqb i top then fc_total c else 0;
     fmagic := fun _ => FC_MAGIC;
     fnext := fun b => if b + fc_bs c <? fc_total c * fc_bs c then b + fc_bs c else FC_TAIL;
     fthr := repeat {| fpcv := FIdle; fheld := [] |} nthreads;
     fstats := {| fs_alloc := 0; fs_dealloc := 0; fs_active := 0; fs_peak := 0; fs_fail := 0 |};
     ffl := fun i => if Nat.eqb i top then fc_blocks (N.to_nat (fc_total c)) 0 (fc_bs c) else [];
     fnc := 0 |}.

Definition fpack (c : fcfg) (h g : N) : N := if fc_gmod c =? 1 then h else g * W32 + h.

(* the split loop of allocate_by_splitting(hd cs) turns to class [larger]; when the loop is
   exhausted the failure is counted and the error goes to the enclosing loop, which continues
   with the class after the one it had tried *)
Fixpoint split_next (ncls : nat) (cs : list nat) (larger : nat) (fails : N) : fpc * N :=
  if (larger <? ncls)%nat then (FSplitPeek cs larger, fails)
  else match cs with
       | [] => (FIdle, fails + 1)
       | ci :: rest =>
           match rest with
           | [] => (FIdle, fails + 1)
           | _ => split_next ncls rest (S ci) (fails + 1)
           end
       end.
(* allocate_from_free_list(hd cs) returns Err (corrupted header) *)
Definition pop_err (ncls : nat) (cs : list nat) (fails : N) : fpc * N :=
  match cs with
  | [] => (FIdle, fails)
  | ci :: rest => match rest with [] => (FIdle, fails) | _ => split_next ncls rest (S ci) fails end
  end.

Definition with_fail (st : fstat) (f : N) : fstat :=
  {| fs_alloc := fs_alloc st; fs_dealloc := fs_dealloc st; fs_active := fs_active st;
     fs_peak := fs_peak st; fs_fail := f |}.

(* only the moving thread (and the failure counter) change *)
Definition fset_thr (s : fstate) (t : nat) (x : flocal) (fails : N) : fstate :=
  {| fhead := fhead s; fgen := fgen s; fcount := fcount s; fmagic := fmagic s; fnext := fnext s;
     fthr := upd_fthr (fthr s) t x; fstats := with_fail (fstats s) fails; ffl := ffl s; fnc := fnc s |}.
(* a write into a block *)
Definition fset_mem (s : fstate) (t : nat) (x : flocal) (mg nx : N -> N) : fstate :=
  {| fhead := fhead s; fgen := fgen s; fcount := fcount s; fmagic := mg; fnext := nx;
     fthr := upd_fthr (fthr s) t x; fstats := fstats s; ffl := ffl s; fnc := fnc s |}.
(* a successful compare-exchange on the head of class i *)
Definition fset_cas (c : fcfg) (s : fstate) (t : nat) (x : flocal) (i : nat) (h g : N) (l : list N) : fstate :=
  {| fhead := updf (fhead s) i h; fgen := updf (fgen s) i ((g + 1) mod fc_gmod c); fcount := fcount s;
     fmagic := fmagic s; fnext := fnext s;
     fthr := upd_fthr (fthr s) t x; fstats := fstats s; ffl := updf (ffl s) i l; fnc := fnc s + 1 |}.
(* the counter update that ends an operation *)
Definition fset_cnt (s : fstate) (t : nat) (x : flocal) (i : nat) (v : N) (st : fstat) : fstate :=
  {| fhead := fhead s; fgen := fgen s; fcount := updf (fcount s) i v; fmagic := fmagic s; fnext := fnext s;
     fthr := upd_fthr (fthr s) t x; fstats := st; ffl := ffl s; fnc := fnc s |}.

Definition fmk (p : fpc) (h : list N) : flocal := {| fpcv := p; fheld := h |}.

(* One step of thread t: new state and the observations (site, value) of the hooks.
   Sites: 1 head load, 2 link read, 3 compare-exchange, 5 peek (pop side); 11 load, 13
   compare-exchange (push side). *)
Definition fstep (c : fcfg) (s : fstate) (t : nat) (k : fcmd) : fstate * list (N * N) :=
  match nth_error (fthr s) t with
  | None => (s, [])
  | Some l =>
    let hl := fheld l in
    let fails := fs_fail (fstats s) in
    match fpcv l with
    | FIdle =>
      match k with
      | FNone => (s, [])
      | FPop ci =>
          if (ci <? fc_ncls c)%nat then (fset_thr s t (fmk (FPopStart [ci]) hl) fails, []) else (s, [])
      | FPush b ci =>
          if mem_n b hl && (ci <? fc_ncls c)%nat
          then (fset_mem s t (fmk (FPushStart b ci) (remove_n b hl))
                  (upd_nxt (fmagic s) b FC_MAGIC)
                  (if clears_link c ci then upd_nxt (fnext s) b 0 else fnext s), [])
          else (s, [])
      | FScribble b m v =>
          if mem_n b hl
          then (fset_mem s t l (upd_nxt (fmagic s) b m) (upd_nxt (fnext s) b v), [])
          else (s, [])
      end
    | FPopStart cs =>
        let ci := hd O cs in
        let ev := [(1, fpack c (fhead s ci) (fgen s ci))] in
        if fhead s ci =? FC_TAIL
        then let '(p, f) := split_next (fc_ncls c) cs (S ci) fails in (fset_thr s t (fmk p hl) f, ev)
        else (fset_thr s t (fmk (FPopLoaded cs (fhead s ci) (fgen s ci)) hl) fails, ev)
    | FPopLoaded cs h g =>
        if fmagic s h =? FC_MAGIC
        then (fset_thr s t (fmk (FPopRead cs h g (fnext s h)) hl) fails, [(2, fnext s h)])
        else let '(p, f) := pop_err (fc_ncls c) cs fails in (fset_thr s t (fmk p hl) f, [])
    | FPopRead cs h g n =>
        let ci := hd O cs in
        if (fhead s ci =? h) && (fgen s ci =? g)
        then (fset_cas c s t (fmk (FPopWon cs h) hl) ci n g (tl (ffl s ci)), [(3, 1)])
        else (fset_thr s t (fmk (FPopStart cs) hl) fails, [(3, 0)])
    | FPopWon cs h =>
        let ci := hd O cs in
        let st := fstats s in
        let act := fs_active st + 1 in
        (fset_cnt s t (fmk FIdle (hl ++ [h])) ci ((fcount s ci + W32 - 1) mod W32)
           {| fs_alloc := fs_alloc st + 1; fs_dealloc := fs_dealloc st; fs_active := act;
              fs_peak := N.max (fs_peak st) act; fs_fail := fs_fail st |}, [])
    | FSplitPeek cs larger =>
        let ev := [(5, fhead s larger)] in
        if fhead s larger =? FC_TAIL
        then let '(p, f) := split_next (fc_ncls c) cs (S larger) fails in (fset_thr s t (fmk p hl) f, ev)
        else (fset_thr s t (fmk (FPopStart (larger :: cs)) hl) fails, ev)
    | FPushStart b ci =>
        (fset_thr s t (fmk (FPushLoaded b ci (fhead s ci) (fgen s ci)) hl) fails,
         [(11, fpack c (fhead s ci) (fgen s ci))])
    | FPushLoaded b ci h g =>
        (fset_mem s t (fmk (FPushWritten b ci h g) hl) (fmagic s) (upd_nxt (fnext s) b h), [])
    | FPushWritten b ci h g =>
        if (fhead s ci =? h) && (fgen s ci =? g)
        then (fset_cas c s t (fmk (FPushWon ci) hl) ci b g (b :: ffl s ci), [(13, 1)])
        else (fset_thr s t (fmk (FPushStart b ci) hl) fails, [(13, 0)])
    | FPushWon ci =>
        let st := fstats s in
        (fset_cnt s t (fmk FIdle hl) ci ((fcount s ci + 1) mod W32)
           {| fs_alloc := fs_alloc st; fs_dealloc := fs_dealloc st + 1; fs_active := fs_active st - 1;
              fs_peak := fs_peak st; fs_fail := fs_fail st |}, [])
    end
  end.

Definition fsched := list (nat * fcmd).

Fixpoint frun (c : fcfg) (s : fstate) (sc : fsched) : fstate :=
  match sc with
  | [] => s
  | (t, k) :: r => frun c (fst (fstep c s t k)) r
  end.

Fixpoint frun_trace (c : fcfg) (s : fstate) (sc : fsched) : fstate * list (N * N) :=
  match sc with
  | [] => (s, [])
  | (t, k) :: r =>
      let '(s1, ev) := fstep c s t k in
      let '(s2, ev2) := frun_trace c s1 r in (s2, ev ++ ev2)
  end.

Definition finflight (p : fpc) : list N :=
  match p with
  | FPopWon _ h => [h]
  | FPushStart b _ | FPushLoaded b _ _ _ | FPushWritten b _ _ _ => [b]
  | _ => []
  end.
Definition fholds (l : flocal) : list N := fheld l ++ finflight (fpcv l).

Definition fwalk (s : fstate) (fuel : nat) (i : nat) : option (list N) :=
  walk fuel FC_TAIL (fnext s) (fhead s i).

Definition fquiescent (s : fstate) : Prop := Forall (fun l => fpcv l = FIdle) (fthr s).

(* side conditions on a configuration (FixedCapacityMemoryPool::new enforces them):
   blocks are not empty, there is at least one, and offsets fit below LIST_TAIL *)
Definition fcfg_wf (c : fcfg) : Prop :=
  0 < fc_bs c /\ 0 < fc_total c /\ fc_total c * fc_bs c <= W32 - 1.

(* a block of the pool *)
Definition fblock (c : fcfg) (b : N) : Prop := exists k, k < fc_total c /\ b = k * fc_bs c.

(* --- observation used by the correspondence check ------------------------------ *)
Definition ffinal_obs (c : fcfg) (s : fstate) (fuel : nat)
  : list N * list (option (list N)) * list (list N) * list N :=
  (concat (map (fun i => [fpack c (fhead s i) (fgen s i); fcount s i]) (seq 0 (fc_ncls c))),
   map (fwalk s fuel) (seq 0 (fc_ncls c)),
   map fheld (fthr s),
   let st := fstats s in [fs_alloc st; fs_dealloc st; fs_active st; fs_peak st; fs_fail st]).

(* every block is in at most one place (decidable check for refutations) *)
Definition fall_holds (s : fstate) : list N := concat (map fholds (fthr s)).
Fixpoint cat_opts (l : list (option (list N))) : option (list N) :=
  match l with
  | [] => Some []
  | None :: _ => None
  | Some x :: r => match cat_opts r with Some y => Some (x ++ y) | None => None end
  end.
Definition fexclusive (c : fcfg) (s : fstate) (fuel : nat) : bool :=
  match cat_opts (map (fwalk s fuel) (seq 0 (fc_ncls c))) with
  | None => false
  | Some free => nodup_n (fall_holds s ++ free)
  end.
