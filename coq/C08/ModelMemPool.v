(* C08 mechanism model of MemoryPool (src/memory/pool.rs) under concurrency, as written after the
   repair e88cf6d of the byte accounting:

     allocate:   alloc_count += 1 | free_chunks.try_lock() - busy: go to the miss path |
                 pop_front under the lock: Some(chunk) -> pool_hits += 1, (stats write lock, nothing
                 to add), unlock, return; None -> unlock | miss path: pool_misses += 1, a new chunk
                 from the system allocator | stats.write(): allocated += chunk_size
     deallocate: dealloc_count += 1 | try_lock - busy: release the chunk directly | under the lock:
                 len < max_chunks -> push_back, unlock, return; else unlock | dealloc(chunk) |
                 stats.write(): allocated := allocated.saturating_sub(chunk_size)

   One step = the code between two schedule points of the zipora_verif hooks; the stats RwLock is
   taken and released within one step (write() blocks, it never skips: that was the defect).  A chunk
   is named by a serial number in order of creation (the system allocator may hand out the address
   of a released chunk again; the harness renames).  Definitions only; no ghost fields. *)
From ZV.Common Require Import Base.
From ZV.C08 Require Import Model.
Open Scope N_scope.

Record mcfg := { m_csize : N; m_max : N }.

Inductive mcmd := MNone | MAlloc | MFree (ch : N).

Inductive mpcT :=
| MIdle
| MALock               (* before try_lock *)
| MAPop                (* lock held; before pop_front *)
| MAMiss               (* before pool_misses += 1 and the system allocation *)
| MAStats (ch : N)     (* before allocated += chunk_size *)
| MFLock (ch : N)      (* before try_lock *)
| MFPush (ch : N)      (* lock held; before the capacity check *)
| MFDirect (ch : N)    (* before dealloc(chunk) *)
| MFStats.             (* before allocated -= chunk_size *)

Record mlocal := { mpc : mpcT; mheld : list N }.

Record mstate := {
  mqueue : list N;            (* VecDeque: front first *)
  mlock : option nat;         (* holder of the free_chunks mutex *)
  mallocated : N;             (* stats.allocated (u64; overflow would need 2^64 bytes of chunks - not modelled) *)
  mc_alloc : N; mc_dealloc : N; mc_hits : N; mc_misses : N;
  mnew : N;                   (* chunks created so far *)
  mthr : list mlocal
}.

Fixpoint upd_mthr (l : list mlocal) (t : nat) (x : mlocal) : list mlocal :=
  match l, t with
  | [], _ => []
  | _ :: r, O => x :: r
  | y :: r, S t' => y :: upd_mthr r t' x
  end.

Definition minit (nthreads : nat) : mstate :=
  {| mqueue := []; mlock := None; mallocated := 0; mc_alloc := 0; mc_dealloc := 0; mc_hits := 0; mc_misses := 0;
     mnew := 0; mthr := repeat {| mpc := MIdle; mheld := [] |} nthreads |}.

Definition mmk (p : mpcT) (h : list N) : mlocal := {| mpc := p; mheld := h |}.

Definition mset (s : mstate) (q : list N) (lk : option nat) (al : N) (ca cd ch cm nw : N) (th : list mlocal) : mstate :=
  {| mqueue := q; mlock := lk; mallocated := al; mc_alloc := ca; mc_dealloc := cd; mc_hits := ch; mc_misses := cm;
     mnew := nw; mthr := th |}.

(* sites: 1 try_lock of allocate, 2 pop_front, 11 try_lock of deallocate, 12 push_back *)
Definition mstep (c : mcfg) (s : mstate) (t : nat) (k : mcmd) : mstate * list (N * N) :=
  match nth_error (mthr s) t with
  | None => (s, [])
  | Some l =>
    let he := mheld l in
    let th x := upd_mthr (mthr s) t x in
    match mpc l with
    | MIdle =>
      match k with
      | MNone => (s, [])
      | MAlloc =>
          (mset s (mqueue s) (mlock s) (mallocated s) (mc_alloc s + 1) (mc_dealloc s) (mc_hits s) (mc_misses s)
                (mnew s) (th (mmk MALock he)), [])
      | MFree ch =>
          if mem_n ch he
          then (mset s (mqueue s) (mlock s) (mallocated s) (mc_alloc s) (mc_dealloc s + 1) (mc_hits s) (mc_misses s)
                     (mnew s) (th (mmk (MFLock ch) (remove_n ch he))), [])
          else (s, [])
      end
    | MALock =>
        match mlock s with
        | None => (mset s (mqueue s) (Some t) (mallocated s) (mc_alloc s) (mc_dealloc s) (mc_hits s) (mc_misses s)
                        (mnew s) (th (mmk MAPop he)), [(1, 1)])
        | Some _ => (mset s (mqueue s) (mlock s) (mallocated s) (mc_alloc s) (mc_dealloc s) (mc_hits s) (mc_misses s)
                          (mnew s) (th (mmk MAMiss he)), [(1, 0)])
        end
    | MAPop =>
        match mqueue s with
        | ch :: q => (mset s q None (mallocated s) (mc_alloc s) (mc_dealloc s) (mc_hits s + 1) (mc_misses s)
                           (mnew s) (th (mmk MIdle (he ++ [ch]))), [(2, 1)])
        | [] => (mset s [] None (mallocated s) (mc_alloc s) (mc_dealloc s) (mc_hits s) (mc_misses s)
                      (mnew s) (th (mmk MAMiss he)), [(2, 0)])
        end
    | MAMiss =>
        (mset s (mqueue s) (mlock s) (mallocated s) (mc_alloc s) (mc_dealloc s) (mc_hits s) (mc_misses s + 1)
              (mnew s + 1) (th (mmk (MAStats (mnew s)) he)), [])
    | MAStats ch =>
        (mset s (mqueue s) (mlock s) (mallocated s + m_csize c) (mc_alloc s) (mc_dealloc s) (mc_hits s)
              (mc_misses s) (mnew s) (th (mmk MIdle (he ++ [ch]))), [])
    | MFLock ch =>
        match mlock s with
        | None => (mset s (mqueue s) (Some t) (mallocated s) (mc_alloc s) (mc_dealloc s) (mc_hits s) (mc_misses s)
                        (mnew s) (th (mmk (MFPush ch) he)), [(11, 1)])
        | Some _ => (mset s (mqueue s) (mlock s) (mallocated s) (mc_alloc s) (mc_dealloc s) (mc_hits s) (mc_misses s)
                          (mnew s) (th (mmk (MFDirect ch) he)), [(11, 0)])
        end
    | MFPush ch =>
        if N.of_nat (length (mqueue s)) <? m_max c
        then (mset s (mqueue s ++ [ch]) None (mallocated s) (mc_alloc s) (mc_dealloc s) (mc_hits s) (mc_misses s)
                   (mnew s) (th (mmk MIdle he)), [(12, 1)])
        else (mset s (mqueue s) None (mallocated s) (mc_alloc s) (mc_dealloc s) (mc_hits s) (mc_misses s)
                   (mnew s) (th (mmk (MFDirect ch) he)), [(12, 0)])
    | MFDirect ch =>
        (mset s (mqueue s) (mlock s) (mallocated s) (mc_alloc s) (mc_dealloc s) (mc_hits s) (mc_misses s)
              (mnew s) (th (mmk MFStats he)), [])
    | MFStats =>
        (mset s (mqueue s) (mlock s) (mallocated s - m_csize c) (mc_alloc s) (mc_dealloc s) (mc_hits s) (mc_misses s)
              (mnew s) (th (mmk MIdle he)), [])
    end
  end.

Definition msched := list (nat * mcmd).
Fixpoint mrun (c : mcfg) (s : mstate) (sc : msched) : mstate :=
  match sc with
  | [] => s
  | (t, k) :: r => mrun c (fst (mstep c s t k)) r
  end.
Fixpoint mrun_trace (c : mcfg) (s : mstate) (sc : msched) : mstate * list (N * N) :=
  match sc with
  | [] => (s, [])
  | (t, k) :: r =>
      let '(s1, ev) := mstep c s t k in
      let '(s2, ev2) := mrun_trace c s1 r in (s2, ev ++ ev2)
  end.

Definition mquiescent (s : mstate) : Prop := Forall (fun l => mpc l = MIdle) (mthr s).

(* the chunk a thread is carrying through an operation *)
Definition minflight (p : mpcT) : list N :=
  match p with
  | MAStats ch | MFLock ch | MFPush ch | MFDirect ch => [ch]
  | _ => []
  end.
Definition mplaces (l : mlocal) : list N := mheld l ++ minflight (mpc l).

Definition mfinal_obs (s : mstate) :=
  (mqueue s, map mheld (mthr s),
   [mallocated s; mc_alloc s; mc_dealloc s; mc_hits s; mc_misses s; match mlock s with None => 0 | Some _ => 1 end]).
