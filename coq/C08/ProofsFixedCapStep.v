(* C08: every step of every thread of the fixed-capacity pool model preserves the invariant as
   long as the generation has not wrapped. *)
From ZV.Common Require Import Base.
From ZV.C08 Require Import Model ProofsInv ProofsStep ProofsChain ModelFixedCap ProofsFixedCapInv.
Open Scope N_scope.

Lemma split_next_shape : forall ncls cs lg f p f',
  split_next ncls cs lg f = (p, f') -> p = FIdle \/ exists cs' l', p = FSplitPeek cs' l'.
Proof.
  induction cs as [|ci rest IH]; intros lg f p f' H; cbn [split_next] in H.
  - destruct (lg <? ncls)%nat; inversion H; subst; [right; eauto|left; reflexivity].
  - destruct (lg <? ncls)%nat; [inversion H; subst; right; eauto|].
    destruct rest as [|c2 r2]; [inversion H; left; reflexivity|].
    eapply IH; eassumption.
Qed.
Lemma pop_err_shape : forall ncls cs f p f',
  pop_err ncls cs f = (p, f') -> p = FIdle \/ exists cs' l', p = FSplitPeek cs' l'.
Proof.
  intros ncls [|ci [|c2 r2]] f p f' H; cbn [pop_err] in H; try (inversion H; auto; fail).
  eapply split_next_shape; eassumption.
Qed.

Lemma fholds_mk : forall p h, fholds {| fpcv := p; fheld := h |} = h ++ finflight p.
Proof. reflexivity. Qed.

Section FSTEP.
Variable c : fcfg.
Hypothesis Hbs : 0 < fc_bs c.
Hypothesis Htot : fc_total c * fc_bs c <= W32 - 1.

Notation FInv := (FInv c).
Notation chain := (lchain FC_TAIL).
Notation fpc_ok := ProofsFixedCapInv.fpc_ok.
Notation fblk_ok := (fblk_ok c).

(* after a successful exchange on class ci the generation of that class is larger than
   anything a thread remembers; the other classes and the memory are untouched *)
Lemma fpc_ok_cas : forall s s' ci p,
  fgen s' = updf (fgen s) ci (fgen s ci + 1) ->
  (forall j, j <> ci -> fhead s' j = fhead s j) -> fnext s' = fnext s ->
  fpc_ok s p -> fpc_ok s' p.
Proof.
  intros s s' ci p Hg Hh Hn.
  assert (G : forall j, fgen s j <= fgen s' j /\ (j <> ci -> fgen s' j = fgen s j) /\ fgen s' ci = fgen s ci + 1).
  { intros j. rewrite Hg. unfold updf. rewrite Nat.eqb_refl.
    destruct (Nat.eqb_spec j ci) as [->|]; repeat split; try lia; congruence. }
  destruct p; cbn; rewrite ?Hn; auto.
  - intros (H1 & H2 & H3). destruct (G (hd O cs)) as (G1 & G2 & G3).
    split; [lia|]. split; [assumption|].
    destruct (Nat.eq_dec (hd O cs) ci) as [E|E].
    + rewrite E in *. intros; exfalso; lia.
    + rewrite G2, Hh by assumption. assumption.
  - intros (H1 & H2 & H3). destruct (G (hd O cs)) as (G1 & G2 & G3).
    split; [lia|]. split; [assumption|].
    destruct (Nat.eq_dec (hd O cs) ci) as [E|E].
    + rewrite E in *. intros; exfalso; lia.
    + rewrite G2, Hh by assumption. assumption.
  - intros H1. destruct (G ci0) as (G1 & _). lia.
  - intros (H1 & H2). destruct (G ci0) as (G1 & _). split; [lia|assumption].
Qed.

Ltac quiet l0 l1 :=
  eapply (finv_quiet c) with (l := l0) (l' := l1); try eassumption; try reflexivity;
  rewrite ?fholds_mk; cbn [finflight fpcv fheld fpc_ok fset_thr fset_mem fhead fgen fcount fnext ffl fnc fthr fmk];
  rewrite ?app_nil_r; try tauto; try assumption.

Theorem fstep_inv : forall s t k,
  FInv s -> fnc (fst (fstep c s t k)) < fc_gmod c -> FInv (fst (fstep c s t k)).
Proof.
  intros s t k I Hn. unfold fstep in *.
  destruct (nth_error (fthr s) t) as [l|] eqn:Hl; [|exact I].
  assert (Hat : fthr_at s t l) by exact Hl.
  destruct (fi_thr c s I _ _ Hat) as (Hnd & Hblk & Hpc).
  destruct l as [p hl]. cbn [fpcv fheld] in *. rewrite fholds_mk in *.
  destruct p; cbn [finflight] in *.
  - (* FIdle *)
    rewrite ?app_nil_r in *.
    destruct k.
    + exact I.
    + (* FPop *)
      destruct (ci <? fc_ncls c)%nat; [|exact I]. cbn [fst]. unfold fmk.
      quiet {| fpcv := FIdle; fheld := hl |} {| fpcv := FPopStart [ci]; fheld := hl |}.
    + (* FPush b ci *)
      destruct (mem_n b hl && (ci <? fc_ncls c)%nat) eqn:Hm; [|exact I]. cbn [fst]. unfold fmk.
      apply Bool.andb_true_iff in Hm. destruct Hm as [Hm _]. apply mem_n_In in Hm.
      destruct (remove_n_NoDup b hl Hnd) as [R1 R2].
      eapply (finv_quiet c) with (l := {| fpcv := FIdle; fheld := hl |})
                                 (l' := {| fpcv := FPushStart b ci; fheld := remove_n b hl |});
        try eassumption; try reflexivity; rewrite ?fholds_mk; cbn [finflight fpcv fheld fnext fset_mem].
      * intros x Hx. rewrite app_nil_r in Hx.
        destruct (clears_link c ci); [|reflexivity]. unfold upd_nxt.
        destruct (N.eqb_spec x b) as [->|]; [contradiction|reflexivity].
      * intros x. rewrite app_nil_r, in_app_iff. cbn. split.
        -- intros [H|[<-|[]]]; [eapply remove_n_In; eauto|assumption].
        -- intros H. destruct (N.eq_dec x b) as [->|Hne]; [tauto|left; apply remove_n_keeps; auto].
      * apply NoDup_snoc; assumption.
    + (* FScribble b m v *)
      destruct (mem_n b hl) eqn:Hm; [|exact I]. cbn [fst].
      apply mem_n_In in Hm.
      eapply (finv_quiet c) with (l := {| fpcv := FIdle; fheld := hl |}) (l' := {| fpcv := FIdle; fheld := hl |});
        try eassumption; try reflexivity; rewrite ?fholds_mk; cbn [finflight fpcv fheld fnext fset_mem]; rewrite ?app_nil_r;
        try tauto; try assumption.
      * intros x Hx. unfold upd_nxt. destruct (N.eqb_spec x b) as [->|]; [contradiction|reflexivity].
  - (* FPopStart *)
    rewrite ?app_nil_r in *.
    destruct (N.eqb_spec (fhead s (hd O cs)) FC_TAIL) as [He|Hne].
    + destruct (split_next (fc_ncls c) cs (S (hd O cs)) (fs_fail (fstats s))) as [p f] eqn:Es. cbn [fst]. unfold fmk.
      destruct (split_next_shape _ _ _ _ _ _ Es) as [->|(cs' & l' & ->)].
      * quiet {| fpcv := FPopStart cs; fheld := hl |} {| fpcv := FIdle; fheld := hl |}.
      * quiet {| fpcv := FPopStart cs; fheld := hl |} {| fpcv := FSplitPeek cs' l'; fheld := hl |}.
    + cbn [fst]. unfold fmk.
      quiet {| fpcv := FPopStart cs; fheld := hl |}
            {| fpcv := FPopLoaded cs (fhead s (hd O cs)) (fgen s (hd O cs)); fheld := hl |}.
      split; [lia|]. split; [assumption|reflexivity].
  - (* FPopLoaded *)
    rewrite ?app_nil_r in *.
    destruct (fmagic s h =? FC_MAGIC).
    + cbn [fst]. unfold fmk.
      quiet {| fpcv := FPopLoaded cs h g; fheld := hl |} {| fpcv := FPopRead cs h g (fnext s h); fheld := hl |}.
      cbn in Hpc. destruct Hpc as (H1 & H2 & H3). split; [assumption|]. split; [assumption|].
      intros E. split; [auto|reflexivity].
    + destruct (pop_err (fc_ncls c) cs (fs_fail (fstats s))) as [p f] eqn:Es. cbn [fst]. unfold fmk.
      destruct (pop_err_shape _ _ _ _ _ Es) as [->|(cs' & l' & ->)].
      * quiet {| fpcv := FPopLoaded cs h g; fheld := hl |} {| fpcv := FIdle; fheld := hl |}.
      * quiet {| fpcv := FPopLoaded cs h g; fheld := hl |} {| fpcv := FSplitPeek cs' l'; fheld := hl |}.
  - (* FPopRead: the compare-exchange of pop *)
    rewrite ?app_nil_r in *.
    set (ci := hd O cs) in *.
    destruct ((fhead s ci =? h) && (fgen s ci =? g)) eqn:Hc; cbn [fst] in *; unfold fmk in *.
    + apply Bool.andb_true_iff in Hc. destruct Hc as [Hh Hg]. apply N.eqb_eq in Hh, Hg.
      cbn [fnc fset_cas] in Hn.
      cbn in Hpc. fold ci in Hpc. destruct Hpc as (_ & Hht & Hc3). destruct (Hc3 (eq_sym Hg)) as [_ Hnx].
      pose proof I as I0. destruct I as [Ich Ind Isep Ig Ifl Ith Idj Ico Icl Icn].
      destruct (lchain_head _ _ _ _ (Ich ci)) as (r & Er & Hr); [rewrite Hh; assumption|].
      rewrite Hh in Er, Hr. rewrite Hnx in Hr.
      assert (Eg : (g + 1) mod fc_gmod c = g + 1).
      { apply N.mod_small. pose proof (Ig ci). lia. }
      pose proof (Ind ci) as Indc. rewrite Er in Indc. inversion Indc as [|? ? Hnr Hndr]; subst x l.
      assert (Hsub : forall i b, In b (updf (ffl s) ci (tl (ffl s ci)) i) -> In b (ffl s i)).
      { intros i b. unfold updf. destruct (Nat.eqb_spec i ci) as [->|]; [|auto].
        rewrite Er. cbn. tauto. }
      assert (Hhfl : In h (ffl s ci)) by (rewrite Er; left; reflexivity).
      eapply (finv_frame c) with (t := t) (l := {| fpcv := FPopRead cs h g n; fheld := hl |})
                                 (l' := {| fpcv := FPopWon cs h; fheld := hl |});
        try eassumption; try reflexivity; rewrite ?fholds_mk;
        cbn [fset_cas fhead fgen fcount fnext ffl fnc fthr finflight fpcv fheld]; rewrite ?app_nil_r.
      * intros i. unfold updf. destruct (Nat.eqb_spec i ci) as [->|]; [|apply Ich].
        rewrite Er. cbn [tl]. assumption.
      * intros i. unfold updf. destruct (Nat.eqb_spec i ci) as [->|]; [|apply Ind].
        rewrite Er. cbn [tl]. assumption.
      * intros i j b Hne Hi Hj. apply Hsub in Hi. apply Hsub in Hj. exact (Isep _ _ _ Hne Hi Hj).
      * intros i. unfold updf. destruct (Nat.eqb_spec i ci) as [->|].
        -- rewrite Eg. pose proof (Ig ci). lia.
        -- pose proof (Ig i). lia.
      * intros i b Hb. apply Hsub in Hb. eapply Ifl; eassumption.
      * apply NoDup_snoc; [assumption|].
        intro Hin. destruct (Hblk h Hin) as (_ & Hf). exact (Hf ci Hhfl).
      * intros b Hb. rewrite in_app_iff in Hb. cbn in Hb. unfold ProofsFixedCapInv.fblk_ok. cbn [ffl fset_cas].
        destruct Hb as [Hb|[<-|[]]].
        -- destruct (Hblk b Hb) as (Hv & Hf). split; [assumption|].
           intros i Hin. apply Hsub in Hin. exact (Hf i Hin).
        -- split; [eapply Ifl; eassumption|].
           intros i. unfold updf. destruct (Nat.eqb_spec i ci) as [->|Hne].
           ++ rewrite Er. cbn [tl]. assumption.
           ++ apply (Isep ci i h); auto.
      * intros b (Hv & Hf) _. split; [assumption|]. cbn [ffl fset_cas].
        intros i Hin. apply Hsub in Hin. exact (Hf i Hin).
      * intros x _ Hp. eapply fpc_ok_cas with (s := s) (ci := ci); cbn [fgen fhead fnext fset_cas]; try reflexivity; [| |exact Hp].
        -- rewrite Eg, Hg. reflexivity.
        -- intros j Hj. apply updf_other. assumption.
      * intros b Hb. rewrite in_app_iff in Hb. cbn in Hb. destruct Hb as [Hb|[<-|[]]].
        -- left. assumption.
        -- right. intros (_ & Hf). exact (Hf ci Hhfl).
      * intros i b Hb. destruct (Nat.eq_dec i ci) as [->|Hne].
        -- rewrite Er in Hb. destruct Hb as [<-|Hb].
           ++ right. rewrite in_app_iff. cbn. tauto.
           ++ left. exists ci. rewrite updf_same, Er. exact Hb.
        -- left. exists i. rewrite updf_other by assumption. exact Hb.
      * intros b Hb. right. rewrite in_app_iff. tauto.
      * intros i.
        pose proof (fcnt_upd (isFPushWon i) _ _ {| fpcv := FPopWon cs h; fheld := hl |} _ Hl) as E1.
        pose proof (fcnt_upd (isFPopWon i) _ _ {| fpcv := FPopWon cs h; fheld := hl |} _ Hl) as E2.
        cbn [fpcv isFPushWon isFPopWon b2n] in E1, E2. fold ci in E2.
        unfold updf. destruct (Nat.eqb_spec i ci) as [->|Hne].
        -- rewrite Nat.eqb_refl in E2. cbn [b2n] in E2.
           pose proof (Icn ci) as Icc. rewrite Er in Icc |- *. cbn [length tl] in *.
           eapply count_frame32; [exact Icc|apply Icl|]. right. left. lia.
        -- destruct (Nat.eqb_spec ci i) as [E|_]; [congruence|]. cbn [b2n] in E2.
           eapply count_frame32; [exact (Icn i)|apply Icl|]. left. lia.
    + quiet {| fpcv := FPopRead cs h g n; fheld := hl |} {| fpcv := FPopStart cs; fheld := hl |}.
  - (* FPopWon: count.fetch_sub and the statistics *)
    cbn [fst]. unfold fmk.
    set (ci := hd O cs) in *.
    pose proof I as I0. destruct I as [Ich Ind Isep Ig Ifl Ith Idj Ico Icl Icn].
    eapply (finv_frame c) with (t := t) (l := {| fpcv := FPopWon cs h; fheld := hl |})
                               (l' := {| fpcv := FIdle; fheld := hl ++ [h] |});
      try eassumption; try reflexivity; rewrite ?fholds_mk;
      cbn [fset_cnt fhead fgen fcount fnext ffl fnc fthr finflight fpcv fheld]; rewrite ?app_nil_r; auto.
    + intros i b Hb. left. eauto.
    + intros i. unfold updf. destruct (Nat.eqb_spec i ci); [|apply Icl].
      apply N.mod_upper_bound. unfold W32. lia.
    + intros i.
      pose proof (fcnt_upd (isFPushWon i) _ _ {| fpcv := FIdle; fheld := hl ++ [h] |} _ Hl) as E1.
      pose proof (fcnt_upd (isFPopWon i) _ _ {| fpcv := FIdle; fheld := hl ++ [h] |} _ Hl) as E2.
      cbn [fpcv isFPushWon isFPopWon b2n] in E1, E2. fold ci in E2.
      unfold updf. destruct (Nat.eqb_spec i ci) as [->|Hne].
      * rewrite Nat.eqb_refl in E2. cbn [b2n] in E2.
        eapply count_frame32; [exact (Icn ci)|apply Icl|]. right. right. right. left. lia.
      * destruct (Nat.eqb_spec ci i) as [E|_]; [congruence|]. cbn [b2n] in E2.
        eapply count_frame32; [exact (Icn i)|apply Icl|]. left. lia.
  - (* FSplitPeek *)
    rewrite ?app_nil_r in *.
    destruct (fhead s larger =? FC_TAIL).
    + destruct (split_next (fc_ncls c) cs (S larger) (fs_fail (fstats s))) as [p f] eqn:Es. cbn [fst]. unfold fmk.
      destruct (split_next_shape _ _ _ _ _ _ Es) as [->|(cs' & l' & ->)].
      * quiet {| fpcv := FSplitPeek cs larger; fheld := hl |} {| fpcv := FIdle; fheld := hl |}.
      * quiet {| fpcv := FSplitPeek cs larger; fheld := hl |} {| fpcv := FSplitPeek cs' l'; fheld := hl |}.
    + cbn [fst]. unfold fmk.
      quiet {| fpcv := FSplitPeek cs larger; fheld := hl |} {| fpcv := FPopStart (larger :: cs); fheld := hl |}.
  - (* FPushStart *)
    cbn [fst]. unfold fmk.
    quiet {| fpcv := FPushStart b ci; fheld := hl |} {| fpcv := FPushLoaded b ci (fhead s ci) (fgen s ci); fheld := hl |}.
    lia.
  - (* FPushLoaded: header.next of the block in flight is written *)
    cbn [fst]. unfold fmk.
    eapply (finv_quiet c) with (l := {| fpcv := FPushLoaded b ci h g; fheld := hl |})
                               (l' := {| fpcv := FPushWritten b ci h g; fheld := hl |});
      try eassumption; try reflexivity; rewrite ?fholds_mk; cbn [finflight fpcv fheld fnext fgen fset_mem fpc_ok];
      try tauto; try assumption.
    + intros x Hx. unfold upd_nxt. destruct (N.eqb_spec x b) as [->|]; [|reflexivity].
      exfalso. apply Hx. rewrite in_app_iff. cbn. tauto.
    + cbn in Hpc. split; [assumption|]. unfold upd_nxt. rewrite N.eqb_refl. reflexivity.
  - (* FPushWritten: the compare-exchange of push *)
    destruct ((fhead s ci =? h) && (fgen s ci =? g)) eqn:Hc; cbn [fst] in *; unfold fmk in *.
    + apply Bool.andb_true_iff in Hc. destruct Hc as [Hh Hg]. apply N.eqb_eq in Hh, Hg.
      cbn [fnc fset_cas] in Hn.
      cbn in Hpc. destruct Hpc as (_ & Hnx).
      assert (Hbin : In b (hl ++ [b])) by (rewrite in_app_iff; cbn; tauto).
      destruct (Hblk b Hbin) as (Hbv & Hbf).
      pose proof I as I0. destruct I as [Ich Ind Isep Ig Ifl Ith Idj Ico Icl Icn].
      assert (Eg : (g + 1) mod fc_gmod c = g + 1).
      { apply N.mod_small. pose proof (Ig ci). lia. }
      assert (Hsup2 : forall i x, In x (updf (ffl s) ci (b :: ffl s ci) i) -> (i = ci /\ x = b) \/ In x (ffl s i)).
      { intros i x. unfold updf. destruct (Nat.eqb_spec i ci) as [->|]; [|auto]. cbn. intuition. }
      assert (Hsup : forall i x, In x (updf (ffl s) ci (b :: ffl s ci) i) -> x = b \/ In x (ffl s i)).
      { intros i x Hx. destruct (Hsup2 i x Hx) as [[_ E]|E]; auto. }
      eapply (finv_frame c) with (t := t) (l := {| fpcv := FPushWritten b ci h g; fheld := hl |})
                                 (l' := {| fpcv := FPushWon ci; fheld := hl |});
        try eassumption; try reflexivity; rewrite ?fholds_mk;
        cbn [fset_cas fhead fgen fcount fnext ffl fnc fthr finflight fpcv fheld]; rewrite ?app_nil_r.
      * intros i. unfold updf. destruct (Nat.eqb_spec i ci) as [->|]; [|apply Ich].
        cbn [lchain]. split; [reflexivity|]. split; [apply (fblock_ne_tail c Hbs Htot); assumption|].
        rewrite Hnx, <- Hh. apply Ich.
      * intros i. unfold updf. destruct (Nat.eqb_spec i ci) as [->|]; [|apply Ind].
        constructor; [apply Hbf|apply Ind].
      * intros i j x Hne Hi Hj. apply Hsup2 in Hi. apply Hsup2 in Hj.
        destruct Hi as [[Ei Ex]|Hi], Hj as [[Ej Ex']|Hj].
        -- congruence.
        -- subst x. exact (Hbf j Hj).
        -- subst x. exact (Hbf i Hi).
        -- exact (Isep _ _ _ Hne Hi Hj).
      * intros i. unfold updf. destruct (Nat.eqb_spec i ci) as [->|].
        -- rewrite Eg. pose proof (Ig ci). lia.
        -- pose proof (Ig i). lia.
      * intros i x Hx. apply Hsup in Hx. destruct Hx as [->|Hx]; [assumption|eapply Ifl; eassumption].
      * eapply NoDup_app_l; eassumption.
      * intros x Hx. assert (Hx2 : In x (hl ++ [b])) by (rewrite in_app_iff; tauto).
        destruct (Hblk x Hx2) as (H1 & H2). split; [assumption|]. cbn [ffl fset_cas].
        intros i Hin. apply Hsup in Hin. destruct Hin as [->|Hin]; [|exact (H2 i Hin)].
        eapply NoDup_app_notin; eassumption.
      * intros x (H1 & H2) Hno. split; [assumption|]. cbn [ffl fset_cas].
        intros i Hin. apply Hsup in Hin. destruct Hin as [->|Hin]; [|exact (H2 i Hin)].
        apply Hno. rewrite in_app_iff. cbn. tauto.
      * intros x _ Hp. eapply fpc_ok_cas with (s := s) (ci := ci); cbn [fgen fhead fnext fset_cas]; try reflexivity; [| |exact Hp].
        -- rewrite Eg, Hg. reflexivity.
        -- intros j Hj. apply updf_other. assumption.
      * intros x Hx. left. rewrite in_app_iff. tauto.
      * intros i x Hx. left. exists i. unfold updf. destruct (Nat.eqb_spec i ci) as [->|]; [right|]; assumption.
      * intros x Hx. rewrite in_app_iff in Hx. cbn in Hx.
        destruct Hx as [Hx|[<-|[]]]; [right; assumption|left]. exists ci. rewrite updf_same. left. reflexivity.
      * intros i.
        pose proof (fcnt_upd (isFPushWon i) _ _ {| fpcv := FPushWon ci; fheld := hl |} _ Hl) as E1.
        pose proof (fcnt_upd (isFPopWon i) _ _ {| fpcv := FPushWon ci; fheld := hl |} _ Hl) as E2.
        cbn [fpcv isFPushWon isFPopWon b2n] in E1, E2.
        unfold updf. destruct (Nat.eqb_spec i ci) as [->|Hne].
        -- rewrite Nat.eqb_refl in E1. cbn [b2n] in E1. cbn [length].
           eapply count_frame32; [exact (Icn ci)|apply Icl|]. right. right. left. lia.
        -- destruct (Nat.eqb_spec ci i) as [E|_]; [congruence|]. cbn [b2n] in E1.
           eapply count_frame32; [exact (Icn i)|apply Icl|]. left. lia.
    + quiet {| fpcv := FPushWritten b ci h g; fheld := hl |} {| fpcv := FPushStart b ci; fheld := hl |}.
  - (* FPushWon: count.fetch_add and the statistics *)
    rewrite ?app_nil_r in *. cbn [fst]. unfold fmk.
    pose proof I as I0. destruct I as [Ich Ind Isep Ig Ifl Ith Idj Ico Icl Icn].
    eapply (finv_frame c) with (t := t) (l := {| fpcv := FPushWon ci; fheld := hl |})
                               (l' := {| fpcv := FIdle; fheld := hl |});
      try eassumption; try reflexivity; rewrite ?fholds_mk;
      cbn [fset_cnt fhead fgen fcount fnext ffl fnc fthr finflight fpcv fheld]; rewrite ?app_nil_r; auto.
    + intros i b Hb. left. eauto.
    + intros i. unfold updf. destruct (Nat.eqb_spec i ci); [|apply Icl].
      apply N.mod_upper_bound. unfold W32. lia.
    + intros i.
      pose proof (fcnt_upd (isFPushWon i) _ _ {| fpcv := FIdle; fheld := hl |} _ Hl) as E1.
      pose proof (fcnt_upd (isFPopWon i) _ _ {| fpcv := FIdle; fheld := hl |} _ Hl) as E2.
      cbn [fpcv isFPushWon isFPopWon b2n] in E1, E2.
      unfold updf. destruct (Nat.eqb_spec i ci) as [->|Hne].
      * rewrite Nat.eqb_refl in E1. cbn [b2n] in E1.
        eapply count_frame32; [exact (Icn ci)|apply Icl|]. right. right. right. right. lia.
      * destruct (Nat.eqb_spec ci i) as [E|_]; [congruence|]. cbn [b2n] in E1.
        eapply count_frame32; [exact (Icn i)|apply Icl|]. left. lia.
Qed.

End FSTEP.
