(* C08: the fixed-capacity pool model over whole schedules; statistics; the refutation for the
   untagged head.  The theorems of Properties.v about FixedCapacityMemoryPool are proved here. *)
From ZV.Common Require Import Base.
From ZV.C08 Require Import Model ProofsInv ProofsChain ModelFixedCap ProofsFixedCapInv ProofsFixedCapStep.
Open Scope N_scope.

Section FMONO.
Variable c : fcfg.

Lemma fnc_step_mono : forall s t k,
  fnc s <= fnc (fst (fstep c s t k)) /\ fnc (fst (fstep c s t k)) <= fnc s + 1.
Proof.
  intros s t k. unfold fstep.
  destruct (nth_error (fthr s) t) as [l|]; [|cbn; lia].
  destruct (fpcv l); try destruct k; cbn;
    repeat match goal with
           | |- context [if ?b then _ else _] => destruct b; cbn
           | |- context [let '(_, _) := ?x in _] => destruct x; cbn
           end; lia.
Qed.

Lemma fnc_run_mono : forall sc s, fnc s <= fnc (frun c s sc).
Proof.
  induction sc as [|[t k] sc IH]; intros s; cbn; [lia|].
  specialize (IH (fst (fstep c s t k))). pose proof (fnc_step_mono s t k). lia.
Qed.

Lemma fnc_run_le_steps : forall sc s, fnc (frun c s sc) <= fnc s + N.of_nat (length sc).
Proof.
  induction sc as [|[t k] sc IH]; intros s; cbn [frun length]; [lia|].
  specialize (IH (fst (fstep c s t k))). pose proof (fnc_step_mono s t k). lia.
Qed.
End FMONO.

(* ---------- statistics: allocations, deallocations, active_blocks, peak_blocks ---------- *)
Definition in_push (p : fpc) : bool :=
  match p with
  | FPushStart _ _ | FPushLoaded _ _ _ _ | FPushWritten _ _ _ _ | FPushWon _ => true
  | _ => false
  end.
(* blocks a thread accounts for in active_blocks: those it holds plus the one it is giving back *)
Definition fown (l : flocal) : nat := (length (fheld l) + b2n (in_push (fpcv l)))%nat.
Fixpoint fsum (l : list flocal) : nat := match l with [] => 0%nat | x :: r => (fown x + fsum r)%nat end.

Lemma fsum_upd : forall l t x y, nth_error l t = Some y ->
  (fsum (upd_fthr l t x) + fown y = fsum l + fown x)%nat.
Proof.
  induction l as [|a l IH]; intros [|t] x y H; cbn in *; try discriminate.
  - inversion H; subst. lia.
  - specialize (IH t x y H). lia.
Qed.
Lemma fsum_idle : forall l, Forall (fun x => fpcv x = FIdle) l ->
  fsum l = length (concat (map fheld l)).
Proof.
  intros l H. induction H as [|x l Hx _ IH]; cbn; [reflexivity|].
  unfold fown. rewrite Hx, app_length, IH. cbn. lia.
Qed.
Lemma remove_n_length : forall b l, In b l -> S (length (remove_n b l)) = length l.
Proof.
  induction l as [|y l IH]; cbn; [tauto|]. intros H.
  destruct (N.eqb_spec y b) as [->|Hne]; [reflexivity|].
  cbn. f_equal. apply IH. destruct H; [congruence|assumption].
Qed.

Record FStat (s : fstate) : Prop := {
  st_act : fs_active (fstats s) = N.of_nat (fsum (fthr s));
  st_bal : fs_alloc (fstats s) = fs_dealloc (fstats s) + fs_active (fstats s);
  st_peak : fs_active (fstats s) <= fs_peak (fstats s)
}.

Lemma finit_stat : forall n c, FStat (finit n c).
Proof.
  intros n c.
  assert (E : fsum (repeat {| fpcv := FIdle; fheld := [] |} n) = 0%nat).
  { induction n as [|n IH]; [reflexivity|]. cbn [repeat fsum]. rewrite IH. reflexivity. }
  constructor; cbn [finit fstats fthr fs_active fs_alloc fs_dealloc fs_peak]; try lia.
Qed.

Lemma fstep_stat : forall c s t k, FStat s -> FStat (fst (fstep c s t k)).
Proof.
  intros c s t k [A B P]. unfold fstep.
  destruct (nth_error (fthr s) t) as [l|] eqn:Hl; [|constructor; assumption].
  destruct l as [p hl]. cbn [fpcv fheld].
  assert (U : forall x, (fsum (upd_fthr (fthr s) t x) + fown {| fpcv := p; fheld := hl |} = fsum (fthr s) + fown x)%nat).
  { intros x. eapply fsum_upd. exact Hl. }
  destruct p.
  - destruct k; try (constructor; assumption).
    + destruct (ci <? fc_ncls c)%nat; [|constructor; assumption].
      specialize (U (fmk (FPopStart [ci]) hl)). unfold fown in U. cbn in U.
      constructor; cbn; try assumption. lia.
    + destruct (mem_n b hl && (ci <? fc_ncls c)%nat) eqn:Hm; [|constructor; assumption].
      apply Bool.andb_true_iff in Hm. destruct Hm as [Hm _]. apply mem_n_In in Hm.
      pose proof (remove_n_length b hl Hm) as L.
      specialize (U (fmk (FPushStart b ci) (remove_n b hl))). unfold fown in U. cbn in U.
      constructor; cbn; try assumption. lia.
    + destruct (mem_n b hl); [|constructor; assumption].
      specialize (U {| fpcv := FIdle; fheld := hl |}).
      constructor; cbn; try assumption. lia.
  - (* FPopStart *)
    destruct (fhead s (hd O cs) =? FC_TAIL).
    + destruct (split_next (fc_ncls c) cs (S (hd O cs)) (fs_fail (fstats s))) as [p f] eqn:Es.
      specialize (U (fmk p hl)). unfold fown in U. cbn in U.
      destruct (split_next_shape _ _ _ _ _ _ Es) as [->|(cs' & l' & ->)]; cbn in U;
        constructor; cbn; try assumption; lia.
    + specialize (U (fmk (FPopLoaded cs (fhead s (hd O cs)) (fgen s (hd O cs))) hl)). unfold fown in U. cbn in U.
      constructor; cbn; try assumption. lia.
  - destruct (fmagic s h =? FC_MAGIC).
    + specialize (U (fmk (FPopRead cs h g (fnext s h)) hl)). unfold fown in U. cbn in U.
      constructor; cbn; try assumption. lia.
    + destruct (pop_err (fc_ncls c) cs (fs_fail (fstats s))) as [p f] eqn:Es.
      specialize (U (fmk p hl)). unfold fown in U. cbn in U.
      destruct (pop_err_shape _ _ _ _ _ Es) as [->|(cs' & l' & ->)]; cbn in U;
        constructor; cbn; try assumption; lia.
  - destruct ((fhead s (hd O cs) =? h) && (fgen s (hd O cs) =? g)).
    + specialize (U (fmk (FPopWon cs h) hl)). unfold fown in U. cbn in U.
      constructor; cbn; try assumption. lia.
    + specialize (U (fmk (FPopStart cs) hl)). unfold fown in U. cbn in U.
      constructor; cbn; try assumption. lia.
  - (* FPopWon *)
    specialize (U (fmk FIdle (hl ++ [h]))). unfold fown in U. cbn in U. rewrite app_length in U. cbn in U.
    constructor; cbn; lia.
  - destruct (fhead s larger =? FC_TAIL).
    + destruct (split_next (fc_ncls c) cs (S larger) (fs_fail (fstats s))) as [p f] eqn:Es.
      specialize (U (fmk p hl)). unfold fown in U. cbn in U.
      destruct (split_next_shape _ _ _ _ _ _ Es) as [->|(cs' & l' & ->)]; cbn in U;
        constructor; cbn; try assumption; lia.
    + specialize (U (fmk (FPopStart (larger :: cs)) hl)). unfold fown in U. cbn in U.
      constructor; cbn; try assumption. lia.
  - specialize (U (fmk (FPushLoaded b ci (fhead s ci) (fgen s ci)) hl)). unfold fown in U. cbn in U.
    constructor; cbn; try assumption. lia.
  - specialize (U (fmk (FPushWritten b ci h g) hl)). unfold fown in U. cbn in U.
    constructor; cbn; try assumption. lia.
  - destruct ((fhead s ci =? h) && (fgen s ci =? g)).
    + specialize (U (fmk (FPushWon ci) hl)). unfold fown in U. cbn in U.
      constructor; cbn; try assumption. lia.
    + specialize (U (fmk (FPushStart b ci) hl)). unfold fown in U. cbn in U.
      constructor; cbn; try assumption. lia.
  - (* FPushWon *)
    specialize (U (fmk FIdle hl)). unfold fown in U. cbn in U.
    constructor; cbn; lia.
Qed.

Lemma frun_stat : forall c sc s, FStat s -> FStat (frun c s sc).
Proof.
  induction sc as [|[t k] sc IH]; intros s H; cbn; [assumption|].
  apply IH. apply fstep_stat. assumption.
Qed.

Lemma fstats_at_quiescence_proof : forall c n sc,
  let s := frun c (finit n c) sc in fquiescent s ->
  fs_active (fstats s) = N.of_nat (length (concat (map fheld (fthr s)))) /\
  fs_alloc (fstats s) = fs_dealloc (fstats s) + fs_active (fstats s) /\
  fs_active (fstats s) <= fs_peak (fstats s).
Proof.
  intros c n sc s Hq. destruct (frun_stat c sc _ (finit_stat n c)) as [A B P]. fold s in A, B, P.
  rewrite (fsum_idle _ Hq) in A. auto.
Qed.

(* ---------- whole schedules ---------- *)
Section FRUN.
Variable c : fcfg.
Hypothesis Hbs : 0 < fc_bs c.
Hypothesis Hpos : 0 < fc_total c.
Hypothesis Htot : fc_total c * fc_bs c <= W32 - 1.

Theorem frun_inv : forall sc s, FInv c s -> fnc (frun c s sc) < fc_gmod c -> FInv c (frun c s sc).
Proof.
  induction sc as [|[t k] sc IH]; intros s I H; cbn in *; [assumption|].
  apply IH; [|assumption].
  apply fstep_inv; try assumption.
  pose proof (fnc_run_mono c sc (fst (fstep c s t k))). lia.
Qed.

Definition freach (n : nat) (sc : fsched) : fstate := frun c (finit n c) sc.

Lemma freach_inv : forall n sc, fnc (freach n sc) < fc_gmod c -> FInv c (freach n sc).
Proof. intros n sc H. apply frun_inv; [apply finit_inv; assumption|exact H]. Qed.

Lemma fwalk_fl : forall s i, FInv c s -> fwalk s (length (ffl s i)) i = Some (ffl s i).
Proof. intros s i I. unfold fwalk. apply lchain_walk. apply (fi_chain c s I). Qed.

(* whatever fuel makes the traversal of class i succeed, it returns the abstract list *)
Lemma fwalk_is_fl : forall s i fuel free, FInv c s -> fwalk s fuel i = Some free -> free = ffl s i.
Proof.
  intros s i fuel free I H. unfold fwalk in H. apply walk_lchain in H.
  eapply lchain_unique; [exact H|apply (fi_chain c s I)].
Qed.

Lemma fc_no_double_owner_proof : forall n sc, fnc (freach n sc) < fc_gmod c ->
  forall t1 t2 l1 l2 b, t1 <> t2 ->
    nth_error (fthr (freach n sc)) t1 = Some l1 -> nth_error (fthr (freach n sc)) t2 = Some l2 ->
    In b (fholds l1) -> ~ In b (fholds l2).
Proof. intros n sc H. exact (fi_disj c _ (freach_inv n sc H)). Qed.

Lemma fc_holds_nodup_proof : forall n sc, fnc (freach n sc) < fc_gmod c ->
  forall t l, nth_error (fthr (freach n sc)) t = Some l -> NoDup (fholds l).
Proof.
  intros n sc H t l Hl. destruct (fi_thr c _ (freach_inv n sc H) t l Hl) as (Hnd & _). exact Hnd.
Qed.

(* every class's free list, as the code traverses it, is finite, ends in LIST_TAIL, has no
   repetition, consists of blocks of the pool that no thread owns, and no block is on two lists *)
Lemma fc_free_lists_well_formed_proof : forall n sc, fnc (freach n sc) < fc_gmod c ->
  let s := freach n sc in
  exists frees : nat -> list N,
    (forall i, fwalk s (length (frees i)) i = Some (frees i) /\ NoDup (frees i)) /\
    (forall i b, In b (frees i) -> fblock c b /\
        (forall j, j <> i -> ~ In b (frees j)) /\
        (forall t l, nth_error (fthr s) t = Some l -> ~ In b (fholds l))).
Proof.
  intros n sc H s. pose proof (freach_inv n sc H) as I. fold s in I.
  exists (ffl s). split.
  - intros i. split; [apply fwalk_fl; assumption|apply (fi_nodup c s I)].
  - intros i b Hb. split; [eapply (fi_fl c s I); eassumption|]. split.
    + intros j Hj Hin. exact (fi_sep c s I _ _ _ Hj Hin Hb).
    + intros t l Hl Hin. destruct (fi_thr c s I t l Hl) as (_ & Hk & _).
      destruct (Hk b Hin) as (_ & Hno). exact (Hno i Hb).
Qed.

(* no block is lost and a freed block is available exactly once: every block of the pool is either
   on exactly one free list and in nobody's hands, or in some thread's hands and on no list *)
Lemma fc_no_block_lost_proof : forall n sc, fnc (freach n sc) < fc_gmod c ->
  let s := freach n sc in
  forall k, k < fc_total c -> let b := k * fc_bs c in
    exists frees : nat -> list N,
      (forall i, fwalk s (length (frees i)) i = Some (frees i)) /\
      ((exists i, In b (frees i) /\ (forall j, j <> i -> ~ In b (frees j)) /\
                  forall t l, nth_error (fthr s) t = Some l -> ~ In b (fholds l)) \/
       ((forall i, ~ In b (frees i)) /\ exists t l, nth_error (fthr s) t = Some l /\ In b (fholds l))).
Proof.
  intros n sc H s k Hk b. pose proof (freach_inv n sc H) as I. fold s in I.
  exists (ffl s). split; [intros i; apply fwalk_fl; assumption|].
  assert (Hb : fblock c b) by (exists k; split; [assumption|reflexivity]).
  destruct (fi_cons c s I b Hb) as [(i & Hf)|(t & l & Hl & Hin)].
  - left. exists i. split; [assumption|]. split.
    + intros j Hj Hin. exact (fi_sep c s I _ _ _ Hj Hin Hf).
    + intros t l Hl Hin. destruct (fi_thr c s I t l Hl) as (_ & Hk' & _).
      destruct (Hk' b Hin) as (_ & Hno). exact (Hno i Hf).
  - right. split; [|eauto]. destruct (fi_thr c s I t l Hl) as (_ & Hk' & _).
    destruct (Hk' b Hin) as (_ & Hno). exact Hno.
Qed.

(* the count of every class equals the length of its list once every thread is between operations *)
Lemma fc_count_at_quiescence_proof : forall n sc, fnc (freach n sc) < fc_gmod c ->
  let s := freach n sc in fquiescent s ->
  forall i, exists free, fwalk s (length free) i = Some free /\ fcount s i = N.of_nat (length free) mod W32.
Proof.
  intros n sc H s Hq i. pose proof (freach_inv n sc H) as I. fold s in I.
  exists (ffl s i). split; [apply fwalk_fl; assumption|].
  pose proof (fi_count c s I i) as E. pose proof (fi_cntlt c s I i) as L.
  rewrite (fcnt_all_idle (isFPushWon i) (fthr s)) in E by (auto; reflexivity).
  rewrite (fcnt_all_idle (isFPopWon i) (fthr s)) in E by (auto; reflexivity).
  cbn in E. rewrite !N.add_0_r in E. rewrite N.mod_small in E by assumption. exact E.
Qed.

End FRUN.

Lemma fc_steps_bound_generation : forall c n sc,
  N.of_nat (length sc) < fc_gmod c -> fnc (frun c (finit n c) sc) < fc_gmod c.
Proof.
  intros c n sc H. pose proof (fnc_run_le_steps c sc (finit n c)) as L. cbn [finit fnc] in L. lia.
Qed.

Lemma fc_code_wf : forall ncls bs total clear csz,
  0 < bs -> 0 < total -> total * bs <= W32 - 1 -> fcfg_wf (fc_code ncls bs total clear csz).
Proof. intros. unfold fcfg_wf. cbn. auto. Qed.

(* ---------- the head without a generation (the code before fix 8b0a274): ABA ---------- *)
Definition fopn (t : nat) (k : fcmd) (n : nat) : fsched := (t, k) :: repeat (t, FNone) n.

(* one class of 16-byte blocks (max_block_size = alignment = 16), three blocks 0 -> 16 -> 32 *)
Definition fc_aba_cfg : fcfg := fc_untagged 1 16 3.
Definition fc_aba_sched : fsched :=
  (* thread 0 starts an allocation: loads head 0 and its link 16, stops before the exchange *)
  fopn 0 (FPop 0) 2 ++
  (* thread 1 allocates 0 and 16 and frees 0: the head is 0 again, its link is 32 *)
  fopn 1 (FPop 0) 4 ++ fopn 1 (FPop 0) 4 ++ fopn 1 (FPush 0 0) 4 ++
  (* thread 0's exchange succeeds and installs 16, which thread 1 owns; its next allocation returns it *)
  [(0%nat, FNone); (0%nat, FNone)] ++ fopn 0 (FPop 0) 4.

Lemma fixedcap_untagged_refuted_proof :
  exists sc b l0 l1,
    let s := frun fc_aba_cfg (finit 2 fc_aba_cfg) sc in
    nth_error (fthr s) 0 = Some l0 /\ nth_error (fthr s) 1 = Some l1 /\
    In b (fholds l0) /\ In b (fholds l1).
Proof.
  exists fc_aba_sched, 16.
  eexists. eexists. cbv zeta.
  split; [vm_compute; reflexivity|]. split; [vm_compute; reflexivity|].
  split; vm_compute; tauto.
Qed.

(* the same schedule on the code's configuration: nothing is shared, and the hypotheses of the
   positive theorems hold for it (non-vacuity) *)
Example fc_tagged_window_safe :
  let c := fc_code 1 16 3 false (fun _ => 16) in
  fexclusive c (frun c (finit 2 c) fc_aba_sched) 16 = true /\
  fnc (frun c (finit 2 c) fc_aba_sched) = 4 /\ fcfg_wf c /\
  fnc (frun c (finit 2 c) fc_aba_sched) < fc_gmod c.
Proof. vm_compute. repeat split; try reflexivity; discriminate. Qed.
Example fc_untagged_window_unsafe :
  fexclusive fc_aba_cfg (frun fc_aba_cfg (finit 2 fc_aba_cfg) fc_aba_sched) 16 = false.
Proof. vm_compute. reflexivity. Qed.

(* splitting: with eight classes a request of class 2 walks up to the top class, takes a block
   there, and frees it onto the list of class 2 *)
Example fc_split_example :
  let c := fc_code 8 64 2 false csize8 in
  let s := frun c (finit 1 c) (fopn 0 (FPop 2) 10 ++ fopn 0 (FPush 0 2) 4) in
  fwalk s 4 2 = Some [0] /\ fwalk s 4 7 = Some [64] /\ fcount s 2 = 1 /\ fcount s 7 = 1 /\ fquiescent s.
Proof. vm_compute. repeat split; try reflexivity. repeat constructor. Qed.
