(* C08: the reported counters of the tagged-stack pools follow the successful exchanges exactly,
   under every interleaving. *)
From ZV.Common Require Import Base.
From ZV.C08 Require Import Model ProofsInv ProofsStep ProofsRun ModelStats.
Open Scope N_scope.

Definition in_pushb (p : pcT) : bool :=
  match p with PushStart _ | PushLoaded _ _ _ | PushWritten _ _ _ | PushWon => true | _ => false end.

Lemma held_total_upd : forall l t x y, nth_error l t = Some y ->
  (held_total (upd_thr l t x) + length (held y) = held_total l + length (held x))%nat.
Proof.
  induction l as [|a l IH]; intros [|t] x y H; cbn in *; try discriminate.
  - inversion H; subst. lia.
  - specialize (IH t x y H). lia.
Qed.
Lemma held_total_concat : forall l, held_total l = length (concat (map held l)).
Proof. induction l as [|a l IH]; cbn; [reflexivity|]. rewrite app_length, IH. reflexivity. Qed.
Lemma remove_n_len : forall b l, In b l -> S (length (remove_n b l)) = length l.
Proof.
  induction l as [|y l IH]; cbn; [tauto|]. intros H.
  destruct (N.eqb_spec y b) as [->|Hne]; [reflexivity|].
  cbn. f_equal. apply IH. destruct H; [congruence|assumption].
Qed.

Lemma xrun_base : forall c sc x, xs (xrun c x sc) = run c (xs x) sc.
Proof.
  induction sc as [|[t k] sc IH]; intros x; cbn [xrun run]; [reflexivity|].
  rewrite IH. unfold xstep. destruct (step c (xs x) t k) as [s' ev] eqn:E. cbn. reflexivity.
Qed.

Lemma frag_sub : forall f ab b db, f < W64 ->
  (f + ab) mod W64 = db mod W64 ->
  ((f + W64 - b mod W64) mod W64 + (ab + b)) mod W64 = db mod W64.
Proof. intros f ab b db Hf H. unfold W64 in *. lia. Qed.
Lemma frag_add : forall f ab b db,
  (f + ab) mod W64 = db mod W64 ->
  ((f + b) mod W64 + ab) mod W64 = (db + b) mod W64.
Proof. intros f ab b db H. unfold W64 in *. lia. Qed.

Ltac nomod :=
  lazymatch goal with
  | |- context [W64] => fail
  | |- _ -> _ => fail
  | _ => repeat match goal with
                | H : forall _, _ |- _ => clear H
                | H : Inv _ _ |- _ => clear H
                | H : NoDup _ |- _ => clear H
                | H : pc_ok _ _ _ |- _ => clear H
                | H : thr_at _ _ _ |- _ => clear H
                | H : nth_error _ _ = _ |- _ => clear H
                | H : _ mod W64 = _ |- _ => clear H
                end; lia
  end.

Section SINV.
Variable c : cfg.
Hypothesis Htail : forall off, bump0 c <= off -> off + bsize c <= cap c -> off <> tail c.
Hypothesis Hbs : 0 < bsize c.

Record SInv (x : xstate) : Prop := {
  si_push : fast_deallocs (xst x) + N.of_nat (cnt isPushWon (thr (xs x))) = g_npush (xst x);
  si_pop : fast_allocs (xst x) + N.of_nat (cnt isPopWon (thr (xs x))) = g_npop (xst x);
  si_len : g_npush (xst x) = g_npop (xst x) + N.of_nat (length (fl (xs x)));
  si_frag : (frag (xst x) + fast_allocs (xst x) * bsize c) mod W64 = (fast_deallocs (xst x) * bsize c) mod W64;
  si_fraglt : frag (xst x) < W64;
  si_frees : fast_deallocs (xst x) + N.of_nat (cnt in_pushb (thr (xs x))) = g_frees (xst x);
  si_mem : lfkind c = true -> mem_usage (xst x) + bump0 c = bump (xs x);
  si_cas : cas_ok (xst x) = fast_allocs (xst x) + fast_deallocs (xst x);
  si_got : g_got (xst x) = g_frees (xst x) + N.of_nat (held_total (thr (xs x)));
  si_bump : bump (xs x) + fast_allocs (xst x) * bsize c = bump0 c + g_got (xst x) * bsize c
}.

Lemma cnt_repeat_idle : forall f n, f Idle = false -> cnt f (repeat {| pc := Idle; held := [] |} n) = 0%nat.
Proof. intros f n Hf. induction n as [|n IH]; cbn; [reflexivity|]. rewrite Hf, IH. reflexivity. Qed.

Lemma xinit_sinv : forall n, SInv (xinit n c).
Proof.
  intros n.
  assert (H0 : held_total (repeat {| pc := Idle; held := [] |} n) = 0%nat).
  { induction n as [|n IH]; cbn; [reflexivity|assumption]. }
  constructor; cbn; rewrite ?cnt_repeat_idle by reflexivity; rewrite ?H0; try reflexivity; try lia.
Qed.

Ltac upd_facts Hl l' :=
  pose proof (cnt_upd isPushWon _ _ l' _ Hl) as U1;
  pose proof (cnt_upd isPopWon _ _ l' _ Hl) as U2;
  pose proof (cnt_upd in_pushb _ _ l' _ Hl) as U3;
  pose proof (held_total_upd _ _ l' _ Hl) as U4;
  cbn [pc held isPushWon isPopWon in_pushb b2n] in U1, U2, U3, U4.

Ltac fin S6 :=
  constructor; cbn [xs xst thr fl bump fast_allocs fast_deallocs cas_ok cas_fail mem_usage frag
                    g_npush g_npop g_frees g_got set_thr]; try assumption; try nomod;
  try (let Hkk := fresh in intros Hkk; first [congruence | (first [specialize (S6 Hkk) | specialize (S6 eq_refl)]; lia)]).

Theorem xstep_sinv : forall x t k,
  Inv c (xs x) -> SInv x -> SInv (fst (xstep c x t k)).
Proof.
  intros [s st] t k I S. cbn [xs] in I.
  unfold xstep, stats_step, step. cbn [xs xst].
  destruct (nth_error (thr s) t) as [l|] eqn:Hl; [|exact S].
  pose proof S as S0.
  destruct S as [S1 S2 S3 S4 S4' S5 S6 S7 S8 S9]. cbn [xs xst] in S1, S2, S3, S4, S4', S5, S6, S7, S8, S9.
  assert (Hat : thr_at s t l) by exact Hl.
  destruct (i_thr c s I _ _ Hat) as (Hnd & Hblk & Hpc).
  destruct l as [p hl]. cbn [pc held] in *.
  destruct p.
  - (* Idle *)
    destruct k; cbn [fst]; try exact S0.
    + upd_facts Hl {| pc := PopStart; held := hl |}. fin S6.
    + destruct (mem_n b hl) eqn:Hm; cbn [fst]; [|exact S0].
      apply mem_n_In in Hm. pose proof (remove_n_len b hl Hm) as L.
      upd_facts Hl {| pc := PushStart b; held := remove_n b hl |}. fin S6.
    + destruct (mem_n b hl) eqn:Hm; cbn [fst]; [|exact S0]. fin S6.
    + destruct (mem_n b hl) eqn:Hm; cbn [fst]; [|exact S0].
      apply mem_n_In in Hm. pose proof (remove_n_len b hl Hm) as L.
      upd_facts Hl {| pc := PushStart b; held := remove_n b hl |}. fin S6.
  - (* PopStart *)
    destruct (head s =? tail c); cbn [fst].
    + upd_facts Hl {| pc := PopEmpty; held := hl |}. fin S6.
    + upd_facts Hl {| pc := PopLoaded (head s) (gen s); held := hl |}. fin S6.
  - upd_facts Hl {| pc := PopRead h g (nxt s h); held := hl |}. cbn [fst]. fin S6.
  - (* PopRead *)
    destruct ((head s =? h) && (gen s =? g)) eqn:Hc; cbn [fst cas_won]; rewrite ?N.eqb_refl.
    + apply Bool.andb_true_iff in Hc. destruct Hc as [Hh Hg]. apply N.eqb_eq in Hh, Hg.
      cbn in Hpc. destruct Hpc as (_ & Hht & _).
      destruct (chain_head c _ _ _ (i_chain c s I)) as (r & Er & _); [rewrite Hh; assumption|].
      upd_facts Hl {| pc := PopWon h; held := hl |}.
      rewrite Er in S3. cbn [length] in S3.
      constructor; cbn [xs xst thr fl bump fast_allocs fast_deallocs cas_ok cas_fail mem_usage frag
                        g_npush g_npop g_frees g_got]; rewrite ?Er; cbn [tl]; try assumption; try nomod.
    + change (0 =? 1) with false. cbn iota.
      upd_facts Hl {| pc := PopStart; held := hl |}. fin S6.
  - (* PopWon *)
    cbn [fst]. upd_facts Hl {| pc := Idle; held := hl ++ [h] |}. rewrite app_length in U4. cbn [length] in U4.
    constructor; cbn [xs xst thr fl bump fast_allocs fast_deallocs cas_ok cas_fail mem_usage frag
                      g_npush g_npop g_frees g_got]; try assumption; try nomod.
    + replace ((fast_allocs st + 1) * bsize c) with (fast_allocs st * bsize c + bsize c) by lia.
      apply frag_sub; assumption.
    + apply N.mod_upper_bound. unfold W64. lia.
  - (* PopEmpty *)
    destruct (lfkind c) eqn:Hk.
    + destruct (fits c (bump s)); cbn [fst set_thr bump]; rewrite N.eqb_refl.
      * upd_facts Hl {| pc := PopBump (bump s); held := hl |}. fin S6.
      * upd_facts Hl {| pc := Idle; held := hl |}. fin S6.
    + destruct (cap c <? bump s + bsize c); cbn [fst set_thr bump].
      * rewrite N.eqb_refl. upd_facts Hl {| pc := Idle; held := hl |}. fin S6.
      * destruct (N.eqb_spec (bump s + bsize c) (bump s)) as [E|_]; [exfalso; lia|].
        upd_facts Hl {| pc := Idle; held := hl ++ [bump s] |}. rewrite app_length in U4. cbn [length] in U4.
        fin S6.
  - (* PopBump *)
    destruct (N.eqb_spec (bump s) cur) as [Ec|Ec]; cbn [fst set_thr bump].
    + destruct (N.eqb_spec (cur + bsize c) (bump s)) as [E|_]; [exfalso; lia|].
      upd_facts Hl {| pc := Idle; held := hl ++ [cur] |}. rewrite app_length in U4. cbn [length] in U4.
      fin S6.
    + destruct (fits c (bump s)); cbn [fst set_thr bump]; rewrite N.eqb_refl.
      * upd_facts Hl {| pc := PopBump (bump s); held := hl |}. fin S6.
      * upd_facts Hl {| pc := Idle; held := hl |}. fin S6.
  - upd_facts Hl {| pc := PushLoaded b (head s) (gen s); held := hl |}. cbn [fst]. fin S6.
  - upd_facts Hl {| pc := PushWritten b h g; held := hl |}. cbn [fst]. fin S6.
  - (* PushWritten *)
    destruct ((head s =? h) && (gen s =? g)) eqn:Hc; cbn [fst cas_won]; rewrite ?N.eqb_refl.
    + upd_facts Hl {| pc := PushWon; held := hl |}.
        constructor; cbn [xs xst thr fl bump fast_allocs fast_deallocs cas_ok cas_fail mem_usage frag
                        g_npush g_npop g_frees g_got length]; try assumption; try nomod.
    + change (0 =? 1) with false. cbn iota.
      upd_facts Hl {| pc := PushStart b; held := hl |}. fin S6.
  - (* PushWon *)
    cbn [fst]. upd_facts Hl {| pc := Idle; held := hl |}.
    constructor; cbn [xs xst thr fl bump fast_allocs fast_deallocs cas_ok cas_fail mem_usage frag
                      g_npush g_npop g_frees g_got]; try assumption; try nomod.
    + replace ((fast_deallocs st + 1) * bsize c) with (fast_deallocs st * bsize c + bsize c) by lia.
      apply frag_add; assumption.
    + apply N.mod_upper_bound. unfold W64. lia.
Qed.

End SINV.
