(* C08: offset-linked lists in general ([tl_] is the end marker) - shared by the models of
   the fixed-capacity pool and of the pools added later. *)
From ZV.Common Require Import Base.
From ZV.C08 Require Import Model.
Open Scope N_scope.

Section CHAIN.
Variable tl_ : N.

Fixpoint lchain (f : N -> N) (h : N) (l : list N) : Prop :=
  match l with
  | [] => h = tl_
  | x :: r => h = x /\ x <> tl_ /\ lchain f (f x) r
  end.

Lemma lchain_ext : forall f f' l h, (forall x, In x l -> f x = f' x) -> lchain f h l -> lchain f' h l.
Proof.
  induction l as [|x r IH]; cbn; intros h Hf H; [assumption|].
  destruct H as (H1 & H2 & H3). split; [assumption|]. split; [assumption|].
  rewrite <- Hf by tauto. apply IH; auto.
Qed.
Lemma lchain_head : forall f h l, lchain f h l -> h <> tl_ -> exists r, l = h :: r /\ lchain f (f h) r.
Proof.
  intros f h [|x r] H Hne; cbn in H; [contradiction|].
  destruct H as (-> & _ & H). eauto.
Qed.
Lemma lchain_tail : forall f l, lchain f tl_ l -> l = [].
Proof. intros f [|x r] H; [reflexivity|]. cbn in H. destruct H as (<- & H & _). congruence. Qed.
Lemma lchain_walk : forall f l h, lchain f h l -> walk (length l) tl_ f h = Some l.
Proof.
  induction l as [|x r IH]; cbn; intros h H.
  - subst. rewrite N.eqb_refl. reflexivity.
  - destruct H as (-> & Hne & H). apply N.eqb_neq in Hne. rewrite Hne.
    rewrite (IH _ H). reflexivity.
Qed.
Lemma lchain_in_ne_tail : forall f l h b, lchain f h l -> In b l -> b <> tl_.
Proof.
  induction l as [|x r IH]; cbn; intros h b H Hin; [contradiction|].
  destruct H as (_ & Hne & H). destruct Hin as [<-|Hin]; [assumption|eauto].
Qed.
(* a walk that succeeds determines the chain *)
Lemma walk_lchain : forall f n h l, walk n tl_ f h = Some l -> lchain f h l.
Proof.
  induction n as [|n IH]; intros h l H; cbn in H.
  - destruct (N.eqb_spec h tl_); [|discriminate]. inversion H. cbn. assumption.
  - destruct (N.eqb_spec h tl_) as [E|E]; [inversion H; cbn; assumption|].
    destruct (walk n tl_ f (f h)) eqn:W; [|discriminate]. inversion H; subst. cbn.
    split; [reflexivity|]. split; [assumption|]. apply IH. assumption.
Qed.
Lemma lchain_unique : forall f l1 l2 h, lchain f h l1 -> lchain f h l2 -> l1 = l2.
Proof.
  induction l1 as [|x r IH]; intros [|y q] h H1 H2; cbn in *; try reflexivity.
  - destruct H2 as (E & N0 & _). congruence.
  - destruct H1 as (E & N0 & _). congruence.
  - destruct H1 as (E1 & _ & H1). destruct H2 as (E2 & _ & H2). subst. f_equal. eapply IH; eauto.
Qed.
End CHAIN.

(* generic list facts *)
Lemma mem_n_In' : forall b l, mem_n b l = true <-> In b l.
Proof.
  induction l as [|x l IH]; cbn; [split; [discriminate|tauto]|].
  rewrite Bool.orb_true_iff, IH, N.eqb_eq. tauto.
Qed.
Lemma nodup_n_NoDup : forall l, nodup_n l = true <-> NoDup l.
Proof.
  induction l as [|x l IH]; cbn; [split; [constructor|reflexivity]|].
  rewrite Bool.andb_true_iff, Bool.negb_true_iff, IH. split.
  - intros [H1 H2]. constructor; [|assumption]. intro Hin. apply mem_n_In' in Hin. congruence.
  - intros H. inversion H; subst. split; [|assumption].
    destruct (mem_n x l) eqn:E; [|reflexivity]. apply mem_n_In' in E. contradiction.
Qed.

(* how a 32-bit counter, the number of threads about to add / subtract one, and the length of a
   list move together *)
Lemma count_frame32 : forall (cn cn' : N) (pw pw' pp pp' : nat) (len len' : nat),
  (cn + N.of_nat pw) mod W32 = (N.of_nat len + N.of_nat pp) mod W32 ->
  cn < W32 ->
  (  (cn' = cn /\ pw' = pw /\ pp' = pp /\ len' = len)
   \/ (cn' = cn /\ pw' = pw /\ pp' = S pp /\ len = S len')
   \/ (cn' = cn /\ pw' = S pw /\ pp' = pp /\ len' = S len)
   \/ (cn' = (cn + W32 - 1) mod W32 /\ pw' = pw /\ pp = S pp' /\ len' = len)
   \/ (cn' = (cn + 1) mod W32 /\ pw = S pw' /\ pp' = pp /\ len' = len)) ->
  (cn' + N.of_nat pw') mod W32 = (N.of_nat len' + N.of_nat pp') mod W32.
Proof.
  unfold W32. intros. lia.
Qed.
