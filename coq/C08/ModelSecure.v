(* C08 mechanism model of SecureMemoryPool (src/memory/secure_pool.rs) under concurrency, as written:
   per-thread LocalCache (a Vec used as a stack, bounded by local_cache_size) in front of the shared
   LockFreeStack (Treiber stack of heap nodes, bare head pointer), next_generation, the
   active_allocations table (DashMap: chunk address -> generation) and the atomic counters.

     allocate_with_hint:  alloc_count += 1; local cache try_pop -> hit (local_cache_hits, pool_hits,
        table insert, done in one step: nothing shared but the table and counters);
        else global_stack.pop(): load head | null -> miss: pool_misses += 1, generation :=
        next_generation.fetch_add(1), a new chunk, table insert | read head->next | compare-exchange
        head -> next; success: the node's Box is freed, cross_thread_steals / pool_hits += 1, table insert.
     deallocate_internal: dealloc_count += 1; table remove with generation check (failure = Err
        "double free", the chunk record is dropped); local cache try_push if it has room; else
        global_stack.push(chunk): Box::new(node) | load head | node.next := head | compare-exchange.

   A chunk is (serial, generation): the serial stands for its data address (chunks are never
   released while the pool lives), numbered in order of creation; its generation is the value of
   next_generation when it was created.  The sequential bookkeeping is that of coq/C07/ModelSecure.v;
   here every shared access of the stack is a step of its own (the schedule points of the hooks).
   Stack nodes live at addresses chosen by the system allocator: the schedule supplies the address
   with the free command; [s_reuse c = true]: any address that is not currently allocated (what
   malloc does), [false]: only addresses never used before (an allocator that does not recycle
   nodes while the pool lives, i.e. deferred reclamation).  Reading the link of a freed node sets
   [sfault].

   Definitions only.  [sstk] is a ghost field. *)
From ZV.Common Require Import Base.
From ZV.C08 Require Import Model.
Open Scope N_scope.

Notation chunk := (N * N)%type (only parsing).

Record scfg := { s_lcache : N; s_reuse : bool }.

Inductive scmd :=
| SNone
| SAlloc
| SFree (id : N) (a : N).     (* drop the guard of chunk id; a: address of the stack node if one is needed *)

Inductive spcT :=
| SIdle
| SPopStart                         (* before head.load *)
| SPopLoaded (h : N)                (* before the read of h->next *)
| SPopRead (h n : N)                (* before compare_exchange h -> n *)
| SPushStart (a : N) (ch : chunk)   (* node a holds ch; before head.load *)
| SPushLoaded (a h : N) (ch : chunk)   (* before a->next := h *)
| SPushWritten (a h : N) (ch : chunk). (* before compare_exchange h -> a *)

Record slocal := { spc : spcT; scache : list chunk; sheld : list chunk }.

Record scount := {
  c_alloc : N; c_dealloc : N; c_hits : N; c_misses : N; c_local : N; c_steals : N; c_dbl : N
}.

Record sstate := {
  shead : N;                         (* 0 = null *)
  slive : N -> bool;                 (* node address currently allocated *)
  sused : N -> bool;                 (* node address allocated at some time *)
  sdata : N -> chunk;
  snext : N -> N;                    (* memory keeps its last content after free *)
  sthr : list slocal;
  sgen : N;                          (* next_generation (u32, wraps) *)
  snew : N;                          (* chunks created so far = serial of the next one *)
  sact : N -> option N;              (* active_allocations: serial -> generation *)
  scnt : scount;
  sfault : bool;
  sstk : list N                      (* ghost: node addresses on the stack, top first *)
}.

Fixpoint upd_sthr (l : list slocal) (t : nat) (x : slocal) : list slocal :=
  match l, t with
  | [], _ => []
  | _ :: r, O => x :: r
  | y :: r, S t' => y :: upd_sthr r t' x
  end.

Definition upd_o {A : Type} (f : N -> A) (a : N) (v : A) : N -> A := fun x => if x =? a then v else f x.

Definition sinit (nthreads : nat) : sstate :=
  {| shead := 0; slive := fun _ => false; sused := fun _ => false; sdata := fun _ => (0, 0);
     snext := fun _ => 0; sthr := repeat {| spc := SIdle; scache := []; sheld := [] |} nthreads;
     sgen := 1; snew := 0; sact := fun _ => None;
     scnt := {| c_alloc := 0; c_dealloc := 0; c_hits := 0; c_misses := 0; c_local := 0; c_steals := 0; c_dbl := 0 |};
     sfault := false; sstk := [] |}.

(* remove the first chunk with serial id *)
Fixpoint take_id (id : N) (l : list chunk) : option (chunk * list chunk) :=
  match l with
  | [] => None
  | ch :: r => if fst ch =? id then Some (ch, r)
               else match take_id id r with Some (x, r') => Some (x, ch :: r') | None => None end
  end.

Definition nlen {A : Type} (l : list A) : N := N.of_nat (length l).

(* may the allocator return address a for a new node? *)
Definition node_ok (c : scfg) (s : sstate) (a : N) : bool :=
  negb (a =? 0) && negb (slive s a) && (s_reuse c || negb (sused s a)).

(* counters after an allocation was served from the local cache, the shared stack, or by a new chunk *)
Inductive served := FromCache | FromStack | Fresh.
Definition cnt_served (k : served) (x : scount) : scount :=
  {| c_alloc := c_alloc x; c_dealloc := c_dealloc x;
     c_hits := match k with Fresh => c_hits x | _ => c_hits x + 1 end;
     c_misses := match k with Fresh => c_misses x + 1 | _ => c_misses x end;
     c_local := match k with FromCache => c_local x + 1 | _ => c_local x end;
     c_steals := match k with FromStack => c_steals x + 1 | _ => c_steals x end; c_dbl := c_dbl x |}.
Definition cnt_alloc (x : scount) : scount :=
  {| c_alloc := c_alloc x + 1; c_dealloc := c_dealloc x; c_hits := c_hits x; c_misses := c_misses x;
     c_local := c_local x; c_steals := c_steals x; c_dbl := c_dbl x |}.
Definition cnt_dealloc (dbl : bool) (x : scount) : scount :=
  {| c_alloc := c_alloc x; c_dealloc := c_dealloc x + 1; c_hits := c_hits x; c_misses := c_misses x;
     c_local := c_local x; c_steals := c_steals x; c_dbl := if dbl then c_dbl x + 1 else c_dbl x |}.

Definition smk (p : spcT) (ca he : list chunk) : slocal := {| spc := p; scache := ca; sheld := he |}.

(* generic state update: every field given *)
Definition sset (s : sstate) (hd : N) (lv us : N -> bool) (dt : N -> chunk) (nx : N -> N)
  (th : list slocal) (g nw : N) (ac : N -> option N) (cn : scount) (ft : bool) (st : list N) : sstate :=
  {| shead := hd; slive := lv; sused := us; sdata := dt; snext := nx; sthr := th; sgen := g; snew := nw;
     sact := ac; scnt := cn; sfault := ft; sstk := st |}.
Definition sset_thr (s : sstate) (t : nat) (x : slocal) : sstate :=
  sset s (shead s) (slive s) (sused s) (sdata s) (snext s) (upd_sthr (sthr s) t x) (sgen s) (snew s)
       (sact s) (scnt s) (sfault s) (sstk s).

(* One step of thread t; observations (site, value): 1 pop load, 2 link read, 3 pop exchange,
   11 push load, 12 node address (reported when its link is written), 13 push exchange. *)
Definition sstep (c : scfg) (s : sstate) (t : nat) (k : scmd) : sstate * list (N * N) :=
  match nth_error (sthr s) t with
  | None => (s, [])
  | Some l =>
    let ca := scache l in
    let he := sheld l in
    match spc l with
    | SIdle =>
      match k with
      | SNone => (s, [])
      | SAlloc =>
          match ca with
          | ch :: ca' =>
              (sset s (shead s) (slive s) (sused s) (sdata s) (snext s)
                    (upd_sthr (sthr s) t (smk SIdle ca' (he ++ [ch]))) (sgen s) (snew s)
                    (upd_o (sact s) (fst ch) (Some (snd ch))) (cnt_served FromCache (cnt_alloc (scnt s))) (sfault s) (sstk s), [])
          | [] =>
              (sset s (shead s) (slive s) (sused s) (sdata s) (snext s)
                    (upd_sthr (sthr s) t (smk SPopStart ca he)) (sgen s) (snew s)
                    (sact s) (cnt_alloc (scnt s)) (sfault s) (sstk s), [])
          end
      | SFree id a =>
          match take_id id he with
          | None => (s, [])
          | Some (ch, he') =>
              let ok := match sact s (fst ch) with Some g => g =? snd ch | None => false end in
              let act' := upd_o (sact s) (fst ch) None in
              if negb ok
              then (* Err: double free detected; the chunk record is dropped *)
                (sset s (shead s) (slive s) (sused s) (sdata s) (snext s)
                      (upd_sthr (sthr s) t (smk SIdle ca he')) (sgen s) (snew s)
                      act' (cnt_dealloc true (scnt s)) (sfault s) (sstk s), [])
              else if nlen ca <? s_lcache c
              then (sset s (shead s) (slive s) (sused s) (sdata s) (snext s)
                         (upd_sthr (sthr s) t (smk SIdle (ch :: ca) he')) (sgen s) (snew s)
                         act' (cnt_dealloc false (scnt s)) (sfault s) (sstk s), [])
              else if node_ok c s a
              then (* Box::new(Node { data: chunk, next: null }) at address a *)
                (sset s (shead s) (upd_o (slive s) a true) (upd_o (sused s) a true) (upd_o (sdata s) a ch)
                      (upd_o (snext s) a 0)
                      (upd_sthr (sthr s) t (smk (SPushStart a ch) ca he')) (sgen s) (snew s)
                      act' (cnt_dealloc false (scnt s)) (sfault s) (sstk s), [])
              else (s, [])
          end
      end
    | SPopStart =>
        if shead s =? 0
        then (* stack empty: a new chunk with the next generation *)
          let ch := (snew s, sgen s) in
          (sset s (shead s) (slive s) (sused s) (sdata s) (snext s)
                (upd_sthr (sthr s) t (smk SIdle ca (he ++ [ch]))) ((sgen s + 1) mod W32) (snew s + 1)
                (upd_o (sact s) (fst ch) (Some (snd ch))) (cnt_served Fresh (scnt s)) (sfault s) (sstk s), [(1, 0)])
        else (sset_thr s t (smk (SPopLoaded (shead s)) ca he), [(1, shead s)])
    | SPopLoaded h =>
        (sset s (shead s) (slive s) (sused s) (sdata s) (snext s)
              (upd_sthr (sthr s) t (smk (SPopRead h (snext s h)) ca he)) (sgen s) (snew s)
              (sact s) (scnt s) (sfault s || negb (slive s h)) (sstk s), [(2, snext s h)])
    | SPopRead h n =>
        if shead s =? h
        then (* success: Box::from_raw(h).data, node freed *)
          let ch := sdata s h in
          (sset s n (upd_o (slive s) h false) (sused s) (sdata s) (snext s)
                (upd_sthr (sthr s) t (smk SIdle ca (he ++ [ch]))) (sgen s) (snew s)
                (upd_o (sact s) (fst ch) (Some (snd ch))) (cnt_served FromStack (scnt s))
                (sfault s || negb (slive s h)) (tl (sstk s)), [(3, 1)])
        else (sset_thr s t (smk SPopStart ca he), [(3, 0)])
    | SPushStart a ch => (sset_thr s t (smk (SPushLoaded a (shead s) ch) ca he), [(11, shead s)])
    | SPushLoaded a h ch =>
        (sset s (shead s) (slive s) (sused s) (sdata s) (upd_o (snext s) a h)
              (upd_sthr (sthr s) t (smk (SPushWritten a h ch) ca he)) (sgen s) (snew s)
              (sact s) (scnt s) (sfault s) (sstk s), [(12, a)])
    | SPushWritten a h ch =>
        if shead s =? h
        then (sset s a (slive s) (sused s) (sdata s) (snext s)
                   (upd_sthr (sthr s) t (smk SIdle ca he)) (sgen s) (snew s)
                   (sact s) (scnt s) (sfault s) (a :: sstk s), [(13, 1)])
        else (sset_thr s t (smk (SPushStart a ch) ca he), [(13, 0)])
    end
  end.

Definition ssched := list (nat * scmd).

Fixpoint srun (c : scfg) (s : sstate) (sc : ssched) : sstate :=
  match sc with
  | [] => s
  | (t, k) :: r => srun c (fst (sstep c s t k)) r
  end.

Fixpoint srun_trace (c : scfg) (s : sstate) (sc : ssched) : sstate * list (N * N) :=
  match sc with
  | [] => (s, [])
  | (t, k) :: r =>
      let '(s1, ev) := sstep c s t k in
      let '(s2, ev2) := srun_trace c s1 r in (s2, ev ++ ev2)
  end.

(* the stack as the code would traverse it: node addresses; None when it meets a freed node or
   does not end within the fuel *)
Fixpoint swalk (fuel : nat) (s : sstate) (h : N) : option (list N) :=
  if h =? 0 then Some []
  else match fuel with
       | O => None
       | S k => if slive s h
                then match swalk k s (snext s h) with Some r => Some (h :: r) | None => None end
                else None
       end.

Definition squiescent (s : sstate) : Prop := Forall (fun l => spc l = SIdle) (sthr s).

(* the chunk a thread is pushing *)
Definition sinflight (p : spcT) : list chunk :=
  match p with
  | SPushStart _ ch | SPushLoaded _ _ ch | SPushWritten _ _ ch => [ch]
  | _ => []
  end.
(* serials of the chunks in a thread's hands, in its cache, in its push *)
Definition splaces (l : slocal) : list N := map fst (sheld l) ++ map fst (scache l) ++ map fst (sinflight (spc l)).

(* --- observation used by the correspondence check ------------------------------ *)
Definition active_len (s : sstate) : N :=
  nlen (filter (fun i => match sact s (N.of_nat i) with Some _ => true | None => false end)
               (seq 0 (N.to_nat (snew s)))).
Definition sfinal_obs (s : sstate) (fuel : nat) :=
  (option_map (map (fun a => fst (sdata s a))) (swalk fuel s (shead s)),
   map (fun l => map fst (sheld l)) (sthr s),
   map (fun l => map fst (scache l)) (sthr s),
   let x := scnt s in [c_alloc x; c_dealloc x; c_hits x; c_misses x; c_local x; c_steals x; c_dbl x; active_len s]).
