(* C08: MemoryPool (pool.rs) under concurrency - byte accounting, counters, lock discipline and
   chunk uniqueness, for any number of threads and all schedules. *)
From ZV.Common Require Import Base.
From ZV.C08 Require Import Model ProofsInv ModelMemPool ProofsSecureInv.
Open Scope N_scope.

Lemma mupd_same : forall l t x y, nth_error l t = Some y -> nth_error (upd_mthr l t x) t = Some x.
Proof.
  induction l as [|a l IH]; intros [|t] x y H; cbn in *; try discriminate; auto.
  eapply IH; eauto.
Qed.
Lemma mupd_other : forall l t t' x, t <> t' -> nth_error (upd_mthr l t x) t' = nth_error l t'.
Proof.
  induction l as [|a l IH]; intros [|t] [|t'] x H; cbn; auto; try congruence.
Qed.

(* sums over the thread table *)
Fixpoint msum (f : mlocal -> nat) (l : list mlocal) : nat :=
  match l with [] => 0%nat | x :: r => (f x + msum f r)%nat end.
Lemma msum_upd : forall f l t x y, nth_error l t = Some y ->
  (msum f (upd_mthr l t x) + f y = msum f l + f x)%nat.
Proof.
  induction l as [|a l IH]; intros [|t] x y H; cbn in *; try discriminate.
  - inversion H; subst. lia.
  - specialize (IH t x y H). lia.
Qed.
Lemma msum_ge : forall f l t a, nth_error l t = Some a -> (f a <= msum f l)%nat.
Proof.
  induction l as [|b l IH]; intros [|t] a H; cbn in *; try discriminate.
  - inversion H; subst. lia.
  - specialize (IH t a H). lia.
Qed.
Lemma msum_le : forall f g l, (forall x, (f x <= g x)%nat) -> (msum f l <= msum g l)%nat.
Proof. induction l as [|a l IH]; intros H; cbn; [lia|]. specialize (IH H). specialize (H a). lia. Qed.
Lemma msum_zero : forall f l, (forall x, In x l -> f x = 0%nat) -> msum f l = 0%nat.
Proof.
  induction l as [|a l IH]; intros H; cbn; [reflexivity|]. rewrite H by (left; reflexivity).
  rewrite IH; [reflexivity|]. intros x Hx. apply H. right. assumption.
Qed.

Fixpoint msumN (f : mlocal -> N) (l : list mlocal) : N :=
  match l with [] => 0 | x :: r => f x + msumN f r end.
Lemma msumN_upd : forall f l t x y, nth_error l t = Some y ->
  msumN f (upd_mthr l t x) + f y = msumN f l + f x.
Proof.
  induction l as [|a l IH]; intros [|t] x y H; cbn in *; try discriminate.
  - inversion H; subst. lia.
  - specialize (IH t x y H). lia.
Qed.
Lemma msumN_ge : forall f l t a, nth_error l t = Some a -> f a <= msumN f l.
Proof.
  induction l as [|b l IH]; intros [|t] a H; cbn in *; try discriminate.
  - inversion H; subst. lia.
  - specialize (IH t a H). lia.
Qed.
Lemma msumN_le : forall f g l, (forall x, f x <= g x) -> msumN f l <= msumN g l.
Proof. induction l as [|a l IH]; intros H; cbn; [lia|]. specialize (IH H). specialize (H a). lia. Qed.
Lemma msumN_scale : forall k f l, msumN (fun x => k * N.of_nat (f x)) l = k * N.of_nat (msum f l).
Proof. induction l as [|a l IH]; cbn; [lia|]. rewrite IH. lia. Qed.

(* chunks that exist in a thread's hands or operation; not yet counted; released but still counted *)
Definition m_exist (l : mlocal) : nat := (length (mheld l) + length (minflight (mpc l)))%nat.
Definition m_uncounted (l : mlocal) : nat := match mpc l with MAStats _ => 1%nat | _ => 0%nat end.
Definition m_ghost (l : mlocal) : nat := match mpc l with MFStats => 1%nat | _ => 0%nat end.
Definition m_locked (l : mlocal) : nat := match mpc l with MAPop | MFPush _ => 1%nat | _ => 0%nat end.
Definition m_serving (l : mlocal) : nat := match mpc l with MALock | MAPop | MAMiss => 1%nat | _ => 0%nat end.
Definition m_wt (x : N) (l : mlocal) : nat := occ x (mplaces l).

Section MINV.
Variable c : mcfg.

(* the same in bytes *)
Definition be (l : mlocal) : N := m_csize c * N.of_nat (m_exist l).
Definition bu (l : mlocal) : N := m_csize c * N.of_nat (m_uncounted l).
Definition bg (l : mlocal) : N := m_csize c * N.of_nat (m_ghost l).

Lemma be_mk : forall p h, be {| mpc := p; mheld := h |} = m_csize c * N.of_nat (length h + length (minflight p)).
Proof. reflexivity. Qed.
Lemma bu_mk : forall p h, bu {| mpc := p; mheld := h |} = m_csize c * N.of_nat (match p with MAStats _ => 1 | _ => 0 end).
Proof. reflexivity. Qed.
Lemma bg_mk : forall p h, bg {| mpc := p; mheld := h |} = m_csize c * N.of_nat (match p with MFStats => 1 | _ => 0 end).
Proof. reflexivity. Qed.

Lemma be_mmk : forall p h, be (mmk p h) = m_csize c * N.of_nat (length h + length (minflight p)).
Proof. reflexivity. Qed.
Lemma bu_mmk : forall p h, bu (mmk p h) = m_csize c * N.of_nat (match p with MAStats _ => 1 | _ => 0 end).
Proof. reflexivity. Qed.
Lemma bg_mmk : forall p h, bg (mmk p h) = m_csize c * N.of_nat (match p with MFStats => 1 | _ => 0 end).
Proof. reflexivity. Qed.

Record MInv (s : mstate) : Prop := {
  mi_bytes : mallocated s + msumN bu (mthr s) =
             m_csize c * N.of_nat (length (mqueue s)) + msumN be (mthr s) + msumN bg (mthr s);
  mi_lock : msum m_locked (mthr s) = match mlock s with Some _ => 1%nat | None => 0%nat end;
  mi_holder : forall t, mlock s = Some t -> exists l, nth_error (mthr s) t = Some l /\ m_locked l = 1%nat;
  mi_served : mc_hits s + mc_misses s + N.of_nat (msum m_serving (mthr s)) = mc_alloc s;
  mi_cap : N.of_nat (length (mqueue s)) <= N.max (m_max c) 0;
  mi_occ : forall x, (msum (m_wt x) (mthr s) + occ x (mqueue s) <= b2n (N.ltb x (mnew s)))%nat
}.

Lemma msumN_repeat_idle : forall f n, f {| mpc := MIdle; mheld := [] |} = 0 ->
  msumN f (repeat {| mpc := MIdle; mheld := [] |} n) = 0.
Proof. intros f n H. induction n as [|n IH]; cbn; [reflexivity|]. rewrite H, IH. reflexivity. Qed.
Lemma msum_repeat_idle : forall f n, f {| mpc := MIdle; mheld := [] |} = 0%nat ->
  msum f (repeat {| mpc := MIdle; mheld := [] |} n) = 0%nat.
Proof. intros f n H. induction n as [|n IH]; cbn; [reflexivity|]. rewrite H, IH. reflexivity. Qed.

Lemma minit_inv : forall n, MInv (minit n).
Proof.
  intros n. constructor; cbn; rewrite ?msum_repeat_idle by reflexivity;
    rewrite ?msumN_repeat_idle by (unfold be, bu, bg; cbn; lia); cbn; try lia; try reflexivity.
  - discriminate.
  - intros x. rewrite msum_repeat_idle by reflexivity. cbn. lia.
Qed.

Lemma occ_snoc_n : forall x l y, occ x (l ++ [y]) = (occ x l + b2n (N.eqb y x))%nat.
Proof. intros. rewrite occ_app. cbn. lia. Qed.
Lemma occ_remove_n : forall x b l, In b l ->
  occ x l = (b2n (N.eqb b x) + occ x (remove_n b l))%nat.
Proof.
  induction l as [|y l IH]; cbn; [tauto|]. intros H.
  destruct (N.eqb_spec y b) as [->|Hne]; [reflexivity|].
  cbn. rewrite IH by (destruct H; [congruence|assumption]). lia.
Qed.
Lemma remove_n_len' : forall b l, In b l -> S (length (remove_n b l)) = length l.
Proof.
  induction l as [|y l IH]; cbn; [tauto|]. intros H.
  destruct (N.eqb_spec y b) as [->|Hne]; [reflexivity|].
  cbn. f_equal. apply IH. destruct H; [congruence|assumption].
Qed.
Lemma b2n_ltb_succ' : forall x n, b2n (N.ltb x (n + 1)) = (b2n (N.ltb x n) + b2n (N.eqb n x))%nat.
Proof. intros x n. destruct (N.ltb_spec x (n + 1)), (N.ltb_spec x n), (N.eqb_spec n x); cbn; lia. Qed.

Ltac facts Hl l' :=
  pose proof (msumN_upd be _ _ l' _ Hl) as U1;
  pose proof (msumN_upd bu _ _ l' _ Hl) as U2;
  pose proof (msumN_upd bg _ _ l' _ Hl) as U3;
  rewrite be_mmk, be_mk in U1; rewrite bu_mmk, bu_mk in U2; rewrite bg_mmk, bg_mk in U3;
  pose proof (msum_upd m_locked _ _ l' _ Hl) as U4;
  pose proof (msum_upd m_serving _ _ l' _ Hl) as U5;
  cbn [m_exist m_uncounted m_ghost m_locked m_serving mpc mheld mmk minflight length] in U1, U2, U3, U4, U5.

(* the holder fact after the moving thread t changed to l' *)
Lemma holder_keep : forall s t l l' lk,
  nth_error (mthr s) t = Some l ->
  (forall t0, lk = Some t0 -> (t0 = t /\ m_locked l' = 1%nat) \/ (t0 <> t /\ mlock s = Some t0)) ->
  (forall t0, mlock s = Some t0 -> exists l0, nth_error (mthr s) t0 = Some l0 /\ m_locked l0 = 1%nat) ->
  forall t0, lk = Some t0 -> exists l0, nth_error (upd_mthr (mthr s) t l') t0 = Some l0 /\ m_locked l0 = 1%nat.
Proof.
  intros s t l l' lk Hl Hc Hh t0 E. destruct (Hc t0 E) as [[-> Hk]|[Hne Hs]].
  - exists l'. split; [eapply mupd_same; eassumption|assumption].
  - destruct (Hh t0 Hs) as (l0 & H0 & H1). exists l0. split; [rewrite mupd_other by auto; assumption|assumption].
Qed.

Lemma holder_keep0 : forall s t l l',
  nth_error (mthr s) t = Some l -> m_locked l = 0%nat ->
  (forall t0, mlock s = Some t0 -> exists l0, nth_error (mthr s) t0 = Some l0 /\ m_locked l0 = 1%nat) ->
  forall t0, mlock s = Some t0 -> exists l0, nth_error (upd_mthr (mthr s) t l') t0 = Some l0 /\ m_locked l0 = 1%nat.
Proof.
  intros s t l l' Hl H0 Hh t0 E. destruct (Hh t0 E) as (l0 & G0 & G1).
  assert (t0 <> t) by (intros ->; rewrite Hl in G0; inversion G0; subst; lia).
  exists l0. split; [rewrite mupd_other by auto; assumption|assumption].
Qed.

Theorem mstep_inv : forall s t k, MInv s -> MInv (fst (mstep c s t k)).
Proof.
  intros s t k M. unfold mstep.
  destruct (nth_error (mthr s) t) as [l|] eqn:Hl; [|exact M].
  pose proof M as M0. destruct M as [B L H S C O].
  destruct l as [p he]. cbn [mpc mheld].
  assert (W : forall x l', (msum (m_wt x) (upd_mthr (mthr s) t l') + m_wt x {| mpc := p; mheld := he |} =
                           msum (m_wt x) (mthr s) + m_wt x l')%nat).
  { intros x l'. apply (msum_upd (m_wt x) _ _ l' _ Hl). }
  destruct p.
  - (* MIdle *)
    destruct k; try exact M0.
    + cbn [fst]. facts Hl (mmk MALock he).
      constructor; cbn [mset mqueue mlock mallocated mc_alloc mc_dealloc mc_hits mc_misses mnew mthr]; try lia.
      * rewrite <- ?Elk. eapply holder_keep0; [exact Hl|reflexivity|exact H].
      * intros x. specialize (W x (mmk MALock he)). specialize (O x). unfold m_wt, mplaces in *. cbn in *. lia.
    + destruct (mem_n ch he) eqn:Hm; [|exact M0]. cbn [fst]. apply mem_n_In in Hm.
      pose proof (remove_n_len' ch he Hm) as RL.
      facts Hl (mmk (MFLock ch) (remove_n ch he)).
      constructor; cbn [mset mqueue mlock mallocated mc_alloc mc_dealloc mc_hits mc_misses mnew mthr]; try lia.
      * rewrite <- ?Elk. eapply holder_keep0; [exact Hl|reflexivity|exact H].
      * intros x. specialize (W x (mmk (MFLock ch) (remove_n ch he))). specialize (O x).
        unfold m_wt, mplaces in *. cbn [mpc mheld mmk minflight] in *. rewrite !occ_app in *. cbn [occ] in *.
        rewrite (occ_remove_n x ch he Hm) in W. lia.
  - (* MALock *)
    destruct (mlock s) as [t1|] eqn:Elk; rewrite <- ?Elk in H; cbn [fst].
    + facts Hl (mmk MAMiss he).
      constructor; cbn [mset mqueue mlock mallocated mc_alloc mc_dealloc mc_hits mc_misses mnew mthr]; try lia.
      * rewrite <- ?Elk. eapply holder_keep0; [exact Hl|reflexivity|exact H].
      * intros x. specialize (W x (mmk MAMiss he)). specialize (O x). unfold m_wt, mplaces in *. cbn in *. lia.
    + facts Hl (mmk MAPop he).
      constructor; cbn [mset mqueue mlock mallocated mc_alloc mc_dealloc mc_hits mc_misses mnew mthr]; try lia.
      * intros t0 E. inversion E; subst t0. exists (mmk MAPop he). split; [eapply mupd_same; eassumption|reflexivity].
      * intros x. specialize (W x (mmk MAPop he)). specialize (O x). unfold m_wt, mplaces in *. cbn in *. lia.
  - (* MAPop *)
    assert (Hlk : exists t1, mlock s = Some t1).
    { destruct (mlock s) eqn:E; [eauto|]. pose proof (msum_ge m_locked _ _ _ Hl). cbn in H0. lia. }
    destruct Hlk as (t1 & Elk). rewrite Elk in L.
    destruct (mqueue s) as [|ch q] eqn:Eq; cbn [fst]; cbn [length] in B, C.
    + facts Hl (mmk MAMiss he).
      constructor; cbn [mset mqueue mlock mallocated mc_alloc mc_dealloc mc_hits mc_misses mnew mthr length]; try lia.
      * intros t0 E; discriminate.
      * intros x. specialize (W x (mmk MAMiss he)). specialize (O x). unfold m_wt, mplaces in *. cbn in *. lia.
    + facts Hl (mmk MIdle (he ++ [ch])). rewrite app_length in U1. cbn [length] in *. rewrite ?Nat2N.inj_add in U1.
      constructor; cbn [mset mqueue mlock mallocated mc_alloc mc_dealloc mc_hits mc_misses mnew mthr length]; try lia.
      * intros t0 E; discriminate.
      * intros x. specialize (W x (mmk MIdle (he ++ [ch]))). specialize (O x).
        unfold m_wt, mplaces in *. cbn [mpc mheld mmk minflight occ] in *. rewrite !occ_app in *. cbn [occ] in *. lia.
  - (* MAMiss *)
    cbn [fst]. facts Hl (mmk (MAStats (mnew s)) he).
    constructor; cbn [mset mqueue mlock mallocated mc_alloc mc_dealloc mc_hits mc_misses mnew mthr]; try lia.
    + rewrite <- ?Elk. eapply holder_keep0; [exact Hl|reflexivity|exact H].
    + intros x. specialize (W x (mmk (MAStats (mnew s)) he)). specialize (O x).
      unfold m_wt, mplaces in *. cbn [mpc mheld mmk minflight occ] in *. rewrite !occ_app in *. cbn [occ] in *.
      rewrite b2n_ltb_succ'. lia.
  - (* MAStats *)
    cbn [fst]. facts Hl (mmk MIdle (he ++ [ch])). rewrite app_length in U1. cbn [length] in *. rewrite ?Nat2N.inj_add in U1.
    constructor; cbn [mset mqueue mlock mallocated mc_alloc mc_dealloc mc_hits mc_misses mnew mthr]; try lia.
    + rewrite <- ?Elk. eapply holder_keep0; [exact Hl|reflexivity|exact H].
    + intros x. specialize (W x (mmk MIdle (he ++ [ch]))). specialize (O x).
      unfold m_wt, mplaces in *. cbn [mpc mheld mmk minflight occ] in *. rewrite !occ_app in *. cbn [occ] in *. lia.
  - (* MFLock *)
    destruct (mlock s) as [t1|] eqn:Elk; rewrite <- ?Elk in H; cbn [fst].
    + facts Hl (mmk (MFDirect ch) he).
      constructor; cbn [mset mqueue mlock mallocated mc_alloc mc_dealloc mc_hits mc_misses mnew mthr]; try lia.
      * rewrite <- ?Elk. eapply holder_keep0; [exact Hl|reflexivity|exact H].
      * intros x. specialize (W x (mmk (MFDirect ch) he)). specialize (O x). unfold m_wt, mplaces in *. cbn in *. lia.
    + facts Hl (mmk (MFPush ch) he).
      constructor; cbn [mset mqueue mlock mallocated mc_alloc mc_dealloc mc_hits mc_misses mnew mthr]; try lia.
      * intros t0 E. inversion E; subst t0. exists (mmk (MFPush ch) he). split; [eapply mupd_same; eassumption|reflexivity].
      * intros x. specialize (W x (mmk (MFPush ch) he)). specialize (O x). unfold m_wt, mplaces in *. cbn in *. lia.
  - (* MFPush *)
    assert (Hlk : exists t1, mlock s = Some t1).
    { destruct (mlock s) eqn:E; [eauto|]. pose proof (msum_ge m_locked _ _ _ Hl). cbn in H0. lia. }
    destruct Hlk as (t1 & Elk). rewrite Elk in L.
    destruct (N.ltb_spec (N.of_nat (length (mqueue s))) (m_max c)) as [Hroom|Hfull]; cbn [fst].
    + facts Hl (mmk MIdle he).
      constructor; cbn [mset mqueue mlock mallocated mc_alloc mc_dealloc mc_hits mc_misses mnew mthr]; rewrite ?app_length; cbn [length]; try lia.
      * intros t0 E; discriminate.
      * intros x. specialize (W x (mmk MIdle he)). specialize (O x).
        unfold m_wt, mplaces in *. cbn [mpc mheld mmk minflight occ] in *. rewrite !occ_app in *. cbn [occ] in *. lia.
    + facts Hl (mmk (MFDirect ch) he).
      constructor; cbn [mset mqueue mlock mallocated mc_alloc mc_dealloc mc_hits mc_misses mnew mthr]; try lia.
      * intros t0 E; discriminate.
      * intros x. specialize (W x (mmk (MFDirect ch) he)). specialize (O x). unfold m_wt, mplaces in *. cbn in *. lia.
  - (* MFDirect: the chunk is released *)
    cbn [fst]. facts Hl (mmk MFStats he).
    constructor; cbn [mset mqueue mlock mallocated mc_alloc mc_dealloc mc_hits mc_misses mnew mthr]; try lia.
    + rewrite <- ?Elk. eapply holder_keep0; [exact Hl|reflexivity|exact H].
    + intros x. specialize (W x (mmk MFStats he)). specialize (O x).
      unfold m_wt, mplaces in *. cbn [mpc mheld mmk minflight occ] in *. rewrite !occ_app in *. cbn [occ] in *. lia.
  - (* MFStats: the bytes of the released chunk are subtracted; saturating_sub never saturates *)
    cbn [fst]. facts Hl (mmk MIdle he).
    assert (Hle : msumN bu (mthr s) <= msumN be (mthr s)).
    { apply msumN_le. intros y. unfold bu, be, m_uncounted, m_exist. destruct (mpc y); cbn; lia. }
    assert (Hg : m_csize c <= msumN bg (mthr s)).
    { pose proof (msumN_ge bg _ _ _ Hl) as G. rewrite bg_mk in G. lia. }
    constructor; cbn [mset mqueue mlock mallocated mc_alloc mc_dealloc mc_hits mc_misses mnew mthr]; try lia.
    + rewrite <- ?Elk. eapply holder_keep0; [exact Hl|reflexivity|exact H].
    + intros x. specialize (W x (mmk MIdle he)). specialize (O x). unfold m_wt, mplaces in *. cbn in *. lia.
Qed.


Lemma mrun_inv : forall sc s, MInv s -> MInv (mrun c s sc).
Proof.
  induction sc as [|[t k] sc IH]; intros s M; cbn; [assumption|]. apply IH. apply mstep_inv. assumption.
Qed.

End MINV.

Lemma occ_le1_nodup : forall l, (forall x, (occ x l <= 1)%nat) -> NoDup l.
Proof.
  induction l as [|y l IH]; intros H; constructor.
  - intro Hin. specialize (H y). cbn in H. rewrite N.eqb_refl in H. pose proof (occ_in y l Hin). cbn in H. lia.
  - apply IH. intros x. specialize (H x). cbn in H. lia.
Qed.
Lemma msum_wt_concat : forall x l, msum (m_wt x) l = occ x (concat (map mplaces l)).
Proof. induction l as [|a l IH]; cbn; [reflexivity|]. rewrite occ_app, IH. reflexivity. Qed.
Lemma msum_idle_zero : forall f l, (forall h, f {| mpc := MIdle; mheld := h |} = 0%nat) ->
  Forall (fun x => mpc x = MIdle) l -> msum f l = 0%nat.
Proof.
  intros f l Hf H. induction H as [|x l Hx _ IH]; cbn; [reflexivity|].
  destruct x as [p h]. cbn in Hx. subst p. rewrite Hf, IH. reflexivity.
Qed.
Lemma msum_exist_idle : forall l, Forall (fun x => mpc x = MIdle) l ->
  msum m_exist l = length (concat (map mheld l)).
Proof.
  intros l H. induction H as [|x l Hx _ IH]; cbn; [reflexivity|].
  unfold m_exist at 1. rewrite Hx, app_length, IH. cbn. lia.
Qed.
Lemma mplaces_idle : forall l, Forall (fun x => mpc x = MIdle) l ->
  concat (map mplaces l) = concat (map mheld l).
Proof.
  intros l H. induction H as [|x l Hx _ IH]; cbn; [reflexivity|].
  unfold mplaces at 1. rewrite Hx, IH. cbn. rewrite app_nil_r. reflexivity.
Qed.

(* in every reachable state no chunk is in two places (pooled, held, or carried through an operation) *)
Lemma mempool_unique_proof : forall c n sc,
  let s := mrun c (minit n) sc in NoDup (mqueue s ++ concat (map mplaces (mthr s))).
Proof.
  intros c n sc s. pose proof (mrun_inv c sc _ (minit_inv c n)) as M. fold s in M.
  apply occ_le1_nodup. intros x. rewrite occ_app, <- msum_wt_concat.
  pose proof (mi_occ c s M x). destruct (N.ltb x (mnew s)); cbn in *; lia.
Qed.

Lemma mempool_accounting_proof : forall c n sc,
  let s := mrun c (minit n) sc in mquiescent s ->
  mallocated s = m_csize c * N.of_nat (length (mqueue s) + length (concat (map mheld (mthr s)))) /\
  mc_hits s + mc_misses s = mc_alloc s /\ mlock s = None /\
  N.of_nat (length (mqueue s)) <= m_max c /\
  NoDup (mqueue s ++ concat (map mheld (mthr s))).
Proof.
  intros c n sc s Hq. pose proof (mrun_inv c sc _ (minit_inv c n)) as M. fold s in M.
  destruct M as [B L H S C O].
  unfold bu, bg, be in B. rewrite !msumN_scale in B.
  rewrite (msum_idle_zero m_uncounted) in B by (auto; reflexivity).
  rewrite (msum_idle_zero m_ghost) in B by (auto; reflexivity).
  rewrite (msum_exist_idle _ Hq) in B.
  rewrite (msum_idle_zero m_serving) in S by (auto; reflexivity).
  rewrite (msum_idle_zero m_locked) in L by (auto; reflexivity).
  split; [lia|]. split; [lia|]. split; [destruct (mlock s); [discriminate|reflexivity]|].
  split; [lia|].
  pose proof (mempool_unique_proof c n sc) as U. cbv zeta in U. fold s in U. rewrite (mplaces_idle _ Hq) in U. exact U.
Qed.

(* non-vacuity and the behaviour under a busy lock: thread 1 frees while thread 0 holds the queue lock -
   its chunk is released directly and the bytes are subtracted; everything adds up at the end *)
Definition mopn (t : nat) (k : mcmd) (n : nat) : msched := (t, k) :: repeat (t, MNone) n.
Example mempool_busy_lock_example :
  let c := {| m_csize := 64; m_max := 2 |} in
  let s := mrun c (minit 2) (mopn 0 MAlloc 4 ++ mopn 1 MAlloc 4 ++ mopn 0 (MFree 0) 1 ++ mopn 1 (MFree 1) 3 ++ [(0%nat, MNone)]) in
  mquiescent s /\ mqueue s = [0] /\ mallocated s = 64 /\ mc_misses s = 2 /\ mc_dealloc s = 2 /\ mlock s = None.
Proof. vm_compute. repeat split; try reflexivity. repeat constructor. Qed.
