(* C08: every step of every thread preserves the invariant as long as the generation
   has not wrapped; consequences for whole schedules. *)
From ZV.Common Require Import Base.
From ZV.C08 Require Import Model ProofsInv.
Open Scope N_scope.

Lemma upd_id : forall l t x, nth_error l t = Some x -> upd_thr l t x = l.
Proof.
  induction l as [|a l IH]; intros [|t] x H; cbn in *; try discriminate.
  - inversion H; reflexivity.
  - f_equal. auto.
Qed.

Section STEP.
Variable c : cfg.
Hypothesis Htail : forall off, bump0 c <= off -> off + bsize c <= cap c -> off <> tail c.
Hypothesis Hbs : 0 < bsize c.

Notation Inv := (Inv c).
Notation chain := (chain c).
Notation pc_ok := (pc_ok c).
Notation blk_ok := (blk_ok c).
Notation carved := (carved c).

(* pc_ok does not depend on anything but head, gen, nxt *)
Lemma pc_ok_same : forall s s' p, head s' = head s -> gen s' = gen s -> nxt s' = nxt s ->
  pc_ok s p -> pc_ok s' p.
Proof. intros s s' p H1 H2 H3. destruct p; cbn; rewrite ?H1, ?H2, ?H3; auto. Qed.

(* after a successful exchange the generation is larger than anything a thread remembers *)
Lemma pc_ok_gen_up : forall s s' p, gen s' = gen s + 1 -> nxt s' = nxt s ->
  pc_ok s p -> pc_ok s' p.
Proof.
  intros s s' p Hg Hn. destruct p; cbn; rewrite ?Hg, ?Hn; auto.
  - intros (H1 & H2 & _). split; [lia|]. split; [assumption|]. intros; exfalso; lia.
  - intros (H1 & H2 & _). split; [lia|]. split; [assumption|]. intros; exfalso; lia.
  - intros H1. lia.
  - intros (H1 & H2). split; [lia|assumption].
Qed.

(* writing the link word of a block that is not on the free list and not held by x *)
Lemma pc_ok_write : forall s s' b v x,
  Inv s -> head s' = head s -> gen s' = gen s -> nxt s' = upd_nxt (nxt s) b v ->
  ~ In b (fl s) -> ~ In b (holds x) ->
  pc_ok s (pc x) -> pc_ok s' (pc x).
Proof.
  intros s s' b v x I H1 H2 H3 Hbf Hbx.
  destruct (pc x) eqn:Ep; cbn; rewrite ?H1, ?H2, ?H3; auto.
  - intros (Ha & Hb & Hc). split; [assumption|]. split; [assumption|].
    intros E. destruct (Hc E) as [Hh Hn]. split; [assumption|].
    unfold upd_nxt. destruct (N.eqb_spec h b) as [->|]; [|assumption].
    exfalso. apply Hbf. destruct (chain_head c _ _ _ (i_chain c s I)) as (r & Er & _).
    + rewrite Hh. assumption.
    + rewrite Er, Hh. left. reflexivity.
  - intros (Ha & Hb). split; [assumption|].
    unfold upd_nxt. destruct (N.eqb_spec b0 b) as [->|]; [|assumption].
    exfalso. apply Hbx. unfold holds. rewrite Ep. cbn. rewrite in_app_iff. right. left. reflexivity.
Qed.

Lemma count_frame : forall (cn cn' : N) (pw pw' pp pp' : nat) (len len' : nat),
  (cn + N.of_nat pw) mod W32 = (N.of_nat len + N.of_nat pp) mod W32 ->
  cn < W32 ->
  (  (cn' = cn /\ pw' = pw /\ pp' = pp /\ len' = len)
   \/ (cn' = cn /\ pw' = pw /\ pp' = S pp /\ len = S len')            (* pop exchange *)
   \/ (cn' = cn /\ pw' = S pw /\ pp' = pp /\ len' = S len)            (* push exchange *)
   \/ (cn' = (cn + W32 - 1) mod W32 /\ pw' = pw /\ pp = S pp' /\ len' = len)   (* fetch_sub *)
   \/ (cn' = (cn + 1) mod W32 /\ pw = S pw' /\ pp' = pp /\ len' = len)) ->     (* fetch_add *)
  (cn' + N.of_nat pw') mod W32 = (N.of_nat len' + N.of_nat pp') mod W32.
Proof.
  unfold W32. intros. lia.
Qed.

Lemma blk_ok_same : forall s s' b, fl s' = fl s -> bump s' = bump s -> blk_ok s b -> blk_ok s' b.
Proof. unfold ProofsInv.blk_ok. intros s s' b -> ->. auto. Qed.

Lemma carved_same : forall s s' b, bump s' = bump s -> carved s' b -> carved s b.
Proof. unfold ProofsInv.carved. intros s s' b ->. auto. Qed.

Lemma holds_mk : forall p h, holds {| pc := p; held := h |} = h ++ inflight p.
Proof. reflexivity. Qed.

(* carving the block at the current bump offset and handing it to thread t *)
Lemma bump_success : forall s t p hl,
  Inv s -> thr_at s t {| pc := p; held := hl |} -> inflight p = [] ->
  isPushWon p = false -> isPopWon p = false ->
  bump s + bsize c <= cap c ->
  Inv {| head := head s; gen := gen s; nxt := nxt s; count := count s;
         bump := bump s + bsize c;
         thr := upd_thr (thr s) t {| pc := Idle; held := hl ++ [bump s] |};
         fl := fl s; ncas := ncas s |}.
Proof.
  intros s t p hl I Hl Hinf Hw1 Hw2 Hroom.
  destruct (i_thr c s I _ _ Hl) as (Hnd & Hblk & Hpc).
  rewrite holds_mk, Hinf in *. rewrite ?app_nil_r in *.
  pose proof I as I0. destruct I as [Ich Ind Ig Ib Ifl Ith Idj Ico Icl Icn].
  destruct Ib as (m & Em).
  assert (Hfresh : ~ In (bump s) hl).
  { intro Hin. destruct (Hblk _ Hin) as (_ & Hlt & _). lia. }
  eapply (inv_frame c) with (t := t) (l := {| pc := p; held := hl |})
                            (l' := {| pc := Idle; held := hl ++ [bump s] |});
    try eassumption; unfold holds; cbn [head gen nxt count bump thr fl ncas pc held inflight]; rewrite ?Hinf, ?app_nil_r; auto.
  * exists (m + 1). lia.
  * intros b Hb. specialize (Ifl b Hb). lia.
  * apply NoDup_snoc; assumption.
  * intros b Hb. rewrite in_app_iff in Hb. cbn in Hb. unfold ProofsInv.blk_ok. cbn [fl bump].
    destruct Hb as [Hb|[<-|[]]].
    -- destruct (Hblk b Hb) as (H1 & H2 & H3). split; [assumption|]. split; [lia|assumption].
    -- split; [intro Hin; specialize (Ifl _ Hin); lia|]. split; [lia|].
       apply Htail; lia.
  * exact Logic.I.
  * intros b (H1 & H2 & H3) _. unfold ProofsInv.blk_ok. cbn. split; [assumption|]. split; [lia|assumption].
  * intros b Hb. rewrite in_app_iff in Hb. cbn in Hb. destruct Hb as [Hb|[<-|[]]]; [left; assumption|].
    right. intros (_ & Hlt & _). lia.
  * intros b (k0 & E1 & E2 & E3). cbn in E3.
    destruct (N.eq_dec k0 m) as [->|Hkm].
    -- right. rewrite in_app_iff. right. left. lia.
    -- left. exists k0. split; [assumption|]. split; [assumption|]. nia.
  * intros b Hb. right. rewrite in_app_iff. tauto.
  * pose proof (cnt_upd isPushWon _ _ {| pc := Idle; held := hl ++ [bump s] |} _ Hl) as E1.
    pose proof (cnt_upd isPopWon _ _ {| pc := Idle; held := hl ++ [bump s] |} _ Hl) as E2.
    cbn in E1, E2. rewrite Hw1 in E1. rewrite Hw2 in E2. cbn in E1, E2.
    eapply count_frame; [exact Icn|assumption|]. left. lia.
Qed.

Ltac loc := eapply inv_local; try eassumption; try reflexivity; unfold holds; cbn;
            rewrite ?app_nil_r; try tauto; try assumption.

Theorem step_inv : forall s t k,
  Inv s -> ncas (fst (step c s t k)) < gmod c -> Inv (fst (step c s t k)).
Proof.
  intros s t k I Hn. unfold step in *.
  destruct (nth_error (thr s) t) as [l|] eqn:Hl; [|exact I].
  assert (Hat : thr_at s t l) by exact Hl.
  destruct (i_thr c s I _ _ Hat) as (Hnd & Hblk & Hpc).
  destruct l as [p hl]. cbn [pc held] in *. rewrite holds_mk in *.
  destruct p; cbn [inflight] in *.
  - (* Idle *)
    destruct k.
    + exact I.
    + (* CPop *) cbn [fst].
      loc.
    + (* CPush b *)
      destruct (mem_n b hl) eqn:Hm; [|exact I]. cbn [fst].
      apply mem_n_In in Hm. rewrite ?app_nil_r in *.
      destruct (remove_n_NoDup b hl Hnd) as [R1 R2].
      eapply inv_local; try eassumption; try reflexivity; unfold holds; cbn [pc held inflight].
      * intros x. rewrite app_nil_r, in_app_iff. cbn. split.
        -- intros [H|[<-|[]]]; [eapply remove_n_In; eauto|assumption].
        -- intros H. destruct (N.eq_dec x b) as [->|Hne]; [tauto|left; apply remove_n_keeps; auto].
      * apply NoDup_snoc; assumption.
    + (* CScribble b v *)
      destruct (mem_n b hl) eqn:Hm; [|exact I]. cbn [fst].
      apply mem_n_In in Hm. rewrite ?app_nil_r in *.
      destruct (Hblk b Hm) as (Hbf & Hbb & Hbt).
      pose proof I as I0. destruct I as [Ich Ind Ig Ib Ifl Ith Idj Ico Icl Icn].
      eapply (inv_frame c) with (t := t) (l := {| pc := Idle; held := hl |}) (l' := {| pc := Idle; held := hl |});
        try eassumption; unfold holds; cbn [head gen nxt count bump thr fl ncas pc held inflight]; rewrite ?app_nil_r; auto.
      * symmetry. apply upd_id. assumption.
      * eapply chain_ext; [|eassumption]. intros x Hx. unfold upd_nxt.
        destruct (N.eqb_spec x b) as [->|]; [contradiction|reflexivity].
      * intros x Hx Hp. eapply pc_ok_write with (s := s) (b := b) (v := v); eauto.
        intro Hbx. destruct (Hx b Hbx) as [_ Hno]. apply Hno. assumption.
    + (* CPushZ b sz: the owner scrubs the block, then starts the push *)
      destruct (mem_n b hl) eqn:Hm; [|exact I]. cbn [fst].
      apply mem_n_In in Hm. rewrite ?app_nil_r in *.
      destruct (Hblk b Hm) as (Hbf & Hbb & Hbt).
      destruct (remove_n_NoDup b hl Hnd) as [R1 R2].
      pose proof I as I0. destruct I as [Ich Ind Ig Ib Ifl Ith Idj Ico Icl Icn].
      eapply (inv_frame c) with (t := t) (l := {| pc := Idle; held := hl |})
                                (l' := {| pc := PushStart b; held := remove_n b hl |});
        try eassumption; unfold holds; cbn [head gen nxt count bump thr fl ncas pc held inflight]; rewrite ?app_nil_r; auto.
      * eapply chain_ext; [|eassumption]. intros x Hx. unfold upd_nxt.
        destruct (N.eqb_spec x b) as [->|]; [contradiction|reflexivity].
      * apply NoDup_snoc; assumption.
      * intros x Hx. rewrite in_app_iff in Hx. cbn in Hx. unfold ProofsInv.blk_ok. cbn [fl bump].
        destruct Hx as [Hx|[<-|[]]]; [|tauto]. apply remove_n_In in Hx. exact (Hblk x Hx).
      * intros x Hx Hp. eapply pc_ok_write with (s := s) (b := b) (v := zero_low (nxt s b) sz); eauto.
        intro Hbx. destruct (Hx b Hbx) as [_ Hno]. apply Hno. assumption.
      * intros x Hx. rewrite in_app_iff in Hx. cbn in Hx. left.
        destruct Hx as [Hx|[<-|[]]]; [eapply remove_n_In; eauto|assumption].
      * intros x Hx. right. rewrite in_app_iff. cbn.
        destruct (N.eq_dec x b) as [->|Hne]; [tauto|left; apply remove_n_keeps; auto].
      * pose proof (cnt_upd isPushWon _ _ {| pc := PushStart b; held := remove_n b hl |} _ Hl) as E1.
        pose proof (cnt_upd isPopWon _ _ {| pc := PushStart b; held := remove_n b hl |} _ Hl) as E2.
        cbn in E1, E2. eapply count_frame; [exact Icn|assumption|]. left. lia.
  - (* PopStart *)
    rewrite ?app_nil_r in *.
    destruct (N.eqb_spec (head s) (tail c)) as [He|Hne]; cbn [fst].
    + loc.
    + loc.
      split; [lia|]. split; [assumption|reflexivity].
  - (* PopLoaded *)
    rewrite ?app_nil_r in *. cbn [fst].
    loc.
    cbn in Hpc. destruct Hpc as (H1 & H2 & H3). split; [assumption|]. split; [assumption|].
    intros E. split; [auto|reflexivity].
  - (* PopRead: the compare-exchange of pop *)
    rewrite ?app_nil_r in *.
    destruct ((head s =? h) && (gen s =? g)) eqn:Hc; cbn [fst] in *.
    + apply Bool.andb_true_iff in Hc. destruct Hc as [Hh Hg]. apply N.eqb_eq in Hh, Hg.
      cbn [ncas] in Hn.
      cbn in Hpc. destruct Hpc as (_ & Hht & Hc3). destruct (Hc3 (eq_sym Hg)) as [_ Hnx].
      pose proof I as I0. destruct I as [Ich Ind Ig Ib Ifl Ith Idj Ico Icl Icn].
      destruct (chain_head c _ _ _ Ich) as (r & Er & Hr); [rewrite Hh; assumption|].
      rewrite Hh in Er, Hr. rewrite Hnx in Hr.
      assert (Eg : (g + 1) mod gmod c = g + 1) by (apply N.mod_small; lia).
      rewrite Er in Ind. inversion Ind as [|? ? Hnr Hndr]; subst x l.
      eapply (inv_frame c) with (t := t) (l := {| pc := PopRead h g n; held := hl |})
                                (l' := {| pc := PopWon h; held := hl |});
        try eassumption; unfold holds; cbn [head gen nxt count bump thr fl ncas pc held inflight]; rewrite ?Er; cbn [tl]; auto.
      * rewrite Eg. lia.
      * intros b Hb. apply Ifl. rewrite Er. right. assumption.
      * apply NoDup_snoc; [assumption|].
        intro Hin. destruct (Hblk h Hin) as (Hf & _). apply Hf. rewrite Er. left. reflexivity.
      * intros b Hb. rewrite in_app_iff in Hb. cbn in Hb. unfold ProofsInv.blk_ok. cbn [fl bump].
        destruct Hb as [Hb|[<-|[]]].
        -- destruct (Hblk b Hb) as (Hf & Hbb & Hbt). split; [|tauto].
           intro Hin. apply Hf. rewrite Er. right. assumption.
        -- split; [assumption|]. split; [apply Ifl; rewrite Er; left; reflexivity|assumption].
      * exact I.
      * intros b (Hf & Hbb & Hbt) _. unfold ProofsInv.blk_ok. cbn [fl bump]. split; [|tauto].
        intro Hin. apply Hf. rewrite Er. right. assumption.
      * intros x _ Hp. eapply pc_ok_gen_up with (s := s); cbn; try rewrite Eg; auto. lia.
      * intros b Hb. rewrite in_app_iff in Hb. cbn in Hb. destruct Hb as [Hb|[<-|[]]].
        -- left. rewrite app_nil_r. assumption.
        -- right. intros (Hf & _). apply Hf. rewrite Er. left. reflexivity.
      * intros b [<-|Hb]; [right; rewrite in_app_iff; cbn; tauto|left; assumption].
      * intros b Hb. right. rewrite app_nil_r in Hb. rewrite in_app_iff. tauto.
      * pose proof (cnt_upd isPushWon _ _ {| pc := PopWon h; held := hl |} _ Hl) as E1.
        pose proof (cnt_upd isPopWon _ _ {| pc := PopWon h; held := hl |} _ Hl) as E2.
        cbn in E1, E2. rewrite Er in Icn. cbn [length] in Icn.
        eapply count_frame; [exact Icn|assumption|]. right. left. lia.
    + loc.
  - (* PopWon: count.fetch_sub *)
    cbn [fst].
    pose proof I as I0. destruct I as [Ich Ind Ig Ib Ifl Ith Idj Ico Icl Icn].
    eapply (inv_frame c) with (t := t) (l := {| pc := PopWon h; held := hl |})
                              (l' := {| pc := Idle; held := hl ++ [h] |});
      try eassumption; unfold holds; cbn [head gen nxt count bump thr fl ncas pc held inflight]; rewrite ?app_nil_r; auto.
    + apply N.mod_upper_bound. unfold W32. lia.
    + pose proof (cnt_upd isPushWon _ _ {| pc := Idle; held := hl ++ [h] |} _ Hl) as E1.
      pose proof (cnt_upd isPopWon _ _ {| pc := Idle; held := hl ++ [h] |} _ Hl) as E2.
      cbn in E1, E2.
      eapply count_frame; [exact Icn|assumption|]. right. right. right. left. lia.
  - (* PopEmpty: bump allocation *)
    rewrite ?app_nil_r in *.
    destruct (lfkind c).
    + (* lockfree_pool.rs: load next_offset, give up if the block does not fit *)
      destruct (fits c (bump s)) eqn:Hf; cbn [fst].
      * loc. unfold fits in Hf. apply Bool.andb_true_iff in Hf. destruct Hf as [Hf _].
        apply N.leb_le in Hf. exact Hf.
      * loc.
    + (* five_level_pool.rs: check and advance under the mutex *)
      destruct (N.ltb_spec (cap c) (bump s + bsize c)) as [Hfull|Hroom]; cbn [fst]; [loc|].
      eapply bump_success; eauto.
  - (* PopBump: compare-exchange on next_offset *)
    rewrite ?app_nil_r in *.
    destruct (N.eqb_spec (bump s) cur) as [Hc|Hc]; cbn [fst].
    + subst cur. cbn in Hpc. eapply bump_success; eauto.
    + destruct (fits c (bump s)) eqn:Hf; cbn [fst].
      * loc. unfold fits in Hf. apply Bool.andb_true_iff in Hf. destruct Hf as [Hf _].
        apply N.leb_le in Hf. exact Hf.
      * loc.
  - (* PushStart *)
    cbn [fst].
    loc. lia.
  - (* PushLoaded: the link word of the block in flight is written *)
    cbn [fst].
    assert (Hbin : In b (hl ++ [b])) by (rewrite in_app_iff; cbn; tauto).
    destruct (Hblk b Hbin) as (Hbf & Hbb & Hbt).
    pose proof I as I0. destruct I as [Ich Ind Ig Ib Ifl Ith Idj Ico Icl Icn].
    eapply (inv_frame c) with (t := t) (l := {| pc := PushLoaded b h g; held := hl |})
                              (l' := {| pc := PushWritten b h g; held := hl |});
      try eassumption; unfold holds; cbn [head gen nxt count bump thr fl ncas pc held inflight]; auto.
    + eapply chain_ext; [|eassumption]. intros x Hx. unfold upd_nxt.
      destruct (N.eqb_spec x b) as [->|]; [contradiction|reflexivity].
    + cbn in Hpc. cbn. split; [assumption|]. unfold upd_nxt. rewrite N.eqb_refl. reflexivity.
    + intros x Hx Hp. eapply pc_ok_write with (s := s) (b := b) (v := h); eauto.
      intro Hbx. destruct (Hx b Hbx) as [_ Hno]. apply Hno. cbn. assumption.
    + pose proof (cnt_upd isPushWon _ _ {| pc := PushWritten b h g; held := hl |} _ Hl) as E1.
      pose proof (cnt_upd isPopWon _ _ {| pc := PushWritten b h g; held := hl |} _ Hl) as E2.
      cbn in E1, E2. eapply count_frame; [exact Icn|assumption|]. left. lia.
  - (* PushWritten: the compare-exchange of push *)
    destruct ((head s =? h) && (gen s =? g)) eqn:Hc; cbn [fst] in *.
    + apply Bool.andb_true_iff in Hc. destruct Hc as [Hh Hg]. apply N.eqb_eq in Hh, Hg.
      cbn [ncas] in Hn.
      cbn in Hpc. destruct Hpc as (_ & Hnx).
      assert (Hbin : In b (hl ++ [b])) by (rewrite in_app_iff; cbn; tauto).
      destruct (Hblk b Hbin) as (Hbf & Hbb & Hbt).
      pose proof I as I0. destruct I as [Ich Ind Ig Ib Ifl Ith Idj Ico Icl Icn].
      assert (Eg : (g + 1) mod gmod c = g + 1) by (apply N.mod_small; lia).
      eapply (inv_frame c) with (t := t) (l := {| pc := PushWritten b h g; held := hl |})
                                (l' := {| pc := PushWon; held := hl |});
        try eassumption; unfold holds; cbn [head gen nxt count bump thr fl ncas pc held inflight]; rewrite ?app_nil_r; auto.
      * cbn. split; [reflexivity|]. split; [assumption|]. rewrite Hnx, <- Hh. assumption.
      * constructor; assumption.
      * rewrite Eg. lia.
      * intros x [<-|Hx]; [assumption|auto].
      * eapply NoDup_app_l; eassumption.
      * intros x Hx. assert (Hx2 : In x (hl ++ [b])) by (rewrite in_app_iff; tauto).
        destruct (Hblk x Hx2) as (H1 & H2 & H3). unfold ProofsInv.blk_ok. cbn [fl bump].
        split; [|tauto]. intros [<-|Hin]; [|contradiction].
        eapply NoDup_app_notin; eassumption.
      * exact I.
      * intros x (H1 & H2 & H3) Hno. unfold ProofsInv.blk_ok. cbn [fl bump]. split; [|tauto].
        intros [<-|Hin]; [|contradiction]. apply Hno. cbn. assumption.
      * intros x _ Hp. eapply pc_ok_gen_up with (s := s); cbn; try rewrite Eg; auto. lia.
      * intros x Hx. left. rewrite in_app_iff. tauto.
      * intros x Hx. left. right. assumption.
      * intros x Hx. cbn in Hx. rewrite in_app_iff in Hx. cbn in Hx.
        destruct Hx as [Hx|[<-|[]]]; [right; assumption|left; left; reflexivity].
      * pose proof (cnt_upd isPushWon _ _ {| pc := PushWon; held := hl |} _ Hl) as E1.
        pose proof (cnt_upd isPopWon _ _ {| pc := PushWon; held := hl |} _ Hl) as E2.
        cbn in E1, E2. cbn [length].
        eapply count_frame; [exact Icn|assumption|]. right. right. left. lia.
    + loc.
  - (* PushWon: count.fetch_add *)
    rewrite ?app_nil_r in *. cbn [fst].
    pose proof I as I0. destruct I as [Ich Ind Ig Ib Ifl Ith Idj Ico Icl Icn].
    eapply (inv_frame c) with (t := t) (l := {| pc := PushWon; held := hl |})
                              (l' := {| pc := Idle; held := hl |});
      try eassumption; unfold holds; cbn [head gen nxt count bump thr fl ncas pc held inflight]; rewrite ?app_nil_r; auto.
    + apply N.mod_upper_bound. unfold W32. lia.
    + pose proof (cnt_upd isPushWon _ _ {| pc := Idle; held := hl |} _ Hl) as E1.
      pose proof (cnt_upd isPopWon _ _ {| pc := Idle; held := hl |} _ Hl) as E2.
      cbn in E1, E2.
      eapply count_frame; [exact Icn|assumption|]. right. right. right. right. lia.
Qed.

End STEP.
