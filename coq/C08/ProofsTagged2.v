(* C08: further theorems about the tagged free-list stack of lockfree_pool.rs / five_level_pool.rs:
   the generation never decreases (in particular not when a pop empties the list), the scrub of
   deallocate_with_zero only touches a block that is on no list and in nobody else's hands, the
   reported counters are exact at quiescence; refutations for the three seeded variants. *)
From ZV.Common Require Import Base.
From ZV.C08 Require Import Model ProofsInv ProofsStep ProofsRefute ProofsRun ModelStats ProofsStats ModelVariants.
Open Scope N_scope.

Lemma run_app : forall c sc1 sc2 s, run c s (sc1 ++ sc2) = run c (run c s sc1) sc2.
Proof. induction sc1 as [|[t k] sc1 IH]; intros sc2 s; cbn; [reflexivity|apply IH]. Qed.

Section T2.
Variable c : cfg.
Hypothesis Htail : forall off, bump0 c <= off -> off + bsize c <= cap c -> off <> tail c.
Hypothesis Hbs : 0 < bsize c.

(* ---------- generation ---------- *)
Lemma generation_monotone_proof : forall n sc1 sc2,
  ncas (run c (init n c) (sc1 ++ sc2)) < gmod c ->
  gen (run c (init n c) sc1) <= gen (run c (init n c) (sc1 ++ sc2)) /\
  gen (run c (init n c) (sc1 ++ sc2)) = ncas (run c (init n c) (sc1 ++ sc2)).
Proof.
  intros n sc1 sc2 H.
  pose proof (reach_inv c Htail Hbs n (sc1 ++ sc2) H) as I2. unfold reach in I2.
  assert (H1 : ncas (run c (init n c) sc1) < gmod c).
  { rewrite run_app in H. pose proof (ncas_run_mono c sc2 (run c (init n c) sc1)). lia. }
  pose proof (reach_inv c Htail Hbs n sc1 H1) as I1. unfold reach in I1.
  rewrite (i_gen c _ I1), (i_gen c _ I2). split; [|reflexivity].
  rewrite run_app. apply ncas_run_mono.
Qed.

(* the pop that takes the last block: the head becomes (LIST_TAIL, g + 1), not (LIST_TAIL, 0) *)
Lemma pop_last_keeps_generation_proof : forall n sc t hl h g,
  let s := run c (init n c) sc in
  ncas s + 1 < gmod c ->
  nth_error (thr s) t = Some {| pc := PopRead h g (tail c); held := hl |} ->
  head s = h -> gen s = g ->
  let s' := fst (step c s t CNone) in
  head s' = tail c /\ gen s' = g + 1 /\ 0 < gen s' /\ fl s' = [].
Proof.
  intros n sc t hl h g s Hn Hl Hh Hg s'.
  assert (Hlt : ncas s < gmod c) by lia.
  pose proof (reach_inv c Htail Hbs n sc Hlt) as I. unfold reach in I. fold s in I.
  destruct (i_thr c s I t _ Hl) as (_ & _ & Hpc). cbn in Hpc. destruct Hpc as (_ & Hht & Hc).
  destruct (Hc (eq_sym Hg)) as [_ Hnx].
  destruct (chain_head c _ _ _ (i_chain c s I)) as (r & Er & Hr); [rewrite Hh; assumption|].
  rewrite Hh, Hnx in Hr. 
  assert (r = []) by (destruct r as [|x r]; [reflexivity|cbn in Hr; destruct Hr as (E & Ne & _); congruence]).
  subst r.
  unfold s', step. rewrite Hl. cbn [pc]. rewrite Hh, Hg, !N.eqb_refl. cbn [andb fst head gen fl].
  rewrite Er. cbn [tl].
  assert (Eg : (g + 1) mod gmod c = g + 1).
  { apply N.mod_small. rewrite <- Hg, (i_gen c s I). lia. }
  rewrite Eg. repeat split; lia.
Qed.

(* ---------- deallocate_with_zero ---------- *)
Lemma zero_on_free_proof : forall n sc, ncas (run c (init n c) sc) < gmod c ->
  let s := run c (init n c) sc in
  forall t k b, zero_target s t k = Some b ->
    exists free, walk (length free) (tail c) (nxt s) (head s) = Some free /\ ~ In b free /\
      (forall x, In x free -> nxt (fst (step c s t k)) x = nxt s x) /\
      walk (length free) (tail c) (nxt (fst (step c s t k))) (head (fst (step c s t k))) = Some free /\
      (forall t' l', t' <> t -> nth_error (thr s) t' = Some l' -> ~ In b (holds l')).
Proof.
  intros n sc H s t k b Hz.
  pose proof (reach_inv c Htail Hbs n sc H) as I. unfold reach in I. fold s in I.
  unfold zero_target in Hz.
  destruct (nth_error (thr s) t) as [l|] eqn:Hl; [|discriminate].
  destruct l as [p hl]. cbn [pc held] in Hz.
  destruct p; try discriminate. destruct k; try discriminate.
  destruct (mem_n b0 hl) eqn:Hm; [|discriminate]. inversion Hz; subst b0. clear Hz.
  apply mem_n_In in Hm.
  destruct (i_thr c s I t _ Hl) as (_ & Hblk & _).
  assert (Hin : In b (holds {| pc := Idle; held := hl |})) by (unfold holds; cbn; rewrite app_nil_r; assumption).
  destruct (Hblk b Hin) as (Hnf & _ & _).
  assert (Hsame : forall x, In x (fl s) -> nxt (fst (step c s t (CPushZ b sz))) x = nxt s x).
  { intros x Hx. unfold step. rewrite Hl. cbn [pc held]. apply mem_n_In in Hm. rewrite Hm. cbn [fst nxt].
    unfold upd_nxt. destruct (N.eqb_spec x b) as [->|]; [contradiction|reflexivity]. }
  exists (fl s). split; [apply chain_walk; exact (i_chain c s I)|]. split; [assumption|].
  split; [exact Hsame|]. split.
  - apply chain_walk. eapply chain_ext; [|].
    + intros x Hx. symmetry. apply Hsame. exact Hx.
    + assert (Eh : head (fst (step c s t (CPushZ b sz))) = head s).
      { unfold step. rewrite Hl. cbn [pc held]. apply mem_n_In in Hm. rewrite Hm. reflexivity. }
      rewrite Eh. exact (i_chain c s I).
  - intros t' l' Hne Hl' Hb'. exact (i_disj c s I t t' _ _ b (not_eq_sym Hne) Hl Hl' Hin Hb').
Qed.

(* ---------- counters ---------- *)
Lemma xrun_sinv : forall sc x, Inv c (xs x) -> SInv c x -> ncas (run c (xs x) sc) < gmod c -> SInv c (xrun c x sc).
Proof.
  induction sc as [|[t k] sc IH]; intros x I S H; cbn [xrun]; [assumption|].
  assert (Ex : xs (fst (xstep c x t k)) = fst (step c (xs x) t k)).
  { unfold xstep. destruct (step c (xs x) t k). reflexivity. }
  apply IH.
  - rewrite Ex. apply step_inv; try assumption.
    cbn [run] in H. pose proof (ncas_run_mono c sc (fst (step c (xs x) t k))). lia.
  - apply xstep_sinv; assumption.
  - rewrite Ex. exact H.
Qed.

Lemma counters_exact_proof : forall n sc, ncas (run c (init n c) sc) < gmod c ->
  let x := xrun c (xinit n c) sc in
  quiescent (xs x) ->
  exists free, walk (length free) (tail c) (nxt (xs x)) (head (xs x)) = Some free /\
    count (xs x) = N.of_nat (length free) mod W32 /\
    frag (xst x) = (N.of_nat (length free) * bsize c) mod W64 /\
    fast_deallocs (xst x) = g_frees (xst x) /\
    fast_deallocs (xst x) = g_npush (xst x) /\ fast_allocs (xst x) = g_npop (xst x) /\
    fast_deallocs (xst x) = fast_allocs (xst x) + N.of_nat (length free) /\
    cas_ok (xst x) = fast_allocs (xst x) + fast_deallocs (xst x) /\
    (lfkind c = true -> mem_usage (xst x) + bump0 c = bump (xs x)) /\
    g_got (xst x) = g_frees (xst x) + N.of_nat (length (concat (map held (thr (xs x))))) /\
    bump (xs x) + fast_allocs (xst x) * bsize c = bump0 c + g_got (xst x) * bsize c.
Proof.
  intros n sc H x Hq.
  assert (Ex : xs x = run c (init n c) sc) by (unfold x; rewrite xrun_base; reflexivity).
  pose proof (reach_inv c Htail Hbs n sc H) as I. unfold reach in I. rewrite <- Ex in I.
  assert (S : SInv c x).
  { unfold x. apply xrun_sinv; [apply init_inv; assumption|apply xinit_sinv|exact H]. }
  destruct S as [S1 S2 S3 S4 S4' S5 S6 S7 S8 S9].
  rewrite (cnt_all_idle isPushWon) in S1 by (auto; intros; exact Logic.I).
  rewrite (cnt_all_idle isPopWon) in S2 by (auto; intros; exact Logic.I).
  rewrite (cnt_all_idle in_pushb) in S5 by (auto; intros; exact Logic.I).
  rewrite held_total_concat in S8.
  exists (fl (xs x)). split; [apply chain_walk; exact (i_chain c _ I)|].
  split.
  { pose proof (i_count c _ I) as E. pose proof (i_cntlt c _ I) as L.
    rewrite (cnt_all_idle isPushWon) in E by (auto; intros; exact Logic.I).
    rewrite (cnt_all_idle isPopWon) in E by (auto; intros; exact Logic.I).
    cbn in E. rewrite !N.add_0_r in E. rewrite N.mod_small in E by assumption. exact E. }
  cbn [N.of_nat] in S1, S2, S5. rewrite N.add_0_r in S1, S2, S5.
  split.
  { assert (Ed : fast_deallocs (xst x) = fast_allocs (xst x) + N.of_nat (length (fl (xs x)))) by lia.
    rewrite Ed in S4. 
    replace ((fast_allocs (xst x) + N.of_nat (length (fl (xs x)))) * bsize c)
      with (N.of_nat (length (fl (xs x))) * bsize c + fast_allocs (xst x) * bsize c) in S4 by lia.
    remember (fast_allocs (xst x) * bsize c) as ab. remember (N.of_nat (length (fl (xs x))) * bsize c) as lb.
    remember (frag (xst x)) as f. clear - S4 S4'. unfold W64 in *. lia. }
  repeat split; try assumption; try lia.
Qed.

End T2.

(* ---------- the seeded variants ---------- *)

(* a pop that empties the bin resets the generation (seeded regression C08-1): the ABA window is
   open again - thread 0 loads (8, gen 2) and its link 72; thread 1 pops 8 and 72 (generation back
   to 0), carves 136, frees 136 and 8 (generation 2, head 8 -> 136); thread 0's stale exchange
   succeeds and installs 72, which thread 1 owns *)
Definition reset_cfg : cfg := cfg_lockfree 64 (8 + 64 * 4).
Definition reset_sched : sched :=
  opn 0 CPop 3 ++ opn 0 CPop 3 ++ opn 0 (CPush 72) 4 ++ opn 0 (CPush 8) 4 ++
  opn 0 CPop 2 ++
  opn 1 CPop 4 ++ opn 1 CPop 4 ++ opn 1 CPop 3 ++ opn 1 (CPush 136) 4 ++ opn 1 (CPush 8) 4 ++
  [(0%nat, CNone); (0%nat, CNone)] ++ opn 0 CPop 4.

Lemma generation_reset_refuted_proof :
  exists sc b l0 l1,
    let s := vrun VResetGen reset_cfg (init 2 reset_cfg) sc in
    ncas s < gmod reset_cfg /\
    nth_error (thr s) 0 = Some l0 /\ nth_error (thr s) 1 = Some l1 /\
    In b (holds l0) /\ In b (holds l1).
Proof.
  exists reset_sched, 72.
  eexists. eexists. cbv zeta.
  split; [vm_compute; reflexivity|].
  split; [vm_compute; reflexivity|]. split; [vm_compute; reflexivity|].
  split; vm_compute; tauto.
Qed.
(* the same schedule on the code as it is: nothing is shared *)
Example reset_sched_safe :
  exclusive reset_cfg (run reset_cfg (init 2 reset_cfg) reset_sched) 16 = true /\
  exclusive reset_cfg (vrun VResetGen reset_cfg (init 2 reset_cfg) reset_sched) 16 = false.
Proof. vm_compute. split; reflexivity. Qed.

(* count.fetch_add before the exchange, inside the retry loop (seeded regression C08-3): one lost
   race counts the block twice *)
Definition early_cfg : cfg := cfg_fivelevel 64 256.
Definition early_sched : sched :=
  opn 0 CPop 2 ++ opn 1 CPop 2 ++                  (* both carve a block: 0 and 64 *)
  opn 0 (CPush 0) 2 ++                              (* thread 0: loaded, link written (counted), before the exchange *)
  opn 1 (CPush 64) 4 ++                             (* thread 1 frees 64 *)
  repeat (0%nat, CNone) 6.                          (* thread 0: exchange fails, retry: load, write (counted again), exchange, done *)

Lemma count_before_cas_refuted_proof :
  exists sc, let s := vrun VCountEarly early_cfg (init 2 early_cfg) sc in
    all_idle s = true /\ walk 8 (tail early_cfg) (nxt s) (head s) = Some [0; 64] /\ count s = 3.
Proof. exists early_sched. vm_compute. repeat split; reflexivity. Qed.
Example early_sched_exact :
  let s := run early_cfg (init 2 early_cfg) early_sched in
  all_idle s = true /\ walk 8 (tail early_cfg) (nxt s) (head s) = Some [0; 64] /\ count s = 2.
Proof. vm_compute. repeat split; reflexivity. Qed.

(* deallocate_with_zero that pushes first and scrubs afterwards (seeded regression C08-r2-1): the
   scrub wipes the link word of a listed block, every block below it is lost *)
Definition zlate_cfg : cfg := cfg_lockfree 64 (8 + 64 * 4).
Definition zlate_sched : sched :=
  opn 0 CPop 3 ++ opn 0 CPop 3 ++
  opn 0 (CPush 8) 4 ++ [(0%nat, CScribble 8 0)] ++          (* push 8, then scrub it *)
  opn 0 (CPush 72) 4 ++ [(0%nat, CScribble 72 0)].          (* push 72 (link 8), then scrub it: 8 is lost *)

Lemma zero_after_push_refuted_proof :
  exists sc, let s := vrun VZeroLate zlate_cfg (init 1 zlate_cfg) sc in
    all_idle s = true /\ 8 < bump s /\
    walk 8 (tail zlate_cfg) (nxt s) (head s) = Some [72] /\ all_holds s = [].
Proof. exists zlate_sched. vm_compute. repeat split; reflexivity. Qed.
(* the code as it is (scrub first): both blocks are on the list *)
Example zero_before_push_keeps_blocks :
  let s := run zlate_cfg (init 1 zlate_cfg) (opn 0 CPop 3 ++ opn 0 CPop 3 ++ opn 0 (CPushZ 8 64) 4 ++ opn 0 (CPushZ 72 64) 4) in
  all_idle s = true /\ walk 8 (tail zlate_cfg) (nxt s) (head s) = Some [72; 8] /\ all_holds s = [] /\ count s = 2.
Proof. vm_compute. repeat split; reflexivity. Qed.
