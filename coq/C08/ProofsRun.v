(* C08: whole schedules.  The theorems of Properties.v are proved here. *)
From ZV.Common Require Import Base.
From ZV.C08 Require Import Model ProofsInv ProofsStep ProofsRefute.
Open Scope N_scope.

Section MONO.
Variable c : cfg.

Lemma ncas_step_mono : forall s t k,
  ncas s <= ncas (fst (step c s t k)) /\ ncas (fst (step c s t k)) <= ncas s + 1.
Proof.
  intros s t k. unfold step.
  destruct (nth_error (thr s) t) as [l|]; [|cbn; lia].
  destruct (pc l); try destruct k; cbn;
    repeat match goal with |- context [if ?b then _ else _] => destruct b; cbn end; lia.
Qed.

Lemma ncas_run_mono : forall sc s, ncas s <= ncas (run c s sc).
Proof.
  induction sc as [|[t k] sc IH]; intros s; cbn; [lia|].
  specialize (IH (fst (step c s t k))). pose proof (ncas_step_mono s t k). lia.
Qed.

Lemma ncas_run_le_steps : forall sc s, ncas (run c s sc) <= ncas s + N.of_nat (length sc).
Proof.
  induction sc as [|[t k] sc IH]; intros s; cbn [run length]; [lia|].
  specialize (IH (fst (step c s t k))). pose proof (ncas_step_mono s t k). lia.
Qed.

End MONO.

Section RUN.
Variable c : cfg.
Hypothesis Htail : forall off, bump0 c <= off -> off + bsize c <= cap c -> off <> tail c.
Hypothesis Hbs : 0 < bsize c.

Theorem run_inv : forall sc s, Inv c s -> ncas (run c s sc) < gmod c -> Inv c (run c s sc).
Proof.
  induction sc as [|[t k] sc IH]; intros s I H; cbn in *; [assumption|].
  apply IH; [|assumption].
  apply step_inv; try assumption.
  pose proof (ncas_run_mono c sc (fst (step c s t k))). lia.
Qed.

Definition reach (n : nat) (sc : sched) : state := run c (init n c) sc.

Lemma reach_inv : forall n sc, ncas (reach n sc) < gmod c -> Inv c (reach n sc).
Proof. intros n sc H. apply run_inv; [apply init_inv; assumption|exact H]. Qed.

(* each block is owned by at most one thread at a time *)
Lemma no_double_owner_proof : forall n sc, ncas (reach n sc) < gmod c ->
  forall t1 t2 l1 l2 b, t1 <> t2 ->
    nth_error (thr (reach n sc)) t1 = Some l1 -> nth_error (thr (reach n sc)) t2 = Some l2 ->
    In b (holds l1) -> ~ In b (holds l2).
Proof. intros n sc H. exact (i_disj c _ (reach_inv n sc H)). Qed.

(* the free list the code would traverse is finite, ends in TAIL, has no repetition (so no
   cycle), and none of its blocks is in a thread's hands *)
Lemma free_list_well_formed_proof : forall n sc, ncas (reach n sc) < gmod c ->
  let s := reach n sc in
  exists free, walk (length free) (tail c) (nxt s) (head s) = Some free /\ NoDup free /\
    (forall b, In b free -> b <> tail c /\ b < bump s) /\
    (forall b t l, In b free -> nth_error (thr s) t = Some l -> ~ In b (holds l)).
Proof.
  intros n sc H s. pose proof (reach_inv n sc H) as I. fold s in I.
  exists (fl s). split; [apply chain_walk; exact (i_chain c s I)|]. split; [exact (i_nodup c s I)|]. split.
  - intros b Hb. split; [eapply chain_in_ne_tail; [exact (i_chain c s I)|exact Hb]|exact (i_fl c s I b Hb)].
  - intros b t l Hb Hl Hin. destruct (i_thr c s I t l Hl) as (_ & Hk & _).
    destruct (Hk b Hin) as (Hno & _). contradiction.
Qed.

(* no block is lost: every block ever carved from the arena is on the free list or in exactly
   one thread's hands, never both *)
Lemma no_block_lost_proof : forall n sc, ncas (reach n sc) < gmod c ->
  let s := reach n sc in
  forall k, let b := bump0 c + k * bsize c in b + bsize c <= cap c -> b < bump s ->
    exists free, walk (length free) (tail c) (nxt s) (head s) = Some free /\
      ((In b free /\ forall t l, nth_error (thr s) t = Some l -> ~ In b (holds l)) \/
       (~ In b free /\ exists t l, nth_error (thr s) t = Some l /\ In b (holds l))).
Proof.
  intros n sc H s k b Hcap Hlt. pose proof (reach_inv n sc H) as I. fold s in I.
  exists (fl s). split; [apply chain_walk; exact (i_chain c s I)|].
  assert (Hc : carved c s b) by (exists k; repeat split; auto).
  destruct (i_cons c s I b Hc) as [Hf|(t & l & Hl & Hin)].
  - left. split; [assumption|]. intros t l Hl Hin. destruct (i_thr c s I t l Hl) as (_ & Hk & _).
    destruct (Hk b Hin) as (Hno & _). contradiction.
  - right. split; [|eauto]. destruct (i_thr c s I t l Hl) as (_ & Hk & _).
    destruct (Hk b Hin) as (Hno & _). assumption.
Qed.

(* the counter the pool reports equals the length of the free list once every thread is
   between operations *)
Lemma count_at_quiescence_proof : forall n sc, ncas (reach n sc) < gmod c ->
  let s := reach n sc in quiescent s -> count s = N.of_nat (length (fl s)) mod W32.
Proof.
  intros n sc H s Hq. pose proof (reach_inv n sc H) as I. fold s in I.
  pose proof (i_count c s I) as E. pose proof (i_cntlt c s I) as L.
  rewrite (cnt_all_idle isPushWon (thr s)) in E by (auto; intros; exact Logic.I).
  rewrite (cnt_all_idle isPopWon (thr s)) in E by (auto; intros; exact Logic.I).
  cbn in E. rewrite !N.add_0_r in E. rewrite N.mod_small in E by assumption. exact E.
Qed.

Lemma count_at_quiescence_walk_proof : forall n sc, ncas (reach n sc) < gmod c ->
  let s := reach n sc in quiescent s ->
  exists free, walk (length free) (tail c) (nxt s) (head s) = Some free /\
               count s = N.of_nat (length free) mod W32.
Proof.
  intros n sc H s Hq. exists (fl s). split.
  - apply chain_walk. exact (i_chain c s (reach_inv n sc H)).
  - apply count_at_quiescence_proof; assumption.
Qed.

(* no thread holds the same block twice either *)
Lemma holds_nodup_proof : forall n sc, ncas (reach n sc) < gmod c ->
  forall t l, nth_error (thr (reach n sc)) t = Some l -> NoDup (holds l).
Proof.
  intros n sc H t l Hl. destruct (i_thr c _ (reach_inv n sc H) t l Hl) as (Hnd & _). exact Hnd.
Qed.

End RUN.

(* ---------- the two configurations of the code ---------- *)
Lemma lockfree_cfg_ok : forall size capacity, 0 < size ->
  (forall off, bump0 (cfg_lockfree size capacity) <= off ->
     off + bsize (cfg_lockfree size capacity) <= cap (cfg_lockfree size capacity) ->
     off <> tail (cfg_lockfree size capacity)) /\ 0 < bsize (cfg_lockfree size capacity).
Proof. intros size capacity H. cbn. split; [intros; lia|assumption]. Qed.

Lemma fivelevel_cfg_ok : forall size capacity, 0 < size -> capacity < W32 ->
  (forall off, bump0 (cfg_fivelevel size capacity) <= off ->
     off + bsize (cfg_fivelevel size capacity) <= cap (cfg_fivelevel size capacity) ->
     off <> tail (cfg_fivelevel size capacity)) /\ 0 < bsize (cfg_fivelevel size capacity).
Proof. intros size capacity H Hc. cbn. split; [intros; unfold W32 in *; lia|assumption]. Qed.

(* a schedule with fewer than 2^32 steps cannot wrap the generation *)
Lemma steps_bound_generation : forall c n sc,
  N.of_nat (length sc) < gmod c -> ncas (run c (init n c) sc) < gmod c.
Proof.
  intros c n sc H. pose proof (ncas_run_le_steps c sc (init n c)) as L. cbn [init ncas] in L. lia.
Qed.

(* non-vacuity: the ABA window schedule is a schedule of the tagged configuration with
   exchanges by two threads, well below the generation bound *)
Example hypotheses_satisfiable :
  let c := cfg_fivelevel 64 384 in
  ncas (run c (init 2 c) aba_sched) = 6 /\ ncas (run c (init 2 c) aba_sched) < gmod c /\
  N.of_nat (length aba_sched) < gmod c.
Proof. vm_compute. repeat split; reflexivity. Qed.
