(* C08: explicit schedules on which the property fails when the head carries no (or too
   narrow a) generation, and on the Treiber stack of secure_pool.rs. *)
From ZV.Common Require Import Base.
From ZV.C08 Require Import Model.
Open Scope N_scope.

(* an operation of thread t that takes n further steps after the command *)
Definition opn (t : nat) (k : cmd) (n : nat) : sched := (t, k) :: repeat (t, CNone) n.

(* ---- bare 32-bit head (five-level LockFreePool and FixedCapacityMemoryPool before the fix) *)
Definition aba_cfg : cfg := cfg_untagged 64 384.
Definition aba_sched : sched :=
  (* thread 0 carves three blocks 0, 64, 128 and frees 0 then 64: free list 64 -> 0 *)
  opn 0 CPop 2 ++ opn 0 CPop 2 ++ opn 0 CPop 2 ++ opn 0 (CPush 0) 4 ++ opn 0 (CPush 64) 4 ++
  (* thread 0 starts a pop: loads head 64 and link 0, stops before the compare-exchange *)
  opn 0 CPop 2 ++
  (* thread 1 pops 64, pops 0, pushes 64 back: head is 64 again, its link is TAIL *)
  opn 1 CPop 4 ++ opn 1 CPop 4 ++ opn 1 (CPush 64) 4 ++
  (* thread 0's compare-exchange succeeds and installs 0, which thread 1 owns; the next pop returns it *)
  [(0%nat, CNone); (0%nat, CNone)] ++ opn 0 CPop 4.

Lemma untagged_aba_refuted_proof :
  exists sc b l0 l1,
    let s := run aba_cfg (init 2 aba_cfg) sc in
    nth_error (thr s) 0 = Some l0 /\ nth_error (thr s) 1 = Some l1 /\
    In b (holds l0) /\ In b (holds l1).
Proof.
  exists aba_sched, 0.
  eexists. eexists. cbv zeta.
  split; [vm_compute; reflexivity|]. split; [vm_compute; reflexivity|].
  split; vm_compute; tauto.
Qed.

(* ---- a generation of two bits wraps after four exchanges: same failure.  This is why the
        positive theorems assume fewer than gmod successful exchanges. *)
Definition wrap_cfg : cfg :=
  {| gmod := 4; tail := 0; bsize := 64; cap := 8 + 64 * 6; bump0 := 8; lfkind := true |}.
Definition wrap_sched : sched :=
  (* thread 1 does four exchanges first so that the generation is 0 again when thread 0 loads it:
     not needed - the generation only has to return to the value thread 0 saw *)
  opn 0 CPop 3 ++ opn 0 CPop 3 ++ opn 0 CPop 3 ++        (* lockfree bump: load + compare-exchange *)
  opn 0 (CPush 136) 4 ++ opn 0 (CPush 8) 4 ++ opn 0 (CPush 72) 4 ++      (* free list 72 -> 8 -> 136 *)
  opn 0 CPop 2 ++                                                       (* loads (72, g), link 8 *)
  opn 1 CPop 4 ++ opn 1 CPop 4 ++ opn 1 CPop 4 ++ opn 1 (CPush 72) 4 ++  (* four exchanges: g wraps *)
  [(0%nat, CNone); (0%nat, CNone)] ++ opn 0 CPop 4.

Lemma narrow_generation_refuted_proof :
  exists sc b l0 l1,
    let s := run wrap_cfg (init 2 wrap_cfg) sc in
    gmod wrap_cfg <= ncas s /\
    nth_error (thr s) 0 = Some l0 /\ nth_error (thr s) 1 = Some l1 /\
    In b (holds l0) /\ In b (holds l1).
Proof.
  exists wrap_sched, 8.
  eexists. eexists. cbv zeta.
  split; [vm_compute; discriminate|].
  split; [vm_compute; reflexivity|]. split; [vm_compute; reflexivity|].
  split; vm_compute; tauto.
Qed.

(* ---- Treiber stack of secure_pool.rs *)
Definition topn (t : nat) (k : tcmd) : list (nat * tcmd) := (t, k) :: repeat (t, TNone) 3.

(* ABA: no freed node is ever read, yet the head ends up pointing to a freed node and the
   node holding datum 11 is unreachable *)
Definition treiber_aba_sched : list (nat * tcmd) :=
  topn 0 (TPush 11 1) ++ topn 0 (TPush 22 2) ++            (* stack: node 2 -> node 1 *)
  [(0%nat, TPop); (0%nat, TNone); (0%nat, TNone)] ++       (* thread 0: head = 2, next = 1 *)
  topn 1 TPop ++ topn 1 TPop ++                            (* thread 1 pops both nodes (freed) *)
  topn 1 (TPush 33 2) ++                                   (* allocator reuses address 2 *)
  [(0%nat, TNone)].                                        (* thread 0's exchange succeeds *)

Lemma treiber_aba_refuted_proof :
  exists sc, let s := trun (tinit 2) sc in
    tfault s = false /\ thead s <> 0 /\ tlive s (thead s) = false /\ twalk 8 s (thead s) = None.
Proof.
  exists treiber_aba_sched. cbv zeta.
  split; [vm_compute; reflexivity|]. split; [vm_compute; discriminate|].
  split; vm_compute; reflexivity.
Qed.

(* use after free: pop reads the link of a node another thread has already freed *)
Definition treiber_uaf_sched : list (nat * tcmd) :=
  topn 0 (TPush 11 1) ++
  [(0%nat, TPop); (0%nat, TNone)] ++                       (* thread 0 loaded head = 1 *)
  topn 1 TPop ++                                           (* thread 1 pops and frees node 1 *)
  [(0%nat, TNone)].                                        (* thread 0 reads node 1's link *)

Lemma treiber_uaf_refuted_proof :
  exists sc, tfault (trun (tinit 2) sc) = true.
Proof. exists treiber_uaf_sched. vm_compute. reflexivity. Qed.

(* sanity: the same window is harmless with the 32-bit generation *)
Example tagged_aba_window_safe :
  let c := cfg_fivelevel 64 384 in
  exclusive c (run c (init 2 c) aba_sched) 16 = true.
Proof. vm_compute. reflexivity. Qed.
Example untagged_aba_window_unsafe :
  exclusive aba_cfg (run aba_cfg (init 2 aba_cfg) aba_sched) 16 = false.
Proof. vm_compute. reflexivity. Qed.
