(* C08 mechanism model: the lock-free free-list stack used by
     src/memory/lockfree_pool.rs   allocate_from_fast_bin / deallocate_to_fast_bin /
                                   allocate_new_block   (generation-tagged 64-bit head)
     src/memory/five_level_pool.rs LockFreePool::alloc_from_fast_bin_lockfree /
                                   free_to_fast_bin_lockfree   (tagged since the C08 fix)
   as written: one fast bin, blocks are offsets into one arena, the link of a free block
   is the 32-bit word stored in the block itself, the head is (offset, generation) and
   the generation is incremented modulo [gmod] by every successful compare-exchange
   ([gmod] = 2^32 for the tagged head, 1 for a head that carries no generation).

   Concurrency: sequentially consistent small-step semantics.  A thread is a program
   counter plus the registers the Rust function keeps between two shared accesses; one
   step = one shared access (exactly the code between two schedule points of the
   zipora_verif hooks).  A schedule is a list of (thread, command); the command is
   looked at only when the thread is between operations, so threads choose their
   operations freely.  The owner of a block may overwrite the block's link word at any
   time (it is user memory) - command [CScribble].  [CPushZ] is deallocate_with_zero of
   lockfree_pool.rs (zero_on_free with SIMD optimisation): the block is scrubbed before it is pushed.

   Definitions only.  [fl] and [ncas] are ghost fields: nothing reads them. *)
From ZV.Common Require Import Base.
Open Scope N_scope.

Record cfg := {
  gmod   : N;      (* generation modulus: 2^32 tagged, 1 untagged *)
  tail   : N;      (* LIST_TAIL: 0 in lockfree_pool.rs, u32::MAX in five_level_pool.rs *)
  bsize  : N;      (* aligned block size of the bin *)
  cap    : N;      (* arena size in bytes *)
  bump0  : N;      (* first offset handed out: 8 / 0 *)
  lfkind : bool    (* true: lockfree_pool.rs (bump offset advanced by load + compare-exchange,
                      only when the block fits); false: five_level_pool.rs (check and advance
                      in one step under the memory mutex) *)
}.

Definition cfg_lockfree (size capacity : N) : cfg :=
  {| gmod := W32; tail := 0; bsize := size; cap := capacity; bump0 := 8; lfkind := true |}.
Definition cfg_fivelevel (size capacity : N) : cfg :=
  {| gmod := W32; tail := W32 - 1; bsize := size; cap := capacity; bump0 := 0; lfkind := false |}.
(* the five-level / fixed-capacity heads as they were before the generation was added
   (bare AtomicU32 offset): kept to show that the generation is what the proof needs *)
Definition cfg_untagged (size capacity : N) : cfg :=
  {| gmod := 1; tail := W32 - 1; bsize := size; cap := capacity; bump0 := 0; lfkind := false |}.

Inductive cmd :=
| CNone
| CPop
| CPush (b : N)
| CScribble (b v : N)
| CPushZ (b sz : N).   (* LockFreeMemoryPool::deallocate_with_zero(ptr, sz) with zero_on_free: the first sz
                          bytes of the block are zeroed, THEN the block is pushed *)

Inductive pcT :=
| Idle
| PopStart                      (* before head.load *)
| PopLoaded (h g : N)           (* before the read of the link word of h *)
| PopRead (h g n : N)           (* before compare_exchange (h,g) -> (n,g+1) *)
| PopWon (h : N)                (* before count.fetch_sub *)
| PopEmpty                      (* before the bump allocation (lockfree: before next_offset.load) *)
| PopBump (cur : N)             (* lockfree: before compare_exchange cur -> cur + size on next_offset *)
| PushStart (b : N)             (* before head.load *)
| PushLoaded (b h g : N)        (* before the write of the link word of b *)
| PushWritten (b h g : N)       (* before compare_exchange (h,g) -> (b,g+1) *)
| PushWon.                      (* before count.fetch_add *)

Record local := { pc : pcT; held : list N }.

Record state := {
  head  : N;
  gen   : N;
  nxt   : N -> N;        (* link word stored in the block at an offset *)
  count : N;             (* bin.count, u32 with wrap-around *)
  bump  : N;             (* next_offset / memory.size *)
  thr   : list local;
  fl    : list N;        (* ghost: the abstract free list *)
  ncas  : N              (* ghost: number of successful compare-exchanges *)
}.

Definition upd_nxt (f : N -> N) (b v : N) : N -> N := fun x => if x =? b then v else f x.

Fixpoint upd_thr (l : list local) (t : nat) (x : local) : list local :=
  match l, t with
  | [], _ => []
  | _ :: r, O => x :: r
  | y :: r, S t' => y :: upd_thr r t' x
  end.

Fixpoint mem_n (b : N) (l : list N) : bool :=
  match l with [] => false | x :: r => (x =? b) || mem_n b r end.
Fixpoint remove_n (b : N) (l : list N) : list N :=
  match l with [] => [] | x :: r => if x =? b then r else x :: remove_n b r end.

(* the link word (little endian, 4 bytes) after its first min(sz, 4) bytes were zeroed *)
Definition zero_low (v sz : N) : N :=
  if 4 <=? sz then 0 else let m := 2 ^ (8 * sz) in (v / m) * m.

(* the block whose link word the next step of thread t zeroes (deallocate_with_zero), if any *)
Definition zero_target (s : state) (t : nat) (k : cmd) : option N :=
  match nth_error (thr s) t with
  | Some l =>
      match pc l, k with
      | Idle, CPushZ b _ => if mem_n b (held l) then Some b else None
      | _, _ => None
      end
  | None => None
  end.

Definition init (nthreads : nat) (c : cfg) : state :=
  {| head := tail c; gen := 0; nxt := fun _ => 0; count := 0; bump := bump0 c;
     thr := repeat {| pc := Idle; held := [] |} nthreads; fl := []; ncas := 0 |}.

(* end <= memory_size && end <= u32::MAX *)
Definition fits (c : cfg) (b : N) : bool := (b + bsize c <=? cap c) && (b + bsize c <=? W32 - 1).

(* the value the hook reports after head.load *)
Definition pack (c : cfg) (h g : N) : N := if gmod c =? 1 then h else g * W32 + h.

Definition set_thr (s : state) (t : nat) (x : local) : state :=
  {| head := head s; gen := gen s; nxt := nxt s; count := count s; bump := bump s;
     thr := upd_thr (thr s) t x; fl := fl s; ncas := ncas s |}.

(* One step of thread t.  Returns the new state and the observations (site, value)
   the hooks report during it.  Sites: 1 load, 2 link read, 3 cas, 5 bump (load), 6 bump
   compare-exchange for pop; 11 load, 13 cas for push. *)
Definition step (c : cfg) (s : state) (t : nat) (k : cmd) : state * list (N * N) :=
  match nth_error (thr s) t with
  | None => (s, [])
  | Some l =>
    match pc l with
    | Idle =>
      match k with
      | CNone => (s, [])
      | CPop => (set_thr s t {| pc := PopStart; held := held l |}, [])
      | CPush b =>
          if mem_n b (held l)
          then (set_thr s t {| pc := PushStart b; held := remove_n b (held l) |}, [])
          else (s, [])
      | CScribble b v =>
          if mem_n b (held l)
          then ({| head := head s; gen := gen s; nxt := upd_nxt (nxt s) b v; count := count s;
                   bump := bump s; thr := thr s; fl := fl s; ncas := ncas s |}, [])
          else (s, [])
      | CPushZ b sz =>
          (* fast_fill(block[0..sz], 0) and then deallocate: both before the first schedule point *)
          if mem_n b (held l)
          then ({| head := head s; gen := gen s; nxt := upd_nxt (nxt s) b (zero_low (nxt s b) sz);
                   count := count s; bump := bump s;
                   thr := upd_thr (thr s) t {| pc := PushStart b; held := remove_n b (held l) |};
                   fl := fl s; ncas := ncas s |}, [])
          else (s, [])
      end
    | PopStart =>
        let ev := [(1, pack c (head s) (gen s))] in
        if head s =? tail c
        then (set_thr s t {| pc := PopEmpty; held := held l |}, ev)
        else (set_thr s t {| pc := PopLoaded (head s) (gen s); held := held l |}, ev)
    | PopLoaded h g =>
        (set_thr s t {| pc := PopRead h g (nxt s h); held := held l |}, [(2, nxt s h)])
    | PopRead h g n =>
        if (head s =? h) && (gen s =? g)
        then ({| head := n; gen := (g + 1) mod gmod c; nxt := nxt s; count := count s;
                 bump := bump s; thr := upd_thr (thr s) t {| pc := PopWon h; held := held l |};
                 fl := tl (fl s); ncas := ncas s + 1 |}, [(3, 1)])
        else (set_thr s t {| pc := PopStart; held := held l |}, [(3, 0)])
    | PopWon h =>
        ({| head := head s; gen := gen s; nxt := nxt s; count := (count s + W32 - 1) mod W32;
            bump := bump s; thr := upd_thr (thr s) t {| pc := Idle; held := held l ++ [h] |};
            fl := fl s; ncas := ncas s |}, [])
    | PopEmpty =>
        if lfkind c
        then (* allocate_new_block: load the offset, give up if the block does not fit *)
          if fits c (bump s)
          then (set_thr s t {| pc := PopBump (bump s); held := held l |}, [(5, bump s)])
          else (set_thr s t {| pc := Idle; held := held l |}, [(5, bump s)])
        else
          if cap c <? bump s + bsize c
          then (set_thr s t {| pc := Idle; held := held l |}, [])
          else ({| head := head s; gen := gen s; nxt := nxt s; count := count s;
                   bump := bump s + bsize c;
                   thr := upd_thr (thr s) t {| pc := Idle; held := held l ++ [bump s] |};
                   fl := fl s; ncas := ncas s |}, [(5, bump s)])
    | PopBump cur =>
        if bump s =? cur
        then ({| head := head s; gen := gen s; nxt := nxt s; count := count s;
                 bump := cur + bsize c;
                 thr := upd_thr (thr s) t {| pc := Idle; held := held l ++ [cur] |};
                 fl := fl s; ncas := ncas s |}, [(6, 1)])
        else (* Err(actual): continue with the value the exchange returned *)
          if fits c (bump s)
          then (set_thr s t {| pc := PopBump (bump s); held := held l |}, [(6, 0)])
          else (set_thr s t {| pc := Idle; held := held l |}, [(6, 0)])
    | PushStart b =>
        (set_thr s t {| pc := PushLoaded b (head s) (gen s); held := held l |},
         [(11, pack c (head s) (gen s))])
    | PushLoaded b h g =>
        ({| head := head s; gen := gen s; nxt := upd_nxt (nxt s) b h; count := count s;
            bump := bump s; thr := upd_thr (thr s) t {| pc := PushWritten b h g; held := held l |};
            fl := fl s; ncas := ncas s |}, [])
    | PushWritten b h g =>
        if (head s =? h) && (gen s =? g)
        then ({| head := b; gen := (g + 1) mod gmod c; nxt := nxt s; count := count s;
                 bump := bump s; thr := upd_thr (thr s) t {| pc := PushWon; held := held l |};
                 fl := b :: fl s; ncas := ncas s + 1 |}, [(13, 1)])
        else (set_thr s t {| pc := PushStart b; held := held l |}, [(13, 0)])
    | PushWon =>
        ({| head := head s; gen := gen s; nxt := nxt s; count := (count s + 1) mod W32;
            bump := bump s; thr := upd_thr (thr s) t {| pc := Idle; held := held l |};
            fl := fl s; ncas := ncas s |}, [])
    end
  end.

Definition sched := list (nat * cmd).

Fixpoint run (c : cfg) (s : state) (sc : sched) : state :=
  match sc with
  | [] => s
  | (t, k) :: r => run c (fst (step c s t k)) r
  end.

Fixpoint run_trace (c : cfg) (s : state) (sc : sched) : state * list (N * N) :=
  match sc with
  | [] => (s, [])
  | (t, k) :: r =>
      let '(s1, ev) := step c s t k in
      let '(s2, ev2) := run_trace c s1 r in (s2, ev ++ ev2)
  end.

(* what a thread owns: the blocks it was handed plus the block in flight *)
Definition inflight (p : pcT) : list N :=
  match p with
  | PopWon h => [h]
  | PushStart b | PushLoaded b _ _ | PushWritten b _ _ => [b]
  | _ => []
  end.
Definition holds (l : local) : list N := held l ++ inflight (pc l).

(* the free list as the code would traverse it: follow links from the head *)
Fixpoint walk (fuel : nat) (tl_ : N) (f : N -> N) (h : N) : option (list N) :=
  if h =? tl_ then Some []
  else match fuel with
       | O => None
       | S k => match walk k tl_ f (f h) with Some r => Some (h :: r) | None => None end
       end.

Definition quiescent (s : state) : Prop := Forall (fun l => pc l = Idle) (thr s).

(* --- observation used by the correspondence check ------------------------------ *)
Fixpoint flat (l : list (N * N)) : list N :=
  match l with [] => [] | (a, b) :: r => a :: b :: flat r end.

Definition all_idle (s : state) : bool :=
  forallb (fun l => match pc l with Idle => true | _ => false end) (thr s).

(* final observation: head (packed), count, bump, free list by walking, held sets *)
Definition final_obs (c : cfg) (s : state) (fuel : nat) : list N * option (list N) * list (list N) :=
  ([pack c (head s) (gen s); count s; bump s],
   walk fuel (tail c) (nxt s) (head s),
   map held (thr s)).

(* --- safety as a decidable check (used for refutations) -------------------------- *)
Fixpoint nodup_n (l : list N) : bool :=
  match l with [] => true | x :: r => negb (mem_n x r) && nodup_n r end.
Definition all_holds (s : state) : list N := concat (map holds (thr s)).
(* every block is in at most one place: some thread's hands or the free list *)
Definition exclusive (c : cfg) (s : state) (fuel : nat) : bool :=
  match walk fuel (tail c) (nxt s) (head s) with
  | None => false
  | Some free => nodup_n (all_holds s ++ free)
  end.

(* side conditions on a configuration: no block offset equals LIST_TAIL, blocks are not empty *)
Definition cfg_wf (c : cfg) : Prop :=
  (forall off, bump0 c <= off -> off + bsize c <= cap c -> off <> tail c) /\ 0 < bsize c.

(* ======================================================================================
   Treiber stack of src/memory/secure_pool.rs (LockFreeStack<T>::{push,pop}): the head is
   a raw node address without a tag, nodes are heap boxes allocated by push and freed by
   the popper.  The allocator may return any currently free address: the address is
   chosen by the schedule ([TPush d a] is ignored if a is not free).  Reading the link
   of a freed node is recorded as a fault (use after free); the value read is what the
   memory last held.
   ====================================================================================== *)
Inductive tcmd :=
| TNone
| TPop
| TPush (d a : N).              (* push datum d in a node allocated at address a <> 0 *)

Inductive tpc :=
| TIdle
| TPopStart
| TPopLoaded (h : N)
| TPopRead (h n : N)
| TPushStart (a : N)
| TPushLoaded (a h : N)
| TPushWritten (a h : N).

Record tlocal := { tpcv : tpc; got : list N }.      (* got: data returned by pops *)

Record tstate := {
  thead : N;                          (* 0 = null *)
  tlive : N -> bool;                  (* node address currently allocated *)
  tdata : N -> N;
  tnext : N -> N;                     (* memory keeps its last content after free *)
  tthr  : list tlocal;
  tfault : bool                       (* a freed node was dereferenced *)
}.

Fixpoint upd_tthr (l : list tlocal) (t : nat) (x : tlocal) : list tlocal :=
  match l, t with
  | [], _ => []
  | _ :: r, O => x :: r
  | y :: r, S t' => y :: upd_tthr r t' x
  end.
Definition updb (f : N -> bool) (a : N) (v : bool) : N -> bool := fun x => if x =? a then v else f x.

Definition tinit (nthreads : nat) : tstate :=
  {| thead := 0; tlive := fun _ => false; tdata := fun _ => 0; tnext := fun _ => 0;
     tthr := repeat {| tpcv := TIdle; got := [] |} nthreads; tfault := false |}.

Definition tset (s : tstate) (t : nat) (x : tlocal) : tstate :=
  {| thead := thead s; tlive := tlive s; tdata := tdata s; tnext := tnext s;
     tthr := upd_tthr (tthr s) t x; tfault := tfault s |}.

Definition tstep (s : tstate) (t : nat) (k : tcmd) : tstate :=
  match nth_error (tthr s) t with
  | None => s
  | Some l =>
    match tpcv l with
    | TIdle =>
      match k with
      | TNone => s
      | TPop => tset s t {| tpcv := TPopStart; got := got l |}
      | TPush d a =>
          if (a =? 0) || tlive s a then s
          else (* Box::new(Node { data, next: null }) *)
            {| thead := thead s; tlive := updb (tlive s) a true; tdata := upd_nxt (tdata s) a d;
               tnext := upd_nxt (tnext s) a 0;
               tthr := upd_tthr (tthr s) t {| tpcv := TPushStart a; got := got l |};
               tfault := tfault s |}
      end
    | TPopStart =>
        if thead s =? 0 then tset s t {| tpcv := TIdle; got := got l |}       (* None *)
        else tset s t {| tpcv := TPopLoaded (thead s); got := got l |}
    | TPopLoaded h =>                                                      (* reads head->next *)
        {| thead := thead s; tlive := tlive s; tdata := tdata s; tnext := tnext s;
           tthr := upd_tthr (tthr s) t {| tpcv := TPopRead h (tnext s h); got := got l |};
           tfault := tfault s || negb (tlive s h) |}
    | TPopRead h n =>
        if thead s =? h
        then (* success: Box::from_raw(head).data, node freed *)
          {| thead := n; tlive := updb (tlive s) h false; tdata := tdata s; tnext := tnext s;
             tthr := upd_tthr (tthr s) t {| tpcv := TIdle; got := got l ++ [tdata s h] |};
             tfault := tfault s || negb (tlive s h) |}
        else tset s t {| tpcv := TPopStart; got := got l |}
    | TPushStart a => tset s t {| tpcv := TPushLoaded a (thead s); got := got l |}
    | TPushLoaded a h =>
        {| thead := thead s; tlive := tlive s; tdata := tdata s; tnext := upd_nxt (tnext s) a h;
           tthr := upd_tthr (tthr s) t {| tpcv := TPushWritten a h; got := got l |};
           tfault := tfault s |}
    | TPushWritten a h =>
        if thead s =? h
        then {| thead := a; tlive := tlive s; tdata := tdata s; tnext := tnext s;
                tthr := upd_tthr (tthr s) t {| tpcv := TIdle; got := got l |};
                tfault := tfault s |}
        else tset s t {| tpcv := TPushStart a; got := got l |}
    end
  end.

Fixpoint trun (s : tstate) (sc : list (nat * tcmd)) : tstate :=
  match sc with
  | [] => s
  | (t, k) :: r => trun (tstep s t k) r
  end.

(* contents of the stack by traversal; None if the traversal meets a freed node or does
   not end within the fuel *)
Fixpoint twalk (fuel : nat) (s : tstate) (h : N) : option (list N) :=
  if h =? 0 then Some []
  else match fuel with
       | O => None
       | S k => if tlive s h
                then match twalk k s (tnext s h) with Some r => Some (tdata s h :: r) | None => None end
                else None
       end.
