(* C03 — ZeroLengthBlobStore::finish(n) as the start of a history.  Definitions only.
   `finish(records)` creates the store with `num_records = records` (the statistics loop aside); the state of the model
   (ModelZero.v) is that count. *)
From ZV.Common Require Import Base Run.
From ZV.C03 Require Import Model ModelStore ModelZero.
Open Scope N_scope.

Definition zero_finish (n : N) : N := n.

(* the property's machine for such a store: ids 0..n-1 hold the empty record, the next id is n *)
Definition spec_zero_finish (n : N) : spec :=
  {| s_live := fun id => if id <? n then Some [] else None; s_count := n; s_next := n |}.

(* the case the harness writes: finish(n), a history, what the real store answered *)
Definition check_zero_finish (n : N) (ops : list xop) (expect : list (list N)) : bool :=
  eqb_lln (st_run zero_ops (zero_finish n) ops) expect
  && eqb_lln (spec_xrun (spec_zero_finish n) ops) expect.
