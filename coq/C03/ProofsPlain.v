(* C03: PlainBlobStore, part 2 — every history, including close + reopen, refines the property's state machine. *)
From ZV.Common Require Import Base Run.
From ZV.C03 Require Import Model ModelStore ProofsStore ModelPlain ProofsPlainFs.
Open Scope N_scope.

(* the abstraction relation: the directory holds exactly one canonical file per live record *)
Definition plain_rel (st : plain) (s : spec) : Prop :=
  (forall id, dlookup (render id) (p_dir st) = s_live s id) /\
  nlen (p_dir st) = s_count s /\
  p_next st = s_next s /\
  NoDup (dnames (p_dir st)) /\
  canonical (p_next st) (p_dir st) /\
  1 <= p_next st < W32.

Lemma plain_rel_create : plain_rel plain_create spec_empty.
Proof.
  unfold plain_rel, plain_create, spec_empty; cbn [p_dir p_next s_live s_count s_next dlookup nlen dnames map].
  split; [reflexivity|]. split; [reflexivity|]. split; [reflexivity|]. split; [constructor|].
  split; [intros k v []|]. unfold W32. lia.
Qed.

Lemma plain_live_below st s id d : plain_rel st s -> s_live s id = Some d -> id < s_next s.
Proof.
  intros (Hl & _ & Hn & _ & Hc & _) H. rewrite <- Hl in H. apply dlookup_in in H.
  destruct (Hc _ _ H) as (id' & E & Hlt). apply render_inj in E. subst. lia.
Qed.

Lemma canonical_mono b b' m : b <= b' -> canonical b m -> canonical b' m.
Proof. intros Hb Hc k v Hin. destruct (Hc k v Hin) as (id & E & Hlt). exists id. split; [exact E|lia]. Qed.

Lemma plain_put_clause st s d :
  plain_rel st s -> True -> s_next s + 1 < W32 ->
  snd (plain_put st d) = Some (s_next s) /\ plain_rel (fst (plain_put st d)) (fst (spec_put s d)).
Proof.
  intros HR _ Hb. pose proof HR as (Hl & Hc & Hn & Hd & Hcan & Hlt).
  unfold plain_put. cbn [fst snd]. split; [rewrite Hn; reflexivity|].
  set (id := p_next st) in *.
  assert (Hfresh : dlookup (render id) (p_dir st) = None).
  { rewrite Hl. destruct (s_live s id) eqn:E; [|reflexivity].
    apply (plain_live_below st s id b HR) in E. unfold id in E. lia. }
  assert (Htmp : dlookup (tmp_name id) (p_dir st) = None).
  { destruct (dlookup (tmp_name id) (p_dir st)) eqn:E; [|reflexivity].
    apply dlookup_in in E. destruct (Hcan _ _ E) as (id' & E' & _). exfalso. exact (tmp_not_render _ _ E'). }
  (* the temporary file comes and goes: the directory after the rename is the old one plus the record file *)
  assert (Hdir : dremove (tmp_name id) (dinsert (tmp_name id) d (p_dir st)) = p_dir st).
  { unfold dinsert. cbn [dremove]. rewrite eqb_ln_refl.
    rewrite (dremove_absent (tmp_name id) (p_dir st) Htmp). apply dremove_absent.
    exact Htmp. }
  rewrite Hdir.
  unfold plain_rel, spec_put; cbn [p_dir p_next s_live s_count s_next fst].
  split; [|split; [|split; [|split; [|split]]]].
  - intros id'. unfold upd. rewrite <- Hn. fold id. destruct (N.eqb_spec id' id) as [->|Hne].
    + apply dlookup_dinsert_same.
    + rewrite dlookup_dinsert_other; [apply Hl|]. intros E. apply render_inj in E. contradiction.
  - unfold dinsert. cbn [nlen]. rewrite dremove_absent by exact Hfresh. lia.
  - rewrite <- Hn. fold id. rewrite N.mod_small by (unfold id; lia). reflexivity.
  - apply nodup_dinsert. exact Hd.
  - rewrite N.mod_small by (unfold id; lia). intros k v Hin. unfold dinsert in Hin. cbn [In] in Hin.
    destruct Hin as [E|Hin].
    + inversion E; subst. exists id. split; [reflexivity|lia].
    + apply in_dremove in Hin. destruct Hin as [Hin _]. destruct (Hcan _ _ Hin) as (id' & E' & Hlt').
      exists id'. split; [exact E'|]. fold id in Hlt'. lia.
  - rewrite N.mod_small by (unfold id; lia). unfold id. lia.
Qed.

Lemma plain_remove_clause st s id :
  plain_rel st s -> snd (plain_remove st id) = live_some s id /\ plain_rel (fst (plain_remove st id)) (spec_remove s id).
Proof.
  intros HR. pose proof HR as (Hl & Hc & Hn & Hd & Hcan & Hlt).
  unfold plain_remove, live_some, spec_remove. cbn [spec_step]. rewrite Hl.
  destruct (s_live s id) as [d|] eqn:E; cbn [fst snd].
  - split; [reflexivity|].
    unfold plain_rel; cbn [p_dir p_next s_live s_count s_next].
    split; [|split; [|split; [|split; [|split]]]]; try assumption.
    + intros id'. unfold upd. destruct (N.eqb_spec id' id) as [->|Hne].
      * apply dlookup_dremove_same.
      * rewrite dlookup_dremove_other; [apply Hl|]. intros E'. apply render_inj in E'. contradiction.
    + rewrite <- Hl in E. pose proof (nlen_dremove_present _ _ _ Hd E). lia.
    + apply nodup_dremove. exact Hd.
    + intros k v Hin. apply in_dremove in Hin. destruct Hin as [Hin _]. apply (Hcan _ _ Hin).
  - split; [reflexivity|exact HR].
Qed.

Lemma plain_get_clause st s id :
  plain_rel st s -> snd (plain_get st id) = s_live s id /\ plain_rel (fst (plain_get st id)) s.
Proof. intros HR. unfold plain_get. cbn [fst snd]. split; [apply HR|exact HR]. Qed.

Theorem plain_store_refines_proof : refines W32 (fun _ => True) plain_ops plain_rel.
Proof.
  constructor; cbn [plain_ops o_put o_batch o_remove o_rmbatch o_get o_getbatch o_contains o_size o_len].
  - intros st s d HR HP Hb. exact (plain_put_clause st s d HR I Hb).
  - intros st s ds HR HP Hb.
    apply (put_loop_refines W32 (fun _ => True) plain_rel _ plain_put_clause ds st s HR HP Hb).
  - exact plain_remove_clause.
  - intros st s ids HR. apply (rm_loop_refines plain_rel _ plain_remove_clause ids st s HR).
  - exact plain_get_clause.
  - intros st s ids HR. apply (get_loop_refines plain_rel _ plain_get_clause ids st s HR).
  - intros st s id HR. unfold live_some. destruct HR as (Hl & _). rewrite Hl. reflexivity.
  - intros st s id HR. cbn [fst snd]. split; [|exact HR]. destruct HR as (Hl & _). rewrite Hl. reflexivity.
  - intros st s (Hl & Hc & Hn & Hd & Hcan & Hlt). rewrite <- Hc.
    apply (scan_count_canonical (p_next st)); [lia|exact Hcan].
Qed.

(* ---------------- reopen = rescan ---------------- *)
Lemma plain_reopen_clause st s :
  plain_rel st s ->
  exists st' s', plain_open (p_dir st) = Some st' /\ plain_rel st' s' /\ reopen_ok s s'.
Proof.
  intros HR. pose proof HR as (Hl & Hc & Hn & Hd & Hcan & Hlt).
  assert (Hmax : scan_max (p_dir st) + 1 <= p_next st).
  { destruct (scan_max_lt (p_next st) (p_dir st) ltac:(lia) Hcan) as [H|H]; lia. }
  exists {| p_dir := p_dir st; p_next := scan_max (p_dir st) + 1 |}.
  exists {| s_live := s_live s; s_count := s_count s; s_next := scan_max (p_dir st) + 1 |}.
  split; [|split].
  - unfold plain_open. destruct (N.ltb_spec (scan_max (p_dir st) + 1) W32); [reflexivity|lia].
  - unfold plain_rel; cbn [p_dir p_next s_live s_count s_next].
    split; [exact Hl|]. split; [exact Hc|]. split; [reflexivity|]. split; [exact Hd|]. split; [|lia].
    intros k v Hin. destruct (Hcan k v Hin) as (id & E & Hid). exists id. split; [exact E|].
    subst k. pose proof (scan_max_ge (p_next st) (p_dir st) id v ltac:(lia) Hcan Hin). lia.
  - unfold reopen_ok; cbn [s_live s_count s_next]. split; [reflexivity|]. split; [reflexivity|]. split; [|lia].
    intros id d Hlive. rewrite <- Hl in Hlive. apply dlookup_in in Hlive.
    pose proof (scan_max_ge (p_next st) (p_dir st) id d ltac:(lia) Hcan Hlive). lia.
Qed.

Lemma pputs_cons o t : pputs (o :: t) = pputs [o] + pputs t.
Proof. destruct o; cbn [pputs]; lia. Qed.

Lemma plain_refines_trace ops : forall st s,
  plain_rel st s -> s_next s + pputs ops < W32 -> spec_ptrace s ops (plain_prun st ops).
Proof.
  induction ops as [|o t IH]; intros st s HR Hb; [constructor|].
  rewrite pputs_cons in Hb. destruct o as [o|].
  - cbn [pputs] in Hb.
    destruct (refines_step W32 (fun _ => True) plain_ops plain_rel plain_store_refines_proof st s o HR
                (proj2 (Forall_forall _ _) (fun _ _ => I)) ltac:(lia)) as (H1 & H2 & H3).
    cbn [plain_prun plain_pstep]. destruct (st_step plain_ops st o) as [st1 r1]. cbn [fst snd] in *. subst r1.
    constructor. apply IH; [exact H2|lia].
  - destruct (plain_reopen_clause st s HR) as (st' & s' & Ho & HR' & Hok).
    cbn [plain_prun plain_pstep]. rewrite Ho. apply (spt_reopen s s'); [exact Hok|].
    apply IH; [exact HR'|]. destruct Hok as (_ & _ & _ & Hle). cbn [pputs] in Hb. lia.
Qed.

Theorem plain_history_refines_proof ops :
  1 + pputs ops < W32 -> spec_ptrace spec_empty ops (plain_prun plain_create ops).
Proof. intros H. apply plain_refines_trace; [apply plain_rel_create|exact H]. Qed.

(* without reopen steps the trace relation is the run function: the same shape as mem_history_refines_spec *)
Theorem plain_history_no_reopen_proof ops :
  1 + xputs ops < W32 -> st_run plain_ops plain_create ops = spec_xrun spec_empty ops.
Proof.
  intros H. apply (refines_run W32 (fun _ => True) plain_ops plain_rel plain_store_refines_proof);
    [apply plain_rel_create|apply Forall_forall; intros; exact I|exact H].
Qed.

Lemma spec_ptrace_no_reopen ops : forall s rs, spec_ptrace s (pxops ops) rs -> rs = spec_xrun s ops.
Proof.
  induction ops as [|o t IH]; intros s rs H; inversion H; subst; [reflexivity|].
  cbn [spec_xrun]. destruct (spec_xstep s o) as [s1 r] eqn:E. cbn [fst snd] in *. f_equal. apply IH. assumption.
Qed.

(* ids are not reused for a live record: after every history (reopens included) the next id is above every live id,
   it is not the name of a file, and it is what the next put returns *)
Lemma plain_exec_rel ops : forall st s,
  plain_rel st s -> s_next s + pputs ops < W32 ->
  exists s', plain_rel (plain_pexec st ops) s' /\ s_next s' <= s_next s + pputs ops.
Proof.
  induction ops as [|o t IH]; intros st s HR Hb.
  - exists s. cbn [plain_pexec pputs]. split; [exact HR|lia].
  - rewrite pputs_cons in Hb. rewrite pputs_cons. destruct o as [o|].
    + cbn [pputs] in Hb.
      destruct (refines_step W32 (fun _ => True) plain_ops plain_rel plain_store_refines_proof st s o HR
                  (proj2 (Forall_forall _ _) (fun _ _ => I)) ltac:(lia)) as (H1 & H2 & H3).
      cbn [plain_pexec plain_pstep]. destruct (IH _ _ H2 ltac:(lia)) as (s' & HR' & Hn').
      exists s'. split; [exact HR'|]. cbn [pputs]. lia.
    + destruct (plain_reopen_clause st s HR) as (st' & s' & Ho & HR' & Hok).
      cbn [plain_pexec plain_pstep]. rewrite Ho. cbn [fst].
      destruct Hok as (_ & _ & _ & Hle). cbn [pputs] in Hb.
      destruct (IH _ _ HR' ltac:(lia)) as (s2 & HR2 & Hn2). exists s2. split; [exact HR2|]. cbn [pputs]. lia.
Qed.

Theorem plain_ids_not_reused_proof ops d :
  1 + pputs ops < W32 ->
  let st := plain_pexec plain_create ops in
  snd (plain_put st d) = Some (p_next st) /\
  snd (plain_get st (p_next st)) = None /\
  (forall id r, snd (plain_get st id) = Some r -> id < p_next st).
Proof.
  intros H st. destruct (plain_exec_rel ops plain_create spec_empty plain_rel_create H) as (s' & HR & Hn).
  fold st in HR. split; [reflexivity|]. pose proof HR as (Hl & Hc & Hnx & Hd & Hcan & Hlt). split.
  - unfold plain_get. cbn [snd]. rewrite Hl. destruct (s_live s' (p_next st)) eqn:E; [|reflexivity].
    apply (plain_live_below st s' _ _ HR) in E. lia.
  - intros id r Hg. unfold plain_get in Hg. cbn [snd] in Hg. rewrite Hl in Hg.
    apply (plain_live_below st s' _ _ HR) in Hg. lia.
Qed.

(* a store opened on an existing directory of record files answers with exactly those files *)
Theorem plain_open_existing_proof (m : dirmap) :
  NoDup (dnames m) -> canonical (W32 - 1) m ->
  exists st s, plain_open m = Some st /\ plain_rel st s /\
               (forall id, s_live s id = dlookup (render id) m) /\ s_count s = nlen m.
Proof.
  intros Hd Hcan.
  assert (Hmax : scan_max m + 1 < W32).
  { destruct (scan_max_lt (W32 - 1) m ltac:(unfold W32; lia) Hcan) as [H|H]; unfold W32 in *; lia. }
  exists {| p_dir := m; p_next := scan_max m + 1 |}.
  exists {| s_live := fun id => dlookup (render id) m; s_count := nlen m; s_next := scan_max m + 1 |}.
  split; [|split; [|split; [reflexivity|reflexivity]]].
  - unfold plain_open. destruct (N.ltb_spec (scan_max m + 1) W32); [reflexivity|lia].
  - unfold plain_rel; cbn [p_dir p_next s_live s_count s_next].
    split; [reflexivity|]. split; [reflexivity|]. split; [reflexivity|]. split; [exact Hd|]. split; [|lia].
    intros k v Hin. destruct (Hcan k v Hin) as (id & E & Hid). exists id. split; [exact E|]. subst k.
    pose proof (scan_max_ge (W32 - 1) m id v ltac:(unfold W32; lia) Hcan Hin). lia.
Qed.

Example plain_nontrivial :
  plain_prun plain_create
    [PX (XO (MPut [1;2])); PX (XO (MPut [])); PX (XO (MBatch [[3]; [4;4]])); PX (XO (MRemove 4)); PX (XO (MRemove 3)); PReopen;
     PX (XO (MPut [9])); PX (XO (MQuery 3)); PX (XO (MQuery 4)); PX (XO MLen); PX (XGetBatch [1; 2; 5]); PX (XRmBatch [1; 1; 2])]
  = [[1]; [2]; [3; 4]; [1]; [1]; [1]; [3]; [1; 1; 9]; [0]; [3]; [1; 2; 1; 2; 1; 0; 0]; [2]].
Proof. vm_compute. reflexivity. Qed.
Example plain_dir_nontrivial :
  p_dir (plain_pexec plain_create [PX (XO (MPut [1;2])); PX (XO (MBatch [[3]; [4;4]])); PX (XO (MRemove 2))])
  = [([51], [4;4]); ([49], [1;2])].
Proof. vm_compute. reflexivity. Qed.

(* the 32-bit counter wraps (AtomicU32::fetch_add): a directory that already holds a file named 4294967294 next to record 1 -
   the third put after opening it returns id 1 and replaces the live record (rename replaces an existing file); and a file
   named 4294967295 makes new() overflow in `max_id + 1` *)
Lemma plain_wrap_overwrites :
  exists m st0, NoDup (dnames m) /\ canonical W32 m /\ plain_open m = Some st0 /\
    let '(st1, _) := plain_put st0 [7] in let '(st2, _) := plain_put st1 [8] in let '(st3, id3) := plain_put st2 [9] in
    id3 = Some 1 /\ snd (plain_get st0 1) = Some [1] /\ snd (plain_get st3 1) = Some [9].
Proof.
  exists [(render 1, [1]); (render 4294967294, [2])]. eexists. split; [|split; [|split]].
  - cbn [dnames map fst]. apply NoDup_cons; [intros [H|[]]; vm_compute in H; discriminate|].
    apply NoDup_cons; [intros []|apply NoDup_nil].
  - intros k v [H|[H|[]]]; inversion H; subst; eexists; (split; [reflexivity|unfold W32; lia]).
  - vm_compute. reflexivity.
  - vm_compute. repeat split; reflexivity.
Qed.
Lemma plain_open_overflow : plain_open [(render 4294967295, [])] = None.
Proof. vm_compute. reflexivity. Qed.
