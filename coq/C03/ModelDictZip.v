(* C03 — DictZipBlobStore: id allocation, the storage map, the decompression cache and its eviction on remove /
   remove_batch, len / contains / size — over an abstract PA-Zip compressor and entropy stage.  Definitions only.

   Modelled code: src/compression/dict_zip/blob_store.rs
     next_record_id (u64 counter, `as RecordId` truncation), put (empty refused; min_compression_size; dictionary stage;
     optional entropy stage kept only when check_compression_ratio says so; stored compressed only when shorter),
     get (cache first; decode_entropy with entropy_input_size; decompress; store_in_cache), remove (storage.remove, then
     cache.remove), contains, size (original_size), len, put_batch / get_batch / remove_batch (loops).
   Abstract: the PA-Zip compressor (property C02), the entropy coders (C01), the f32 ratio test, and the LruMap used
   as cache (any map that answers a lookup only with what was put under that key and not removed since). *)
From ZV.Common Require Import Base Run.
From ZV.C03 Require Import Model ModelStore.
Open Scope N_scope.

(* CompressedBlob *)
Record dzblob := {
  zb_data : bytes;            (* compressed_data *)
  zb_orig : N;                (* original_size *)
  zb_comp : bool;             (* is_compressed *)
  zb_ent : bool;              (* entropy_algorithm != None *)
  zb_ent_in : N }.            (* entropy_input_size *)

Record dzcfg := {
  dz_min : N;                 (* min_compression_size *)
  dz_entropy : bool }.        (* entropy_algorithm != None *)

Record dz (C : Type) := {
  dz_storage : list (N * dzblob);   (* HashMap<RecordId, CompressedBlob> *)
  dz_cache : C;                     (* LruMap<RecordId, Vec<u8>> *)
  dz_next : N }.                    (* next_id: u64 *)
Arguments dz_storage {C}. Arguments dz_cache {C}. Arguments dz_next {C}.

Section DictZip.
  Context {C : Type}.
  Variable cfg : dzcfg.
  (* PaZipCompressor::compress / decompress *)
  Variable pz_comp : bytes -> option bytes.
  Variable pz_decomp : bytes -> option bytes.
  (* apply_entropy_encoding / decode_entropy(data, entropy_input_size, algo) *)
  Variable ent_enc : bytes -> option bytes.
  Variable ent_dec : bytes -> N -> option bytes.
  (* check_compression_ratio(original, compressed): an f32 comparison *)
  Variable ratio_ok : bytes -> bytes -> bool.
  (* the LruMap *)
  Variable lru_get : C -> N -> option bytes.
  Variable lru_put : C -> N -> bytes -> C.
  Variable lru_remove : C -> N -> C.

  Definition dz_new (cache : C) : dz C := {| dz_storage := []; dz_cache := cache; dz_next := 0 |}.

  (* the blob put builds for a record that passed the size threshold; None: a stage failed (`?`) *)
  Definition dz_compress (d : bytes) : option dzblob :=
    let raw := {| zb_data := d; zb_orig := nlen d; zb_comp := false; zb_ent := false; zb_ent_in := nlen d |} in
    if nlen d <? dz_min cfg then Some raw else
    match pz_comp d with
    | None => None
    | Some dc =>
      let stage2 :=
        if dz_entropy cfg then
          match ent_enc dc with
          | None => None
          | Some e => if ratio_ok dc e then Some (e, true) else Some (dc, false)
          end
        else Some (dc, false) in
      match stage2 with
      | None => None
      | Some (final, ent) =>
        if nlen final <? nlen d then
          Some {| zb_data := final; zb_orig := nlen d; zb_comp := true; zb_ent := ent; zb_ent_in := nlen dc |}
        else Some raw
      end
    end.

  (* put: the id is taken before compression is attempted *)
  Definition dz_put (st : dz C) (d : bytes) : dz C * option N :=
    match d with
    | [] => (st, None)
    | _ =>
      let nx := (dz_next st + 1) mod W64 in
      let id := nx mod W32 in
      match dz_compress d with
      | None => ({| dz_storage := dz_storage st; dz_cache := dz_cache st; dz_next := nx |}, None)
      | Some b => ({| dz_storage := ainsert id b (dz_storage st); dz_cache := dz_cache st; dz_next := nx |}, Some id)
      end
    end.

  Definition dz_decode (b : dzblob) : option bytes :=
    match (if zb_ent b then ent_dec (zb_data b) (zb_ent_in b) else Some (zb_data b)) with
    | None => None
    | Some dc => if zb_comp b then pz_decomp dc else Some dc
    end.

  Definition dz_get (st : dz C) (id : N) : dz C * option bytes :=
    match lru_get (dz_cache st) id with
    | Some d => (st, Some d)
    | None =>
      match alookup id (dz_storage st) with
      | None => (st, None)
      | Some b =>
        match dz_decode b with
        | None => (st, None)
        | Some d => ({| dz_storage := dz_storage st; dz_cache := lru_put (dz_cache st) id d; dz_next := dz_next st |}, Some d)
        end
      end
    end.

  Definition dz_remove (st : dz C) (id : N) : dz C * bool :=
    match alookup id (dz_storage st) with
    | None => (st, false)
    | Some _ => ({| dz_storage := aremove id (dz_storage st); dz_cache := lru_remove (dz_cache st) id; dz_next := dz_next st |}, true)
    end.

  Definition dz_ops : store_ops (dz C) := {|
    o_put := dz_put;
    o_batch := put_loop dz_put;
    o_remove := dz_remove;
    o_rmbatch := rm_loop dz_remove;
    o_get := dz_get;
    o_getbatch := get_loop dz_get;
    o_contains := fun st id => match alookup id (dz_storage st) with Some _ => true | None => false end;
    o_size := fun st id => (st, option_map zb_orig (alookup id (dz_storage st)));
    o_len := fun st => nlen (dz_storage st) |}.

  (* the round-trip laws of the abstract stages *)
  Record dz_codec_lawful : Prop := {
    dzl_pz : forall d c, pz_comp d = Some c -> pz_decomp c = Some d;
    dzl_ent : forall c e, ent_enc c = Some e -> ent_dec e (nlen c) = Some c }.
  (* the law of the cache: a lookup answers only with what was put under that key and not removed since *)
  Record lru_lawful : Prop := {
    lrl_put : forall c k v k' v', lru_get (lru_put c k v) k' = Some v' -> (k' = k /\ v' = v) \/ lru_get c k' = Some v';
    lrl_remove_same : forall c k, lru_get (lru_remove c k) k = None;
    lrl_remove_other : forall c k k' v', lru_get (lru_remove c k) k' = Some v' -> lru_get c k' = Some v' }.

  (* the records put accepts: non-empty, and no stage reports an error *)
  Definition dz_P (d : bytes) : Prop := d <> [] /\ dz_compress d <> None.

  Definition dz_rel (st : dz C) (s : spec) : Prop :=
    (forall id, match alookup id (dz_storage st) with
                | Some b => exists d, s_live s id = Some d /\ dz_decode b = Some d /\ zb_orig b = nlen d
                | None => s_live s id = None
                end) /\
    nlen (dz_storage st) = s_count s /\
    dz_next st + 1 = s_next s /\
    NoDup (map fst (dz_storage st)) /\
    (forall id d, s_live s id = Some d -> id < s_next s) /\
    (forall id d, lru_get (dz_cache st) id = Some d -> s_live s id = Some d).
End DictZip.

(* an unbounded LruMap that never evicts, and one that never keeps anything *)
Definition alru_get (c : list (N * bytes)) (k : N) : option bytes := alookup k c.
Definition alru_put (c : list (N * bytes)) (k : N) (v : bytes) : list (N * bytes) := ainsert k v c.
Definition alru_remove (c : list (N * bytes)) (k : N) : list (N * bytes) := aremove k c.

(* a toy dictionary stage (for evaluating the model): a run of equal bytes at the front is stored as (byte, count) *)
Fixpoint run_len (x : N) (d : bytes) : nat :=
  match d with y :: t => if x =? y then S (run_len x t) else O | [] => O end.
Definition toy_comp (d : bytes) : option bytes :=
  match d with
  | [] => Some []
  | x :: t => let k := N.min (N.of_nat (run_len x t)) 200 in Some (x :: k :: skipn (N.to_nat k) t)
  end.
Definition toy_decomp (c : bytes) : option bytes :=
  match c with
  | [] => Some []
  | x :: k :: rest => Some (x :: repeat x (N.to_nat k) ++ rest)
  | _ => None
  end.
