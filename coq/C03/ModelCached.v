(* C03 — CachedBlobStore<T>: a page cache in front of an arbitrary inner store.  Definitions only.

   Modelled code: src/blob_store/cached_store.rs  put / get / remove / contains / size / len, write_strategy,
   cache_enabled, blob_metadata (id -> (offset, size) in the cache's virtual file), next_offset,
   cache_data_at_offset, read_cached, invalidate_cached_blob.
   The page cache itself (src/cache, property C17) is abstract: a state type PC with
     pc_read  pc off len   = cache.read(file_id, off, len)            Some d: the returned buffer `has_data()`
     pc_dirty pc off data  = cache_data_at_offset(off, data)          (marks the pages of the range dirty)
     pc_inval pc off len   = cache.invalidate_range(file_id, off, len)
     pc_fill  pc off data  = the place where get, under WriteBack, "would cache the data here" (a no-op in the code)
   In the code as it stands the cache of a virtual file (fd -1) never holds data, i.e. pc_read always answers None; the
   theorems hold for EVERY cache that only ever returns what was handed to pc_dirty / pc_fill for exactly that range.
   next_offset is an AtomicU64 byte counter; it is modelled without wrap-around (2^64 bytes of puts are out of scope). *)
From ZV.Common Require Import Base Run.
From ZV.C03 Require Import Model ModelStore.
Open Scope N_scope.

(* write strategies *)
Definition WRITE_THROUGH : N := 0.
Definition WRITE_BACK : N := 1.
Definition WRITE_AROUND : N := 2.

Record cached (St PC : Type) := {
  c_inner : St;
  c_pc : PC;
  c_meta : list (N * (N * N));     (* blob_metadata: id -> (offset, size) *)
  c_off : N;                       (* next_offset *)
  c_enabled : bool;                (* cache_enabled *)
  c_strategy : N }.
Arguments c_inner {St PC}. Arguments c_pc {St PC}. Arguments c_meta {St PC}. Arguments c_off {St PC}.
Arguments c_enabled {St PC}. Arguments c_strategy {St PC}.

Section Cached.
  Context {St PC : Type} (I : store_ops St).
  Variable pc_read : PC -> N -> N -> PC * option bytes.
  Variable pc_dirty : PC -> N -> bytes -> PC.
  Variable pc_inval : PC -> N -> N -> PC.
  Variable pc_fill : PC -> N -> bytes -> PC.

  Definition cached_new (inner : St) (pc : PC) (strategy : N) (enabled : bool) : cached St PC :=
    {| c_inner := inner; c_pc := pc; c_meta := []; c_off := 0; c_enabled := enabled; c_strategy := strategy |}.

  (* put: the offset is taken first, the inner store assigns the id, the pages of the range are marked dirty under
     WriteThrough / WriteBack, the metadata is recorded *)
  Definition cached_put (c : cached St PC) (d : bytes) : cached St PC * option N :=
    let offset := c_off c in
    let '(in1, r) := o_put I (c_inner c) d in
    match r with
    | None => ({| c_inner := in1; c_pc := c_pc c; c_meta := c_meta c; c_off := offset + nlen d;
                  c_enabled := c_enabled c; c_strategy := c_strategy c |}, None)
    | Some id =>
      let pc1 := if (c_enabled c) && negb (c_strategy c =? WRITE_AROUND) then pc_dirty (c_pc c) offset d else c_pc c in
      ({| c_inner := in1; c_pc := pc1; c_meta := ainsert id (offset, nlen d) (c_meta c); c_off := offset + nlen d;
          c_enabled := c_enabled c; c_strategy := c_strategy c |}, Some id)
    end.

  (* get: disabled -> inner; metadata hit + cache buffer with data -> the buffer; otherwise the inner store *)
  Definition cached_get (c : cached St PC) (id : N) : cached St PC * option bytes :=
    if negb (c_enabled c) then
      let '(in1, g) := o_get I (c_inner c) id in
      ({| c_inner := in1; c_pc := c_pc c; c_meta := c_meta c; c_off := c_off c;
          c_enabled := c_enabled c; c_strategy := c_strategy c |}, g)
    else
      let '(pc1, hit) :=
        match alookup id (c_meta c) with
        | Some (off, sz) => pc_read (c_pc c) off sz
        | None => (c_pc c, None)
        end in
      match hit with
      | Some d => ({| c_inner := c_inner c; c_pc := pc1; c_meta := c_meta c; c_off := c_off c;
                      c_enabled := c_enabled c; c_strategy := c_strategy c |}, Some d)
      | None =>
        let '(in1, g) := o_get I (c_inner c) id in
        let pc2 :=
          match g, alookup id (c_meta c) with
          | Some d, Some (off, _) => if c_strategy c =? WRITE_BACK then pc_fill pc1 off d else pc1
          | _, _ => pc1
          end in
        ({| c_inner := in1; c_pc := pc2; c_meta := c_meta c; c_off := c_off c;
            c_enabled := c_enabled c; c_strategy := c_strategy c |}, g)
      end.

  (* remove: invalidate the blob's range, remove from the inner store (`?`: on Err the metadata stays), drop the metadata *)
  Definition cached_remove (c : cached St PC) (id : N) : cached St PC * bool :=
    let pc1 :=
      match alookup id (c_meta c) with
      | Some (off, sz) => if c_enabled c then pc_inval (c_pc c) off sz else c_pc c
      | None => c_pc c
      end in
    let '(in1, ok) := o_remove I (c_inner c) id in
    ({| c_inner := in1; c_pc := pc1; c_meta := if ok then aremove id (c_meta c) else c_meta c; c_off := c_off c;
        c_enabled := c_enabled c; c_strategy := c_strategy c |}, ok).

  Definition cached_size (c : cached St PC) (id : N) : cached St PC * option N :=
    let '(in1, r) := o_size I (c_inner c) id in
    ({| c_inner := in1; c_pc := c_pc c; c_meta := c_meta c; c_off := c_off c;
        c_enabled := c_enabled c; c_strategy := c_strategy c |}, r).

  (* CachedBlobStore has no BatchBlobStore impl: a client loops *)
  Definition cached_ops : store_ops (cached St PC) := {|
    o_put := cached_put;
    o_batch := put_loop cached_put;
    o_remove := cached_remove;
    o_rmbatch := rm_loop cached_remove;
    o_get := cached_get;
    o_getbatch := get_loop cached_get;
    o_contains := fun c id => o_contains I (c_inner c) id;
    o_size := cached_size;
    o_len := fun c => o_len I (c_inner c) |}.

  (* "pc answers range (off, n) with data y" *)
  Definition pc_holds (pc : PC) (off n : N) (y : bytes) : Prop := snd (pc_read pc off n) = Some y.
  (* the law of a cache: it never invents data — whatever it answers was handed to it for exactly that range *)
  Record pc_lawful : Prop := {
    pcl_read : forall pc o n o' n' y, pc_holds (fst (pc_read pc o n)) o' n' y -> pc_holds pc o' n' y;
    pcl_dirty : forall pc off d o n y, pc_holds (pc_dirty pc off d) o n y -> (o = off /\ n = nlen d /\ y = d) \/ pc_holds pc o n y;
    pcl_fill : forall pc off d o n y, pc_holds (pc_fill pc off d) o n y -> (o = off /\ n = nlen d /\ y = d) \/ pc_holds pc o n y;
    pcl_inval : forall pc off sz o n y, pc_holds (pc_inval pc off sz) o n y -> pc_holds pc o n y }.

  (* the invariant that ties metadata and cache content to the live records *)
  Definition cached_inv (c : cached St PC) (s : spec) : Prop :=
    (forall id off sz, alookup id (c_meta c) = Some (off, sz) ->
        exists d, s_live s id = Some d /\ nlen d = sz /\ off + sz <= c_off c) /\
    (forall id1 id2 o1 n1 o2 n2, id1 <> id2 ->
        alookup id1 (c_meta c) = Some (o1, n1) -> alookup id2 (c_meta c) = Some (o2, n2) ->
        o1 + n1 <= o2 \/ o2 + n2 <= o1) /\
    (forall off sz y, pc_holds (c_pc c) off sz y ->
        nlen y = sz /\ off + sz <= c_off c /\
        forall id, alookup id (c_meta c) = Some (off, sz) -> s_live s id = Some y).
  Definition cached_rel (Rel : St -> spec -> Prop) (c : cached St PC) (s : spec) : Prop :=
    Rel (c_inner c) s /\ cached_inv c s.
End Cached.

(* ------------------------------------------------------------------ *)
(* two caches                                                           *)
(* ------------------------------------------------------------------ *)
(* the cache of the code as it stands: a virtual file has no pages with data *)
Definition nopc_read (pc : unit) (_ _ : N) : unit * option bytes := (pc, None).
Definition nopc_dirty (pc : unit) (_ : N) (_ : bytes) : unit := pc.
Definition nopc_inval (pc : unit) (_ _ : N) : unit := pc.
Definition nopc_fill (pc : unit) (_ : N) (_ : bytes) : unit := pc.

(* a cache that really keeps what it is handed, keyed by range, and forgets invalidated ranges *)
Definition rkey (off n : N) : N := (off + n) * (off + n + 1) / 2 + n.     (* Cantor pairing of (off, n) *)
Definition rpc := list (N * (N * N * bytes)).
Definition rpc_read (pc : rpc) (off n : N) : rpc * option bytes :=
  match alookup (rkey off n) pc with
  | Some (o, m, y) => if (o =? off) && (m =? n) then (pc, Some y) else (pc, None)
  | None => (pc, None)
  end.
Definition rpc_dirty (pc : rpc) (off : N) (d : bytes) : rpc := ainsert (rkey off (nlen d)) (off, nlen d, d) pc.
Definition rpc_inval (pc : rpc) (off n : N) : rpc := aremove (rkey off n) pc.
