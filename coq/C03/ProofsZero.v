(* C03: ZeroLengthBlobStore — every history of empty records that removes nothing live refines the property's machine. *)
From ZV.Common Require Import Base Run.
From ZV.C03 Require Import Model ModelStore ProofsStore ModelZero.
Open Scope N_scope.

(* ids 0..n-1 hold the empty record *)
Definition zero_rel (n : N) (s : spec) : Prop :=
  (forall id, s_live s id = if id <? n then Some [] else None) /\ s_count s = n /\ s_next s = n.

Lemma zero_rel_init : zero_rel 0 spec_zero.
Proof.
  unfold zero_rel, spec_zero; cbn [s_live s_count s_next]. split; [|split; reflexivity].
  intros id. destruct (N.ltb_spec id 0); [lia|reflexivity].
Qed.

Lemma zero_put_clause n s : zero_rel n s -> n < W32 ->
  zput n [] = (n + 1, Some (s_next s)) /\ zero_rel (n + 1) (fst (spec_put s [])).
Proof.
  intros (Hl & Hc & Hn) Hb. unfold zput. rewrite N.mod_small by exact Hb. rewrite Hn. split; [reflexivity|].
  unfold zero_rel, spec_put; cbn [fst s_live s_count s_next]. split; [|split; lia].
  intros id. unfold upd. rewrite Hn. destruct (N.eqb_spec id n) as [->|Hne].
  - destruct (N.ltb_spec n (n + 1)); [reflexivity|lia].
  - rewrite Hl. destruct (N.ltb_spec id n); destruct (N.ltb_spec id (n + 1)); try reflexivity; lia.
Qed.

Lemma zero_batch_clause ds : forall n s, zero_rel n s -> n + nlen ds <= W32 -> Forall (fun d => d = []) ds ->
  put_loop zput n ds = (n + nlen ds, Some (snd (spec_put_batch s ds))) /\
  zero_rel (n + nlen ds) (fst (spec_put_batch s ds)).
Proof.
  induction ds as [|d t IH]; intros n s HR Hb HF.
  - cbn [put_loop spec_put_batch nlen fst snd]. rewrite N.add_0_r. split; [reflexivity|exact HR].
  - inversion HF as [|x l Hd Ht]; subst. cbn [nlen] in Hb.
    destruct (zero_put_clause n s HR ltac:(lia)) as [H1 H2].
    rewrite spec_put_batch_cons. cbn [put_loop fst snd]. rewrite H1.
    destruct (IH (n + 1) (fst (spec_put s [])) H2 ltac:(lia) Ht) as [H3 H4].
    rewrite H3. cbn [nlen]. replace (n + (1 + nlen t)) with (n + 1 + nlen t) by lia.
    split; [reflexivity|exact H4].
Qed.

Lemma zero_absent n s id : zero_rel n s -> n <= id -> s_live s id = None.
Proof. intros (Hl & _) H. rewrite Hl. destruct (N.ltb_spec id n); [lia|reflexivity]. Qed.

Lemma zero_rm_batch ids : forall n s, zero_rel n s -> Forall (fun id => n <= id) ids ->
  spec_rm_batch s ids = (s, 0) /\ existsb (fun id => id <? n) ids = false.
Proof.
  induction ids as [|id t IH]; intros n s HR HF; [split; reflexivity|].
  inversion HF as [|x l Hd Ht]; subst. cbn [spec_rm_batch existsb].
  assert (Ha : s_live s id = None) by (apply (zero_absent n); assumption).
  assert (Hs : spec_remove s id = s) by (unfold spec_remove; cbn [spec_step]; rewrite Ha; reflexivity).
  rewrite Hs. destruct (IH n s HR Ht) as [H1 H2]. rewrite H1, H2. unfold live_some. rewrite Ha.
  destruct (N.ltb_spec id n); [lia|]. split; reflexivity.
Qed.

Lemma zero_get_loop ids : forall n s, zero_rel n s ->
  get_loop (fun n id => (n, zero_get n id)) n ids = (n, Some (map (s_live s) ids)).
Proof.
  induction ids as [|id t IH]; intros n s HR; [reflexivity|].
  cbn [get_loop map]. rewrite (IH n s HR). destruct HR as (Hl & _). rewrite Hl. reflexivity.
Qed.

Theorem zero_history_proof ops : forall n s,
  zero_rel n s -> zero_ok n ops -> n + xputs ops <= W32 ->
  st_run zero_ops n ops = spec_xrun s ops.
Proof.
  induction ops as [|o t IH]; intros n s HR Hok Hb; [reflexivity|].
  rewrite xputs_cons in Hb. pose proof HR as (Hl & Hc & Hn).
  destruct o as [[d|ds|id|id|]|ids|ids]; cbn [zero_ok xputs] in Hok, Hb;
    cbn [st_run spec_xrun st_step spec_xstep spec_step zero_ops o_put o_batch o_remove o_rmbatch o_get o_getbatch o_contains o_size o_len].
  - destruct Hok as [-> Hok]. destruct (zero_put_clause n s HR ltac:(lia)) as [H1 H2]. rewrite H1.
    unfold spec_put in *. cbn [fst snd] in *. f_equal. apply IH; [exact H2|exact Hok|lia].
  - destruct Hok as [HF Hok]. unfold bytes in *.
    assert (Hb1 : n + nlen ds <= W32) by lia.
    destruct (zero_batch_clause ds n s HR Hb1 HF) as [H1 H2]. rewrite H1.
    destruct (spec_put_batch s ds) as [s1 ids]. cbn [fst snd] in *. f_equal. apply IH; [exact H2|exact Hok|lia].
  - destruct Hok as [Hid Hok]. rewrite (zero_absent n s id HR Hid). f_equal. apply IH; [exact HR|exact Hok|lia].
  - rewrite Hl. unfold zero_get. destruct (N.ltb_spec id n); cbn [obs_q3 obs_query nlen]; (f_equal; apply IH; [exact HR|exact Hok|lia]).
  - rewrite Hc. f_equal. apply IH; [exact HR|exact Hok|lia].
  - destruct Hok as [HF Hok]. destruct (zero_rm_batch ids n s HR HF) as [H1 H2]. rewrite H1, H2.
    f_equal. apply IH; [exact HR|exact Hok|lia].
  - rewrite (zero_get_loop ids n s HR). rewrite map_map. f_equal. apply IH; [exact HR|exact Hok|lia].
Qed.

Theorem zero_history_refines_proof ops :
  zero_ok 0 ops -> xputs ops <= W32 -> st_run zero_ops 0 ops = spec_xrun spec_zero ops.
Proof. intros Hok Hb. apply zero_history_proof; [apply zero_rel_init|exact Hok|lia]. Qed.

(* the model of Model.v (zero_put / zero_run, used by the CZero cases) is this one *)
Lemma zero_put_agrees n d : n < W32 ->
  zero_put n d = match zput n d with (n', Some id) => Some (n', id) | (_, None) => None end.
Proof. intros H. destruct d; cbn [zero_put zput]; [rewrite N.mod_small by exact H|]; reflexivity. Qed.

(* removal is refused, whatever the id: the documented restriction *)
Theorem zero_remove_refused_proof n id : snd (o_remove zero_ops n id) = false /\ fst (o_remove zero_ops n id) = n.
Proof. split; reflexivity. Qed.

Example zero_nontrivial :
  zero_ok 0 [XO (MPut []); XO (MBatch [[]; []]); XO (MQuery 2); XO (MQuery 3); XO (MRemove 5); XRmBatch [3; 9]; XGetBatch [0; 7]; XO MLen] /\
  st_run zero_ops 0 [XO (MPut []); XO (MBatch [[]; []]); XO (MQuery 2); XO (MQuery 3); XO (MRemove 5); XRmBatch [3; 9]; XGetBatch [0; 7]; XO MLen]
  = [[0]; [1; 2]; [1; 0]; [0]; [0]; [0]; [1; 0; 0]; [3]].
Proof.
  split; [|vm_compute; reflexivity]. cbn [zero_ok nlen].
  repeat (first [apply conj | apply Forall_cons | apply Forall_nil | reflexivity | lia | exact I]).
Qed.
