(* C03: SimpleZipBlobStore — fragmenting a record is lossless for every configuration. *)
From ZV.Common Require Import Base Run.
From ZV.C03 Require Import Model ProofsMixed.
Open Scope N_scope.

Lemma find_delim_bounds c rest : forall p i, find_delim c rest p = Some i -> p <= i < p + nlen rest.
Proof.
  induction rest as [|b t IH]; intros p i H; cbn [find_delim] in H; [discriminate|].
  cbn [nlen]. destruct (is_delim c b).
  - inversion H; subst. lia.
  - apply IH in H. lia.
Qed.

Lemma nlen_slice_le {A} (l : list A) off len : nlen (slice l off len) <= N.of_nat len.
Proof. unfold slice. rewrite nlen_length, firstn_length. lia. Qed.

Lemma next_frag_end_bounds c rec pos :
  1 <= q_min c -> q_min c <= q_max c -> pos < nlen rec ->
  pos < next_frag_end c rec pos <= nlen rec.
Proof.
  intros Hmin Hmax Hpos. unfold next_frag_end.
  set (len := nlen rec). set (mx := N.min (pos + q_max c) len). set (mn := N.min (pos + q_min c) len).
  assert (pos < mn) by (unfold mn; lia). assert (mn <= mx) by (unfold mn, mx; lia). assert (mx <= len) by (unfold mx; lia).
  destruct (find_delim c _ mn) as [i|] eqn:E.
  - apply find_delim_bounds in E. pose proof (nlen_slice_le rec (N.to_nat mn) (N.to_nat (mx - mn))). lia.
  - lia.
Qed.

Lemma skipn_add {A} (l : list A) : forall x y, skipn x (skipn y l) = skipn (y + x) l.
Proof.
  induction l as [|h t IH]; intros x y.
  - rewrite !skipn_nil. reflexivity.
  - destruct y as [|y]; cbn [skipn Nat.add]; [reflexivity|]. apply IH.
Qed.

Lemma slice_then_skip {A} (l : list A) (a b : nat) :
  (a <= b <= length l)%nat -> slice l a (b - a) ++ skipn b l = skipn a l.
Proof.
  intros H. unfold slice.
  assert (E : skipn b l = skipn (b - a) (skipn a l)).
  { rewrite skipn_add. replace (a + (b - a))%nat with b by lia. reflexivity. }
  rewrite E. apply firstn_skipn.
Qed.

Lemma fragment_go_concat c rec : 1 <= q_min c -> q_min c <= q_max c ->
  forall fuel pos, pos <= nlen rec -> (N.to_nat (nlen rec - pos) <= fuel)%nat ->
  concat (fragment_go fuel c rec pos) = skipn (N.to_nat pos) rec.
Proof.
  intros Hmin Hmax. induction fuel as [|f IH]; intros pos Hle Hf.
  - cbn [fragment_go concat]. assert (pos = nlen rec) by lia. subst.
    rewrite to_nat_nlen, skipn_all. reflexivity.
  - cbn [fragment_go]. destruct (N.ltb_spec pos (nlen rec)) as [Hlt|Hge].
    + pose proof (next_frag_end_bounds c rec pos Hmin Hmax Hlt) as [H1 H2].
      set (e := next_frag_end c rec pos) in *. cbn [concat].
      rewrite IH by lia.
      replace (N.to_nat (e - pos)) with (N.to_nat e - N.to_nat pos)%nat by lia.
      apply slice_then_skip. rewrite <- to_nat_nlen. lia.
    + cbn [concat]. assert (pos = nlen rec) by lia. subst. rewrite to_nat_nlen, skipn_all. reflexivity.
Qed.

Theorem fragment_lossless_proof c rec :
  1 <= q_min c -> q_min c <= q_max c -> concat (fragment c rec) = rec.
Proof.
  intros Hmin Hmax. unfold fragment.
  rewrite (fragment_go_concat c rec Hmin Hmax (length rec) 0); [reflexivity|lia|rewrite N.sub_0_r, to_nat_nlen; lia].
Qed.

Example fragment_nontrivial :
  fragment {| q_min := 2; q_max := 5; q_delims := [32] |} [97;98;32;99;100;101;102;103;104;32;105]
  = [[97;98;32]; [99;100;101;102;103]; [104;32;105]].
Proof. vm_compute. reflexivity. Qed.
