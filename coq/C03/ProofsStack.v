(* C03: every stack of stores the harness can describe (`skind`, ModelCases.v) refines the property's state machine —
   by induction over the nesting, from the per-layer theorems. *)
From ZV.Common Require Import Base Run.
From ZV.C03 Require Import Model ProofsMem ModelStore ProofsStore ModelZero ModelPlain ProofsPlain.
From ZV.C03 Require Import ModelWrap ProofsWrap ModelCached ProofsCached ModelDictZip ProofsDictZip ModelCases.
Open Scope N_scope.

(* ZeroLengthBlobStore refuses removal, so it is not a `refines` store (zero_history_refines_spec covers it) *)
Fixpoint no_zero (k : skind) : bool :=
  match k with
  | KZero => false
  | KZstd _ i | KHuff _ _ i | KPass i | KCachedNo _ _ i | KCachedR _ _ i => no_zero i
  | _ => true
  end.

(* the records a stack is claimed for: every codec on the way down is lossless on the record's successive stored forms *)
Fixpoint kP (k : skind) : bytes -> Prop :=
  match k with
  | KMem | KPlain => fun _ => True
  | KZero => fun _ => False
  | KZstd t i => wrap_P zstd_cfg (tbl_fwd t) (tbl_bwd t) (fun _ => None) (kP i)
  | KHuff tr t i => wrap_P huff_cfg (huff_enc tr (tbl_fwd t)) (huff_dec tr (tbl_hdecode t)) huff_szof (kP i)
  | KPass i => wrap_P pass_cfg (fun d => Some d) (fun c => Some c) (fun _ => None) (kP i)
  | KCachedNo _ _ i | KCachedR _ _ i => kP i
  | KDictZip cfg toy =>
      dz_P cfg (if toy then toy_comp else id_comp) (fun c => Some (rev c)) (fun _ _ => toy)
  end.

(* the abstraction relation of a stack, layer by layer *)
Fixpoint krel (k : skind) : kstate k -> spec -> Prop :=
  match k return kstate k -> spec -> Prop with
  | KMem => R
  | KPlain => plain_rel
  | KZero => fun _ _ => False
  | KZstd t i => wrap_rel zstd_cfg (tbl_fwd t) (tbl_bwd t) (fun _ => None) (krel i)
  | KHuff tr t i => wrap_rel huff_cfg (huff_enc tr (tbl_fwd t)) (huff_dec tr (tbl_hdecode t)) huff_szof (krel i)
  | KPass i => wrap_rel pass_cfg (fun d => Some d) (fun c => Some c) (fun _ => None) (krel i)
  | KCachedNo _ _ i => cached_rel nopc_read (krel i)
  | KCachedR _ _ i => cached_rel rpc_read (krel i)
  | KDictZip cfg toy => dz_rel (if toy then toy_decomp else id_comp) (fun e _ => Some (rev e)) alru_get
  end.

Lemma id_codec_lawful : dz_codec_lawful id_comp id_comp (fun c => Some (rev c)) (fun e _ => Some (rev e)).
Proof.
  constructor.
  - intros d c H. unfold id_comp in *. inversion H; subst. reflexivity.
  - intros c e H. inversion H; subst. rewrite rev_involutive. reflexivity.
Qed.

Theorem stack_refines_proof : forall k, no_zero k = true -> refines W32 (kP k) (kops k) (krel k).
Proof.
  induction k as [| | |t i IH|tr t i IH|i IH|s e i IH|s e i IH|cfg toy]; intros Hz; cbn [no_zero] in Hz;
    cbn [kP kops krel kstate].
  - exact mem_store_refines.
  - exact plain_store_refines_proof.
  - discriminate.
  - apply wrapper_refines_proof. exact (IH Hz).
  - apply wrapper_refines_proof. exact (IH Hz).
  - apply wrapper_refines_proof. exact (IH Hz).
  - apply cached_refines_proof; [exact nopc_lawful_proof|exact (IH Hz)].
  - apply cached_refines_proof; [exact rpc_lawful_proof|exact (IH Hz)].
  - destruct toy.
    + apply dictzip_refines_proof; [exact toy_codec_lawful_proof|exact alru_lawful_proof].
    + apply dictzip_refines_proof; [exact id_codec_lawful|exact alru_lawful_proof].
Qed.

Lemma stack_init_rel : forall k, no_zero k = true -> krel k (kinit k) spec_empty.
Proof.
  induction k as [| | |t i IH|tr t i IH|i IH|s e i IH|s e i IH|cfg toy]; intros Hz; cbn [no_zero] in Hz;
    cbn [krel kinit kstate].
  - exact R_empty.
  - exact plain_rel_create.
  - discriminate.
  - apply wrap_rel_empty. exact (IH Hz).
  - apply wrap_rel_empty. exact (IH Hz).
  - apply wrap_rel_empty. exact (IH Hz).
  - apply cached_rel_new; [exact (IH Hz)|reflexivity].
  - apply cached_rel_new; [exact (IH Hz)|reflexivity].
  - apply dz_rel_new. reflexivity.
Qed.

Theorem stack_history_refines_proof : forall k ops,
  no_zero k = true -> Forall (kP k) (xrecords ops) -> 1 + xputs ops < W32 ->
  st_run (kops k) (kinit k) ops = spec_xrun spec_empty ops.
Proof.
  intros k ops Hz HP Hb.
  apply (refines_run W32 (kP k) (kops k) (krel k) (stack_refines_proof k Hz));
    [apply stack_init_rel; exact Hz|exact HP|exact Hb].
Qed.

(* the hypotheses are inhabited by a three-layer stack with non-trivial tables *)
Definition demo_stack : skind :=
  KCachedR WRITE_BACK true (KHuff true [([1;2;3], [9;9])] (KZstd [([1; 3;0;0;0;0;0;0;0; 9;9], [5]); ([0], [6])] KMem)).
Definition demo_ops : list xop :=
  [XO (MPut [1;2;3]); XO (MPut []); XO (MQuery 1); XO (MQuery 2); XRmBatch [1]; XO (MQuery 1); XO MLen].
Example stack_nontrivial :
  no_zero demo_stack = true /\ Forall (kP demo_stack) (xrecords demo_ops) /\
  st_run (kops demo_stack) (kinit demo_stack) demo_ops = [[1]; [2]; [1; 3; 1; 2; 3]; [1; 0]; [1]; [0]; [1]] /\
  kdump demo_stack (st_exec (kops demo_stack) (kinit demo_stack) demo_ops) = [(2, [6])].
Proof.
  split; [reflexivity|]. split; [|split; vm_compute; reflexivity].
  cbn [xrecords demo_ops app]. repeat apply Forall_cons; try apply Forall_nil.
  - (* [1;2;3]: coded payload [9;9], framed, then zstd table -> [5] *)
    exists [1; 3;0;0;0;0;0;0;0; 9;9]. split.
    + split; [vm_compute; reflexivity|]. split; vm_compute; reflexivity.
    + exists [5]. split; [|exact I]. split; [vm_compute; reflexivity|]. split; [vm_compute; reflexivity|exact I].
  - (* the empty record: raw frame [0], zstd table -> [6] *)
    exists [0]. split.
    + split; [vm_compute; reflexivity|]. split; vm_compute; reflexivity.
    + exists [6]. split; [|exact I]. split; [vm_compute; reflexivity|]. split; [vm_compute; reflexivity|exact I].
Qed.
