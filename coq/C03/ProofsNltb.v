(* C03 — NestLoudsTrieBlobStoreBuilder: what a finished store answers (proofs for ModelNltb.v). *)
From ZV.Common Require Import Base Run.
From Coq Require Import Permutation.
From ZV.C03 Require Import Model ModelNltb ProofsMem ProofsZip ProofsSimpleGet.
Open Scope N_scope.

(* ---------- byte strings ---------- *)
Lemma eqb_bytes_neq a b : eqb_bytes a b = false -> a <> b.
Proof. intros H E. subst. rewrite eqb_bytes_refl in H. discriminate. Qed.

Lemma neq_eqb_bytes a b : a <> b -> eqb_bytes a b = false.
Proof. intros H. destruct (eqb_bytes a b) eqn:E; auto. apply eqb_bytes_eq in E. contradiction. Qed.

Lemma bytes_ltb_irrefl a : bytes_ltb a a = false.
Proof. induction a as [|x a IH]; cbn [bytes_ltb]; [reflexivity|]. rewrite N.ltb_irrefl. exact IH. Qed.

(* ---------- last_value ---------- *)
Lemma last_value_app1 done k d k' :
  last_value (done ++ [(k, d)]) k' = if eqb_bytes k k' then Some d else last_value done k'.
Proof.
  induction done as [|[a b] t IH]; cbn [app last_value].
  - destruct (eqb_bytes k k'); reflexivity.
  - rewrite IH. destruct (eqb_bytes k k'); reflexivity.
Qed.

Lemma last_value_ins e l k : last_value (ins_entry e l) k = last_value (e :: l) k.
Proof.
  destruct e as [ke de].
  induction l as [|[kh dh] t IH]; [reflexivity|].
  cbn [ins_entry fst].
  destruct (bytes_ltb kh ke) eqn:L; [|reflexivity].
  change (last_value ((kh, dh) :: ins_entry (ke, de) t) k)
    with (match last_value (ins_entry (ke, de) t) k with
          | Some v => Some v | None => if eqb_bytes kh k then Some dh else None end).
  rewrite IH. cbn [last_value].
  destruct (last_value t k); [reflexivity|].
  destruct (eqb_bytes ke k) eqn:E1; destruct (eqb_bytes kh k) eqn:E2; try reflexivity.
  apply eqb_bytes_eq in E1. apply eqb_bytes_eq in E2. subst.
  rewrite bytes_ltb_irrefl in L. discriminate.
Qed.

Lemma last_value_sort es k : last_value (sort_entries es) k = last_value es k.
Proof.
  induction es as [|[a b] t IH]; [reflexivity|].
  cbn [sort_entries fold_right]. fold (sort_entries t).
  rewrite last_value_ins. cbn [last_value]. rewrite IH. reflexivity.
Qed.

(* ---------- the sort is a permutation ---------- *)
Lemma ins_entry_perm e l : Permutation (ins_entry e l) (e :: l).
Proof.
  induction l as [|h t IH]; cbn [ins_entry]; [apply Permutation_refl|].
  destruct (bytes_ltb (fst h) (fst e)); [|apply Permutation_refl].
  eapply perm_trans; [apply perm_skip; exact IH|apply perm_swap].
Qed.

Lemma sort_entries_perm es : Permutation (sort_entries es) es.
Proof.
  induction es as [|e t IH]; [apply perm_nil|].
  cbn [sort_entries fold_right]. fold (sort_entries t).
  eapply perm_trans; [apply ins_entry_perm|apply perm_skip; exact IH].
Qed.

Lemma nb_order_perm b es : Permutation (nb_order b es) es.
Proof. destruct b; cbn [nb_order]; [apply sort_entries_perm|apply Permutation_refl]. Qed.

Lemma last_value_order b es k : last_value (nb_order b es) k = last_value es k.
Proof. destruct b; cbn [nb_order]; [apply last_value_sort|reflexivity]. Qed.

(* ---------- the grown vectors ---------- *)
Lemma set_nth_last l x y : set_nth (l ++ [y]) (length l) x = l ++ [x].
Proof. induction l as [|h t IH]; cbn [app length set_nth]; [reflexivity|rewrite IH; reflexivity]. Qed.

Lemma vec_set_grow_end l x : vec_set_grow l (nlen l) x = l ++ [x].
Proof.
  unfold vec_set_grow.
  replace (N.to_nat (nlen l + 1 - nlen l)) with 1%nat by lia.
  rewrite nlen_length, Nat2N.id. cbn [repeat]. apply set_nth_last.
Qed.

Lemma nth_error_ids n i : (i < n)%nat -> nth_error (map N.of_nat (seq 0 n)) i = Some (N.of_nat i).
Proof.
  intros H. apply map_nth_error.
  rewrite (nth_error_nth' _ 0%nat) by (rewrite seq_length; exact H).
  rewrite seq_nth by exact H. reflexivity.
Qed.

Lemma filter_all_live l :
  (forall x, In x l -> x <> USIZE_MAX) -> filter (fun b => negb (b =? USIZE_MAX)) l = l.
Proof.
  induction l as [|h t IH]; intros H; [reflexivity|].
  cbn [filter]. destruct (N.eqb_spec h USIZE_MAX) as [E|E].
  - exfalso. apply (H h); [left; reflexivity|exact E].
  - cbn [negb]. rewrite IH; [reflexivity|]. intros x Hx. apply H. right. exact Hx.
Qed.

(* ---------- the store after a run of puts ---------- *)
Section Inv.
  Variable T : Type.
  Variable tr_ok : T -> Prop.
  Variable tr_empty : T.
  Variable tr_insert : T -> bytes -> option (T * N).
  Variable tr_lookup : T -> bytes -> option N.
  Hypothesis law : trie_lawful T tr_ok tr_empty tr_insert tr_lookup.

  Definition Inv (s : nlt T) (done : list entry) : Prop :=
    tr_ok (n_trie T s) /\ n_final T s = false /\ n_next T s = nlen done /\
    (forall k, match tr_lookup (n_trie T s) k with
               | None => last_value done k = None
               | Some node => exists b, alookup node (n_n2b T s) = Some b /\
                                        alookup b (n_temp T s) = last_value done k /\
                                        last_value done k <> None
               end) /\
    (forall k1 k2 m, tr_lookup (n_trie T s) k1 = Some m -> tr_lookup (n_trie T s) k2 = Some m -> k1 = k2) /\
    (forall node b, alookup node (n_n2b T s) = Some b -> b < n_next T s) /\
    n_r2b T s = map N.of_nat (seq 0 (length done)) /\
    (forall i, (i < length done)%nat ->
               alookup (N.of_nat i) (n_temp T s) = Some (snd (nth i done (([], []) : entry)))).

  Lemma Inv_new : Inv (nlt_new T tr_empty) [].
  Proof.
    destruct law as (Hok & Hemp & _).
    unfold Inv, nlt_new; cbn [n_trie n_final n_next n_n2b n_temp n_r2b nlen length seq map].
    repeat split; auto.
    - intros k. rewrite Hemp. reflexivity.
    - intros k1 k2 m H. rewrite Hemp in H. discriminate.
    - intros node b H. discriminate.
    - intros i H. inversion H.
  Qed.

  Lemma Inv_step s done k d s' id :
    Inv s done -> nlt_put_with_key T tr_insert s k d = Some (s', id) -> Inv s' (done ++ [(k, d)]).
  Proof.
    intros (Hok & Hfin & Hnext & Hval & Hinj & Hlt & Hr2b & Htemp) Hput.
    unfold nlt_put_with_key in Hput. rewrite Hfin in Hput.
    destruct (tr_insert (n_trie T s) k) as [[t' n]|] eqn:Eins; [|discriminate].
    inversion Hput; subst s' id; clear Hput.
    destruct law as (_ & _ & Hlaw).
    destruct (Hlaw _ _ _ _ Hok Eins) as (Hok' & Hk & Hother & Hsame & Hfresh).
    assert (Hinj' : forall k1 k2 m, tr_lookup t' k1 = Some m -> tr_lookup t' k2 = Some m -> k1 = k2).
    { assert (Hone : forall k2, k2 <> k -> tr_lookup (n_trie T s) k2 = Some n -> False).
      { intros k2 Hne H2.
        destruct (tr_lookup (n_trie T s) k) as [m'|] eqn:Ek.
        - pose proof (Hsame _ eq_refl) as Hm. subst m'.
          apply Hne. symmetry. exact (Hinj _ _ _ Ek H2).
        - exact (Hfresh eq_refl _ _ H2 eq_refl). }
      intros k1 k2 m H1 H2.
      destruct (eqb_bytes k1 k) eqn:E1; destruct (eqb_bytes k2 k) eqn:E2.
      - apply eqb_bytes_eq in E1. apply eqb_bytes_eq in E2. congruence.
      - apply eqb_bytes_eq in E1. subst k1. apply eqb_bytes_neq in E2.
        rewrite Hk in H1. inversion H1; subst m. rewrite (Hother _ E2) in H2.
        exfalso. exact (Hone _ E2 H2).
      - apply eqb_bytes_eq in E2. subst k2. apply eqb_bytes_neq in E1.
        rewrite Hk in H2. inversion H2; subst m. rewrite (Hother _ E1) in H1.
        exfalso. exact (Hone _ E1 H1).
      - apply eqb_bytes_neq in E1. apply eqb_bytes_neq in E2.
        rewrite (Hother _ E1) in H1. rewrite (Hother _ E2) in H2. exact (Hinj _ _ _ H1 H2). }
    unfold Inv; cbn [n_trie n_final n_next n_n2b n_temp n_r2b].
    split; [exact Hok'|]. split; [reflexivity|].
    split; [rewrite nlen_app, Hnext; reflexivity|].
    split; [|split; [exact Hinj'|split; [|split]]].
    - intros k'. rewrite last_value_app1.
      destruct (eqb_bytes k k') eqn:E.
      + apply eqb_bytes_eq in E. subst k'. rewrite Hk.
        exists (n_next T s). rewrite !alookup_ainsert_same. repeat split; discriminate.
      + apply eqb_bytes_neq in E.
        assert (E' : k' <> k) by congruence.
        pose proof (Hval k') as Hv. rewrite <- (Hother _ E') in Hv.
        destruct (tr_lookup t' k') as [node|] eqn:El; [|exact Hv].
        destruct Hv as (b & Hb & Hd & Hnn).
        exists b.
        assert (node <> n).
        { intros ->. apply E'. exact (Hinj' _ _ _ El Hk). }
        rewrite alookup_ainsert_other by assumption.
        split; [exact Hb|]. split; [|exact Hnn].
        rewrite alookup_ainsert_other; [exact Hd|].
        pose proof (Hlt _ _ Hb). lia.
    - intros node b H.
      destruct (N.eq_dec node n) as [->|Hne].
      + rewrite alookup_ainsert_same in H. inversion H. lia.
      + rewrite alookup_ainsert_other in H by assumption.
        pose proof (Hlt _ _ H). lia.
    - rewrite Hnext.
      replace (nlen done) with (nlen (n_r2b T s)) at 1
        by (rewrite Hr2b, !nlen_length, map_length, seq_length; reflexivity).
      rewrite vec_set_grow_end, Hr2b, app_length. cbn [length].
      rewrite seq_app, map_app. cbn [seq map Nat.add]. rewrite nlen_length. reflexivity.
    - intros i Hi. rewrite app_length in Hi. cbn [length] in Hi.
      rewrite Hnext, nlen_length.
      destruct (Nat.eq_dec i (length done)) as [->|Hne].
      + rewrite alookup_ainsert_same, app_nth2, Nat.sub_diag by lia. reflexivity.
      + rewrite alookup_ainsert_other by lia.
        rewrite app_nth1 by lia. apply Htemp. lia.
  Qed.

  Lemma Inv_put_all es : forall s done s',
    Inv s done -> nlt_put_all T tr_insert s es = Some s' -> Inv s' (done ++ es).
  Proof.
    induction es as [|[k d] t IH]; intros s done s' HI Hp; cbn [nlt_put_all] in Hp.
    - inversion Hp; subst. rewrite app_nil_r. exact HI.
    - destruct (nlt_put_with_key T tr_insert s k d) as [[s1 id]|] eqn:E; [|discriminate].
      change ((k, d) :: t) with ([(k, d)] ++ t). rewrite app_assoc.
      eapply IH; [|exact Hp]. eapply Inv_step; eassumption.
  Qed.

  Lemma nb_finish_inv b es s :
    nb_finish T tr_empty tr_insert b es = Some s ->
    exists s0, s = nlt_finalize T s0 /\ Inv s0 (nb_order b es).
  Proof.
    unfold nb_finish. intros H.
    destruct (nlt_put_all T tr_insert (nlt_new T tr_empty) (nb_order b es)) as [s0|] eqn:E; [|discriminate].
    inversion H; subst. exists s0. split; [reflexivity|].
    exact (Inv_put_all _ _ _ _ Inv_new E).
  Qed.
End Inv.

(* 1. by key: the value added last, sorted or not *)
Theorem nltb_get_by_key_proof :
  forall T tr_ok tr_empty tr_insert tr_lookup,
    trie_lawful T tr_ok tr_empty tr_insert tr_lookup ->
    forall batch_opt es s, nb_finish T tr_empty tr_insert batch_opt es = Some s ->
    forall k, nlt_get_by_key T tr_lookup s k = last_value es k /\
              nlt_contains_key T tr_lookup s k = is_some (last_value es k).
Proof.
  intros T tr_ok tr_empty tr_insert tr_lookup law b es s Hf k.
  destruct (nb_finish_inv _ _ _ _ _ law _ _ _ Hf) as (s0 & -> & (_ & _ & _ & Hval & _)).
  unfold nlt_get_by_key, nlt_contains_key, nlt_finalize; cbn [n_trie n_n2b n_temp].
  specialize (Hval k). rewrite last_value_order in Hval.
  destruct (tr_lookup (n_trie T s0) k) as [node|].
  - destruct Hval as (bb & Hb & Hd & Hnn). rewrite Hb, Hd. split; [reflexivity|].
    destruct (last_value es k); [reflexivity|contradiction].
  - rewrite Hval. split; reflexivity.
Qed.

(* 2. by record id: ids are handed out in insertion order *)
Theorem nltb_get_by_id_proof :
  forall T tr_ok tr_empty tr_insert tr_lookup,
    trie_lawful T tr_ok tr_empty tr_insert tr_lookup ->
    forall batch_opt es s, nb_finish T tr_empty tr_insert batch_opt es = Some s ->
    nlen es < USIZE_MAX ->
    Permutation (nb_order batch_opt es) es /\
    nlt_len T s = nlen es /\
    (forall i, (i < length es)%nat ->
       nlt_get T s (N.of_nat i) = Some (snd (nth i (nb_order batch_opt es) ([], []))) /\
       nlt_contains T s (N.of_nat i) = true) /\
    (forall id, nlen es <= id -> nlt_get T s id = None /\ nlt_contains T s id = false).
Proof.
  intros T tr_ok tr_empty tr_insert tr_lookup law b es s Hf Hmax.
  destruct (nb_finish_inv _ _ _ _ _ law _ _ _ Hf) as (s0 & -> & (_ & _ & _ & _ & _ & _ & Hr2b & Htemp)).
  pose proof (nb_order_perm b es) as Hperm.
  pose proof (Permutation_length Hperm) as Hlen.
  rewrite Hlen in Hr2b. rewrite Hlen in Htemp.
  rewrite nlen_length in Hmax. rewrite !nlen_length.
  unfold nlt_len, nlt_get, nlt_contains, nlt_finalize; cbn [n_r2b n_temp].
  rewrite Hr2b.
  split; [exact Hperm|]. split; [|split].
  - rewrite filter_all_live.
    + rewrite nlen_length, map_length, seq_length. reflexivity.
    + intros x Hx. apply in_map_iff in Hx. destruct Hx as (j & <- & Hj).
      apply in_seq in Hj. lia.
  - intros i Hi. rewrite Nat2N.id, (nth_error_ids _ _ Hi).
    destruct (N.eqb_spec (N.of_nat i) USIZE_MAX) as [E|E]; [lia|].
    split; [|reflexivity]. apply Htemp. exact Hi.
  - intros id Hid.
    assert (Hn : nth_error (map N.of_nat (seq 0 (length es))) (N.to_nat id) = None).
    { apply nth_error_None. rewrite map_length, seq_length. lia. }
    rewrite Hn. split; reflexivity.
Qed.

(* 3. the stand-in trie of the evaluated cases is lawful *)
Lemma atrie_lookup_app1 t k v k' :
  atrie_lookup (t ++ [(k, v)]) k' =
  match atrie_lookup t k' with Some n => Some n | None => if eqb_bytes k k' then Some v else None end.
Proof.
  induction t as [|[a n] r IH]; cbn [app atrie_lookup]; [reflexivity|].
  destruct (eqb_bytes a k'); [reflexivity|exact IH].
Qed.

Theorem atrie_lawful_proof : trie_lawful atrie atrie_ok [] atrie_insert atrie_lookup.
Proof.
  unfold trie_lawful. split; [|split].
  - intros k n H. discriminate.
  - reflexivity.
  - intros t k t' n Hok Hins. unfold atrie_insert in Hins.
    destruct (atrie_lookup t k) as [m|] eqn:E; inversion Hins; subst; clear Hins.
    + repeat split; auto.
      * intros m H. congruence.
      * intros H. discriminate.
    + split; [|split; [|split; [|split]]].
      * intros k' n' H. rewrite atrie_lookup_app1 in H. rewrite nlen_app. cbn [nlen].
        destruct (atrie_lookup t k') as [x|] eqn:E'.
        -- inversion H; subst. pose proof (Hok _ _ E'). lia.
        -- destruct (eqb_bytes k k'); inversion H. lia.
      * rewrite atrie_lookup_app1, E, eqb_bytes_refl. reflexivity.
      * intros k' Hne. rewrite atrie_lookup_app1.
        destruct (atrie_lookup t k'); [reflexivity|].
        rewrite neq_eqb_bytes; [reflexivity|congruence].
      * intros m H. discriminate.
      * intros _ k' m H. pose proof (Hok _ _ H). lia.
Qed.

(* 4. an evaluated builder run: repeated keys, a sorting preset *)
Example nltb_nontrivial :
  exists s, anb_finish true [([2],[10]); ([1],[11]); ([2],[12]); ([1;0],[13]); ([2],[14])] = Some s /\
    anlt_get_by_key s [2] = Some [14] /\ anlt_get_by_key s [1] = Some [11] /\ anlt_get_by_key s [3] = None /\
    map (nlt_get atrie s) [0;1;2;3;4;5] = [Some [11]; Some [13]; Some [10]; Some [12]; Some [14]; None].
Proof. eexists. vm_compute. repeat split; reflexivity. Qed.

