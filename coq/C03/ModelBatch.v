(* C03 — BatchZipOffsetBlobStoreBuilder (src/blob_store/zip_offset_builder.rs).  Definitions only.

   The batch builder keeps an inner ZipOffsetBlobStoreBuilder (`zbuilder` of Model.v), one byte buffer into which the
   records of the current batch are appended back to back (`batch_buffer`), the list of their lengths (`batch_lens`),
   the target batch size and the number of buffered records.  `add_record` answers with
   `(inner.len() + records_in_batch) as u32`, buffers the record and flushes when `records_in_batch >= batch_size`
   (so a batch size of 0 or 1 flushes after every record).  `flush_batch` walks `batch_lens` with a running `start`
   and hands `batch_buffer[start..start + len]` to `inner.add_record` (the slice is a checked one: out of range = panic,
   modelled as None).  `finish` = `flush_batch` then `inner.finish()`. *)
From ZV.Common Require Import Base Run.
From ZV.C03 Require Import Model.
Open Scope N_scope.

Section Batch.
  Variable comp : N -> bytes -> bytes.

  Record bbuilder := { bb_inner : zbuilder; bb_buf : bytes; bb_lens : list N; bb_size : N; bb_count : N }.
  Definition bb_new (batch_size : N) : bbuilder :=
    {| bb_inner := zb_empty; bb_buf := []; bb_lens := []; bb_size := batch_size; bb_count := 0 |}.

  (* ZipOffsetBlobStoreBuilder::len = stats.record_count = number of offsets pushed *)
  Definition zb_len (b : zbuilder) : N := nlen (b_offs b).

  (* the loop of flush_batch: for &len in &batch_lens { inner.add_record(&buf[start..start + len])?; start += len } *)
  Fixpoint bb_flush_go (c : zcfg) (inner : zbuilder) (buf : bytes) (start : N) (lens : list N) : option zbuilder :=
    match lens with
    | [] => Some inner
    | len :: t =>
        if nlen buf <? start + len then None      (* slice index out of range: panic *)
        else bb_flush_go c (zb_add comp c inner (slice buf (N.to_nat start) (N.to_nat len))) buf (start + len) t
    end.

  Definition bb_flush (c : zcfg) (b : bbuilder) : option bbuilder :=
    if bb_count b =? 0 then Some b else
    match bb_flush_go c (bb_inner b) (bb_buf b) 0 (bb_lens b) with
    | None => None
    | Some i => Some {| bb_inner := i; bb_buf := []; bb_lens := []; bb_size := bb_size b; bb_count := 0 |}
    end.

  Definition bb_len (b : bbuilder) : N := zb_len (bb_inner b) + bb_count b.

  Definition bb_add (c : zcfg) (b : bbuilder) (d : bytes) : option (bbuilder * N) :=
    let id := bb_len b in
    let b1 := {| bb_inner := bb_inner b; bb_buf := bb_buf b ++ d; bb_lens := bb_lens b ++ [nlen d];
                 bb_size := bb_size b; bb_count := bb_count b + 1 |} in
    match (if bb_size b1 <=? bb_count b1 then bb_flush c b1 else Some b1) with
    | None => None
    | Some b2 => Some (b2, id mod W32)            (* `record_id as u32` *)
    end.

  (* what a caller does with the builder before finish() *)
  Inductive bop := BAdd (d : bytes) | BFlush.

  Fixpoint bb_run (c : zcfg) (b : bbuilder) (ops : list bop) : option (bbuilder * list N) :=
    match ops with
    | [] => Some (b, [])
    | BAdd d :: t =>
        match bb_add c b d with
        | None => None
        | Some (b', id) => match bb_run c b' t with Some (b'', ids) => Some (b'', id :: ids) | None => None end
        end
    | BFlush :: t =>
        match bb_flush c b with None => None | Some b' => bb_run c b' t end
    end.

  Definition bb_finish (c : zcfg) (b : bbuilder) : option zstore :=
    match bb_flush c b with
    | None => None
    | Some b' => zb_finish c (bb_inner b')
    end.

  Fixpoint bop_recs (ops : list bop) : list bytes :=
    match ops with
    | [] => []
    | BAdd d :: t => d :: bop_recs t
    | BFlush :: t => bop_recs t
    end.

  (* the whole use of the builder: Some (ids of the add_record calls, finished store or refusal of finish) *)
  Definition batch_build (c : zcfg) (batch_size : N) (ops : list bop) : option (list N * option zstore) :=
    match bb_run c (bb_new batch_size) ops with
    | None => None
    | Some (b, ids) => Some (ids, bb_finish c b)
    end.
End Batch.

(* the ids add_record must have answered: 0, 1, 2, ... (as u32) *)
Definition seq_ids (n : nat) : list N := map (fun i => N.of_nat i mod W32) (seq 0 n).
