(* C03: CachedBlobStore<T> over an arbitrary inner store that refines the property's state machine, with an arbitrary
   lawful page cache, refines the state machine too: whatever the cache holds, every operation is answered like the
   inner store / the spec.  The two concrete caches of ModelCached.v are lawful; every history over MemoryBlobStore;
   a removed id is never served from the cache. *)
From ZV.Common Require Import Base Run.
From ZV.C03 Require Import Model ProofsMem ModelStore ProofsStore ModelCached.
Open Scope N_scope.

(* ---------------- small facts ---------------- *)
Lemma nlen_zero_nil {A} (x : list A) : nlen x = 0 -> x = [].
Proof. destruct x as [|a x]; [reflexivity|]. cbn [nlen]. lia. Qed.

Lemma spec_remove_not_live s id : live_some s id = false -> spec_remove s id = s.
Proof.
  unfold live_some, spec_remove. cbn [spec_step]. destruct (s_live s id); [discriminate|reflexivity].
Qed.

Lemma spec_remove_live_upd s id : live_some s id = true -> s_live (spec_remove s id) = upd (s_live s) id None.
Proof.
  unfold live_some, spec_remove. cbn [spec_step]. destruct (s_live s id); [reflexivity|discriminate].
Qed.

Lemma spec_remove_gone s id : s_live (spec_remove s id) id = None.
Proof.
  unfold spec_remove. cbn [spec_step]. destruct (s_live s id) eqn:E; cbn [fst s_live]; [|exact E].
  unfold upd. rewrite N.eqb_refl. reflexivity.
Qed.

(* ---------------- the invariant, on the components ---------------- *)
Section CachedProofs.
  Context {St PC : Type} (I : store_ops St).
  Variable pc_read : PC -> N -> N -> PC * option bytes.
  Variable pc_dirty : PC -> N -> bytes -> PC.
  Variable pc_inval : PC -> N -> N -> PC.
  Variable pc_fill : PC -> N -> bytes -> PC.
  Variables (B : N) (P : bytes -> Prop) (Rel : St -> spec -> Prop).
  Hypothesis HL : pc_lawful pc_read pc_dirty pc_inval pc_fill.
  Hypothesis HI : refines B P I Rel.

  Definition inv3 (pc : PC) (m : list (N * (N * N))) (top : N) (live : N -> option bytes) : Prop :=
    (forall id off sz, alookup id m = Some (off, sz) ->
        exists d, live id = Some d /\ nlen d = sz /\ off + sz <= top) /\
    (forall id1 id2 o1 n1 o2 n2, id1 <> id2 ->
        alookup id1 m = Some (o1, n1) -> alookup id2 m = Some (o2, n2) ->
        o1 + n1 <= o2 \/ o2 + n2 <= o1) /\
    (forall off sz y, pc_holds pc_read pc off sz y ->
        nlen y = sz /\ off + sz <= top /\
        forall id, alookup id m = Some (off, sz) -> live id = Some y).

  Lemma cached_inv_inv3 (c : cached St PC) s :
    cached_inv pc_read c s = inv3 (c_pc c) (c_meta c) (c_off c) (s_live s).
  Proof. reflexivity. Qed.

  Lemma inv3_shrink pc pc1 m top live :
    inv3 pc m top live ->
    (forall o n y, pc_holds pc_read pc1 o n y -> pc_holds pc_read pc o n y) ->
    inv3 pc1 m top live.
  Proof.
    intros (HM & HD & HC) Hpc. split; [exact HM|split; [exact HD|]].
    intros off sz y Hh. apply HC. apply Hpc. exact Hh.
  Qed.

  Lemma inv3_put pc pc1 m top live id d :
    inv3 pc m top live ->
    (forall o n y, pc_holds pc_read pc1 o n y ->
        (o = top /\ n = nlen d /\ y = d) \/ pc_holds pc_read pc o n y) ->
    inv3 pc1 (ainsert id (top, nlen d) m) (top + nlen d) (upd live id (Some d)).
  Proof.
    intros (HM & HD & HC) Hpc. split; [|split].
    - intros id' off sz Hl. unfold upd. destruct (N.eqb_spec id' id) as [->|Hne].
      + rewrite alookup_ainsert_same in Hl. injection Hl as E1 E2.
        exists d. split; [reflexivity|split; [exact E2|lia]].
      + rewrite alookup_ainsert_other in Hl by assumption. destruct (HM _ _ _ Hl) as (d' & H1 & H2 & H3).
        exists d'. split; [exact H1|split; [exact H2|lia]].
    - intros id1 id2 o1 n1 o2 n2 Hne H1 H2.
      destruct (N.eq_dec id1 id) as [->|Hn1].
      + rewrite alookup_ainsert_same in H1. injection H1 as E1 E2.
        rewrite alookup_ainsert_other in H2 by congruence.
        destruct (HM _ _ _ H2) as (d' & _ & _ & Hle). right. lia.
      + rewrite alookup_ainsert_other in H1 by assumption.
        destruct (N.eq_dec id2 id) as [->|Hn2].
        * rewrite alookup_ainsert_same in H2. injection H2 as E1 E2.
          destruct (HM _ _ _ H1) as (d' & _ & _ & Hle). left. lia.
        * rewrite alookup_ainsert_other in H2 by assumption. exact (HD _ _ _ _ _ _ Hne H1 H2).
    - intros off sz y Hh. destruct (Hpc _ _ _ Hh) as [(E1 & E2 & E3)|Hold].
      + subst off sz y. split; [reflexivity|split; [lia|]]. intros id' Hl. unfold upd.
        destruct (N.eqb_spec id' id) as [->|Hne]; [reflexivity|].
        rewrite alookup_ainsert_other in Hl by assumption. destruct (HM _ _ _ Hl) as (d' & H1 & H2 & H3).
        assert (Hz : nlen d = 0) by lia. assert (Hz' : nlen d' = 0) by lia.
        rewrite H1. rewrite (nlen_zero_nil _ Hz), (nlen_zero_nil _ Hz'). reflexivity.
      + destruct (HC _ _ _ Hold) as (C1 & C2 & C3). split; [exact C1|split; [lia|]].
        intros id' Hl. unfold upd. destruct (N.eqb_spec id' id) as [->|Hne].
        * rewrite alookup_ainsert_same in Hl. injection Hl as E1 E2.
          assert (Hz : nlen d = 0) by lia. assert (Hy : nlen y = 0) by lia.
          rewrite (nlen_zero_nil _ Hz), (nlen_zero_nil _ Hy). reflexivity.
        * rewrite alookup_ainsert_other in Hl by assumption. apply C3. exact Hl.
  Qed.

  Lemma inv3_fill pc pc2 m top live id o sz d :
    inv3 pc m top live -> alookup id m = Some (o, sz) -> live id = Some d ->
    (forall o' n y, pc_holds pc_read pc2 o' n y ->
        (o' = o /\ n = nlen d /\ y = d) \/ pc_holds pc_read pc o' n y) ->
    inv3 pc2 m top live.
  Proof.
    intros (HM & HD & HC) Hm Hlive Hpc. split; [exact HM|split; [exact HD|]].
    intros off n y Hh. destruct (Hpc _ _ _ Hh) as [(E1 & E2 & E3)|Hold]; [|apply HC; exact Hold].
    subst off n y. destruct (HM _ _ _ Hm) as (d0 & H1 & H2 & H3).
    assert (d0 = d) by congruence. subst d0.
    split; [reflexivity|split; [lia|]]. intros id' Hl.
    destruct (N.eq_dec id' id) as [->|Hne]; [exact Hlive|].
    destruct (HM _ _ _ Hl) as (d' & H4 & H5 & H6).
    pose proof (HD id' id _ _ _ _ Hne Hl Hm) as Hdis.
    assert (Hz : nlen d = 0) by lia. assert (Hz' : nlen d' = 0) by lia.
    rewrite H4. rewrite (nlen_zero_nil _ Hz), (nlen_zero_nil _ Hz'). reflexivity.
  Qed.

  Lemma inv3_remove pc m top live id :
    inv3 pc m top live -> inv3 pc (aremove id m) top (upd live id None).
  Proof.
    intros (HM & HD & HC). split; [|split].
    - intros id' off sz Hl.
      destruct (N.eq_dec id' id) as [->|Hne]; [rewrite alookup_aremove_same in Hl; discriminate|].
      rewrite alookup_aremove_other in Hl by assumption.
      unfold upd. destruct (N.eqb_spec id' id); [contradiction|]. apply HM. exact Hl.
    - intros id1 id2 o1 n1 o2 n2 Hne H1 H2.
      destruct (N.eq_dec id1 id) as [->|Hn1]; [rewrite alookup_aremove_same in H1; discriminate|].
      destruct (N.eq_dec id2 id) as [->|Hn2]; [rewrite alookup_aremove_same in H2; discriminate|].
      rewrite alookup_aremove_other in H1 by assumption. rewrite alookup_aremove_other in H2 by assumption.
      exact (HD _ _ _ _ _ _ Hne H1 H2).
    - intros off sz y Hh. destruct (HC _ _ _ Hh) as (C1 & C2 & C3). split; [exact C1|split; [exact C2|]].
      intros id' Hl.
      destruct (N.eq_dec id' id) as [->|Hne]; [rewrite alookup_aremove_same in Hl; discriminate|].
      rewrite alookup_aremove_other in Hl by assumption.
      unfold upd. destruct (N.eqb_spec id' id); [contradiction|]. apply C3. exact Hl.
  Qed.

  (* ---------------- the single-operation clauses ---------------- *)
  Lemma cached_put_clause c s d :
    cached_rel pc_read Rel c s -> P d -> s_next s + 1 < B ->
    snd (cached_put I pc_dirty c d) = Some (s_next s) /\
    cached_rel pc_read Rel (fst (cached_put I pc_dirty c d)) (fst (spec_put s d)).
  Proof.
    intros [HR Hinv] HP Hb. pose proof HL as [Lr Ld Lf Li].
    destruct (rf_put B P I Rel HI (c_inner c) s d HR HP Hb) as [H1 H2].
    unfold cached_put. destruct (o_put I (c_inner c) d) as [in1 r]. cbn [fst snd] in H1, H2. subst r.
    cbn [fst snd]. split; [reflexivity|]. split; cbn [c_inner]; [exact H2|].
    rewrite cached_inv_inv3 in *. cbn [c_pc c_meta c_off]. unfold spec_put. cbn [fst s_live].
    eapply inv3_put; [exact Hinv|].
    destruct (c_enabled c && negb (c_strategy c =? WRITE_AROUND)).
    - intros o n y Hh. apply Ld. exact Hh.
    - intros o n y Hh. right. exact Hh.
  Qed.

  Lemma cached_get_clause c s id :
    cached_rel pc_read Rel c s ->
    snd (cached_get I pc_read pc_fill c id) = s_live s id /\
    cached_rel pc_read Rel (fst (cached_get I pc_read pc_fill c id)) s.
  Proof.
    intros [HR Hinv]. pose proof HL as [Lr Ld Lf Li].
    destruct (rf_get B P I Rel HI (c_inner c) s id HR) as [H1 H2].
    rewrite cached_inv_inv3 in Hinv.
    unfold cached_get. destruct (c_enabled c); cbn [negb].
    - destruct (alookup id (c_meta c)) as [[off sz]|] eqn:Em.
      + destruct (pc_read (c_pc c) off sz) as [pc1 hit] eqn:Er.
        assert (Hsh : forall o n y, pc_holds pc_read pc1 o n y -> pc_holds pc_read (c_pc c) o n y).
        { intros o n y Hh. apply (Lr (c_pc c) off sz). rewrite Er. exact Hh. }
        destruct hit as [y|].
        * assert (Hh : pc_holds pc_read (c_pc c) off sz y) by (unfold pc_holds; rewrite Er; reflexivity).
          pose proof Hinv as (HM & HD & HC). destruct (HC _ _ _ Hh) as (_ & _ & C3).
          cbn [fst snd]. split; [symmetry; apply C3; exact Em|].
          split; cbn [c_inner]; [exact HR|]. rewrite cached_inv_inv3. cbn [c_pc c_meta c_off].
          eapply inv3_shrink; [exact Hinv|exact Hsh].
        * destruct (o_get I (c_inner c) id) as [in1 g]. cbn [fst snd] in H1, H2. subst g.
          cbn [fst snd]. split; [reflexivity|]. split; cbn [c_inner]; [exact H2|].
          rewrite cached_inv_inv3. cbn [c_pc c_meta c_off].
          destruct (s_live s id) as [d|] eqn:El; [|eapply inv3_shrink; [exact Hinv|exact Hsh]].
          destruct (c_strategy c =? WRITE_BACK); [|eapply inv3_shrink; [exact Hinv|exact Hsh]].
          eapply inv3_fill; [exact Hinv|exact Em|exact El|].
          intros o n y Hh. destruct (Lf _ _ _ _ _ _ Hh) as [E|Hold]; [left; exact E|right; apply Hsh; exact Hold].
      + destruct (o_get I (c_inner c) id) as [in1 g]. cbn [fst snd] in H1, H2. subst g.
        cbn [fst snd]. split; [reflexivity|]. split; cbn [c_inner]; [exact H2|].
        rewrite cached_inv_inv3. cbn [c_pc c_meta c_off].
        destruct (s_live s id); exact Hinv.
    - destruct (o_get I (c_inner c) id) as [in1 g]. cbn [fst snd] in H1, H2. subst g.
      cbn [fst snd]. split; [reflexivity|]. split; cbn [c_inner]; [exact H2|].
      rewrite cached_inv_inv3. cbn [c_pc c_meta c_off]. exact Hinv.
  Qed.

  Lemma cached_remove_clause c s id :
    cached_rel pc_read Rel c s ->
    snd (cached_remove I pc_inval c id) = live_some s id /\
    cached_rel pc_read Rel (fst (cached_remove I pc_inval c id)) (spec_remove s id).
  Proof.
    intros [HR Hinv]. pose proof HL as [Lr Ld Lf Li].
    destruct (rf_remove B P I Rel HI (c_inner c) s id HR) as [H1 H2].
    rewrite cached_inv_inv3 in Hinv.
    unfold cached_remove. destruct (o_remove I (c_inner c) id) as [in1 ok]. cbn [fst snd] in H1, H2. subst ok.
    cbn [fst snd]. split; [reflexivity|]. split; cbn [c_inner]; [exact H2|].
    rewrite cached_inv_inv3. cbn [c_pc c_meta c_off].
    assert (Hsh : forall o n y,
      pc_holds pc_read (match alookup id (c_meta c) with
                        | Some (off, sz) => if c_enabled c then pc_inval (c_pc c) off sz else c_pc c
                        | None => c_pc c end) o n y -> pc_holds pc_read (c_pc c) o n y).
    { intros o n y Hh. destruct (alookup id (c_meta c)) as [[off sz]|]; [|exact Hh].
      destruct (c_enabled c); [|exact Hh]. eapply Li. exact Hh. }
    destruct (live_some s id) eqn:El.
    - rewrite (spec_remove_live_upd s id El).
      eapply inv3_shrink; [apply inv3_remove; exact Hinv|exact Hsh].
    - rewrite (spec_remove_not_live s id El).
      eapply inv3_shrink; [exact Hinv|exact Hsh].
  Qed.

  Lemma cached_size_clause c s id :
    cached_rel pc_read Rel c s ->
    snd (cached_size I c id) = option_map nlen (s_live s id) /\
    cached_rel pc_read Rel (fst (cached_size I c id)) s.
  Proof.
    intros [HR Hinv]. destruct (rf_size B P I Rel HI (c_inner c) s id HR) as [H1 H2].
    unfold cached_size. destruct (o_size I (c_inner c) id) as [in1 r]. cbn [fst snd] in H1, H2. subst r.
    cbn [fst snd]. split; [reflexivity|]. split; cbn [c_inner]; [exact H2|exact Hinv].
  Qed.

  Theorem cached_refines_sec :
    refines B P (cached_ops I pc_read pc_dirty pc_inval pc_fill) (cached_rel pc_read Rel).
  Proof.
    constructor; cbn [cached_ops o_put o_batch o_remove o_rmbatch o_get o_getbatch o_contains o_size o_len].
    - exact cached_put_clause.
    - intros st s ds HR HP Hb.
      apply (put_loop_refines B P (cached_rel pc_read Rel) _ cached_put_clause ds st s HR HP Hb).
    - exact cached_remove_clause.
    - intros st s ids HR. apply (rm_loop_refines (cached_rel pc_read Rel) _ cached_remove_clause ids st s HR).
    - exact cached_get_clause.
    - intros st s ids HR. apply (get_loop_refines (cached_rel pc_read Rel) _ cached_get_clause ids st s HR).
    - intros st s id [HR _]. apply (rf_contains B P I Rel HI). exact HR.
    - exact cached_size_clause.
    - intros st s [HR _]. apply (rf_len B P I Rel HI). exact HR.
  Qed.

  (* a fresh cached store over a related inner state, with a cache that holds nothing *)
  Lemma cached_rel_new inner pc0 strategy enabled s :
    Rel inner s -> (forall off n, snd (pc_read pc0 off n) = None) ->
    cached_rel pc_read Rel (cached_new inner pc0 strategy enabled) s.
  Proof.
    intros HR Hpc. split; [exact HR|]. unfold cached_inv, cached_new, pc_holds. cbn [c_pc c_meta c_off alookup].
    split; [|split].
    - intros id off sz H. discriminate.
    - intros id1 id2 o1 n1 o2 n2 _ H. discriminate.
    - intros off sz y H. rewrite Hpc in H. discriminate.
  Qed.
End CachedProofs.

(* ================================================================== *)
(* 1. the cached store refines the spec, for every lawful cache         *)
(* ================================================================== *)
Theorem cached_refines_proof :
  forall (St PC : Type) (I : store_ops St)
         (pc_read : PC -> N -> N -> PC * option bytes) (pc_dirty : PC -> N -> bytes -> PC)
         (pc_inval : PC -> N -> N -> PC) (pc_fill : PC -> N -> bytes -> PC)
         (B : N) (P : bytes -> Prop) (Rel : St -> spec -> Prop),
    pc_lawful pc_read pc_dirty pc_inval pc_fill ->
    refines B P I Rel ->
    refines B P (cached_ops I pc_read pc_dirty pc_inval pc_fill) (cached_rel pc_read Rel).
Proof. intros St PC I pr pd pi pf B P Rel HL HI. exact (cached_refines_sec I pr pd pi pf B P Rel HL HI). Qed.

(* ================================================================== *)
(* 2. the two concrete caches are lawful                                *)
(* ================================================================== *)
Theorem nopc_lawful_proof : pc_lawful nopc_read nopc_dirty nopc_inval nopc_fill.
Proof. constructor; unfold pc_holds, nopc_read; cbn [fst snd]; intros; discriminate. Qed.

Lemma rpc_read_fst pc o n : fst (rpc_read pc o n) = pc.
Proof.
  unfold rpc_read. destruct (alookup (rkey o n) pc) as [[[a b] c]|]; [|reflexivity].
  destruct ((a =? o) && (b =? n)); reflexivity.
Qed.

Lemma rpc_read_snd pc o n :
  snd (rpc_read pc o n) =
  match alookup (rkey o n) pc with
  | Some (a, b, c) => if (a =? o) && (b =? n) then Some c else None
  | None => None
  end.
Proof.
  unfold rpc_read. destruct (alookup (rkey o n) pc) as [[[a b] c]|]; [|reflexivity].
  destruct ((a =? o) && (b =? n)); reflexivity.
Qed.

Lemma rpc_dirty_law pc off d o n y :
  pc_holds rpc_read (rpc_dirty pc off d) o n y ->
  (o = off /\ n = nlen d /\ y = d) \/ pc_holds rpc_read pc o n y.
Proof.
  unfold pc_holds. rewrite !rpc_read_snd. unfold rpc_dirty. intros H.
  destruct (N.eq_dec (rkey o n) (rkey off (nlen d))) as [E|E].
  - rewrite E in H. rewrite alookup_ainsert_same in H.
    destruct (N.eqb_spec off o) as [Eo|Eo]; destruct (N.eqb_spec (nlen d) n) as [En|En];
      cbn [andb] in H; try discriminate.
    left. injection H as Hy. subst. split; [reflexivity|split; reflexivity].
  - rewrite alookup_ainsert_other in H by exact E. right. exact H.
Qed.

Theorem rpc_lawful_proof : pc_lawful rpc_read rpc_dirty rpc_inval rpc_dirty.
Proof.
  constructor.
  - intros pc o n o' n' y H. rewrite rpc_read_fst in H. exact H.
  - exact rpc_dirty_law.
  - exact rpc_dirty_law.
  - intros pc off sz o n y. unfold pc_holds. rewrite !rpc_read_snd. unfold rpc_inval. intros H.
    destruct (N.eq_dec (rkey o n) (rkey off sz)) as [E|E].
    + rewrite E in H. rewrite alookup_aremove_same in H. discriminate.
    + rewrite alookup_aremove_other in H by exact E. exact H.
Qed.

(* ================================================================== *)
(* 3. every history, over MemoryBlobStore                               *)
(* ================================================================== *)
Theorem cached_over_memory_history_proof :
  forall (PC : Type) (pc_read : PC -> N -> N -> PC * option bytes) (pc_dirty : PC -> N -> bytes -> PC)
         (pc_inval : PC -> N -> N -> PC) (pc_fill : PC -> N -> bytes -> PC) (pc0 : PC) (strategy : N) (enabled : bool),
    pc_lawful pc_read pc_dirty pc_inval pc_fill ->
    (forall off n, snd (pc_read pc0 off n) = None) ->
    forall ops, 1 + xputs ops < W32 ->
      st_run (cached_ops mem_ops pc_read pc_dirty pc_inval pc_fill) (cached_new mem_empty pc0 strategy enabled) ops
      = spec_xrun spec_empty ops.
Proof.
  intros PC pr pd pi pf pc0 strategy enabled HL Hpc ops Hb.
  apply (refines_run W32 (fun _ => True) (cached_ops mem_ops pr pd pi pf) (cached_rel pr R)).
  - apply cached_refines_proof; [exact HL|exact mem_store_refines].
  - apply cached_rel_new; [exact R_empty|exact Hpc].
  - apply Forall_forall. intros x _. exact Logic.I.
  - cbn [spec_empty s_next]. exact Hb.
Qed.

(* ================================================================== *)
(* 4. a removed id is never served from the cache                       *)
(* ================================================================== *)
Theorem cached_removed_not_served_proof :
  forall (St PC : Type) (I : store_ops St)
         (pc_read : PC -> N -> N -> PC * option bytes) (pc_dirty : PC -> N -> bytes -> PC)
         (pc_inval : PC -> N -> N -> PC) (pc_fill : PC -> N -> bytes -> PC)
         (B : N) (P : bytes -> Prop) (Rel : St -> spec -> Prop),
    pc_lawful pc_read pc_dirty pc_inval pc_fill -> refines B P I Rel ->
    forall c s id, cached_rel pc_read Rel c s ->
      snd (cached_remove I pc_inval c id) = true ->
      snd (cached_get I pc_read pc_fill (fst (cached_remove I pc_inval c id)) id) = None.
Proof.
  intros St PC I pr pd pi pf B P Rel HL HI c s id HR Hok.
  destruct (cached_remove_clause I pr pd pi pf B P Rel HL HI c s id HR) as [_ H2].
  destruct (cached_get_clause I pr pd pi pf B P Rel HL HI _ _ id H2) as [H3 _].
  rewrite H3. apply spec_remove_gone.
Qed.

(* ================================================================== *)
(* 5. the hypotheses are satisfiable by a cache that really holds data  *)
(* ================================================================== *)
Definition cached_demo_ops : list xop :=
  [XO (MPut [1;2]); XO (MPut []); XO (MPut [3]); XO (MQuery 1); XO (MRemove 1); XO (MQuery 1);
   XO (MPut [4;5]); XGetBatch [1; 2; 3; 4; 9]; XO MLen].

Example cached_nontrivial :
  st_run (cached_ops mem_ops rpc_read rpc_dirty rpc_inval rpc_dirty)
         (cached_new mem_empty [] WRITE_BACK true) cached_demo_ops
  = spec_xrun spec_empty cached_demo_ops /\
  spec_xrun spec_empty cached_demo_ops
  = [[1]; [2]; [3]; [1; 2; 1; 2]; [1]; [0]; [4]; [0; 1; 0; 1; 1; 3; 1; 2; 4; 5; 0]; [3]] /\
  snd (rpc_read (c_pc (st_exec (cached_ops mem_ops rpc_read rpc_dirty rpc_inval rpc_dirty)
                               (cached_new mem_empty [] WRITE_BACK true) [XO (MPut [1;2])])) 0 2) = Some [1;2].
Proof. vm_compute. split; [reflexivity|split; reflexivity]. Qed.
