(* C03 — MemoryBlobStore::from_data: the store seeded from a map behaves like the property's machine
   started on the content of that map. *)
From ZV.Common Require Import Base Run.
From ZV.C03 Require Import Model ModelFromData ProofsMem.
Open Scope N_scope.

Lemma fold_ainsert_spec : forall (m acc : list (N * bytes)),
  NoDup (keys m) ->
  (forall k, In k (keys m) -> alookup k acc = None) ->
  NoDup (keys acc) ->
  let data := fold_left (fun acc kv => ainsert (fst kv) (snd kv) acc) m acc in
  (forall id, alookup id data = match alookup id m with Some v => Some v | None => alookup id acc end) /\
  nlen data = nlen acc + nlen m /\
  NoDup (keys data).
Proof.
  induction m as [|[k v] t IH]; intros acc Hd Habs Hacc; cbn zeta.
  - cbn [fold_left alookup nlen]. repeat split; [lia | exact Hacc].
  - cbn [fold_left fst snd].
    cbn [keys map fst] in Hd. inversion Hd as [|x l Hn Hd']; subst.
    assert (Hk : alookup k acc = None) by (apply Habs; cbn [keys map fst]; left; reflexivity).
    assert (Hd2 : NoDup (keys (ainsert k v acc))) by (apply nodup_ainsert; exact Hacc).
    assert (Habs2 : forall k', In k' (keys t) -> alookup k' (ainsert k v acc) = None).
    { intros k' Hin. rewrite alookup_ainsert_other.
      - apply Habs. cbn [keys map fst]. right. exact Hin.
      - intros E. subst k'. apply Hn. exact Hin. }
    destruct (IH (ainsert k v acc) Hd' Habs2 Hd2) as [L [C D]].
    split; [|split].
    + intros id. rewrite L. cbn [alookup].
      destruct (N.eqb_spec id k) as [->|Hne].
      * assert (Ht : alookup k t = None) by (apply alookup_none_notin; exact Hn).
        rewrite Ht. apply alookup_ainsert_same.
      * destruct (alookup id t); [reflexivity|]. apply alookup_ainsert_other. exact Hne.
    + rewrite C. unfold ainsert. rewrite (nlen_aremove_absent k acc Hk). cbn [nlen]. lia.
    + exact D.
Qed.

Lemma alookup_le_max_key : forall (m : list (N * bytes)) id d,
  alookup id m = Some d -> id <= max_key m.
Proof.
  induction m as [|[k v] t IH]; intros id d; cbn [alookup max_key]; [discriminate|].
  destruct (N.eqb_spec id k) as [->|Hne].
  - intros _. apply N.le_max_l.
  - intros H. apply IH in H. pose proof (N.le_max_r k (max_key t)). lia.
Qed.

Lemma mem_from_data_R : forall m st,
  NoDup (keys m) -> mem_from_data m = Some st -> R st (spec_from_data m).
Proof.
  intros m st Hd Hst.
  destruct (fold_ainsert_spec m [] Hd (fun _ _ => eq_refl) (NoDup_nil _)) as [L [C D]].
  assert (Hnext : mnext st = s_next (spec_from_data m) /\
                  mdata st = fold_left (fun acc kv => ainsert (fst kv) (snd kv) acc) m []).
  { unfold mem_from_data in Hst. destruct m as [|p t].
    - inversion Hst; subst. cbn. split; reflexivity.
    - destruct (max_key (p :: t) + 1 <? W32); [|discriminate].
      inversion Hst; subst. split; reflexivity. }
  destruct Hnext as [Hn Hdata].
  unfold R. rewrite Hdata, Hn.
  split; [|split; [|split; [|split]]].
  - intros id. rewrite L. cbn [spec_from_data s_live alookup]. destruct (alookup id m); reflexivity.
  - rewrite C. cbn [spec_from_data s_count nlen]. lia.
  - reflexivity.
  - exact D.
  - cbn [spec_from_data s_live s_next]. intros id d H.
    pose proof (alookup_le_max_key m id d H) as Hle.
    destruct m as [|p t]; [discriminate|]. lia.
Qed.

Theorem mem_from_data_refines_proof : forall m st ops,
  NoDup (keys m) -> mem_from_data m = Some st ->
  s_next (spec_from_data m) + puts ops < W32 ->
  mem_run st ops = spec_run (spec_from_data m) ops.
Proof.
  intros m st ops Hd Hst Hb. apply mem_refines; [|exact Hb].
  apply mem_from_data_R; assumption.
Qed.

Theorem mem_from_data_ids_fresh_proof : forall m st,
  NoDup (keys m) -> mem_from_data m = Some st ->
  forall id d, alookup id m = Some d -> id < mnext st.
Proof.
  intros m st Hd Hst id d H.
  destruct (mem_from_data_R m st Hd Hst) as [_ [_ [Hn [_ Hf]]]].
  rewrite Hn. apply (Hf id d). exact H.
Qed.

Example from_data_nontrivial :
  exists st, mem_from_data [(5, [1]); (2, [2;3])] = Some st /\
    mem_run st [MPut [9]; MQuery 5; MQuery 6; MLen] =
      spec_run (spec_from_data [(5, [1]); (2, [2;3])]) [MPut [9]; MQuery 5; MQuery 6; MLen] /\
    mem_run st [MPut [9]; MQuery 6] = [[6]; [1;1;9]].
Proof. eexists. vm_compute. repeat split; reflexivity. Qed.
