(* C03 — MemoryBlobStore::from_data as the start of a history.  Definitions only.
   The store itself (`mem_from_data`: the map as given, next id = max key + 1 by a checked addition, 1 for an empty map) is in
   Model.v; here is the state the property's machine starts from for such a store. *)
From ZV.Common Require Import Base Run.
From ZV.C03 Require Import Model.
Open Scope N_scope.

(* the records of the map are live under their ids, the counter is above every id *)
Definition spec_from_data (m : list (N * bytes)) : spec :=
  {| s_live := fun id => alookup id m; s_count := nlen m; s_next := match m with [] => 1 | _ => max_key m + 1 end |}.

(* the case the harness writes: the seeded map (distinct ids, as a HashMap has them), the history run on the seeded store and
   what the real store answered; `[[0]]` when from_data panicked (max id + 1 overflows) *)
Definition check_from_data (m : list (N * bytes)) (ops : list mop) (expect : list (list N)) : bool :=
  match mem_from_data m with
  | None => eqb_lln [[0]] expect
  | Some st =>
      eqb_lln (mem_run st ops) expect
      && (if s_next (spec_from_data m) + puts ops <? W32 then eqb_lln (spec_run (spec_from_data m) ops) expect else true)
  end.
