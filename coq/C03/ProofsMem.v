(* C03: MemoryBlobStore refines the property's state machine, for every history. *)
From ZV.Common Require Import Base Run.
From ZV.C03 Require Import Model.
Open Scope N_scope.

Definition keys {V} (m : list (N * V)) : list N := map fst m.

Lemma alookup_aremove_same {V} k (m : list (N * V)) : alookup k (aremove k m) = None.
Proof.
  induction m as [|[k' v] t IH]; cbn [aremove alookup]; [reflexivity|].
  destruct (N.eqb_spec k k') as [->|Hne]; [exact IH|].
  cbn [alookup]. destruct (N.eqb_spec k k'); [contradiction|exact IH].
Qed.

Lemma alookup_aremove_other {V} k k' (m : list (N * V)) :
  k <> k' -> alookup k (aremove k' m) = alookup k m.
Proof.
  intros Hne. induction m as [|[k2 v] t IH]; cbn [aremove alookup]; [reflexivity|].
  destruct (N.eqb_spec k' k2) as [->|Hne2].
  - destruct (N.eqb_spec k k2); [contradiction|exact IH].
  - cbn [alookup]. destruct (N.eqb_spec k k2); [reflexivity|exact IH].
Qed.

Lemma alookup_ainsert_same {V} k (v : V) m : alookup k (ainsert k v m) = Some v.
Proof. unfold ainsert. cbn [alookup]. rewrite N.eqb_refl. reflexivity. Qed.

Lemma alookup_ainsert_other {V} k k' (v : V) m : k <> k' -> alookup k (ainsert k' v m) = alookup k m.
Proof.
  intros Hne. unfold ainsert. cbn [alookup].
  destruct (N.eqb_spec k k'); [contradiction|]. apply alookup_aremove_other; assumption.
Qed.

Lemma alookup_none_notin {V} k (m : list (N * V)) : alookup k m = None <-> ~ In k (keys m).
Proof.
  induction m as [|[k' v] t IH]; cbn [alookup keys map fst In].
  - split; [intros _ []|reflexivity].
  - destruct (N.eqb_spec k k') as [->|Hne].
    + split; [discriminate|]. intros H. exfalso. apply H. left. reflexivity.
    + rewrite IH. unfold keys. split.
      * intros H [E|I]; [congruence|contradiction].
      * intros H I. apply H. right. exact I.
Qed.

Lemma in_keys_aremove {V} k k' (m : list (N * V)) : In k (keys (aremove k' m)) -> In k (keys m) /\ k <> k'.
Proof.
  induction m as [|[k2 v] t IH]; cbn [aremove keys map fst In]; [intros []|].
  destruct (N.eqb_spec k' k2) as [->|Hne].
  - intros H. destruct (IH H) as [H1 H2]. split; [right; exact H1|exact H2].
  - cbn [keys map fst In]. intros [E|H].
    + subst k2. split; [left; reflexivity|congruence].
    + destruct (IH H) as [H1 H2]. split; [right; exact H1|exact H2].
Qed.

Lemma nodup_aremove {V} k (m : list (N * V)) : NoDup (keys m) -> NoDup (keys (aremove k m)).
Proof.
  induction m as [|[k2 v] t IH]; cbn [aremove keys map fst]; intros H; [constructor|].
  inversion H as [|x l Hn Hd]; subst.
  destruct (N.eqb_spec k k2); [apply IH; exact Hd|].
  cbn [keys map fst]. constructor; [|apply IH; exact Hd].
  intros I. apply in_keys_aremove in I. apply Hn. apply I.
Qed.

Lemma nodup_ainsert {V} k (v : V) m : NoDup (keys m) -> NoDup (keys (ainsert k v m)).
Proof.
  intros H. unfold ainsert. cbn [keys map fst]. constructor.
  - intros I. apply in_keys_aremove in I. destruct I as [_ I]. apply I. reflexivity.
  - apply nodup_aremove. exact H.
Qed.

Lemma nlen_aremove_absent {V} k (m : list (N * V)) : alookup k m = None -> aremove k m = m.
Proof.
  induction m as [|[k2 v] t IH]; cbn [aremove alookup]; [reflexivity|].
  destruct (N.eqb_spec k k2); [discriminate|]. intros H. rewrite IH by exact H. reflexivity.
Qed.

Lemma nlen_aremove_present {V} k (m : list (N * V)) (v : V) :
  NoDup (keys m) -> alookup k m = Some v -> nlen (aremove k m) + 1 = nlen m.
Proof.
  induction m as [|[k2 v2] t IH]; cbn [aremove alookup keys map fst]; [discriminate|].
  intros Hd Hl. inversion Hd as [|x l Hn Hd']; subst.
  destruct (N.eqb_spec k k2) as [->|Hne].
  - rewrite nlen_aremove_absent; [cbn [nlen]; lia|].
    apply alookup_none_notin. exact Hn.
  - cbn [nlen]. specialize (IH Hd' Hl). lia.
Qed.

(* ---------------- the refinement relation ---------------- *)
Definition R (m : mem) (s : spec) : Prop :=
  (forall id, alookup id (mdata m) = s_live s id) /\
  nlen (mdata m) = s_count s /\
  mnext m = s_next s /\
  NoDup (keys (mdata m)) /\
  (forall id d, s_live s id = Some d -> id < s_next s).

Lemma R_empty : R mem_empty spec_empty.
Proof.
  unfold R, mem_empty, spec_empty; cbn. repeat split; try reflexivity.
  - constructor.
  - intros id d H; discriminate.
Qed.

Lemma R_put m s d :
  R m s -> s_next s + 1 < W32 ->
  R (fst (mem_put m d)) (fst (spec_put s d)) /\ snd (mem_put m d) = snd (spec_put s d).
Proof.
  intros (Hl & Hc & Hn & Hd & Hb) Hw. unfold R, mem_put, spec_put; cbn [fst snd mdata mnext s_live s_count s_next].
  split; [|exact Hn].
  assert (Hfresh : alookup (mnext m) (mdata m) = None).
  { rewrite Hl. destruct (s_live s (mnext m)) eqn:E; [|reflexivity].
    apply Hb in E. rewrite Hn in E. lia. }
  repeat split.
  - intros id. unfold upd. rewrite <- Hn. destruct (N.eqb_spec id (mnext m)) as [->|Hne].
    + apply alookup_ainsert_same.
    + rewrite alookup_ainsert_other by assumption. apply Hl.
  - unfold ainsert. cbn [nlen]. rewrite nlen_aremove_absent by exact Hfresh. lia.
  - rewrite Hn. rewrite N.mod_small by lia. reflexivity.
  - apply nodup_ainsert. exact Hd.
  - intros id d0. unfold upd. destruct (N.eqb_spec id (s_next s)) as [->|Hne]; intros H.
    + lia.
    + apply Hb in H. lia.
Qed.

Lemma R_put_batch ds : forall m s,
  R m s -> s_next s + nlen ds < W32 ->
  R (fst (mem_put_batch m ds)) (fst (spec_put_batch s ds)) /\
  snd (mem_put_batch m ds) = snd (spec_put_batch s ds) /\
  s_next (fst (spec_put_batch s ds)) = s_next s + nlen ds.
Proof.
  induction ds as [|d t IH]; intros m s HR Hw; cbn [mem_put_batch spec_put_batch nlen].
  - cbn [fst snd]. split; [exact HR|split; [reflexivity|lia]].
  - cbn [nlen] in Hw.
    destruct (R_put m s d HR ltac:(lia)) as [HR1 Hid].
    destruct (mem_put m d) as [m1 id1] eqn:Em. destruct (spec_put s d) as [s1 id2] eqn:Es.
    cbn [fst snd] in HR1, Hid. subst id2.
    assert (Hn1 : s_next s1 = s_next s + 1).
    { unfold spec_put in Es. inversion Es. reflexivity. }
    destruct (IH m1 s1 HR1 ltac:(lia)) as (HR2 & Hids & Hn2).
    destruct (mem_put_batch m1 t) as [m2 ids] eqn:Em2. destruct (spec_put_batch s1 t) as [s2 ids2] eqn:Es2.
    cbn [fst snd] in *. subst ids2. split; [exact HR2|split; [reflexivity|lia]].
Qed.

Lemma R_step m s o :
  R m s -> s_next s + puts [o] < W32 ->
  R (fst (mem_step m o)) (fst (spec_step s o)) /\ snd (mem_step m o) = snd (spec_step s o) /\
  s_next (fst (spec_step s o)) = s_next s + puts [o].
Proof.
  intros HR Hw. destruct o as [d|ds|id|id|]; cbn [puts] in Hw; cbn [mem_step spec_step puts].
  - destruct (R_put m s d HR ltac:(lia)) as [HR1 Hid].
    destruct (mem_put m d) as [m1 id1] eqn:Em. destruct (spec_put s d) as [s1 id2] eqn:Es.
    cbn [fst snd] in *. subst. split; [exact HR1|split; [reflexivity|]].
    unfold spec_put in Es. inversion Es. cbn. lia.
  - destruct (R_put_batch ds m s HR ltac:(lia)) as (HR1 & Hids & Hn). split; [exact HR1|split; [exact Hids|lia]].
  - destruct HR as (Hl & Hc & Hn & Hd & Hb). rewrite Hl.
    destruct (s_live s id) as [d|] eqn:E; cbn [fst snd s_next].
    + split; [|split; [reflexivity|lia]].
      unfold R; cbn [mdata mnext s_live s_count s_next]. repeat split; try assumption; try lia.
      * intros id'. unfold upd. destruct (N.eqb_spec id' id) as [->|Hne].
        -- apply alookup_aremove_same.
        -- rewrite alookup_aremove_other by assumption. apply Hl.
      * rewrite <- Hl in E. pose proof (nlen_aremove_present id (mdata m) d Hd E). lia.
      * apply nodup_aremove. exact Hd.
      * intros id' d'. unfold upd. destruct (N.eqb_spec id' id); [discriminate|]. apply Hb.
    + split; [|split; [reflexivity|lia]]. unfold R. repeat split; assumption.
  - cbn [fst snd]. pose proof HR as (Hl & Hc & Hn & Hd & Hb). unfold mem_get. rewrite Hl.
    split; [exact HR|split; [reflexivity|lia]].
  - cbn [fst snd]. pose proof HR as (Hl & Hc & Hn & Hd & Hb). unfold mem_len. rewrite Hc.
    split; [exact HR|split; [reflexivity|lia]].
Qed.

Lemma puts_cons o t : puts (o :: t) = puts [o] + puts t.
Proof. destruct o; cbn [puts]; lia. Qed.

Lemma mem_refines ops : forall m s,
  R m s -> s_next s + puts ops < W32 -> mem_run m ops = spec_run s ops.
Proof.
  induction ops as [|o t IH]; intros m s HR Hw; [reflexivity|].
  rewrite puts_cons in Hw.
  destruct (R_step m s o HR ltac:(lia)) as (HR1 & Hobs & Hn).
  cbn [mem_run spec_run].
  destruct (mem_step m o) as [m1 r1]. destruct (spec_step s o) as [s1 r2]. cbn [fst snd] in *.
  subst r2. f_equal. apply IH; [exact HR1|lia].
Qed.

Lemma mem_refines_from_empty ops :
  1 + puts ops < W32 -> mem_run mem_empty ops = spec_run spec_empty ops.
Proof. intros H. apply mem_refines; [apply R_empty|exact H]. Qed.

(* ids are handed out in increasing order and every live id is below the counter *)
Lemma mem_exec_R ops : forall m s,
  R m s -> s_next s + puts ops < W32 ->
  exists s', R (mem_exec m ops) s' /\ s_next s' = s_next s + puts ops.
Proof.
  induction ops as [|o t IH]; intros m s HR Hw.
  - exists s. cbn [mem_exec puts]. split; [exact HR|lia].
  - rewrite puts_cons in Hw. destruct (R_step m s o HR ltac:(lia)) as (HR1 & _ & Hn).
    cbn [mem_exec]. destruct (IH _ _ HR1 ltac:(lia)) as (s' & HR' & Hn').
    exists s'. split; [exact HR'|]. rewrite puts_cons. lia.
Qed.

Lemma mem_ids_monotone ops :
  1 + puts ops < W32 ->
  mnext (mem_exec mem_empty ops) = 1 + puts ops /\
  (forall id d, mem_get (mem_exec mem_empty ops) id = Some d -> id < mnext (mem_exec mem_empty ops)) /\
  mem_get (mem_exec mem_empty ops) (mnext (mem_exec mem_empty ops)) = None.
Proof.
  intros H. destruct (mem_exec_R ops mem_empty spec_empty R_empty H) as (s' & (Hl & Hc & Hn & Hd & Hb) & Hn').
  cbn [spec_empty s_next] in Hn'. split; [lia|]. split.
  - intros id d Hg. unfold mem_get in Hg. rewrite Hl in Hg. apply Hb in Hg. lia.
  - unfold mem_get. rewrite Hl. destruct (s_live s' (mnext (mem_exec mem_empty ops))) eqn:E; [|reflexivity].
    apply Hb in E. lia.
Qed.

(* spec-level reading: a put is read back, other ids are untouched, removed ids are absent *)
Lemma spec_put_get s d id :
  s_live (fst (spec_put s d)) id = if N.eqb id (snd (spec_put s d)) then Some d else s_live s id.
Proof. reflexivity. Qed.

(* the 32-bit counter wraps: reachable through from_data, three puts overwrite a live record *)
Lemma mem_wrap_overwrites :
  exists init m0, mem_from_data init = Some m0 /\
    let '(m1, _) := mem_put m0 [7] in let '(m2, _) := mem_put m1 [8] in let '(m3, id3) := mem_put m2 [9] in
    mem_get m0 id3 = Some [1] /\ mem_get m3 id3 = Some [9].
Proof.
  exists [(1, [1]); (4294967294, [2])]. eexists. split; [vm_compute; reflexivity|]. vm_compute. split; reflexivity.
Qed.

Example mem_refines_nontrivial :
  mem_run mem_empty [MPut [1;2]; MPut []; MRemove 1; MQuery 1; MQuery 2; MBatch [[3]; [4]]; MLen]
  = [[1]; [2]; [1]; [0]; [1; 0]; [3; 4]; [3]].
Proof. vm_compute. reflexivity. Qed.
