(* C03: SimpleZipBlobStore — get(i) returns record i for every configuration with 1 <= min <= max,
   whatever fragments the string pool deduplicates; ids past the end are absent. *)
From ZV.Common Require Import Base Run.
From ZV.C03 Require Import Model ProofsMixed ProofsSimple.
Open Scope N_scope.

(* ------------------------------------------------------------------ *)
(* list facts                                                           *)
(* ------------------------------------------------------------------ *)
Lemma eqb_bytes_eq : forall a b, eqb_bytes a b = true -> a = b.
Proof.
  induction a as [|x a IH]; intros [|y b] H; cbn [eqb_bytes] in H; try discriminate; [reflexivity|].
  apply andb_true_iff in H. destruct H as [H1 H2]. apply N.eqb_eq in H1. apply IH in H2. subst. reflexivity.
Qed.

Lemma slice_app_l {A} (l x : list A) (off n : nat) :
  (off + n <= length l)%nat -> slice (l ++ x) off n = slice l off n.
Proof.
  intros H. unfold slice. rewrite skipn_app, firstn_app, skipn_length.
  replace (n - (length l - off))%nat with O by lia. cbn [firstn]. apply app_nil_r.
Qed.

Lemma slice_cons_nth {A} (l : list A) (i n : nat) (d : A) :
  (i < length l)%nat -> slice l i (S n) = nth i l d :: slice l (S i) n.
Proof.
  intros H. unfold slice. rewrite (split_nth l i d H) at 1.
  rewrite skipn_app, firstn_length, skipn_firstn_comm.
  replace (i - i)%nat with O by lia. replace (i - Nat.min i (length l))%nat with O by lia.
  cbn [firstn skipn app]. reflexivity.
Qed.

(* ------------------------------------------------------------------ *)
(* the string pool invariant                                            *)
(* ------------------------------------------------------------------ *)
Definition good (pool : bytes) (off len : N) (g : bytes) : Prop :=
  off + len <= nlen pool /\ slice pool (N.to_nat off) (N.to_nat len) = g.

Lemma good_app pool x off len g : good pool off len g -> good (pool ++ x) off len g.
Proof.
  intros [H1 H2]. split.
  - rewrite nlen_app. lia.
  - rewrite slice_app_l; [exact H2|]. rewrite <- (to_nat_nlen pool). lia.
Qed.

Lemma good_new (pool f : bytes) : good (pool ++ f) (nlen pool) (nlen f) f.
Proof.
  split.
  - rewrite nlen_app. lia.
  - rewrite !to_nat_nlen. pose proof (slice_mid pool f []) as H. rewrite app_nil_r in H. exact H.
Qed.

(* frs: every fragment added so far, in order *)
Definition Inv (p : szpool) (frs : list bytes) : Prop :=
  length (p_offs p) = length frs /\
  length (p_lens p) = length frs /\
  (forall g off, In (g, off) (p_map p) -> good (p_pool p) off (nlen g) g) /\
  (forall k, (k < length frs)%nat -> good (p_pool p) (nth k (p_offs p) 0) (nth k (p_lens p) 0) (nth k frs [])).

Lemma Inv_empty : Inv pool_empty [].
Proof.
  unfold Inv, pool_empty. cbn [p_offs p_lens p_map p_pool length].
  split; [reflexivity|]. split; [reflexivity|]. split.
  - intros g off H. destruct H.
  - intros k H. exfalso; lia.
Qed.

Lemma pool_find_some m f off : pool_find m f = Some off -> In (f, off) m.
Proof.
  induction m as [|[g o] t IH]; cbn [pool_find]; intros H; [discriminate|].
  destruct (eqb_bytes f g) eqn:E.
  - apply eqb_bytes_eq in E. inversion H; subst. left. reflexivity.
  - right. apply IH. exact H.
Qed.

Lemma nth_snoc_old {A} (l : list A) (x d : A) k : (k < length l)%nat -> nth k (l ++ [x]) d = nth k l d.
Proof. intros H. apply app_nth1. exact H. Qed.
Lemma nth_snoc_new {A} (l : list A) (x d : A) k : k = length l -> nth k (l ++ [x]) d = x.
Proof. intros ->. rewrite app_nth2, Nat.sub_diag by lia. reflexivity. Qed.

Lemma Inv_add p frs f : Inv p frs -> Inv (pool_add p f) (frs ++ [f]).
Proof.
  intros (Ho & Hl & Hm & Hk). unfold pool_add. destruct (pool_find (p_map p) f) as [off|] eqn:E.
  - apply pool_find_some in E. apply Hm in E.
    unfold Inv. cbn [p_offs p_lens p_map p_pool]. rewrite !app_length. cbn [length].
    split; [lia|]. split; [lia|]. split; [exact Hm|].
    intros k Hlt. destruct (Nat.eq_dec k (length frs)) as [->|Hne].
    + rewrite (nth_snoc_new (p_offs p)) by lia. rewrite (nth_snoc_new (p_lens p)) by lia.
      rewrite (nth_snoc_new frs) by lia. exact E.
    + rewrite (nth_snoc_old (p_offs p)) by lia. rewrite (nth_snoc_old (p_lens p)) by lia.
      rewrite (nth_snoc_old frs) by lia. apply Hk. lia.
  - unfold Inv. cbn [p_offs p_lens p_map p_pool]. rewrite !app_length. cbn [length].
    split; [lia|]. split; [lia|]. split.
    + intros g off [Hin|Hin].
      * inversion Hin; subst. apply good_new.
      * apply good_app. apply Hm. exact Hin.
    + intros k Hlt. destruct (Nat.eq_dec k (length frs)) as [->|Hne].
      * rewrite (nth_snoc_new (p_offs p)) by lia. rewrite (nth_snoc_new (p_lens p)) by lia.
        rewrite (nth_snoc_new frs) by lia. apply good_new.
      * rewrite (nth_snoc_old (p_offs p)) by lia. rewrite (nth_snoc_old (p_lens p)) by lia.
        rewrite (nth_snoc_old frs) by lia. apply good_app. apply Hk. lia.
Qed.

Lemma Inv_fold fs : forall p frs, Inv p frs -> Inv (fold_left pool_add fs p) (frs ++ fs).
Proof.
  induction fs as [|f fs IH]; intros p frs H; cbn [fold_left].
  - rewrite app_nil_r. exact H.
  - replace (frs ++ f :: fs) with ((frs ++ [f]) ++ fs) by (rewrite <- app_assoc; reflexivity).
    apply IH. apply Inv_add. exact H.
Qed.

Lemma collect_inv p frs : Inv p frs -> forall n i, (i + n <= length frs)%nat ->
  sz_collect p i n = Some (concat (slice frs i n)).
Proof.
  intros (Ho & Hl & Hm & Hk). induction n as [|n IH]; intros i Hle.
  - cbn [sz_collect]. unfold slice. cbn [firstn concat]. reflexivity.
  - cbn [sz_collect]. destruct (Hk i) as [H1 H2]; [lia|].
    destruct (N.ltb_spec (nlen (p_pool p)) (nth i (p_offs p) 0 + nth i (p_lens p) 0)) as [Hlt|Hge]; [exfalso; lia|].
    rewrite IH by lia. rewrite H2. rewrite (slice_cons_nth frs i n []) by lia. cbn [concat]. reflexivity.
Qed.

(* ------------------------------------------------------------------ *)
(* the build loop                                                       *)
(* ------------------------------------------------------------------ *)
Lemma offs_add p f : nlen (p_offs (pool_add p f)) = nlen (p_offs p) + 1.
Proof. unfold pool_add. destruct (pool_find (p_map p) f); cbn [p_offs]; rewrite nlen_app; cbn [nlen]; lia. Qed.

Lemma offs_fold fs : forall p, nlen (p_offs (fold_left pool_add fs p)) = nlen (p_offs p) + nlen fs.
Proof.
  induction fs as [|f fs IH]; intros p; cbn [fold_left nlen]; [lia|].
  rewrite IH, offs_add. lia.
Qed.

Section Build.
  Variable c : szcfg.
  Definition frs_of (recs : list bytes) : list bytes := concat (map (fragment c) recs).
  Fixpoint bnds (base : N) (recs : list bytes) : list N :=
    match recs with
    | [] => []
    | r :: t => (base + nlen (fragment c r)) :: bnds (base + nlen (fragment c r)) t
    end.

  Lemma build_go_char recs : forall p bounds,
    sz_build_go c recs p bounds =
    {| sz_pool := fold_left pool_add (frs_of recs) p;
       sz_bounds := bounds ++ bnds (nlen (p_offs p)) recs;
       sz_n := nlen (bounds ++ bnds (nlen (p_offs p)) recs) - 1 |}.
  Proof.
    induction recs as [|r t IH]; intros p bounds; cbn [sz_build_go].
    - unfold frs_of. cbn [map concat fold_left bnds]. rewrite app_nil_r. reflexivity.
    - rewrite IH. unfold frs_of. cbn [map concat bnds]. rewrite fold_left_app, offs_fold, <- !app_assoc.
      cbn [app]. reflexivity.
  Qed.

  Lemma bnds_length recs : forall base, length (bnds base recs) = length recs.
  Proof. induction recs as [|r t IH]; intros base; cbn [bnds length]; [reflexivity|]. rewrite IH. reflexivity. Qed.

  Lemma bnds_nth recs : forall base i, (i <= length recs)%nat ->
    nth i (base :: bnds base recs) 0 = base + nlen (frs_of (firstn i recs)).
  Proof.
    induction recs as [|r t IH]; intros base i Hi; cbn [length] in Hi.
    - assert (i = O) by lia. subst. cbn [nth firstn]. unfold frs_of. cbn [map concat nlen]. lia.
    - destruct i as [|i].
      + cbn [nth firstn]. unfold frs_of. cbn [map concat nlen]. lia.
      + cbn [bnds firstn]. change (nth (S i) (base :: ?h :: ?l) 0) with (nth i (h :: l) 0).
        rewrite IH by lia. unfold frs_of. cbn [map concat]. rewrite nlen_app. lia.
  Qed.

  Lemma frs_of_app a b : frs_of (a ++ b) = frs_of a ++ frs_of b.
  Proof. unfold frs_of. rewrite map_app, concat_app. reflexivity. Qed.

  Lemma build_nonempty recs : recs <> [] ->
    sz_build c recs =
    {| sz_pool := fold_left pool_add (frs_of recs) pool_empty;
       sz_bounds := 0 :: bnds 0 recs;
       sz_n := nlen recs |}.
  Proof.
    intros Hne. unfold sz_build. destruct recs as [|r t]; [congruence|].
    rewrite build_go_char. unfold pool_empty at 2 3. cbn [p_offs nlen app]. f_equal.
    rewrite !nlen_length, bnds_length. cbn [length]. lia.
  Qed.

  Lemma build_n recs : sz_n (sz_build c recs) = nlen recs.
  Proof.
    destruct recs as [|r t]; [reflexivity|]. rewrite build_nonempty by discriminate. reflexivity.
  Qed.

  Theorem simplezip_get_record_proof0 : forall recs i,
    1 <= q_min c -> q_min c <= q_max c -> (i < length recs)%nat ->
    sz_get (sz_build c recs) (N.of_nat i) = Some (nth i recs []).
  Proof.
    intros recs i Hmin Hmax Hi.
    assert (Hne : recs <> []) by (destruct recs; [cbn [length] in Hi; lia|discriminate]).
    rewrite build_nonempty by exact Hne. unfold sz_get. cbn [sz_n sz_bounds sz_pool].
    destruct (N.ltb_spec (N.of_nat i) (nlen recs)) as [_|Hge]; [|rewrite nlen_length in Hge; exfalso; lia].
    unfold nthN. replace (N.to_nat (N.of_nat i + 1)) with (S i) by lia. rewrite Nat2N.id.
    rewrite !bnds_nth by lia. rewrite !N.add_0_l.
    set (r := nth i recs []).
    pose proof (split_nth recs i [] Hi) as Hsplit. fold r in Hsplit.
    set (X := firstn i recs) in *. set (Y := skipn (S i) recs) in *.
    assert (HS : firstn (S i) recs = X ++ [r]).
    { rewrite Hsplit at 1. rewrite firstn_app. unfold X at 1 2. rewrite firstn_length.
      replace (S i - Nat.min i (length recs))%nat with 1%nat by lia.
      rewrite firstn_firstn. replace (Nat.min (S i) i) with i by lia. reflexivity. }
    rewrite HS, frs_of_app, nlen_app.
    replace (nlen (frs_of X) + nlen (frs_of [r]) - nlen (frs_of X)) with (nlen (frs_of [r])) by lia.
    assert (HI : Inv (fold_left pool_add (frs_of recs) pool_empty) (frs_of recs)).
    { apply (Inv_fold (frs_of recs) pool_empty []). apply Inv_empty. }
    rewrite !to_nat_nlen.
    assert (Hfr : frs_of recs = frs_of X ++ frs_of [r] ++ frs_of Y).
    { rewrite Hsplit at 1. rewrite frs_of_app. f_equal. apply (frs_of_app [r] Y). }
    rewrite (collect_inv _ _ HI).
    - rewrite Hfr, slice_mid. unfold frs_of. cbn [map concat]. rewrite app_nil_r.
      rewrite fragment_lossless_proof by assumption. reflexivity.
    - rewrite Hfr, !app_length. lia.
  Qed.
End Build.

Theorem simplezip_get_record_proof : forall c recs i,
  1 <= q_min c -> q_min c <= q_max c -> (i < length recs)%nat ->
  sz_get (sz_build c recs) (N.of_nat i) = Some (nth i recs []).
Proof. intros c recs i. apply simplezip_get_record_proof0. Qed.

Theorem simplezip_absent_proof : forall c recs id,
  nlen recs <= id -> sz_get (sz_build c recs) id = None.
Proof.
  intros c recs id H. unfold sz_get. rewrite build_n.
  destruct (N.ltb_spec id (nlen recs)) as [Hlt|_]; [exfalso; lia|reflexivity].
Qed.

(* three records built from the fragments "ab ", "cd ", "ef ": the pool stores each once *)
Example simplezip_nontrivial :
  let c := {| q_min := 2; q_max := 5; q_delims := [32] |} in
  let recs := [[97;98;32;99;100;32]; [97;98;32;101;102;32]; [99;100;32;97;98;32;101;102;32]] in
  let z := sz_build c recs in
  1 <= q_min c /\ q_min c <= q_max c /\
  map (sz_get z) [0; 1; 2; 3] = [Some (nth 0 recs []); Some (nth 1 recs []); Some (nth 2 recs []); None] /\
  p_pool (sz_pool z) = [97;98;32;99;100;32;101;102;32] /\
  p_offs (sz_pool z) = [0; 3; 0; 6; 3; 0; 6] /\
  sz_bounds z = [0; 2; 4; 7] /\
  nlen (p_pool (sz_pool z)) = 9 /\ nlen (concat recs) = 21.
Proof. vm_compute. repeat split; discriminate. Qed.
