(* C03 property theorems.  Statements + exact + Print Assumptions only. *)
From ZV.Common Require Import Base Run.
From ZV.C03 Require Import Model ProofsMem ProofsMixed ProofsZip ProofsSimple.
Open Scope N_scope.

(* MemoryBlobStore: for EVERY history of put/put_batch/remove/get+contains+size/len issuing fewer than 2^32-1 ids,
   every observation equals the property's own state machine (get returns the last record put under the id,
   removed and never-issued ids are absent, len counts the live records, ids come from a counter that only grows) *)
Theorem mem_history_refines_spec :
  forall ops, 1 + puts ops < W32 -> mem_run mem_empty ops = spec_run spec_empty ops.
Proof. exact mem_refines_from_empty. Qed.
Check mem_history_refines_spec : forall ops, 1 + puts ops < W32 -> mem_run mem_empty ops = spec_run spec_empty ops.
Print Assumptions mem_history_refines_spec.

(* ids never reused: after any history the counter equals 1 + the number of ids issued, every live id is below it,
   and the id the next put will return is not the id of a live record *)
Theorem mem_ids_never_reused :
  forall ops, 1 + puts ops < W32 ->
    mnext (mem_exec mem_empty ops) = 1 + puts ops /\
    (forall id d, mem_get (mem_exec mem_empty ops) id = Some d -> id < mnext (mem_exec mem_empty ops)) /\
    mem_get (mem_exec mem_empty ops) (mnext (mem_exec mem_empty ops)) = None.
Proof. exact mem_ids_monotone. Qed.
Check mem_ids_never_reused : forall ops, 1 + puts ops < W32 ->
    mnext (mem_exec mem_empty ops) = 1 + puts ops /\
    (forall id d, mem_get (mem_exec mem_empty ops) id = Some d -> id < mnext (mem_exec mem_empty ops)) /\
    mem_get (mem_exec mem_empty ops) (mnext (mem_exec mem_empty ops)) = None.
Print Assumptions mem_ids_never_reused.

(* recorded finding memory_id_wraparound: the 32-bit id counter wraps; a store seeded through from_data with a key
   near 2^32 overwrites the live record 1 on its third put *)
Theorem mem_id_wraparound_refuted :
  exists init m0, mem_from_data init = Some m0 /\
    let '(m1, _) := mem_put m0 [7] in let '(m2, _) := mem_put m1 [8] in let '(m3, id3) := mem_put m2 [9] in
    mem_get m0 id3 = Some [1] /\ mem_get m3 id3 = Some [9].
Proof. exact mem_wrap_overwrites. Qed.
Print Assumptions mem_id_wraparound_refuted.

(* MixedLenBlobStore: for every fixed length and every input, record i = input i, ids past the end are absent *)
Theorem mixed_get_record :
  forall fl recs i, (i < length recs)%nat -> mixed_get (mixed_build fl recs) (N.of_nat i) = Some (nth i recs []).
Proof. exact mixed_get_record_proof. Qed.
Check mixed_get_record : forall fl recs i, (i < length recs)%nat -> mixed_get (mixed_build fl recs) (N.of_nat i) = Some (nth i recs []).
Print Assumptions mixed_get_record.

Theorem mixed_absent :
  forall fl recs id, nlen recs <= id -> mixed_get (mixed_build fl recs) id = None.
Proof. exact mixed_absent_proof. Qed.
Print Assumptions mixed_absent.

(* Offset-indexed store: ZipOffsetBlobStoreBuilder::add_record* ; finish ; ZipOffsetBlobStore::get.
   For EVERY configuration (checksum level, block size, offset and sample widths, compression level), every lossless
   record codec (zstd is a parameter) and every input the builder accepts (finish succeeds = every block's span fits
   offset_width) whose stored content fits sample_width: record i = input i, len = number of inputs. *)
Theorem zip_get_record :
  forall comp decomp, (forall l d, decomp (comp l d) = Some d) ->
  forall c ds st i,
    zip_build comp c ds = Some st ->
    nsum (map (fun d => nlen (stored comp c d)) ds) < 2 ^ z_sw c ->
    (i < length ds)%nat ->
    zip_get decomp c st (N.of_nat i) = Some (nth i ds []) /\ zip_len st = nlen ds.
Proof. exact zip_get_record_closed. Qed.
Check zip_get_record :
  forall comp decomp, (forall l d, decomp (comp l d) = Some d) ->
  forall c ds st i,
    zip_build comp c ds = Some st ->
    nsum (map (fun d => nlen (stored comp c d)) ds) < 2 ^ z_sw c ->
    (i < length ds)%nat ->
    zip_get decomp c st (N.of_nat i) = Some (nth i ds []) /\ zip_len st = nlen ds.
Print Assumptions zip_get_record.

Theorem zip_absent :
  forall comp decomp, (forall l d, decomp (comp l d) = Some d) ->
  forall c ds st id,
    zip_build comp c ds = Some st ->
    nsum (map (fun d => nlen (stored comp c d)) ds) < 2 ^ z_sw c ->
    nlen ds <= id ->
    zip_get decomp c st id = None /\ zip_contains st id = false.
Proof. exact zip_absent_closed. Qed.
Print Assumptions zip_absent.

(* SimpleZipBlobStore::fragment_record: for every configuration accepted by validate() (1 <= min_frag_len <= max_frag_len)
   and every record, the fragments concatenate back to the record (the loop terminates within `length rec` steps) *)
Theorem simplezip_fragment_lossless :
  forall c rec, 1 <= q_min c -> q_min c <= q_max c -> concat (fragment c rec) = rec.
Proof. exact fragment_lossless_proof. Qed.
Check simplezip_fragment_lossless : forall c rec, 1 <= q_min c -> q_min c <= q_max c -> concat (fragment c rec) = rec.
Print Assumptions simplezip_fragment_lossless.
