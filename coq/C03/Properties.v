(* C03 property theorems.  Statements + exact + Print Assumptions only. *)
From ZV.Common Require Import Base Run.
From ZV.C03 Require Import Model ProofsMem ProofsMixed ProofsZip ProofsSimple.
From ZV.C03 Require Import ProofsSimpleGet ModelStore ProofsStore ModelZero ProofsZero ModelPlain ProofsPlainFs ProofsPlain.
From ZV.C03 Require Import ModelWrap ProofsWrap ModelCached ProofsCached ModelDictZip ProofsDictZip ModelCases ProofsStack.
From Coq Require Import Permutation.
From ZV.C03 Require Import ModelBatch ProofsBatch ModelNltb ProofsNltb ModelFromData ProofsFromData ModelZeroFinish ProofsZeroFinish.
Open Scope N_scope.

(* MemoryBlobStore: for EVERY history of put/put_batch/remove/get+contains+size/len issuing fewer than 2^32-1 ids,
   every observation equals the property's own state machine (get returns the last record put under the id,
   removed and never-issued ids are absent, len counts the live records, ids come from a counter that only grows) *)
Theorem mem_history_refines_spec :
  forall ops, 1 + puts ops < W32 -> mem_run mem_empty ops = spec_run spec_empty ops.
Proof. exact mem_refines_from_empty. Qed.
Check mem_history_refines_spec : forall ops, 1 + puts ops < W32 -> mem_run mem_empty ops = spec_run spec_empty ops.
Print Assumptions mem_history_refines_spec.

(* ids never reused: after any history the counter equals 1 + the number of ids issued, every live id is below it,
   and the id the next put will return is not the id of a live record *)
Theorem mem_ids_never_reused :
  forall ops, 1 + puts ops < W32 ->
    mnext (mem_exec mem_empty ops) = 1 + puts ops /\
    (forall id d, mem_get (mem_exec mem_empty ops) id = Some d -> id < mnext (mem_exec mem_empty ops)) /\
    mem_get (mem_exec mem_empty ops) (mnext (mem_exec mem_empty ops)) = None.
Proof. exact mem_ids_monotone. Qed.
Check mem_ids_never_reused : forall ops, 1 + puts ops < W32 ->
    mnext (mem_exec mem_empty ops) = 1 + puts ops /\
    (forall id d, mem_get (mem_exec mem_empty ops) id = Some d -> id < mnext (mem_exec mem_empty ops)) /\
    mem_get (mem_exec mem_empty ops) (mnext (mem_exec mem_empty ops)) = None.
Print Assumptions mem_ids_never_reused.

(* recorded finding memory_id_wraparound: the 32-bit id counter wraps; a store seeded through from_data with a key
   near 2^32 overwrites the live record 1 on its third put *)
Theorem mem_id_wraparound_refuted :
  exists init m0, mem_from_data init = Some m0 /\
    let '(m1, _) := mem_put m0 [7] in let '(m2, _) := mem_put m1 [8] in let '(m3, id3) := mem_put m2 [9] in
    mem_get m0 id3 = Some [1] /\ mem_get m3 id3 = Some [9].
Proof. exact mem_wrap_overwrites. Qed.
Print Assumptions mem_id_wraparound_refuted.

(* MixedLenBlobStore: for every fixed length and every input, record i = input i, ids past the end are absent *)
Theorem mixed_get_record :
  forall fl recs i, (i < length recs)%nat -> mixed_get (mixed_build fl recs) (N.of_nat i) = Some (nth i recs []).
Proof. exact mixed_get_record_proof. Qed.
Check mixed_get_record : forall fl recs i, (i < length recs)%nat -> mixed_get (mixed_build fl recs) (N.of_nat i) = Some (nth i recs []).
Print Assumptions mixed_get_record.

Theorem mixed_absent :
  forall fl recs id, nlen recs <= id -> mixed_get (mixed_build fl recs) id = None.
Proof. exact mixed_absent_proof. Qed.
Print Assumptions mixed_absent.

(* Offset-indexed store: ZipOffsetBlobStoreBuilder::add_record* ; finish ; ZipOffsetBlobStore::get.
   For EVERY configuration (checksum level, block size, offset and sample widths, compression level), every lossless
   record codec (zstd is a parameter) and every input the builder accepts (finish succeeds = every block's span fits
   offset_width) whose stored content fits sample_width: record i = input i, len = number of inputs. *)
Theorem zip_get_record :
  forall comp decomp, (forall l d, decomp (comp l d) = Some d) ->
  forall c ds st i,
    zip_build comp c ds = Some st ->
    nsum (map (fun d => nlen (stored comp c d)) ds) < 2 ^ z_sw c ->
    (i < length ds)%nat ->
    zip_get decomp c st (N.of_nat i) = Some (nth i ds []) /\ zip_len st = nlen ds.
Proof. exact zip_get_record_closed. Qed.
Check zip_get_record :
  forall comp decomp, (forall l d, decomp (comp l d) = Some d) ->
  forall c ds st i,
    zip_build comp c ds = Some st ->
    nsum (map (fun d => nlen (stored comp c d)) ds) < 2 ^ z_sw c ->
    (i < length ds)%nat ->
    zip_get decomp c st (N.of_nat i) = Some (nth i ds []) /\ zip_len st = nlen ds.
Print Assumptions zip_get_record.

Theorem zip_absent :
  forall comp decomp, (forall l d, decomp (comp l d) = Some d) ->
  forall c ds st id,
    zip_build comp c ds = Some st ->
    nsum (map (fun d => nlen (stored comp c d)) ds) < 2 ^ z_sw c ->
    nlen ds <= id ->
    zip_get decomp c st id = None /\ zip_contains st id = false.
Proof. exact zip_absent_closed. Qed.
Print Assumptions zip_absent.

(* SimpleZipBlobStore::fragment_record: for every configuration accepted by validate() (1 <= min_frag_len <= max_frag_len)
   and every record, the fragments concatenate back to the record (the loop terminates within `length rec` steps) *)
Theorem simplezip_fragment_lossless :
  forall c rec, 1 <= q_min c -> q_min c <= q_max c -> concat (fragment c rec) = rec.
Proof. exact fragment_lossless_proof. Qed.
Check simplezip_fragment_lossless : forall c rec, 1 <= q_min c -> q_min c <= q_max c -> concat (fragment c rec) = rec.
Print Assumptions simplezip_fragment_lossless.

(* ================================================================== *)
(* extension: more stores inside the model                              *)
(* ================================================================== *)

(* SimpleZipBlobStore, string-pool half (build_strpool + get_record_append_imp): for every valid configuration and every
   input list, record i = input i — the deduplicated pool, the offset/length tables and the record boundaries read back
   every fragment of every record; none of the bounds checks of get fires *)
Theorem simplezip_get_record :
  forall c recs i, 1 <= q_min c -> q_min c <= q_max c -> (i < length recs)%nat ->
    sz_get (sz_build c recs) (N.of_nat i) = Some (nth i recs []).
Proof. exact simplezip_get_record_proof. Qed.
Check simplezip_get_record :
  forall c recs i, 1 <= q_min c -> q_min c <= q_max c -> (i < length recs)%nat ->
    sz_get (sz_build c recs) (N.of_nat i) = Some (nth i recs []).
Print Assumptions simplezip_get_record.

(* ids past the end are absent *)
Theorem simplezip_absent :
  forall c recs id, nlen recs <= id -> sz_get (sz_build c recs) id = None.
Proof. exact simplezip_absent_proof. Qed.
Check simplezip_absent :
  forall c recs id, nlen recs <= id -> sz_get (sz_build c recs) id = None.
Print Assumptions simplezip_absent.

(* the generic interface: ANY store whose nine operations satisfy the clause-by-clause simulation `refines` answers EVERY
   history (put / put_batch / remove / remove_batch / get+contains+size / get_batch / len) exactly like the property's
   state machine, as long as the id counter stays below the store's bound B and the records are in the store's domain P *)
Theorem store_refines_every_history :
  forall (St : Type) (B : N) (P : bytes -> Prop) (O : store_ops St) (Rel : St -> spec -> Prop),
    refines B P O Rel ->
    forall ops st s, Rel st s -> Forall P (xrecords ops) -> s_next s + xputs ops < B ->
      st_run O st ops = spec_xrun s ops.
Proof. exact (@refines_run). Qed.
Check store_refines_every_history :
  forall (St : Type) (B : N) (P : bytes -> Prop) (O : store_ops St) (Rel : St -> spec -> Prop),
    refines B P O Rel ->
    forall ops st s, Rel st s -> Forall P (xrecords ops) -> s_next s + xputs ops < B ->
      st_run O st ops = spec_xrun s ops.
Print Assumptions store_refines_every_history.

(* MemoryBlobStore behind the interface is such a store (incl. its put_batch / get_batch / remove_batch loops) *)
Theorem mem_store_refines_spec :
  refines W32 (fun _ => True) mem_ops R.
Proof. exact mem_store_refines. Qed.
Check mem_store_refines_spec :
  refines W32 (fun _ => True) mem_ops R.
Print Assumptions mem_store_refines_spec.

(* ZeroLengthBlobStore: every history whose records are all empty and which never asks for the removal of a live record
   (the store documents that it does not support removal) is answered exactly like the property's machine numbering from 0 *)
Theorem zero_history_refines_spec :
  forall ops, zero_ok 0 ops -> xputs ops <= W32 -> st_run zero_ops 0 ops = spec_xrun spec_zero ops.
Proof. exact zero_history_refines_proof. Qed.
Check zero_history_refines_spec :
  forall ops, zero_ok 0 ops -> xputs ops <= W32 -> st_run zero_ops 0 ops = spec_xrun spec_zero ops.
Print Assumptions zero_history_refines_spec.

(* PlainBlobStore (directory = finite map file name -> content; put = write `.{id}.tmp`, rename onto `{id}`; len = number of
   names that parse as u32): the simulation holds with the relation `one canonical file per live record` *)
Theorem plain_store_refines_spec :
  refines W32 (fun _ => True) plain_ops plain_rel.
Proof. exact plain_store_refines_proof. Qed.
Check plain_store_refines_spec :
  refines W32 (fun _ => True) plain_ops plain_rel.
Print Assumptions plain_store_refines_spec.

(* every history INCLUDING close + reopen steps (reopen = rescan: next id = largest parsed name + 1): the observations are a
   trace of the property's machine in which a reopen keeps every live record, its id and the count, and may only reset
   the id counter to a value above every live id *)
Theorem plain_history_refines_spec :
  forall ops, 1 + pputs ops < W32 -> spec_ptrace spec_empty ops (plain_prun plain_create ops).
Proof. exact plain_history_refines_proof. Qed.
Check plain_history_refines_spec :
  forall ops, 1 + pputs ops < W32 -> spec_ptrace spec_empty ops (plain_prun plain_create ops).
Print Assumptions plain_history_refines_spec.

(* without reopen steps: the same shape as mem_history_refines_spec *)
Theorem plain_history_no_reopen_refines_spec :
  forall ops, 1 + xputs ops < W32 -> st_run plain_ops plain_create ops = spec_xrun spec_empty ops.
Proof. exact plain_history_no_reopen_proof. Qed.
Check plain_history_no_reopen_refines_spec :
  forall ops, 1 + xputs ops < W32 -> st_run plain_ops plain_create ops = spec_xrun spec_empty ops.
Print Assumptions plain_history_no_reopen_refines_spec.

(* after every history (reopens included) the id the next put returns is the counter, no file carries that name, and every
   live id is below it: an id is handed out again only when its record is no longer live *)
Theorem plain_ids_not_reused_for_live :
  forall ops d, 1 + pputs ops < W32 ->
    let st := plain_pexec plain_create ops in
    snd (plain_put st d) = Some (p_next st) /\
    snd (plain_get st (p_next st)) = None /\
    (forall id r, snd (plain_get st id) = Some r -> id < p_next st).
Proof. exact plain_ids_not_reused_proof. Qed.
Check plain_ids_not_reused_for_live :
  forall ops d, 1 + pputs ops < W32 ->
    let st := plain_pexec plain_create ops in
    snd (plain_put st d) = Some (p_next st) /\
    snd (plain_get st (p_next st)) = None /\
    (forall id r, snd (plain_get st id) = Some r -> id < p_next st).
Print Assumptions plain_ids_not_reused_for_live.

(* PlainBlobStore::new on an existing directory of record files (names = decimal ids below 2^32-1): the opened store is
   related to the machine whose live records are exactly the files *)
Theorem plain_open_existing :
  forall m, NoDup (dnames m) -> canonical (W32 - 1) m ->
    exists st s, plain_open m = Some st /\ plain_rel st s /\
                 (forall id, s_live s id = dlookup (render id) m) /\ s_count s = nlen m.
Proof. exact plain_open_existing_proof. Qed.
Check plain_open_existing :
  forall m, NoDup (dnames m) -> canonical (W32 - 1) m ->
    exists st s, plain_open m = Some st /\ plain_rel st s /\
                 (forall id, s_live s id = dlookup (render id) m) /\ s_count s = nlen m.
Print Assumptions plain_open_existing.

(* the wrapper stores (ZstdBlobStore, HuffmanBlobStore framing, Rans/DictionaryBlobStore pass-through — `wrap_ops` with the
   three configurations): over ANY inner store that satisfies the simulation and for ANY codec, the wrapped store
   satisfies the simulation on the records the codec is lossless on (decode (encode x) = x, size answered correctly) *)
Theorem wrapper_refines_spec :
  forall (St : Type) (I : store_ops St) (B : N) (Pin : bytes -> Prop) (Rel : St -> spec -> Prop)
         (cfg : wrap_cfg) (enc dec : bytes -> option bytes) (szof : bytes -> option N),
    refines B Pin I Rel ->
    refines B (wrap_P cfg enc dec szof Pin) (wrap_ops I cfg enc dec szof) (wrap_rel cfg enc dec szof Rel).
Proof. exact wrapper_refines_proof. Qed.
Check wrapper_refines_spec :
  forall (St : Type) (I : store_ops St) (B : N) (Pin : bytes -> Prop) (Rel : St -> spec -> Prop)
         (cfg : wrap_cfg) (enc dec : bytes -> option bytes) (szof : bytes -> option N),
    refines B Pin I Rel ->
    refines B (wrap_P cfg enc dec szof Pin) (wrap_ops I cfg enc dec szof) (wrap_rel cfg enc dec szof Rel).
Print Assumptions wrapper_refines_spec.

(* hence every history of a wrapped store is answered like the property's machine *)
Theorem wrapper_history_refines_spec :
  forall (St : Type) (I : store_ops St) (B : N) (Pin : bytes -> Prop) (Rel : St -> spec -> Prop)
         (cfg : wrap_cfg) (enc dec : bytes -> option bytes) (szof : bytes -> option N),
    refines B Pin I Rel ->
    forall ops st s, wrap_rel cfg enc dec szof Rel st s ->
      Forall (wrap_P cfg enc dec szof Pin) (xrecords ops) -> s_next s + xputs ops < B ->
      st_run (wrap_ops I cfg enc dec szof) st ops = spec_xrun s ops.
Proof. exact wrapper_history_proof. Qed.
Check wrapper_history_refines_spec :
  forall (St : Type) (I : store_ops St) (B : N) (Pin : bytes -> Prop) (Rel : St -> spec -> Prop)
         (cfg : wrap_cfg) (enc dec : bytes -> option bytes) (szof : bytes -> option N),
    refines B Pin I Rel ->
    forall ops st s, wrap_rel cfg enc dec szof Rel st s ->
      Forall (wrap_P cfg enc dec szof Pin) (xrecords ops) -> s_next s + xputs ops < B ->
      st_run (wrap_ops I cfg enc dec szof) st ops = spec_xrun s ops.
Print Assumptions wrapper_history_refines_spec.

(* HuffmanBlobStore's frame (tag byte, original length as u64 LE for coded payloads, payload): for every coder that decodes
   what it encodes, trained or not, every record shorter than 2^64 bytes is framed losslessly and `size` reads its length *)
Theorem huffman_frame_lossless :
  forall (trained : bool) (hcode : bytes -> option bytes) (hdecode : bytes -> N -> option bytes),
    (forall d c, hcode d = Some c -> hdecode c (nlen d) = Some d) ->
    forall d, nlen d < W64 ->
      exists c, codec_ok huff_cfg (huff_enc trained hcode) (huff_dec trained hdecode) huff_szof d c.
Proof. exact huffman_frame_codec_ok. Qed.
Check huffman_frame_lossless :
  forall (trained : bool) (hcode : bytes -> option bytes) (hdecode : bytes -> N -> option bytes),
    (forall d c, hcode d = Some c -> hdecode c (nlen d) = Some d) ->
    forall d, nlen d < W64 ->
      exists c, codec_ok huff_cfg (huff_enc trained hcode) (huff_dec trained hdecode) huff_szof d c.
Print Assumptions huffman_frame_lossless.

(* ZstdBlobStore<MemoryBlobStore>, zstd a parameter *)
Theorem zstd_over_memory_history_refines_spec :
  forall (comp decomp : bytes -> option bytes),
    (forall d, exists c, comp d = Some c /\ decomp c = Some d) ->
    forall ops, 1 + xputs ops < W32 ->
      st_run (zstd_ops mem_ops comp decomp) mem_empty ops = spec_xrun spec_empty ops.
Proof. exact zstd_over_memory_history_proof. Qed.
Check zstd_over_memory_history_refines_spec :
  forall (comp decomp : bytes -> option bytes),
    (forall d, exists c, comp d = Some c /\ decomp c = Some d) ->
    forall ops, 1 + xputs ops < W32 ->
      st_run (zstd_ops mem_ops comp decomp) mem_empty ops = spec_xrun spec_empty ops.
Print Assumptions zstd_over_memory_history_refines_spec.

(* HuffmanBlobStore<MemoryBlobStore>, the coder a parameter *)
Theorem huffman_over_memory_history_refines_spec :
  forall (trained : bool) (hcode : bytes -> option bytes) (hdecode : bytes -> N -> option bytes),
    (forall d c, hcode d = Some c -> hdecode c (nlen d) = Some d) ->
    forall ops, Forall (fun d => nlen d < W64) (xrecords ops) -> 1 + xputs ops < W32 ->
      st_run (huff_ops trained hcode hdecode mem_ops) mem_empty ops = spec_xrun spec_empty ops.
Proof. exact huffman_over_memory_history_proof. Qed.
Check huffman_over_memory_history_refines_spec :
  forall (trained : bool) (hcode : bytes -> option bytes) (hdecode : bytes -> N -> option bytes),
    (forall d c, hcode d = Some c -> hdecode c (nlen d) = Some d) ->
    forall ops, Forall (fun d => nlen d < W64) (xrecords ops) -> 1 + xputs ops < W32 ->
      st_run (huff_ops trained hcode hdecode mem_ops) mem_empty ops = spec_xrun spec_empty ops.
Print Assumptions huffman_over_memory_history_refines_spec.

(* RansBlobStore / DictionaryBlobStore<MemoryBlobStore> (they pass every call through) *)
Theorem pass_over_memory_history_refines_spec :
  forall ops, 1 + xputs ops < W32 -> st_run (pass_ops mem_ops) mem_empty ops = spec_xrun spec_empty ops.
Proof. exact pass_over_memory_history_proof. Qed.
Check pass_over_memory_history_refines_spec :
  forall ops, 1 + xputs ops < W32 -> st_run (pass_ops mem_ops) mem_empty ops = spec_xrun spec_empty ops.
Print Assumptions pass_over_memory_history_refines_spec.

(* wrappers compose: HuffmanBlobStore<ZstdBlobStore<MemoryBlobStore>> *)
Theorem huffman_over_zstd_over_memory_history_refines_spec :
  forall (comp decomp : bytes -> option bytes) (trained : bool) (hcode : bytes -> option bytes) (hdecode : bytes -> N -> option bytes),
    (forall d, exists c, comp d = Some c /\ decomp c = Some d) ->
    (forall d c, hcode d = Some c -> hdecode c (nlen d) = Some d) ->
    forall ops, Forall (fun d => nlen d < W64) (xrecords ops) -> 1 + xputs ops < W32 ->
      st_run (huff_ops trained hcode hdecode (zstd_ops mem_ops comp decomp)) mem_empty ops = spec_xrun spec_empty ops.
Proof. exact huffman_over_zstd_over_memory_history_proof. Qed.
Check huffman_over_zstd_over_memory_history_refines_spec :
  forall (comp decomp : bytes -> option bytes) (trained : bool) (hcode : bytes -> option bytes) (hdecode : bytes -> N -> option bytes),
    (forall d, exists c, comp d = Some c /\ decomp c = Some d) ->
    (forall d c, hcode d = Some c -> hdecode c (nlen d) = Some d) ->
    forall ops, Forall (fun d => nlen d < W64) (xrecords ops) -> 1 + xputs ops < W32 ->
      st_run (huff_ops trained hcode hdecode (zstd_ops mem_ops comp decomp)) mem_empty ops = spec_xrun spec_empty ops.
Print Assumptions huffman_over_zstd_over_memory_history_refines_spec.

(* CachedBlobStore (blob_metadata id -> (offset, size), next_offset, three write strategies, cache on/off) over ANY inner
   store that satisfies the simulation and ANY page cache that never invents data (whatever it answers for a range was
   handed to it for exactly that range): whatever the cache holds, every operation is answered like the inner store *)
Theorem cached_refines_inner :
  forall (St PC : Type) (I : store_ops St)
         (pc_read : PC -> N -> N -> PC * option bytes) (pc_dirty : PC -> N -> bytes -> PC)
         (pc_inval : PC -> N -> N -> PC) (pc_fill : PC -> N -> bytes -> PC)
         (B : N) (P : bytes -> Prop) (Rel : St -> spec -> Prop),
    pc_lawful pc_read pc_dirty pc_inval pc_fill ->
    refines B P I Rel ->
    refines B P (cached_ops I pc_read pc_dirty pc_inval pc_fill) (cached_rel pc_read Rel).
Proof. exact cached_refines_proof. Qed.
Check cached_refines_inner :
  forall (St PC : Type) (I : store_ops St)
         (pc_read : PC -> N -> N -> PC * option bytes) (pc_dirty : PC -> N -> bytes -> PC)
         (pc_inval : PC -> N -> N -> PC) (pc_fill : PC -> N -> bytes -> PC)
         (B : N) (P : bytes -> Prop) (Rel : St -> spec -> Prop),
    pc_lawful pc_read pc_dirty pc_inval pc_fill ->
    refines B P I Rel ->
    refines B P (cached_ops I pc_read pc_dirty pc_inval pc_fill) (cached_rel pc_read Rel).
Print Assumptions cached_refines_inner.

(* a removed id is never served from the cache *)
Theorem cached_removed_not_served :
  forall (St PC : Type) (I : store_ops St)
         (pc_read : PC -> N -> N -> PC * option bytes) (pc_dirty : PC -> N -> bytes -> PC)
         (pc_inval : PC -> N -> N -> PC) (pc_fill : PC -> N -> bytes -> PC)
         (B : N) (P : bytes -> Prop) (Rel : St -> spec -> Prop),
    pc_lawful pc_read pc_dirty pc_inval pc_fill -> refines B P I Rel ->
    forall c s id, cached_rel pc_read Rel c s ->
      snd (cached_remove I pc_inval c id) = true ->
      snd (cached_get I pc_read pc_fill (fst (cached_remove I pc_inval c id)) id) = None.
Proof. exact cached_removed_not_served_proof. Qed.
Check cached_removed_not_served :
  forall (St PC : Type) (I : store_ops St)
         (pc_read : PC -> N -> N -> PC * option bytes) (pc_dirty : PC -> N -> bytes -> PC)
         (pc_inval : PC -> N -> N -> PC) (pc_fill : PC -> N -> bytes -> PC)
         (B : N) (P : bytes -> Prop) (Rel : St -> spec -> Prop),
    pc_lawful pc_read pc_dirty pc_inval pc_fill -> refines B P I Rel ->
    forall c s id, cached_rel pc_read Rel c s ->
      snd (cached_remove I pc_inval c id) = true ->
      snd (cached_get I pc_read pc_fill (fst (cached_remove I pc_inval c id)) id) = None.
Print Assumptions cached_removed_not_served.

(* CachedBlobStore<MemoryBlobStore>: every history, every lawful cache, strategy and on/off flag *)
Theorem cached_over_memory_history_refines_spec :
  forall (PC : Type) (pc_read : PC -> N -> N -> PC * option bytes) (pc_dirty : PC -> N -> bytes -> PC)
         (pc_inval : PC -> N -> N -> PC) (pc_fill : PC -> N -> bytes -> PC) (pc0 : PC) (strategy : N) (enabled : bool),
    pc_lawful pc_read pc_dirty pc_inval pc_fill ->
    (forall off n, snd (pc_read pc0 off n) = None) ->
    forall ops, 1 + xputs ops < W32 ->
      st_run (cached_ops mem_ops pc_read pc_dirty pc_inval pc_fill) (cached_new mem_empty pc0 strategy enabled) ops
      = spec_xrun spec_empty ops.
Proof. exact cached_over_memory_history_proof. Qed.
Check cached_over_memory_history_refines_spec :
  forall (PC : Type) (pc_read : PC -> N -> N -> PC * option bytes) (pc_dirty : PC -> N -> bytes -> PC)
         (pc_inval : PC -> N -> N -> PC) (pc_fill : PC -> N -> bytes -> PC) (pc0 : PC) (strategy : N) (enabled : bool),
    pc_lawful pc_read pc_dirty pc_inval pc_fill ->
    (forall off n, snd (pc_read pc0 off n) = None) ->
    forall ops, 1 + xputs ops < W32 ->
      st_run (cached_ops mem_ops pc_read pc_dirty pc_inval pc_fill) (cached_new mem_empty pc0 strategy enabled) ops
      = spec_xrun spec_empty ops.
Print Assumptions cached_over_memory_history_refines_spec.

(* the law is inhabited: by the cache of the code as it stands (a virtual file has no pages with data) and by a cache that
   really keeps what it is handed *)
Theorem cached_caches_lawful :
  pc_lawful nopc_read nopc_dirty nopc_inval nopc_fill /\ pc_lawful rpc_read rpc_dirty rpc_inval rpc_dirty.
Proof. exact (conj nopc_lawful_proof rpc_lawful_proof). Qed.
Check cached_caches_lawful :
  pc_lawful nopc_read nopc_dirty nopc_inval nopc_fill /\ pc_lawful rpc_read rpc_dirty rpc_inval rpc_dirty.
Print Assumptions cached_caches_lawful.

(* DictZipBlobStore bookkeeping (u64 id counter truncated to RecordId, storage map, decompression cache filled by get and
   purged by remove / remove_batch, len / contains / size from the storage map) over ANY PA-Zip compressor and entropy
   stage with the round-trip law, ANY ratio test and ANY LRU map that answers only with what was put and not removed *)
Theorem dictzip_refines_spec :
  forall (C : Type) (cfg : dzcfg) (pz_comp pz_decomp : bytes -> option bytes)
         (ent_enc : bytes -> option bytes) (ent_dec : bytes -> N -> option bytes) (ratio_ok : bytes -> bytes -> bool)
         (lru_get : C -> N -> option bytes) (lru_put : C -> N -> bytes -> C) (lru_remove : C -> N -> C),
    dz_codec_lawful pz_comp pz_decomp ent_enc ent_dec ->
    lru_lawful lru_get lru_put lru_remove ->
    refines W32 (dz_P cfg pz_comp ent_enc ratio_ok)
            (dz_ops cfg pz_comp pz_decomp ent_enc ent_dec ratio_ok lru_get lru_put lru_remove)
            (dz_rel pz_decomp ent_dec lru_get).
Proof. exact dictzip_refines_proof. Qed.
Check dictzip_refines_spec :
  forall (C : Type) (cfg : dzcfg) (pz_comp pz_decomp : bytes -> option bytes)
         (ent_enc : bytes -> option bytes) (ent_dec : bytes -> N -> option bytes) (ratio_ok : bytes -> bytes -> bool)
         (lru_get : C -> N -> option bytes) (lru_put : C -> N -> bytes -> C) (lru_remove : C -> N -> C),
    dz_codec_lawful pz_comp pz_decomp ent_enc ent_dec ->
    lru_lawful lru_get lru_put lru_remove ->
    refines W32 (dz_P cfg pz_comp ent_enc ratio_ok)
            (dz_ops cfg pz_comp pz_decomp ent_enc ent_dec ratio_ok lru_get lru_put lru_remove)
            (dz_rel pz_decomp ent_dec lru_get).
Print Assumptions dictzip_refines_spec.

(* every history of non-empty records from the empty store *)
Theorem dictzip_history_refines_spec :
  forall (C : Type) (cfg : dzcfg) (pz_comp pz_decomp : bytes -> option bytes)
         (ent_enc : bytes -> option bytes) (ent_dec : bytes -> N -> option bytes) (ratio_ok : bytes -> bytes -> bool)
         (lru_get : C -> N -> option bytes) (lru_put : C -> N -> bytes -> C) (lru_remove : C -> N -> C) (c0 : C),
    dz_codec_lawful pz_comp pz_decomp ent_enc ent_dec ->
    lru_lawful lru_get lru_put lru_remove ->
    (forall id, lru_get c0 id = None) ->
    forall ops, Forall (dz_P cfg pz_comp ent_enc ratio_ok) (xrecords ops) -> 1 + xputs ops < W32 ->
      st_run (dz_ops cfg pz_comp pz_decomp ent_enc ent_dec ratio_ok lru_get lru_put lru_remove) (dz_new c0) ops
      = spec_xrun spec_empty ops.
Proof. exact dictzip_history_proof. Qed.
Check dictzip_history_refines_spec :
  forall (C : Type) (cfg : dzcfg) (pz_comp pz_decomp : bytes -> option bytes)
         (ent_enc : bytes -> option bytes) (ent_dec : bytes -> N -> option bytes) (ratio_ok : bytes -> bytes -> bool)
         (lru_get : C -> N -> option bytes) (lru_put : C -> N -> bytes -> C) (lru_remove : C -> N -> C) (c0 : C),
    dz_codec_lawful pz_comp pz_decomp ent_enc ent_dec ->
    lru_lawful lru_get lru_put lru_remove ->
    (forall id, lru_get c0 id = None) ->
    forall ops, Forall (dz_P cfg pz_comp ent_enc ratio_ok) (xrecords ops) -> 1 + xputs ops < W32 ->
      st_run (dz_ops cfg pz_comp pz_decomp ent_enc ent_dec ratio_ok lru_get lru_put lru_remove) (dz_new c0) ops
      = spec_xrun spec_empty ops.
Print Assumptions dictzip_history_refines_spec.

(* after remove_batch (the loop over remove) none of the listed ids is answered — not from storage, not from the cache *)
Theorem dictzip_removed_not_served :
  forall (C : Type) (cfg : dzcfg) (pz_comp pz_decomp : bytes -> option bytes)
         (ent_enc : bytes -> option bytes) (ent_dec : bytes -> N -> option bytes) (ratio_ok : bytes -> bytes -> bool)
         (lru_get : C -> N -> option bytes) (lru_put : C -> N -> bytes -> C) (lru_remove : C -> N -> C),
    dz_codec_lawful pz_comp pz_decomp ent_enc ent_dec ->
    lru_lawful lru_get lru_put lru_remove ->
    forall st s ids id, dz_rel pz_decomp ent_dec lru_get st s -> In id ids ->
      let st' := fst (rm_loop (dz_remove lru_remove) st ids) in
      snd (dz_get pz_decomp ent_dec lru_get lru_put st' id) = None /\ lru_get (dz_cache st') id = None.
Proof. exact dictzip_removed_not_served_proof. Qed.
Check dictzip_removed_not_served :
  forall (C : Type) (cfg : dzcfg) (pz_comp pz_decomp : bytes -> option bytes)
         (ent_enc : bytes -> option bytes) (ent_dec : bytes -> N -> option bytes) (ratio_ok : bytes -> bytes -> bool)
         (lru_get : C -> N -> option bytes) (lru_put : C -> N -> bytes -> C) (lru_remove : C -> N -> C),
    dz_codec_lawful pz_comp pz_decomp ent_enc ent_dec ->
    lru_lawful lru_get lru_put lru_remove ->
    forall st s ids id, dz_rel pz_decomp ent_dec lru_get st s -> In id ids ->
      let st' := fst (rm_loop (dz_remove lru_remove) st ids) in
      snd (dz_get pz_decomp ent_dec lru_get lru_put st' id) = None /\ lru_get (dz_cache st') id = None.
Print Assumptions dictzip_removed_not_served.

(* the laws are inhabited: an LRU map that never evicts, and a toy compressor that really shortens records *)
Theorem dictzip_standins_lawful :
  lru_lawful alru_get alru_put alru_remove /\
  dz_codec_lawful toy_comp toy_decomp (fun c => Some (rev c)) (fun e _ => Some (rev e)).
Proof. exact (conj alru_lawful_proof toy_codec_lawful_proof). Qed.
Check dictzip_standins_lawful :
  lru_lawful alru_get alru_put alru_remove /\
  dz_codec_lawful toy_comp toy_decomp (fun c => Some (rev c)) (fun e _ => Some (rev e)).
Print Assumptions dictzip_standins_lawful.

(* recorded finding plain_id_wraparound: the id counter of PlainBlobStore wraps at 2^32 exactly like MemoryBlobStore's; a store
   opened on a directory that holds a file named 4294967294 overwrites live record 1 on its third put, and a file named
   4294967295 makes new() overflow (hence the bound `1 + pputs ops < W32` in the positive theorems) *)
Theorem plain_id_wraparound_refuted :
  (exists m st0, NoDup (dnames m) /\ canonical W32 m /\ plain_open m = Some st0 /\
    let '(st1, _) := plain_put st0 [7] in let '(st2, _) := plain_put st1 [8] in let '(st3, id3) := plain_put st2 [9] in
    id3 = Some 1 /\ snd (plain_get st0 1) = Some [1] /\ snd (plain_get st3 1) = Some [9]) /\
  plain_open [(render 4294967295, [])] = None.
Proof. exact (conj plain_wrap_overwrites plain_open_overflow). Qed.
Print Assumptions plain_id_wraparound_refuted.

(* every stack of stores the harness can describe (`skind`: Memory / Plain / DictZip at the bottom, any nesting of Zstd, Huffman
   framing, Rans/Dictionary pass-through and CachedBlobStore above it, codecs given as tables): the composed model `kops k`
   satisfies the simulation, by induction over the nesting *)
Theorem stack_refines_spec :
  forall k, no_zero k = true -> refines W32 (kP k) (kops k) (krel k).
Proof. exact stack_refines_proof. Qed.
Check stack_refines_spec : forall k, no_zero k = true -> refines W32 (kP k) (kops k) (krel k).
Print Assumptions stack_refines_spec.

(* hence every history on every such stack, on records every codec of the stack is lossless on, is answered like the
   property's machine — the statement the evaluated XHist cases are instances of *)
Theorem stack_history_refines_spec :
  forall k ops, no_zero k = true -> Forall (kP k) (xrecords ops) -> 1 + xputs ops < W32 ->
    st_run (kops k) (kinit k) ops = spec_xrun spec_empty ops.
Proof. exact stack_history_refines_proof. Qed.
Check stack_history_refines_spec :
  forall k ops, no_zero k = true -> Forall (kP k) (xrecords ops) -> 1 + xputs ops < W32 ->
    st_run (kops k) (kinit k) ops = spec_xrun spec_empty ops.
Print Assumptions stack_history_refines_spec.

(* ================================================================== *)
(* third extension: the batch builder and the trie store's builder      *)
(* ================================================================== *)

(* BatchZipOffsetBlobStoreBuilder: for EVERY batch size (0 and 1 included: flush after every record), every configuration and
   EVERY interleaving of add_record / flush_batch calls: no slice of the batch buffer is out of range, add_record #i answers i
   (as u32), and finish() gives exactly what ZipOffsetBlobStoreBuilder gives on the same records - its refusal included *)
Theorem batch_builder_equals_builder :
  forall comp c bs ops,
    batch_build comp c bs ops = Some (seq_ids (length (bop_recs ops)), zip_build comp c (bop_recs ops)).
Proof. exact batch_builder_equals_builder_proof. Qed.
Check batch_builder_equals_builder :
  forall comp c bs ops,
    batch_build comp c bs ops = Some (seq_ids (length (bop_recs ops)), zip_build comp c (bop_recs ops)).
Print Assumptions batch_builder_equals_builder.

(* hence get (batch-build records) i = nth records i, len = n, the id answered for record i is i, ids >= n are absent
   (same hypotheses as zip_get_record: lossless codec, finish succeeded, the content fits sample_width) *)
Theorem batch_get_record :
  forall comp decomp, (forall l d, decomp (comp l d) = Some d) ->
  forall c bs ops ids st i,
    batch_build comp c bs ops = Some (ids, Some st) ->
    nsum (map (fun d => nlen (stored comp c d)) (bop_recs ops)) < 2 ^ z_sw c ->
    (i < length (bop_recs ops))%nat ->
    zip_get decomp c st (N.of_nat i) = Some (nth i (bop_recs ops) []) /\ zip_len st = nlen (bop_recs ops)
    /\ nth i ids 0 = N.of_nat i mod W32.
Proof. exact batch_get_record_proof. Qed.
Check batch_get_record :
  forall comp decomp, (forall l d, decomp (comp l d) = Some d) ->
  forall c bs ops ids st i,
    batch_build comp c bs ops = Some (ids, Some st) ->
    nsum (map (fun d => nlen (stored comp c d)) (bop_recs ops)) < 2 ^ z_sw c ->
    (i < length (bop_recs ops))%nat ->
    zip_get decomp c st (N.of_nat i) = Some (nth i (bop_recs ops) []) /\ zip_len st = nlen (bop_recs ops)
    /\ nth i ids 0 = N.of_nat i mod W32.
Print Assumptions batch_get_record.

Theorem batch_absent :
  forall comp decomp, (forall l d, decomp (comp l d) = Some d) ->
  forall c bs ops ids st id,
    batch_build comp c bs ops = Some (ids, Some st) ->
    nsum (map (fun d => nlen (stored comp c d)) (bop_recs ops)) < 2 ^ z_sw c ->
    nlen (bop_recs ops) <= id ->
    zip_get decomp c st id = None /\ zip_contains st id = false.
Proof. exact batch_absent_proof. Qed.
Check batch_absent :
  forall comp decomp, (forall l d, decomp (comp l d) = Some d) ->
  forall c bs ops ids st id,
    batch_build comp c bs ops = Some (ids, Some st) ->
    nsum (map (fun d => nlen (stored comp c d)) (bop_recs ops)) < 2 ^ z_sw c ->
    nlen (bop_recs ops) <= id ->
    zip_get decomp c st id = None /\ zip_contains st id = false.
Print Assumptions batch_absent.

(* NestLoudsTrieBlobStoreBuilder::finish over ANY lawful trie (a key keeps its node, other keys are not disturbed, a new key gets
   a node no other key has), whether or not the preset sorts the entries (stable sort by key): every key reads back the value
   ADDED LAST under it, a key never added is absent, contains_key agrees *)
Theorem nltb_get_by_key :
  forall T tr_ok tr_empty tr_insert tr_lookup, trie_lawful T tr_ok tr_empty tr_insert tr_lookup ->
  forall batch_opt es s, nb_finish T tr_empty tr_insert batch_opt es = Some s ->
  forall k, nlt_get_by_key T tr_lookup s k = last_value es k /\
            nlt_contains_key T tr_lookup s k = is_some (last_value es k).
Proof. exact nltb_get_by_key_proof. Qed.
Check nltb_get_by_key :
  forall T tr_ok tr_empty tr_insert tr_lookup, trie_lawful T tr_ok tr_empty tr_insert tr_lookup ->
  forall batch_opt es s, nb_finish T tr_empty tr_insert batch_opt es = Some s ->
  forall k, nlt_get_by_key T tr_lookup s k = last_value es k /\
            nlt_contains_key T tr_lookup s k = is_some (last_value es k).
Print Assumptions nltb_get_by_key.

(* ... and by id: the insertion order is a permutation of the entries added (the sorted order when the preset sorts),
   get i = value of entry i in that order for i < n, len = n, ids >= n are absent (every entry is its own record, repeated keys too) *)
Theorem nltb_get_by_id :
  forall T tr_ok tr_empty tr_insert tr_lookup, trie_lawful T tr_ok tr_empty tr_insert tr_lookup ->
  forall batch_opt es s, nb_finish T tr_empty tr_insert batch_opt es = Some s -> nlen es < USIZE_MAX ->
    Permutation (nb_order batch_opt es) es /\ nlt_len T s = nlen es /\
    (forall i, (i < length es)%nat ->
       nlt_get T s (N.of_nat i) = Some (snd (nth i (nb_order batch_opt es) ([], []))) /\ nlt_contains T s (N.of_nat i) = true) /\
    (forall id, nlen es <= id -> nlt_get T s id = None /\ nlt_contains T s id = false).
Proof. exact nltb_get_by_id_proof. Qed.
Check nltb_get_by_id :
  forall T tr_ok tr_empty tr_insert tr_lookup, trie_lawful T tr_ok tr_empty tr_insert tr_lookup ->
  forall batch_opt es s, nb_finish T tr_empty tr_insert batch_opt es = Some s -> nlen es < USIZE_MAX ->
    Permutation (nb_order batch_opt es) es /\ nlt_len T s = nlen es /\
    (forall i, (i < length es)%nat ->
       nlt_get T s (N.of_nat i) = Some (snd (nth i (nb_order batch_opt es) ([], []))) /\ nlt_contains T s (N.of_nat i) = true) /\
    (forall id, nlen es <= id -> nlt_get T s id = None /\ nlt_contains T s id = false).
Print Assumptions nltb_get_by_id.

(* the stand-in trie of the evaluated XNltb cases obeys the law *)
Theorem nltb_standin_lawful : trie_lawful atrie atrie_ok [] atrie_insert atrie_lookup.
Proof. exact atrie_lawful_proof. Qed.
Check nltb_standin_lawful : trie_lawful atrie atrie_ok [] atrie_insert atrie_lookup.
Print Assumptions nltb_standin_lawful.

(* MemoryBlobStore::from_data as the start of a history: for every map (distinct ids, as a HashMap has them) on which from_data does
   not overflow and EVERY history that keeps the counter below 2^32, every observation equals the property's machine started with
   the records of the map live under their ids and the counter above every id; the id the next put returns is above every seeded id
   (the counter wrap beyond that bound is the recorded finding memory_id_wraparound) *)
Theorem mem_from_data_history_refines_spec :
  forall m st ops, NoDup (keys m) -> mem_from_data m = Some st ->
    s_next (spec_from_data m) + puts ops < W32 ->
    mem_run st ops = spec_run (spec_from_data m) ops.
Proof. exact mem_from_data_refines_proof. Qed.
Check mem_from_data_history_refines_spec :
  forall m st ops, NoDup (keys m) -> mem_from_data m = Some st ->
    s_next (spec_from_data m) + puts ops < W32 ->
    mem_run st ops = spec_run (spec_from_data m) ops.
Print Assumptions mem_from_data_history_refines_spec.

Theorem mem_from_data_ids_fresh :
  forall m st, NoDup (keys m) -> mem_from_data m = Some st ->
    forall id d, alookup id m = Some d -> id < mnext st.
Proof. exact mem_from_data_ids_fresh_proof. Qed.
Check mem_from_data_ids_fresh :
  forall m st, NoDup (keys m) -> mem_from_data m = Some st ->
    forall id d, alookup id m = Some d -> id < mnext st.
Print Assumptions mem_from_data_ids_fresh.

(* ZeroLengthBlobStore::finish(n) as the start of a history: every history in the store's domain (empty records, no removal of a
   live record) that keeps the count within 2^32 is answered like the property's machine in which ids 0..n-1 hold the empty record
   and the next id is n *)
Theorem zero_finish_history_refines_spec :
  forall n ops, zero_ok n ops -> n + xputs ops <= W32 ->
    st_run zero_ops (zero_finish n) ops = spec_xrun (spec_zero_finish n) ops.
Proof. exact zero_finish_history_proof. Qed.
Check zero_finish_history_refines_spec :
  forall n ops, zero_ok n ops -> n + xputs ops <= W32 ->
    st_run zero_ops (zero_finish n) ops = spec_xrun (spec_zero_finish n) ops.
Print Assumptions zero_finish_history_refines_spec.
