(* C03: DictZipBlobStore (bookkeeping over an abstract PA-Zip compressor, entropy stage and LRU cache) refines the
   property's state machine: for every lawful codec and every lawful cache, every history from the empty store is
   answered like the specification, ids are never reused, and a removed record is served neither from the storage map
   nor from the decompression cache. *)
From ZV.Common Require Import Base Run.
From ZV.C03 Require Import Model ProofsMem ModelStore ProofsStore ModelDictZip.
Open Scope N_scope.

(* ---------------- arithmetic of the id: u64 counter, `as u32` truncation ---------------- *)
Lemma dz_id_small n : n + 1 < W32 -> n mod W64 = n /\ (n mod W64) mod W32 = n.
Proof.
  intros H. unfold W32, W64 in *.
  assert (E : n mod 18446744073709551616 = n) by (apply N.mod_small; lia).
  rewrite E. split; [reflexivity|]. apply N.mod_small. lia.
Qed.

(* ---------------- spec-level: removed ids stay absent ---------------- *)
Lemma spec_remove_same_absent s id : s_live (spec_remove s id) id = None.
Proof.
  unfold spec_remove. cbn [spec_step]. destruct (s_live s id) eqn:E; cbn [fst s_live].
  - unfold upd. rewrite N.eqb_refl. reflexivity.
  - exact E.
Qed.
Lemma spec_remove_keeps_absent s id id' : s_live s id = None -> s_live (spec_remove s id') id = None.
Proof.
  intros H. unfold spec_remove. cbn [spec_step]. destruct (s_live s id') eqn:E; cbn [fst s_live]; [|exact H].
  unfold upd. destruct (id =? id'); [reflexivity|exact H].
Qed.
Lemma spec_rm_batch_keeps_absent ids : forall s id,
  s_live s id = None -> s_live (fst (spec_rm_batch s ids)) id = None.
Proof.
  induction ids as [|i t IH]; intros s id H; cbn [spec_rm_batch]; [exact H|].
  specialize (IH (spec_remove s i) id (spec_remove_keeps_absent s id i H)).
  destruct (spec_rm_batch (spec_remove s i) t) as [s2 n]. exact IH.
Qed.
Lemma spec_rm_batch_absent ids : forall s id,
  In id ids -> s_live (fst (spec_rm_batch s ids)) id = None.
Proof.
  induction ids as [|i t IH]; intros s id HI; [destruct HI|].
  cbn [spec_rm_batch].
  assert (H : s_live (fst (spec_rm_batch (spec_remove s i) t)) id = None).
  { destruct HI as [->|HI].
    - apply spec_rm_batch_keeps_absent. apply spec_remove_same_absent.
    - apply IH. exact HI. }
  destruct (spec_rm_batch (spec_remove s i) t) as [s2 n]. exact H.
Qed.

(* ---------------- the single-record clauses ---------------- *)
Section DZ.
  Context {C : Type}.
  Variable cfg : dzcfg.
  Variables pz_comp pz_decomp : bytes -> option bytes.
  Variable ent_enc : bytes -> option bytes.
  Variable ent_dec : bytes -> N -> option bytes.
  Variable ratio_ok : bytes -> bytes -> bool.
  Variable lru_get : C -> N -> option bytes.
  Variable lru_put : C -> N -> bytes -> C.
  Variable lru_remove : C -> N -> C.
  Hypothesis HC : dz_codec_lawful pz_comp pz_decomp ent_enc ent_dec.
  Hypothesis HL : lru_lawful lru_get lru_put lru_remove.

  Local Notation compress := (dz_compress cfg pz_comp ent_enc ratio_ok).
  Local Notation decode := (dz_decode pz_decomp ent_dec).
  Local Notation put := (dz_put cfg pz_comp ent_enc ratio_ok).
  Local Notation get := (dz_get pz_decomp ent_dec lru_get lru_put).
  Local Notation remove := (dz_remove lru_remove).
  Local Notation Rel := (dz_rel pz_decomp ent_dec lru_get).
  Local Notation P := (dz_P cfg pz_comp ent_enc ratio_ok).

  (* whatever put stores decodes to the record, and original_size is the record's length *)
  Lemma dz_compress_decode d b : compress d = Some b -> decode b = Some d /\ zb_orig b = nlen d.
  Proof.
    unfold dz_compress, dz_decode. intros H.
    destruct (nlen d <? dz_min cfg).
    { inversion H; subst b; cbn [zb_data zb_orig zb_comp zb_ent zb_ent_in]. split; reflexivity. }
    destruct (pz_comp d) as [dc|] eqn:Ep; [|discriminate].
    pose proof (dzl_pz _ _ _ _ HC d dc Ep) as Hpz.
    destruct (dz_entropy cfg).
    - destruct (ent_enc dc) as [e|] eqn:Ee; [|discriminate].
      pose proof (dzl_ent _ _ _ _ HC dc e Ee) as Hent.
      destruct (ratio_ok dc e).
      + destruct (nlen e <? nlen d); inversion H; subst b; cbn [zb_data zb_orig zb_comp zb_ent zb_ent_in].
        * rewrite Hent. split; [exact Hpz|reflexivity].
        * split; reflexivity.
      + destruct (nlen dc <? nlen d); inversion H; subst b; cbn [zb_data zb_orig zb_comp zb_ent zb_ent_in].
        * split; [exact Hpz|reflexivity].
        * split; reflexivity.
    - destruct (nlen dc <? nlen d); inversion H; subst b; cbn [zb_data zb_orig zb_comp zb_ent zb_ent_in].
      + split; [exact Hpz|reflexivity].
      + split; reflexivity.
  Qed.

  (* live ids are below the counter, so the counter is not a key of the storage map *)
  Lemma dz_rel_fresh st s : Rel st s -> alookup (s_next s) (dz_storage st) = None.
  Proof.
    intros (Hl & _ & _ & _ & Hb & _). specialize (Hl (s_next s)).
    destruct (alookup (s_next s) (dz_storage st)) as [b|]; [|reflexivity].
    destruct Hl as (d & H1 & _). apply Hb in H1. exfalso; lia.
  Qed.

  Lemma dz_put_clause st s d :
    Rel st s -> P d -> s_next s + 1 < W32 ->
    snd (put st d) = Some (s_next s) /\ Rel (fst (put st d)) (fst (spec_put s d)).
  Proof.
    intros HR [Hne Hcomp] Hw. pose proof (dz_rel_fresh st s HR) as Hfresh.
    destruct HR as (Hl & Hc & Hn & Hd & Hb & Hcoh).
    destruct (dz_id_small (s_next s) Hw) as [Hnx Hid].
    unfold dz_put. destruct d as [|x t]; [exfalso; apply Hne; reflexivity|].
    destruct (compress (x :: t)) as [b|] eqn:Eb; [|exfalso; apply Hcomp; reflexivity].
    destruct (dz_compress_decode _ _ Eb) as [Hdec Horig].
    cbv zeta. rewrite Hn, Hid, Hnx. cbn [fst snd]. split; [reflexivity|].
    unfold dz_rel, spec_put; cbn [fst dz_storage dz_cache dz_next s_live s_count s_next].
    split; [|split; [|split; [|split; [|split]]]].
    - intros id. unfold upd. destruct (N.eqb_spec id (s_next s)) as [->|Hne'].
      + rewrite alookup_ainsert_same. exists (x :: t). split; [reflexivity|split; assumption].
      + rewrite alookup_ainsert_other by assumption. apply Hl.
    - unfold ainsert. cbn [nlen]. rewrite nlen_aremove_absent by exact Hfresh. lia.
    - reflexivity.
    - apply (nodup_ainsert (s_next s) b (dz_storage st)). exact Hd.
    - intros id d0. unfold upd. destruct (N.eqb_spec id (s_next s)) as [->|Hne']; intros H.
      + lia.
      + apply Hb in H. lia.
    - intros id d0 Hg. apply Hcoh in Hg. unfold upd.
      destruct (N.eqb_spec id (s_next s)) as [->|Hne']; [|exact Hg].
      apply Hb in Hg. exfalso; lia.
  Qed.

  Lemma dz_get_clause st s id :
    Rel st s -> snd (get st id) = s_live s id /\ Rel (fst (get st id)) s.
  Proof.
    intros HR. pose proof HR as (Hl & Hc & Hn & Hd & Hb & Hcoh). unfold dz_get.
    destruct (lru_get (dz_cache st) id) as [d|] eqn:Eg.
    - cbn [fst snd]. split; [symmetry; apply Hcoh; exact Eg|exact HR].
    - pose proof (Hl id) as Hi. destruct (alookup id (dz_storage st)) as [b|] eqn:Ea.
      + destruct Hi as (d & H1 & H2 & H3). rewrite H2. cbn [fst snd]. split; [symmetry; exact H1|].
        unfold dz_rel; cbn [dz_storage dz_cache dz_next].
        split; [exact Hl|split; [exact Hc|split; [exact Hn|split; [exact Hd|split; [exact Hb|]]]]].
        intros id' d' Hg. apply (lrl_put _ _ _ HL) in Hg. destruct Hg as [[-> ->]|Hg]; [exact H1|].
        apply Hcoh. exact Hg.
      + cbn [fst snd]. split; [symmetry; exact Hi|exact HR].
  Qed.

  Lemma dz_remove_clause st s id :
    Rel st s -> snd (remove st id) = live_some s id /\ Rel (fst (remove st id)) (spec_remove s id).
  Proof using HL.
    intros HR. pose proof HR as (Hl & Hc & Hn & Hd & Hb & Hcoh).
    unfold dz_remove, live_some, spec_remove. cbn [spec_step].
    pose proof (Hl id) as Hi. destruct (alookup id (dz_storage st)) as [b|] eqn:Ea.
    - destruct Hi as (d & H1 & H2 & H3). rewrite H1. cbn [fst snd]. split; [reflexivity|].
      unfold dz_rel; cbn [dz_storage dz_cache dz_next s_live s_count s_next].
      split; [|split; [|split; [|split; [|split]]]].
      + intros id'. unfold upd. destruct (N.eqb_spec id' id) as [->|Hne].
        * rewrite alookup_aremove_same. reflexivity.
        * rewrite alookup_aremove_other by assumption. apply Hl.
      + pose proof (nlen_aremove_present id (dz_storage st) b Hd Ea) as Hp. clear - Hp Hc. lia.
      + exact Hn.
      + apply (nodup_aremove id (dz_storage st)). exact Hd.
      + intros id' d'. unfold upd. destruct (N.eqb_spec id' id); [discriminate|]. apply Hb.
      + intros id' d' Hg. unfold upd. destruct (N.eqb_spec id' id) as [->|Hne].
        * rewrite (lrl_remove_same _ _ _ HL) in Hg. discriminate.
        * apply (lrl_remove_other _ _ _ HL) in Hg. apply Hcoh. exact Hg.
    - rewrite Hi. cbn [fst snd]. split; [reflexivity|exact HR].
  Qed.

  Lemma dz_contains_clause st s id :
    Rel st s -> (match alookup id (dz_storage st) with Some _ => true | None => false end) = live_some s id.
  Proof.
    intros (Hl & _). unfold live_some. specialize (Hl id). destruct (alookup id (dz_storage st)) as [b|].
    - destruct Hl as (d & H1 & _). rewrite H1. reflexivity.
    - rewrite Hl. reflexivity.
  Qed.

  Lemma dz_size_clause st s id :
    Rel st s -> option_map zb_orig (alookup id (dz_storage st)) = option_map nlen (s_live s id).
  Proof.
    intros (Hl & _). specialize (Hl id). destruct (alookup id (dz_storage st)) as [b|].
    - destruct Hl as (d & H1 & _ & H3). rewrite H1. cbn [option_map]. rewrite H3. reflexivity.
    - rewrite Hl. reflexivity.
  Qed.

  Lemma dz_refines : refines W32 P (dz_ops cfg pz_comp pz_decomp ent_enc ent_dec ratio_ok lru_get lru_put lru_remove) Rel.
  Proof.
    constructor; cbn [dz_ops o_put o_batch o_remove o_rmbatch o_get o_getbatch o_contains o_size o_len].
    - exact dz_put_clause.
    - intros st s ds HR HP Hb. apply (put_loop_refines W32 P Rel _ dz_put_clause ds st s HR HP Hb).
    - exact dz_remove_clause.
    - intros st s ids HR. apply (rm_loop_refines Rel _ dz_remove_clause ids st s HR).
    - exact dz_get_clause.
    - intros st s ids HR. apply (get_loop_refines Rel _ dz_get_clause ids st s HR).
    - exact dz_contains_clause.
    - intros st s id HR. cbn [fst snd]. split; [apply dz_size_clause; exact HR|exact HR].
    - intros st s HR. apply HR.
  Qed.

  (* the empty store with an empty cache is related to the empty specification state *)
  Lemma dz_rel_new c0 : (forall id, lru_get c0 id = None) -> Rel (dz_new c0) spec_empty.
  Proof.
    intros H0. unfold dz_rel, dz_new, spec_empty; cbn [dz_storage dz_cache dz_next s_live s_count s_next alookup nlen map].
    split; [|split; [|split; [|split; [|split]]]].
    - intros id. reflexivity.
    - reflexivity.
    - reflexivity.
    - constructor.
    - intros id d H. discriminate.
    - intros id d H. rewrite H0 in H. discriminate.
  Qed.

  (* an id that is not live is answered neither from the storage map nor from the cache *)
  Lemma dz_absent_not_served st s id :
    Rel st s -> s_live s id = None -> snd (get st id) = None /\ lru_get (dz_cache st) id = None.
  Proof.
    intros HR Hn. split.
    - destruct (dz_get_clause st s id HR) as [H _]. rewrite H. exact Hn.
    - destruct HR as (_ & _ & _ & _ & _ & Hcoh).
      destruct (lru_get (dz_cache st) id) as [d|] eqn:E; [|reflexivity].
      apply Hcoh in E. rewrite E in Hn. discriminate.
  Qed.

  Lemma dz_rm_loop_rel st s ids :
    Rel st s -> Rel (fst (rm_loop remove st ids)) (fst (spec_rm_batch s ids)).
  Proof using HL. intros HR. apply (rm_loop_refines Rel _ dz_remove_clause ids st s HR). Qed.
End DZ.

(* ---------------- 1. the refinement ---------------- *)
Theorem dictzip_refines_proof :
  forall (C : Type) (cfg : dzcfg) (pz_comp pz_decomp : bytes -> option bytes)
         (ent_enc : bytes -> option bytes) (ent_dec : bytes -> N -> option bytes) (ratio_ok : bytes -> bytes -> bool)
         (lru_get : C -> N -> option bytes) (lru_put : C -> N -> bytes -> C) (lru_remove : C -> N -> C),
    dz_codec_lawful pz_comp pz_decomp ent_enc ent_dec ->
    lru_lawful lru_get lru_put lru_remove ->
    refines W32 (dz_P cfg pz_comp ent_enc ratio_ok)
            (dz_ops cfg pz_comp pz_decomp ent_enc ent_dec ratio_ok lru_get lru_put lru_remove)
            (dz_rel pz_decomp ent_dec lru_get).
Proof. intros. apply dz_refines; assumption. Qed.

(* ---------------- 2. the hypotheses are inhabited ---------------- *)
Theorem alru_lawful_proof : lru_lawful alru_get alru_put alru_remove.
Proof.
  unfold alru_get, alru_put, alru_remove. constructor.
  - intros c k v k' v' H. destruct (N.eq_dec k' k) as [->|Hne].
    + rewrite alookup_ainsert_same in H. inversion H. left. split; reflexivity.
    + rewrite alookup_ainsert_other in H by assumption. right. exact H.
  - intros c k. apply alookup_aremove_same.
  - intros c k k' v' H. destruct (N.eq_dec k' k) as [->|Hne].
    + rewrite alookup_aremove_same in H. discriminate.
    + rewrite alookup_aremove_other in H by assumption. exact H.
Qed.

Lemma firstn_run_len x t : forall k, (k <= run_len x t)%nat -> firstn k t = repeat x k.
Proof.
  induction t as [|y t IH]; intros k Hk; cbn [run_len] in Hk.
  - assert (k = O) by lia. subst k. reflexivity.
  - destruct k as [|k]; [reflexivity|].
    destruct (N.eqb_spec x y) as [->|Hne]; [|exfalso; lia].
    cbn [firstn repeat]. f_equal. apply IH. lia.
Qed.

Lemma toy_roundtrip d c : toy_comp d = Some c -> toy_decomp c = Some d.
Proof.
  unfold toy_comp. destruct d as [|x t]; intros H; inversion H; subst c; [reflexivity|].
  cbn [toy_decomp]. do 2 f_equal.
  rewrite <- (firstn_run_len x t (N.to_nat (N.min (N.of_nat (run_len x t)) 200))) by lia.
  apply firstn_skipn.
Qed.

Theorem toy_codec_lawful_proof : dz_codec_lawful toy_comp toy_decomp (fun c => Some (rev c)) (fun e _ => Some (rev e)).
Proof.
  constructor.
  - exact toy_roundtrip.
  - intros c e H. inversion H. rewrite rev_involutive. reflexivity.
Qed.

(* ---------------- 3. every history from the empty store ---------------- *)
Theorem dictzip_history_proof :
  forall (C : Type) (cfg : dzcfg) (pz_comp pz_decomp : bytes -> option bytes)
         (ent_enc : bytes -> option bytes) (ent_dec : bytes -> N -> option bytes) (ratio_ok : bytes -> bytes -> bool)
         (lru_get : C -> N -> option bytes) (lru_put : C -> N -> bytes -> C) (lru_remove : C -> N -> C) (c0 : C),
    dz_codec_lawful pz_comp pz_decomp ent_enc ent_dec ->
    lru_lawful lru_get lru_put lru_remove ->
    (forall id, lru_get c0 id = None) ->
    forall ops, Forall (dz_P cfg pz_comp ent_enc ratio_ok) (xrecords ops) -> 1 + xputs ops < W32 ->
      st_run (dz_ops cfg pz_comp pz_decomp ent_enc ent_dec ratio_ok lru_get lru_put lru_remove) (dz_new c0) ops
      = spec_xrun spec_empty ops.
Proof.
  intros C cfg pz_comp pz_decomp ent_enc ent_dec ratio_ok lru_get lru_put lru_remove c0 HC HL H0 ops HP Hb.
  apply (refines_run W32 (dz_P cfg pz_comp ent_enc ratio_ok) _ (dz_rel pz_decomp ent_dec lru_get)
           (dz_refines cfg pz_comp pz_decomp ent_enc ent_dec ratio_ok lru_get lru_put lru_remove HC HL)).
  - apply dz_rel_new. exact H0.
  - exact HP.
  - exact Hb.
Qed.

(* the cache is purged on remove and on remove_batch *)
Theorem dictzip_removed_not_served_proof :
  forall (C : Type) (cfg : dzcfg) (pz_comp pz_decomp : bytes -> option bytes)
         (ent_enc : bytes -> option bytes) (ent_dec : bytes -> N -> option bytes) (ratio_ok : bytes -> bytes -> bool)
         (lru_get : C -> N -> option bytes) (lru_put : C -> N -> bytes -> C) (lru_remove : C -> N -> C),
    dz_codec_lawful pz_comp pz_decomp ent_enc ent_dec ->
    lru_lawful lru_get lru_put lru_remove ->
    forall st s ids id, dz_rel pz_decomp ent_dec lru_get st s -> In id ids ->
      let st' := fst (rm_loop (dz_remove lru_remove) st ids) in
      snd (dz_get pz_decomp ent_dec lru_get lru_put st' id) = None /\ lru_get (dz_cache st') id = None.
Proof.
  intros C cfg pz_comp pz_decomp ent_enc ent_dec ratio_ok lru_get lru_put lru_remove HC HL st s ids id HR HI st'.
  apply (dz_absent_not_served pz_decomp ent_dec lru_get lru_put lru_remove HL st' (fst (spec_rm_batch s ids)) id).
  - apply (dz_rm_loop_rel pz_decomp ent_dec lru_get lru_put lru_remove HL). exact HR.
  - apply spec_rm_batch_absent. exact HI.
Qed.

(* ---------------- 4. the model evaluated ---------------- *)
Definition dz_toy_ops : store_ops (dz (list (N * bytes))) :=
  dz_ops {| dz_min := 4; dz_entropy := true |} toy_comp toy_decomp (fun c => Some (rev c)) (fun e _ => Some (rev e))
         (fun _ _ => true) alru_get alru_put alru_remove.

(* put (dictionary + entropy stage), put below the threshold, the refused empty put, a query answered from storage, the
   same query answered from the cache, remove_batch, the removed id is gone (also from the cache), get_batch, len *)
Example dictzip_nontrivial :
  st_run dz_toy_ops (dz_new [])
    [XO (MPut [9;9;9;9;9;9;1]); XO (MPut [1;2]); XO (MPut []); XO (MQuery 1); XO (MQuery 1); XRmBatch [1;7];
     XO (MQuery 1); XGetBatch [1;2]; XO MLen]
  = [[1]; [2]; []; [1; 7; 9; 9; 9; 9; 9; 9; 1]; [1; 7; 9; 9; 9; 9; 9; 9; 1]; [1]; [0]; [0; 1; 2; 1; 2]; [1]]
  /\ (* the first record is stored compressed, with the entropy stage applied to the 3-byte dictionary-stage output *)
  alookup 1 (dz_storage (st_exec dz_toy_ops (dz_new []) [XO (MPut [9;9;9;9;9;9;1])]))
  = Some {| zb_data := [1; 5; 9]; zb_orig := 7; zb_comp := true; zb_ent := true; zb_ent_in := 3 |}
  /\ (* the second is stored raw *)
  option_map zb_comp (alookup 2 (dz_storage (st_exec dz_toy_ops (dz_new []) [XO (MPut [9;9;9;9;9;9;1]); XO (MPut [1;2])])))
  = Some false
  /\ (* the first query fills the cache, so the second one is a cache hit *)
  dz_cache (st_exec dz_toy_ops (dz_new []) [XO (MPut [9;9;9;9;9;9;1]); XO (MPut [1;2]); XO (MPut []); XO (MQuery 1)])
  = [(1, [9; 9; 9; 9; 9; 9; 1])]
  /\ (* remove_batch purges it *)
  dz_cache (st_exec dz_toy_ops (dz_new [])
              [XO (MPut [9;9;9;9;9;9;1]); XO (MPut [1;2]); XO (MPut []); XO (MQuery 1); XO (MQuery 1); XRmBatch [1;7]])
  = [].
Proof. vm_compute. repeat split; reflexivity. Qed.

(* without the refused put the history is one of dictzip_history_proof, and the run is the specification's *)
Definition dz_toy_history : list xop :=
  [XO (MPut [9;9;9;9;9;9;1]); XO (MPut [1;2]); XO (MBatch [[5;5;5;5;5]; [7]]); XO (MQuery 1); XO (MQuery 1);
   XRmBatch [1;7]; XO (MQuery 1); XGetBatch [1;2;3]; XO (MRemove 2); XO (MQuery 4); XO MLen].
Example dictzip_history_nontrivial :
  st_run dz_toy_ops (dz_new []) dz_toy_history = spec_xrun spec_empty dz_toy_history
  /\ st_run dz_toy_ops (dz_new []) dz_toy_history
     = [[1]; [2]; [3; 4]; [1; 7; 9; 9; 9; 9; 9; 9; 1]; [1; 7; 9; 9; 9; 9; 9; 9; 1]; [1]; [0];
        [0; 1; 2; 1; 2; 1; 5; 5; 5; 5; 5; 5]; [1]; [1; 1; 7]; [2]]
  /\ Forall (dz_P {| dz_min := 4; dz_entropy := true |} toy_comp (fun c => Some (rev c)) (fun _ _ => true))
            (xrecords dz_toy_history)
  /\ 1 + xputs dz_toy_history < W32.
Proof.
  split; [vm_compute; reflexivity|]. split; [vm_compute; reflexivity|]. split.
  - unfold dz_toy_history; cbn [xrecords app].
    repeat constructor; try discriminate; vm_compute; discriminate.
  - vm_compute. reflexivity.
Qed.
