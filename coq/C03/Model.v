(* C03 — blob stores.  Definitions only (mechanism models M and spec layer S).

   Modelled code (zipora, after the fix: commits listed in findings/C03.txt):
     src/blob_store/memory.rs            MemoryBlobStore  new / from_data / put / put_batch / remove / get / contains / size / len
     src/blob_store/zip_offset_builder.rs ZipOffsetBlobStoreBuilder  add_record / calculate_checksum / finish
     src/blob_store/sorted_uint_vec.rs   SortedUintVecBuilder::compress_values, SortedUintVec::get / get2 (value level),
                                         store_bits / to_bytes (bit level, for the file image)
     src/blob_store/zip_offset.rs        get_record_impl, contains, size, len, FileHeader::to_bytes, save_to_writer
     src/blob_store/mixed_len.rs         build_from_with_fixed_len, get, size
     src/blob_store/simple_zip.rs        fragment_record, build_strpool, build_from, get_record_append_imp
     src/blob_store/zero_length.rs       put / get / finish
   Machine integers are N; byte strings are list N.  zstd is a Section variable (opaque codec). *)
From ZV.Common Require Import Base Run.
Open Scope N_scope.

Definition bytes := list N.

(* ------------------------------------------------------------------ *)
(* generic list helpers                                                 *)
(* ------------------------------------------------------------------ *)
Fixpoint eqb_bytes (a b : bytes) : bool :=
  match a, b with
  | [], [] => true
  | x :: a', y :: b' => N.eqb x y && eqb_bytes a' b'
  | _, _ => false
  end.
Fixpoint eqb_lln (a b : list (list N)) : bool :=
  match a, b with
  | [], [] => true
  | x :: a', y :: b' => eqb_ln x y && eqb_lln a' b'
  | _, _ => false
  end.
Definition slice {A} (l : list A) (off len : nat) : list A := firstn len (skipn off l).
Definition nthN {A} (l : list A) (i : N) (d : A) : A := nth (N.to_nat i) l d.

(* ------------------------------------------------------------------ *)
(* association lists: the abstraction of HashMap<RecordId, Vec<u8>>     *)
(* ------------------------------------------------------------------ *)
Fixpoint alookup {V} (k : N) (m : list (N * V)) : option V :=
  match m with
  | [] => None
  | (k', v) :: t => if N.eqb k k' then Some v else alookup k t
  end.
Fixpoint aremove {V} (k : N) (m : list (N * V)) : list (N * V) :=
  match m with
  | [] => []
  | (k', v) :: t => if N.eqb k k' then aremove k t else (k', v) :: aremove k t
  end.
Definition ainsert {V} (k : N) (v : V) (m : list (N * V)) : list (N * V) := (k, v) :: aremove k m.

(* ================================================================== *)
(* S: the property's own state machine                                  *)
(* ================================================================== *)
(* live records as a function, the number of live records, and a counter that only grows *)
Record spec := { s_live : N -> option bytes; s_count : N; s_next : N }.
Definition spec_empty : spec := {| s_live := fun _ => None; s_count := 0; s_next := 1 |}.
Definition upd (f : N -> option bytes) (k : N) (v : option bytes) : N -> option bytes :=
  fun x => if N.eqb x k then v else f x.

Inductive mop :=
| MPut (d : bytes)
| MBatch (ds : list bytes)
| MRemove (id : N)
| MQuery (id : N)          (* get + contains + size in one observation *)
| MLen.

Definition obs_query (r : option bytes) : list N :=
  match r with Some d => 1 :: nlen d :: d | None => [0] end.

Definition spec_put (s : spec) (d : bytes) : spec * N :=
  ({| s_live := upd (s_live s) (s_next s) (Some d); s_count := s_count s + 1; s_next := s_next s + 1 |}, s_next s).
Fixpoint spec_put_batch (s : spec) (ds : list bytes) : spec * list N :=
  match ds with
  | [] => (s, [])
  | d :: t => let '(s1, id) := spec_put s d in let '(s2, ids) := spec_put_batch s1 t in (s2, id :: ids)
  end.
Definition spec_step (s : spec) (o : mop) : spec * list N :=
  match o with
  | MPut d => let '(s', id) := spec_put s d in (s', [id])
  | MBatch ds => spec_put_batch s ds
  | MRemove id =>
      match s_live s id with
      | Some _ => ({| s_live := upd (s_live s) id None; s_count := s_count s - 1; s_next := s_next s |}, [1])
      | None => (s, [0])
      end
  | MQuery id => (s, obs_query (s_live s id))
  | MLen => (s, [s_count s])
  end.
Fixpoint spec_run (s : spec) (ops : list mop) : list (list N) :=
  match ops with
  | [] => []
  | o :: t => let '(s', r) := spec_step s o in r :: spec_run s' t
  end.

(* number of ids a history hands out *)
Fixpoint puts (ops : list mop) : N :=
  match ops with
  | [] => 0
  | MPut _ :: t => 1 + puts t
  | MBatch ds :: t => nlen ds + puts t
  | _ :: t => puts t
  end.

(* ================================================================== *)
(* M1: MemoryBlobStore                                                  *)
(* ================================================================== *)
Record mem := { mdata : list (N * bytes); mnext : N }.
Definition mem_empty : mem := {| mdata := []; mnext := 1 |}.

(* next_record_id: AtomicU32::fetch_add(1) — wraps at 2^32 *)
Definition mem_put (s : mem) (d : bytes) : mem * N :=
  ({| mdata := ainsert (mnext s) d (mdata s); mnext := (mnext s + 1) mod W32 |}, mnext s).
Fixpoint mem_put_batch (s : mem) (ds : list bytes) : mem * list N :=
  match ds with
  | [] => (s, [])
  | d :: t => let '(s1, id) := mem_put s d in let '(s2, ids) := mem_put_batch s1 t in (s2, id :: ids)
  end.
Definition mem_get (s : mem) (id : N) : option bytes := alookup id (mdata s).
Definition mem_len (s : mem) : N := nlen (mdata s).
Definition mem_step (s : mem) (o : mop) : mem * list N :=
  match o with
  | MPut d => let '(s', id) := mem_put s d in (s', [id])
  | MBatch ds => mem_put_batch s ds
  | MRemove id =>
      match alookup id (mdata s) with
      | Some _ => ({| mdata := aremove id (mdata s); mnext := mnext s |}, [1])
      | None => (s, [0])
      end
  | MQuery id => (s, obs_query (mem_get s id))
  | MLen => (s, [mem_len s])
  end.
Fixpoint mem_run (s : mem) (ops : list mop) : list (list N) :=
  match ops with
  | [] => []
  | o :: t => let '(s', r) := mem_step s o in r :: mem_run s' t
  end.

Fixpoint mem_exec (s : mem) (ops : list mop) : mem :=
  match ops with
  | [] => s
  | o :: t => mem_exec (fst (mem_step s o)) t
  end.

(* from_data: next_id = max key + 1 (a checked addition in the baseline profile: None = panic) *)
Fixpoint max_key {V} (m : list (N * V)) : N :=
  match m with [] => 0 | (k, _) :: t => N.max k (max_key t) end.
Definition mem_from_data (m : list (N * bytes)) : option mem :=
  let data := fold_left (fun acc kv => ainsert (fst kv) (snd kv) acc) m [] in
  match m with
  | [] => Some {| mdata := data; mnext := 1 |}
  | _ => if max_key m + 1 <? W32 then Some {| mdata := data; mnext := max_key m + 1 |} else None
  end.

(* ================================================================== *)
(* M2: offset-indexed store (ZipOffsetBlobStore + builder)              *)
(* ================================================================== *)
Record zcfg := { z_cl : N;      (* compress_level *)
                 z_ck : N;      (* checksum_level *)
                 z_log2 : N;    (* offset_config.log2_block_units *)
                 z_ow : N;      (* offset_config.offset_width *)
                 z_sw : N;      (* offset_config.sample_width *)
                 z_simd : N }.  (* offset_config.use_simd, only written into the image *)
Definition blk (c : zcfg) : N := 2 ^ z_log2 c.
Definition has_ck (c : zcfg) : bool := (z_ck c =? 2) || (z_ck c =? 3).

(* little-endian rendering of x in n bytes *)
Fixpoint le_bytes (n : nat) (x : N) : bytes :=
  match n with O => [] | S n' => (x mod 256) :: le_bytes n' (x / 256) end.
Fixpoint le_value (b : bytes) : N :=
  match b with [] => 0 | x :: t => x + 256 * le_value t end.

(* calculate_checksum / calculate_crc32c: wrapping byte sum *)
Definition checksum (d : bytes) : N := fold_left (fun a b => (a + b) mod W32) d 0.

(* --- SortedUintVec, value level ------------------------------------ *)
Record suv := { v_samples : list N; v_deltas : list N; v_size : N }.
Definition suv_empty : suv := {| v_samples := []; v_deltas := []; v_size := 0 |}.
Definition num_blocks (c : zcfg) (n : N) : N := (n + (blk c - 1)) / blk c.
(* compress_values: per block the first value is the sample (stored masked to sample_width bits),
   every value is stored as its distance to the sample and must fit offset_width bits *)
Definition block_min (c : zcfg) (vals : list N) (i : N) : N := nthN vals ((i / blk c) * blk c) 0.
Definition suv_build (c : zcfg) (vals : list N) : option suv :=
  match vals with
  | [] => Some suv_empty
  | _ =>
    let n := nlen vals in
    let idx := map N.of_nat (seq 0 (length vals)) in
    if forallb (fun i => nthN vals i 0 - block_min c vals i <? 2 ^ z_ow c) idx then
      Some {| v_samples := map (fun b => (nthN vals (b * blk c) 0) mod 2 ^ z_sw c)
                               (map N.of_nat (seq 0 (N.to_nat (num_blocks c n))));
              v_deltas := map (fun i => nthN vals i 0 - block_min c vals i) idx;
              v_size := n |}
    else None
  end.
Definition suv_get_unchecked (c : zcfg) (s : suv) (i : N) : N :=
  nthN (v_samples s) (i / blk c) 0 + nthN (v_deltas s) i 0.
Definition suv_get2 (c : zcfg) (s : suv) (i : N) : option (N * N) :=
  if i + 1 <? v_size s then Some (suv_get_unchecked c s i, suv_get_unchecked c s (i + 1)) else None.

(* --- SortedUintVec, bit level (store_bits into a growing zeroed byte vector; to_bytes) --- *)
(* store_bits over consecutive w-bit fields: field i lands at bit i*w; the shifted value is a u64
   (bits shifted past bit 63 are lost); the byte vector grows to ceil((i+1)*w/8) bytes.
   acc holds the bits of the current, not yet complete byte (nb < 8 of them). *)
Fixpoint pack_stream (w : N) (vs : list N) (acc nb : N) : bytes :=
  match vs with
  | [] => if nb =? 0 then [] else [acc mod 256]
  | v :: t =>
    let acc1 := acc + ((v mod 2 ^ w) * 2 ^ nb) mod W64 in
    let nb1 := nb + w in
    let k := nb1 / 8 in
    le_bytes (N.to_nat k) acc1 ++ pack_stream w t (acc1 / 2 ^ (8 * k)) (nb1 mod 8)
  end.
Definition pack_bytes (w : N) (vs : list N) : bytes := pack_stream w vs 0 0.
(* extract_bits_portable *)
Definition extract_bits (data : bytes) (bit_offset w : N) : N :=
  let byte_off := bit_offset / 8 in
  let shift := bit_offset mod 8 in
  let nread := N.min ((shift + w + 7) / 8) 8 in
  let v := le_value (slice data (N.to_nat byte_off) (N.to_nat nread)) in
  (v / 2 ^ shift) mod 2 ^ w.
Definition suv_image (c : zcfg) (s : suv) : bytes :=
  let index := pack_bytes (z_sw c) (v_samples s) in
  let data := pack_bytes (z_ow c) (v_deltas s) in
  le_bytes 8 (v_size s) ++ [z_log2 c; z_ow c; z_sw c; z_simd c; 0; 0; 0; 0]
  ++ le_bytes 8 (nlen index) ++ le_bytes 8 (nlen data) ++ index ++ data.
(* get through the packed representation (what the code executes), for indices 0..n-1 *)
Definition suv_bits_agree (c : zcfg) (s : suv) (n : nat) : bool :=
  let ib := pack_bytes (z_sw c) (v_samples s) in
  let db := pack_bytes (z_ow c) (v_deltas s) in
  forallb (fun i => extract_bits ib ((N.of_nat i / blk c) * z_sw c) (z_sw c)
                    + extract_bits db (N.of_nat i * z_ow c) (z_ow c)
                    =? suv_get_unchecked c s (N.of_nat i)) (seq 0 n).

Section Codec.
  (* zstd::encode_all(data, level) / zstd::decode_all *)
  Variable comp : N -> bytes -> bytes.
  Variable decomp : bytes -> option bytes.

  Record zbuilder := { b_content : bytes; b_offs : list N; b_cur : N; b_unzip : N }.
  Definition zb_empty : zbuilder := {| b_content := []; b_offs := []; b_cur := 0; b_unzip := 0 |}.
  Definition stored (c : zcfg) (d : bytes) : bytes :=
    let p := if z_cl c =? 0 then d else comp (z_cl c) d in
    if has_ck c then p ++ le_bytes 4 (checksum p) else p.
  Definition zb_add (c : zcfg) (b : zbuilder) (d : bytes) : zbuilder :=
    let p := stored c d in
    {| b_content := b_content b ++ p; b_offs := b_offs b ++ [b_cur b];
       b_cur := b_cur b + nlen p; b_unzip := b_unzip b + nlen d |}.
  Definition zb_add_all (c : zcfg) (ds : list bytes) : zbuilder := fold_left (zb_add c) ds zb_empty.

  Record zstore := { st_content : bytes; st_offsets : suv; st_unzip : N }.
  Definition zb_finish (c : zcfg) (b : zbuilder) : option zstore :=
    match suv_build c (b_offs b ++ [b_cur b]) with
    | Some s => Some {| st_content := b_content b; st_offsets := s; st_unzip := b_unzip b |}
    | None => None
    end.
  Definition zip_build (c : zcfg) (ds : list bytes) : option zstore := zb_finish c (zb_add_all c ds).

  Definition zip_len (st : zstore) : N := v_size (st_offsets st) - 1.
  Definition zip_contains (st : zstore) (id : N) : bool := id <? zip_len st.
  (* get_record_impl<COMPRESS, CHECKSUM_LEN> *)
  Definition zip_get (c : zcfg) (st : zstore) (id : N) : option bytes :=
    if id <? zip_len st then
      match suv_get2 c (st_offsets st) id with
      | None => None
      | Some (s, e) =>
        if (e <? s) || (nlen (st_content st) <? e) then None else
        let rec := slice (st_content st) (N.to_nat s) (N.to_nat (e - s)) in
        let body :=
          if has_ck c then
            if nlen rec <? 4 then None else
            let n := (length rec - 4)%nat in
            if eqb_bytes (le_bytes 4 (checksum (firstn n rec))) (skipn n rec) then Some (firstn n rec) else None
          else Some rec in
        match body with
        | None => None
        | Some p => if z_cl c =? 0 then Some p else decomp p
        end
      end
    else None.
  Definition zip_size (c : zcfg) (st : zstore) (id : N) : option N :=
    match zip_get c st id with Some d => Some (nlen d) | None => None end.

  (* FileHeader::to_bytes + save_to_writer *)
  Definition magic : bytes := [122;105;112;111;114;97;45;98;108;111;98;45;115;116;111;114;101;0;0;0].
  Definition class_name : bytes := [90;105;112;79;102;102;115;101;116;66;108;111;98;83;116;111;114;101;0;0].
  Definition zip_image (c : zcfg) (st : zstore) : bytes :=
    let content := st_content st in
    let cb := nlen content in
    let pad := (16 - cb mod 16) mod 16 in
    let oimg := suv_image c (st_offsets st) in
    let ob := nlen oimg in
    let file_size := 128 + cb + pad + ob + 64 in
    let rcv := (zip_len st) mod 2 ^ 40 + z_ck c * 2 ^ 40 + 1 * 2 ^ 48 in
    magic ++ class_name ++ le_bytes 8 file_size ++ le_bytes 8 (st_unzip st) ++ le_bytes 8 rcv
    ++ le_bytes 8 cb ++ le_bytes 8 ob ++ [z_log2 c; z_ck c; z_cl c] ++ repeat 0 45
    ++ content ++ repeat 0 (N.to_nat pad) ++ oimg ++ repeat 0 64.
End Codec.

(* ================================================================== *)
(* M3: MixedLenBlobStore                                                *)
(* ================================================================== *)
Record mixed := { x_fl : N; x_bits : list bool; x_fixed : bytes; x_var : bytes; x_voffs : list N; x_n : N }.
Fixpoint mixed_build_go (fl : N) (recs : list bytes) (bits : list bool) (fx vr : bytes) (vo : list N) : mixed :=
  match recs with
  | [] => {| x_fl := fl; x_bits := bits; x_fixed := fx; x_var := vr; x_voffs := vo; x_n := nlen bits |}
  | r :: t =>
    if nlen r =? fl then mixed_build_go fl t (bits ++ [true]) (fx ++ r) vr vo
    else mixed_build_go fl t (bits ++ [false]) fx (vr ++ r) (vo ++ [nlen (vr ++ r)])
  end.
Definition mixed_build (fl : N) (recs : list bytes) : mixed := mixed_build_go fl recs [] [] [] [0].
(* rank of the bitmap: what RankSelectInterleaved256::rank1/rank0 must return (C04) *)
Fixpoint rank1 (bits : list bool) (i : nat) : N :=
  match i, bits with
  | O, _ => 0
  | S i', b :: t => (if b then 1 else 0) + rank1 t i'
  | S _, [] => 0
  end.
Definition rank0 (bits : list bool) (i : nat) : N := N.of_nat (Nat.min i (length bits)) - rank1 bits i.
Definition mixed_get (m : mixed) (id : N) : option bytes :=
  if id <? x_n m then
    if nth (N.to_nat id) (x_bits m) false then
      let k := rank1 (x_bits m) (N.to_nat id) in
      let off := k * x_fl m in
      if nlen (x_fixed m) <? off + x_fl m then None
      else Some (slice (x_fixed m) (N.to_nat off) (N.to_nat (x_fl m)))
    else
      let k := rank0 (x_bits m) (N.to_nat id) in
      let b := nthN (x_voffs m) k 0 in
      let e := nthN (x_voffs m) (k + 1) 0 in
      if nlen (x_var m) <? e then None
      else Some (slice (x_var m) (N.to_nat b) (N.to_nat (e - b)))
  else None.
Definition mixed_fixed_count (m : mixed) : N :=
  if x_fl m =? 0 then rank1 (x_bits m) (length (x_bits m)) else nlen (x_fixed m) / x_fl m.

(* ================================================================== *)
(* M4: SimpleZipBlobStore                                               *)
(* ================================================================== *)
Record szcfg := { q_min : N; q_max : N; q_delims : list N }.
Definition is_delim (c : szcfg) (b : N) : bool := existsb (N.eqb b) (q_delims c).
(* first delimiter position in rec[lo..hi), as the loop `for i in min_end..max_end` *)
Fixpoint find_delim (c : szcfg) (rest : bytes) (pos : N) : option N :=
  match rest with
  | [] => None
  | b :: t => if is_delim c b then Some pos else find_delim c t (pos + 1)
  end.
Definition next_frag_end (c : szcfg) (rec : bytes) (pos : N) : N :=
  let len := nlen rec in
  let max_end := N.min (pos + q_max c) len in
  let min_end := N.min (pos + q_min c) len in
  match find_delim c (slice rec (N.to_nat min_end) (N.to_nat (max_end - min_end))) min_end with
  | Some i => i + 1
  | None => max_end
  end.
Fixpoint fragment_go (fuel : nat) (c : szcfg) (rec : bytes) (pos : N) : list bytes :=
  match fuel with
  | O => []
  | S f =>
    if pos <? nlen rec then
      let e := next_frag_end c rec pos in
      slice rec (N.to_nat pos) (N.to_nat (e - pos)) :: fragment_go f c rec e
    else []
  end.
Definition fragment (c : szcfg) (rec : bytes) : list bytes := fragment_go (length rec) c rec 0.

(* build_strpool: a fragment seen before reuses its first offset *)
Fixpoint pool_find (m : list (bytes * N)) (f : bytes) : option N :=
  match m with
  | [] => None
  | (g, off) :: t => if eqb_bytes f g then Some off else pool_find t f
  end.
Record szpool := { p_pool : bytes; p_map : list (bytes * N); p_offs : list N; p_lens : list N }.
Definition pool_add (p : szpool) (f : bytes) : szpool :=
  match pool_find (p_map p) f with
  | Some off => {| p_pool := p_pool p; p_map := p_map p; p_offs := p_offs p ++ [off]; p_lens := p_lens p ++ [nlen f] |}
  | None => {| p_pool := p_pool p ++ f; p_map := (f, nlen (p_pool p)) :: p_map p;
               p_offs := p_offs p ++ [nlen (p_pool p)]; p_lens := p_lens p ++ [nlen f] |}
  end.
Definition pool_empty : szpool := {| p_pool := []; p_map := []; p_offs := []; p_lens := [] |}.
Record simplezip := { sz_pool : szpool; sz_bounds : list N; sz_n : N }.
Fixpoint sz_build_go (c : szcfg) (recs : list bytes) (p : szpool) (bounds : list N) : simplezip :=
  match recs with
  | [] => {| sz_pool := p; sz_bounds := bounds; sz_n := nlen bounds - 1 |}
  | r :: t => let p' := fold_left pool_add (fragment c r) p in
              sz_build_go c t p' (bounds ++ [nlen (p_offs p')])
  end.
Definition sz_build (c : szcfg) (recs : list bytes) : simplezip :=
  match recs with
  | [] => {| sz_pool := pool_empty; sz_bounds := []; sz_n := 0 |}
  | _ => sz_build_go c recs pool_empty [0]
  end.
Fixpoint sz_collect (p : szpool) (i : nat) (count : nat) : option bytes :=
  match count with
  | O => Some []
  | S k =>
    let off := nth i (p_offs p) 0 in
    let len := nth i (p_lens p) 0 in
    if nlen (p_pool p) <? off + len then None else
    match sz_collect p (S i) k with
    | Some rest => Some (slice (p_pool p) (N.to_nat off) (N.to_nat len) ++ rest)
    | None => None
    end
  end.
Definition sz_get (z : simplezip) (id : N) : option bytes :=
  if id <? sz_n z then
    let b := nthN (sz_bounds z) id 0 in
    let e := nthN (sz_bounds z) (id + 1) 0 in
    sz_collect (sz_pool z) (N.to_nat b) (N.to_nat (e - b))
  else None.

(* ================================================================== *)
(* M5: ZeroLengthBlobStore                                              *)
(* ================================================================== *)
Definition zero_put (n : N) (d : bytes) : option (N * N) :=      (* (new count, id) *)
  match d with [] => Some (n + 1, n) | _ => None end.
Definition zero_get (n id : N) : option bytes := if id <? n then Some [] else None.

(* ================================================================== *)
(* cases written by the harness                                         *)
(* ================================================================== *)
Definition obs_opt (r : option bytes) : list N := obs_query r.
Definition id_codec_c (_ : N) (d : bytes) : bytes := d.
Definition id_codec_d (d : bytes) : option bytes := Some d.

Inductive case :=
| CMem (ops : list mop) (expect : list (list N))
| CZip (c : zcfg) (recs : list bytes) (built : bool) (image : bytes)
| CMixed (fl : N) (recs : list bytes) (fixed_count : N) (nfixed_bytes nvar_bytes : N)
| CSimple (c : szcfg) (recs : list bytes) (pool_size nfrags : N)
| CZero (puts : list bytes) (expect : list (list N)).

Definition all_records_back (get : N -> option bytes) (recs : list bytes) : bool :=
  forallb (fun i => match get (N.of_nat i) with Some d => eqb_bytes d (nth i recs []) | None => false end)
          (seq 0 (length recs))
  && match get (nlen recs) with None => true | Some _ => false end.

Fixpoint zero_run (n : N) (ps : list bytes) : list (list N) :=
  match ps with
  | [] => [[n]]
  | d :: t => match zero_put n d with
              | Some (n', id) => [1; id] :: zero_run n' t
              | None => [0] :: zero_run n t
              end
  end.

Definition check_case (k : case) : bool :=
  match k with
  | CMem ops expect => eqb_lln (mem_run mem_empty ops) expect && eqb_lln (spec_run spec_empty ops) expect
  | CZip c recs built image =>
      match zip_build id_codec_c c recs with
      | None => negb built
      | Some st =>
          built
          && eqb_bytes (zip_image c st) image
          && all_records_back (zip_get id_codec_d c st) recs
          && (zip_len st =? nlen recs)
          (* the packed offset index read back through extract_bits gives the value-level answer *)
          && suv_bits_agree c (st_offsets st) (S (length recs))
      end
  | CMixed fl recs fc nf nv =>
      let m := mixed_build fl recs in
      all_records_back (mixed_get m) recs && (mixed_fixed_count m =? fc)
      && (nlen (x_fixed m) =? nf) && (nlen (x_var m) =? nv)
  | CSimple c recs ps nfr =>
      let z := sz_build c recs in
      all_records_back (sz_get z) recs && (nlen (p_pool (sz_pool z)) =? ps) && (nlen (p_offs (sz_pool z)) =? nfr)
  | CZero ps expect => eqb_lln (zero_run 0 ps) expect
  end.
