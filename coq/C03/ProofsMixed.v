(* C03: MixedLenBlobStore returns record i = input i, for every fixed length and every input. *)
From ZV.Common Require Import Base Run.
From ZV.C03 Require Import Model.
Open Scope N_scope.

Lemma slice_mid {A} (X r Y : list A) : slice (X ++ r ++ Y) (length X) (length r) = r.
Proof.
  unfold slice. rewrite skipn_app, Nat.sub_diag, skipn_all. cbn [app skipn].
  rewrite firstn_app, Nat.sub_diag, firstn_all. cbn [firstn]. apply app_nil_r.
Qed.

Lemma split_nth {A} (l : list A) (i : nat) (d : A) :
  (i < length l)%nat -> l = firstn i l ++ nth i l d :: skipn (S i) l.
Proof.
  revert i. induction l as [|x t IH]; intros i Hi; cbn [length] in Hi; [lia|].
  destruct i as [|i]; cbn [firstn nth skipn app]; [reflexivity|].
  f_equal. apply IH. lia.
Qed.

Lemma to_nat_nlen {A} (l : list A) : N.to_nat (nlen l) = length l.
Proof. rewrite nlen_length. apply Nat2N.id. Qed.

Section Mixed.
  Variable fl : N.
  Definition fb (r : bytes) : bool := nlen r =? fl.
  Definition gb (r : bytes) : bool := negb (fb r).

  Fixpoint voffs (base : N) (recs : list bytes) : list N :=
    match recs with
    | [] => []
    | r :: t => if fb r then voffs base t else (base + nlen r) :: voffs (base + nlen r) t
    end.

  Lemma build_go_char recs : forall bits fx vr vo,
    mixed_build_go fl recs bits fx vr vo =
    {| x_fl := fl; x_bits := bits ++ map fb recs;
       x_fixed := fx ++ concat (filter fb recs);
       x_var := vr ++ concat (filter gb recs);
       x_voffs := vo ++ voffs (nlen vr) recs;
       x_n := nlen (bits ++ map fb recs) |}.
  Proof.
    induction recs as [|r t IH]; intros bits fx vr vo; cbn [mixed_build_go map filter concat voffs].
    - rewrite !app_nil_r. reflexivity.
    - change (nlen r =? fl) with (fb r). unfold gb at 1. destruct (fb r) eqn:E; cbn [negb].
      + rewrite IH. rewrite <- !app_assoc. reflexivity.
      + rewrite IH. cbn [concat]. rewrite <- !app_assoc. cbn [app]. rewrite nlen_app. reflexivity.
  Qed.

  Lemma rank1_map recs : forall i, rank1 (map fb recs) i = nlen (filter fb (firstn i recs)).
  Proof.
    induction recs as [|r t IH]; intros [|i]; cbn [map rank1 firstn filter nlen]; try reflexivity.
    rewrite IH. destruct (fb r); cbn [nlen]; lia.
  Qed.

  Lemma filter_partition (l : list bytes) : nlen (filter fb l) + nlen (filter gb l) = nlen l.
  Proof.
    induction l as [|r t IH]; cbn [filter nlen]; [reflexivity|].
    unfold gb at 1. destruct (fb r); cbn [negb nlen]; lia.
  Qed.

  Lemma nlen_concat_fixed (l : list bytes) : nlen (concat (filter fb l)) = nlen (filter fb l) * fl.
  Proof.
    induction l as [|r t IH]; cbn [filter concat nlen]; [lia|].
    destruct (fb r) eqn:E; [|exact IH]. cbn [concat nlen]. rewrite nlen_app, IH.
    unfold fb in E. apply N.eqb_eq in E. lia.
  Qed.

  Lemma voffs_app a : forall base b,
    voffs base (a ++ b) = voffs base a ++ voffs (base + nlen (concat (filter gb a))) b.
  Proof.
    induction a as [|r t IH]; intros base b; cbn [app voffs filter concat nlen].
    - rewrite N.add_0_r. reflexivity.
    - unfold gb at 1. destruct (fb r); cbn [negb].
      + apply IH.
      + cbn [concat app]. rewrite IH, nlen_app. rewrite N.add_assoc. reflexivity.
  Qed.

  Lemma voffs_length a : forall base, length (voffs base a) = length (filter gb a).
  Proof.
    induction a as [|r t IH]; intros base; cbn [voffs filter]; [reflexivity|].
    unfold gb at 1. destruct (fb r); cbn [negb length]; rewrite IH; reflexivity.
  Qed.

  Lemma voffs_last a : forall base rest,
    nth (length (voffs base a)) (base :: voffs base a ++ rest) 0 = base + nlen (concat (filter gb a)).
  Proof.
    induction a as [|r t IH]; intros base rest; cbn [voffs filter concat nlen length].
    - cbn [app nth]. lia.
    - unfold gb at 1. destruct (fb r); cbn [negb].
      + apply IH.
      + cbn [length app concat]. change (nth (S ?n) (?x :: ?l) 0) with (nth n l 0).
        rewrite IH, nlen_app. lia.
  Qed.

  Theorem mixed_get_record_proof (recs : list bytes) (i : nat) :
    (i < length recs)%nat -> mixed_get (mixed_build fl recs) (N.of_nat i) = Some (nth i recs []).
  Proof.
    intros Hi. unfold mixed_build. rewrite build_go_char. cbn [app nlen]. unfold mixed_get.
    cbn [x_n x_bits x_fl x_fixed x_var x_voffs].
    assert (Hn : nlen (map fb recs) = N.of_nat (length recs)) by (rewrite nlen_length, map_length; reflexivity).
    rewrite Hn. destruct (N.ltb_spec (N.of_nat i) (N.of_nat (length recs))) as [_|Hc]; [|lia].
    rewrite Nat2N.id. set (r := nth i recs []).
    pose proof (split_nth recs i [] Hi) as Hs. fold r in Hs.
    set (A := firstn i recs) in *. set (B := skipn (S i) recs) in *.
    assert (Hbit : nth i (map fb recs) false = fb r).
    { rewrite (nth_indep _ false (fb [])) by (rewrite map_length; exact Hi). rewrite map_nth. reflexivity. }
    rewrite Hbit. rewrite rank1_map. fold A.
    destruct (fb r) eqn:Er.
    - (* fixed-length record *)
      assert (Hlen : nlen r = fl) by (unfold fb in Er; apply N.eqb_eq; exact Er).
      assert (Hfx : concat (filter fb recs) = concat (filter fb A) ++ r ++ concat (filter fb B)).
      { rewrite Hs at 1. rewrite filter_app, concat_app. cbn [filter]. rewrite Er. reflexivity. }
      rewrite Hfx. rewrite !nlen_app. rewrite nlen_concat_fixed.
      match goal with |- (if ?a <? ?b then _ else _) = _ => destruct (N.ltb_spec a b) as [Hc|_]; [lia|] end.
      f_equal.
      replace (N.to_nat (nlen (filter fb A) * fl)) with (length (concat (filter fb A)))
        by (rewrite <- nlen_concat_fixed; symmetry; apply to_nat_nlen).
      rewrite <- Hlen, to_nat_nlen. apply slice_mid.
    - (* variable-length record *)
      assert (Hr0 : rank0 (map fb recs) i = nlen (filter gb A)).
      { unfold rank0. rewrite rank1_map. fold A. rewrite map_length, Nat.min_l by lia.
        pose proof (filter_partition A) as Hp.
        assert (nlen A = N.of_nat i).
        { unfold A. rewrite nlen_length, firstn_length, Nat.min_l by lia. reflexivity. }
        lia. }
      rewrite Hr0.
      assert (Hvo : voffs 0 recs = voffs 0 A ++ (nlen (concat (filter gb A)) + nlen r) :: voffs (nlen (concat (filter gb A)) + nlen r) B).
      { rewrite Hs at 1. rewrite voffs_app. cbn [voffs]. rewrite Er. rewrite N.add_0_l. reflexivity. }
      assert (Hk : N.to_nat (nlen (filter gb A)) = length (voffs 0 A)).
      { rewrite to_nat_nlen, voffs_length. reflexivity. }
      assert (Hb : nthN (0 :: voffs 0 recs) (nlen (filter gb A)) 0 = nlen (concat (filter gb A))).
      { unfold nthN. rewrite Hk, Hvo. rewrite voffs_last. lia. }
      assert (He : nthN (0 :: voffs 0 recs) (nlen (filter gb A) + 1) 0 = nlen (concat (filter gb A)) + nlen r).
      { unfold nthN. replace (N.to_nat (nlen (filter gb A) + 1)) with (S (length (voffs 0 A))) by lia.
        cbn [nth]. rewrite Hvo. rewrite app_nth2 by lia. rewrite Nat.sub_diag. reflexivity. }
      rewrite Hb, He.
      assert (Hvr : concat (filter gb recs) = concat (filter gb A) ++ r ++ concat (filter gb B)).
      { rewrite Hs at 1. rewrite filter_app, concat_app. cbn [filter]. unfold gb at 2. rewrite Er. reflexivity. }
      rewrite Hvr. rewrite !nlen_app.
      match goal with |- (if ?a <? ?b then _ else _) = _ => destruct (N.ltb_spec a b) as [Hc|_]; [lia|] end.
      f_equal.
      replace (nlen (concat (filter gb A)) + nlen r - nlen (concat (filter gb A))) with (nlen r) by lia.
      rewrite !to_nat_nlen. apply slice_mid.
  Qed.

  Theorem mixed_absent_proof (recs : list bytes) (id : N) :
    nlen recs <= id -> mixed_get (mixed_build fl recs) id = None.
  Proof.
    intros H. unfold mixed_build. rewrite build_go_char. unfold mixed_get. cbn [x_n app].
    assert (Hn : nlen (map fb recs) = nlen recs) by (rewrite !nlen_length, map_length; reflexivity).
    rewrite Hn. destruct (N.ltb_spec id (nlen recs)); [lia|reflexivity].
  Qed.
End Mixed.

Example mixed_nontrivial :
  let m := mixed_build 2 [[1;2]; [3]; [4;5]; []; [6;7;8]] in
  map (fun i => mixed_get m i) [0;1;2;3;4;5] = [Some [1;2]; Some [3]; Some [4;5]; Some []; Some [6;7;8]; None].
Proof. vm_compute. reflexivity. Qed.
