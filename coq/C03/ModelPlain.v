(* C03 — PlainBlobStore: one file per record in a directory.  Definitions only.

   Modelled code: src/blob_store/plain.rs
     create_new (empty directory, next_id = 1), new = scan_directory (next_id = max parsed file name + 1),
     next_record_id (AtomicU32::fetch_add, wrapping), file_path (`format!("{}", id)`),
     put (write `.{id}.tmp`, rename it onto `{id}`), get, remove, contains, size, len (= scan_blob_ids().len()),
     put_batch / get_batch / remove_batch (loops); close + reopen = new() on the same directory.
   The directory is a finite map from file names (byte strings) to contents; the file system never fails
   (I/O errors and crashes are property C19's). *)
From ZV.Common Require Import Base Run.
From ZV.C03 Require Import Model ModelStore.
Open Scope N_scope.

Definition fname := list N.
Definition dirmap := list (fname * bytes).

Fixpoint dlookup (k : fname) (m : dirmap) : option bytes :=
  match m with
  | [] => None
  | (k', v) :: t => if eqb_ln k k' then Some v else dlookup k t
  end.
Fixpoint dremove (k : fname) (m : dirmap) : dirmap :=
  match m with
  | [] => []
  | (k', v) :: t => if eqb_ln k k' then dremove k t else (k', v) :: dremove k t
  end.
Definition dinsert (k : fname) (v : bytes) (m : dirmap) : dirmap := (k, v) :: dremove k m.

(* `format!("{}", id)`: decimal digits, most significant first, no sign, no leading zeros *)
Fixpoint dec_digits (fuel : nat) (n : N) (acc : list N) : list N :=
  match fuel with
  | O => acc
  | S f => let acc' := (48 + n mod 10) :: acc in
           if n / 10 =? 0 then acc' else dec_digits f (n / 10) acc'
  end.
Definition render (id : N) : fname := dec_digits (S (N.to_nat (N.log2 id))) id [].
(* `format!(".{}.tmp", id)` *)
Definition tmp_name (id : N) : fname := 46 :: render id ++ [46; 116; 109; 112].

(* `filename.parse::<u32>()`: an optional '+', then one or more ASCII digits, value below 2^32 *)
Definition is_digit (c : N) : bool := (48 <=? c) && (c <=? 57).
Fixpoint digits_value (acc : N) (s : list N) : option N :=
  match s with
  | [] => Some acc
  | c :: t => if is_digit c then digits_value (acc * 10 + (c - 48)) t else None
  end.
Definition parse_u32 (s : fname) : option N :=
  let body := match s with 43 :: t => t | _ => s end in
  match body with
  | [] => None
  | _ => match digits_value 0 body with
         | Some v => if v <? W32 then Some v else None
         | None => None
         end
  end.

Record plain := { p_dir : dirmap; p_next : N }.
Definition plain_create : plain := {| p_dir := []; p_next := 1 |}.

(* scan_directory: the largest file name that parses as an id *)
Fixpoint scan_max (m : dirmap) : N :=
  match m with
  | [] => 0
  | (k, _) :: t => match parse_u32 k with Some id => N.max id (scan_max t) | None => scan_max t end
  end.
(* new(): next_id = max_id + 1 — a checked u32 addition in the baseline profile (None: it overflowed) *)
Definition plain_open (m : dirmap) : option plain :=
  if scan_max m + 1 <? W32 then Some {| p_dir := m; p_next := scan_max m + 1 |} else None.

Definition plain_put (st : plain) (d : bytes) : plain * option N :=
  let id := p_next st in
  let dir1 := dinsert (tmp_name id) d (p_dir st) in                  (* File::create + write_all + sync_all *)
  let dir2 := dinsert (render id) d (dremove (tmp_name id) dir1) in  (* fs::rename(tmp, path): replaces an existing file *)
  ({| p_dir := dir2; p_next := (id + 1) mod W32 |}, Some id).
Definition plain_get (st : plain) (id : N) : plain * option bytes := (st, dlookup (render id) (p_dir st)).
Definition plain_remove (st : plain) (id : N) : plain * bool :=
  match dlookup (render id) (p_dir st) with
  | Some _ => ({| p_dir := dremove (render id) (p_dir st); p_next := p_next st |}, true)
  | None => (st, false)
  end.
(* scan_blob_ids: the names that parse as ids *)
Fixpoint scan_count (m : dirmap) : N :=
  match m with
  | [] => 0
  | (k, _) :: t => match parse_u32 k with Some _ => 1 + scan_count t | None => scan_count t end
  end.

Definition plain_ops : store_ops plain := {|
  o_put := plain_put;
  o_batch := put_loop plain_put;
  o_remove := plain_remove;
  o_rmbatch := rm_loop plain_remove;
  o_get := plain_get;
  o_getbatch := get_loop plain_get;
  o_contains := fun st id => match dlookup (render id) (p_dir st) with Some _ => true | None => false end;
  o_size := fun st id => (st, option_map nlen (dlookup (render id) (p_dir st)));
  o_len := fun st => scan_count (p_dir st) |}.

(* histories with close + reopen *)
Inductive pop :=
| PX (o : xop)
| PReopen.        (* drop the store, PlainBlobStore::new(dir): observation [1], or [0] when new() panics *)
Definition plain_pstep (st : plain) (o : pop) : plain * list N :=
  match o with
  | PX o => st_step plain_ops st o
  | PReopen => match plain_open (p_dir st) with Some st' => (st', [1]) | None => (st, [0]) end
  end.
Fixpoint plain_prun (st : plain) (ops : list pop) : list (list N) :=
  match ops with
  | [] => []
  | o :: t => let '(st', r) := plain_pstep st o in r :: plain_prun st' t
  end.
Fixpoint plain_pexec (st : plain) (ops : list pop) : plain :=
  match ops with
  | [] => st
  | o :: t => plain_pexec (fst (plain_pstep st o)) t
  end.
Fixpoint pputs (ops : list pop) : N :=
  match ops with
  | [] => 0
  | PX o :: t => xputs [o] + pputs t
  | PReopen :: t => pputs t
  end.
Definition pxops (ops : list xop) : list pop := map PX ops.

(* The property across a reopen: the live records, their ids and their count are unchanged; the id counter may be reset
   to any value above every live id (an id may be handed out again only when its record is no longer live). *)
Definition reopen_ok (s s' : spec) : Prop :=
  (forall id, s_live s' id = s_live s id) /\ s_count s' = s_count s /\
  (forall id d, s_live s id = Some d -> id < s_next s') /\ s_next s' <= s_next s.
Inductive spec_ptrace : spec -> list pop -> list (list N) -> Prop :=
| spt_nil : forall s, spec_ptrace s [] []
| spt_op : forall s o t rs, spec_ptrace (fst (spec_xstep s o)) t rs ->
                            spec_ptrace s (PX o :: t) (snd (spec_xstep s o) :: rs)
| spt_reopen : forall s s' t rs, reopen_ok s s' -> spec_ptrace s' t rs -> spec_ptrace s (PReopen :: t) ([1] :: rs).
