(* C03: generic facts about the store interface: a store that satisfies `refines` answers every history like the
   property's state machine; the batch loops inherit the single-record clauses; MemoryBlobStore is an instance. *)
From ZV.Common Require Import Base Run.
From ZV.C03 Require Import Model ProofsMem ModelStore.
Open Scope N_scope.

(* ---------------- spec-level facts ---------------- *)
Lemma spec_put_next s d : s_next (fst (spec_put s d)) = s_next s + 1.
Proof. reflexivity. Qed.
Lemma spec_put_id s d : snd (spec_put s d) = s_next s.
Proof. reflexivity. Qed.

Lemma spec_put_batch_cons s d t :
  spec_put_batch s (d :: t) =
  (fst (spec_put_batch (fst (spec_put s d)) t), s_next s :: snd (spec_put_batch (fst (spec_put s d)) t)).
Proof.
  cbn [spec_put_batch]. destruct (spec_put s d) as [s1 id] eqn:E1.
  assert (id = s_next s) by (unfold spec_put in E1; inversion E1; reflexivity). subst id.
  cbn [fst]. destruct (spec_put_batch s1 t) as [s2 ids]. reflexivity.
Qed.

Lemma spec_put_batch_next ds : forall s, s_next (fst (spec_put_batch s ds)) = s_next s + nlen ds.
Proof.
  induction ds as [|d t IH]; intros s.
  - cbn [spec_put_batch fst nlen]. lia.
  - rewrite spec_put_batch_cons. cbn [fst nlen]. rewrite IH, spec_put_next. lia.
Qed.

Lemma spec_remove_live s id d :
  s_live s id = Some d ->
  spec_step s (MRemove id) =
  ({| s_live := upd (s_live s) id None; s_count := s_count s - 1; s_next := s_next s |}, [1]).
Proof. intros H. cbn [spec_step]. rewrite H. reflexivity. Qed.
Lemma spec_remove_absent s id : s_live s id = None -> spec_step s (MRemove id) = (s, [0]).
Proof. intros H. cbn [spec_step]. rewrite H. reflexivity. Qed.
Lemma spec_step_remove s id :
  spec_step s (MRemove id) = (spec_remove s id, [if live_some s id then 1 else 0]).
Proof.
  unfold spec_remove, live_some. cbn [spec_step]. destruct (s_live s id); reflexivity.
Qed.
Lemma spec_remove_next s id : s_next (spec_remove s id) = s_next s.
Proof. unfold spec_remove. cbn [spec_step]. destruct (s_live s id); reflexivity. Qed.
Lemma spec_rm_batch_next ids : forall s, s_next (fst (spec_rm_batch s ids)) = s_next s.
Proof.
  induction ids as [|id t IH]; intros s; cbn [spec_rm_batch]; [reflexivity|].
  destruct (spec_rm_batch (spec_remove s id) t) as [s2 n] eqn:E. cbn [fst].
  specialize (IH (spec_remove s id)). rewrite E in IH. cbn [fst] in IH. rewrite IH. apply spec_remove_next.
Qed.

Lemma obs_q3_consistent r :
  obs_q3 r (match r with Some _ => true | None => false end) (option_map nlen r) = obs_query r.
Proof. destruct r; reflexivity. Qed.

(* ---------------- the loops inherit the single-record clauses ---------------- *)
Section LoopLemmas.
  Context {St : Type} (B : N) (P : bytes -> Prop) (Rel : St -> spec -> Prop).

  Lemma put_loop_refines (put : St -> bytes -> St * option N) :
    (forall st s d, Rel st s -> P d -> s_next s + 1 < B ->
        snd (put st d) = Some (s_next s) /\ Rel (fst (put st d)) (fst (spec_put s d))) ->
    forall ds st s, Rel st s -> Forall P ds -> s_next s + nlen ds < B ->
      snd (put_loop put st ds) = Some (snd (spec_put_batch s ds)) /\
      Rel (fst (put_loop put st ds)) (fst (spec_put_batch s ds)).
  Proof.
    intros Hput. induction ds as [|d t IH]; intros st s HR HP Hb.
    - cbn [put_loop spec_put_batch fst snd]. split; [reflexivity|exact HR].
    - inversion HP as [|x l Hd Ht]; subst. cbn [nlen] in Hb.
      destruct (Hput st s d HR Hd ltac:(lia)) as [H1 H2].
      rewrite spec_put_batch_cons. cbn [put_loop fst snd].
      destruct (put st d) as [st1 r1]. cbn [fst snd] in H1, H2. subst r1.
      assert (Hb' : s_next (fst (spec_put s d)) + nlen t < B) by (rewrite spec_put_next; lia).
      destruct (IH st1 (fst (spec_put s d)) H2 Ht Hb') as [H3 H4].
      destruct (put_loop put st1 t) as [st2 r2]. cbn [fst snd] in H3, H4. subst r2.
      cbn [fst snd]. split; [reflexivity|exact H4].
  Qed.

  Lemma rm_loop_refines (remove : St -> N -> St * bool) :
    (forall st s id, Rel st s ->
        snd (remove st id) = live_some s id /\ Rel (fst (remove st id)) (spec_remove s id)) ->
    forall ids st s, Rel st s ->
      snd (rm_loop remove st ids) = Some (snd (spec_rm_batch s ids)) /\
      Rel (fst (rm_loop remove st ids)) (fst (spec_rm_batch s ids)).
  Proof.
    intros Hrm. induction ids as [|id t IH]; intros st s HR.
    - cbn [rm_loop spec_rm_batch fst snd]. split; [reflexivity|exact HR].
    - cbn [rm_loop spec_rm_batch]. destruct (Hrm st s id HR) as [H1 H2].
      destruct (remove st id) as [st1 b]. cbn [fst snd] in H1, H2. subst b.
      destruct (IH st1 (spec_remove s id) H2) as [H3 H4].
      destruct (rm_loop remove st1 t) as [st2 r2]. destruct (spec_rm_batch (spec_remove s id) t) as [s2 n].
      cbn [fst snd] in *. subst r2. split; [reflexivity|exact H4].
  Qed.

  Lemma get_loop_refines (get : St -> N -> St * option bytes) :
    (forall st s id, Rel st s -> snd (get st id) = s_live s id /\ Rel (fst (get st id)) s) ->
    forall ids st s, Rel st s ->
      snd (get_loop get st ids) = Some (map (s_live s) ids) /\ Rel (fst (get_loop get st ids)) s.
  Proof.
    intros Hget. induction ids as [|id t IH]; intros st s HR.
    - cbn [get_loop map fst snd]. split; [reflexivity|exact HR].
    - cbn [get_loop map]. destruct (Hget st s id HR) as [H1 H2].
      destruct (get st id) as [st1 g]. cbn [fst snd] in H1, H2. subst g.
      destruct (IH st1 s H2) as [H3 H4].
      destruct (get_loop get st1 t) as [st2 r2]. cbn [fst snd] in *. subst r2. split; [reflexivity|exact H4].
  Qed.
End LoopLemmas.

(* ---------------- every history ---------------- *)
Lemma xputs_cons o t : xputs (o :: t) = xputs [o] + xputs t.
Proof. destruct o as [[d|ds|id|id|]|ids|ids]; cbn [xputs]; lia. Qed.
Lemma xrecords_cons o t : xrecords (o :: t) = xrecords [o] ++ xrecords t.
Proof.
  destruct o as [[d|ds|id|id|]|ids|ids]; cbn [xrecords app]; try reflexivity.
  rewrite app_nil_r. reflexivity.
Qed.

Section Generic.
  Context {St : Type} (B : N) (P : bytes -> Prop) (O : store_ops St) (Rel : St -> spec -> Prop).
  Hypothesis HO : refines B P O Rel.

  Lemma refines_step st s o :
    Rel st s -> Forall P (xrecords [o]) -> s_next s + xputs [o] < B ->
    snd (st_step O st o) = snd (spec_xstep s o) /\
    Rel (fst (st_step O st o)) (fst (spec_xstep s o)) /\
    s_next (fst (spec_xstep s o)) = s_next s + xputs [o].
  Proof.
    intros HR HP Hb. destruct o as [[d|ds|id|id|]|ids|ids]; cbn [st_step spec_xstep spec_step xputs xrecords] in *.
    - inversion HP as [|x l Hd _]; subst.
      destruct (rf_put B P O Rel HO st s d HR Hd ltac:(lia)) as [H1 H2].
      destruct (o_put O st d) as [st1 r]. cbn [fst snd] in *. subst r.
      unfold spec_put in *. cbn [fst snd s_next] in *. split; [reflexivity|split; [exact H2|lia]].
    - rewrite app_nil_r in HP.
      destruct (rf_batch B P O Rel HO st s ds HR HP ltac:(lia)) as [H1 H2].
      destruct (o_batch O st ds) as [st1 r]. cbn [fst snd] in *. subst r.
      split; [reflexivity|split; [exact H2|]]. rewrite spec_put_batch_next. lia.
    - destruct (rf_remove B P O Rel HO st s id HR) as [H1 H2].
      destruct (o_remove O st id) as [st1 b]. cbn [fst snd] in *. subst b.
      change (match s_live s id with
              | Some _ => ({| s_live := upd (s_live s) id None; s_count := s_count s - 1; s_next := s_next s |}, [1])
              | None => (s, [0]) end) with (spec_step s (MRemove id)).
      rewrite spec_step_remove. cbn [fst snd]. split; [reflexivity|split; [exact H2|]].
      rewrite spec_remove_next. lia.
    - destruct (rf_get B P O Rel HO st s id HR) as [H1 H2].
      destruct (o_get O st id) as [st1 g]. cbn [fst snd] in *. subst g.
      pose proof (rf_contains B P O Rel HO st1 s id H2) as H3.
      destruct (rf_size B P O Rel HO st1 s id H2) as [H4 H5].
      destruct (o_size O st1 id) as [st2 sz]. cbn [fst snd] in *. subst sz. rewrite H3.
      unfold live_some. split; [apply obs_q3_consistent|split; [exact H5|lia]].
    - rewrite (rf_len B P O Rel HO st s HR). cbn [fst snd]. split; [reflexivity|split; [exact HR|lia]].
    - destruct (rf_rmbatch B P O Rel HO st s ids HR) as [H1 H2].
      destruct (o_rmbatch O st ids) as [st1 r]. cbn [fst snd] in *. subst r.
      pose proof (spec_rm_batch_next ids s) as Hn.
      destruct (spec_rm_batch s ids) as [s2 n]. cbn [fst snd] in *.
      split; [reflexivity|split; [exact H2|lia]].
    - destruct (rf_getbatch B P O Rel HO st s ids HR) as [H1 H2].
      destruct (o_getbatch O st ids) as [st1 r]. cbn [fst snd] in *. subst r.
      split; [|split; [exact H2|lia]]. rewrite map_map. reflexivity.
  Qed.

  Lemma refines_run ops : forall st s,
    Rel st s -> Forall P (xrecords ops) -> s_next s + xputs ops < B ->
    st_run O st ops = spec_xrun s ops.
  Proof.
    induction ops as [|o t IH]; intros st s HR HP Hb; [reflexivity|].
    rewrite xputs_cons in Hb. rewrite xrecords_cons in HP. apply Forall_app in HP. destruct HP as [HP1 HP2].
    destruct (refines_step st s o HR HP1 ltac:(lia)) as (H1 & H2 & H3).
    cbn [st_run spec_xrun].
    destruct (st_step O st o) as [st1 r1]. destruct (spec_xstep s o) as [s1 r2]. cbn [fst snd] in *. subst r2.
    f_equal. apply IH; [exact H2|exact HP2|lia].
  Qed.

  Lemma refines_exec ops : forall st s,
    Rel st s -> Forall P (xrecords ops) -> s_next s + xputs ops < B ->
    exists s', Rel (st_exec O st ops) s' /\ s_next s' = s_next s + xputs ops.
  Proof.
    induction ops as [|o t IH]; intros st s HR HP Hb.
    - exists s. cbn [st_exec xputs]. split; [exact HR|lia].
    - rewrite xputs_cons in Hb. rewrite xrecords_cons in HP. apply Forall_app in HP. destruct HP as [HP1 HP2].
      destruct (refines_step st s o HR HP1 ltac:(lia)) as (H1 & H2 & H3).
      cbn [st_exec]. destruct (IH _ _ H2 HP2 ltac:(lia)) as (s' & HR' & Hn').
      exists s'. split; [exact HR'|]. rewrite xputs_cons. lia.
  Qed.
End Generic.

(* histories of the property's own operations only *)
Lemma spec_xrun_XO ops : forall s, spec_xrun s (map XO ops) = spec_run s ops.
Proof.
  induction ops as [|o t IH]; intros s; [reflexivity|].
  cbn [map spec_xrun spec_run spec_xstep]. destruct (spec_step s o) as [s1 r]. rewrite IH. reflexivity.
Qed.
Lemma xputs_XO ops : xputs (map XO ops) = puts ops.
Proof.
  induction ops as [|o t IH]; [reflexivity|].
  destruct o; cbn [map xputs puts]; rewrite ?IH; reflexivity.
Qed.

(* ---------------- MemoryBlobStore is an instance ---------------- *)
Lemma mem_put_clause st s d :
  R st s -> True -> s_next s + 1 < W32 ->
  snd ((fun m d => let '(m', id) := mem_put m d in (m', Some id)) st d) = Some (s_next s) /\
  R (fst ((fun m d => let '(m', id) := mem_put m d in (m', Some id)) st d)) (fst (spec_put s d)).
Proof.
  intros HR _ Hb. destruct (R_put st s d HR Hb) as [H1 H2].
  cbn beta. destruct (mem_put st d) as [m' id]. cbn [fst snd] in *. rewrite H2. split; [reflexivity|exact H1].
Qed.

Lemma mem_remove_clause st s id :
  R st s -> snd (mem_remove st id) = live_some s id /\ R (fst (mem_remove st id)) (spec_remove s id).
Proof.
  intros HR. assert (Hb : s_next s + puts [MRemove id] < s_next s + 1) by (cbn [puts]; lia).
  pose proof HR as (Hl & _).
  unfold mem_remove, live_some, spec_remove. cbn [spec_step]. rewrite Hl.
  destruct (s_live s id) as [d|] eqn:E; cbn [fst snd].
  - split; [reflexivity|].
    destruct HR as (Hl' & Hc & Hn & Hd & Hbnd).
    unfold R; cbn [mdata mnext s_live s_count s_next]. repeat split; try assumption.
    + intros id'. unfold upd. destruct (N.eqb_spec id' id) as [->|Hne].
      * apply alookup_aremove_same.
      * rewrite alookup_aremove_other by assumption. apply Hl'.
    + rewrite <- Hl' in E. pose proof (nlen_aremove_present id (mdata st) d Hd E). lia.
    + apply nodup_aremove. exact Hd.
    + intros id' d'. unfold upd. destruct (N.eqb_spec id' id); [discriminate|]. apply Hbnd.
  - split; [reflexivity|exact HR].
Qed.

Lemma mem_get_clause st s id :
  R st s -> snd ((fun m id => (m, mem_get m id)) st id) = s_live s id /\
            R (fst ((fun m id => (m, mem_get m id)) st id)) s.
Proof. intros HR. cbn [fst snd]. split; [|exact HR]. unfold mem_get. apply HR. Qed.

Theorem mem_store_refines : refines W32 (fun _ => True) mem_ops R.
Proof.
  constructor; cbn [mem_ops o_put o_batch o_remove o_rmbatch o_get o_getbatch o_contains o_size o_len].
  - intros st s d HR HP Hb. exact (mem_put_clause st s d HR I Hb).
  - intros st s ds HR HP Hb.
    apply (put_loop_refines W32 (fun _ => True) R _ mem_put_clause ds st s HR HP Hb).
  - exact mem_remove_clause.
  - intros st s ids HR. apply (rm_loop_refines R _ mem_remove_clause ids st s HR).
  - exact mem_get_clause.
  - intros st s ids HR. apply (get_loop_refines R _ mem_get_clause ids st s HR).
  - intros st s id HR. unfold mem_get, live_some. destruct HR as (Hl & _). rewrite Hl. reflexivity.
  - intros st s id HR. cbn [fst snd]. split; [|exact HR]. unfold mem_get. destruct HR as (Hl & _). rewrite Hl. reflexivity.
  - intros st s HR. unfold mem_len. apply HR.
Qed.

(* the interface instance runs exactly the model of Model.v *)
Lemma mem_put_loop ds : forall m,
  put_loop (fun m d => let '(m', id) := mem_put m d in (m', Some id)) m ds =
  (fst (mem_put_batch m ds), Some (snd (mem_put_batch m ds))).
Proof.
  induction ds as [|d t IH]; intros m; cbn [put_loop mem_put_batch]; [reflexivity|].
  destruct (mem_put m d) as [m1 id1]. rewrite IH. destruct (mem_put_batch m1 t) as [m3 ids3]. reflexivity.
Qed.
Lemma mem_ops_step m o : st_step mem_ops m (XO o) = mem_step m o.
Proof.
  destruct o as [d|ds|id|id|]; cbn [st_step mem_ops o_put o_batch o_remove o_get o_contains o_size o_len mem_step].
  - destruct (mem_put m d) as [m' id]. reflexivity.
  - rewrite mem_put_loop. destruct (mem_put_batch m ds); reflexivity.
  - unfold mem_remove. destruct (alookup id (mdata m)); reflexivity.
  - destruct (mem_get m id); reflexivity.
  - reflexivity.
Qed.
Lemma mem_ops_run ops : forall m, st_run mem_ops m (map XO ops) = mem_run m ops.
Proof.
  induction ops as [|o t IH]; intros m; [reflexivity|].
  cbn [map st_run mem_run]. rewrite mem_ops_step. destruct (mem_step m o) as [m1 r]. rewrite IH. reflexivity.
Qed.

Example mem_ops_nontrivial :
  st_run mem_ops mem_empty [XO (MPut [1;2]); XO (MBatch [[3]; []]); XGetBatch [1; 9; 3]; XRmBatch [1; 1; 7; 2]; XO MLen; XO (MQuery 3)]
  = [[1]; [2; 3]; [1; 2; 1; 2; 0; 1; 0]; [2]; [1]; [1; 0]].
Proof. vm_compute. reflexivity. Qed.
