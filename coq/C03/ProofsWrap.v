(* C03: the wrapper stores (ZstdBlobStore, HuffmanBlobStore, RansBlobStore, DictionaryBlobStore).
   A wrapper over ANY inner store that refines the property's state machine refines it again, on the records its
   codec is lossless on; the Huffman frame is such a codec whenever the coder round-trips; wrappers compose. *)
From ZV.Common Require Import Base Run.
From ZV.C03 Require Import Model ProofsMem ModelStore ProofsStore ModelWrap.
Open Scope N_scope.

(* ------------------------------------------------------------------ *)
(* list helpers                                                         *)
(* ------------------------------------------------------------------ *)
Lemma firstn_len_app {A} (n : nat) (l p : list A) : length l = n -> firstn n (l ++ p) = l.
Proof.
  revert n. induction l as [|x l IH]; intros n Hn; subst n; cbn [length firstn app]; [reflexivity|].
  f_equal. apply IH. reflexivity.
Qed.
Lemma skipn_len_app {A} (n : nat) (l p : list A) : length l = n -> skipn n (l ++ p) = p.
Proof.
  revert n. induction l as [|x l IH]; intros n Hn; subst n; cbn [length skipn app]; [reflexivity|].
  apply IH. reflexivity.
Qed.
Lemma Forall2_nlen {A C} (Q : A -> C -> Prop) (l : list A) (l' : list C) : Forall2 Q l l' -> nlen l' = nlen l.
Proof. induction 1 as [|x y l l' _ _ IH]; cbn [nlen]; [reflexivity|]. rewrite IH. reflexivity. Qed.

(* ------------------------------------------------------------------ *)
(* little-endian fields                                                 *)
(* ------------------------------------------------------------------ *)
Lemma le_bytes_length n : forall x, length (le_bytes n x) = n.
Proof. induction n as [|n IH]; intros x; cbn [le_bytes length]; [reflexivity|]. rewrite IH. reflexivity. Qed.

Lemma le_value_le_bytes n : forall x, le_value (le_bytes n x) = x mod 256 ^ N.of_nat n.
Proof.
  induction n as [|n IH]; intros x.
  - cbn [le_bytes le_value]. change (256 ^ N.of_nat 0) with 1. rewrite N.mod_1_r. reflexivity.
  - cbn [le_bytes le_value]. rewrite IH, Nat2N.inj_succ, N.pow_succ_r'.
    rewrite N.mod_mul_r; [reflexivity|discriminate|].
    apply N.pow_nonzero. discriminate.
Qed.

Lemma le_value_le_bytes_8 x : x < W64 -> le_value (le_bytes 8 x) = x.
Proof.
  intros Hx. rewrite le_value_le_bytes.
  replace (256 ^ N.of_nat 8) with W64 by reflexivity. apply N.mod_small. exact Hx.
Qed.

(* ------------------------------------------------------------------ *)
(* the pointwise relation between the wrapper's spec state and the inner store's spec state *)
(* ------------------------------------------------------------------ *)
Section WrapProofs.
  Context {St : Type} (I : store_ops St) (B : N) (Pin : bytes -> Prop) (Rel : St -> spec -> Prop).
  Variable cfg : wrap_cfg.
  Variable enc : bytes -> option bytes.
  Variable dec : bytes -> option bytes.
  Variable szof : bytes -> option N.

  Definition prel (s si : spec) : Prop :=
    (forall id, match s_live s id with
                | Some d => exists c, s_live si id = Some c /\ codec_ok cfg enc dec szof d c
                | None => s_live si id = None
                end) /\
    s_count si = s_count s /\ s_next si = s_next s.

  Lemma wrap_rel_prel st s :
    wrap_rel cfg enc dec szof Rel st s <-> exists si, Rel st si /\ prel s si.
  Proof. unfold wrap_rel, prel. split; intros H; exact H. Qed.

  Lemma prel_live_some s si id : prel s si -> live_some si id = live_some s id.
  Proof.
    intros (Hl & _). unfold live_some. pose proof (Hl id) as Hid. revert Hid.
    destruct (s_live s id) as [d|]; intros Hid.
    - destruct Hid as (c & Hc & _). rewrite Hc. reflexivity.
    - rewrite Hid. reflexivity.
  Qed.

  Lemma prel_put s si d c :
    prel s si -> codec_ok cfg enc dec szof d c -> prel (fst (spec_put s d)) (fst (spec_put si c)).
  Proof.
    intros (Hl & Hc & Hn) Hok. unfold spec_put, prel. cbn [fst s_live s_count s_next].
    split; [|split; [rewrite Hc; reflexivity|rewrite Hn; reflexivity]].
    intros id. unfold upd. rewrite Hn. destruct (N.eqb_spec id (s_next s)) as [Heq|Hne].
    - exists c. split; [reflexivity|exact Hok].
    - apply Hl.
  Qed.

  Lemma prel_put_batch ds cs :
    Forall2 (codec_ok cfg enc dec szof) ds cs ->
    forall s si, prel s si ->
      snd (spec_put_batch si cs) = snd (spec_put_batch s ds) /\
      prel (fst (spec_put_batch s ds)) (fst (spec_put_batch si cs)).
  Proof.
    induction 1 as [|d c ds cs Hok Hf IH]; intros s si HP.
    - cbn [spec_put_batch fst snd]. split; [reflexivity|exact HP].
    - rewrite !spec_put_batch_cons. cbn [fst snd].
      destruct (IH _ _ (prel_put s si d c HP Hok)) as [H1 H2].
      destruct HP as (_ & _ & Hn).
      split; [|exact H2]. rewrite H1, Hn. reflexivity.
  Qed.

  (* the ids a batch hands out depend only on the counter and the number of records *)
  Lemma spec_put_batch_ids (ds cs : list bytes) :
    length ds = length cs -> forall s s', s_next s = s_next s' ->
      snd (spec_put_batch s ds) = snd (spec_put_batch s' cs).
  Proof.
    revert cs. induction ds as [|d t IH]; intros [|c cs] Hlen s s' Hn; try discriminate.
    - reflexivity.
    - rewrite !spec_put_batch_cons. cbn [snd]. rewrite Hn. f_equal.
      apply IH; [cbn [length] in Hlen; lia|]. rewrite !spec_put_next, Hn. reflexivity.
  Qed.

  Lemma prel_remove s si id : prel s si -> prel (spec_remove s id) (spec_remove si id).
  Proof.
    intros HP. pose proof HP as (Hl & Hc & Hn). unfold spec_remove. cbn [spec_step].
    pose proof (Hl id) as Hid. revert Hid.
    destruct (s_live s id) as [d|]; intros Hid.
    - destruct Hid as (c & Hsi & Hok). rewrite Hsi. cbn [fst]. unfold prel. cbn [s_live s_count s_next].
      split; [|split; [rewrite Hc; reflexivity|exact Hn]].
      intros id'. unfold upd. destruct (N.eqb_spec id' id) as [Heq|Hne]; [reflexivity|apply Hl].
    - rewrite Hid. cbn [fst]. exact HP.
  Qed.

  Lemma prel_rm_batch ids : forall s si, prel s si ->
    snd (spec_rm_batch si ids) = snd (spec_rm_batch s ids) /\
    prel (fst (spec_rm_batch s ids)) (fst (spec_rm_batch si ids)).
  Proof.
    induction ids as [|id t IH]; intros s si HP; cbn [spec_rm_batch].
    - cbn [fst snd]. split; [reflexivity|exact HP].
    - destruct (IH _ _ (prel_remove s si id HP)) as [H1 H2].
      rewrite (prel_live_some s si id HP).
      destruct (spec_rm_batch (spec_remove s id) t) as [s2 n].
      destruct (spec_rm_batch (spec_remove si id) t) as [s2' n'].
      cbn [fst snd] in *. subst n'. split; [reflexivity|exact H2].
  Qed.

  Lemma prel_get s si id : prel s si -> obind dec (s_live si id) = s_live s id.
  Proof.
    intros (Hl & _). pose proof (Hl id) as Hid. revert Hid.
    destruct (s_live s id) as [d|]; intros Hid.
    - destruct Hid as (c & Hc & _ & Hd & _). rewrite Hc. cbn [obind]. exact Hd.
    - rewrite Hid. reflexivity.
  Qed.

  Lemma prel_dec_opt s si id : prel s si -> dec_opt dec (s_live si id) = Some (s_live s id).
  Proof.
    intros (Hl & _). pose proof (Hl id) as Hid. revert Hid.
    destruct (s_live s id) as [d|]; intros Hid.
    - destruct Hid as (c & Hc & _ & Hd & _). rewrite Hc. unfold dec_opt. rewrite Hd. reflexivity.
    - rewrite Hid. reflexivity.
  Qed.

  Lemma prel_getbatch s si : prel s si -> forall ids,
    map_opt (dec_opt dec) (map (s_live si) ids) = Some (map (s_live s) ids).
  Proof.
    intros HP. induction ids as [|id t IH]; cbn [map map_opt]; [reflexivity|].
    rewrite IH, (prel_dec_opt s si id HP). reflexivity.
  Qed.

  Lemma wrapP_map ds : Forall (wrap_P cfg enc dec szof Pin) ds ->
    exists cs, map_opt enc ds = Some cs /\ Forall2 (codec_ok cfg enc dec szof) ds cs /\ Forall Pin cs.
  Proof.
    induction 1 as [|d t Hd Ht IH].
    - exists []. split; [reflexivity|split; constructor].
    - destruct Hd as (c & Hok & Hp). destruct IH as (cs & Hm & Hf & Hps). exists (c :: cs).
      cbn [map_opt]. pose proof Hok as (He & _). rewrite He, Hm.
      split; [reflexivity|split; constructor; assumption].
  Qed.

  Lemma wrap_rel_empty st : Rel st spec_empty -> wrap_rel cfg enc dec szof Rel st spec_empty.
  Proof.
    intros HR. exists spec_empty. split; [exact HR|]. split; [intros id; reflexivity|split; reflexivity].
  Qed.

  (* ---------------- the clauses ---------------- *)
  Hypothesis HI : refines B Pin I Rel.

  Lemma read_all_rel ids : forall st si, Rel st si -> Rel (read_all I st ids) si.
  Proof.
    unfold read_all. induction ids as [|id t IH]; intros st si HR; cbn [fold_left]; [exact HR|].
    apply IH. apply (rf_get B Pin I Rel HI st si id HR).
  Qed.

  Lemma wrap_put_clause st s d :
    wrap_rel cfg enc dec szof Rel st s -> wrap_P cfg enc dec szof Pin d -> s_next s + 1 < B ->
    snd (w_put I enc st d) = Some (s_next s) /\
    wrap_rel cfg enc dec szof Rel (fst (w_put I enc st d)) (fst (spec_put s d)).
  Proof.
    intros (si & HR & HP) (c & Hok & Hpc) Hb. pose proof HP as (Hl & Hc & Hn). pose proof Hok as (He & _).
    unfold w_put. rewrite He.
    destruct (rf_put B Pin I Rel HI st si c HR Hpc ltac:(lia)) as [H1 H2].
    split; [rewrite H1, Hn; reflexivity|].
    exists (fst (spec_put si c)). split; [exact H2|]. exact (prel_put s si d c HP Hok).
  Qed.

  Lemma wrap_remove_clause st s id :
    wrap_rel cfg enc dec szof Rel st s ->
    snd (w_remove I cfg st id) = live_some s id /\
    wrap_rel cfg enc dec szof Rel (fst (w_remove I cfg st id)) (spec_remove s id).
  Proof.
    intros (si & HR & HP). unfold w_remove.
    assert (Hgen : forall st', Rel st' si ->
              snd (o_remove I st' id) = live_some s id /\
              wrap_rel cfg enc dec szof Rel (fst (o_remove I st' id)) (spec_remove s id)).
    { intros st' HR'. destruct (rf_remove B Pin I Rel HI st' si id HR') as [H1 H2]. split.
      - rewrite H1. apply prel_live_some. exact HP.
      - exists (spec_remove si id). split; [exact H2|]. exact (prel_remove s si id HP). }
    destruct (w_rm_reads cfg).
    - destruct (rf_get B Pin I Rel HI st si id HR) as [_ H2].
      destruct (o_get I st id) as [st1 g]. cbn [fst] in H2. apply Hgen. exact H2.
    - apply Hgen. exact HR.
  Qed.

  Lemma wrap_get_clause st s id :
    wrap_rel cfg enc dec szof Rel st s ->
    snd (w_get I dec st id) = s_live s id /\ wrap_rel cfg enc dec szof Rel (fst (w_get I dec st id)) s.
  Proof.
    intros (si & HR & HP). unfold w_get.
    destruct (rf_get B Pin I Rel HI st si id HR) as [H1 H2].
    destruct (o_get I st id) as [st1 g]. cbn [fst snd] in *. subst g.
    split; [exact (prel_get s si id HP)|]. exists si. split; [exact H2|exact HP].
  Qed.

  Lemma wrapper_refines_sec :
    refines B (wrap_P cfg enc dec szof Pin) (wrap_ops I cfg enc dec szof) (wrap_rel cfg enc dec szof Rel).
  Proof.
    constructor; cbn [wrap_ops o_put o_batch o_remove o_rmbatch o_get o_getbatch o_contains o_size o_len].
    - (* put *) exact wrap_put_clause.
    - (* put_batch *)
      intros st s ds HR HPd Hb. destruct (w_batch cfg).
      + destruct HR as (si & HR & HP). destruct (wrapP_map ds HPd) as (cs & Hm & Hf & Hps). rewrite Hm.
        pose proof (Forall2_nlen _ _ _ Hf) as Hlen. pose proof HP as (_ & _ & Hn).
        destruct (prel_put_batch ds cs Hf s si HP) as [H1 H2].
        destruct (rf_batch B Pin I Rel HI st si cs HR Hps ltac:(lia)) as [H3 H4].
        split; [rewrite H3, H1; reflexivity|].
        exists (fst (spec_put_batch si cs)). split; [exact H4|exact H2].
      + exact (put_loop_refines B (wrap_P cfg enc dec szof Pin) (wrap_rel cfg enc dec szof Rel) _
                                wrap_put_clause ds st s HR HPd Hb).
    - (* remove *) exact wrap_remove_clause.
    - (* remove_batch *)
      intros st s ids HR. destruct (w_batch cfg).
      + destruct HR as (si & HR & HP).
        assert (HR' : Rel (if w_rm_reads cfg then read_all I st ids else st) si).
        { destruct (w_rm_reads cfg); [apply read_all_rel|]; exact HR. }
        destruct (rf_rmbatch B Pin I Rel HI _ si ids HR') as [H1 H2].
        destruct (prel_rm_batch ids s si HP) as [H3 H4].
        split; [rewrite H1, H3; reflexivity|].
        exists (fst (spec_rm_batch si ids)). split; [exact H2|exact H4].
      + exact (rm_loop_refines (wrap_rel cfg enc dec szof Rel) _ wrap_remove_clause ids st s HR).
    - (* get *) exact wrap_get_clause.
    - (* get_batch *)
      intros st s ids HR. destruct (w_batch cfg).
      + destruct HR as (si & HR & HP).
        destruct (rf_getbatch B Pin I Rel HI st si ids HR) as [H1 H2].
        destruct (o_getbatch I st ids) as [st1 r]. cbn [fst snd] in *. subst r. cbn [obind].
        split; [exact (prel_getbatch s si HP ids)|]. exists si. split; [exact H2|exact HP].
      + exact (get_loop_refines (wrap_rel cfg enc dec szof Rel) _ wrap_get_clause ids st s HR).
    - (* contains *)
      intros st s id (si & HR & HP). rewrite (rf_contains B Pin I Rel HI st si id HR).
      exact (prel_live_some s si id HP).
    - (* size *)
      intros st s id (si & HR & HP). pose proof HP as (Hl & Hc & Hn). pose proof (Hl id) as Hid.
      destruct (w_size cfg) eqn:Esz.
      + (* decode and measure *)
        destruct (rf_get B Pin I Rel HI st si id HR) as [H1 H2].
        destruct (o_get I st id) as [st1 g]. cbn [fst snd] in *. subst g.
        split; [|exists si; split; [exact H2|exact HP]].
        revert Hid. destruct (s_live s id) as [d|]; intros Hid.
        * destruct Hid as (c & Hsi & _ & Hd & _). rewrite Hsi. cbn [obind]. rewrite Hd. reflexivity.
        * rewrite Hid. reflexivity.
      + (* contains?, get, header field *)
        rewrite (rf_contains B Pin I Rel HI st si id HR), (prel_live_some s si id HP). unfold live_some.
        revert Hid. destruct (s_live s id) as [d|]; intros Hid.
        * destruct Hid as (c & Hsi & Hok).
          destruct (rf_get B Pin I Rel HI st si id HR) as [H1 H2].
          destruct (o_get I st id) as [st1 g]. cbn [fst snd] in *. subst g.
          split; [|exists si; split; [exact H2|exact HP]].
          rewrite Hsi. cbn [obind option_map]. unfold codec_ok in Hok. rewrite Esz in Hok. apply Hok.
        * cbn [fst snd option_map]. split; [reflexivity|]. exists si. split; [exact HR|exact HP].
      + (* inner size *)
        destruct (rf_size B Pin I Rel HI st si id HR) as [H1 H2].
        split; [|exists si; split; [exact H2|exact HP]].
        rewrite H1. revert Hid. destruct (s_live s id) as [d|]; intros Hid.
        * destruct Hid as (c & Hsi & Hok). rewrite Hsi. cbn [option_map].
          unfold codec_ok in Hok. rewrite Esz in Hok. destruct Hok as (_ & _ & Hlen). rewrite Hlen. reflexivity.
        * rewrite Hid. reflexivity.
    - (* len *)
      intros st s (si & HR & HP). rewrite (rf_len B Pin I Rel HI st si HR). apply HP.
  Qed.
End WrapProofs.

(* ------------------------------------------------------------------ *)
(* 1. the generic wrapper theorem                                       *)
(* ------------------------------------------------------------------ *)
Theorem wrapper_refines_proof :
  forall (St : Type) (I : store_ops St) (B : N) (Pin : bytes -> Prop) (Rel : St -> spec -> Prop)
         (cfg : wrap_cfg) (enc dec : bytes -> option bytes) (szof : bytes -> option N),
    refines B Pin I Rel ->
    refines B (wrap_P cfg enc dec szof Pin) (wrap_ops I cfg enc dec szof) (wrap_rel cfg enc dec szof Rel).
Proof. intros St I B Pin Rel cfg enc dec szof H. exact (wrapper_refines_sec I B Pin Rel cfg enc dec szof H). Qed.

Theorem wrapper_history_proof :
  forall (St : Type) (I : store_ops St) (B : N) (Pin : bytes -> Prop) (Rel : St -> spec -> Prop)
         (cfg : wrap_cfg) (enc dec : bytes -> option bytes) (szof : bytes -> option N),
    refines B Pin I Rel ->
    forall ops st s, wrap_rel cfg enc dec szof Rel st s ->
      Forall (wrap_P cfg enc dec szof Pin) (xrecords ops) -> s_next s + xputs ops < B ->
      st_run (wrap_ops I cfg enc dec szof) st ops = spec_xrun s ops.
Proof.
  intros St I B Pin Rel cfg enc dec szof H ops st s HR HP Hb.
  exact (refines_run B _ _ _ (wrapper_refines_proof St I B Pin Rel cfg enc dec szof H) ops st s HR HP Hb).
Qed.

(* ------------------------------------------------------------------ *)
(* 2. the Huffman frame                                                 *)
(* ------------------------------------------------------------------ *)
Lemma hunframe_0 n p : hunframe (hframe 0 n p) = Some (0, nlen p, p).
Proof. reflexivity. Qed.

Lemma hunframe_1 x c : x < W64 -> hunframe (hframe 1 x c) = Some (1, x, c).
Proof.
  intros Hx. unfold hframe. change (1 =? 1) with true. cbv beta iota.
  rewrite (N.mod_small x W64 Hx). unfold hunframe. cbv beta iota.
  assert (Hlen : 8 <=? nlen (le_bytes 8 x ++ c) = true).
  { apply N.leb_le. rewrite nlen_app, nlen_length, le_bytes_length. change (N.of_nat 8) with 8. lia. }
  rewrite Hlen.
  rewrite (firstn_len_app 8 (le_bytes 8 x) c (le_bytes_length 8 x)).
  rewrite (skipn_len_app 8 (le_bytes 8 x) c (le_bytes_length 8 x)).
  rewrite (le_value_le_bytes_8 x Hx). reflexivity.
Qed.

Lemma huff_enc_nonempty trained hcode d :
  d <> [] ->
  huff_enc trained hcode d =
  if trained then match hcode d with Some c => Some (hframe 1 (nlen d) c) | None => Some (hframe 0 (nlen d) d) end
  else Some (hframe 0 (nlen d) d).
Proof. intros Hd. destruct d as [|b t]; [exfalso; apply Hd; reflexivity|reflexivity]. Qed.

Lemma huff_frame0_ok trained hdecode n p :
  huff_dec trained hdecode (hframe 0 n p) = Some p /\ huff_szof (hframe 0 n p) = Some (nlen p).
Proof. unfold huff_dec, huff_szof. rewrite hunframe_0. split; reflexivity. Qed.

Lemma huff_frame1_ok hdecode x c :
  x < W64 ->
  huff_dec true hdecode (hframe 1 x c) = hdecode c x /\ huff_szof (hframe 1 x c) = Some x.
Proof. intros Hx. unfold huff_dec, huff_szof. rewrite (hunframe_1 x c Hx). split; reflexivity. Qed.

Theorem huffman_frame_codec_ok :
  forall (trained : bool) (hcode : bytes -> option bytes) (hdecode : bytes -> N -> option bytes),
    (forall d c, hcode d = Some c -> hdecode c (nlen d) = Some d) ->
    forall d, nlen d < W64 ->
      exists c, codec_ok huff_cfg (huff_enc trained hcode) (huff_dec trained hdecode) huff_szof d c.
Proof.
  intros trained hcode hdecode Hrt d Hd. unfold codec_ok. cbn [huff_cfg w_size].
  destruct d as [|b t] eqn:Ed.
  - exists [0]. split; [reflexivity|split; reflexivity].
  - rewrite <- Ed in *. assert (Hne : d <> []) by (rewrite Ed; discriminate).
    rewrite (huff_enc_nonempty trained hcode d Hne).
    destruct trained.
    + destruct (hcode d) as [c|] eqn:Ec.
      * exists (hframe 1 (nlen d) c). split; [reflexivity|].
        destruct (huff_frame1_ok hdecode (nlen d) c Hd) as [H1 H2].
        split; [rewrite H1; exact (Hrt d c Ec)|exact H2].
      * exists (hframe 0 (nlen d) d). split; [reflexivity|]. apply huff_frame0_ok.
    + exists (hframe 0 (nlen d) d). split; [reflexivity|]. apply huff_frame0_ok.
Qed.

(* ------------------------------------------------------------------ *)
(* 3. the wrappers of the code over MemoryBlobStore, every history      *)
(* ------------------------------------------------------------------ *)
Lemma zstd_wrap_P_all (comp decomp : bytes -> option bytes) :
  (forall d, exists c, comp d = Some c /\ decomp c = Some d) ->
  forall d, wrap_P zstd_cfg comp decomp (fun _ => None) (fun _ => True) d.
Proof.
  intros Hc d. destruct (Hc d) as (c & H1 & H2). exists c. split; [|exact I].
  split; [exact H1|split; [exact H2|exact I]].
Qed.

Theorem zstd_over_memory_history_proof :
  forall (comp decomp : bytes -> option bytes),
    (forall d, exists c, comp d = Some c /\ decomp c = Some d) ->
    forall ops, 1 + xputs ops < W32 ->
      st_run (zstd_ops mem_ops comp decomp) mem_empty ops = spec_xrun spec_empty ops.
Proof.
  intros comp decomp Hc ops Hb. unfold zstd_ops.
  apply (wrapper_history_proof mem mem_ops W32 (fun _ => True) R zstd_cfg comp decomp (fun _ => None)
                               mem_store_refines ops mem_empty spec_empty).
  - apply wrap_rel_empty. exact R_empty.
  - apply Forall_forall. intros d _. exact (zstd_wrap_P_all comp decomp Hc d).
  - cbn [spec_empty s_next]. exact Hb.
Qed.

Lemma huff_wrap_P (trained : bool) (hcode : bytes -> option bytes) (hdecode : bytes -> N -> option bytes)
      (Pin : bytes -> Prop) :
  (forall d c, hcode d = Some c -> hdecode c (nlen d) = Some d) ->
  (forall c, Pin c) ->
  forall ds, Forall (fun d => nlen d < W64) ds ->
    Forall (wrap_P huff_cfg (huff_enc trained hcode) (huff_dec trained hdecode) huff_szof Pin) ds.
Proof.
  intros Hrt Hpin ds Hds. apply (Forall_impl _ (P := fun d => nlen d < W64)); [|exact Hds].
  intros d Hd. destruct (huffman_frame_codec_ok trained hcode hdecode Hrt d Hd) as (c & Hok).
  exists c. split; [exact Hok|apply Hpin].
Qed.

Theorem huffman_over_memory_history_proof :
  forall (trained : bool) (hcode : bytes -> option bytes) (hdecode : bytes -> N -> option bytes),
    (forall d c, hcode d = Some c -> hdecode c (nlen d) = Some d) ->
    forall ops, Forall (fun d => nlen d < W64) (xrecords ops) -> 1 + xputs ops < W32 ->
      st_run (huff_ops trained hcode hdecode mem_ops) mem_empty ops = spec_xrun spec_empty ops.
Proof.
  intros trained hcode hdecode Hrt ops Hrec Hb. unfold huff_ops.
  apply (wrapper_history_proof mem mem_ops W32 (fun _ => True) R huff_cfg
                               (huff_enc trained hcode) (huff_dec trained hdecode) huff_szof
                               mem_store_refines ops mem_empty spec_empty).
  - apply wrap_rel_empty. exact R_empty.
  - apply (huff_wrap_P trained hcode hdecode (fun _ => True) Hrt (fun _ => I) _ Hrec).
  - cbn [spec_empty s_next]. exact Hb.
Qed.

Theorem pass_over_memory_history_proof :
  forall ops, 1 + xputs ops < W32 -> st_run (pass_ops mem_ops) mem_empty ops = spec_xrun spec_empty ops.
Proof.
  intros ops Hb. unfold pass_ops.
  apply (wrapper_history_proof mem mem_ops W32 (fun _ => True) R pass_cfg
                               (fun d => Some d) (fun c => Some c) (fun _ => None)
                               mem_store_refines ops mem_empty spec_empty).
  - apply wrap_rel_empty. exact R_empty.
  - apply Forall_forall. intros d _. exists d. split; [|exact I].
    split; [reflexivity|split; reflexivity].
  - cbn [spec_empty s_next]. exact Hb.
Qed.

(* a stack: Huffman framing over zstd over memory (wrappers compose) *)
Theorem huffman_over_zstd_over_memory_history_proof :
  forall (comp decomp : bytes -> option bytes) (trained : bool) (hcode : bytes -> option bytes) (hdecode : bytes -> N -> option bytes),
    (forall d, exists c, comp d = Some c /\ decomp c = Some d) ->
    (forall d c, hcode d = Some c -> hdecode c (nlen d) = Some d) ->
    forall ops, Forall (fun d => nlen d < W64) (xrecords ops) -> 1 + xputs ops < W32 ->
      st_run (huff_ops trained hcode hdecode (zstd_ops mem_ops comp decomp)) mem_empty ops = spec_xrun spec_empty ops.
Proof.
  intros comp decomp trained hcode hdecode Hc Hrt ops Hrec Hb. unfold huff_ops.
  apply (wrapper_history_proof mem (zstd_ops mem_ops comp decomp) W32
           (wrap_P zstd_cfg comp decomp (fun _ => None) (fun _ => True))
           (wrap_rel zstd_cfg comp decomp (fun _ => None) R)
           huff_cfg (huff_enc trained hcode) (huff_dec trained hdecode) huff_szof
           (wrapper_refines_proof mem mem_ops W32 (fun _ => True) R zstd_cfg comp decomp (fun _ => None)
                                  mem_store_refines)
           ops mem_empty spec_empty).
  - apply wrap_rel_empty. apply wrap_rel_empty. exact R_empty.
  - apply (huff_wrap_P trained hcode hdecode _ Hrt (zstd_wrap_P_all comp decomp Hc) _ Hrec).
  - cbn [spec_empty s_next]. exact Hb.
Qed.

(* ------------------------------------------------------------------ *)
(* 4. the wrapped stores run                                            *)
(* ------------------------------------------------------------------ *)
Definition wtoy_comp (d : bytes) : option bytes := Some (7 :: d).
Definition wtoy_decomp (c : bytes) : option bytes := match c with 7 :: d => Some d | _ => None end.
Definition wtoy_history : list xop :=
  [XO (MPut [1;2]); XO (MBatch [[3]; []; [4;5;6]]); XGetBatch [1; 9; 3; 4]; XRmBatch [1; 1; 7; 2];
   XO (MQuery 1); XO (MQuery 4); XO (MRemove 3); XO (MRemove 3); XO MLen; XO (MPut []); XO (MQuery 5)].

Definition wtoy_expected : list (list N) :=
  [[1]; [2; 3; 4]; [1; 2; 1; 2; 0; 1; 0; 1; 3; 4; 5; 6]; [2]; [0]; [1; 3; 4; 5; 6]; [1]; [0]; [1]; [5]; [1; 0]].
Definition wtoy_huff {St} (I : store_ops St) : store_ops St :=
  huff_ops true (fun d => Some (rev d)) (fun c _ => Some (rev c)) I.

Example wrapper_nontrivial :
  spec_xrun spec_empty wtoy_history = wtoy_expected /\
  st_run (zstd_ops mem_ops wtoy_comp wtoy_decomp) mem_empty wtoy_history = wtoy_expected /\
  st_run (wtoy_huff mem_ops) mem_empty wtoy_history = wtoy_expected /\
  st_run (pass_ops mem_ops) mem_empty wtoy_history = wtoy_expected /\
  st_run (wtoy_huff (zstd_ops mem_ops wtoy_comp wtoy_decomp)) mem_empty wtoy_history = wtoy_expected /\
  (* what the inner store holds is the transformed record *)
  mem_get (st_exec (zstd_ops mem_ops wtoy_comp wtoy_decomp) mem_empty wtoy_history) 4 = Some [7; 4; 5; 6] /\
  mem_get (st_exec (wtoy_huff mem_ops) mem_empty wtoy_history) 4 = Some [1; 3; 0; 0; 0; 0; 0; 0; 0; 6; 5; 4] /\
  mem_get (st_exec (wtoy_huff (zstd_ops mem_ops wtoy_comp wtoy_decomp)) mem_empty wtoy_history) 4
    = Some [7; 1; 3; 0; 0; 0; 0; 0; 0; 0; 6; 5; 4] /\
  mem_get (st_exec (wtoy_huff mem_ops) mem_empty wtoy_history) 5 = Some [0].
Proof. vm_compute. repeat split; reflexivity. Qed.

(* the hypotheses of the theorems above are satisfiable by these toy codecs *)
Example toy_codec_hypotheses :
  (forall d, exists c, wtoy_comp d = Some c /\ wtoy_decomp c = Some d) /\
  (forall d c, (fun d => Some (rev d)) d = Some c -> (fun (c : bytes) (_ : N) => Some (rev c)) c (nlen d) = Some d).
Proof.
  split.
  - intros d. exists (7 :: d). split; reflexivity.
  - intros d c H. inversion H; subst. rewrite rev_involutive. reflexivity.
Qed.
