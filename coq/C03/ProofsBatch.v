(* C03 — BatchZipOffsetBlobStoreBuilder: for every batch size and every interleaving of add_record / flush_batch the
   batch builder never trips a slice bound, answers the ids 0,1,2,... and finishes with exactly what the plain
   ZipOffsetBlobStoreBuilder gives on the same records. *)
From ZV.Common Require Import Base Run.
From ZV.C03 Require Import Model ModelBatch ProofsZip.
Open Scope N_scope.

Lemma slice_mid {A} (pre d rest : list A) :
  slice (pre ++ d ++ rest) (N.to_nat (nlen pre)) (N.to_nat (nlen d)) = d.
Proof.
  rewrite !nlen_length, !Nat2N.id. unfold slice.
  rewrite skipn_app, skipn_all, Nat.sub_diag. cbn [skipn app].
  rewrite firstn_app, firstn_all, Nat.sub_diag. cbn [firstn]. apply app_nil_r.
Qed.

Section BatchProofs.
  Variable comp : N -> bytes -> bytes.
  Variable c : zcfg.

  Lemma flush_go_ok (pending : list bytes) : forall (pre : bytes) inner,
    bb_flush_go comp c inner (pre ++ concat pending) (nlen pre) (map (fun d => nlen d) pending)
    = Some (fold_left (zb_add comp c) pending inner).
  Proof.
    induction pending as [|d t IH]; intros pre inner; cbn [concat map bb_flush_go fold_left]; [reflexivity|].
    assert (E : (nlen (pre ++ d ++ concat t) <? nlen pre + nlen d) = false).
    { apply N.ltb_ge. rewrite !nlen_app. lia. }
    rewrite E. rewrite slice_mid. rewrite app_assoc, <- nlen_app. apply IH.
  Qed.

  Lemma zb_len_fold (ds : list bytes) : forall b,
    zb_len (fold_left (zb_add comp c) ds b) = zb_len b + nlen ds.
  Proof.
    induction ds as [|d t IH]; intros b; cbn [fold_left nlen]; [lia|].
    rewrite IH. unfold zb_len, zb_add. cbn [b_offs]. rewrite nlen_app. cbn [nlen]. lia.
  Qed.

  Definition Inv (bs : N) (b : bbuilder) (flushed pending : list bytes) : Prop :=
    bb_inner b = fold_left (zb_add comp c) flushed zb_empty /\
    bb_buf b = concat pending /\
    bb_lens b = map (fun d => nlen d) pending /\
    bb_count b = nlen pending /\
    bb_size b = bs.

  Lemma flush_inv bs b f p : Inv bs b f p ->
    exists b', bb_flush comp c b = Some b' /\ Inv bs b' (f ++ p) [].
  Proof.
    destruct b as [inner buf lens size count]. unfold Inv. cbn [bb_inner bb_buf bb_lens bb_count bb_size].
    intros (Hi & Hb & Hl & Hc & Hs). subst. unfold bb_flush. cbn [bb_inner bb_buf bb_lens bb_count bb_size].
    destruct (nlen p =? 0) eqn:E.
    - assert (p = []) as ->. { destruct p; [reflexivity|]. apply N.eqb_eq in E. cbn [nlen] in E. lia. }
      eexists; split; [reflexivity|]. cbn [bb_inner bb_buf bb_lens bb_count bb_size]. rewrite app_nil_r.
      repeat split; reflexivity.
    - pose proof (flush_go_ok p [] (fold_left (zb_add comp c) f zb_empty)) as H. cbn [app nlen] in H. rewrite H.
      eexists; split; [reflexivity|]. cbn [bb_inner bb_buf bb_lens bb_count bb_size]. rewrite fold_left_app.
      repeat split; reflexivity.
  Qed.

  Lemma add_inv bs b f p d : Inv bs b f p ->
    exists b' f' p', bb_add comp c b d = Some (b', (nlen f + nlen p) mod W32)
                     /\ Inv bs b' f' p' /\ f' ++ p' = f ++ p ++ [d].
  Proof.
    intros HI. unfold bb_add.
    assert (Hlen : bb_len b = nlen f + nlen p).
    { destruct HI as (Hi & _ & _ & Hc & _). unfold bb_len. rewrite Hi, Hc, zb_len_fold. unfold zb_len. cbn. lia. }
    rewrite Hlen.
    set (b1 := {| bb_inner := bb_inner b; bb_buf := bb_buf b ++ d; bb_lens := bb_lens b ++ [nlen d];
                  bb_size := bb_size b; bb_count := bb_count b + 1 |}).
    assert (HI1 : Inv bs b1 f (p ++ [d])).
    { destruct HI as (Hi & Hb & Hl & Hc & Hs). unfold Inv, b1. cbn [bb_inner bb_buf bb_lens bb_count bb_size].
      repeat split.
      - exact Hi.
      - rewrite Hb, concat_app. cbn [concat]. rewrite app_nil_r. reflexivity.
      - rewrite Hl, map_app. reflexivity.
      - rewrite Hc, nlen_app. reflexivity.
      - exact Hs. }
    destruct (bb_size b1 <=? bb_count b1).
    - destruct (flush_inv _ _ _ _ HI1) as (b2 & Hf & HI2). rewrite Hf.
      exists b2, (f ++ p ++ [d]), []. split; [reflexivity|]. split; [exact HI2|]. apply app_nil_r.
    - exists b1, f, (p ++ [d]). split; [reflexivity|]. split; [exact HI1|reflexivity].
  Qed.

  Lemma run_inv bs (ops : list bop) : forall b f p, Inv bs b f p ->
    exists b' f' p',
      bb_run comp c b ops
      = Some (b', map (fun i => N.of_nat i mod W32) (seq (length f + length p) (length (bop_recs ops))))
      /\ Inv bs b' f' p' /\ f' ++ p' = f ++ p ++ bop_recs ops.
  Proof.
    induction ops as [|o t IH]; intros b f p HI.
    - exists b, f, p. cbn [bb_run bop_recs length seq map]. split; [reflexivity|]. split; [exact HI|].
      rewrite app_nil_r. reflexivity.
    - destruct o as [d|]; cbn [bb_run bop_recs].
      + destruct (add_inv bs b f p d HI) as (b1 & f1 & p1 & Ha & HI1 & Heq). rewrite Ha.
        destruct (IH b1 f1 p1 HI1) as (b' & f' & p' & Hr & HI' & Heq'). rewrite Hr.
        exists b', f', p'. split; [|split; [exact HI'|]].
        * cbn [length seq map]. f_equal. f_equal. f_equal.
          -- rewrite !nlen_length. rewrite Nat2N.inj_add. reflexivity.
          -- f_equal. f_equal.
             assert (L : length (f1 ++ p1) = length (f ++ p ++ [d])) by (rewrite Heq; reflexivity).
             rewrite !app_length in L. cbn [length] in L. lia.
        * rewrite Heq'. rewrite app_assoc, Heq. rewrite <- !app_assoc. reflexivity.
      + destruct (flush_inv bs b f p HI) as (b1 & Hf & HI1). rewrite Hf.
        destruct (IH b1 (f ++ p) [] HI1) as (b' & f' & p' & Hr & HI' & Heq'). rewrite Hr.
        exists b', f', p'. split; [|split; [exact HI'|]].
        * rewrite app_length. cbn [length]. rewrite Nat.add_0_r. reflexivity.
        * rewrite Heq'. cbn [app]. rewrite <- app_assoc. reflexivity.
  Qed.

  Lemma finish_inv bs b f p : Inv bs b f p ->
    bb_finish comp c b = zb_finish c (fold_left (zb_add comp c) (f ++ p) zb_empty).
  Proof.
    intros HI. destruct (flush_inv bs b f p HI) as (b' & Hf & HI'). unfold bb_finish. rewrite Hf.
    destruct HI' as (Hi & _). rewrite Hi. reflexivity.
  Qed.
End BatchProofs.

Theorem batch_builder_equals_builder_proof : forall comp c bs ops,
  batch_build comp c bs ops = Some (seq_ids (length (bop_recs ops)), zip_build comp c (bop_recs ops)).
Proof.
  intros comp c bs ops. unfold batch_build.
  assert (HI : Inv comp c bs (bb_new bs) [] []) by (unfold Inv, bb_new; cbn; repeat split; reflexivity).
  destruct (run_inv comp c bs ops _ _ _ HI) as (b' & f' & p' & Hr & HI' & Heq). rewrite Hr.
  rewrite (finish_inv comp c bs b' f' p' HI'). rewrite Heq. cbn [app length Nat.add].
  reflexivity.
Qed.

Lemma seq_ids_nth n i : (i < n)%nat -> nth i (seq_ids n) 0 = N.of_nat i mod W32.
Proof.
  intros Hi. unfold seq_ids. set (g := fun i => N.of_nat i mod W32).
  rewrite nth_indep with (d' := g 0%nat) by (rewrite map_length, seq_length; lia).
  rewrite map_nth, seq_nth by lia. reflexivity.
Qed.

Theorem batch_get_record_proof : forall comp decomp, (forall l d, decomp (comp l d) = Some d) ->
  forall c bs ops ids st i,
    batch_build comp c bs ops = Some (ids, Some st) ->
    nsum (map (fun d => nlen (stored comp c d)) (bop_recs ops)) < 2 ^ z_sw c ->
    (i < length (bop_recs ops))%nat ->
    zip_get decomp c st (N.of_nat i) = Some (nth i (bop_recs ops) []) /\ zip_len st = nlen (bop_recs ops)
    /\ nth i ids 0 = N.of_nat i mod W32.
Proof.
  intros comp decomp Hc c bs ops ids st i Hb Hcap Hi.
  rewrite batch_builder_equals_builder_proof in Hb. injection Hb as Hids Hst. subst ids.
  destruct (zip_get_record_closed comp decomp Hc c (bop_recs ops) st i Hst Hcap Hi) as [H1 H2].
  split; [exact H1|]. split; [exact H2|]. apply seq_ids_nth. exact Hi.
Qed.

Theorem batch_absent_proof : forall comp decomp, (forall l d, decomp (comp l d) = Some d) ->
  forall c bs ops ids st id,
    batch_build comp c bs ops = Some (ids, Some st) ->
    nsum (map (fun d => nlen (stored comp c d)) (bop_recs ops)) < 2 ^ z_sw c ->
    nlen (bop_recs ops) <= id ->
    zip_get decomp c st id = None /\ zip_contains st id = false.
Proof.
  intros comp decomp Hc c bs ops ids st id Hb Hcap Hid.
  rewrite batch_builder_equals_builder_proof in Hb. injection Hb as _ Hst.
  exact (zip_absent_closed comp decomp Hc c (bop_recs ops) st id Hst Hcap Hid).
Qed.

Example batch_nontrivial :
  batch_build id_codec_c {| z_cl := 0; z_ck := 2; z_log2 := 6; z_ow := 16; z_sw := 32; z_simd := 1 |} 2
    [BAdd [1;2;3]; BAdd []; BFlush; BAdd [4]]
  = Some ([0;1;2], zip_build id_codec_c {| z_cl := 0; z_ck := 2; z_log2 := 6; z_ow := 16; z_sw := 32; z_simd := 1 |}
                     [[1;2;3]; []; [4]])
  /\ zip_build id_codec_c {| z_cl := 0; z_ck := 2; z_log2 := 6; z_ow := 16; z_sw := 32; z_simd := 1 |}
       [[1;2;3]; []; [4]] <> None.
Proof. split; [vm_compute; reflexivity | vm_compute; discriminate]. Qed.

