(* C03 — NestLoudsTrieBlobStoreBuilder and the part of NestLoudsTrieBlobStore it drives
   (src/blob_store/nest_louds_trie_blob_store.rs).  Definitions only.

   Builder: `add`/`add_batch` push (key, value) onto `entries`; `finish` / `finish_with_progress` sort the entries by key
   when `config.enable_batch_optimization` is set (`entries.sort_by(|a, b| a.0.cmp(&b.0))`: a STABLE sort, compared by
   `Vec<u8>::cmp` = lexicographic), create an empty store, call `put_with_key` for every entry in that order and
   `finalize` the store.

   Store (`put_with_key`, `get_by_key`, `contains_key`, `get`, `contains`, `len`): the trie maps a key to a node id
   (`insert_and_get_node_id`, `lookup_node_id` - ZiporaTrie is C05's, here a parameter with the law `trie_lawful`);
   every put takes the next record id (u32 counter from 0) as blob id, stores the value in `temp_blob_storage`
   (HashMap blob id -> bytes = association list), points `node_to_blob_map[node]` at the NEW blob (so the value put last
   under a key is the key's value), and writes `record_to_node_map[id]`, `record_to_blob_map[id]` (vectors grown with
   usize::MAX up to the index, then assigned). *)
From ZV.Common Require Import Base Run.
From ZV.C03 Require Import Model.
Open Scope N_scope.

(* Vec<u8>::cmp(a, b) == Less *)
Fixpoint bytes_ltb (a b : bytes) : bool :=
  match a, b with
  | [], [] => false
  | [], _ :: _ => true
  | _ :: _, [] => false
  | x :: a', y :: b' => if x <? y then true else if y <? x then false else bytes_ltb a' b'
  end.

Definition entry := (bytes * bytes)%type.

(* slice::sort_by with a key comparison, as specified by std: stable.  Stable insertion sort: an element is placed after
   the elements that compare Less than it and before everything else (in particular before the equal ones that followed it) *)
Fixpoint ins_entry (e : entry) (l : list entry) : list entry :=
  match l with
  | [] => [e]
  | h :: t => if bytes_ltb (fst h) (fst e) then h :: ins_entry e t else e :: h :: t
  end.
Definition sort_entries (l : list entry) : list entry := fold_right ins_entry [] l.

Definition USIZE_MAX : N := 18446744073709551615.

Fixpoint set_nth (l : list N) (i : nat) (v : N) : list N :=
  match l, i with
  | [], _ => []                                   (* index out of range: cannot happen after the grow loop *)
  | _ :: t, O => v :: t
  | h :: t, S j => h :: set_nth t j v
  end.
(* while v.len() <= i { v.push(usize::MAX) }; v[i] = x *)
Definition vec_set_grow (l : list N) (i : N) (x : N) : list N :=
  set_nth (l ++ repeat USIZE_MAX (N.to_nat (i + 1 - nlen l))) (N.to_nat i) x.

Definition is_some {A} (o : option A) : bool := match o with Some _ => true | None => false end.

(* the value added last under key k *)
Fixpoint last_value (es : list entry) (k : bytes) : option bytes :=
  match es with
  | [] => None
  | (k', d) :: t =>
      match last_value t k with
      | Some v => Some v
      | None => if eqb_bytes k' k then Some d else None
      end
  end.

Section Nlt.
  Variable T : Type.
  Variable tr_ok : T -> Prop.                              (* well-formed tries (what the trie's own operations produce) *)
  Variable tr_empty : T.
  Variable tr_insert : T -> bytes -> option (T * N).      (* insert_and_get_node_id (may refuse a key) *)
  Variable tr_lookup : T -> bytes -> option N.            (* lookup_node_id *)

  (* what C03 needs of the trie: a key keeps its node, other keys are not disturbed, a new key gets a node no other key has *)
  Definition trie_lawful : Prop :=
    tr_ok tr_empty /\
    (forall k, tr_lookup tr_empty k = None) /\
    (forall t k t' n, tr_ok t -> tr_insert t k = Some (t', n) ->
        tr_ok t' /\
        tr_lookup t' k = Some n /\
        (forall k', k' <> k -> tr_lookup t' k' = tr_lookup t k') /\
        (forall m, tr_lookup t k = Some m -> n = m) /\
        (tr_lookup t k = None -> forall k' m, tr_lookup t k' = Some m -> m <> n)).

  Record nlt := { n_trie : T; n_temp : list (N * bytes); n_n2b : list (N * N);
                  n_r2n : list N; n_r2b : list N; n_next : N; n_final : bool }.
  Definition nlt_new : nlt :=
    {| n_trie := tr_empty; n_temp := []; n_n2b := []; n_r2n := []; n_r2b := []; n_next := 0; n_final := false |}.

  Definition nlt_put_with_key (s : nlt) (k d : bytes) : option (nlt * N) :=
    if n_final s then None else
    match tr_insert (n_trie s) k with
    | None => None
    | Some (t', node) =>
        let id := n_next s in
        Some ({| n_trie := t'; n_temp := ainsert id d (n_temp s); n_n2b := ainsert node id (n_n2b s);
                 n_r2n := vec_set_grow (n_r2n s) id node; n_r2b := vec_set_grow (n_r2b s) id id;
                 n_next := id + 1; n_final := false |}, id)
    end.

  Definition nlt_get_by_key (s : nlt) (k : bytes) : option bytes :=
    match tr_lookup (n_trie s) k with
    | None => None
    | Some node => match alookup node (n_n2b s) with
                   | None => None
                   | Some b => alookup b (n_temp s)
                   end
    end.
  Definition nlt_contains_key (s : nlt) (k : bytes) : bool :=
    match tr_lookup (n_trie s) k with
    | None => false
    | Some node => is_some (alookup node (n_n2b s))
    end.
  Definition nlt_get (s : nlt) (id : N) : option bytes :=
    match nth_error (n_r2b s) (N.to_nat id) with
    | None => None
    | Some b => if b =? USIZE_MAX then None else alookup b (n_temp s)
    end.
  Definition nlt_contains (s : nlt) (id : N) : bool :=
    match nth_error (n_r2b s) (N.to_nat id) with
    | None => false
    | Some b => negb (b =? USIZE_MAX)
    end.
  Definition nlt_len (s : nlt) : N := nlen (filter (fun b => negb (b =? USIZE_MAX)) (n_r2b s)).
  (* finalize: the bulk builder is finished (its own refusal is C03's zip_build); the maps are not touched *)
  Definition nlt_finalize (s : nlt) : nlt :=
    {| n_trie := n_trie s; n_temp := n_temp s; n_n2b := n_n2b s; n_r2n := n_r2n s; n_r2b := n_r2b s;
       n_next := n_next s; n_final := true |}.

  Fixpoint nlt_put_all (s : nlt) (es : list entry) : option nlt :=
    match es with
    | [] => Some s
    | (k, d) :: t => match nlt_put_with_key s k d with
                     | None => None
                     | Some (s', _) => nlt_put_all s' t
                     end
    end.

  (* the order in which finish() inserts *)
  Definition nb_order (batch_opt : bool) (es : list entry) : list entry := if batch_opt then sort_entries es else es.
  Definition nb_finish (batch_opt : bool) (es : list entry) : option nlt :=
    match nlt_put_all nlt_new (nb_order batch_opt es) with
    | None => None
    | Some s => Some (nlt_finalize s)
    end.
End Nlt.

(* a stand-in trie for the evaluated cases: keys in insertion order, node id = position *)
Definition atrie := list (bytes * N).
Fixpoint atrie_lookup (t : atrie) (k : bytes) : option N :=
  match t with
  | [] => None
  | (k', n) :: r => if eqb_bytes k' k then Some n else atrie_lookup r k
  end.
Definition atrie_insert (t : atrie) (k : bytes) : option (atrie * N) :=
  match atrie_lookup t k with
  | Some n => Some (t, n)
  | None => Some (t ++ [(k, nlen t)], nlen t)
  end.
Definition atrie_ok (t : atrie) : Prop := forall k n, atrie_lookup t k = Some n -> n < nlen t.

Definition anb_finish := nb_finish atrie [] atrie_insert.
Definition anlt_get_by_key := nlt_get_by_key atrie atrie_lookup.
Definition anlt_contains_key := nlt_contains_key atrie atrie_lookup.

(* the case the harness writes: entries in the order they were added, whether the preset sorts, and what the real
   finished store answered: get_by_key/contains_key for some keys (added and never added), get(i) for i = 0..n+1, len *)
Definition check_nltb (batch_opt : bool) (es : list entry) (kexp : list (bytes * list N)) (iexp : list (list N)) (len : N) : bool :=
  match anb_finish batch_opt es with
  | None => false
  | Some s =>
      forallb (fun kr => eqb_bytes (obs_query (anlt_get_by_key s (fst kr))) (snd kr)
                         && Bool.eqb (anlt_contains_key s (fst kr)) (negb (eqb_bytes (snd kr) [0]))) kexp
      && eqb_lln (map (fun i => obs_query (nlt_get atrie s (N.of_nat i))) (seq 0 (length iexp))) iexp
      && forallb (fun i => Bool.eqb (nlt_contains atrie s (N.of_nat i)) (is_some (nlt_get atrie s (N.of_nat i)))) (seq 0 (length iexp))
      && (nlt_len atrie s =? len)
  end.
