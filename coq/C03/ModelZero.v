(* C03 — ZeroLengthBlobStore behind the store interface.  Definitions only.

   Modelled code: src/blob_store/zero_length.rs  put (only empty records; id = num_records as RecordId) / get /
   remove (always an error: "does not support removal" for a live id, "not found" otherwise) / contains / size / len,
   put_batch (loop over put), get_batch, remove_batch (Err when any listed id is live, Ok(0) otherwise).
   The state is the record count (usize). *)
From ZV.Common Require Import Base Run.
From ZV.C03 Require Import Model ModelStore.
Open Scope N_scope.

Definition zput (n : N) (d : bytes) : N * option N :=
  match d with
  | [] => (n + 1, Some (n mod W32))          (* `self.num_records as RecordId` *)
  | _ => (n, None)
  end.
Definition zero_ops : store_ops N := {|
  o_put := zput;
  o_batch := put_loop zput;
  o_remove := fun n _ => (n, false);
  o_rmbatch := fun n ids => (n, if existsb (fun id => id <? n) ids then None else Some 0);
  o_get := fun n id => (n, zero_get n id);
  o_getbatch := get_loop (fun n id => (n, zero_get n id));
  o_contains := fun n id => id <? n;
  o_size := fun n id => (n, if id <? n then Some 0 else None);
  o_len := fun n => n |}.

(* the property's machine for a store whose first id is 0 *)
Definition spec_zero : spec := {| s_live := fun _ => None; s_count := 0; s_next := 0 |}.

(* the histories the store is claimed for: every record is empty, and no live record is asked to be removed
   (the store documents that it does not support removal) *)
Fixpoint zero_ok (n : N) (ops : list xop) : Prop :=
  match ops with
  | [] => True
  | XO (MPut d) :: t => d = [] /\ zero_ok (n + 1) t
  | XO (MBatch ds) :: t => Forall (fun d => d = []) ds /\ zero_ok (n + nlen ds) t
  | XO (MRemove id) :: t => n <= id /\ zero_ok n t
  | XRmBatch ids :: t => Forall (fun id => n <= id) ids /\ zero_ok n t
  | _ :: t => zero_ok n t
  end.
