(* C03 — the BlobStore / BatchBlobStore interface as a record of functions, the generic history runner over it,
   and the generic notion "a store refines the property's state machine" that the wrapper theorems quantify over.
   Definitions only.

   Modelled code: src/blob_store/traits.rs (BlobStore: get / put / remove / contains / size / len;
   BatchBlobStore: put_batch / get_batch / remove_batch) and the three loops every non-wrapping store uses to implement
   the batch entry points (MemoryBlobStore, PlainBlobStore, DictZipBlobStore, ZeroLengthBlobStore::put_batch).
   `Result` is rendered as option (None = Err); `get`, `size` return the state as well because some stores fill a
   cache behind `&self` (DictZipBlobStore, CachedBlobStore). *)
From ZV.Common Require Import Base Run.
From ZV.C03 Require Import Model.
Open Scope N_scope.

(* ------------------------------------------------------------------ *)
(* operations: the property's own (mop) plus the batch entry points     *)
(* ------------------------------------------------------------------ *)
Inductive xop :=
| XO (o : mop)
| XRmBatch (ids : list N)       (* remove_batch: observation = [number of records removed] *)
| XGetBatch (ids : list N).     (* get_batch: observation = one obs_query block per id *)

Definition live_some (s : spec) (id : N) : bool :=
  match s_live s id with Some _ => true | None => false end.
Definition spec_remove (s : spec) (id : N) : spec := fst (spec_step s (MRemove id)).
Fixpoint spec_rm_batch (s : spec) (ids : list N) : spec * N :=
  match ids with
  | [] => (s, 0)
  | id :: t => let '(s2, n) := spec_rm_batch (spec_remove s id) t in
               (s2, (if live_some s id then 1 else 0) + n)
  end.
Definition spec_xstep (s : spec) (o : xop) : spec * list N :=
  match o with
  | XO o => spec_step s o
  | XRmBatch ids => let '(s', n) := spec_rm_batch s ids in (s', [n])
  | XGetBatch ids => (s, concat (map (fun id => obs_query (s_live s id)) ids))
  end.
Fixpoint spec_xrun (s : spec) (ops : list xop) : list (list N) :=
  match ops with
  | [] => []
  | o :: t => let '(s', r) := spec_xstep s o in r :: spec_xrun s' t
  end.
Fixpoint xputs (ops : list xop) : N :=
  match ops with
  | [] => 0
  | XO (MPut _) :: t => 1 + xputs t
  | XO (MBatch ds) :: t => nlen ds + xputs t
  | _ :: t => xputs t
  end.
(* the records a history stores *)
Fixpoint xrecords (ops : list xop) : list bytes :=
  match ops with
  | [] => []
  | XO (MPut d) :: t => d :: xrecords t
  | XO (MBatch ds) :: t => ds ++ xrecords t
  | _ :: t => xrecords t
  end.

(* ------------------------------------------------------------------ *)
(* the interface                                                        *)
(* ------------------------------------------------------------------ *)
Record store_ops (St : Type) := {
  o_put : St -> bytes -> St * option N;                               (* None: refused (Err) *)
  o_batch : St -> list bytes -> St * option (list N);
  o_remove : St -> N -> St * bool;                                    (* true: Ok(()) *)
  o_rmbatch : St -> list N -> St * option N;
  o_get : St -> N -> St * option bytes;
  o_getbatch : St -> list N -> St * option (list (option bytes));
  o_contains : St -> N -> bool;
  o_size : St -> N -> St * option N;                                  (* None: Ok(None) or Err *)
  o_len : St -> N }.
Arguments o_put {St}. Arguments o_batch {St}. Arguments o_remove {St}. Arguments o_rmbatch {St}.
Arguments o_get {St}. Arguments o_getbatch {St}. Arguments o_contains {St}. Arguments o_size {St}. Arguments o_len {St}.

(* the observation of get + contains + size on one id: it is the spec's obs_query exactly when the three answers are
   consistent with each other, and [2] (which no obs_query produces) otherwise *)
Definition obs_q3 (g : option bytes) (c : bool) (sz : option N) : list N :=
  match g, c, sz with
  | Some d, true, Some n => 1 :: n :: d
  | None, false, None => [0]
  | _, _, _ => [2]
  end.

Section Run.
  Context {St : Type} (O : store_ops St).
  Definition st_step (st : St) (o : xop) : St * list N :=
    match o with
    | XO (MPut d) => let '(st', r) := o_put O st d in (st', match r with Some id => [id] | None => [] end)
    | XO (MBatch ds) => let '(st', r) := o_batch O st ds in (st', match r with Some ids => ids | None => [] end)
    | XO (MRemove id) => let '(st', b) := o_remove O st id in (st', [if b then 1 else 0])
    | XO (MQuery id) =>
        let '(st1, g) := o_get O st id in
        let c := o_contains O st1 id in
        let '(st2, sz) := o_size O st1 id in
        (st2, obs_q3 g c sz)
    | XO MLen => (st, [o_len O st])
    | XRmBatch ids => let '(st', r) := o_rmbatch O st ids in (st', match r with Some n => [n] | None => [] end)
    | XGetBatch ids => let '(st', r) := o_getbatch O st ids in
                       (st', match r with Some l => concat (map obs_query l) | None => [2] end)
    end.
  Fixpoint st_run (st : St) (ops : list xop) : list (list N) :=
    match ops with
    | [] => []
    | o :: t => let '(st', r) := st_step st o in r :: st_run st' t
    end.
  Fixpoint st_exec (st : St) (ops : list xop) : St :=
    match ops with
    | [] => st
    | o :: t => st_exec (fst (st_step st o)) t
    end.
End Run.

(* ------------------------------------------------------------------ *)
(* the batch entry points as loops over the single-record operations    *)
(* ------------------------------------------------------------------ *)
Section Loops.
  Context {St : Type}.
  (* `for blob in blobs { ids.push(self.put(&blob)?) }`: the first refusal ends the batch, earlier records stay *)
  Fixpoint put_loop (put : St -> bytes -> St * option N) (st : St) (ds : list bytes) : St * option (list N) :=
    match ds with
    | [] => (st, Some [])
    | d :: t =>
      match put st d with
      | (st1, Some id) =>
        match put_loop put st1 t with
        | (st2, Some ids) => (st2, Some (id :: ids))
        | (st2, None) => (st2, None)
        end
      | (st1, None) => (st1, None)
      end
    end.
  (* `for id in ids { if self.remove(id).is_ok() { n += 1 } }` *)
  Fixpoint rm_loop (remove : St -> N -> St * bool) (st : St) (ids : list N) : St * option N :=
    match ids with
    | [] => (st, Some 0)
    | id :: t =>
      let '(st1, b) := remove st id in
      match rm_loop remove st1 t with
      | (st2, Some n) => (st2, Some ((if b then 1 else 0) + n))
      | (st2, None) => (st2, None)
      end
    end.
  (* `for id in ids { results.push(self.get(id).ok()) }` *)
  Fixpoint get_loop (get : St -> N -> St * option bytes) (st : St) (ids : list N) : St * option (list (option bytes)) :=
    match ids with
    | [] => (st, Some [])
    | id :: t =>
      let '(st1, g) := get st id in
      match get_loop get st1 t with
      | (st2, Some l) => (st2, Some (g :: l))
      | (st2, None) => (st2, None)
      end
    end.
End Loops.

(* ------------------------------------------------------------------ *)
(* "store O refines the spec": a simulation, clause by clause           *)
(* ------------------------------------------------------------------ *)
(* B bounds the id counter (the store's id type wraps at B), P is the set of records the store accepts / the set its
   codec is lossless on.  Rel ties a store state to a state of the property's machine. *)
Record refines {St : Type} (B : N) (P : bytes -> Prop) (O : store_ops St) (Rel : St -> spec -> Prop) : Prop := {
  rf_put : forall st s d, Rel st s -> P d -> s_next s + 1 < B ->
      snd (o_put O st d) = Some (s_next s) /\ Rel (fst (o_put O st d)) (fst (spec_put s d));
  rf_batch : forall st s ds, Rel st s -> Forall P ds -> s_next s + nlen ds < B ->
      snd (o_batch O st ds) = Some (snd (spec_put_batch s ds)) /\
      Rel (fst (o_batch O st ds)) (fst (spec_put_batch s ds));
  rf_remove : forall st s id, Rel st s ->
      snd (o_remove O st id) = live_some s id /\ Rel (fst (o_remove O st id)) (spec_remove s id);
  rf_rmbatch : forall st s ids, Rel st s ->
      snd (o_rmbatch O st ids) = Some (snd (spec_rm_batch s ids)) /\
      Rel (fst (o_rmbatch O st ids)) (fst (spec_rm_batch s ids));
  rf_get : forall st s id, Rel st s ->
      snd (o_get O st id) = s_live s id /\ Rel (fst (o_get O st id)) s;
  rf_getbatch : forall st s ids, Rel st s ->
      snd (o_getbatch O st ids) = Some (map (s_live s) ids) /\ Rel (fst (o_getbatch O st ids)) s;
  rf_contains : forall st s id, Rel st s -> o_contains O st id = live_some s id;
  rf_size : forall st s id, Rel st s ->
      snd (o_size O st id) = option_map nlen (s_live s id) /\ Rel (fst (o_size O st id)) s;
  rf_len : forall st s, Rel st s -> o_len O st = s_count s }.

(* ------------------------------------------------------------------ *)
(* MemoryBlobStore behind the interface (the functions of Model.v)      *)
(* ------------------------------------------------------------------ *)
Definition mem_remove (m : mem) (id : N) : mem * bool :=
  match alookup id (mdata m) with
  | Some _ => ({| mdata := aremove id (mdata m); mnext := mnext m |}, true)
  | None => (m, false)
  end.
Definition mem_ops : store_ops mem := {|
  o_put := fun m d => let '(m', id) := mem_put m d in (m', Some id);
  o_batch := put_loop (fun m d => let '(m', id) := mem_put m d in (m', Some id));
  o_remove := mem_remove;
  o_rmbatch := rm_loop mem_remove;
  o_get := fun m id => (m, mem_get m id);
  o_getbatch := get_loop (fun m id => (m, mem_get m id));
  o_contains := fun m id => match mem_get m id with Some _ => true | None => false end;
  o_size := fun m id => (m, option_map nlen (mem_get m id));
  o_len := mem_len |}.
