(* C03 — ZeroLengthBlobStore::finish(n): every history on the finished store refines the property's machine. *)
From ZV.Common Require Import Base Run.
From ZV.C03 Require Import Model ModelStore ModelZero ProofsZero ModelZeroFinish.
Open Scope N_scope.

Lemma zero_rel_finish n : zero_rel n (spec_zero_finish n).
Proof. unfold zero_rel, spec_zero_finish; cbn [s_live s_count s_next]. repeat split. Qed.

Theorem zero_finish_history_proof n ops :
  zero_ok n ops -> n + xputs ops <= W32 ->
  st_run zero_ops (zero_finish n) ops = spec_xrun (spec_zero_finish n) ops.
Proof. intros Hok Hb. unfold zero_finish. apply zero_history_proof; [apply zero_rel_finish|exact Hok|exact Hb]. Qed.

Example zero_finish_nontrivial :
  zero_ok 3 [XO (MQuery 2); XO (MQuery 3); XO (MPut []); XO (MQuery 3); XO MLen] /\
  st_run zero_ops (zero_finish 3) [XO (MQuery 2); XO (MQuery 3); XO (MPut []); XO (MQuery 3); XO MLen]
  = [[1; 0]; [0]; [3]; [1; 0]; [4]].
Proof. split; [cbn [zero_ok]; repeat split|vm_compute; reflexivity]. Qed.
