(* C03: PlainBlobStore, part 1 — file names (decimal rendering, u32 parsing) and the directory map. *)
From ZV.Common Require Import Base Run.
From ZV.C03 Require Import Model ModelStore ModelPlain.
Open Scope N_scope.

(* ---------------- names ---------------- *)
Lemma eqb_ln_eq a : forall b, eqb_ln a b = true <-> a = b.
Proof.
  induction a as [|x a IH]; intros [|y b]; cbn [eqb_ln]; split; intros H; try reflexivity; try discriminate.
  - apply andb_true_iff in H. destruct H as [H1 H2]. apply N.eqb_eq in H1. apply IH in H2. subst. reflexivity.
  - inversion H; subst. rewrite N.eqb_refl. cbn [andb]. apply IH. reflexivity.
Qed.
Lemma eqb_ln_refl a : eqb_ln a a = true.
Proof. apply eqb_ln_eq. reflexivity. Qed.
Lemma eqb_ln_spec a b : reflect (a = b) (eqb_ln a b).
Proof.
  destruct (eqb_ln a b) eqn:E; constructor.
  - apply eqb_ln_eq. exact E.
  - intros H. apply eqb_ln_eq in H. congruence.
Qed.

Lemma is_digit_dec n : is_digit (48 + n mod 10) = true.
Proof. unfold is_digit. apply andb_true_iff. split; [apply N.leb_le|apply N.leb_le]; lia. Qed.

Lemma digits_dec f : forall n acc,
  n < 10 ^ N.of_nat f -> digits_value 0 (dec_digits f n acc) = digits_value n acc.
Proof.
  induction f as [|f IH]; intros n acc Hn.
  - cbn [dec_digits]. change (10 ^ N.of_nat 0) with 1 in Hn. assert (n = 0) by lia. subst. reflexivity.
  - assert (Hp : 10 ^ N.of_nat (S f) = 10 * 10 ^ N.of_nat f).
    { rewrite Nat2N.inj_succ, N.pow_succ_r'. reflexivity. }
    cbn [dec_digits]. destruct (N.eqb_spec (n / 10) 0) as [Hz|Hz].
    + cbn [digits_value]. rewrite is_digit_dec.
      replace (0 * 10 + (48 + n mod 10 - 48)) with n by lia. reflexivity.
    + rewrite IH by lia. cbn [digits_value]. rewrite is_digit_dec.
      replace (n / 10 * 10 + (48 + n mod 10 - 48)) with n by lia. reflexivity.
Qed.

Lemma lt_pow10_log2 n : n < 10 ^ N.of_nat (S (N.to_nat (N.log2 n))).
Proof.
  rewrite Nat2N.inj_succ, N2Nat.id.
  destruct (N.eq_dec n 0) as [->|Hz].
  - change (N.log2 0) with 0. change (10 ^ N.succ 0) with 10. lia.
  - assert (H : n < 2 ^ N.succ (N.log2 n)) by (apply N.log2_spec; lia).
    assert (H2 : 2 ^ N.succ (N.log2 n) <= 10 ^ N.succ (N.log2 n)) by (apply N.pow_le_mono_l; lia).
    lia.
Qed.

Lemma render_value id : digits_value 0 (render id) = Some id.
Proof. unfold render. rewrite digits_dec by apply lt_pow10_log2. reflexivity. Qed.

Lemma dec_digits_head f : forall n acc, exists c t, dec_digits (S f) n acc = c :: t /\ is_digit c = true.
Proof.
  induction f as [|f IH]; intros n acc.
  - cbn [dec_digits]. destruct (n / 10 =? 0); eexists; eexists; split; try reflexivity; apply is_digit_dec.
  - change (dec_digits (S (S f)) n acc) with
      (if n / 10 =? 0 then (48 + n mod 10) :: acc else dec_digits (S f) (n / 10) ((48 + n mod 10) :: acc)).
    destruct (n / 10 =? 0).
    + eexists; eexists; split; [reflexivity|apply is_digit_dec].
    + apply IH.
Qed.
Lemma render_head id : exists c t, render id = c :: t /\ is_digit c = true.
Proof. unfold render. apply dec_digits_head. Qed.

Lemma parse_render id : parse_u32 (render id) = if id <? W32 then Some id else None.
Proof.
  destruct (render_head id) as (c & t & E & Hc). unfold parse_u32.
  assert (Hb : match render id with 43 :: t0 => t0 | _ => render id end = render id).
  { rewrite E. unfold is_digit in Hc. apply andb_true_iff in Hc. destruct Hc as [H1 H2]. apply N.leb_le in H1.
    destruct c as [|p]; [reflexivity|]. destruct (N.eq_dec (N.pos p) 43) as [E43|Hne]; [rewrite E43 in H1; lia|].
    destruct p as [p|p|]; try reflexivity; destruct p as [p|p|]; try reflexivity; destruct p as [p|p|]; try reflexivity;
    destruct p as [p|p|]; try reflexivity; destruct p as [p|p|]; try reflexivity; destruct p as [p|p|]; try reflexivity.
    exfalso. apply Hne. reflexivity. }
  rewrite Hb. rewrite render_value. rewrite E. reflexivity.
Qed.
Lemma parse_render_small id : id < W32 -> parse_u32 (render id) = Some id.
Proof. intros H. rewrite parse_render. destruct (N.ltb_spec id W32); [reflexivity|lia]. Qed.

Lemma render_inj a b : render a = render b -> a = b.
Proof. intros H. pose proof (render_value a) as Ha. rewrite H, render_value in Ha. congruence. Qed.

Lemma parse_tmp id : parse_u32 (tmp_name id) = None.
Proof. reflexivity. Qed.
Lemma tmp_not_render id id' : tmp_name id <> render id'.
Proof.
  intros H. destruct (render_head id') as (c & t & E & Hc). rewrite E in H. unfold tmp_name in H.
  inversion H; subst. discriminate.
Qed.

(* ---------------- the directory map ---------------- *)
Definition dnames (m : dirmap) : list fname := map fst m.

Lemma dlookup_dremove_same k m : dlookup k (dremove k m) = None.
Proof.
  induction m as [|[k' v] t IH]; cbn [dremove dlookup]; [reflexivity|].
  destruct (eqb_ln_spec k k') as [->|Hne]; [exact IH|].
  cbn [dlookup]. destruct (eqb_ln_spec k k'); [contradiction|exact IH].
Qed.
Lemma dlookup_dremove_other k k' m : k <> k' -> dlookup k (dremove k' m) = dlookup k m.
Proof.
  intros Hne. induction m as [|[k2 v] t IH]; cbn [dremove dlookup]; [reflexivity|].
  destruct (eqb_ln_spec k' k2) as [->|Hne2].
  - destruct (eqb_ln_spec k k2); [contradiction|exact IH].
  - cbn [dlookup]. destruct (eqb_ln_spec k k2); [reflexivity|exact IH].
Qed.
Lemma dlookup_dinsert_same k v m : dlookup k (dinsert k v m) = Some v.
Proof. unfold dinsert. cbn [dlookup]. rewrite eqb_ln_refl. reflexivity. Qed.
Lemma dlookup_dinsert_other k k' v m : k <> k' -> dlookup k (dinsert k' v m) = dlookup k m.
Proof.
  intros Hne. unfold dinsert. cbn [dlookup]. destruct (eqb_ln_spec k k'); [contradiction|].
  apply dlookup_dremove_other; assumption.
Qed.
Lemma dlookup_none_notin k m : dlookup k m = None <-> ~ In k (dnames m).
Proof.
  induction m as [|[k' v] t IH]; cbn [dlookup dnames map fst In].
  - split; [intros _ []|reflexivity].
  - destruct (eqb_ln_spec k k') as [->|Hne].
    + split; [discriminate|]. intros H. exfalso. apply H. left. reflexivity.
    + rewrite IH. unfold dnames. split.
      * intros H [E|Hin]; [congruence|contradiction].
      * intros H Hin. apply H. right. exact Hin.
Qed.
Lemma dlookup_in k v m : dlookup k m = Some v -> In (k, v) m.
Proof.
  induction m as [|[k' v'] t IH]; cbn [dlookup In]; [discriminate|].
  destruct (eqb_ln_spec k k') as [->|Hne]; intros H; [inversion H; left; reflexivity|right; apply IH; exact H].
Qed.
Lemma in_dlookup k v m : NoDup (dnames m) -> In (k, v) m -> dlookup k m = Some v.
Proof.
  induction m as [|[k' v'] t IH]; cbn [dlookup In dnames map fst]; intros Hd Hin; [contradiction|].
  inversion Hd as [|x l Hn Hd']; subst. destruct Hin as [E|Hin].
  - inversion E; subst. rewrite eqb_ln_refl. reflexivity.
  - destruct (eqb_ln_spec k k') as [->|Hne].
    + exfalso. apply Hn. change (In k' (map fst t)). apply in_map_iff. exists (k', v). split; [reflexivity|exact Hin].
    + apply IH; assumption.
Qed.
Lemma in_dremove k v k' m : In (k, v) (dremove k' m) -> In (k, v) m /\ k <> k'.
Proof.
  induction m as [|[k2 v2] t IH]; cbn [dremove In]; [intros []|].
  destruct (eqb_ln_spec k' k2) as [->|Hne].
  - intros H. destruct (IH H) as [H1 H2]. split; [right; exact H1|exact H2].
  - cbn [In]. intros [E|H].
    + inversion E; subst. split; [left; reflexivity|congruence].
    + destruct (IH H) as [H1 H2]. split; [right; exact H1|exact H2].
Qed.
Lemma in_dnames_dremove k k' m : In k (dnames (dremove k' m)) -> In k (dnames m) /\ k <> k'.
Proof.
  unfold dnames. intros H. apply in_map_iff in H. destruct H as ([k2 v2] & E & Hin). cbn [fst] in E. subst k2.
  apply in_dremove in Hin. destruct Hin as [H1 H2]. split; [|exact H2].
  apply in_map_iff. exists (k, v2). split; [reflexivity|exact H1].
Qed.
Lemma nodup_dremove k m : NoDup (dnames m) -> NoDup (dnames (dremove k m)).
Proof.
  induction m as [|[k2 v] t IH]; cbn [dremove dnames map fst]; intros H; [constructor|].
  inversion H as [|x l Hn Hd]; subst.
  destruct (eqb_ln_spec k k2); [apply IH; exact Hd|].
  cbn [dnames map fst]. constructor; [|apply IH; exact Hd].
  intros Hin. apply in_dnames_dremove in Hin. apply Hn. apply Hin.
Qed.
Lemma nodup_dinsert k v m : NoDup (dnames m) -> NoDup (dnames (dinsert k v m)).
Proof.
  intros H. unfold dinsert. cbn [dnames map fst]. constructor.
  - intros Hin. apply in_dnames_dremove in Hin. destruct Hin as [_ Hin]. apply Hin. reflexivity.
  - apply nodup_dremove. exact H.
Qed.
Lemma dremove_absent k m : dlookup k m = None -> dremove k m = m.
Proof.
  induction m as [|[k2 v] t IH]; cbn [dremove dlookup]; [reflexivity|].
  destruct (eqb_ln_spec k k2); [discriminate|]. intros H. rewrite IH by exact H. reflexivity.
Qed.
Lemma nlen_dremove_present k m v :
  NoDup (dnames m) -> dlookup k m = Some v -> nlen (dremove k m) + 1 = nlen m.
Proof.
  induction m as [|[k2 v2] t IH]; cbn [dremove dlookup dnames map fst]; [discriminate|].
  intros Hd Hl. inversion Hd as [|x l Hn Hd']; subst.
  destruct (eqb_ln_spec k k2) as [->|Hne].
  - rewrite dremove_absent; [cbn [nlen]; lia|]. apply dlookup_none_notin. exact Hn.
  - cbn [nlen]. specialize (IH Hd' Hl). lia.
Qed.

(* a directory in which every name is the rendering of an id below W32 *)
Definition canonical (bound : N) (m : dirmap) : Prop :=
  forall k v, In (k, v) m -> exists id, k = render id /\ id < bound.

Lemma scan_count_canonical bound m : bound <= W32 -> canonical bound m -> scan_count m = nlen m.
Proof.
  intros Hb. induction m as [|[k v] t IH]; intros Hc; cbn [scan_count nlen]; [reflexivity|].
  destruct (Hc k v (or_introl eq_refl)) as (id & -> & Hid).
  rewrite parse_render_small by lia. rewrite IH; [reflexivity|].
  intros k' v' Hin. apply (Hc k' v'). right. exact Hin.
Qed.
Lemma scan_max_ge bound m id v : bound <= W32 -> canonical bound m -> In (render id, v) m -> id <= scan_max m.
Proof.
  intros Hb. induction m as [|[k v0] t IH]; intros Hc Hin; cbn [scan_max]; [contradiction|].
  destruct (Hc k v0 (or_introl eq_refl)) as (id0 & -> & Hid0).
  rewrite parse_render_small by lia.
  assert (Hc' : canonical bound t) by (intros k' v' Hin'; apply (Hc k' v'); right; exact Hin').
  destruct Hin as [E|Hin].
  - inversion E as [[E1 E2]]. apply render_inj in E1. subst. lia.
  - specialize (IH Hc' Hin). lia.
Qed.
Lemma scan_max_lt bound m : bound <= W32 -> canonical bound m -> scan_max m < bound \/ (scan_max m = 0).
Proof.
  intros Hb. induction m as [|[k v0] t IH]; intros Hc; cbn [scan_max]; [right; reflexivity|].
  destruct (Hc k v0 (or_introl eq_refl)) as (id0 & -> & Hid0).
  rewrite parse_render_small by lia.
  assert (Hc' : canonical bound t) by (intros k' v' Hin'; apply (Hc k' v'); right; exact Hin').
  destruct (IH Hc') as [H|H]; left; lia.
Qed.
