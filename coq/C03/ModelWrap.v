(* C03 — the wrapper stores: a store that transforms each record on the way into an inner store and must invert the
   transformation on the way out.  Definitions only.

   Modelled code:
     src/blob_store/compressed.rs  ZstdBlobStore  get / put / remove / contains / size / len,
                                   put_batch / get_batch / remove_batch (delegating to the inner batch calls)
     src/blob_store/entropy.rs     HuffmanBlobStore  frame / unframe / get / put / remove / contains / size / len,
                                   RansBlobStore, DictionaryBlobStore (pass every call through, untransformed)
   The inner store is ANY `store_ops`; the record codec (zstd, the Huffman coder) is a Section variable. *)
From ZV.Common Require Import Base Run.
From ZV.C03 Require Import Model ModelStore.
Open Scope N_scope.

Definition obind {A B} (f : A -> option B) (x : option A) : option B :=
  match x with Some a => f a | None => None end.

(* how `size` is answered *)
Inductive size_mode :=
| SzDecode      (* ZstdBlobStore: get the stored form, decode it, take the length (Err on get = Ok(None)) *)
| SzHeader      (* HuffmanBlobStore: contains?, get, read the original length out of the frame header *)
| SzInner.      (* Rans / Dictionary: inner.size *)
Record wrap_cfg := {
  w_batch : bool;       (* implements BatchBlobStore through the inner store's batch calls (ZstdBlobStore) *)
  w_rm_reads : bool;    (* remove / remove_batch first read the record for the statistics (ZstdBlobStore) *)
  w_size : size_mode }.

Fixpoint map_opt {A B} (f : A -> option B) (l : list A) : option (list B) :=
  match l with
  | [] => Some []
  | x :: t => match f x, map_opt f t with Some y, Some r => Some (y :: r) | _, _ => None end
  end.

Section Wrap.
  Context {St : Type} (I : store_ops St).
  Variable cfg : wrap_cfg.
  Variable enc : bytes -> option bytes.      (* what put hands to the inner store; None: put fails *)
  Variable dec : bytes -> option bytes.      (* what get makes of the stored form; None: get fails *)
  Variable szof : bytes -> option N.         (* the length field of the stored form (SzHeader only) *)

  Definition w_put (st : St) (d : bytes) : St * option N :=
    match enc d with Some c => o_put I st c | None => (st, None) end.
  Definition w_get (st : St) (id : N) : St * option bytes :=
    let '(st1, g) := o_get I st id in (st1, obind dec g).
  Definition w_remove (st : St) (id : N) : St * bool :=
    if w_rm_reads cfg then let '(st1, _) := o_get I st id in o_remove I st1 id else o_remove I st id.
  Definition read_all (st : St) (ids : list N) : St := fold_left (fun st id => fst (o_get I st id)) ids st.
  (* get_batch: every stored form that is present must decode, otherwise the whole call fails *)
  Definition dec_opt (g : option bytes) : option (option bytes) :=
    match g with Some c => match dec c with Some d => Some (Some d) | None => None end | None => Some None end.

  Definition wrap_ops : store_ops St := {|
    o_put := w_put;
    o_batch := fun st ds =>
      if w_batch cfg then
        match map_opt enc ds with Some cs => o_batch I st cs | None => (st, None) end
      else put_loop w_put st ds;
    o_remove := w_remove;
    o_rmbatch := fun st ids =>
      if w_batch cfg then o_rmbatch I (if w_rm_reads cfg then read_all st ids else st) ids
      else rm_loop w_remove st ids;
    o_get := w_get;
    o_getbatch := fun st ids =>
      if w_batch cfg then let '(st1, r) := o_getbatch I st ids in (st1, obind (map_opt dec_opt) r)
      else get_loop w_get st ids;
    o_contains := o_contains I;
    o_size := fun st id =>
      match w_size cfg with
      | SzDecode => let '(st1, g) := o_get I st id in (st1, obind (fun c => option_map nlen (dec c)) g)
      | SzHeader => if o_contains I st id then let '(st1, g) := o_get I st id in (st1, obind szof g) else (st, None)
      | SzInner => o_size I st id
      end;
    o_len := o_len I |}.

  (* the codec is lossless on record d, whose stored form is c *)
  Definition codec_ok (d c : bytes) : Prop :=
    enc d = Some c /\ dec c = Some d /\
    match w_size cfg with SzDecode => True | SzHeader => szof c = Some (nlen d) | SzInner => nlen c = nlen d end.
  (* the records the wrapped store is claimed for: lossless, and the stored form is acceptable to the inner store *)
  Definition wrap_P (Pin : bytes -> Prop) (d : bytes) : Prop := exists c, codec_ok d c /\ Pin c.
  (* the wrapper holds record d under id  <->  the inner store holds its stored form under the same id *)
  Definition wrap_rel (Rel : St -> spec -> Prop) (st : St) (s : spec) : Prop :=
    exists si, Rel st si /\
      (forall id, match s_live s id with
                  | Some d => exists c, s_live si id = Some c /\ codec_ok d c
                  | None => s_live si id = None
                  end) /\
      s_count si = s_count s /\ s_next si = s_next s.
End Wrap.

(* ------------------------------------------------------------------ *)
(* the three wrappers of the code                                       *)
(* ------------------------------------------------------------------ *)
Definition zstd_cfg : wrap_cfg := {| w_batch := true; w_rm_reads := true; w_size := SzDecode |}.
Definition huff_cfg : wrap_cfg := {| w_batch := false; w_rm_reads := false; w_size := SzHeader |}.
Definition pass_cfg : wrap_cfg := {| w_batch := false; w_rm_reads := false; w_size := SzInner |}.

(* ZstdBlobStore<S>: zstd::encode_all(data, level) / zstd::decode_all *)
Definition zstd_ops {St} (I : store_ops St) (comp : bytes -> option bytes) (decomp : bytes -> option bytes) : store_ops St :=
  wrap_ops I zstd_cfg comp decomp (fun _ => None).

(* RansBlobStore<S>, DictionaryBlobStore<S>: "For now, delegate to inner store" *)
Definition pass_ops {St} (I : store_ops St) : store_ops St :=
  wrap_ops I pass_cfg (fun d => Some d) (fun c => Some c) (fun _ => None).

(* HuffmanBlobStore<S>: frame = tag byte, then for coded payloads the original length as u64 LE, then the payload *)
Section Huffman.
  Variable trained : bool.                         (* build_tree() was called: encoder and tree are Some *)
  Variable hcode : bytes -> option bytes.          (* HuffmanEncoder::encode; None: a symbol outside the trained alphabet *)
  Variable hdecode : bytes -> N -> option bytes.   (* HuffmanDecoder::decode(payload, original_len) *)

  Definition hframe (tag : N) (original_len : N) (payload : bytes) : bytes :=
    tag :: (if tag =? 1 then le_bytes 8 (original_len mod W64) else []) ++ payload.
  Definition huff_enc (d : bytes) : option bytes :=
    match d with
    | [] => Some (hframe 0 0 d)
    | _ => if trained then
             match hcode d with
             | Some c => Some (hframe 1 (nlen d) c)
             | None => Some (hframe 0 (nlen d) d)
             end
           else Some (hframe 0 (nlen d) d)
    end.
  (* unframe: (tag, original length, payload) *)
  Definition hunframe (f : bytes) : option (N * N * bytes) :=
    match f with
    | 0 :: p => Some (0, nlen p, p)
    | 1 :: rest => if 8 <=? nlen rest then Some (1, le_value (firstn 8 rest), skipn 8 rest) else None
    | _ => None
    end.
  Definition huff_dec (f : bytes) : option bytes :=
    match hunframe f with
    | Some (tag, n, p) => if tag =? 0 then Some p else if trained then hdecode p n else None
    | None => None
    end.
  Definition huff_szof (f : bytes) : option N :=
    match hunframe f with Some (_, n, _) => Some n | None => None end.
  Definition huff_ops {St} (I : store_ops St) : store_ops St := wrap_ops I huff_cfg huff_enc huff_dec huff_szof.
End Huffman.
