(* C03 — the cases written by the harness for the store-interface models (stores, wrappers and stacks of wrappers),
   and their checker.  Definitions only.

   A stack of stores is described by a `skind`; `kops` builds its model by composing the models of ModelStore /
   ModelWrap / ModelCached / ModelDictZip / ModelPlain / ModelZero exactly as the Rust types nest.  Opaque codecs
   (zstd, the Huffman coder) enter as the finite table of (input, output) pairs the harness observed between two
   layers of the real stack; the abstract parts of DictZipBlobStore and CachedBlobStore are instantiated with the
   stand-ins of their model files (the theorems say the observations do not depend on the choice). *)
From ZV.Common Require Import Base Run.
From ZV.C03 Require Import Model ModelStore ModelWrap ModelCached ModelDictZip ModelPlain ModelZero ModelBatch ModelNltb ModelFromData ModelZeroFinish.
Open Scope N_scope.

Definition ctable := list (bytes * bytes).
Fixpoint tbl_fwd (t : ctable) (d : bytes) : option bytes :=
  match t with
  | [] => None
  | (a, b) :: r => if eqb_bytes d a then Some b else tbl_fwd r d
  end.
Fixpoint tbl_bwd (t : ctable) (c : bytes) : option bytes :=
  match t with
  | [] => None
  | (a, b) :: r => if eqb_bytes c b then Some a else tbl_bwd r c
  end.

Inductive skind :=
| KMem                                                        (* MemoryBlobStore::new() *)
| KPlain                                                      (* PlainBlobStore::create_new(dir) *)
| KZero                                                       (* ZeroLengthBlobStore::new() *)
| KZstd (tbl : ctable) (inner : skind)                        (* ZstdBlobStore<inner>; tbl: record -> zstd frame *)
| KHuff (trained : bool) (tbl : ctable) (inner : skind)       (* HuffmanBlobStore<inner>; tbl: record -> coded payload *)
| KPass (inner : skind)                                       (* RansBlobStore / DictionaryBlobStore<inner> *)
| KCachedNo (strategy : N) (enabled : bool) (inner : skind)   (* CachedBlobStore<inner>, the cache of the code (holds no data) *)
| KCachedR (strategy : N) (enabled : bool) (inner : skind)    (* the same store over a cache that keeps what it is handed *)
| KDictZip (cfg : dzcfg) (toy : bool).                        (* DictZipBlobStore; toy: stand-in compressor that really compresses *)

Fixpoint kstate (k : skind) : Type :=
  match k with
  | KMem => mem
  | KPlain => plain
  | KZero => N
  | KZstd _ i => kstate i
  | KHuff _ _ i => kstate i
  | KPass i => kstate i
  | KCachedNo _ _ i => cached (kstate i) unit
  | KCachedR _ _ i => cached (kstate i) rpc
  | KDictZip _ _ => dz (list (N * bytes))
  end.

Definition tbl_hdecode (t : ctable) (c : bytes) (n : N) : option bytes :=
  match tbl_bwd t c with Some d => if nlen d =? n then Some d else None | None => None end.
Definition id_comp (d : bytes) : option bytes := Some d.

Fixpoint kops (k : skind) : store_ops (kstate k) :=
  match k return store_ops (kstate k) with
  | KMem => mem_ops
  | KPlain => plain_ops
  | KZero => zero_ops
  | KZstd t i => zstd_ops (kops i) (tbl_fwd t) (tbl_bwd t)
  | KHuff tr t i => huff_ops tr (tbl_fwd t) (tbl_hdecode t) (kops i)
  | KPass i => pass_ops (kops i)
  | KCachedNo _ _ i => cached_ops (kops i) nopc_read nopc_dirty nopc_inval nopc_fill
  | KCachedR _ _ i => cached_ops (kops i) rpc_read rpc_dirty rpc_inval rpc_dirty
  | KDictZip cfg toy =>
      dz_ops cfg (if toy then toy_comp else id_comp) (if toy then toy_decomp else id_comp)
             (fun c => Some (rev c)) (fun e _ => Some (rev e)) (fun _ _ => toy) alru_get alru_put alru_remove
  end.

Fixpoint kinit (k : skind) : kstate k :=
  match k return kstate k with
  | KMem => mem_empty
  | KPlain => plain_create
  | KZero => 0
  | KZstd _ i => kinit i
  | KHuff _ _ i => kinit i
  | KPass i => kinit i
  | KCachedNo s e i => cached_new (kinit i) tt s e
  | KCachedR s e i => cached_new (kinit i) [] s e
  | KDictZip _ _ => dz_new []
  end.

(* the same stack over caches that really hold data / with the other stand-in compressor: the observations must not change *)
Fixpoint kvariant (k : skind) : skind :=
  match k with
  | KZstd t i => KZstd t (kvariant i)
  | KHuff tr t i => KHuff tr t (kvariant i)
  | KPass i => KPass (kvariant i)
  | KCachedNo s e i => KCachedR s e (kvariant i)
  | KCachedR s e i => KCachedR s e (kvariant i)
  | KDictZip cfg toy => KDictZip cfg (negb toy)
  | k => k
  end.

(* what the innermost MemoryBlobStore holds at the end, sorted by id *)
Fixpoint insert_by_id (kv : N * bytes) (l : list (N * bytes)) : list (N * bytes) :=
  match l with
  | [] => [kv]
  | h :: t => if fst kv <? fst h then kv :: h :: t else h :: insert_by_id kv t
  end.
Definition sort_by_id (l : list (N * bytes)) : list (N * bytes) := fold_right insert_by_id [] l.
Fixpoint kdump (k : skind) : kstate k -> list (N * bytes) :=
  match k return kstate k -> list (N * bytes) with
  | KMem => fun m => sort_by_id (mdata m)
  | KPlain => fun _ => []
  | KZero => fun _ => []
  | KZstd _ i => kdump i
  | KHuff _ _ i => kdump i
  | KPass i => kdump i
  | KCachedNo _ _ i => fun c => kdump i (c_inner c)
  | KCachedR _ _ i => fun c => kdump i (c_inner c)
  | KDictZip _ _ => fun _ => []
  end.
Fixpoint eqb_dump (a b : list (N * bytes)) : bool :=
  match a, b with
  | [], [] => true
  | (i, x) :: a', (j, y) :: b' => (i =? j) && eqb_bytes x y && eqb_dump a' b'
  | _, _ => false
  end.

(* the spec machine the stack starts from: ZeroLengthBlobStore numbers from 0, everything else from 1 *)
Fixpoint kspec0 (k : skind) : spec :=
  match k with
  | KZero => spec_zero
  | KZstd _ i => kspec0 i
  | KHuff _ _ i => kspec0 i
  | KPass i => kspec0 i
  | KCachedNo _ _ i => kspec0 i
  | KCachedR _ _ i => kspec0 i
  | _ => spec_empty
  end.

(* every (name, content) of the real directory is in the model's directory, and nothing else is *)
Definition dir_agrees (m : dirmap) (real : dirmap) : bool :=
  (nlen m =? nlen real) &&
  forallb (fun kv => match dlookup (fst kv) m with Some v => eqb_bytes v (snd kv) | None => false end) real.

Inductive xcase :=
| XOld (c : case)
(* a history on a stack: observations of the real stack; spec_too: no operation was refused, so the property's own
   machine must give the same observations; base: what the real innermost store received and kept (when has_base) *)
| XHist (k : skind) (ops : list xop) (expect : list (list N)) (spec_too : bool) (has_base : bool) (base : list (N * bytes))
(* PlainBlobStore with close + reopen steps, and the real directory listing at the end *)
| XPlain (ops : list pop) (expect : list (list N)) (dir : dirmap)
(* PlainBlobStore::new on a directory that already holds record files, then a history; the first observation is that of
   new(): [1], or [0] when it panicked *)
| XPlainOpen (m : dirmap) (ops : list pop) (expect : list (list N)) (dir : dirmap)
(* BatchZipOffsetBlobStoreBuilder: the add_record / flush_batch calls made, whether finish() succeeded, the saved image *)
| XBatch (c : zcfg) (batch_size : N) (ops : list bop) (built : bool) (image : bytes)
(* NestLoudsTrieBlobStoreBuilder: entries as added, whether the builder sorts, what the finished store answered
   (get_by_key + contains_key per key, get + contains for ids 0..n+1, len) *)
| XNltb (batch_opt : bool) (es : list entry) (kexp : list (bytes * list N)) (iexp : list (list N)) (len : N)
(* MemoryBlobStore::from_data(map) then a history; `[[0]]` when from_data panicked *)
| XFromData (m : list (N * bytes)) (ops : list mop) (expect : list (list N))
(* ZeroLengthBlobStore::finish(n) then a history *)
| XZeroFinish (n : N) (ops : list xop) (expect : list (list N)).

Definition check_xcase (x : xcase) : bool :=
  match x with
  | XOld c => check_case c
  | XHist k ops expect spec_too has_base base =>
      eqb_lln (st_run (kops k) (kinit k) ops) expect
      && eqb_lln (st_run (kops (kvariant k)) (kinit (kvariant k)) ops) expect
      && (if spec_too then eqb_lln (spec_xrun (kspec0 k) ops) expect else true)
      && (if has_base then eqb_dump (kdump k (st_exec (kops k) (kinit k) ops)) base else true)
  | XPlain ops expect dir =>
      eqb_lln (plain_prun plain_create ops) expect
      && dir_agrees (p_dir (plain_pexec plain_create ops)) dir
  | XPlainOpen m ops expect dir =>
      match plain_open m with
      | Some st => eqb_lln ([1] :: plain_prun st ops) expect && dir_agrees (p_dir (plain_pexec st ops)) dir
      | None => eqb_lln [[0]] expect
      end
  | XBatch c bs ops built image =>
      match batch_build id_codec_c c bs ops with
      | None => false                                   (* a slice bounds check of flush_batch fired *)
      | Some (ids, None) => negb built && eqb_bytes ids (seq_ids (length (bop_recs ops)))
      | Some (ids, Some st) =>
          built
          && eqb_bytes ids (seq_ids (length (bop_recs ops)))      (* the harness saw add_record #i answer i *)
          && eqb_bytes (zip_image c st) image
          && all_records_back (zip_get id_codec_d c st) (bop_recs ops)
          && (zip_len st =? nlen (bop_recs ops))
      end
  | XNltb batch_opt es kexp iexp len => check_nltb batch_opt es kexp iexp len
  | XFromData m ops expect => check_from_data m ops expect
  | XZeroFinish n ops expect => check_zero_finish n ops expect
  end.
