(* C03: the offset-indexed store (ZipOffsetBlobStoreBuilder -> ZipOffsetBlobStore) returns record i = input i,
   for every configuration within the capacity of the offset index and every lossless record codec. *)
From ZV.Common Require Import Base Run.
From ZV.C03 Require Import Model ProofsMixed.
Open Scope N_scope.

Lemma eqb_bytes_refl b : eqb_bytes b b = true.
Proof. induction b as [|x t IH]; cbn [eqb_bytes]; [reflexivity|]. rewrite N.eqb_refl, IH. reflexivity. Qed.

Lemma le_bytes_length n x : length (le_bytes n x) = n.
Proof. revert x. induction n as [|n IH]; intros x; cbn [le_bytes length]; [reflexivity|]. rewrite IH. reflexivity. Qed.

Lemma firstn_S_nth {A} (l : list A) (i : nat) (d : A) :
  (i < length l)%nat -> firstn (S i) l = firstn i l ++ [nth i l d].
Proof.
  revert i. induction l as [|x t IH]; intros i Hi; cbn [length] in Hi; [lia|].
  destruct i as [|i]; [reflexivity|]. cbn [firstn nth app]. f_equal. apply IH. lia.
Qed.

Fixpoint nsum (l : list N) : N := match l with [] => 0 | x :: t => x + nsum t end.
Fixpoint starts (base : N) (ls : list N) : list N :=
  match ls with [] => [] | l :: t => base :: starts (base + l) t end.

Lemma starts_length ls : forall base, length (starts base ls) = length ls.
Proof. induction ls as [|l t IH]; intros base; cbn [starts length]; [reflexivity|]. rewrite IH. reflexivity. Qed.

(* the offsets the builder hands to the index: every record start, then the end of the content *)
Lemma vals_nth ls : forall base i, (i <= length ls)%nat ->
  nth i (starts base ls ++ [base + nsum ls]) 0 = base + nsum (firstn i ls).
Proof.
  induction ls as [|l t IH]; intros base i Hi; cbn [length] in Hi.
  - assert (i = 0)%nat by lia. subst. cbn. lia.
  - destruct i as [|i]; cbn [starts app nth firstn nsum]; [lia|].
    replace (base + (l + nsum t)) with ((base + l) + nsum t) by lia.
    rewrite IH by lia. lia.
Qed.

Lemma nsum_firstn_mono ls : forall i j, (i <= j)%nat -> nsum (firstn i ls) <= nsum (firstn j ls).
Proof.
  induction ls as [|l t IH]; intros i j H.
  - rewrite !firstn_nil. lia.
  - destruct i as [|i]; cbn [firstn nsum]; [lia|]. destruct j as [|j]; [lia|]. cbn [firstn nsum].
    specialize (IH i j ltac:(lia)). lia.
Qed.

Lemma nsum_firstn_le ls i : nsum (firstn i ls) <= nsum ls.
Proof.
  revert i. induction ls as [|l t IH]; intros i; [rewrite firstn_nil; cbn; lia|].
  destruct i as [|i]; cbn [firstn nsum]; [lia|]. specialize (IH i). lia.
Qed.

(* ---------- the offset index returns the values it was built from ---------- *)
Section Index.
  Variable c : zcfg.
  Variable vals : list N.
  Hypothesis Hblk : 0 < blk c.
  Hypothesis Hmono : forall i j, (i <= j < length vals)%nat -> nth i vals 0 <= nth j vals 0.
  Hypothesis Hsw : forall i, (i < length vals)%nat -> nth i vals 0 < 2 ^ z_sw c.

  Lemma nth_map_seq {B} (f : N -> B) n i d : (i < n)%nat ->
    nth i (map f (map N.of_nat (seq 0 n))) d = f (N.of_nat i).
  Proof.
    intros H. rewrite map_map.
    rewrite (nth_indep _ d (f (N.of_nat 0))) by (rewrite map_length, seq_length; exact H).
    rewrite (map_nth (fun x => f (N.of_nat x)) (seq 0 n) 0%nat i). rewrite seq_nth by exact H. reflexivity.
  Qed.

  Lemma suv_get_build s i :
    suv_build c vals = Some s -> (i < length vals)%nat ->
    suv_get_unchecked c s (N.of_nat i) = nth i vals 0 /\ v_size s = nlen vals.
  Proof.
    intros Hb Hi. unfold suv_build in Hb. destruct vals as [|v0 vt] eqn:Ev; [cbn [length] in Hi; lia|].
    rewrite <- Ev in *. destruct (forallb _ _) eqn:Ef in Hb; [|discriminate]. inversion Hb; subst s; clear Hb.
    split; [|reflexivity].
    unfold suv_get_unchecked; cbn [v_samples v_deltas]. unfold nthN.
    set (B := blk c) in *. set (n := length vals) in *.
    assert (Hq : N.of_nat i / B * B <= N.of_nat i) by (pose proof (N.mul_div_le (N.of_nat i) B ltac:(lia)); lia).
    assert (Hnb : (N.to_nat (N.of_nat i / B) < N.to_nat (num_blocks c (nlen vals)))%nat).
    { unfold num_blocks. fold B. rewrite nlen_length. fold n.
      assert (N.of_nat i / B < (N.of_nat n + (B - 1)) / B).
      { apply N.div_lt_upper_bound; [lia|].
        assert (N.of_nat i < B * ((N.of_nat n + (B - 1)) / B)); [|lia].
        pose proof (N.mul_succ_div_gt (N.of_nat n + (B - 1)) B ltac:(lia)) as H1.
        pose proof (N.div_mod (N.of_nat n + (B - 1)) B ltac:(lia)) as H2.
        pose proof (N.mod_lt (N.of_nat n + (B - 1)) B ltac:(lia)) as H3. nia. }
      lia. }
    rewrite nth_map_seq by exact Hnb. rewrite N2Nat.id. rewrite Nat2N.id.
    rewrite nth_map_seq by exact Hi.
    unfold block_min, nthN. fold B.
    remember (N.of_nat i / B * B) as q eqn:Eq. clear Eq Hnb.
    assert (Hk : (N.to_nat q <= i)%nat) by (clear - Hq; lia).
    rewrite N.mod_small by (apply Hsw; lia).
    rewrite ?Nat2N.id. pose proof (Hmono (N.to_nat q) i ltac:(lia)). lia.
  Qed.
End Index.

Section Store.
  Variable comp : N -> bytes -> bytes.
  Variable decomp : bytes -> option bytes.
  Hypothesis codec_ok : forall l d, decomp (comp l d) = Some d.
  Variable c : zcfg.
  Hypothesis Hblk : 0 < blk c.

  Notation st_of := (stored comp c).
  Definition lens (ds : list bytes) : list N := map (fun d => nlen (st_of d)) ds.

  Lemma add_all_char ds : forall b,
    fold_left (zb_add comp c) ds b =
    {| b_content := b_content b ++ concat (map st_of ds);
       b_offs := b_offs b ++ starts (b_cur b) (lens ds);
       b_cur := b_cur b + nsum (lens ds);
       b_unzip := b_unzip b + nsum (map (fun d => nlen d) ds) |}.
  Proof.
    induction ds as [|d t IH]; intros b; cbn [fold_left map concat starts lens nsum].
    - rewrite !app_nil_r, !N.add_0_r. destruct b; reflexivity.
    - rewrite IH. unfold zb_add. cbn [b_content b_offs b_cur b_unzip].
      rewrite <- !app_assoc. cbn [app]. unfold lens. f_equal; lia.
  Qed.

  Lemma nsum_lens_firstn ds i : nsum (firstn i (lens ds)) = nlen (concat (map st_of (firstn i ds))).
  Proof.
    revert i. induction ds as [|d t IH]; intros i; [rewrite !firstn_nil; reflexivity|].
    destruct i as [|i]; cbn [lens map firstn nsum concat]; [reflexivity|].
    rewrite nlen_app. fold (lens t). rewrite IH. reflexivity.
  Qed.

  Lemma stored_decode d :
    let rec := st_of d in
    (if has_ck c then
       if nlen rec <? 4 then None else
       let n := (length rec - 4)%nat in
       if eqb_bytes (le_bytes 4 (checksum (firstn n rec))) (skipn n rec) then Some (firstn n rec) else None
     else Some rec) = Some (if z_cl c =? 0 then d else comp (z_cl c) d).
  Proof.
    cbv zeta. unfold stored. set (p := if z_cl c =? 0 then d else comp (z_cl c) d).
    destruct (has_ck c); [|reflexivity].
    rewrite nlen_app. assert (Hl : nlen (le_bytes 4 (checksum p)) = 4) by (rewrite nlen_length, le_bytes_length; reflexivity).
    rewrite Hl. destruct (N.ltb_spec (nlen p + 4) 4); [lia|].
    rewrite app_length, le_bytes_length. replace (length p + 4 - 4)%nat with (length p) by lia.
    rewrite firstn_app, Nat.sub_diag, firstn_all. cbn [firstn]. rewrite app_nil_r.
    rewrite skipn_app, Nat.sub_diag, skipn_all. cbn [skipn app]. rewrite eqb_bytes_refl. reflexivity.
  Qed.

  Theorem zip_get_record_proof (ds : list bytes) (st : zstore) (i : nat) :
    zip_build comp c ds = Some st ->
    nsum (lens ds) < 2 ^ z_sw c ->
    (i < length ds)%nat ->
    zip_get decomp c st (N.of_nat i) = Some (nth i ds []) /\ zip_len st = nlen ds.
  Proof.
    intros Hb Hcap Hi. unfold zip_build, zb_add_all, zb_finish in Hb. rewrite add_all_char in Hb.
    cbn [zb_empty b_content b_offs b_cur b_unzip app] in Hb. rewrite N.add_0_l in Hb.
    set (vals := starts 0 (lens ds) ++ [nsum (lens ds)]) in *.
    destruct (suv_build c vals) as [s|] eqn:Es; [|discriminate]. inversion Hb; subst st; clear Hb.
    assert (Hlv : length vals = S (length ds)).
    { unfold vals. rewrite app_length, starts_length. unfold lens. rewrite map_length. cbn. lia. }
    assert (Hnth : forall k, (k <= length ds)%nat -> nth k vals 0 = nsum (firstn k (lens ds))).
    { intros k Hk. unfold vals. replace (nsum (lens ds)) with (0 + nsum (lens ds)) by lia.
      rewrite vals_nth by (unfold lens; rewrite map_length; exact Hk). lia. }
    assert (Hmono : forall a b, (a <= b < length vals)%nat -> nth a vals 0 <= nth b vals 0).
    { intros a b Hab. rewrite !Hnth by lia. apply nsum_firstn_mono. lia. }
    assert (Hsw : forall k, (k < length vals)%nat -> nth k vals 0 < 2 ^ z_sw c).
    { intros k Hk. rewrite Hnth by lia. pose proof (nsum_firstn_le (lens ds) k). lia. }
    destruct (suv_get_build c vals Hblk Hmono Hsw s i Es ltac:(lia)) as [Hg1 Hsz].
    destruct (suv_get_build c vals Hblk Hmono Hsw s (S i) Es ltac:(lia)) as [Hg2 _].
    assert (Hlen : zip_len {| st_content := concat (map st_of ds); st_offsets := s; st_unzip := 0 + nsum (map (fun d => nlen d) ds) |} = nlen ds).
    { unfold zip_len; cbn [st_offsets]. rewrite Hsz, !nlen_length, Hlv. lia. }
    split; [|exact Hlen].
    unfold zip_get. rewrite Hlen. cbn [st_content st_offsets].
    destruct (N.ltb_spec (N.of_nat i) (nlen ds)) as [_|Hc]; [|rewrite nlen_length in Hc; lia].
    unfold suv_get2. rewrite Hsz, nlen_length, Hlv.
    destruct (N.ltb_spec (N.of_nat i + 1) (N.of_nat (S (length ds)))) as [_|Hc]; [|lia].
    replace (N.of_nat i + 1) with (N.of_nat (S i)) by lia. rewrite Hg1, Hg2.
    rewrite !Hnth by lia. rewrite !nsum_lens_firstn.
    pose proof (split_nth ds i [] Hi) as Hs. set (d := nth i ds []) in *.
    set (A := firstn i ds) in *. set (Bt := skipn (S i) ds) in *.
    assert (HSi : firstn (S i) ds = A ++ [d]) by (apply firstn_S_nth; exact Hi).
    rewrite HSi. rewrite map_app, concat_app. cbn [map concat]. rewrite app_nil_r, nlen_app.
    assert (Hcontent : concat (map st_of ds) = concat (map st_of A) ++ st_of d ++ concat (map st_of Bt)).
    { rewrite Hs at 1. rewrite map_app, concat_app. reflexivity. }
    rewrite Hcontent, !nlen_app.
    match goal with |- (if (?a <? ?b) || (?x <? ?y) then _ else _) = _ =>
      destruct (N.ltb_spec a b) as [Hc|_]; [lia|]; destruct (N.ltb_spec x y) as [Hc|_]; [lia|] end.
    cbn [orb].
    replace (nlen (concat (map st_of A)) + nlen (st_of d) - nlen (concat (map st_of A))) with (nlen (st_of d)) by lia.
    rewrite !to_nat_nlen, slice_mid.
    pose proof (stored_decode d) as Hd. cbv zeta in Hd.
    match goal with |- match ?X with _ => _ end = _ =>
      replace X with (Some (if z_cl c =? 0 then d else comp (z_cl c) d)) by (symmetry; exact Hd) end.
    destruct (z_cl c =? 0); [reflexivity|apply codec_ok].
  Qed.

  Theorem zip_absent_proof (ds : list bytes) (st : zstore) (id : N) :
    zip_build comp c ds = Some st -> nsum (lens ds) < 2 ^ z_sw c -> nlen ds <= id ->
    zip_get decomp c st id = None /\ zip_contains st id = false.
  Proof.
    intros Hb Hcap Hid.
    assert (Hlen : zip_len st = nlen ds).
    { destruct ds as [|d t].
      - unfold zip_build, zb_add_all, zb_finish in Hb.
        cbn [fold_left zb_empty b_offs b_cur b_content b_unzip app] in Hb.
        unfold suv_build in Hb. destruct (forallb _ _) in Hb; [|discriminate]. inversion Hb. reflexivity.
      - apply (zip_get_record_proof (d :: t) st 0 Hb Hcap). cbn. lia. }
    unfold zip_get, zip_contains. rewrite Hlen. destruct (N.ltb_spec id (nlen ds)); [lia|]. split; reflexivity.
  Qed.
End Store.

(* the hypotheses are satisfiable: default configuration, checksums on, identity codec *)
Example zip_nontrivial :
  let c := {| z_cl := 0; z_ck := 2; z_log2 := 6; z_ow := 16; z_sw := 32; z_simd := 1 |} in
  match zip_build id_codec_c c [[1;2;3]; []; [4]] with
  | Some st => map (zip_get id_codec_d c st) [0;1;2;3] = [Some [1;2;3]; Some []; Some [4]; None]
  | None => False
  end.
Proof. vm_compute. reflexivity. Qed.

(* closed forms used by Properties.v (blk c = 2^log2 is always positive) *)
Lemma zip_get_record_closed comp decomp :
  (forall l d, decomp (comp l d) = Some d) ->
  forall c ds st i,
    zip_build comp c ds = Some st ->
    nsum (map (fun d => nlen (stored comp c d)) ds) < 2 ^ z_sw c ->
    (i < length ds)%nat ->
    zip_get decomp c st (N.of_nat i) = Some (nth i ds []) /\ zip_len st = nlen ds.
Proof.
  intros Hc c ds st i Hb Hcap Hi.
  exact (zip_get_record_proof comp decomp Hc c (pow2_pos _) ds st i Hb Hcap Hi).
Qed.

Lemma zip_absent_closed comp decomp :
  (forall l d, decomp (comp l d) = Some d) ->
  forall c ds st id,
    zip_build comp c ds = Some st ->
    nsum (map (fun d => nlen (stored comp c d)) ds) < 2 ^ z_sw c ->
    nlen ds <= id ->
    zip_get decomp c st id = None /\ zip_contains st id = false.
Proof.
  intros Hc c ds st id Hb Hcap Hid.
  exact (zip_absent_proof comp decomp Hc c (pow2_pos _) ds st id Hb Hcap Hid).
Qed.
