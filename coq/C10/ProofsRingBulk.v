(* pop_bulk into the caller's slice: the ring side is Model.pop_bulk (already proved against the deque), the slice
   receives the popped elements in order and each overwritten value is destroyed exactly once, in index order. *)
From ZV.Common Require Import Base.
From ZV.C10 Require Import Model Spec ProofsPow2 ProofsRing ModelRingBulk.
Open Scope N_scope.

Section RB.
Variable A : Type.

Lemma take_range_len n : forall (m : mem A) s m' xs, take_range A m s n = Ok (m', xs) -> length xs = n.
Proof.
  induction n as [|n IH]; intros m s m' xs E; cbn [take_range] in E.
  - injection E as _ <-. reflexivity.
  - destruct (m s) as [x|]; [|discriminate].
    destruct (take_range A (upd m s None) (s + 1) n) as [[m1 l1]|] eqn:E1; [|discriminate].
    cbn [bind fst snd] in E. injection E as _ <-. cbn [length]. f_equal. eapply IH. exact E1.
Qed.

Lemma read_into_take n : forall (m : mem A) s out m' xs,
  take_range A m s n = Ok (m', xs) -> (n <= length out)%nat ->
  read_into A m s n out = Ok (m', (xs ++ skipn n out, firstn n out)).
Proof.
  induction n as [|n IH]; intros m s out m' xs E Hn; cbn [take_range read_into] in *.
  - injection E as <- <-. reflexivity.
  - destruct (m s) as [x|]; [|discriminate].
    destruct (take_range A (upd m s None) (s + 1) n) as [[m1 l1]|] eqn:E1; [|discriminate].
    cbn [bind fst snd] in E. injection E as <- <-.
    destruct out as [|old rest]; [cbn [length] in Hn; lia|]. cbn [length] in Hn.
    rewrite (IH _ _ rest m1 l1 E1) by lia. reflexivity.
Qed.

Lemma firstn_add (l : list A) a : forall b, firstn (a + b) l = firstn a l ++ firstn b (skipn a l).
Proof.
  revert l. induction a as [|a IH]; intros l b; [reflexivity|].
  destruct l as [|x l]; [cbn; destruct b; reflexivity|]. cbn [Nat.add firstn skipn app]. f_equal. apply IH.
Qed.

Lemma skipn_add (l : list A) a : forall b, skipn (a + b) l = skipn b (skipn a l).
Proof.
  revert l. induction a as [|a IH]; intros l b; [reflexivity|].
  destruct l as [|x l]; [cbn; destruct b; reflexivity|]. cbn [Nat.add skipn]. apply IH.
Qed.

(* the ring side of pop_bulk_into is pop_bulk; the slice side is "overwrite the first |xs| slots" *)
Lemma pop_bulk_into_spec q out q' xs :
  pop_bulk A q (nlen out) = Ok (q', xs) ->
  pop_bulk_into A q out = Ok (q', (xs ++ skipn (length xs) out, firstn (length xs) out)).
Proof.
  unfold pop_bulk, pop_bulk_into.
  set (to_pop := N.min (nlen out) (len q)).
  assert (Hto : (N.to_nat to_pop <= length out)%nat) by (unfold to_pop; rewrite nlen_length; lia).
  destruct (N.eqb_spec to_pop 0) as [Hz|Hnz].
  - intros E. injection E as <- <-. reflexivity.
  - destruct ((head q <? tail q) || (head q + to_pop <=? cap q)) eqn:Eb.
    + destruct (take_range A (buf q) (head q) (N.to_nat to_pop)) as [[m1 l1]|] eqn:E1; [|discriminate].
      cbn [bind fst snd]. intros E. injection E as <- <-.
      pose proof (take_range_len _ _ _ _ _ E1) as Hlen.
      rewrite (read_into_take _ _ _ out m1 l1 E1 Hto). cbn [bind fst snd]. rewrite Hlen. reflexivity.
    + assert (Hsplit : head q + to_pop > cap q).
      { apply Bool.orb_false_iff in Eb. destruct Eb as [_ Eb]. apply N.leb_gt in Eb. lia. }
      set (f := N.to_nat (cap q - head q)). set (g := N.to_nat (to_pop - (cap q - head q))).
      destruct (take_range A (buf q) (head q) f) as [[m1 l1]|] eqn:E1; [|discriminate].
      cbn [bind fst snd].
      destruct (take_range A m1 0 g) as [[m2 l2]|] eqn:E2; [|discriminate].
      cbn [bind fst snd]. intros E. injection E as <- <-.
      pose proof (take_range_len _ _ _ _ _ E1) as Hl1. pose proof (take_range_len _ _ _ _ _ E2) as Hl2.
      assert (Hfg : (f + g <= length out)%nat) by (unfold f, g; lia).
      rewrite (read_into_take _ _ _ out m1 l1 E1) by lia. cbn [bind fst snd].
      assert (Hsk : skipn f (l1 ++ skipn f out) = skipn f out).
      { rewrite skipn_app, Hl1, Nat.sub_diag, skipn_all2 by lia. reflexivity. }
      assert (Hfi : firstn f (l1 ++ skipn f out) = l1).
      { rewrite firstn_app, Hl1, Nat.sub_diag, firstn_all2 by lia. cbn [firstn]. apply app_nil_r. }
      rewrite Hsk, Hfi.
      rewrite (read_into_take _ _ _ (skipn f out) m2 l2 E2) by (rewrite skipn_length; lia).
      cbn [bind fst snd]. rewrite app_length, Hl1, Hl2, skipn_add, firstn_add, <- app_assoc. reflexivity.
Qed.

Lemma ring_pop_bulk_into_proof q (l out : list A) :
  R A q l ->
  let k := Nat.min (length out) (length l) in
  exists q', pop_bulk_into A q out = Ok (q', (firstn k l ++ skipn k out, firstn k out)) /\ R A q' (skipn k l).
Proof.
  intros H k.
  destruct (R_pop_bulk A q l (nlen out) H) as [q' [E HR]].
  assert (Hk : N.to_nat (N.min (nlen out) (N.of_nat (length l))) = k) by (unfold k; rewrite nlen_length; lia).
  rewrite Hk in *. exists q'. split; [|exact HR].
  rewrite (pop_bulk_into_spec q out q' _ E). rewrite firstn_length.
  replace (Nat.min k (length l)) with k by (unfold k; lia). reflexivity.
Qed.

End RB.

(* a wrapped ring (capacity 4, head 3, three elements) popped into a slice of four values: two runs, three values of
   the slice destroyed in index order, the fourth kept *)
Example ring_pop_bulk_into_example :
  match ring_trun (with_capacity 4) [TQ (PushBack 1); TQ (PushBack 2); TQ (PushBack 3); TQ PopFront; TQ PopFront; TQ PopFront;
                                     TQ (PushBack 4); TQ (PushBack 5); TQ (PushBack 6)] with
  | Ok q => head q = 3 /\ tail q = 2 /\
            match pop_bulk_into N q [91; 92; 93; 94] with
            | Ok (q', (out', dropped)) => out' = [4; 5; 6; 94] /\ dropped = [91; 92; 93] /\ len q' = 0 /\ head q' = 2
            | UB => False
            end
  | UB => False
  end.
Proof. vm_compute. repeat split. Qed.
