(* C10 spec layer: the abstraction relation between the ring buffer and the sequence a VecDeque would hold.
   (The list-level operations themselves - deque_step, bdeque_step, vec_step - live next to the model in
   Model.v because the correspondence check evaluates them too.)  Definitions only. *)
From ZV.Common Require Import Base.
From ZV.C10 Require Import Model.
Open Scope N_scope.

(* position of the i-th element of a ring with head h and capacity c *)
Definition pos (h c i : N) : N := if h + i <? c then h + i else h + i - c.

Section Spec.
Variable A : Type.

(* R q l: the ring q is well formed (power-of-two capacity below 2^62, mask = capacity - 1, head/tail/len
   consistent) and holds exactly the sequence l: the i-th element of l sits in slot (head + i) mod capacity,
   and every other slot of the buffer - inside or outside the capacity - is uninitialised. *)
Record R (q : ring A) (l : list A) : Prop := {
  R_pow : exists k, cap q = 2 ^ k /\ k <= 62;
  R_mask : mask q = cap q - 1;
  R_head : head q < cap q;
  R_len : len q = N.of_nat (length l);
  R_le : len q <= cap q;
  R_tail : tail q = pos (head q) (cap q) (len q);
  R_live : forall i, (i < length l)%nat -> buf q (pos (head q) (cap q) (N.of_nat i)) = nth_error l i;
  R_dead : forall j, (forall i, i < len q -> pos (head q) (cap q) i <> j) -> buf q j = None
}.

(* V v l: the FastVec v holds exactly the sequence l in slots 0..len, every slot from len on is uninitialised *)
Record V (v : fvec A) (l : list A) : Prop := {
  V_len : vlen v = N.of_nat (length l);
  V_le : vlen v <= vcap v;
  V_live : forall i, (i < length l)%nat -> vbuf v (N.of_nat i) = nth_error l i;
  V_dead : forall j, vlen v <= j -> vbuf v j = None
}.

(* F n q l: the FixedCircularQueue<_, n> q holds exactly the sequence l *)
Record F (n : N) (q : fixedq A) (l : list A) : Prop := {
  F_count : fcount q = N.of_nat (length l);
  F_le : fcount q <= n;
  F_head : fhead q < n;
  F_tail : ftail q = pos (fhead q) n (fcount q);
  F_live : forall i, (i < length l)%nat -> fbuf q (pos (fhead q) n (N.of_nat i)) = nth_error l i;
  F_dead : forall j, (forall i, i < fcount q -> pos (fhead q) n i <> j) -> fbuf q j = None
}.

End Spec.
