(* FixedCircularQueue<T, n> refines a bounded deque. *)
From ZV.Common Require Import Base.
From ZV.C10 Require Import Model Spec ProofsRing.
Open Scope N_scope.

Lemma mod_wrap n x : 0 < n -> x < 2 * n -> x mod n = if x <? n then x else x - n.
Proof.
  intros Hn Hx. destruct (N.ltb_spec x n).
  - apply N.mod_small. assumption.
  - replace x with ((x - n) + 1 * n) at 1 by lia. rewrite N.mod_add by lia. apply N.mod_small. lia.
Qed.

Section FixedProofs.
Variable A : Type.
Variable n : N.
Hypothesis Hn : 0 < n.
Local Notation F := (Spec.F A n).
Local Notation F_count := (Spec.F_count A n).
Local Notation F_le := (Spec.F_le A n).
Local Notation F_head := (Spec.F_head A n).
Local Notation F_tail := (Spec.F_tail A n).
Local Notation F_live := (Spec.F_live A n).
Local Notation F_dead := (Spec.F_dead A n).

Lemma F_new : F (fixed_new (A:=A)) [].
Proof.
  constructor; cbn [fixed_new fcount fhead ftail fbuf length]; try lia; try reflexivity;
    try (intros i Hi; exfalso; lia); pos_lia.
Qed.

Lemma F_push_full q l x : F q l -> N.of_nat (length l) = n -> fixed_push A n q x = (q, RErr).
Proof.
  intros H Hf. unfold fixed_push. rewrite (F_count _ _ H). destruct (N.eqb_spec (N.of_nat (length l)) n); [reflexivity|lia].
Qed.

Lemma F_push q l x :
  F q l -> N.of_nat (length l) <> n ->
  fixed_push A n q x = (fst (fixed_push A n q x), RUnit) /\ F (fst (fixed_push A n q x)) (l ++ [x]).
Proof.
  intros H Hf. pose proof (F_count _ _ H) as Hc. pose proof (F_le _ _ H) as Hle.
  pose proof (F_head _ _ H) as Hh. pose proof (F_tail _ _ H) as Ht.
  unfold fixed_push. destruct (N.eqb_spec (fcount q) n) as [E|NE]; [lia|]. cbn [fst]. split; [reflexivity|].
  assert (Hw : (ftail q + 1) mod n = if ftail q + 1 <? n then ftail q + 1 else ftail q + 1 - n)
    by (apply mod_wrap; [exact Hn|rewrite Ht; pos_lia]).
  constructor; cbn [fcount fhead ftail fbuf]; rewrite ?Hw.
  - rewrite app_length. cbn [length]. lia.
  - lia.
  - exact Hh.
  - rewrite Ht. pos_lia.
  - intros i Hi. rewrite app_length in Hi. cbn [length] in Hi. unfold upd.
    destruct (N.eqb_spec (pos (fhead q) n (N.of_nat i)) (ftail q)) as [E|NE2].
    + assert (i = length l) by (rewrite Ht in E; pos_lia). subst i.
      rewrite nth_error_app2 by lia. replace (length l - length l)%nat with 0%nat by lia. reflexivity.
    + assert (i <> length l) by (intros ->; apply NE2; rewrite Ht, Hc; reflexivity).
      rewrite nth_error_app1 by lia. apply (F_live _ _ H). lia.
  - intros j Hj. unfold upd. destruct (N.eqb_spec j (ftail q)) as [E|NE2].
    + exfalso. apply (Hj (fcount q)); [lia|]. rewrite E, Ht. reflexivity.
    + apply (F_dead _ _ H). intros i Hi. apply Hj. lia.
Qed.

Lemma F_pop q l : F q l -> exists q', fixed_pop A n q = Ok (q', hd_error l) /\ F q' (tl l).
Proof.
  intros H. pose proof (F_count _ _ H) as Hc. pose proof (F_le _ _ H) as Hle.
  pose proof (F_head _ _ H) as Hh. pose proof (F_tail _ _ H) as Ht.
  unfold fixed_pop. destruct l as [|x l].
  - cbn [length] in Hc. rewrite Hc. cbn [N.of_nat]. exists q. split; [reflexivity|exact H].
  - cbn [length] in Hc. destruct (N.eqb_spec (fcount q) 0) as [Hz|_]; [lia|].
    pose proof (F_live _ _ H 0%nat ltac:(cbn [length]; lia)) as Hv0. cbn [nth_error] in Hv0.
    replace (pos (fhead q) n (N.of_nat 0)) with (fhead q) in Hv0 by pos_lia.
    rewrite Hv0. eexists. split; [reflexivity|]. cbn [tl].
    assert (Hw : (fhead q + 1) mod n = if fhead q + 1 <? n then fhead q + 1 else fhead q + 1 - n)
      by (apply mod_wrap; [exact Hn|lia]).
    constructor; cbn [fcount fhead ftail fbuf]; rewrite ?Hw.
    + lia.
    + lia.
    + pos_lia.
    + rewrite Ht. pos_lia.
    + intros i Hi. pose proof (F_live _ _ H (S i) ltac:(cbn [length]; lia)) as Hv. cbn [nth_error] in Hv.
      rewrite <- Hv. unfold upd.
      replace (pos (if fhead q + 1 <? n then fhead q + 1 else fhead q + 1 - n) n (N.of_nat i))
        with (pos (fhead q) n (N.of_nat (S i))) by pos_lia.
      destruct (N.eqb_spec (pos (fhead q) n (N.of_nat (S i))) (fhead q)); [pos_lia|reflexivity].
    + intros j Hj. unfold upd. destruct (N.eqb_spec j (fhead q)); [reflexivity|].
      apply (F_dead _ _ H). intros i Hi.
      destruct (N.eq_dec i 0) as [->|Hi0]; [pos_lia|].
      specialize (Hj (i - 1) ltac:(lia)). pos_lia.
Qed.

Lemma F_front q l : F q l -> fixed_front A q = Ok (hd_error l).
Proof.
  intros H. unfold fixed_front. pose proof (F_count _ _ H) as Hc. pose proof (F_head _ _ H).
  destruct l as [|x l].
  - cbn [length] in Hc. rewrite Hc. reflexivity.
  - cbn [length] in Hc. destruct (N.eqb_spec (fcount q) 0); [lia|].
    pose proof (F_live _ _ H 0%nat ltac:(cbn [length]; lia)) as Hv0. cbn [nth_error] in Hv0.
    replace (pos (fhead q) n (N.of_nat 0)) with (fhead q) in Hv0 by pos_lia.
    rewrite Hv0. reflexivity.
Qed.

Lemma F_back q l : F q l -> fixed_back A n q = Ok (last_error A l).
Proof.
  intros H. unfold fixed_back. pose proof (F_count _ _ H) as Hc. pose proof (F_head _ _ H).
  pose proof (F_tail _ _ H) as Ht. pose proof (F_le _ _ H).
  destruct (N.eqb_spec (fcount q) 0) as [Hz|Hnz].
  - destruct l; [reflexivity|cbn [length] in Hc; lia].
  - rewrite (last_error_nth A).
    pose proof (F_live _ _ H (length l - 1)%nat ltac:(lia)) as Hv.
    replace (if ftail q =? 0 then n - 1 else ftail q - 1)
      with (pos (fhead q) n (N.of_nat (length l - 1))) by (rewrite Ht; pos_lia).
    rewrite Hv. destruct (nth_error l (length l - 1)) eqn:E; [reflexivity|].
    apply nth_error_None in E. lia.
Qed.

Lemma F_clear_go l : forall q fuel,
  F q l -> (length l <= fuel)%nat ->
  exists q', fixed_clear_go A n fuel q = Ok (q', l) /\ F q' [] /\ forall j, fbuf q' j = None.
Proof.
  induction l as [|x l IH]; intros q fuel H Hf.
  - pose proof (F_count _ _ H) as Hc. cbn [length] in Hc.
    exists q. split.
    + destruct fuel; cbn [fixed_clear_go]; rewrite Hc; reflexivity.
    + split; [exact H|]. intros j. apply (F_dead _ _ H). intros i Hi. exfalso. lia.
  - pose proof (F_count _ _ H) as Hc. cbn [length] in Hc, Hf.
    destruct fuel as [|fuel]; [lia|]. cbn [fixed_clear_go].
    destruct (N.eqb_spec (fcount q) 0); [lia|].
    destruct (F_pop q (x :: l) H) as [q1 [E1 H1]]. cbn [hd_error tl] in E1, H1.
    rewrite E1. cbn [bind fst snd].
    destruct (IH q1 fuel H1 ltac:(lia)) as [q2 [E2 [H2 Hnone]]].
    rewrite E2. cbn [bind fst snd]. exists q2. split; [reflexivity|]. split; assumption.
Qed.

Lemma F_clear q l :
  F q l -> exists q', fixed_clear A n q = Ok (q', l) /\ F q' [] /\ forall j, fbuf q' j = None.
Proof.
  intros H. unfold fixed_clear. apply F_clear_go; [exact H|]. rewrite (F_count _ _ H). lia.
Qed.

Lemma fixed_step_refines q l o :
  F q l -> exists q', fixed_step A n q o = Ok (q', snd (bdeque_step A n l o)) /\ F q' (fst (bdeque_step A n l o)).
Proof.
  intros H.
  destruct o as [x| |xs|k|k| | |]; cbn [fixed_step bdeque_step deque_step].
  - rewrite nlen_length. destruct (N.eqb_spec (N.of_nat (length l)) n) as [Hf|Hf].
    + rewrite (F_push_full q l x H Hf). cbn [fst snd]. exists q. split; [reflexivity|exact H].
    + destruct (F_push q l x H Hf) as [E H']. rewrite E. cbn [fst snd]. eexists. split; [reflexivity|exact H'].
  - destruct (F_pop q l H) as [q' [E H']]. rewrite E. cbn [bind fst snd]. exists q'.
    destruct l; cbn [hd_error tl fst snd] in *; (split; [reflexivity|exact H']).
  - exists q. split; [reflexivity|exact H].
  - exists q. split; [reflexivity|exact H].
  - exists q. split; [reflexivity|exact H].
  - destruct (F_clear q l H) as [q' [E [H' _]]]. rewrite E. cbn [bind fst snd]. exists q'. split; [reflexivity|exact H'].
  - rewrite (F_front q l H). cbn [bind fst snd]. exists q. split; [reflexivity|exact H].
  - rewrite (F_back q l H). cbn [bind fst snd]. exists q. split; [reflexivity|exact H].
Qed.

Lemma fixed_run_refines ops : forall q l,
  F q l -> exists q', fixed_run A n q ops = Ok (q', snd (bdeque_run A n l ops)) /\ F q' (fst (bdeque_run A n l ops)).
Proof.
  induction ops as [|o t IH]; intros q l H.
  - exists q. split; [reflexivity|exact H].
  - destruct (fixed_step_refines q l o H) as [q1 [E1 H1]].
    destruct (IH q1 _ H1) as [q2 [E2 H2]].
    cbn [fixed_run bdeque_run]. rewrite E1. cbn [bind fst snd]. rewrite E2. cbn [bind fst snd].
    exists q2. split; [reflexivity|exact H2].
Qed.

End FixedProofs.

Lemma fixed_refines_bounded_deque_proof (A : Type) n (ops : list (qop A)) :
  0 < n ->
  exists q', fixed_run A n fixed_new ops = Ok (q', snd (bdeque_run A n [] ops)) /\
             F A n q' (fst (bdeque_run A n [] ops)).
Proof. intros Hn. apply fixed_run_refines; [exact Hn|apply F_new; exact Hn]. Qed.

(* a full queue refuses the push, keeps its contents, and the refused value is destroyed, not stored *)
Lemma fixed_refuses_when_full_proof (A : Type) n q (l : list A) x :
  0 < n -> F A n q l -> N.of_nat (length l) = n ->
  fixed_step A n q (PushBack x) = Ok (q, (RErr, [x])).
Proof.
  intros Hn H Hf. cbn [fixed_step]. rewrite (F_push_full A n Hn q l x H Hf). reflexivity.
Qed.

Example fixed_history_example :
  let ops := [PushBack 1; PushBack 2; PushBack 3; PopFront; PushBack 4; Back; PushBack 5; Clear; Front] in
  match fixed_run N 3 fixed_new ops with
  | Ok (q, outs) => outs = snd (bdeque_run N 3 [] ops) /\ fcount q = 0
  | UB => False
  end.
Proof. vm_compute. split; reflexivity. Qed.
