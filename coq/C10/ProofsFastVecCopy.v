(* The paths FastVec takes for Copy element types (SIMD kernels as parameters) are the list functions of the
   scalar path: refinement of the same Vec, for every element size and every kernel that meets its contract. *)
From ZV.Common Require Import Base.
From ZV.C10 Require Import Model Spec ProofsRing ProofsVec ModelFastVecCopy.
Open Scope N_scope.

Section FVC.
Variable A : Type.
Variable esz : N.
Variable fast_copy : list A -> list A.
Variable fast_fill : A -> nat -> list A.
Variable fast_compare : list A -> list A -> bool.
Variable aeqb : A -> A -> bool.
(* the contracts of the kernels (property C14) and of T::eq *)
Hypothesis Hcopy : forall l, fast_copy l = l.
Hypothesis Hfill : forall x n, fast_fill x n = repeat x n.
Hypothesis Haeq : forall x y, aeqb x y = true <-> x = y.
Hypothesis Hcmp : forall a b, length a = length b -> (fast_compare a b = true <-> a = b).

Local Notation V := (Spec.V A).
Local Notation V_len := (Spec.V_len A).
Local Notation V_le := (Spec.V_le A).
Local Notation V_live := (Spec.V_live A).
Local Notation V_dead := (Spec.V_dead A).
Local Notation put_list := (ModelFastVecCopy.put_list A).
Local Notation beneficial := (ModelFastVecCopy.beneficial esz).

(* a vector with a pointwise equal buffer is related to the same list *)
Lemma V_ext v v' l :
  V v l -> vlen v' = vlen v -> vcap v' = vcap v -> (forall j, vbuf v' j = vbuf v j) -> V v' l.
Proof.
  intros H Hl Hc Hb. constructor.
  - rewrite Hl. apply (V_len _ _ H).
  - rewrite Hl, Hc. apply (V_le _ _ H).
  - intros i Hi. rewrite Hb. apply (V_live _ _ H). exact Hi.
  - intros j Hj. rewrite Hb. apply (V_dead _ _ H). lia.
Qed.

Lemma put_list_repeat (m : mem A) s n x j :
  put_list m s (repeat x n) j = fill_range A m s n x j.
Proof.
  rewrite (fill_range_spec A). unfold ModelFastVecCopy.put_list. rewrite nlen_length, repeat_length.
  destruct ((s <=? j) && (j <? s + N.of_nat n)) eqn:Eb; [|reflexivity].
  apply (nth_error_repeat A). pos_lia.
Qed.

(* appending xs behind len by one bulk write *)
Lemma V_put_end v l xs :
  V v l -> vlen v + N.of_nat (length xs) <= vcap v ->
  V {| vbuf := put_list (vbuf v) (vlen v) xs; vlen := vlen v + nlen xs; vcap := vcap v |} (l ++ xs).
Proof.
  intros H Hroom. pose proof (V_len _ _ H) as Hl. rewrite nlen_length.
  constructor; cbn [vlen vcap vbuf].
  - rewrite app_length. lia.
  - lia.
  - intros i Hi. rewrite app_length in Hi. unfold ModelFastVecCopy.put_list. rewrite nlen_length.
    destruct (Nat.ltb_spec i (length l)).
    + rewrite nth_error_app1 by lia.
      destruct ((vlen v <=? N.of_nat i) && (N.of_nat i <? vlen v + N.of_nat (length xs))) eqn:Eb; [pos_lia|].
      apply (V_live _ _ H). lia.
    + rewrite nth_error_app2 by lia.
      destruct ((vlen v <=? N.of_nat i) && (N.of_nat i <? vlen v + N.of_nat (length xs))) eqn:Eb; [|pos_lia].
      f_equal. lia.
  - intros j Hj. unfold ModelFastVecCopy.put_list. rewrite nlen_length.
    destruct ((vlen v <=? j) && (j <? vlen v + N.of_nat (length xs))) eqn:Eb; [pos_lia|].
    apply (V_dead _ _ H). lia.
Qed.

Lemma reserve_len v n : vlen (fv_reserve A v n) = vlen v.
Proof. unfold fv_reserve. destruct (vlen v + n <=? vcap v); reflexivity. Qed.
Lemma ensure_len v n : vlen (fv_ensure_capacity A v n) = vlen v.
Proof. unfold fv_ensure_capacity. destruct (n <=? vcap v); reflexivity. Qed.

Lemma V_extend_c v l xs : V v l -> V (fvc_extend A esz fast_copy v xs) (l ++ xs).
Proof.
  intros H. unfold fvc_extend. destruct (beneficial (nlen xs)).
  - rewrite Hcopy. destruct (V_reserve A v l (nlen xs) H) as [H1 Hc].
    apply (V_put_end _ l xs H1). rewrite reserve_len, <- nlen_length. exact Hc.
  - apply (V_extend A v l xs H).
Qed.

Lemma V_extend_fast v l xs : V v l -> V (fvc_extend_fast A esz fast_copy v xs) (l ++ xs).
Proof.
  intros H. unfold fvc_extend_fast. destruct xs as [|x0 xs0]; [rewrite app_nil_r; exact H|].
  set (xs := x0 :: xs0).
  assert (Hsrc : (if beneficial (nlen xs) then fast_copy xs else xs) = xs) by (destruct (beneficial (nlen xs)); [apply Hcopy|reflexivity]).
  rewrite Hsrc. destruct (V_reserve A v l (nlen xs) H) as [H1 Hc].
  rewrite <- (reserve_len v (nlen xs)).
  apply (V_put_end _ l xs H1). rewrite reserve_len, <- nlen_length. exact Hc.
Qed.

(* reading a run of live slots *)
Lemma V_peek v l s n :
  V v l -> (N.to_nat s + n <= length l)%nat ->
  peek_range A (vbuf v) s n = Ok (firstn n (skipn (N.to_nat s) l)).
Proof.
  intros H Hb. apply (peek_range_n A).
  - rewrite firstn_length, skipn_length. lia.
  - intros i Hi. rewrite firstn_length, skipn_length in Hi.
    rewrite (nth_error_firstn_lt A) by lia. rewrite (nth_error_skipn A).
    rewrite <- (V_live _ _ H (N.to_nat s + i)%nat ltac:(lia)). f_equal. lia.
Qed.

Lemma V_insert_c v l i x :
  V v l ->
  exists v', fvc_insert A esz fast_copy v i x = Ok (v', snd (cvec_step A l (CInsert i x))) /\
             V v' (fst (cvec_step A l (CInsert i x))).
Proof.
  intros H. pose proof (V_len _ _ H) as Hl. unfold fvc_insert. cbn [cvec_step vec_step fst snd]. rewrite nlen_length, <- Hl.
  destruct (N.ltb_spec (vlen v) i) as [Hout|Hin].
  - cbn [fst snd]. exists v. split; [reflexivity|exact H].
  - destruct (V_insert A v l i x H Hin) as [Efv HVfv]. cbn [fst snd].
    set (v1 := if vcap v <=? vlen v then fv_ensure_capacity A v (vlen v + 1) else v) in *.
    assert (HV1 : V v1 l /\ vlen v1 = vlen v).
    { unfold v1. destruct (vcap v <=? vlen v); [|split; [exact H|reflexivity]].
      split; [apply (V_ensure A v l _ H)|apply ensure_len]. }
    destruct HV1 as [HV1 Hlen1].
    (* the scalar path's result, unfolded *)
    unfold fv_insert in Efv, HVfv. destruct (N.ltb_spec (vlen v) i); [lia|]. fold v1 in Efv, HVfv. cbn [fst] in HVfv.
    destruct ((0 <? vlen v1 - i) && beneficial (vlen v1 - i)) eqn:Esimd.
    + apply andb_prop in Esimd. destruct Esimd as [Hpos _]. destruct (N.ltb_spec 0 (vlen v1 - i)) as [Hmc|]; [|discriminate].
      rewrite (V_peek v1 l i (N.to_nat (vlen v1 - i)) HV1) by lia. cbn [bind]. rewrite !Hcopy.
      eexists. split; [reflexivity|].
      eapply V_ext; [exact HVfv|reflexivity|reflexivity|]. cbn [vbuf]. intros j.
      destruct (N.ltb_spec 0 (vlen v1 - i)); [|lia].
      unfold upd. destruct (N.eqb_spec j i); [reflexivity|].
      unfold ModelFastVecCopy.put_list, move_range. rewrite nlen_length, firstn_length, skipn_length.
      replace (N.of_nat (Nat.min (N.to_nat (vlen v1 - i)) (length l - N.to_nat i))) with (vlen v1 - i) by lia.
      destruct ((i + 1 <=? j) && (j <? i + 1 + (vlen v1 - i))) eqn:Eb.
      * rewrite (nth_error_firstn_lt A) by pos_lia. rewrite (nth_error_skipn A).
        rewrite <- (V_live _ _ HV1 (N.to_nat i + N.to_nat (j - (i + 1)))%nat ltac:(pos_lia)). f_equal. pos_lia.
      * destruct ((i <=? j) && (j <? i + (vlen v1 - i))) eqn:Eb2; [pos_lia|reflexivity].
    + assert (Hsame : (if 0 <? vlen v1 - i then Ok (move_range A (vbuf v1) i (i + 1) (vlen v1 - i)) else Ok (vbuf v1)) =
                      Ok (if 0 <? vlen v1 - i then move_range A (vbuf v1) i (i + 1) (vlen v1 - i) else vbuf v1))
        by (destruct (0 <? vlen v1 - i); reflexivity).
      rewrite Hsame. cbn [bind]. eexists. split; [reflexivity|exact HVfv].
Qed.

Lemma V_remove_c v l i :
  V v l ->
  exists v', fvc_remove A esz fast_copy v i = Ok (v', snd (cvec_step A l (CRemove i))) /\
             V v' (fst (cvec_step A l (CRemove i))).
Proof.
  intros H. pose proof (V_len _ _ H) as Hl. pose proof (V_le _ _ H). unfold fvc_remove. cbn [cvec_step vec_step].
  destruct (nth_error l (N.to_nat i)) as [x|] eqn:Ex.
  - assert (Hi : (N.to_nat i < length l)%nat) by (apply nth_error_Some; rewrite Ex; discriminate).
    destruct (V_remove A v l i x H Ex) as [vfv [Efv HVfv]]. cbn [fst snd].
    destruct (N.leb_spec (vlen v) i); [lia|].
    pose proof (V_live _ _ H (N.to_nat i) Hi) as Hv. rewrite N2Nat.id in Hv. rewrite Hv, Ex.
    unfold fv_remove in Efv. destruct (N.leb_spec (vlen v) i); [lia|]. rewrite Hv, Ex in Efv. injection Efv as Efv.
    destruct ((0 <? vlen v - i - 1) && beneficial (vlen v - i - 1)) eqn:Esimd.
    + apply andb_prop in Esimd. destruct Esimd as [Hpos _]. destruct (N.ltb_spec 0 (vlen v - i - 1)) as [Hmc|]; [|discriminate].
      rewrite (V_peek v l (i + 1) (N.to_nat (vlen v - i - 1)) H) by lia. cbn [bind]. rewrite !Hcopy.
      eexists. split; [reflexivity|].
      eapply V_ext; [exact HVfv|rewrite <- Efv; reflexivity|rewrite <- Efv; reflexivity|]. rewrite <- Efv. cbn [vbuf]. intros j.
      destruct (N.ltb_spec 0 (vlen v - i - 1)); [|lia].
      unfold upd, ModelFastVecCopy.put_list, move_range. rewrite nlen_length, firstn_length, skipn_length.
      replace (N.of_nat (Nat.min (N.to_nat (vlen v - i - 1)) (length l - N.to_nat (i + 1)))) with (vlen v - i - 1) by lia.
      destruct (N.eqb_spec j (vlen v - 1)) as [->|Hne].
      * destruct ((i <=? vlen v - 1) && (vlen v - 1 <? i + (vlen v - i - 1))) eqn:Eb; [pos_lia|].
        destruct ((i + 1 <=? vlen v - 1) && (vlen v - 1 <? i + 1 + (vlen v - i - 1))) eqn:Eb2; [reflexivity|pos_lia].
      * destruct ((i <=? j) && (j <? i + (vlen v - i - 1))) eqn:Eb.
        -- rewrite (nth_error_firstn_lt A) by pos_lia. rewrite (nth_error_skipn A).
           destruct (N.eqb_spec (i + 1 + (j - i)) i); [lia|].
           rewrite <- (V_live _ _ H (N.to_nat (i + 1) + N.to_nat (j - i))%nat ltac:(pos_lia)). f_equal. pos_lia.
        -- destruct ((i + 1 <=? j) && (j <? i + 1 + (vlen v - i - 1))) eqn:Eb2; [pos_lia|].
           destruct (N.eqb_spec j i) as [->|Hne2]; [pos_lia|reflexivity].
    + assert (Hsame : (if 0 <? vlen v - i - 1 then Ok (move_range A (upd (vbuf v) i None) (i + 1) i (vlen v - i - 1)) else Ok (upd (vbuf v) i None)) =
                      Ok (if 0 <? vlen v - i - 1 then move_range A (upd (vbuf v) i None) (i + 1) i (vlen v - i - 1) else upd (vbuf v) i None))
        by (destruct (0 <? vlen v - i - 1); reflexivity).
      rewrite Hsame. cbn [bind]. rewrite Efv. eexists. split; [reflexivity|exact HVfv].
  - apply nth_error_None in Ex. cbn [fst snd]. destruct (N.leb_spec (vlen v) i); [|lia].
    exists v. split; [reflexivity|exact H].
Qed.

Lemma V_resize_c v l n x :
  V v l ->
  exists v', fvc_resize A esz fast_fill v n x = Ok v' /\ V v' (fst (cvec_step A l (CResize n x))).
Proof.
  intros H. pose proof (V_len _ _ H) as Hl. unfold fvc_resize. cbn [cvec_step vec_step fst]. rewrite nlen_length.
  destruct (V_resize A v l n x H) as [vfv [Efv HVfv]].
  destruct (N.ltb_spec (vlen v) n) as [Hg|Hs].
  - destruct (N.ltb_spec (N.of_nat (length l)) n); [|lia]. cbn [fst].
    unfold fv_resize in Efv. destruct (N.ltb_spec (vlen v) n); [|lia]. injection Efv as Efv.
    eexists. split; [reflexivity|].
    eapply V_ext; [exact HVfv|rewrite <- Efv; reflexivity|rewrite <- Efv; reflexivity|]. rewrite <- Efv. cbn [vbuf]. intros j.
    destruct (beneficial (n - vlen (fv_ensure_capacity A v n)) && (esz =? 1)); [|reflexivity].
    rewrite Hfill. apply put_list_repeat.
  - rewrite Efv. cbn [bind fst]. exists vfv. split; [reflexivity|].
    destruct (N.ltb_spec (N.of_nat (length l)) n); [lia|]. cbn [fst]. exact HVfv.
Qed.

Lemma nth_error_splice (l : list A) a b k x j :
  (a <= b)%nat -> (b <= length l)%nat -> k = (b - a)%nat ->
  nth_error (firstn a l ++ repeat x k ++ skipn b l) j =
  if (j <? a)%nat then nth_error l j else if (j <? b)%nat then Some x else nth_error l j.
Proof.
  intros Hab Hb ->. assert (Hf : length (firstn a l) = a) by (rewrite firstn_length; lia).
  destruct (Nat.ltb_spec j a).
  - rewrite nth_error_app1 by lia. apply (nth_error_firstn_lt A). assumption.
  - rewrite nth_error_app2 by lia. rewrite Hf. destruct (Nat.ltb_spec j b).
    + rewrite nth_error_app1 by (rewrite repeat_length; lia). apply (nth_error_repeat A). lia.
    + rewrite nth_error_app2 by (rewrite repeat_length; lia). rewrite repeat_length, (nth_error_skipn A). f_equal. lia.
Qed.

Lemma V_fill_c v l a b x :
  V v l ->
  snd (fvc_fill_range A esz fast_fill v a b x) = snd (cvec_step A l (CFill a b x)) /\
  V (fst (fvc_fill_range A esz fast_fill v a b x)) (fst (cvec_step A l (CFill a b x))).
Proof.
  intros H. pose proof (V_len _ _ H) as Hl. pose proof (V_le _ _ H). unfold fvc_fill_range. cbn [cvec_step]. rewrite nlen_length, <- Hl.
  destruct ((b <? a) || (vlen v <? b)) eqn:Ebad; [cbn [fst snd]; split; [reflexivity|exact H]|].
  apply orb_false_elim in Ebad. destruct Ebad as [E1 E2].
  destruct (N.ltb_spec b a); [discriminate|]. destruct (N.ltb_spec (vlen v) b); [discriminate|].
  destruct (N.eqb_spec a b) as [->|Hne]; cbn [fst snd].
  - split; [reflexivity|]. replace (N.to_nat (b - b)) with 0%nat by lia. cbn [repeat app]. rewrite firstn_skipn. exact H.
  - split; [reflexivity|].
    constructor; cbn [vlen vcap vbuf].
    + rewrite !app_length, firstn_length, repeat_length, skipn_length. lia.
    + lia.
    + intros i Hi. rewrite !app_length, firstn_length, repeat_length, skipn_length in Hi.
      rewrite (nth_error_splice l (N.to_nat a) (N.to_nat b)) by lia.
      assert (Hbuf : (if beneficial (b - a) && (esz =? 1) then put_list (vbuf v) a (fast_fill x (N.to_nat (b - a)))
                      else fill_range A (vbuf v) a (N.to_nat (b - a)) x) (N.of_nat i) =
                     fill_range A (vbuf v) a (N.to_nat (b - a)) x (N.of_nat i))
        by (destruct (beneficial (b - a) && (esz =? 1)); [rewrite Hfill; apply put_list_repeat|reflexivity]).
      rewrite Hbuf, (fill_range_spec A).
      destruct (Nat.ltb_spec i (N.to_nat a)).
      * destruct ((a <=? N.of_nat i) && (N.of_nat i <? a + N.of_nat (N.to_nat (b - a)))) eqn:Eb; [pos_lia|]. apply (V_live _ _ H). lia.
      * destruct (Nat.ltb_spec i (N.to_nat b)).
        -- destruct ((a <=? N.of_nat i) && (N.of_nat i <? a + N.of_nat (N.to_nat (b - a)))) eqn:Eb; [reflexivity|pos_lia].
        -- destruct ((a <=? N.of_nat i) && (N.of_nat i <? a + N.of_nat (N.to_nat (b - a)))) eqn:Eb; [pos_lia|]. apply (V_live _ _ H). lia.
    + intros j Hj.
      assert (Hbuf : (if beneficial (b - a) && (esz =? 1) then put_list (vbuf v) a (fast_fill x (N.to_nat (b - a)))
                      else fill_range A (vbuf v) a (N.to_nat (b - a)) x) j =
                     fill_range A (vbuf v) a (N.to_nat (b - a)) x j)
        by (destruct (beneficial (b - a) && (esz =? 1)); [rewrite Hfill; apply put_list_repeat|reflexivity]).
      rewrite Hbuf, (fill_range_spec A).
      destruct ((a <=? j) && (j <? a + N.of_nat (N.to_nat (b - a)))) eqn:Eb; [pos_lia|]. apply (V_dead _ _ H). exact Hj.
Qed.

Lemma V_copy_from_c v l xs :
  V v l -> exists v', fvc_copy_from A esz fast_copy false v xs = Ok v' /\ V v' xs.
Proof.
  intros H. pose proof (V_len _ _ H) as Hl. unfold fvc_copy_from. destruct xs as [|x0 xs0].
  - eexists. split; [reflexivity|].
    constructor; cbn [vlen vcap vbuf length]; try lia; try reflexivity.
    intros j _. destruct (N.ltb_spec j (vlen v)); [reflexivity|]. apply (V_dead _ _ H). assumption.
  - set (xs := x0 :: xs0). unfold fvc_ensure_capacity. cbn [andb bind].
    destruct (V_ensure A v l (nlen xs) H) as [H1 Hc].
    assert (Hsrc : (if beneficial (nlen xs) then fast_copy xs else xs) = xs) by (destruct (beneficial (nlen xs)); [apply Hcopy|reflexivity]).
    rewrite Hsrc. eexists. split; [reflexivity|].
    constructor; cbn [vlen vcap vbuf].
    + apply nlen_length.
    + exact Hc.
    + intros i Hi. rewrite nlen_length. destruct (N.ltb_spec (N.of_nat i) (N.of_nat (length xs))); [|lia]. rewrite Nat2N.id. reflexivity.
    + intros j Hj. rewrite nlen_length in *. destruct (N.ltb_spec j (N.of_nat (length xs))); [lia|].
      destruct (N.ltb_spec j (vlen v)); [reflexivity|]. apply (V_dead _ _ H1). rewrite ensure_len. assumption.
Qed.

Lemma fvc_step_refines v l o :
  V v l ->
  exists v', fvc_step A esz fast_copy fast_fill v o = Ok (v', snd (cvec_step A l o)) /\ V v' (fst (cvec_step A l o)).
Proof.
  intros H. unfold fvc_step.
  destruct o as [x| |i x|i|n x| | |xs|xs|n|i|a b x|xs|n]; cbn [fvc_step_with].
  - cbn [cvec_step vec_step fst snd]. eexists. split; [reflexivity|]. apply (V_push A). exact H.
  - destruct (V_pop A v l H) as [v' [E H']]. rewrite E. cbn [bind cvec_step vec_step fst snd]. exists v'. split; [reflexivity|exact H'].
  - apply V_insert_c. exact H.
  - apply V_remove_c. exact H.
  - destruct (V_resize_c v l n x H) as [v' [E H']]. rewrite E. cbn [bind]. exists v'. split; [reflexivity|exact H'].
  - destruct (V_clear A v l H) as [v' [E [H' _]]]. rewrite E. cbn [bind cvec_step fst snd]. exists v'. split; [reflexivity|exact H'].
  - cbn [cvec_step fst snd]. eexists. split; [reflexivity|]. apply (V_shrink A). exact H.
  - cbn [cvec_step fst snd]. eexists. split; [reflexivity|]. apply V_extend_c. exact H.
  - cbn [cvec_step fst snd]. eexists. split; [reflexivity|]. apply V_extend_fast. exact H.
  - cbn [cvec_step fst snd]. eexists. split; [reflexivity|]. apply (V_reserve A v l n H).
  - rewrite (V_get A v l i H). cbn [bind cvec_step fst snd]. exists v. split; [reflexivity|exact H].
  - destruct (V_fill_c v l a b x H) as [Ho HV]. eexists. split; [|exact HV].
    rewrite <- Ho. destruct (fvc_fill_range A esz fast_fill v a b x). reflexivity.
  - destruct (V_copy_from_c v l xs H) as [v' [E H']]. rewrite E. cbn [bind cvec_step fst snd]. exists v'. split; [reflexivity|exact H'].
  - unfold fvc_ensure_capacity. cbn [andb bind cvec_step fst snd]. eexists. split; [reflexivity|]. apply (V_ensure A v l n H).
Qed.

Lemma fvc_run_refines ops : forall v l,
  V v l ->
  exists v', fvc_run A esz fast_copy fast_fill v ops = Ok (v', snd (cvec_run A l ops)) /\ V v' (fst (cvec_run A l ops)).
Proof.
  induction ops as [|o t IH]; intros v l H.
  - exists v. split; [reflexivity|exact H].
  - destruct (fvc_step_refines v l o H) as [v1 [E1 H1]].
    destruct (IH v1 _ H1) as [v2 [E2 H2]].
    unfold fvc_run, fvc_step in *. cbn [fvc_run_with cvec_run]. rewrite E1. cbn [bind fst snd]. rewrite E2. cbn [bind fst snd].
    exists v2. split; [reflexivity|exact H2].
Qed.

(* equal to the scalar path: where Model.v has the operation, the Copy path returns the same value, and ends in
   the same len, the same capacity and a pointwise equal buffer *)
Lemma cap_step_same v l o so :
  V v l -> scalar_of A o = Some so ->
  forall v1 r1 v2 b2,
  fvc_step A esz fast_copy fast_fill v o = Ok (v1, r1) -> fv_step A v so = Ok (v2, b2) -> vcap v1 = vcap v2.
Proof.
  intros H Hs v1 r1 v2 b2 E1 E2. unfold fvc_step in E1.
  destruct o as [x| |i x|i|n x| | |xs|xs|n|i|a b x|xs|n]; cbn [scalar_of] in Hs; try discriminate; injection Hs as <-;
    cbn [fvc_step_with fv_step] in E1, E2.
  - injection E1 as <- _. injection E2 as <- _. reflexivity.
  - destruct (fv_pop A v) as [[p q]|]; cbn [bind fst snd] in *; [|discriminate]. injection E1 as <- _. injection E2 as <- _. reflexivity.
  - unfold fvc_insert in E1. unfold fv_insert in E2. destruct (vlen v <? i); cbn [fst snd] in *.
    + injection E1 as <- _. injection E2 as <- _. reflexivity.
    + set (v0 := if vcap v <=? vlen v then fv_ensure_capacity A v (vlen v + 1) else v) in *.
      destruct ((0 <? vlen v0 - i) && beneficial (vlen v0 - i)).
      * destruct (peek_range A (vbuf v0) i (N.to_nat (vlen v0 - i))); cbn [bind] in E1; [|discriminate].
        injection E1 as <- _. injection E2 as <- _. reflexivity.
      * destruct (0 <? vlen v0 - i); cbn [bind] in E1; injection E1 as <- _; injection E2 as <- _; reflexivity.
  - unfold fvc_remove in E1. unfold fv_remove in E2. destruct (vlen v <=? i); cbn [bind fst snd] in *.
    + injection E1 as <- _. injection E2 as <- _. reflexivity.
    + destruct (vbuf v i); [|discriminate].
      destruct ((0 <? vlen v - i - 1) && beneficial (vlen v - i - 1)).
      * destruct (peek_range A (vbuf v) (i + 1) (N.to_nat (vlen v - i - 1))); cbn [bind] in E1; [|discriminate].
        injection E1 as <- _. cbn [bind fst snd] in E2. injection E2 as <- _. reflexivity.
      * destruct (0 <? vlen v - i - 1); cbn [bind fst snd] in *; injection E1 as <- _; injection E2 as <- _; reflexivity.
  - unfold fvc_resize in E1. unfold fv_resize in *. destruct (vlen v <? n); cbn [bind fst snd] in *.
    + injection E1 as <- _. injection E2 as <- _. reflexivity.
    + destruct (n <? vlen v).
      * destruct (take_range A (vbuf v) n (N.to_nat (vlen v - n))); cbn [bind fst snd] in *; [|discriminate].
        injection E1 as <- _. injection E2 as <- _. reflexivity.
      * cbn [bind fst snd] in *. injection E1 as <- _. injection E2 as <- _. reflexivity.
  - destruct (fv_clear A v) as [[p q]|]; cbn [bind fst snd] in *; [|discriminate]. injection E1 as <- _. injection E2 as <- _. reflexivity.
  - injection E1 as <- _. injection E2 as <- _. reflexivity.
  - injection E1 as <- _. injection E2 as <- _. unfold fvc_extend, fv_extend. destruct (beneficial (nlen xs)); [|reflexivity].
    cbn [vcap]. generalize (fv_reserve A v (nlen xs)). clear. induction xs as [|y xs IH]; intros f; [reflexivity|].
    cbn [fold_left]. rewrite <- IH. reflexivity.
  - injection E1 as <- _. injection E2 as <- _. unfold fvc_extend_fast, fv_extend. destruct xs as [|y xs]; [cbn [fold_left nlen]; unfold fv_reserve; destruct (vlen v + 0 <=? vcap v) eqn:E; [reflexivity|]; cbn [fv_realloc vcap]; pose proof (V_le _ _ H); pos_lia|].
    cbn [vcap]. generalize (fv_reserve A v (nlen (y :: xs))). generalize (y :: xs). clear. induction l as [|z zs IH]; intros f; [reflexivity|].
    cbn [fold_left]. rewrite <- IH. reflexivity.
  - injection E1 as <- _. injection E2 as <- _. reflexivity.
  - destruct (fv_get A v i); cbn [bind] in *; [|discriminate]. injection E1 as <- _. injection E2 as <- _. reflexivity.
Qed.

Lemma fastvec_bulk_equals_scalar_proof v l o so :
  V v l -> scalar_of A o = Some so ->
  exists v1 v2 b2,
    fvc_step A esz fast_copy fast_fill v o = Ok (v1, fst b2) /\ fv_step A v so = Ok (v2, b2) /\
    vlen v1 = vlen v2 /\ vcap v1 = vcap v2 /\ (forall j, vbuf v1 j = vbuf v2 j).
Proof.
  intros H Hs.
  destruct (fvc_step_refines v l o H) as [v1 [E1 H1]].
  destruct (fv_step_refines A v l so H) as [v2 [E2 H2]].
  assert (Hspec : cvec_step A l o = (fst (vec_step A l so), fst (snd (vec_step A l so)))).
  { destruct o; cbn [scalar_of] in Hs; try discriminate; injection Hs as <-; cbn [cvec_step]; try reflexivity;
      cbn [vec_step fst snd]; try reflexivity.
    - destruct (nlen l <? n); reflexivity. }
  rewrite Hspec in E1, H1. cbn [fst snd] in E1, H1.
  exists v1, v2, (snd (vec_step A l so)). split; [exact E1|]. split; [exact E2|].
  split; [rewrite (V_len _ _ H1), (V_len _ _ H2); reflexivity|].
  split; [apply (cap_step_same v l o so H Hs v1 _ v2 _ E1 E2)|].
  intros j. pose proof (V_len _ _ H1) as Hl1. pose proof (V_len _ _ H2) as Hl2.
  destruct (N.ltb_spec j (vlen v1)).
  - rewrite <- (N2Nat.id j). rewrite (V_live _ _ H1 (N.to_nat j)) by lia. rewrite (V_live _ _ H2 (N.to_nat j)) by lia. reflexivity.
  - rewrite (V_dead _ _ H1 j) by lia. rewrite (V_dead _ _ H2 j) by lia. reflexivity.
Qed.

(* PartialEq on related vectors decides equality of the sequences *)
Lemma list_eqb_spec (a : list A) : forall b, list_eqb A aeqb a b = true <-> a = b.
Proof.
  induction a as [|x a IH]; intros [|y b]; cbn [list_eqb]; split; intros E; try reflexivity; try discriminate.
  - apply andb_prop in E. destruct E as [E1 E2]. apply Haeq in E1. apply IH in E2. subst. reflexivity.
  - injection E as -> ->. apply andb_true_intro. split; [apply Haeq; reflexivity|apply IH; reflexivity].
Qed.

Lemma fvc_eq_spec v w l m :
  V v l -> V w m -> exists b, fvc_eq A esz fast_compare aeqb v w = Ok b /\ (b = true <-> l = m).
Proof.
  intros Hv Hw. pose proof (V_len _ _ Hv) as Hl. pose proof (V_len _ _ Hw) as Hm. unfold fvc_eq.
  destruct (N.eqb_spec (vlen v) (vlen w)) as [Elen|Nlen]; cbn [negb].
  - destruct (N.eqb_spec (vlen v) 0) as [Ez|Enz].
    + exists true. split; [reflexivity|]. split; [intros _|reflexivity].
      destruct l; [|cbn [length] in Hl; lia]. destruct m; [reflexivity|cbn [length] in Hm; lia].
    + rewrite (peek_range_n A l) by (try lia; intros i Hi; rewrite <- (V_live _ _ Hv i Hi); f_equal). cbn [bind].
      rewrite (peek_range_n A m) by (try lia; intros i Hi; rewrite <- (V_live _ _ Hw i Hi); f_equal). cbn [bind].
      eexists. split; [reflexivity|]. destruct (beneficial (vlen v)); [apply Hcmp; lia|apply list_eqb_spec].
  - exists false. split; [reflexivity|]. split; [discriminate|]. intros ->. lia.
Qed.

End FVC.

(* ---------- top-level statements ---------- *)
Lemma fastvec_copy_refines_list_proof (A : Type) esz (fast_copy : list A -> list A) (fast_fill : A -> nat -> list A)
    (fast_compare : list A -> list A -> bool) (aeqb : A -> A -> bool) :
  (forall l, fast_copy l = l) -> (forall x n, fast_fill x n = repeat x n) ->
  (forall x y, aeqb x y = true <-> x = y) ->
  (forall a b, length a = length b -> (fast_compare a b = true <-> a = b)) ->
  forall c (ops : list (cop A)),
  exists v', fvc_run A esz fast_copy fast_fill (fv_with_capacity c) ops = Ok (v', snd (cvec_run A [] ops)) /\
             V A v' (fst (cvec_run A [] ops)).
Proof.
  intros Hc Hf Ha Hm c ops.
  apply (fvc_run_refines A esz fast_copy fast_fill fast_compare aeqb Hc Hf Ha Hm). apply (V_with_capacity A).
Qed.

(* the pinned tree: ensure_capacity below len aborts (reached through copy_from_slice_fast with a shorter source),
   and an empty source leaves the old contents *)
Lemma fastvec_copy_from_refuted_proof :
  let v12 := fv_push N (fv_push N fv_new 1) 2 in
  fvc_step_with N 8 k_copy k_fill true v12 (CCopyFrom [9]) = UB /\
  fvc_step_with N 8 k_copy k_fill true v12 (CEnsure 1) = UB /\
  match fvc_step_with N 8 k_copy k_fill true v12 (CCopyFrom []) with Ok (v, _) => vlen v = 2 | UB => False end /\
  match fvc_step N 8 k_copy k_fill v12 (CCopyFrom [9]) with Ok (v, _) => vlen v = 1 /\ vbuf v 0 = Some 9 /\ vbuf v 1 = None | UB => False end /\
  match fvc_step N 8 k_copy k_fill v12 (CCopyFrom []) with Ok (v, _) => vlen v = 0 /\ vbuf v 0 = None | UB => False end.
Proof. vm_compute. repeat split. Qed.

Lemma k_compare_spec (a : list N) : forall b, k_compare a b = true <-> a = b.
Proof.
  unfold k_compare. induction a as [|x a IH]; intros [|y b]; cbn [ZV.Common.Run.eqb_ln]; split; intros E; try reflexivity; try discriminate.
  - apply andb_prop in E. destruct E as [E1 E2]. apply N.eqb_eq in E1. apply IH in E2. subst. reflexivity.
  - injection E as -> ->. apply andb_true_intro. split; [apply N.eqb_refl|apply IH; reflexivity].
Qed.

(* the hypotheses on the kernels are satisfiable (by what the kernels must compute), and a history through the
   SIMD branches of a one-byte and an eight-byte element type *)
Example fastvec_copy_history_example :
  (forall l, k_copy l = l) /\ (forall x n, k_fill x n = repeat x n) /\
  (forall x y, N.eqb x y = true <-> x = y) /\ (forall a b, length a = length b -> (k_compare a b = true <-> a = b)) /\
  let ops := [CExtend (repeat 7 70); CInsert 2 9; CRemove 0; CResize 140 5; CFill 3 120 8; CExtendFast (repeat 4 9);
              CCopyFrom (repeat 6 65); CGet 64; CCopyFrom [1; 2]; CEnsure 1; CCopyFrom []] in
  match fvc_run N 1 k_copy k_fill (fv_with_capacity 0) ops, fvc_run N 8 k_copy k_fill (fv_with_capacity 0) ops with
  | Ok (v, outs), Ok (w, outs') => outs = snd (cvec_run N [] ops) /\ outs' = outs /\ vlen v = 0 /\ vlen w = 0
  | _, _ => False
  end.
Proof.
  split; [reflexivity|]. split; [reflexivity|]. split; [apply N.eqb_eq|]. split; [intros a b _; apply k_compare_spec|].
  vm_compute. repeat split.
Qed.
