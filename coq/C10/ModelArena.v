(* C10: what the arena-based string vectors share (definitions only): byte strings, the lexicographic comparison
   of byte slices (<[u8]>::cmp), results with a Panic outcome (Rust's slice indexing), arena slicing, and the
   insertion sort that stands in for the standard library's sort when a model is executed. *)
From ZV.Common Require Import Base Run.
Open Scope N_scope.

Definition bytes : Type := list N.

(* <[u8] as Ord>::cmp *)
Fixpoint lex_cmp (a b : bytes) : comparison :=
  match a, b with
  | [], [] => Eq
  | [], _ :: _ => Lt
  | _ :: _, [] => Gt
  | x :: a', y :: b' => match x ?= y with Eq => lex_cmp a' b' | c => c end
  end.
Definition lex_le (a b : bytes) : Prop := lex_cmp a b <> Gt.

(* a computation that may panic (index or slice range out of bounds) *)
Inductive res (T : Type) : Type :=
| Done (a : T)
| Panic.
Arguments Done {T} a.
Arguments Panic {T}.
Definition rbind {T U} (r : res T) (f : T -> res U) : res U :=
  match r with Done a => f a | Panic => Panic end.

Fixpoint rmap {T U} (f : T -> res U) (l : list T) : res (list U) :=
  match l with
  | [] => Done []
  | x :: t => rbind (f x) (fun y => rbind (rmap f t) (fun ys => Done (y :: ys)))
  end.

(* &arena[offset .. offset + length] *)
Definition slice (arena : bytes) (offset length : N) : res bytes :=
  if offset + length <=? nlen arena
  then Done (firstn (N.to_nat length) (skipn (N.to_nat offset) arena))
  else Panic.

(* start .. start + n *)
Fixpoint nseq (start : N) (n : nat) : list N :=
  match n with O => [] | S k => start :: nseq (start + 1) k end.

(* v[i] on a Vec: panics when i is out of range *)
Definition index {T} (l : list T) (i : N) : res T :=
  match nth_error l (N.to_nat i) with Some x => Done x | None => Panic end.

(* collect an iterator that ends at the first None *)
Fixpoint until_none {T} (l : list (option T)) : list T :=
  match l with
  | Some x :: t => x :: until_none t
  | _ => []
  end.

(* ---------- sorting ---------- *)
(* a comparator is a total preorder when swapping the arguments flips the answer and "not greater" is transitive *)
Definition total_preorder {T} (c : T -> T -> comparison) : Prop :=
  (forall a b, c b a = CompOpp (c a b)) /\
  (forall a b d, c a b <> Gt -> c b d <> Gt -> c a d <> Gt).

(* insertion sort: the executable stand-in for slice::sort_unstable_by *)
Fixpoint insert_by {T} (c : T -> T -> comparison) (x : T) (l : list T) : list T :=
  match l with
  | [] => [x]
  | y :: t => match c x y with Gt => y :: insert_by c x t | _ => x :: l end
  end.
Definition isort_by (T : Type) (c : T -> T -> comparison) (l : list T) : list T :=
  fold_right (insert_by c) [] l.

(* encoding of byte strings for the correspondence check: length, then the bytes *)
Definition enc_bytes (s : bytes) : list Z := Z.of_N (nlen s) :: map Z.of_N s.
Fixpoint enc_strs (l : list bytes) : list Z :=
  match l with [] => [] | s :: t => enc_bytes s ++ enc_strs t end.
