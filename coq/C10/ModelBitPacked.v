(* C10 mechanism model of BitPackedStringVec<T, O> (definitions only).

   Modelled code: src/containers/specialized/bit_packed_string_vec.rs
     BitPackedStringVec32 = <u32, U32OffsetOps>: entry = `offset | (length << 32)` in one u64, offset and length
       read back with `& 0xFFFFFFFF` / `>> 32`; max_offset = u32::MAX, max_length = u32::MAX.
     BitPackedStringVec64 = <u64, U64OffsetOps>: entry = `(offset & 0xFF_FFFF_FFFF) | (length << 40)`, read back with
       `& 0xFF_FFFF_FFFF` / `(>> 40) & 0xFFFFFF`; max_offset = usize::MAX, max_length = 2^24 - 1.  The offset is masked
       to 40 bits *without a check*: an arena of 2^40 bytes or more would read back the wrong bytes (not reachable
       with real memory; the theorems bound the pushed bytes by 2^40 for this variant).
     push: `O::from_usize(arena.len())?`, `offset + length > max_offset` -> Err, `arena.extend_from_slice(s)`, *then*
       `BitPackedEntry::new(offset, length)?` - which refuses `length > max_length` after the arena has already been
       extended: a refused over-long string (> 16 MiB, 64-bit variant) leaves its bytes in the arena without an
       entry (modelled as written; the held sequence is not affected) -, `entries.push`, returns the index.
     get_bytes / get (index >= len -> None; a range outside the arena -> None; get adds str::from_utf8(..).ok()),
     len.  The BMI2 accessors (`_bextr_u64(x, 0, 32)` ...) extract the same bit fields as the fallback ones.
   `entries[i]` is Rust indexing: out of range is the outcome Panic. *)
From ZV.Common Require Import Base Run.
From ZV.C10 Require Import ModelArena ModelFixedLen.
Open Scope N_scope.

Definition U32_MAX : N := 4294967295.
Definition U64_MAX : N := 18446744073709551615.
Definition MASK40 : N := 1099511627775.      (* 0x000000FFFFFFFFFF *)
Definition MASK24 : N := 16777215.           (* 0xFFFFFF *)

Definition bp_max_offset (w64 : bool) : N := if w64 then U64_MAX else U32_MAX.
Definition bp_max_length (w64 : bool) : N := if w64 then MASK24 else U32_MAX.

(* BitPackedEntry::new, the packing (u64 arithmetic) *)
Definition bp_pack (w64 : bool) (offset length : N) : N :=
  if w64 then N.lor (N.land offset MASK40) (N.shiftl length 40 mod 2 ^ 64)
  else N.lor offset (N.shiftl length 32 mod 2 ^ 64).
Definition bp_offset (w64 : bool) (p : N) : N :=
  if w64 then N.land p MASK40 else N.land p U32_MAX.
Definition bp_length (w64 : bool) (p : N) : N :=
  if w64 then N.land (N.shiftr p 40) MASK24 else N.shiftr p 32.

Record bpv : Type := { parena : bytes; pentries : list N }.
Definition bpv_new : bpv := {| parena := []; pentries := [] |}.

Inductive pop : Type :=
| PPush (s : bytes)
| PGet (i : N)
| PGetBytes (i : N)
| PLen.

Inductive pobs : Type :=
| PErr
| PIdx (i : N)
| PStr (o : option bytes)
| PNum (n : N).

Section BitPacked.
Variable w64 : bool.

Definition bpv_push (v : bpv) (s : bytes) : bpv * pobs :=
  let alen := nlen (parena v) in
  if negb w64 && (U32_MAX <? alen) then (v, PErr)                          (* O::from_usize(arena.len())? *)
  else if bp_max_offset w64 <? alen + nlen s then (v, PErr)                (* capacity limit *)
  else
    let v1 := {| parena := parena v ++ s; pentries := pentries v |} in      (* arena.extend_from_slice *)
    if bp_max_offset w64 <? alen then (v1, PErr)                           (* BitPackedEntry::new: offset check *)
    else if bp_max_length w64 <? nlen s then (v1, PErr)                    (* ... length check *)
    else ({| parena := parena v ++ s; pentries := pentries v ++ [bp_pack w64 alen (nlen s)] |},
          PIdx (nlen (pentries v))).

Definition bpv_get_bytes (v : bpv) (i : N) : res (option bytes) :=
  if nlen (pentries v) <=? i then Done None
  else rbind (index (pentries v) i) (fun p =>
       let offset := bp_offset w64 p in
       let length := bp_length w64 p in
       if offset + length <=? nlen (parena v)
       then rbind (slice (parena v) offset length) (fun b => Done (Some b))
       else Done None).

Definition bpv_get (v : bpv) (i : N) : res (option bytes) :=
  rbind (bpv_get_bytes v i) (fun r =>
  Done (match r with Some b => if utf8_valid b then Some b else None | None => None end)).

Definition bpv_step (v : bpv) (o : pop) : res (bpv * pobs) :=
  match o with
  | PPush s => Done (bpv_push v s)
  | PGet i => rbind (bpv_get v i) (fun r => Done (v, PStr r))
  | PGetBytes i => rbind (bpv_get_bytes v i) (fun r => Done (v, PStr r))
  | PLen => Done (v, PNum (nlen (pentries v)))
  end.

Fixpoint bpv_run (v : bpv) (ops : list pop) : res (bpv * list pobs) :=
  match ops with
  | [] => Done (v, [])
  | o :: t => rbind (bpv_step v o) (fun r =>
              rbind (bpv_run (fst r) t) (fun r2 => Done (fst r2, snd r :: snd r2)))
  end.

(* ----- the Vec<String> it must implement; `used` = bytes consumed in the arena so far (the 32-bit variant refuses
   by it, and a refused over-long string of the 64-bit variant still consumes its bytes) ----- *)
Definition bps_step (st : list bytes * N) (o : pop) : (list bytes * N) * pobs :=
  let (l, used) := st in
  match o with
  | PPush s =>
      if w64 then
        if MASK24 <? nlen s then ((l, used + nlen s), PErr) else ((l ++ [s], used + nlen s), PIdx (nlen l))
      else
        if U32_MAX <? used + nlen s then ((l, used), PErr) else ((l ++ [s], used + nlen s), PIdx (nlen l))
  | PGet i | PGetBytes i => (st, PStr (nth_error l (N.to_nat i)))
  | PLen => (st, PNum (nlen l))
  end.

Fixpoint bps_run (st : list bytes * N) (ops : list pop) : (list bytes * N) * list pobs :=
  match ops with
  | [] => (st, [])
  | o :: t => let r := bps_step st o in
              let r2 := bps_run (fst r) t in (fst r2, snd r :: snd r2)
  end.

(* the entry p describes the string s inside the arena *)
Definition entry_ok (arena : bytes) (p : N) (s : bytes) : Prop :=
  exists off, p = bp_pack w64 off (nlen s) /\ off + nlen s <= nlen arena /\ slice arena off (nlen s) = Done s /\
              nlen s <= bp_max_length w64 /\ utf8_valid s = true.

(* BV v (l, used): one entry per held string, each describing its bytes in the arena; the arena length is `used` and
   fits the offset field *)
Record BV (v : bpv) (st : list bytes * N) : Prop := {
  BV_used : snd st = nlen (parena v);
  BV_entries : Forall2 (entry_ok (parena v)) (pentries v) (fst st);
  BV_fits : nlen (parena v) <= (if w64 then MASK40 else U32_MAX)
}.

End BitPacked.

(* the strings handed to push are &str, i.e. well-formed UTF-8 *)
Definition pop_wf (o : pop) : Prop := match o with PPush s => utf8_valid s = true | _ => True end.
(* bytes a history hands to push *)
Definition pop_bytes (o : pop) : N := match o with PPush s => nlen s | _ => 0 end.
Fixpoint phist_bytes (ops : list pop) : N :=
  match ops with [] => 0 | o :: t => pop_bytes o + phist_bytes t end.

(* ---------- trace for the correspondence check ---------- *)
Definition enc_pobs (b : pobs) : list Z :=
  match b with
  | PErr => [(-1)%Z]
  | PIdx i => [7%Z; Z.of_N i]
  | PStr None => [1%Z]
  | PStr (Some s) => 2%Z :: enc_bytes s
  | PNum k => [4%Z; Z.of_N k]
  end.

Fixpoint bpv_trace (w64 : bool) (v : bpv) (ops : list pop) : list (list Z) :=
  match ops with
  | [] => []
  | o :: t => match bpv_step w64 v o with
              | Panic => [[(-99)%Z]]
              | Done r => enc_pobs (snd r) :: bpv_trace w64 (fst r) t
              end
  end.
