(* Whole histories on the AutoGrowCircularQueue model: refinement of a deque, exactly-once destruction,
   and the refutation of the `head <= tail` variant of clear/clone on a full ring. *)
From Coq Require Import Permutation.
From ZV.Common Require Import Base.
From ZV.C10 Require Import Model Spec ProofsPow2 ProofsRing.
Open Scope N_scope.

Section Hist.
Variable A : Type.

(* how many elements an operation may add / how much room it asks for *)
Definition qop_size (o : qop A) : N :=
  match o with
  | PushBack _ => 1
  | PushBulk xs => N.of_nat (length xs)
  | Reserve n => n
  | _ => 0
  end.
Fixpoint hist_size (ops : list (qop A)) : N :=
  match ops with [] => 0 | o :: t => qop_size o + hist_size t end.

Lemma ring_step_refines q l o :
  R A q l -> len q + qop_size o <= 2 ^ 61 ->
  exists q', ring_step A q o = Ok (q', snd (deque_step A l o)) /\
             R A q' (fst (deque_step A l o)) /\ len q' <= len q + qop_size o.
Proof.
  intros H Hb. pose proof (R_len A _ _ H) as Hl.
  destruct o as [x| |xs|n|n| | |]; cbn [qop_size] in Hb; unfold ring_step; cbn [ring_step_with deque_step fst snd].
  - eexists. split; [reflexivity|]. pose proof (R_push_back A q l x H Hb) as HR.
    split; [exact HR|]. rewrite (R_len A _ _ HR), app_length. cbn [length qop_size]. lia.
  - destruct (R_pop_front A q l H) as [q' [E HR]]. rewrite E. cbn [bind fst snd].
    exists q'. destruct l as [|x l]; cbn [hd_error tl] in *; (split; [reflexivity|]); (split; [exact HR|]);
      rewrite (R_len A _ _ HR), Hl; cbn [length qop_size]; lia.
  - eexists. split; [rewrite nlen_length; reflexivity|]. pose proof (R_push_bulk A q l xs H Hb) as HR.
    split; [exact HR|]. rewrite (R_len A _ _ HR), app_length. cbn [qop_size]. lia.
  - destruct (R_pop_bulk A q l n H) as [q' [E HR]]. rewrite E. cbn [bind fst snd].
    exists q'. rewrite nlen_length. split; [reflexivity|]. split; [exact HR|].
    rewrite (R_len A _ _ HR), skipn_length, Hl. cbn [qop_size]. lia.
  - eexists. split; [reflexivity|]. destruct (R_reserve A q l n H Hb) as [HR _]. split; [exact HR|].
    rewrite (R_len A _ _ HR), Hl. lia.
  - destruct (R_clear A q l H) as [q' [E [HR _]]]. unfold clear in E. rewrite E. cbn [bind fst snd].
    exists q'. split; [reflexivity|]. split; [exact HR|]. rewrite (R_len A _ _ HR). cbn [length]. lia.
  - rewrite (R_front A q l H). cbn [bind]. exists q. split; [reflexivity|]. split; [exact H|]. cbn [qop_size]. lia.
  - rewrite (R_back A q l H). cbn [bind]. exists q. split; [reflexivity|]. split; [exact H|]. cbn [qop_size]. lia.
Qed.

Lemma ring_run_refines ops : forall q l,
  R A q l -> len q + hist_size ops <= 2 ^ 61 ->
  exists q', ring_run A q ops = Ok (q', snd (deque_run A l ops)) /\ R A q' (fst (deque_run A l ops)).
Proof.
  induction ops as [|o t IH]; intros q l H Hb.
  - exists q. split; [reflexivity|exact H].
  - cbn [hist_size] in Hb.
    destruct (ring_step_refines q l o H ltac:(lia)) as [q1 [E1 [H1 Hlen]]].
    destruct (IH q1 _ H1 ltac:(lia)) as [q2 [E2 H2]].
    unfold ring_run in *. cbn [ring_run_with deque_run].
    unfold ring_step in E1. rewrite E1. cbn [bind fst snd]. rewrite E2. cbn [bind fst snd].
    exists q2. split; [reflexivity|exact H2].
Qed.

(* ring_refines_deque *)
Lemma ring_refines_deque_proof c ops :
  c <= 2 ^ 61 -> hist_size ops <= 2 ^ 61 ->
  exists q', ring_run A (with_capacity c) ops = Ok (q', snd (deque_run A [] ops)) /\
             R A q' (fst (deque_run A [] ops)).
Proof.
  intros Hc Hs. apply ring_run_refines.
  - apply R_with_capacity. change (2 ^ 62) with (2 * 2 ^ 61). lia.
  - cbn [with_capacity len]. unfold with_capacity. cbn [len]. lia.
Qed.

(* growth while the ring is wrapped keeps the order *)
Lemma wrap_growth_preserves_order_proof q l nc :
  R A q l -> nc <= 2 ^ 62 -> R A (grow_to A q nc) l.
Proof. intros H Hn. apply (R_grow_to A q l nc H Hn). Qed.

(* ---------- exactly-once destruction ---------- *)
Lemma deque_balance ops : forall l,
  Permutation (l ++ history_in A ops)
              (history_out A ops (snd (deque_run A l ops)) ++ fst (deque_run A l ops)).
Proof.
  induction ops as [|o t IH]; intros l.
  - cbn [history_in history_out deque_run fst snd]. rewrite app_nil_r. apply Permutation_refl.
  - cbn [history_in history_out deque_run fst snd].
    destruct o as [x| |xs|n|n| | |]; cbn [deque_step qop_in qobs_out fst snd]; unfold obs_out;
      cbn [ret_out fst snd]; rewrite (app_assoc l); rewrite ?app_nil_r.
    + cbn [app]. apply IH.
    + destruct l as [|x l]; cbn [fst snd ret_out app].
      * apply (IH []).
      * apply perm_skip. apply IH.
    + cbn [app]. apply IH.
    + set (k := N.to_nat (N.min n (nlen l))).
      rewrite <- (firstn_skipn k l) at 1. rewrite <- !app_assoc.
      apply Permutation_app_head. apply IH.
    + cbn [app]. apply IH.
    + cbn [app]. rewrite <- app_assoc. apply Permutation_app_head. apply (IH []).
    + cbn [app]. apply IH.
    + cbn [app]. apply IH.
Qed.

Lemma ring_exactly_once_proof c ops :
  c <= 2 ^ 61 -> hist_size ops <= 2 ^ 61 ->
  exists q' outs q'' d,
    ring_run A (with_capacity c) ops = Ok (q', outs) /\
    ring_drop A q' = Ok (q'', d) /\
    Permutation (history_in A ops) (history_out A ops outs ++ d) /\
    (forall j, buf q'' j = None).
Proof.
  intros Hc Hs.
  destruct (ring_refines_deque_proof c ops Hc Hs) as [q' [E HR]].
  destruct (R_clear A q' _ HR) as [q'' [E2 [_ [_ Hnone]]]].
  exists q', (snd (deque_run A [] ops)), q'', (fst (deque_run A [] ops)).
  split; [exact E|]. split; [exact E2|]. split; [|exact Hnone].
  apply (deque_balance ops []).
Qed.

Lemma ring_clone_proof q l :
  R A q l -> len q <= 2 ^ 61 -> exists q', clone A q = Ok q' /\ R A q' l.
Proof. apply R_clone. Qed.

End Hist.

(* the abstraction read off a ring: what front/pop_front/back would show *)
Lemma R_observable (A : Type) q (l : list A) :
  R A q l -> len q = N.of_nat (length l) /\ front A q = Ok (hd_error l) /\ back A q = Ok (last_error A l).
Proof. intros H. split; [apply (R_len A _ _ H)|]. split; [apply R_front|apply R_back]; exact H. Qed.

(* ---------- the pinned tree's `head <= tail` test on a full ring ---------- *)
Definition full2 : ring N := push_bulk N (with_capacity 2) [7; 8].

Lemma full_ring_le_refuted_proof :
  len full2 = 2 /\ cap full2 = 2 /\ head full2 = tail full2 /\
  (* clone() returns an empty queue *)
  match clone_with N true full2 with Ok q' => len q' = 0 | UB => False end /\
  (* clear() drops nothing and leaves the elements in the buffer that Drop then frees *)
  match clear_with N true full2 with Ok (q', d) => d = [] /\ buf q' 0 = Some 7 /\ buf q' 1 = Some 8 | UB => False end /\
  (* the repaired comparison behaves *)
  match clone N full2 with Ok q' => len q' = 2 | UB => False end /\
  match clear N full2 with Ok (q', d) => d = [7; 8] /\ buf q' 0 = None /\ buf q' 1 = None | UB => False end.
Proof. vm_compute. repeat split. Qed.

(* the hypotheses of the history theorems are satisfiable by a non-trivial history that grows while wrapped *)
Example ring_history_example :
  let ops := [PushBack 1; PushBack 2; PopFront; PopFront; PushBulk [3; 4; 5]; PushBack 6; PopBulk 2; Back; Clear] in
  hist_size N ops <= 2 ^ 61 /\
  match ring_run N (with_capacity 4) ops with
  | Ok (q, outs) => outs = snd (deque_run N [] ops) /\ len q = 0
  | UB => False
  end.
Proof. vm_compute. split; [discriminate|split; reflexivity]. Qed.
