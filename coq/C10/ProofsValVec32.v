(* ValVec32 at element level refines a Vec bounded by u32::MAX: simulation between the len/cap/buffer model with
   allocation-checked slot accesses and list operations; exactly-once destruction; clone; the two defects of the
   pinned tree (set leaked the old element, extend truncated slice.len() to u32) as refutations. *)
From Coq Require Import Permutation.
From ZV.Common Require Import Base.
From ZV.C10 Require Import Model Spec ProofsRing ProofsVec ModelValVec32.
Open Scope N_scope.

Section VV32.
Variable A : Type.
Local Notation W := (ModelValVec32.W A).
Local Notation W_len := (ModelValVec32.W_len A).
Local Notation W_le := (ModelValVec32.W_le A).
Local Notation W_cap := (ModelValVec32.W_cap A).
Local Notation W_live := (ModelValVec32.W_live A).
Local Notation W_dead := (ModelValVec32.W_dead A).

Lemma calc_cap_ok cap req :
  req <= MAX_CAPACITY -> req <= calculate_new_capacity cap req /\ calculate_new_capacity cap req <= MAX_CAPACITY.
Proof. intros H. unfold calculate_new_capacity. lia. Qed.

Lemma W_new : W vv_new [].
Proof.
  constructor; cbn [vv_new wlen wcap wbuf length]; try (unfold MAX_CAPACITY; lia); try reflexivity.
Qed.

Lemma W_with_capacity c usable :
  c <= usable -> c <= MAX_CAPACITY ->
  W (vv_with_capacity A c usable) [] /\ c <= wcap (vv_with_capacity A c usable).
Proof.
  intros Hu Hc. unfold vv_with_capacity. destruct (N.eqb_spec c 0) as [->|Hnz].
  - split; [apply W_new|cbn [vv_new wcap]; lia].
  - split; [|cbn [wcap]; lia].
    constructor; cbn [wlen wcap wbuf length]; try lia; try reflexivity.
Qed.

Lemma W_grow v l nc :
  W v l -> nc <= MAX_CAPACITY ->
  W (vv_grow_to A v nc) l /\ wlen (vv_grow_to A v nc) = wlen v /\ nc <= wcap (vv_grow_to A v nc).
Proof.
  intros H Hn. unfold vv_grow_to. destruct (N.leb_spec nc (wcap v)); [split; [exact H|split; [reflexivity|lia]]|].
  pose proof (W_le _ _ H). cbn [wlen wcap]. split; [|split; [reflexivity|lia]].
  constructor; cbn [wlen wcap wbuf].
  - apply (W_len _ _ H).
  - lia.
  - exact Hn.
  - intros i Hi. pose proof (W_len _ _ H). destruct (N.ltb_spec (N.of_nat i) (wcap v)); [|lia]. apply (W_live _ _ H). exact Hi.
  - intros j Hj. destruct (j <? wcap v); [|reflexivity]. apply (W_dead _ _ H). exact Hj.
Qed.

Lemma W_reserve v l n :
  W v l ->
  match vv32_reserve A v n with
  | None => MAX_CAPACITY < wlen v + n
  | Some v1 => W v1 l /\ wlen v1 = wlen v /\ wlen v + n <= wcap v1 /\ wlen v + n <= MAX_CAPACITY
  end.
Proof.
  intros H. unfold vv32_reserve.
  destruct (N.ltb_spec MAX_CAPACITY (wlen v + n)); [assumption|].
  destruct (N.leb_spec (wlen v + n) (wcap v)); [split; [exact H|split; [reflexivity|split; lia]]|].
  destruct (calc_cap_ok (wcap v) (wlen v + n) ltac:(lia)) as [Ha Hb].
  destruct (W_grow v l _ H Hb) as [HW [Hl Hc]]. split; [exact HW|split; [exact Hl|split; lia]].
Qed.

(* the buffer after `xs` has been stored from slot len on *)
Lemma W_appended v v' l xs :
  W v l -> wcap v' = wcap v ->
  (forall j, wbuf v' j = if (wlen v <=? j) && (j <? wlen v + N.of_nat (length xs))
                         then nth_error xs (N.to_nat (j - wlen v)) else wbuf v j) ->
  wlen v + N.of_nat (length xs) <= wcap v ->
  W (vv_set_len A v' (wlen v + N.of_nat (length xs))) (l ++ xs).
Proof.
  intros H Hc Hb Hroom. pose proof (W_len _ _ H) as Hl.
  constructor; cbn [vv_set_len wlen wcap wbuf].
  - rewrite app_length. lia.
  - lia.
  - rewrite Hc. apply (W_cap _ _ H).
  - intros i Hi. rewrite app_length in Hi. rewrite Hb.
    destruct (Nat.ltb_spec i (length l)).
    + rewrite nth_error_app1 by lia.
      destruct ((wlen v <=? N.of_nat i) && (N.of_nat i <? wlen v + N.of_nat (length xs))) eqn:Eb; [pos_lia|].
      apply (W_live _ _ H). lia.
    + rewrite nth_error_app2 by lia.
      destruct ((wlen v <=? N.of_nat i) && (N.of_nat i <? wlen v + N.of_nat (length xs))) eqn:Eb; [|pos_lia].
      f_equal. lia.
  - intros j Hj. rewrite Hb.
    destruct ((wlen v <=? j) && (j <? wlen v + N.of_nat (length xs))) eqn:Eb; [pos_lia|].
    apply (W_dead _ _ H). lia.
Qed.

Lemma vv_write_list_spec xs : forall v dst,
  dst + N.of_nat (length xs) <= wcap v ->
  exists v', vv_write_list A v dst xs = Ok v' /\ wlen v' = wlen v /\ wcap v' = wcap v /\
    forall j, wbuf v' j = if (dst <=? j) && (j <? dst + N.of_nat (length xs))
                          then nth_error xs (N.to_nat (j - dst)) else wbuf v j.
Proof.
  induction xs as [|x xs IH]; intros v dst Hb.
  - exists v. repeat split. intros j. cbn [length]. pos_lia.
  - cbn [length] in Hb. cbn [vv_write_list]. unfold vv_wr.
    destruct (N.ltb_spec dst (wcap v)); [|lia]. cbn [bind].
    destruct (IH {| wbuf := upd (wbuf v) dst (Some x); wlen := wlen v; wcap := wcap v |} (dst + 1)) as [v' [E [Hl [Hc Hj]]]].
    { cbn [wcap]. lia. }
    exists v'. split; [exact E|]. cbn [wlen wcap wbuf] in *. split; [exact Hl|]. split; [exact Hc|].
    intros j. rewrite Hj. cbn [length]. unfold upd.
    destruct (N.eqb_spec j dst) as [->|Hne].
    + replace (N.to_nat (dst - dst)) with 0%nat by lia. cbn [nth_error]. pos_lia.
    + destruct ((dst + 1 <=? j) && (j <? dst + 1 + N.of_nat (length xs))) eqn:Eb.
      * assert (Hin : (dst <=? j) && (j <? dst + N.of_nat (S (length xs))) = true) by pos_lia. rewrite Hin.
        replace (N.to_nat (j - dst)) with (S (N.to_nat (j - (dst + 1)))) by pos_lia. reflexivity.
      * assert (Hin : (dst <=? j) && (j <? dst + N.of_nat (S (length xs))) = false) by pos_lia. rewrite Hin. reflexivity.
Qed.

Lemma vv_fill_repeat x n : forall v dst, vv_fill A v dst n x = vv_write_list A v dst (repeat x n).
Proof.
  induction n as [|n IH]; intros v dst; [reflexivity|].
  cbn [vv_fill repeat vv_write_list]. destruct (vv_wr A v dst x); [cbn [bind]; apply IH|reflexivity].
Qed.

Lemma vv_memcpy_spec v dst xs :
  dst + N.of_nat (length xs) <= wcap v ->
  exists v', vv_memcpy A v dst xs = Ok v' /\ wlen v' = wlen v /\ wcap v' = wcap v /\
    forall j, wbuf v' j = if (dst <=? j) && (j <? dst + N.of_nat (length xs))
                          then nth_error xs (N.to_nat (j - dst)) else wbuf v j.
Proof.
  intros Hb. unfold vv_memcpy. rewrite nlen_length. destruct (N.leb_spec (dst + N.of_nat (length xs)) (wcap v)); [|lia].
  eexists. split; [reflexivity|]. cbn [wlen wcap wbuf]. repeat split.
Qed.

Lemma vv_double_spec x count dst : forall fuel v written,
  1 <= written -> written <= count -> (N.to_nat (count - written) <= fuel)%nat -> dst + count <= wcap v ->
  (forall j, dst <= j -> j < dst + written -> wbuf v j = Some x) ->
  exists v', vv_double A fuel v dst written count = Ok v' /\ wlen v' = wlen v /\ wcap v' = wcap v /\
    forall j, wbuf v' j = if (dst <=? j) && (j <? dst + count) then Some x else wbuf v j.
Proof.
  induction fuel as [|f IH]; intros v written H1 Hle Hfuel Hcap Hinit.
  - cbn [vv_double]. destruct (N.leb_spec count written); [|lia].
    exists v. repeat split. intros j.
    destruct ((dst <=? j) && (j <? dst + count)) eqn:Eb; [|reflexivity]. apply Hinit; pos_lia.
  - cbn [vv_double]. destruct (N.leb_spec count written).
    + exists v. repeat split. intros j.
      destruct ((dst <=? j) && (j <? dst + count)) eqn:Eb; [|reflexivity]. apply Hinit; pos_lia.
    + set (tc := N.min written (count - written)).
      assert (Htc : 1 <= tc /\ tc <= written /\ tc <= count - written) by (unfold tc; lia).
      unfold vv_dup.
      rewrite (peek_range_n A (repeat x (N.to_nat tc))).
      2:{ rewrite repeat_length. reflexivity. }
      2:{ intros i Hi. rewrite repeat_length in Hi. rewrite (nth_error_repeat A) by exact Hi.
          unfold vv_rd. destruct (N.ltb_spec (dst + N.of_nat i) (wcap v)); [|lia]. apply Hinit; lia. }
      cbn [bind].
      destruct (vv_memcpy_spec v (dst + written) (repeat x (N.to_nat tc))) as [v1 [E1 [Hl1 [Hc1 Hj1]]]].
      { rewrite repeat_length. lia. }
      rewrite E1. cbn [bind]. rewrite repeat_length in Hj1.
      destruct (IH v1 (written + tc)) as [v' [E [Hl [Hc Hj]]]]; try lia.
      { intros j Ha Hb. rewrite Hj1.
        destruct ((dst + written <=? j) && (j <? dst + written + N.of_nat (N.to_nat tc))) eqn:Eb.
        - apply (nth_error_repeat A). pos_lia.
        - apply Hinit; pos_lia. }
      exists v'. split; [exact E|]. split; [lia|]. split; [lia|].
      intros j. rewrite Hj.
      destruct ((dst <=? j) && (j <? dst + count)) eqn:Eb; [reflexivity|].
      rewrite Hj1.
      destruct ((dst + written <=? j) && (j <? dst + written + N.of_nat (N.to_nat tc))) eqn:Eb2; [pos_lia|reflexivity].
Qed.

(* ---------- single operations ---------- *)
Lemma W_write_end v l x :
  W v l -> wlen v < wcap v ->
  exists v1, vv_wr A v (wlen v) x = Ok v1 /\ W (vv_set_len A v1 (wlen v + 1)) (l ++ [x]).
Proof.
  intros H Hlt. destruct (vv_write_list_spec [x] v (wlen v)) as [v1 [E [Hl [Hc Hj]]]].
  { cbn [length]. lia. }
  cbn [vv_write_list] in E. destruct (vv_wr A v (wlen v) x) as [v1'|] eqn:Ew; [|discriminate].
  cbn [bind] in E. injection E as ->. exists v1. split; [reflexivity|].
  replace (wlen v + 1) with (wlen v + N.of_nat (length [x])) by (cbn [length]; lia).
  apply (W_appended v v1 l [x] H Hc Hj). cbn [length]. lia.
Qed.

Lemma W_push v l x :
  W v l ->
  exists v', vv32_push A v x = Ok (v', snd (vec32_step A l (WPush x))) /\ W v' (fst (vec32_step A l (WPush x))).
Proof.
  intros H. pose proof (W_len _ _ H) as Hl. pose proof (W_le _ _ H). pose proof (W_cap _ _ H).
  unfold vv32_push. cbn [vec32_step]. rewrite nlen_length, <- Hl.
  destruct (N.ltb_spec (wlen v) (wcap v)) as [Hlt|Hge].
  - destruct (N.leb_spec MAX_CAPACITY (wlen v)); [lia|].
    destruct (W_write_end v l x H Hlt) as [v1 [E HW]]. rewrite E. cbn [bind fst snd].
    eexists. split; [reflexivity|exact HW].
  - destruct (N.leb_spec MAX_CAPACITY (wlen v)) as [Hmax|Hroom].
    + cbn [fst snd]. exists v. split; [reflexivity|exact H].
    + destruct (calc_cap_ok (wcap v) (wlen v + 1) ltac:(lia)) as [Ha Hb].
      destruct (W_grow v l _ H Hb) as [HW1 [Hl1 Hc1]].
      set (v1 := vv_grow_to A v (calculate_new_capacity (wcap v) (wlen v + 1))) in *.
      destruct (W_write_end v1 l x HW1 ltac:(lia)) as [v2 [E HW2]]. rewrite E. cbn [bind fst snd].
      eexists. split; [reflexivity|]. rewrite Hl1 in *. exact HW2.
Qed.

Lemma W_pop v l :
  W v l -> exists v', vv32_pop A v = Ok (v', (ROpt (last_error A l), [])) /\ W v' (removelast l).
Proof.
  intros H. unfold vv32_pop. pose proof (W_len _ _ H) as Hl. pose proof (W_le _ _ H).
  destruct (N.eqb_spec (wlen v) 0) as [Hz|Hnz].
  - assert (l = []) by (destruct l; [reflexivity|cbn [length] in Hl; lia]). subst l.
    exists v. split; [reflexivity|exact H].
  - rewrite (last_error_nth A). unfold vv_rd. destruct (N.ltb_spec (wlen v - 1) (wcap v)); [|lia].
    pose proof (W_live _ _ H (length l - 1)%nat ltac:(lia)) as Hv.
    replace (N.of_nat (length l - 1)) with (wlen v - 1) in Hv by lia. rewrite Hv.
    destruct (nth_error l (length l - 1)) as [x|] eqn:E; [|apply nth_error_None in E; lia].
    eexists. split; [reflexivity|].
    constructor; cbn [wlen wcap wbuf].
    + rewrite (length_removelast A). lia.
    + lia.
    + apply (W_cap _ _ H).
    + intros i Hi. rewrite (length_removelast A) in Hi. rewrite (nth_error_removelast A) by exact Hi.
      unfold upd. destruct (N.eqb_spec (N.of_nat i) (wlen v - 1)); [lia|]. apply (W_live _ _ H). lia.
    + intros j Hj. unfold upd. destruct (N.eqb_spec j (wlen v - 1)); [reflexivity|]. apply (W_dead _ _ H). lia.
Qed.

Lemma W_get v l i : W v l -> vv32_get A v i = Ok (nth_error l (N.to_nat i)).
Proof.
  intros H. pose proof (W_len _ _ H) as Hl. pose proof (W_le _ _ H). unfold vv32_get, vv_rd.
  destruct (N.ltb_spec i (wlen v)).
  - destruct (N.ltb_spec i (wcap v)); [|lia].
    pose proof (W_live _ _ H (N.to_nat i) ltac:(lia)) as Hv. rewrite N2Nat.id in Hv. rewrite Hv.
    destruct (nth_error l (N.to_nat i)) eqn:E; [reflexivity|]. apply nth_error_None in E. lia.
  - symmetry. f_equal. apply nth_error_None. lia.
Qed.

Lemma nth_error_set (l : list A) i x j :
  (i < length l)%nat ->
  nth_error (firstn i l ++ x :: skipn (S i) l) j = if (j =? i)%nat then Some x else nth_error l j.
Proof.
  intros Hi. assert (Hf : length (firstn i l) = i) by (rewrite firstn_length; lia).
  destruct (Nat.eqb_spec j i) as [->|Hne].
  - rewrite nth_error_app2 by lia. rewrite Hf. replace (i - i)%nat with 0%nat by lia. reflexivity.
  - destruct (Nat.ltb_spec j i).
    + rewrite nth_error_app1 by lia. apply (nth_error_firstn_lt A). assumption.
    + rewrite nth_error_app2 by lia. rewrite Hf.
      destruct (j - i)%nat as [|k] eqn:Ek; [lia|]. cbn [nth_error].
      rewrite (nth_error_skipn A). f_equal. lia.
Qed.

Lemma W_set v l i x :
  W v l ->
  exists v', vv32_set_with A false v i x = Ok (v', snd (vec32_step A l (WSet i x))) /\
             W v' (fst (vec32_step A l (WSet i x))).
Proof.
  intros H. pose proof (W_len _ _ H) as Hl. pose proof (W_le _ _ H).
  unfold vv32_set_with. cbn [vec32_step].
  destruct (N.leb_spec (wlen v) i) as [Hout|Hin].
  - assert (E : nth_error l (N.to_nat i) = None) by (apply nth_error_None; lia). rewrite E. cbn [fst snd].
    exists v. split; [reflexivity|exact H].
  - unfold vv_rd, vv_wr. destruct (N.ltb_spec i (wcap v)); [|lia].
    pose proof (W_live _ _ H (N.to_nat i) ltac:(lia)) as Hv. rewrite N2Nat.id in Hv. rewrite Hv.
    destruct (nth_error l (N.to_nat i)) as [old|] eqn:E; [|apply nth_error_None in E; lia].
    cbn [bind fst snd]. eexists. split; [reflexivity|].
    constructor; cbn [wlen wcap wbuf].
    + rewrite app_length, firstn_length. cbn [length]. rewrite skipn_length. lia.
    + lia.
    + apply (W_cap _ _ H).
    + intros j Hj. rewrite app_length, firstn_length in Hj. cbn [length] in Hj. rewrite skipn_length in Hj.
      rewrite nth_error_set by lia. unfold upd.
      destruct (Nat.eqb_spec j (N.to_nat i)) as [->|Hne].
      * rewrite N2Nat.id. destruct (N.eqb_spec i i); [reflexivity|lia].
      * destruct (N.eqb_spec (N.of_nat j) i); [lia|]. apply (W_live _ _ H). lia.
    + intros j Hj. unfold upd. destruct (N.eqb_spec j i); [lia|]. apply (W_dead _ _ H). exact Hj.
Qed.

Lemma W_clear v l : W v l -> exists v', vv32_clear A v = Ok (v', l) /\ W v' [] /\ forall j, wbuf v' j = None.
Proof.
  intros H. pose proof (W_len _ _ H) as Hl. pose proof (W_le _ _ H). unfold vv32_clear.
  replace (N.to_nat (wlen v)) with (length l) by lia.
  destruct (take_range_list A l (vv_rd A v) 0) as [m' [E Hm']].
  { intros i Hi. unfold vv_rd. destruct (N.ltb_spec (0 + N.of_nat i) (wcap v)); [|lia].
    rewrite <- (W_live _ _ H i Hi). f_equal. }
  rewrite E. cbn [bind fst snd]. eexists. split; [reflexivity|].
  assert (Hall : forall j, m' j = None).
  { intros j. rewrite Hm'. destruct ((0 <=? j) && (j <? 0 + N.of_nat (length l))) eqn:Eb; [reflexivity|].
    unfold vv_rd. destruct (j <? wcap v); [|reflexivity]. apply (W_dead _ _ H). pos_lia. }
  split; [|exact Hall].
  constructor; cbn [wlen wcap wbuf length]; try lia; try (intros i Hi; exfalso; lia).
  - apply (W_cap _ _ H).
  - intros j _. apply Hall.
Qed.

Lemma W_extend copy v l xs :
  W v l ->
  exists v', vv32_extend_with A false copy v xs = Ok (v', fst (snd (vec32_step A l (WExtend xs)))) /\
             W v' (fst (vec32_step A l (WExtend xs))) /\ snd (snd (vec32_step A l (WExtend xs))) = [].
Proof.
  intros H. pose proof (W_len _ _ H) as Hl. pose proof (W_cap _ _ H). pose proof (W_le _ _ H).
  cbn [vec32_step]. rewrite !nlen_length, <- Hl. unfold vv32_extend_with.
  destruct xs as [|x0 xs0].
  - cbn [length]. destruct (N.ltb_spec MAX_CAPACITY (wlen v + N.of_nat 0)); [lia|]. cbn [fst snd].
    rewrite app_nil_r. exists v. split; [reflexivity|split; [exact H|reflexivity]].
  - set (xs := x0 :: xs0). unfold slice_len_u32. rewrite nlen_length.
    destruct (N.ltb_spec MAX_CAPACITY (N.of_nat (length xs))) as [Hbig|Hsmall].
    + destruct (N.ltb_spec MAX_CAPACITY (wlen v + N.of_nat (length xs))); [|lia]. cbn [fst snd].
      exists v. split; [reflexivity|split; [exact H|reflexivity]].
    + destruct (N.ltb_spec MAX_CAPACITY (wlen v + N.of_nat (length xs))) as [Hover|Hfits].
      * cbn [fst snd]. exists v. split; [reflexivity|split; [exact H|reflexivity]].
      * pose proof (W_reserve v l (N.of_nat (length xs)) H) as Hr.
        destruct (vv32_reserve A v (N.of_nat (length xs))) as [v1|]; [|lia].
        destruct Hr as [HW1 [Hl1 [Hroom _]]].
        assert (Hstore : exists v2, (if copy then vv_memcpy A v1 (wlen v1) xs else vv_write_list A v1 (wlen v1) xs) = Ok v2 /\
                  wlen v2 = wlen v1 /\ wcap v2 = wcap v1 /\
                  forall j, wbuf v2 j = if (wlen v1 <=? j) && (j <? wlen v1 + N.of_nat (length xs))
                                        then nth_error xs (N.to_nat (j - wlen v1)) else wbuf v1 j).
        { destruct copy; [apply vv_memcpy_spec|apply vv_write_list_spec]; lia. }
        destruct Hstore as [v2 [E [Hl2 [Hc2 Hj2]]]]. rewrite E. cbn [bind fst snd].
        eexists. split; [reflexivity|]. split; [|reflexivity].
        rewrite <- Hl1. apply (W_appended v1 v2 l xs HW1 Hc2 Hj2). lia.
Qed.

Lemma W_push_n v l k x :
  W v l ->
  exists v', vv32_push_n A v k x = Ok (v', fst (snd (vec32_step A l (WPushN k x)))) /\
             W v' (fst (vec32_step A l (WPushN k x))) /\ snd (snd (vec32_step A l (WPushN k x))) = [].
Proof.
  intros H. pose proof (W_len _ _ H) as Hl. pose proof (W_cap _ _ H). pose proof (W_le _ _ H).
  cbn [vec32_step]. rewrite nlen_length, <- Hl. unfold vv32_push_n.
  destruct (N.eqb_spec k 0) as [->|Hk].
  - destruct (N.ltb_spec MAX_CAPACITY (wlen v + 0)); [lia|]. cbn [fst snd]. change (N.to_nat 0) with 0%nat.
    cbn [repeat]. rewrite app_nil_r. exists v. split; [reflexivity|split; [exact H|reflexivity]].
  - destruct (N.ltb_spec MAX_CAPACITY (wlen v + k)) as [Hover|Hfits].
    + cbn [fst snd]. exists v. split; [reflexivity|split; [exact H|reflexivity]].
    + pose proof (W_reserve v l k H) as Hr.
      destruct (vv32_reserve A v k) as [v1|]; [|lia].
      destruct Hr as [HW1 [Hl1 [Hroom _]]].
      set (xs := repeat x (N.to_nat k)).
      assert (Hlen : N.of_nat (length xs) = k) by (unfold xs; rewrite repeat_length; lia).
      assert (Hstore : exists v3,
                (if k <=? 16 then vv_fill A v1 (wlen v1) (N.to_nat k) x
                 else bind (vv_wr A v1 (wlen v1) x) (fun v2 => vv_double A (N.to_nat k) v2 (wlen v1) 1 k)) = Ok v3 /\
                wlen v3 = wlen v1 /\ wcap v3 = wcap v1 /\
                forall j, wbuf v3 j = if (wlen v1 <=? j) && (j <? wlen v1 + N.of_nat (length xs))
                                      then nth_error xs (N.to_nat (j - wlen v1)) else wbuf v1 j).
      { destruct (N.leb_spec k 16).
        - rewrite vv_fill_repeat. apply vv_write_list_spec. fold xs. lia.
        - unfold vv_wr. destruct (N.ltb_spec (wlen v1) (wcap v1)); [|lia]. cbn [bind].
          set (v2 := {| wbuf := upd (wbuf v1) (wlen v1) (Some x); wlen := wlen v1; wcap := wcap v1 |}).
          destruct (vv_double_spec x k (wlen v1) (N.to_nat k) v2 1) as [v3 [E [Hl3 [Hc3 Hj3]]]]; try lia.
          { cbn [v2 wcap]. lia. }
          { intros j Ha Hb. cbn [v2 wbuf]. unfold upd. destruct (N.eqb_spec j (wlen v1)); [reflexivity|lia]. }
          exists v3. split; [exact E|]. cbn [v2 wlen wcap wbuf] in *. split; [exact Hl3|]. split; [exact Hc3|].
          intros j. rewrite Hj3, Hlen.
          destruct ((wlen v1 <=? j) && (j <? wlen v1 + k)) eqn:Eb.
          + symmetry. apply (nth_error_repeat A). pos_lia.
          + unfold upd. destruct (N.eqb_spec j (wlen v1)); [pos_lia|reflexivity]. }
      destruct Hstore as [v3 [E [Hl3 [Hc3 Hj3]]]]. rewrite E. cbn [bind fst snd].
      eexists. split; [reflexivity|]. split; [|reflexivity].
      rewrite <- Hl1, <- Hlen. apply (W_appended v1 v3 l xs HW1 Hc3 Hj3). lia.
Qed.

(* ---------- whole histories ---------- *)
Lemma vv32_step_refines v l o :
  W v l -> exists v', vv32_step A v o = Ok (v', snd (vec32_step A l o)) /\ W v' (fst (vec32_step A l o)).
Proof.
  intros H. unfold vv32_step.
  destruct o as [x|x| |i|i x| |xs|xs|k x|n]; cbn [vv32_step_with].
  - apply W_push. exact H.
  - apply (W_push v l x H).
  - destruct (W_pop v l H) as [v' [E H']]. exists v'. split; [exact E|exact H'].
  - rewrite (W_get v l i H). cbn [bind vec32_step fst snd]. exists v. split; [reflexivity|exact H].
  - apply W_set. exact H.
  - destruct (W_clear v l H) as [v' [E [H' _]]]. rewrite E. cbn [bind vec32_step fst snd].
    exists v'. split; [reflexivity|exact H'].
  - destruct (W_extend false v l xs H) as [v' [E [H' Hd]]]. rewrite E. cbn [bind fst snd].
    exists v'. split; [|exact H']. rewrite <- Hd. destruct (vec32_step A l (WExtend xs)) as [l' [r d]]. reflexivity.
  - destruct (W_extend true v l xs H) as [v' [E [H' Hd]]]. rewrite E. cbn [bind fst snd].
    exists v'. split; [|exact H']. change (vec32_step A l (WExtendCopy xs)) with (vec32_step A l (WExtend xs)).
    rewrite <- Hd. destruct (vec32_step A l (WExtend xs)) as [l' [r d]]. reflexivity.
  - destruct (W_push_n v l k x H) as [v' [E [H' Hd]]]. rewrite E. cbn [bind fst snd].
    exists v'. split; [|exact H']. rewrite <- Hd. destruct (vec32_step A l (WPushN k x)) as [l' [r d]]. reflexivity.
  - pose proof (W_reserve v l n H) as Hr. pose proof (W_len _ _ H) as Hl. cbn [vec32_step]. rewrite nlen_length, <- Hl.
    destruct (vv32_reserve A v n) as [v1|].
    + destruct Hr as [HW1 [_ [_ Hfit]]]. destruct (N.ltb_spec MAX_CAPACITY (wlen v + n)); [lia|].
      cbn [fst snd]. exists v1. split; [reflexivity|exact HW1].
    + destruct (N.ltb_spec MAX_CAPACITY (wlen v + n)); [|lia]. cbn [fst snd]. exists v. split; [reflexivity|exact H].
Qed.

Lemma vv32_run_refines ops : forall v l,
  W v l -> exists v', vv32_run A v ops = Ok (v', snd (vec32_run A l ops)) /\ W v' (fst (vec32_run A l ops)).
Proof.
  induction ops as [|o t IH]; intros v l H.
  - exists v. split; [reflexivity|exact H].
  - destruct (vv32_step_refines v l o H) as [v1 [E1 HW1]].
    destruct (IH v1 _ HW1) as [v2 [E2 HW2]].
    unfold vv32_run, vv32_step in *. cbn [vv32_run_with vec32_run]. rewrite E1. cbn [bind fst snd]. rewrite E2. cbn [bind fst snd].
    exists v2. split; [reflexivity|exact HW2].
Qed.

(* ---------- exactly-once destruction ---------- *)
Lemma last_removelast (l : list A) x :
  last_error A l = Some x -> l = removelast l ++ [x].
Proof.
  induction l as [|y l IH]; intros E; [discriminate|].
  destruct l as [|z l].
  - cbn [last_error] in E. injection E as ->. reflexivity.
  - change (removelast (y :: z :: l)) with (y :: removelast (z :: l)).
    change (last_error A (y :: z :: l)) with (last_error A (z :: l)) in E.
    cbn [app]. f_equal. apply IH. exact E.
Qed.

Lemma last_error_none (l : list A) : last_error A l = None -> l = [].
Proof.
  induction l as [|y l IH]; intros E; [reflexivity|].
  destruct l as [|z l]; [discriminate|].
  change (last_error A (y :: z :: l)) with (last_error A (z :: l)) in E. apply IH in E. discriminate.
Qed.

Lemma nth_error_split_at (l : list A) i old :
  nth_error l i = Some old -> l = firstn i l ++ old :: skipn (S i) l.
Proof.
  revert i. induction l as [|y l IH]; intros [|i] E; cbn [nth_error firstn skipn app] in *; try discriminate.
  - injection E as ->. reflexivity.
  - f_equal. apply IH. exact E.
Qed.

Lemma vec32_balance ops : forall l,
  Permutation (l ++ whistory_in A ops (snd (vec32_run A l ops)))
              (whistory_out A ops (snd (vec32_run A l ops)) ++ fst (vec32_run A l ops)).
Proof.
  induction ops as [|o t IH]; intros l.
  - cbn [whistory_in whistory_out vec32_run fst snd]. rewrite app_nil_r. apply Permutation_refl.
  - cbn [vec32_run fst snd whistory_in whistory_out].
    destruct o as [x|x| |i|i x| |xs|xs|k x|n]; cbn [vec32_step wop_in wobs_out].
    + destruct (MAX_CAPACITY <=? nlen l); cbn [fst snd]; unfold obs_out; cbn [ret_out fst snd app].
      * eapply Permutation_trans; [apply Permutation_sym, Permutation_middle|]. apply perm_skip. apply IH.
      * specialize (IH (l ++ [x])). rewrite <- app_assoc in IH. exact IH.
    + destruct (MAX_CAPACITY <=? nlen l); cbn [fst snd]; unfold obs_out; cbn [ret_out fst snd app].
      * eapply Permutation_trans; [apply Permutation_sym, Permutation_middle|]. apply perm_skip. apply IH.
      * specialize (IH (l ++ [x])). rewrite <- app_assoc in IH. exact IH.
    + cbn [fst snd]. unfold obs_out. cbn [fst snd]. rewrite app_nil_r.
      destruct (last_error A l) as [x|] eqn:E; cbn [ret_out app].
      * rewrite (last_removelast l x E) at 1. rewrite <- app_assoc. cbn [app].
        eapply Permutation_trans; [apply Permutation_sym, Permutation_middle|]. apply perm_skip. apply IH.
      * apply last_error_none in E. subst l. apply (IH []).
    + cbn [fst snd app]. apply IH.
    + destruct (nth_error l (N.to_nat i)) as [old|] eqn:E; cbn [fst snd]; unfold obs_out; cbn [ret_out fst snd app].
      * assert (Hi : (N.to_nat i < length l)%nat) by (apply nth_error_Some; rewrite E; discriminate).
        pose proof (nth_error_split_at l (N.to_nat i) old E) as Hl.
        specialize (IH (firstn (N.to_nat i) l ++ x :: skipn (S (N.to_nat i)) l)).
        set (F := firstn (N.to_nat i) l) in *. set (S' := skipn (S (N.to_nat i)) l) in *.
        rewrite Hl at 1.
        apply Permutation_trans with (old :: (F ++ x :: S') ++ whistory_in A t (snd (vec32_run A (F ++ x :: S') t)));
          [|apply perm_skip; exact IH].
        rewrite <- !app_assoc. cbn [app].
        eapply Permutation_trans; [apply Permutation_sym, Permutation_middle|]. apply perm_skip.
        apply Permutation_app_head. apply Permutation_sym, Permutation_middle.
      * eapply Permutation_trans; [apply Permutation_sym, Permutation_middle|]. apply perm_skip. apply IH.
    + cbn [fst snd]. unfold obs_out. cbn [ret_out fst snd app]. rewrite <- app_assoc. apply Permutation_app_head. apply (IH []).
    + destruct (MAX_CAPACITY <? nlen l + nlen xs); cbn [fst snd]; unfold obs_out; cbn [ret_out fst snd app].
      * apply IH.
      * specialize (IH (l ++ xs)). rewrite <- app_assoc in IH. exact IH.
    + destruct (MAX_CAPACITY <? nlen l + nlen xs); cbn [fst snd]; unfold obs_out; cbn [ret_out fst snd app].
      * apply IH.
      * specialize (IH (l ++ xs)). rewrite <- app_assoc in IH. exact IH.
    + destruct (MAX_CAPACITY <? nlen l + k); cbn [fst snd]; unfold obs_out; cbn [ret_out fst snd app].
      * apply IH.
      * specialize (IH (l ++ repeat x (N.to_nat k))). rewrite <- app_assoc in IH. exact IH.
    + cbn [fst snd]. unfold obs_out. destruct (MAX_CAPACITY <? nlen l + n); cbn [ret_out fst snd app]; apply IH.
Qed.

Lemma W_clone v l usable :
  W v l -> N.of_nat (length l) <= usable -> exists v', vv32_clone A v usable = Ok v' /\ W v' l.
Proof.
  intros H Hu. pose proof (W_len _ _ H) as Hl. pose proof (W_le _ _ H). pose proof (W_cap _ _ H).
  unfold vv32_clone.
  destruct (N.ltb_spec 0 (wlen v)) as [Hpos|Hz].
  - assert (Hnv : wcap (vv_with_capacity A (wlen v) usable) = N.min usable MAX_CAPACITY /\
                  wbuf (vv_with_capacity A (wlen v) usable) = empty_mem).
    { unfold vv_with_capacity. destruct (N.eqb_spec (wlen v) 0); [lia|]. split; reflexivity. }
    destruct Hnv as [Hc0 Hb0].
    destruct (N.leb_spec (wlen v) (wcap (vv_with_capacity A (wlen v) usable))); [|lia]. cbn [andb].
    assert (Hloop : forall n dst i, (N.to_nat i + n <= length l)%nat -> i + N.of_nat n <= wcap dst ->
              exists d, vv_clone_loop A v dst i n = Ok d /\ wcap d = wcap dst /\
                forall j, wbuf d j = if (i <=? j) && (j <? i + N.of_nat n) then nth_error l (N.to_nat j) else wbuf dst j).
    { induction n as [|n IH]; intros dst i Hn Hc.
      - exists dst. repeat split. intros j. pos_lia.
      - cbn [vv_clone_loop]. unfold vv_rd. destruct (N.ltb_spec i (wcap v)); [|lia].
        pose proof (W_live _ _ H (N.to_nat i) ltac:(lia)) as Hv. rewrite N2Nat.id in Hv. rewrite Hv.
        destruct (nth_error l (N.to_nat i)) as [x|] eqn:E; [|apply nth_error_None in E; lia].
        unfold vv_wr. destruct (N.ltb_spec i (wcap dst)); [|lia]. cbn [bind].
        destruct (IH {| wbuf := upd (wbuf dst) i (Some x); wlen := wlen dst; wcap := wcap dst |} (i + 1)) as [d [Ed [Hcd Hjd]]].
        { lia. } { cbn [wcap]. lia. }
        exists d. split; [exact Ed|]. cbn [wcap wbuf] in *. split; [exact Hcd|].
        intros j. rewrite Hjd. unfold upd.
        destruct (N.eqb_spec j i) as [->|Hne]; [rewrite E; pos_lia|pos_lia]. }
    destruct (Hloop (N.to_nat (wlen v)) (vv_with_capacity A (wlen v) usable) 0) as [d [Ed [Hcd Hjd]]]; try lia.
    rewrite Ed. cbn [bind]. eexists. split; [reflexivity|].
    constructor; cbn [vv_set_len wlen wcap wbuf].
    + exact Hl.
    + lia.
    + lia.
    + intros i Hi. rewrite Hjd. rewrite Nat2N.id.
      destruct ((0 <=? N.of_nat i) && (N.of_nat i <? 0 + N.of_nat (N.to_nat (wlen v)))) eqn:Eb; [reflexivity|pos_lia].
    + intros j Hj. rewrite Hjd, Hb0.
      destruct ((0 <=? j) && (j <? 0 + N.of_nat (N.to_nat (wlen v)))) eqn:Eb; [pos_lia|reflexivity].
  - assert (wlen v = 0) by lia. assert (l = []) by (destruct l; [reflexivity|cbn [length] in Hl; lia]). subst l.
    destruct (N.ltb_spec 0 (wlen v)); [lia|]. cbn [andb].
    replace (wlen v) with 0 by lia. unfold vv_with_capacity. cbn [N.eqb]. change (0 =? 0) with true. cbv iota.
    exists vv_new. split; [reflexivity|apply W_new].
Qed.

End VV32.

(* ---------- top-level statements ---------- *)
Lemma valvec32_refines_list_proof (A : Type) c usable (ops : list (wop A)) :
  c <= usable -> c <= MAX_CAPACITY ->
  exists v', vv32_run A (vv_with_capacity A c usable) ops = Ok (v', snd (vec32_run A [] ops)) /\
             W A v' (fst (vec32_run A [] ops)).
Proof. intros Hu Hc. apply vv32_run_refines. apply (W_with_capacity A c usable Hu Hc). Qed.

Lemma valvec32_exactly_once_proof (A : Type) c usable (ops : list (wop A)) :
  c <= usable -> c <= MAX_CAPACITY ->
  exists v' outs v'' d,
    vv32_run A (vv_with_capacity A c usable) ops = Ok (v', outs) /\
    vv32_drop A v' = Ok (v'', d) /\
    Permutation (whistory_in A ops outs) (whistory_out A ops outs ++ d) /\
    (forall j, wbuf v'' j = None).
Proof.
  intros Hu Hc.
  destruct (valvec32_refines_list_proof A c usable ops Hu Hc) as [v' [E HW]].
  destruct (W_clear A v' _ HW) as [v'' [E2 [_ Hnone]]].
  exists v', (snd (vec32_run A [] ops)), v'', (fst (vec32_run A [] ops)).
  split; [exact E|]. split; [exact E2|]. split; [|exact Hnone].
  apply (vec32_balance A ops []).
Qed.

(* the element-level model grows exactly by the capacity arithmetic of Model.v (vv_reserve / vv_push_cap) *)
Lemma valvec32_capacity_agrees_proof (A : Type) (v : vv32 A) n x :
  wlen v <= wcap v ->
  match vv32_reserve A v n, vv_reserve (wlen v) (wcap v) n with
  | Some v1, Some c => wcap v1 = c
  | None, None => True
  | _, _ => False
  end /\
  match vv32_push A v x, vv_push_cap (wlen v) (wcap v) with
  | Ok (v1, (RUnit, _)), Some c => wcap v1 = c
  | Ok (_, (RErr, _)), None => True
  | _, _ => False
  end.
Proof.
  intros Hle. split.
  - unfold vv32_reserve, vv_reserve, vv_grow_to.
    destruct (MAX_CAPACITY <? wlen v + n); [exact I|].
    destruct (wlen v + n <=? wcap v); [reflexivity|].
    destruct (N.leb_spec (calculate_new_capacity (wcap v) (wlen v + n)) (wcap v)); cbn [wcap]; lia.
  - unfold vv32_push, vv_push_cap, vv_wr, vv_grow_to.
    destruct (N.ltb_spec (wlen v) (wcap v)); [cbn [bind vv_set_len wcap]; reflexivity|].
    destruct (N.leb_spec MAX_CAPACITY (wlen v)) as [Hmax|Hroom]; [exact I|].
    destruct (calc_cap_ok (wcap v) (wlen v + 1) ltac:(lia)) as [Ha Hb].
    destruct (N.leb_spec (calculate_new_capacity (wcap v) (wlen v + 1)) (wcap v)) as [Hs|Hg]; [lia|].
    cbn [wlen wcap].
    destruct (N.ltb_spec (wlen v) (calculate_new_capacity (wcap v) (wlen v + 1))); [|lia].
    cbn [bind vv_set_len wcap]. lia.
Qed.

(* ---------- the two defects of the pinned tree ---------- *)
(* set() stored with ptr::write: the old element is neither returned nor destroyed *)
Lemma valvec32_set_leak_refuted_proof :
  let ops := [WPush 1; WSet 0 2] in
  match vv32_run_with N true false vv_new ops with
  | Ok (v, outs) => match vv32_drop N v with
                    | Ok (_, d) => whistory_in N ops outs = [1; 2] /\ whistory_out N ops outs ++ d = [2]
                    | UB => False
                    end
  | UB => False
  end /\
  match vv32_run N vv_new ops with
  | Ok (v, outs) => match vv32_drop N v with
                    | Ok (_, d) => whistory_in N ops outs = [1; 2] /\ whistory_out N ops outs ++ d = [1; 2]
                    | UB => False
                    end
  | UB => False
  end.
Proof. vm_compute. repeat split. Qed.

(* extend_from_slice converted slice.len() with `as u32`: for a slice of 2^32 elements the conversion yields 0,
   nothing is reserved, and the first element is written past the (empty) allocation.  With u32::try_from the
   call is refused. *)
Lemma valvec32_extend_truncation_refuted_proof :
  let big := repeat 0 (N.to_nat 4294967296) in
  vv32_run_with N false true vv_new [WExtend big] = UB /\
  vv32_run N vv_new [WExtend big] = Ok (vv_new, [(RErr, [])]).
Proof.
  cbv zeta.
  assert (Hlen : nlen (repeat 0 (N.to_nat 4294967296)) = 4294967296)
    by (rewrite nlen_length, repeat_length; lia).
  destruct (N.to_nat 4294967296) as [|n] eqn:En; [lia|].
  cbn [repeat] in *. set (tl := repeat 0 n) in *.
  split.
  - cbn [vv32_run_with vv32_step_with]. unfold vv32_extend_with. rewrite Hlen.
    unfold slice_len_u32. change (4294967296 mod 4294967296) with 0.
    cbn [vv_new wlen wcap]. change (MAX_CAPACITY <? 0 + 0) with false. cbv iota.
    unfold vv32_reserve. cbn [wlen wcap]. change (MAX_CAPACITY <? 0 + 0) with false.
    change (0 + 0 <=? 0) with true. cbv iota.
    cbn [vv_write_list]. unfold vv_wr. cbn [wlen wcap]. change (0 <? 0) with false. reflexivity.
  - unfold vv32_run. cbn [vv32_run_with vv32_step_with]. unfold vv32_extend_with. rewrite Hlen.
    unfold slice_len_u32. change (MAX_CAPACITY <? 4294967296) with true. reflexivity.
Qed.

(* the hypotheses of the history theorems are satisfiable by a non-trivial history: growth 0 -> 8 -> 12 -> 31, set,
   a refused set, extend by clone loop and by memcpy, push_n_copy through the doubling strategy *)
Example valvec32_history_example :
  let ops := [WPush 1; WPush 2; WSet 1 9; WSet 5 7; WPop; WExtend [3; 4; 5; 6; 7; 8; 9; 10]; WExtendCopy [11; 12];
              WPushN 20 5; WGet 30; WGet 31; WReserve 4294967295; WClear] in
  match vv32_run N (vv_with_capacity N 0 0) ops with
  | Ok (v, outs) => outs = snd (vec32_run N [] ops) /\ wlen v = 0 /\ wcap v = 31
  | UB => False
  end.
Proof. vm_compute. repeat split. Qed.

(* Clone of a non-trivial vector, for an allocator that hands out more than was asked for, and for the empty vector *)
Example valvec32_clone_example :
  match vv32_run N (vv_with_capacity N 2 3) [WPush 1; WPush 2; WPush 3; WPush 4] with
  | Ok (v, _) => W N v [1; 2; 3; 4] ->
                 match vv32_clone N v 6, vv32_clone N (vv_new (A:=N)) 0 with
                 | Ok c, Ok e => wlen c = 4 /\ wcap c = 6 /\ wbuf c 3 = Some 4 /\ wbuf c 4 = None /\ wlen e = 0 /\ wcap e = 0
                 | _, _ => False
                 end
  | UB => False
  end.
Proof. vm_compute. intros _. repeat split. Qed.
