(* SortableStrVec: the arena + packed (offset, length, seq) entries implement a Vec of strings; sorting permutes
   the index vector only, and the sorted view is a sorted permutation of the pushed strings. *)
From Coq Require Import Permutation Sorted.
From ZV.Common Require Import Base.
From ZV.Gen Require Import ConstsC10.
From ZV.C10 Require Import Model ModelArena ProofsArena ModelStrVec ProofsRadix.
Open Scope N_scope.

(* the side conditions the proofs place on the constants of the source, re-proved against the regenerated values *)
Lemma consts_ok :
  SSV_OFFSET_BITS = 40 /\ SSV_LENGTH_BITS = 20 /\ SSV_SEQ_ID_BITS = 4 /\
  SSV_OFFSET_MASK = N.ones 40 /\ SSV_LENGTH_MASK = N.ones 20 /\ SSV_SEQ_ID_MASK = N.ones 4 /\
  SSV_MAX_OFFSET = 2 ^ 40 - 1 /\ SSV_MAX_LENGTH = 2 ^ 20 - 1 /\
  VV32_MAX_CAPACITY = MAX_CAPACITY /\ RING_INITIAL_CAPACITY = INITIAL_CAPACITY.
Proof. vm_compute. repeat split. Qed.

Lemma land15 n : N.land n 15 < 16.
Proof. change 15 with (N.ones 4). rewrite N.land_ones. change (2 ^ 4) with 16. lia. Qed.

(* the fields read back what was packed, as long as each value fits its field *)
Lemma ce_unpack o l s :
  o <= SSV_MAX_OFFSET -> l <= SSV_MAX_LENGTH -> s < 16 ->
  ce_offset (ce_pack o l s) = o /\ ce_length (ce_pack o l s) = l /\ ce_seq_id (ce_pack o l s) = s.
Proof.
  unfold SSV_MAX_OFFSET, SSV_MAX_LENGTH. intros Ho Hl Hs.
  unfold ce_offset, ce_length, ce_seq_id, ce_pack.
  change SSV_OFFSET_MASK with (N.ones 40). change SSV_LENGTH_MASK with (N.ones 20). change SSV_SEQ_ID_MASK with (N.ones 4).
  change SSV_OFFSET_BITS with 40. change (40 + SSV_LENGTH_BITS) with 60.
  rewrite !N.shiftl_mul_pow2.
  change (2 ^ 64) with 18446744073709551616. change (2 ^ 60) with 1152921504606846976. change (2 ^ 40) with 1099511627776.
  rewrite (N.mod_small (l * 1099511627776)) by lia. rewrite (N.mod_small (s * 1152921504606846976)) by lia.
  change 1099511627776 with (2 ^ 40). rewrite (lor_disjoint_add o l 40) by (change (2 ^ 40) with 1099511627776; lia).
  change 1152921504606846976 with (2 ^ 60).
  rewrite (lor_disjoint_add (o + l * 2 ^ 40) s 60)
    by (change (2 ^ 40) with 1099511627776; change (2 ^ 60) with 1152921504606846976; lia).
  rewrite !N.land_ones, !N.shiftr_div_pow2.
  change (2 ^ 60) with 1152921504606846976. change (2 ^ 40) with 1099511627776. change (2 ^ 20) with 1048576. change (2 ^ 4) with 16.
  repeat split; lia.
Qed.

(* ---------- layout ---------- *)
Lemma layout_length l : forall off n, length (layout off n l) = length l.
Proof. induction l as [|s l IH]; intros off n; cbn [layout length]; [reflexivity|]. rewrite IH. reflexivity. Qed.

Lemma layout_app l1 : forall off n l2,
  layout off n (l1 ++ l2) = layout off n l1 ++ layout (off + nlen (concat l1)) (n + nlen l1) l2.
Proof.
  induction l1 as [|s l1 IH]; intros off n l2; cbn [layout app concat nlen].
  - f_equal; lia.
  - rewrite IH. f_equal. f_equal. rewrite nlen_app. f_equal; lia.
Qed.

Lemma layout_nth l : forall off n i s,
  nth_error l i = Some s ->
  nth_error (layout off n l) i =
  Some (ce_pack (off + nlen (concat (firstn i l))) (nlen s) (N.land (n + N.of_nat i) 15)).
Proof.
  induction l as [|x l IH]; intros off n [|i] s H; cbn [nth_error] in H; try discriminate.
  - injection H as ->. cbn [layout nth_error firstn concat nlen]. f_equal. f_equal; [lia|f_equal; lia].
  - cbn [layout nth_error firstn concat]. rewrite (IH _ _ _ _ H). rewrite nlen_app. f_equal. f_equal; [lia|f_equal; lia].
Qed.

Lemma concat_firstn_le (l : list bytes) i : nlen (concat (firstn i l)) <= nlen (concat l).
Proof. rewrite <- (firstn_skipn i l) at 2. rewrite concat_app, nlen_app. lia. Qed.

Lemma nth_error_map_some {T} (l : list T) :
  map (fun i => nth_error l (N.to_nat i)) (nseq 0 (length l)) = map Some l.
Proof.
  destruct l as [|d l0]; [reflexivity|]. set (l := d :: l0).
  transitivity (map Some (map (fun i => nth (N.to_nat i) l d) (nseq 0 (length l)))); [|rewrite map_nth_nseq; reflexivity].
  rewrite map_map. apply map_ext_in.
  intros i Hi. apply nseq_In in Hi. apply nth_error_nth'. lia.
Qed.

Section StrVec.
Variable usort : forall T : Type, (T -> T -> comparison) -> list T -> list T.
Hypothesis usort_perm : forall T c l, Permutation l (usort T c l).

Local Notation SV := ModelStrVec.SV.

(* what an entry of a related vector decodes to *)
Lemma SV_entry v st i s :
  SV v st -> nth_error (sl st) i = Some s ->
  exists e, nth_error (entries v) i = Some e /\ ssv_entry_bytes v e = Done s /\ ce_length e = nlen s.
Proof.
  intros H Hs. eexists. split; [rewrite (SV_entries _ _ H); apply layout_nth; exact Hs|].
  pose proof (SV_total _ _ H) as Ht. unfold total_len in Ht.
  pose proof (concat_firstn_le (sl st) i) as Hp.
  assert (Hl : nlen s <= SSV_MAX_LENGTH).
  { pose proof (SV_lens _ _ H) as Hf. rewrite Forall_forall in Hf. apply Hf. eapply nth_error_In. exact Hs. }
  destruct (ce_unpack (0 + nlen (concat (firstn i (sl st)))) (nlen s) (N.land (0 + N.of_nat i) 15)) as [Ho [Hlen _]];
    [lia|exact Hl|apply land15|].
  unfold ssv_entry_bytes. rewrite Ho, Hlen, (SV_arena _ _ H). split; [|reflexivity].
  replace (0 + nlen (concat (firstn i (sl st)))) with (nlen (concat (firstn i (sl st)))) by lia.
  apply slice_concat. exact Hs.
Qed.

Lemma SV_entries_length v st : SV v st -> length (entries v) = length (sl st).
Proof. intros H. rewrite (SV_entries _ _ H). apply layout_length. Qed.

Lemma SV_get v st i : SV v st -> ssv_get v i = Done (nth_error (sl st) (N.to_nat i)).
Proof.
  intros H. unfold ssv_get. destruct (nth_error (sl st) (N.to_nat i)) as [s|] eqn:E.
  - destruct (SV_entry v st _ s H E) as [e [He [Hb _]]]. rewrite He, Hb. reflexivity.
  - apply nth_error_None in E. rewrite <- (SV_entries_length v st H) in E. apply nth_error_None in E. rewrite E. reflexivity.
Qed.

Lemma SV_new : SV ssv_new svs_new.
Proof.
  constructor; cbn [ssv_new svs_new arena entries sidx is_sorted sl sx ssorted concat layout length nseq]; try reflexivity.
  all: try (apply Forall_nil).
  all: try (apply Permutation_refl).
  all: try (unfold total_len; cbn [concat nlen]; unfold SSV_MAX_OFFSET; lia).
  all: try lia.
Qed.

Lemma SV_push v st s :
  SV v st ->
  snd (ssv_push_str_with true v s) = snd (svs_step usort st (SPush s)) /\
  (bytes_ok s -> SV (fst (ssv_push_str_with true v s)) (fst (svs_step usort st (SPush s)))).
Proof.
  intros H. pose proof (SV_total _ _ H) as Ht. unfold ssv_push_str_with. cbn [svs_step].
  assert (Hne : nlen (entries v) = nlen (sl st)) by (rewrite !nlen_length, (SV_entries_length v st H); reflexivity).
  rewrite Hne.
  rewrite (SV_arena _ _ H). fold (total_len (sl st)).
  change (N.shiftr SSV_MAX_OFFSET 1) with 549755813887. unfold SSV_MAX_OFFSET, SSV_MAX_LENGTH in *. cbn [andb].
  assert (Hcond : ((549755813887 <? total_len (sl st)) && (1099511627775 <? total_len (sl st) + nlen s) = true /\
                   (1048575 <? nlen s) || (1099511627775 <? total_len (sl st) + nlen s) = true) \/
                  ((549755813887 <? total_len (sl st)) && (1099511627775 <? total_len (sl st) + nlen s) = false /\
                   (1048575 <? nlen s) = (1048575 <? nlen s) || (1099511627775 <? total_len (sl st) + nlen s))).
  { destruct (N.ltb_spec 549755813887 (total_len (sl st))); destruct (N.ltb_spec 1099511627775 (total_len (sl st) + nlen s));
      destruct (N.ltb_spec 1048575 (nlen s)); cbn [andb orb]; try (left; split; reflexivity); try (right; split; reflexivity); lia. }
  destruct Hcond as [[-> ->]|[-> Hc]].
  - cbn [fst snd]. split; [reflexivity|intros _; exact H].
  - rewrite <- Hc. destruct (N.ltb_spec 1048575 (nlen s)) as [Hbig|Hok].
    + cbn [fst snd]. split; [reflexivity|intros _; exact H].
    + assert (Hfits : total_len (sl st) + nlen s <= 1099511627775).
      { destruct (N.ltb_spec 1099511627775 (total_len (sl st) + nlen s)); [|assumption]. cbn [orb] in Hc. discriminate. }
      cbn [fst snd]. split.
      * reflexivity.
      * intros Hbytes. constructor; cbn [arena entries sidx is_sorted sl sx ssorted].
        -- rewrite concat_app. cbn [concat]. rewrite app_nil_r. reflexivity.
        -- rewrite layout_app. cbn [layout]. rewrite (SV_entries _ _ H). unfold total_len.
           repeat f_equal; lia.
        -- apply Forall_app. split; [apply (SV_lens _ _ H)|]. constructor; [exact Hok|constructor].
        -- apply Forall_app. split; [apply (SV_bytes _ _ H)|]. constructor; [exact Hbytes|constructor].
        -- unfold total_len in *. rewrite nlen_concat_app. exact Hfits.
        -- apply (SV_idx _ _ H).
        -- reflexivity.
        -- apply (SV_perm _ _ H).
        -- rewrite app_length. pose proof (SV_short _ _ H). lia.
        -- discriminate.
Qed.

(* (index, slice) pairs: the model's panicking computation is the specification's total one on valid indices *)
Lemma SV_keyed v st idx :
  SV v st -> (forall i, In i idx -> (N.to_nat i < length (sl st))%nat) ->
  ssv_keyed v idx = Done (svs_keyed (sl st) idx).
Proof.
  intros H Hin. unfold ssv_keyed, svs_keyed. apply rmap_done. intros i Hi.
  destruct (nth_error (sl st) (N.to_nat i)) as [s|] eqn:E; [|apply nth_error_None in E; specialize (Hin i Hi); lia].
  destruct (SV_entry v st _ s H E) as [e [He [Hb _]]]. unfold index. rewrite He. cbn [rbind]. rewrite Hb. cbn [rbind].
  unfold str_at. rewrite (nth_error_nth _ _ _ E). reflexivity.
Qed.

Lemma SV_all v st : SV v st -> ssv_all v = svs_all (sl st).
Proof. intros H. unfold ssv_all, svs_all. rewrite (SV_entries_length v st H). reflexivity. Qed.

Lemma all_valid (l : list bytes) i : In i (svs_all l) -> (N.to_nat i < length l)%nat.
Proof. unfold svs_all. intros Hi. apply nseq_In in Hi. lia. Qed.

(* sorting keyed indices yields a permutation of the indices *)
Lemma sorted_idx_perm {K} (c : N * K -> N * K -> comparison) (key : N -> K) idx0 n :
  Permutation idx0 (nseq 0 n) ->
  let sx' := map fst (usort _ c (map (fun i => (i, key i)) idx0)) in
  Permutation sx' (nseq 0 (length sx')) /\ length sx' = n.
Proof.
  intros Hp sx'.
  assert (Hq : Permutation idx0 sx').
  { unfold sx'. pose proof (Permutation_map fst (usort_perm _ c (map (fun i => (i, key i)) idx0))) as Hm.
    rewrite map_map in Hm. cbn [fst] in Hm. rewrite map_id in Hm. exact Hm. }
  assert (Hn : length sx' = n).
  { rewrite <- (Permutation_length Hq), (Permutation_length Hp). apply nseq_length. }
  split; [|exact Hn]. rewrite Hn. eapply Permutation_trans; [apply Permutation_sym; exact Hq|exact Hp].
Qed.

Lemma SV_set_sorted v st idx :
  SV v st -> Permutation idx (nseq 0 (length idx)) -> length idx = length (sl st) ->
  SV (ssv_set_sorted v idx) {| sl := sl st; sx := idx; ssorted := true |}.
Proof.
  intros H Hp Hn. constructor; cbn [ssv_set_sorted arena entries sidx is_sorted sl sx ssorted];
    [apply (SV_arena _ _ H)|apply (SV_entries _ _ H)|apply (SV_lens _ _ H)|apply (SV_bytes _ _ H)|apply (SV_total _ _ H)|reflexivity|reflexivity|exact Hp|lia|intros _; exact Hn].
Qed.

Lemma SV_sort_keyed v st f :
  SV v st ->
  SV (ssv_set_sorted v (map fst (usort _ (fun a b => f (snd a) (snd b)) (svs_keyed (sl st) (svs_all (sl st))))))
     {| sl := sl st; sx := map fst (usort _ (fun a b => f (snd a) (snd b)) (svs_keyed (sl st) (svs_all (sl st)))); ssorted := true |}.
Proof.
  intros H.
  destruct (sorted_idx_perm (fun a b : N * bytes => f (snd a) (snd b)) (str_at (sl st)) (svs_all (sl st)) (length (sl st)))
    as [Hp Hn]; [apply Permutation_refl|].
  apply SV_set_sorted; [exact H|exact Hp|exact Hn].
Qed.

Lemma SV_get_sorted v st i : SV v st -> ssv_get_sorted v i = Done (svs_get_sorted st i).
Proof.
  intros H. unfold ssv_get_sorted, svs_get_sorted. rewrite (SV_flag _ _ H), (SV_idx _ _ H).
  destruct (negb (ssorted st) || (nlen (sx st) <=? i)) eqn:E; [reflexivity|].
  apply orb_false_elim in E. destruct E as [_ E]. rewrite nlen_length in E.
  destruct (N.leb_spec (N.of_nat (length (sx st))) i); [discriminate|].
  unfold index. destruct (nth_error (sx st) (N.to_nat i)) as [o|] eqn:Eo; [|apply nth_error_None in Eo; lia].
  cbn [rbind]. rewrite (nth_error_nth _ _ 0 Eo). apply SV_get. exact H.
Qed.

Lemma keyed_ok st idx :
  Forall bytes_ok (sl st) -> (forall i, In i idx -> (N.to_nat i < length (sl st))%nat) ->
  Forall item_ok (svs_keyed (sl st) idx).
Proof.
  intros Hb Hv. unfold svs_keyed. rewrite Forall_map, Forall_forall. intros i Hi. unfold item_ok. cbn [snd].
  rewrite Forall_forall in Hb. apply Hb. unfold str_at. apply nth_In. apply Hv. exact Hi.
Qed.

Lemma ssv_step_refines v st o :
  SV v st -> sop_wf o ->
  exists v', ssv_step usort v o = Done (v', snd (svs_step usort st o)) /\ SV v' (fst (svs_step usort st o)).
Proof.
  intros H Hwf. unfold ssv_step.
  destruct o as [s|i| | | | | |f|i| | ]; cbn [ssv_step_with].
  - destruct (SV_push v st s H) as [Ho HS]. specialize (HS Hwf). eexists. split; [|exact HS].
    rewrite <- Ho. destruct (ssv_push_str_with true v s). reflexivity.
  - rewrite (SV_get v st i H). cbn [rbind svs_step fst snd]. exists v. split; [reflexivity|exact H].
  - cbn [svs_step fst snd]. exists v. split; [|exact H]. rewrite !nlen_length, (SV_entries_length v st H). reflexivity.
  - unfold ssv_iter. rewrite (rmap_done (ssv_get v) (fun i => nth_error (sl st) (N.to_nat i))) by (intros i _; apply SV_get; exact H).
    cbn [rbind svs_step fst snd]. rewrite (SV_all v st H). unfold svs_all. rewrite nth_error_map_some, until_none_some.
    exists v. split; [reflexivity|exact H].
  - cbn [svs_step fst snd]. eexists. split; [reflexivity|apply SV_new].
  - unfold ssv_sort_lex. cbn [svs_step fst snd]. rewrite !nlen_length, (SV_entries_length v st H).
    destruct (N.leb_spec (N.of_nat (length (sl st))) 1) as [Hsmall|Hbig].
    + cbn [rbind]. eexists. split; [reflexivity|].
      destruct (N.eqb_spec (N.of_nat (length (sl st))) 1) as [E1|E1].
      * apply SV_set_sorted; [exact H|apply Permutation_refl|cbn [length]; lia].
      * apply SV_set_sorted; [exact H|apply Permutation_refl|cbn [length]; lia].
    + rewrite (SV_all v st H), (SV_keyed v st _ H (all_valid (sl st))). cbn [rbind].
      eexists. split; [reflexivity|]. apply (SV_sort_keyed v st lex_cmp H).
  - unfold ssv_sort_by_length. cbn [svs_step fst snd]. rewrite (SV_idx _ _ H), (SV_all v st H).
    rewrite (nlen_length (entries v)), (SV_entries_length v st H), <- (nlen_length (sl st)).
    set (idx0 := if nlen (sx st) =? nlen (sl st) then sx st else svs_all (sl st)).
    assert (Hp0 : Permutation idx0 (nseq 0 (length (sl st)))).
    { unfold idx0. rewrite !nlen_length. destruct (N.eqb_spec (N.of_nat (length (sx st))) (N.of_nat (length (sl st)))) as [E|E].
      - replace (length (sl st)) with (length (sx st)) by lia. apply (SV_perm _ _ H).
      - apply Permutation_refl. }
    rewrite (rmap_done _ (fun i => (i, nlen (str_at (sl st) i)))).
    2:{ intros i Hi. assert (Hv : (N.to_nat i < length (sl st))%nat).
        { apply (Permutation_in _ Hp0) in Hi. apply nseq_In in Hi. lia. }
        destruct (nth_error (sl st) (N.to_nat i)) as [s|] eqn:E; [|apply nth_error_None in E; lia].
        destruct (SV_entry v st _ s H E) as [e [He [_ Hl]]]. unfold index. rewrite He. cbn [rbind]. rewrite Hl.
        unfold str_at. rewrite (nth_error_nth _ _ _ E). reflexivity. }
    cbn [rbind]. eexists. split; [reflexivity|].
    destruct (sorted_idx_perm (fun a b : N * N => snd a ?= snd b) (fun i => nlen (str_at (sl st) i)) idx0 (length (sl st)) Hp0) as [Hp Hn].
    apply SV_set_sorted; [exact H|exact Hp|exact Hn].
  - unfold ssv_sort_by. cbn [svs_step fst snd].
    rewrite (SV_all v st H), (SV_keyed v st _ H (all_valid (sl st))). cbn [rbind].
    eexists. split; [reflexivity|]. apply (SV_sort_keyed v st f H).
  - rewrite (SV_get_sorted v st i H). cbn [rbind svs_step fst snd]. exists v. split; [reflexivity|exact H].
  - unfold ssv_iter_sorted. rewrite (rmap_done (ssv_get_sorted v) (svs_get_sorted st)) by (intros i _; apply SV_get_sorted; exact H).
    cbn [rbind svs_step fst snd]. rewrite (SV_idx _ _ H). exists v. split; [reflexivity|exact H].
  - unfold ssv_radix_sort. cbn [svs_step fst snd]. rewrite (SV_idx _ _ H), (SV_all v st H).
    rewrite (nlen_length (entries v)), (SV_entries_length v st H), <- (nlen_length (sl st)).
    set (idx0 := if nlen (sx st) =? nlen (sl st) then sx st else svs_all (sl st)).
    assert (Hp0 : Permutation idx0 (nseq 0 (length (sl st)))).
    { unfold idx0. rewrite !nlen_length. destruct (N.eqb_spec (N.of_nat (length (sx st))) (N.of_nat (length (sl st)))) as [E|E].
      - replace (length (sl st)) with (length (sx st)) by lia. apply (SV_perm _ _ H).
      - apply Permutation_refl. }
    assert (Hvalid : forall i, In i idx0 -> (N.to_nat i < length (sl st))%nat).
    { intros i Hi. apply (Permutation_in _ Hp0) in Hi. apply nseq_In in Hi. lia. }
    destruct (N.eqb_spec (nlen (sl st)) 0) as [Ez|Enz].
    + eexists. split; [reflexivity|]. apply SV_set_sorted; [exact H| |].
      * rewrite (Permutation_length Hp0), nseq_length. exact Hp0.
      * rewrite (Permutation_length Hp0), nseq_length. reflexivity.
    + rewrite (SV_keyed v st idx0 H Hvalid). cbn [rbind]. eexists. split; [reflexivity|].
      set (data := svs_keyed (sl st) idx0).
      assert (Hq : Permutation idx0 (map fst (msd usort (msd_fuel data) 0 data))).
      { pose proof (Permutation_map fst (msd_perm usort usort_perm (msd_fuel data) 0 data (keyed_ok st idx0 (SV_bytes _ _ H) Hvalid))) as Hm.
        assert (Hd : map fst data = idx0) by (unfold data, svs_keyed; rewrite map_map; cbn [fst]; apply map_id).
        rewrite Hd in Hm. exact Hm. }
      assert (Hn : length (map fst (msd usort (msd_fuel data) 0 data)) = length (sl st)).
      { rewrite <- (Permutation_length Hq), (Permutation_length Hp0). apply nseq_length. }
      apply SV_set_sorted; [exact H| |exact Hn].
      rewrite Hn. eapply Permutation_trans; [apply Permutation_sym; exact Hq|exact Hp0].
Qed.

Lemma ssv_run_refines ops : forall v st,
  SV v st -> Forall sop_wf ops ->
  exists v', ssv_run usort v ops = Done (v', snd (svs_run usort st ops)) /\ SV v' (fst (svs_run usort st ops)).
Proof.
  induction ops as [|o t IH]; intros v st H Hwf.
  - exists v. split; [reflexivity|exact H].
  - inversion Hwf as [|? ? Ho Ht]; subst.
    destruct (ssv_step_refines v st o H Ho) as [v1 [E1 H1]].
    destruct (IH v1 _ H1 Ht) as [v2 [E2 H2]].
    unfold ssv_run, ssv_step in *. cbn [ssv_run_with svs_run]. rewrite E1. cbn [rbind fst snd]. rewrite E2. cbn [rbind fst snd].
    exists v2. split; [reflexivity|exact H2].
Qed.

(* ---------- pushes only: get i is the i-th pushed string ---------- *)
Lemma svs_pushes_all_accepted ss : forall st,
  Forall (fun s => nlen s <= SSV_MAX_LENGTH) ss -> total_len (sl st ++ ss) <= SSV_MAX_OFFSET ->
  sl (fst (svs_run usort st (map SPush ss))) = sl st ++ ss /\
  snd (svs_run usort st (map SPush ss)) = map (fun k => OId (nlen (sl st) + N.of_nat k)) (seq 0 (length ss)).
Proof.
  induction ss as [|s ss IH]; intros st Hl Ht.
  - cbn [map svs_run fst snd seq length]. rewrite app_nil_r. split; reflexivity.
  - inversion Hl as [|? ? Hs Hl']; subst. cbn [map svs_run].
    assert (Hfit : total_len (sl st) + nlen s <= SSV_MAX_OFFSET).
    { unfold total_len in *. rewrite concat_app, nlen_app in Ht. cbn [concat] in Ht. rewrite nlen_app in Ht. lia. }
    assert (Hstep : svs_step usort st (SPush s) = ({| sl := sl st ++ [s]; sx := sx st; ssorted := false |}, OId (nlen (sl st)))).
    { cbn [svs_step]. destruct (N.ltb_spec SSV_MAX_LENGTH (nlen s)); [lia|].
      destruct (N.ltb_spec SSV_MAX_OFFSET (total_len (sl st) + nlen s)); [lia|]. reflexivity. }
    rewrite Hstep. cbn [fst snd].
    destruct (IH {| sl := sl st ++ [s]; sx := sx st; ssorted := false |} Hl') as [Ha Hb].
    { cbn [sl]. rewrite <- app_assoc. exact Ht. }
    cbn [sl] in *. split.
    + rewrite Ha, <- app_assoc. reflexivity.
    + cbn [length seq map]. f_equal; [f_equal; lia|]. rewrite Hb. rewrite <- seq_shift, map_map.
      apply map_ext. intros k. rewrite nlen_app. cbn [nlen]. f_equal. lia.
Qed.

(* ---------- what the sorted view is ---------- *)
Hypothesis usort_sorted : forall T c l, total_preorder c -> StronglySorted (fun a b => c a b <> Gt) (usort T c l).

(* the view of an index vector whose entries are valid *)
Lemma view_of_idx (l : list bytes) idx :
  (forall i, In i idx -> (N.to_nat i < length l)%nat) ->
  until_none (map (svs_get_sorted {| sl := l; sx := idx; ssorted := true |}) (nseq 0 (length idx))) = map (str_at l) idx.
Proof.
  intros Hv.
  rewrite (map_ext_in _ (fun k => Some (str_at l (nth (N.to_nat k) idx 0)))).
  - rewrite <- (map_map (fun k => str_at l (nth (N.to_nat k) idx 0)) Some), until_none_some.
    rewrite <- (map_map (fun k => nth (N.to_nat k) idx 0) (str_at l)), map_nth_nseq. reflexivity.
  - intros k Hk. apply nseq_In in Hk. unfold svs_get_sorted. cbn [sl sx ssorted negb orb]. rewrite nlen_length.
    destruct (N.leb_spec (N.of_nat (length idx)) k); [lia|].
    assert (Hin : In (nth (N.to_nat k) idx 0) idx) by (apply nth_In; lia).
    specialize (Hv _ Hin). unfold str_at. apply nth_error_nth'. exact Hv.
Qed.

(* sorting (index, key) pairs by a total preorder on the key: the keys in index order are a sorted permutation *)
Lemma sorted_view (l : list bytes) (f : bytes -> bytes -> comparison) idx0 :
  total_preorder f -> Permutation idx0 (svs_all l) ->
  let idx := map fst (usort _ (fun a b => f (snd a) (snd b)) (svs_keyed l idx0)) in
  let view := until_none (map (svs_get_sorted {| sl := l; sx := idx; ssorted := true |}) (nseq 0 (length idx))) in
  Permutation view l /\ StronglySorted (fun a b => f a b <> Gt) view.
Proof.
  intros Hf Hp0 idx view.
  set (sorted := usort _ (fun a b : N * bytes => f (snd a) (snd b)) (svs_keyed l idx0)) in *.
  assert (Hps : Permutation (svs_keyed l idx0) sorted) by apply usort_perm.
  assert (Hkey : Forall (fun p : N * bytes => snd p = str_at l (fst p) /\ (N.to_nat (fst p) < length l)%nat) sorted).
  { eapply Permutation_Forall; [exact Hps|]. unfold svs_keyed. rewrite Forall_map. rewrite Forall_forall. intros i Hi.
    cbn [fst snd]. split; [reflexivity|]. apply all_valid. eapply Permutation_in; [exact Hp0|exact Hi]. }
  assert (Hview : view = map snd sorted).
  { unfold view. rewrite view_of_idx.
    - unfold idx. rewrite map_map. apply map_ext_in. intros p Hpin. rewrite Forall_forall in Hkey. symmetry. apply (Hkey p Hpin).
    - intros i Hi. unfold idx in Hi. apply in_map_iff in Hi. destruct Hi as [p [<- Hpin]]. rewrite Forall_forall in Hkey. apply (Hkey p Hpin). }
  rewrite Hview. split.
  - eapply Permutation_trans; [apply Permutation_sym, (Permutation_map snd Hps)|].
    unfold svs_keyed. rewrite map_map. cbn [snd].
    eapply Permutation_trans; [apply (Permutation_map (str_at l) Hp0)|].
    unfold svs_all, str_at. rewrite map_nth_nseq. apply Permutation_refl.
  - apply StronglySorted_map. apply (usort_sorted _ (fun a b : N * bytes => f (snd a) (snd b))).
    apply (total_preorder_on f snd Hf).
Qed.

(* the view of an index vector obtained by rearranging the keyed pairs *)
Lemma view_of_pairs (l : list bytes) idx0 (sorted : list (N * bytes)) :
  Permutation idx0 (svs_all l) -> Permutation (svs_keyed l idx0) sorted ->
  until_none (map (svs_get_sorted {| sl := l; sx := map fst sorted; ssorted := true |}) (nseq 0 (length (map fst sorted))))
    = map snd sorted /\
  Permutation (map snd sorted) l.
Proof.
  intros Hp0 Hps.
  assert (Hkey : Forall (fun p : N * bytes => snd p = str_at l (fst p) /\ (N.to_nat (fst p) < length l)%nat) sorted).
  { eapply Permutation_Forall; [exact Hps|]. unfold svs_keyed. rewrite Forall_map. rewrite Forall_forall. intros i Hi.
    cbn [fst snd]. split; [reflexivity|]. apply all_valid. eapply Permutation_in; [exact Hp0|exact Hi]. }
  split.
  - rewrite view_of_idx.
    + rewrite map_map. apply map_ext_in. intros p Hpin. rewrite Forall_forall in Hkey. symmetry. apply (Hkey p Hpin).
    + intros i Hi. apply in_map_iff in Hi. destruct Hi as [p [<- Hpin]]. rewrite Forall_forall in Hkey. apply (Hkey p Hpin).
  - eapply Permutation_trans; [apply Permutation_sym, (Permutation_map snd Hps)|].
    unfold svs_keyed. rewrite map_map. cbn [snd].
    eapply Permutation_trans; [apply (Permutation_map (str_at l) Hp0)|].
    unfold svs_all, str_at. rewrite map_nth_nseq. apply Permutation_refl.
Qed.

(* radix_sort: the same sorted view as sort_lexicographic *)
Lemma strvec_radix_sort_proof v st :
  SV v st ->
  exists v' view,
    ssv_radix_sort usort v = Done v' /\
    SV v' {| sl := sl st; sx := sidx v'; ssorted := true |} /\
    ssv_iter_sorted v' = Done view /\
    Permutation view (sl st) /\ StronglySorted lex_le view /\
    view = isort_by _ lex_cmp (sl st).
Proof.
  intros H.
  destruct (ssv_step_refines v st SRadix H I) as [v' [E HS']]. unfold ssv_step in E. cbn [ssv_step_with] in E.
  destruct (ssv_radix_sort usort v) as [v1|] eqn:E1; [|discriminate]. cbn [rbind] in E. injection E as <-.
  cbn [svs_step fst snd] in HS'.
  set (idx0 := if nlen (sx st) =? nlen (sl st) then sx st else svs_all (sl st)) in *.
  set (st' := {| sl := sl st; sx := _; ssorted := true |}) in HS'.
  destruct (ssv_step_refines v1 st' SIterSorted HS' I) as [v2 [E2 _]]. unfold ssv_step in E2. cbn [ssv_step_with] in E2.
  destruct (ssv_iter_sorted v1) as [view|] eqn:Ev; [|discriminate]. cbn [rbind svs_step fst snd] in E2.
  assert (Hview : view = until_none (map (svs_get_sorted st') (nseq 0 (length (sx st'))))) by (injection E2 as _ ->; reflexivity).
  assert (Hsx : sidx v1 = sx st') by apply (SV_idx _ _ HS').
  exists v1, view. split; [reflexivity|]. split; [rewrite Hsx; exact HS'|]. split; [exact Ev|].
  assert (Hp0 : Permutation idx0 (svs_all (sl st))).
  { unfold idx0, svs_all. rewrite !nlen_length. destruct (N.eqb_spec (N.of_nat (length (sx st))) (N.of_nat (length (sl st)))) as [E|E].
    - replace (length (sl st)) with (length (sx st)) by lia. apply (SV_perm _ _ H).
    - apply Permutation_refl. }
  assert (Hgoal : Permutation view (sl st) /\ StronglySorted lex_le view).
  { rewrite Hview. unfold st'. cbn [sl sx].
    destruct (N.eqb_spec (nlen (sl st)) 0) as [Ez|Enz].
    - assert (El : sl st = []) by (destruct (sl st); [reflexivity|cbn [nlen] in Ez; lia]).
      assert (Ei : idx0 = []).
      { apply Permutation_length in Hp0. unfold svs_all in Hp0. rewrite nseq_length, El in Hp0. destruct idx0; [reflexivity|discriminate]. }
      rewrite Ei, El. cbn. split; [apply Permutation_refl|constructor].
    - set (data := svs_keyed (sl st) idx0).
      assert (Hok : Forall item_ok data).
      { apply keyed_ok; [apply (SV_bytes _ _ H)|]. intros i Hi. apply all_valid. eapply Permutation_in; [exact Hp0|exact Hi]. }
      destruct (view_of_pairs (sl st) idx0 (msd usort (msd_fuel data) 0 data) Hp0 (msd_perm usort usort_perm _ 0 data Hok)) as [Hv Hperm].
      rewrite Hv. split; [exact Hperm|].
      apply StronglySorted_map. apply (msd_top_sorted usort usort_perm usort_sorted data Hok). }
  destruct Hgoal as [Hp Hs]. split; [exact Hp|]. split; [exact Hs|].
  apply (sorted_perm_unique _ lex_cmp lex_total_preorder (fun a b => lex_cmp_eq a b)); [|exact Hs|apply isort_by_sorted; exact lex_total_preorder].
  eapply Permutation_trans; [exact Hp|apply isort_by_perm].
Qed.

(* sort_lexicographic / sort: the sorted view is the lexicographically sorted permutation of the pushed strings,
   the strings themselves and their insertion order are untouched *)
Lemma strvec_sort_lex_proof v st :
  SV v st ->
  exists v' view,
    ssv_sort_lex usort v = Done v' /\
    SV v' {| sl := sl st; sx := sidx v'; ssorted := true |} /\
    ssv_iter_sorted v' = Done view /\
    Permutation view (sl st) /\ StronglySorted lex_le view /\
    view = isort_by _ lex_cmp (sl st).
Proof.
  intros H.
  destruct (ssv_step_refines v st SSortLex H I) as [v' [E HS']]. unfold ssv_step in E. cbn [ssv_step_with] in E.
  destruct (ssv_sort_lex usort v) as [v1|] eqn:E1; [|discriminate]. cbn [rbind] in E. injection E as <-.
  cbn [svs_step fst snd] in HS'.
  set (st' := {| sl := sl st; sx := _; ssorted := true |}) in HS'.
  destruct (ssv_step_refines v1 st' SIterSorted HS' I) as [v2 [E2 _]]. unfold ssv_step in E2. cbn [ssv_step_with] in E2.
  destruct (ssv_iter_sorted v1) as [view|] eqn:Ev; [|discriminate]. cbn [rbind svs_step fst snd] in E2.
  assert (Hview : view = until_none (map (svs_get_sorted st') (nseq 0 (length (sx st'))))) by (injection E2 as _ ->; reflexivity).
  assert (Hsx : sidx v1 = sx st') by apply (SV_idx _ _ HS').
  exists v1, view. split; [reflexivity|]. split; [rewrite Hsx; exact HS'|]. split; [exact Ev|].
  assert (Hgoal : Permutation view (sl st) /\ StronglySorted lex_le view).
  { rewrite Hview. unfold st'. cbn [sl sx]. rewrite nlen_length.
    destruct (N.leb_spec (N.of_nat (length (sl st))) 1) as [Hsmall|Hbig].
    - destruct (sl st) as [|s [|s2 r]] eqn:El; cbn [length] in Hsmall; try lia.
      + cbn. split; [apply Permutation_refl|constructor].
      + cbn. split; [apply Permutation_refl|repeat constructor].
    - apply (sorted_view (sl st) lex_cmp (svs_all (sl st)) lex_total_preorder (Permutation_refl _)). }
  destruct Hgoal as [Hp Hs]. split; [exact Hp|]. split; [exact Hs|].
  apply (sorted_perm_unique _ lex_cmp lex_total_preorder (fun a b => lex_cmp_eq a b)); [|exact Hs|apply isort_by_sorted; exact lex_total_preorder].
  eapply Permutation_trans; [exact Hp|apply isort_by_perm].
Qed.

(* sort_by(f) for a comparator that is a total preorder on strings *)
Lemma strvec_sort_by_proof v st f :
  SV v st -> total_preorder f ->
  exists v' view,
    ssv_sort_by usort f v = Done v' /\
    SV v' {| sl := sl st; sx := sidx v'; ssorted := true |} /\
    ssv_iter_sorted v' = Done view /\
    Permutation view (sl st) /\ StronglySorted (fun a b => f a b <> Gt) view.
Proof.
  intros H Hf.
  destruct (ssv_step_refines v st (SSortBy f) H I) as [v' [E HS']]. unfold ssv_step in E. cbn [ssv_step_with] in E.
  destruct (ssv_sort_by usort f v) as [v1|] eqn:E1; [|discriminate]. cbn [rbind] in E. injection E as <-.
  cbn [svs_step fst snd] in HS'.
  set (st' := {| sl := sl st; sx := _; ssorted := true |}) in HS'.
  destruct (ssv_step_refines v1 st' SIterSorted HS' I) as [v2 [E2 _]]. unfold ssv_step in E2. cbn [ssv_step_with] in E2.
  destruct (ssv_iter_sorted v1) as [view|] eqn:Ev; [|discriminate]. cbn [rbind svs_step fst snd] in E2.
  assert (Hview : view = until_none (map (svs_get_sorted st') (nseq 0 (length (sx st'))))) by (injection E2 as _ ->; reflexivity).
  assert (Hsx : sidx v1 = sx st') by apply (SV_idx _ _ HS').
  exists v1, view. split; [reflexivity|]. split; [rewrite Hsx; exact HS'|]. split; [exact Ev|].
  rewrite Hview. unfold st'. cbn [sl sx].
  apply (sorted_view (sl st) f (svs_all (sl st)) Hf (Permutation_refl _)).
Qed.

(* sort_by_length: ordered by length, a permutation of the pushed strings *)
Lemma strvec_sort_by_length_proof v st :
  SV v st ->
  exists v' view,
    ssv_sort_by_length usort v = Done v' /\
    SV v' {| sl := sl st; sx := sidx v'; ssorted := true |} /\
    ssv_iter_sorted v' = Done view /\
    Permutation view (sl st) /\ StronglySorted (fun a b => nlen a <= nlen b) view.
Proof.
  intros H.
  destruct (ssv_step_refines v st SSortByLen H I) as [v' [E HS']]. unfold ssv_step in E. cbn [ssv_step_with] in E.
  destruct (ssv_sort_by_length usort v) as [v1|] eqn:E1; [|discriminate]. cbn [rbind] in E. injection E as <-.
  cbn [svs_step fst snd] in HS'.
  set (idx0 := if nlen (sx st) =? nlen (sl st) then sx st else svs_all (sl st)) in *.
  set (st' := {| sl := sl st; sx := _; ssorted := true |}) in HS'.
  destruct (ssv_step_refines v1 st' SIterSorted HS' I) as [v2 [E2 _]]. unfold ssv_step in E2. cbn [ssv_step_with] in E2.
  destruct (ssv_iter_sorted v1) as [view|] eqn:Ev; [|discriminate]. cbn [rbind svs_step fst snd] in E2.
  assert (Hview : view = until_none (map (svs_get_sorted st') (nseq 0 (length (sx st'))))) by (injection E2 as _ ->; reflexivity).
  assert (Hsx : sidx v1 = sx st') by apply (SV_idx _ _ HS').
  exists v1, view. split; [reflexivity|]. split; [rewrite Hsx; exact HS'|]. split; [exact Ev|].
  assert (Hp0 : Permutation idx0 (svs_all (sl st))).
  { unfold idx0, svs_all. rewrite !nlen_length. destruct (N.eqb_spec (N.of_nat (length (sx st))) (N.of_nat (length (sl st)))) as [E|E].
    - replace (length (sl st)) with (length (sx st)) by lia. apply (SV_perm _ _ H).
    - apply Permutation_refl. }
  rewrite Hview. unfold st'. cbn [sl sx].
  set (data := map (fun i => (i, nlen (str_at (sl st) i))) idx0).
  set (sorted := usort _ (fun a b : N * N => snd a ?= snd b) data).
  assert (Hps : Permutation data sorted) by apply usort_perm.
  assert (Hkey : Forall (fun p : N * N => snd p = nlen (str_at (sl st) (fst p)) /\ (N.to_nat (fst p) < length (sl st))%nat) sorted).
  { eapply Permutation_Forall; [exact Hps|]. unfold data. rewrite Forall_map, Forall_forall. intros i Hi. cbn [fst snd].
    split; [reflexivity|]. apply all_valid. eapply Permutation_in; [exact Hp0|exact Hi]. }
  rewrite view_of_idx.
  2:{ intros i Hi. apply in_map_iff in Hi. destruct Hi as [p [<- Hpin]]. rewrite Forall_forall in Hkey. apply (Hkey p Hpin). }
  split.
  - eapply Permutation_trans; [apply Permutation_map, Permutation_sym, (Permutation_map fst Hps)|].
    assert (Hd : map fst data = idx0) by (unfold data; rewrite map_map; cbn [fst]; apply map_id).
    rewrite Hd.
    eapply Permutation_trans; [apply (Permutation_map (str_at (sl st)) Hp0)|].
    unfold svs_all, str_at. rewrite map_nth_nseq. apply Permutation_refl.
  - rewrite map_map. apply StronglySorted_map.
    pose proof (usort_sorted _ (fun a b : N * N => snd a ?= snd b) data (total_preorder_on N.compare snd N_compare_total_preorder)) as Hs.
    fold sorted in Hs.
    assert (Hgen : forall lst, Forall (fun p : N * N => snd p = nlen (str_at (sl st) (fst p)) /\ (N.to_nat (fst p) < length (sl st))%nat) lst ->
              StronglySorted (fun a b : N * N => (snd a ?= snd b) <> Gt) lst ->
              StronglySorted (fun a b : N * N => nlen (str_at (sl st) (fst a)) <= nlen (str_at (sl st) (fst b))) lst).
    { induction lst as [|p lst IHl]; intros Hk Hst; [constructor|].
      inversion Hk as [|? ? [Hp1 _] Hk']; subst. inversion Hst as [|? ? Hst' Hall]; subst.
      constructor; [apply IHl; assumption|].
      rewrite Forall_forall in *. intros q Hq. specialize (Hall q Hq). destruct (Hk' q Hq) as [Hq1 _].
      rewrite N.compare_gt_iff in Hall. lia. }
    apply Hgen; assumption.
Qed.

End StrVec.

(* insertion sort meets both hypotheses: the theorems are not vacuous *)
Example usort_hypotheses_inhabited :
  (forall T c l, Permutation l (isort_by T c l)) /\
  (forall T c l, total_preorder c -> StronglySorted (fun a b => c a b <> Gt) (isort_by T c l)).
Proof. split; [intros; apply isort_by_perm|intros T c l Hc; apply isort_by_sorted; exact Hc]. Qed.

(* ---------- top-level statements ---------- *)
Lemma strvec_refines_spec_proof usort :
  (forall T c l, Permutation l (usort T c l)) ->
  forall ops, Forall sop_wf ops ->
  exists v', ssv_run usort ssv_new ops = Done (v', snd (svs_run usort svs_new ops)) /\
             SV v' (fst (svs_run usort svs_new ops)).
Proof. intros Hp ops Hwf. apply (ssv_run_refines usort Hp); [apply SV_new|exact Hwf]. Qed.

Lemma strvec_get_pushes_proof usort :
  (forall T c l, Permutation l (usort T c l)) ->
  forall (ss : list bytes) i,
  Forall bytes_ok ss -> Forall (fun s => nlen s <= SSV_MAX_LENGTH) ss -> total_len ss <= SSV_MAX_OFFSET ->
  exists v', ssv_run usort ssv_new (map SPush ss) = Done (v', map (fun k => OId (N.of_nat k)) (seq 0 (length ss))) /\
             ssv_get v' i = Done (nth_error ss (N.to_nat i)) /\
             ssv_iter v' = Done ss.
Proof.
  intros Hp ss i Hbytes Hl Ht.
  destruct (strvec_refines_spec_proof usort Hp (map SPush ss)) as [v' [E HS]].
  { rewrite Forall_map. eapply Forall_impl; [|exact Hbytes]. intros s Hs. exact Hs. }
  destruct (svs_pushes_all_accepted usort ss svs_new Hl Ht) as [Ha Hb]. cbn [svs_new sl app nlen] in Ha, Hb.
  exists v'. split; [|split].
  - rewrite E, Hb. reflexivity.
  - rewrite (SV_get v' _ i HS), Ha. reflexivity.
  - destruct (ssv_step_refines usort Hp v' _ SIter HS I) as [v2 [E2 _]]. unfold ssv_step in E2. cbn [ssv_step_with svs_step fst snd] in E2.
    destruct (ssv_iter v') as [l|]; [|discriminate]. cbn [rbind] in E2. injection E2 as _ ->. rewrite Ha. reflexivity.
Qed.

(* a push is refused exactly when the length does not fit its field or the arena would outgrow the offset field *)
Lemma strvec_push_refused_iff_proof v st s :
  SV v st ->
  (snd (ssv_push_str_with true v s) = OErr <->
   SSV_MAX_LENGTH < nlen s \/ SSV_MAX_OFFSET < total_len (sl st) + nlen s).
Proof.
  intros H. destruct (SV_push isort_by v st s H) as [Ho _]. rewrite Ho. cbn [svs_step].
  destruct (N.ltb_spec SSV_MAX_LENGTH (nlen s)); destruct (N.ltb_spec SSV_MAX_OFFSET (total_len (sl st) + nlen s)); cbn [orb snd];
    split; intros Hx; try reflexivity; try discriminate; try (left; assumption); try (right; assumption).
  destruct Hx; lia.
Qed.

(* the pinned tree (no check of the length field): a string of 2^20 bytes is accepted and reads back empty *)
Lemma strvec_long_string_refuted_proof :
  let ops := [SPush [104]; SPush long_str; SGet 1; SGet 0] in
  run_outs (ssv_run_with isort_by false ssv_new ops) = Some [OId 0; OId 1; OStr (Some []); OStr (Some [104])] /\
  run_outs (ssv_run isort_by ssv_new ops) = Some [OId 0; OErr; OStr None; OStr (Some [104])].
Proof. vm_compute. split; reflexivity. Qed.

Example strvec_history_example :
  let ops := [SPush [98; 0; 98]; SPush []; SPush [97]; SPush [98]; SSortLex; SIterSorted; SGetSorted 3; SGet 0; SPush [99];
              SGetSorted 0; SSortByLen; SIterSorted; SSortBy rev_lex; SIterSorted; SRadix; SIterSorted; SIter; SLen; SClear; SLen] in
  match ssv_run isort_by ssv_new ops with
  | Done (v, outs) => outs = snd (svs_run isort_by svs_new ops) /\
                      nth 5 outs OUnit = OList [[]; [97]; [98]; [98; 0; 98]] /\
                      nth 13 outs OUnit = OList [[99]; [98; 0; 98]; [98]; [97]; []] /\
                      nth 15 outs OUnit = OList [[]; [97]; [98]; [98; 0; 98]; [99]]
  | Panic => False
  end.
Proof. vm_compute. repeat split. Qed.

(* forty strings: radix_sort goes through the bucket branch (>= 32 items, two levels deep) and yields the view of
   sort_lexicographic *)
Example strvec_radix_example :
  let strs := map (fun k => [k mod 3 + 97; k mod 2 + 97; k mod 7 + 48]) (nseq 0 40) ++ [[]; [97]; [97; 97]] in
  let pushes := map SPush strs in
  match ssv_run isort_by ssv_new (pushes ++ [SRadix; SIterSorted; SSortLex; SIterSorted; SPush [96]; SRadix; SGetSorted 0; SGetSorted 1]) with
  | Done (_, outs) => nth 44 outs OUnit = nth 46 outs OUnit /\ nth 44 outs OUnit = OList (isort_by _ lex_cmp strs) /\
                      nth 49 outs OUnit = OStr (Some []) /\ nth 50 outs OUnit = OStr (Some [96])
  | Panic => False
  end.
Proof. vm_compute. repeat split. Qed.
