(* C10 mechanism model (definitions only).

   Modelled code, as written in the tree under verification:
     src/containers/specialized/circular_queue.rs
        AutoGrowCircularQueue: ensure_power_of_two, with_capacity, reserve, grow_to (in-place realloc when the
        ring is contiguous, linearising two-part copy otherwise), copy_elements_to_new_buffer, push_back (+ slow
        path), pop_front, front, back, clear, push_bulk, pop_bulk, Clone, Drop
        FixedCircularQueue<T, N>: push_back, pop_front, front, back, clear, Drop
     src/containers/fast_vec.rs
        FastVec: with_capacity, reserve, ensure_capacity, realloc (max(new_cap, 2*cap)), push, pop, insert,
        remove, resize, clear, shrink_to_fit, extend, Clone, Drop (non-SIMD paths, i.e. the paths taken by
        element types that need Drop)
     src/containers/specialized/valvec32.rs
        larger_capacity, calculate_new_capacity, reserve / push_slow capacity arithmetic (u32)

   Memory is a map  slot index -> option A.  `Some x` is an initialised slot owning x, `None` an uninitialised
   or moved-out slot.  Reading, moving out of, or dropping a `None` slot is undefined behaviour in the real code
   (use of uninitialised memory / double drop) and is the outcome `UB` here.  An element that is still `Some`
   in a buffer that is given back to the allocator has leaked.  Machine integers are N; `& mask` is N.land. *)
From ZV.Common Require Import Base Run.
Open Scope N_scope.

Inductive outcome (T : Type) : Type :=
| Ok (a : T)
| UB.
Arguments Ok {T} a.
Arguments UB {T}.

Definition bind {T U} (o : outcome T) (f : T -> outcome U) : outcome U :=
  match o with Ok a => f a | UB => UB end.

(* ---------- ensure_power_of_two (no element type involved) ---------- *)
Definition smear (n : N) : N :=
  let n := N.lor n (N.shiftr n 1) in
  let n := N.lor n (N.shiftr n 2) in
  let n := N.lor n (N.shiftr n 4) in
  let n := N.lor n (N.shiftr n 8) in
  let n := N.lor n (N.shiftr n 16) in
  let n := N.lor n (N.shiftr n 32) in
  n.

Definition INITIAL_CAPACITY : N := 4.

Definition ensure_pow2 (c : N) : N :=
  if c =? 0 then INITIAL_CAPACITY
  else if N.land c (c - 1) =? 0 then c
  else smear (c - 1) + 1.

(* ---------- ValVec32 capacity arithmetic (u32) ---------- *)
Definition MAX_CAPACITY : N := 4294967295.
Definition larger_capacity (old_cap : N) : N :=
  if old_cap =? 0 then 8 else N.min (old_cap * 103 / 64) MAX_CAPACITY.
Definition calculate_new_capacity (cap min_capacity : N) : N :=
  N.min (N.max (larger_capacity cap) min_capacity) MAX_CAPACITY.
(* reserve: None = Err("Capacity overflow"); Some c = capacity afterwards *)
Definition vv_reserve (len cap additional : N) : option N :=
  let required := len + additional in
  if MAX_CAPACITY <? required then None
  else if required <=? cap then Some cap
  else Some (N.max cap (calculate_new_capacity cap required)).
(* push: None = Err("Vector at maximum capacity") *)
Definition vv_push_cap (len cap : N) : option N :=
  if len <? cap then Some cap
  else if MAX_CAPACITY <=? len then None
  else Some (N.max cap (calculate_new_capacity cap (len + 1))).

Section Containers.
Variable A : Type.

Definition mem := N -> option A.
Definition empty_mem : mem := fun _ => None.
Definition upd (m : mem) (i : N) (v : option A) : mem :=
  fun j => if j =? i then v else m j.

(* ptr::copy_nonoverlapping(src + s, dst + d, n) into another buffer *)
Definition copy_range (src : mem) (s : N) (dst : mem) (d n : N) : mem :=
  fun j => if (d <=? j) && (j <? d + n) then src (s + (j - d)) else dst j.

(* ptr::copy(p + s, p + d, n) inside one buffer (memmove): the destination range receives the values,
   source slots outside the destination range are moved-out afterwards *)
Definition move_range (m : mem) (s d n : N) : mem :=
  fun j => if (d <=? j) && (j <? d + n) then m (s + (j - d))
           else if (s <=? j) && (j <? s + n) then None else m j.

(* read n slots starting at s, moving the values out (ptr::read / drop_in_place), in address order *)
Fixpoint take_range (m : mem) (s : N) (n : nat) : outcome (mem * list A) :=
  match n with
  | O => Ok (m, [])
  | S n' =>
    match m s with
    | None => UB
    | Some x => bind (take_range (upd m s None) (s + 1) n') (fun r => Ok (fst r, x :: snd r))
    end
  end.

(* read n slots by reference *)
Fixpoint peek_range (m : mem) (s : N) (n : nat) : outcome (list A) :=
  match n with
  | O => Ok []
  | S n' =>
    match m s with
    | None => UB
    | Some x => bind (peek_range m (s + 1) n') (fun l => Ok (x :: l))
    end
  end.

Inductive ret : Type :=
| RUnit
| RErr
| ROpt (o : option A)
| RList (l : list A)
| RNum (n : N).

(* what an operation shows: its return value and the elements whose destructor ran, in order *)
Definition obs : Type := (ret * list A)%type.

(* =====================================================================
   AutoGrowCircularQueue
   ===================================================================== *)
Record ring : Type := { buf : mem; cap : N; mask : N; head : N; tail : N; len : N }.

Definition with_capacity (c : N) : ring :=
  let c' := if c =? 0 then INITIAL_CAPACITY else ensure_pow2 c in
  {| buf := empty_mem; cap := c'; mask := c' - 1; head := 0; tail := 0; len := 0 |}.

(* copy_elements_to_new_buffer *)
Definition linearise (q : ring) : mem :=
  if head q <? tail q then copy_range (buf q) (head q) empty_mem 0 (len q)
  else
    let first := cap q - head q in
    copy_range (buf q) 0 (copy_range (buf q) (head q) empty_mem 0 first) first (tail q).

Definition grow_to (q : ring) (new_capacity : N) : ring :=
  if new_capacity <=? cap q then q
  else
    let nc := ensure_pow2 new_capacity in
    if len q =? 0 then
      {| buf := empty_mem; cap := nc; mask := nc - 1; head := head q; tail := tail q; len := len q |}
    else if head q <? tail q then
      (* realloc: contents of the old block are preserved, head and tail stay *)
      {| buf := fun j => if j <? cap q then buf q j else None;
         cap := nc; mask := nc - 1; head := head q; tail := tail q; len := len q |}
    else
      {| buf := linearise q; cap := nc; mask := nc - 1; head := 0; tail := len q; len := len q |}.

Definition reserve (q : ring) (additional : N) : ring :=
  let required := len q + additional in
  if required <=? cap q then q else grow_to q (ensure_pow2 required).

(* buffer.add(tail).write(x); tail = (tail + 1) & mask; len += 1 *)
Definition write_tail (q : ring) (x : A) : ring :=
  {| buf := upd (buf q) (tail q) (Some x); cap := cap q; mask := mask q; head := head q;
     tail := N.land (tail q + 1) (mask q); len := len q + 1 |}.

Definition push_back (q : ring) (x : A) : ring :=
  if len q <? cap q - 1 then write_tail q x
  else write_tail (grow_to q (N.max (N.shiftl (cap q) 1) INITIAL_CAPACITY)) x.

Definition pop_front (q : ring) : outcome (ring * option A) :=
  if len q =? 0 then Ok (q, None)
  else match buf q (head q) with
       | None => UB
       | Some x =>
         Ok ({| buf := upd (buf q) (head q) None; cap := cap q; mask := mask q;
                head := N.land (head q + 1) (mask q); tail := tail q; len := len q - 1 |}, Some x)
       end.

Definition front (q : ring) : outcome (option A) :=
  if len q =? 0 then Ok None
  else match buf q (head q) with None => UB | Some x => Ok (Some x) end.

Definition back (q : ring) : outcome (option A) :=
  if len q =? 0 then Ok None
  else match buf q (N.land (tail q + cap q - 1) (mask q)) with None => UB | Some x => Ok (Some x) end.

Definition reset (q : ring) (m : mem) : ring :=
  {| buf := m; cap := cap q; mask := mask q; head := 0; tail := 0; len := 0 |}.

(* `le` selects the comparison used to decide "single contiguous region":
   false: head < tail   (the code after the fix commit)
   true : head <= tail  (the pinned tree; wrong for a full ring, where head = tail) *)
Definition contiguous (le : bool) (q : ring) : bool :=
  if le then head q <=? tail q else head q <? tail q.

Definition clear_with (le : bool) (q : ring) : outcome (ring * list A) :=
  if len q =? 0 then Ok (q, [])
  else if contiguous le q then
    bind (take_range (buf q) (head q) (N.to_nat (tail q - head q))) (fun r =>
    Ok (reset q (fst r), snd r))
  else
    bind (take_range (buf q) (head q) (N.to_nat (cap q - head q))) (fun r1 =>
    bind (take_range (fst r1) 0 (N.to_nat (tail q))) (fun r2 =>
    Ok (reset q (fst r2), snd r1 ++ snd r2))).
Definition clear := clear_with false.

Definition push_bulk (q : ring) (items : list A) : ring :=
  match items with
  | [] => q
  | _ => fold_left write_tail items (reserve q (nlen items))
  end.

Definition pop_bulk (q : ring) (n : N) : outcome (ring * list A) :=
  let to_pop := N.min n (len q) in
  if to_pop =? 0 then Ok (q, [])
  else
    bind (if (head q <? tail q) || (head q + to_pop <=? cap q)
          then take_range (buf q) (head q) (N.to_nat to_pop)
          else
            let first := cap q - head q in
            let second := to_pop - first in
            bind (take_range (buf q) (head q) (N.to_nat first)) (fun r1 =>
            bind (take_range (fst r1) 0 (N.to_nat second)) (fun r2 =>
            Ok (fst r2, snd r1 ++ snd r2))))
         (fun r =>
    Ok ({| buf := fst r; cap := cap q; mask := mask q; head := N.land (head q + to_pop) (mask q);
           tail := tail q; len := len q - to_pop |}, snd r)).

Definition clone_with (le : bool) (q : ring) : outcome ring :=
  let fresh := with_capacity (cap q) in
  if len q =? 0 then Ok fresh
  else if contiguous le q then
    bind (peek_range (buf q) (head q) (N.to_nat (tail q - head q))) (fun l =>
    Ok (fold_left push_back l fresh))
  else
    bind (peek_range (buf q) (head q) (N.to_nat (cap q - head q))) (fun l1 =>
    bind (peek_range (buf q) 0 (N.to_nat (tail q))) (fun l2 =>
    Ok (fold_left push_back (l1 ++ l2) fresh))).
Definition clone := clone_with false.

Inductive qop : Type :=
| PushBack (x : A)
| PopFront
| PushBulk (xs : list A)
| PopBulk (n : N)
| Reserve (n : N)
| Clear
| Front
| Back.

Definition ring_step_with (le : bool) (q : ring) (o : qop) : outcome (ring * obs) :=
  match o with
  | PushBack x => Ok (push_back q x, (RUnit, []))
  | PopFront => bind (pop_front q) (fun r => Ok (fst r, (ROpt (snd r), [])))
  | PushBulk xs => Ok (push_bulk q xs, (RNum (nlen xs), []))
  | PopBulk n => bind (pop_bulk q n) (fun r => Ok (fst r, (RList (snd r), [])))
  | Reserve n => Ok (reserve q n, (RUnit, []))
  | Clear => bind (clear_with le q) (fun r => Ok (fst r, (RUnit, snd r)))
  | Front => bind (front q) (fun r => Ok (q, (ROpt r, [])))
  | Back => bind (back q) (fun r => Ok (q, (ROpt r, [])))
  end.
Definition ring_step := ring_step_with false.

Fixpoint ring_run_with (le : bool) (q : ring) (ops : list qop) : outcome (ring * list obs) :=
  match ops with
  | [] => Ok (q, [])
  | o :: t => bind (ring_step_with le q o) (fun r =>
              bind (ring_run_with le (fst r) t) (fun r2 => Ok (fst r2, snd r :: snd r2)))
  end.
Definition ring_run := ring_run_with false.

(* Drop for AutoGrowCircularQueue: clear(), then the buffer is deallocated: slots of the old buffer that
   are still Some are leaked elements *)
Definition ring_drop (q : ring) : outcome (ring * list A) := clear q.

(* ----- the deque the ring must implement ----- *)
Fixpoint last_error (l : list A) : option A :=
  match l with [] => None | [x] => Some x | _ :: t => last_error t end.

Definition deque_step (l : list A) (o : qop) : list A * obs :=
  match o with
  | PushBack x => (l ++ [x], (RUnit, []))
  | PopFront => match l with [] => ([], (ROpt None, [])) | x :: t => (t, (ROpt (Some x), [])) end
  | PushBulk xs => (l ++ xs, (RNum (nlen xs), []))
  | PopBulk n => let k := N.to_nat (N.min n (nlen l)) in (skipn k l, (RList (firstn k l), []))
  | Reserve _ => (l, (RUnit, []))
  | Clear => ([], (RUnit, l))
  | Front => (l, (ROpt (hd_error l), []))
  | Back => (l, (ROpt (last_error l), []))
  end.

Fixpoint deque_run (l : list A) (ops : list qop) : list A * list obs :=
  match ops with
  | [] => (l, [])
  | o :: t => let r := deque_step l o in
              let r2 := deque_run (fst r) t in (fst r2, snd r :: snd r2)
  end.

(* elements handed to the container / handed back or destroyed by it *)
Definition qop_in (o : qop) : list A :=
  match o with PushBack x => [x] | PushBulk xs => xs | _ => [] end.
Definition ret_out (r : ret) : list A :=
  match r with ROpt (Some x) => [x] | RList l => l | _ => [] end.
Definition obs_out (b : obs) : list A := ret_out (fst b) ++ snd b.
(* Front/Back return references, not ownership *)
Definition qobs_out (o : qop) (b : obs) : list A :=
  match o with Front | Back => snd b | _ => obs_out b end.
Fixpoint history_in (ops : list qop) : list A :=
  match ops with [] => [] | o :: t => qop_in o ++ history_in t end.
Fixpoint history_out (ops : list qop) (bs : list obs) : list A :=
  match ops, bs with
  | o :: t, b :: bt => qobs_out o b ++ history_out t bt
  | _, _ => []
  end.

(* =====================================================================
   FixedCircularQueue<T, N>
   ===================================================================== *)
Record fixedq : Type := { fbuf : mem; fhead : N; ftail : N; fcount : N }.
Definition fixed_new : fixedq := {| fbuf := empty_mem; fhead := 0; ftail := 0; fcount := 0 |}.

Definition fixed_push (n : N) (q : fixedq) (x : A) : fixedq * ret :=
  if fcount q =? n then (q, RErr)
  else ({| fbuf := upd (fbuf q) (ftail q) (Some x); fhead := fhead q;
           ftail := (ftail q + 1) mod n; fcount := fcount q + 1 |}, RUnit).

Definition fixed_pop (n : N) (q : fixedq) : outcome (fixedq * option A) :=
  if fcount q =? 0 then Ok (q, None)
  else match fbuf q (fhead q) with
       | None => UB
       | Some x => Ok ({| fbuf := upd (fbuf q) (fhead q) None; fhead := (fhead q + 1) mod n;
                          ftail := ftail q; fcount := fcount q - 1 |}, Some x)
       end.

Definition fixed_front (q : fixedq) : outcome (option A) :=
  if fcount q =? 0 then Ok None
  else match fbuf q (fhead q) with None => UB | Some x => Ok (Some x) end.

Definition fixed_back (n : N) (q : fixedq) : outcome (option A) :=
  if fcount q =? 0 then Ok None
  else let bi := if ftail q =? 0 then n - 1 else ftail q - 1 in
       match fbuf q bi with None => UB | Some x => Ok (Some x) end.

(* while !is_empty() { pop_front() } : each popped value is dropped *)
Fixpoint fixed_clear_go (n : N) (fuel : nat) (q : fixedq) : outcome (fixedq * list A) :=
  if fcount q =? 0 then Ok (q, [])
  else match fuel with
       | O => UB
       | S f => bind (fixed_pop n q) (fun r =>
                bind (fixed_clear_go n f (fst r)) (fun r2 =>
                Ok (fst r2, match snd r with Some x => x :: snd r2 | None => snd r2 end)))
       end.
Definition fixed_clear (n : N) (q : fixedq) : outcome (fixedq * list A) :=
  fixed_clear_go n (N.to_nat (fcount q)) q.

Definition fixed_step (n : N) (q : fixedq) (o : qop) : outcome (fixedq * obs) :=
  match o with
  | PushBack x => let r := fixed_push n q x in
                  Ok (fst r, (snd r, match snd r with RErr => [x] | _ => [] end))
  | PopFront => bind (fixed_pop n q) (fun r => Ok (fst r, (ROpt (snd r), [])))
  | Clear => bind (fixed_clear n q) (fun r => Ok (fst r, (RUnit, snd r)))
  | Front => bind (fixed_front q) (fun r => Ok (q, (ROpt r, [])))
  | Back => bind (fixed_back n q) (fun r => Ok (q, (ROpt r, [])))
  | _ => Ok (q, (RUnit, []))   (* no bulk / reserve on the fixed queue *)
  end.

Fixpoint fixed_run (n : N) (q : fixedq) (ops : list qop) : outcome (fixedq * list obs) :=
  match ops with
  | [] => Ok (q, [])
  | o :: t => bind (fixed_step n q o) (fun r =>
              bind (fixed_run n (fst r) t) (fun r2 => Ok (fst r2, snd r :: snd r2)))
  end.

(* bounded deque *)
Definition bdeque_step (n : N) (l : list A) (o : qop) : list A * obs :=
  match o with
  | PushBack x => if nlen l =? n then (l, (RErr, [x])) else (l ++ [x], (RUnit, []))
  | PushBulk _ | PopBulk _ | Reserve _ => (l, (RUnit, []))
  | _ => deque_step l o
  end.
Fixpoint bdeque_run (n : N) (l : list A) (ops : list qop) : list A * list obs :=
  match ops with
  | [] => (l, [])
  | o :: t => let r := bdeque_step n l o in
              let r2 := bdeque_run n (fst r) t in (fst r2, snd r :: snd r2)
  end.

(* =====================================================================
   FastVec
   ===================================================================== *)
Record fvec : Type := { vbuf : mem; vlen : N; vcap : N }.
Definition fv_new : fvec := {| vbuf := empty_mem; vlen := 0; vcap := 0 |}.
Definition fv_with_capacity (c : N) : fvec := {| vbuf := empty_mem; vlen := 0; vcap := c |}.

(* realloc(new_cap): target = max(new_cap, 2 * cap); the old block's contents move along *)
Definition fv_realloc (v : fvec) (new_cap : N) : fvec :=
  {| vbuf := vbuf v; vlen := vlen v; vcap := N.max new_cap (vcap v * 2) |}.
Definition fv_ensure_capacity (v : fvec) (min_cap : N) : fvec :=
  if min_cap <=? vcap v then v else fv_realloc v min_cap.
Definition fv_reserve (v : fvec) (additional : N) : fvec :=
  let required := vlen v + additional in
  if required <=? vcap v then v else fv_realloc v required.

Definition fv_write_end (v : fvec) (x : A) : fvec :=
  {| vbuf := upd (vbuf v) (vlen v) (Some x); vlen := vlen v + 1; vcap := vcap v |}.

Definition fv_push (v : fvec) (x : A) : fvec :=
  let v1 := if vcap v <=? vlen v then fv_ensure_capacity v (vlen v + 1) else v in
  fv_write_end v1 x.

Definition fv_pop (v : fvec) : outcome (fvec * option A) :=
  if vlen v =? 0 then Ok (v, None)
  else match vbuf v (vlen v - 1) with
       | None => UB
       | Some x => Ok ({| vbuf := upd (vbuf v) (vlen v - 1) None; vlen := vlen v - 1; vcap := vcap v |}, Some x)
       end.

Definition fv_insert (v : fvec) (index : N) (x : A) : fvec * ret :=
  if vlen v <? index then (v, RErr)
  else
    let v1 := if vcap v <=? vlen v then fv_ensure_capacity v (vlen v + 1) else v in
    let move_count := vlen v1 - index in
    let m := if 0 <? move_count then move_range (vbuf v1) index (index + 1) move_count else vbuf v1 in
    ({| vbuf := upd m index (Some x); vlen := vlen v1 + 1; vcap := vcap v1 |}, RUnit).

Definition fv_remove (v : fvec) (index : N) : outcome (fvec * ret) :=
  if vlen v <=? index then Ok (v, RErr)
  else
    match vbuf v index with
    | None => UB
    | Some x =>
      let move_count := vlen v - index - 1 in
      let m0 := upd (vbuf v) index None in
      let m := if 0 <? move_count then move_range m0 (index + 1) index move_count else m0 in
      Ok ({| vbuf := m; vlen := vlen v - 1; vcap := vcap v |}, ROpt (Some x))
    end.

Fixpoint fill_range (m : mem) (s : N) (n : nat) (x : A) : mem :=
  match n with O => m | S n' => fill_range (upd m s (Some x)) (s + 1) n' x end.

Definition fv_resize (v : fvec) (new_len : N) (x : A) : outcome (fvec * list A) :=
  if vlen v <? new_len then
    let v1 := fv_ensure_capacity v new_len in
    Ok ({| vbuf := fill_range (vbuf v1) (vlen v1) (N.to_nat (new_len - vlen v1)) x;
           vlen := new_len; vcap := vcap v1 |}, [])
  else if new_len <? vlen v then
    bind (take_range (vbuf v) new_len (N.to_nat (vlen v - new_len))) (fun r =>
    Ok ({| vbuf := fst r; vlen := new_len; vcap := vcap v |}, snd r))
  else Ok (v, []).

Definition fv_clear (v : fvec) : outcome (fvec * list A) :=
  bind (take_range (vbuf v) 0 (N.to_nat (vlen v))) (fun r =>
  Ok ({| vbuf := fst r; vlen := 0; vcap := vcap v |}, snd r)).

Definition fv_shrink_to_fit (v : fvec) : fvec :=
  if vlen v =? vcap v then v
  else if vlen v =? 0 then {| vbuf := empty_mem; vlen := 0; vcap := 0 |}
  else {| vbuf := vbuf v; vlen := vlen v; vcap := vlen v |}.

Definition fv_extend (v : fvec) (xs : list A) : fvec :=
  fold_left fv_write_end xs (fv_reserve v (nlen xs)).

Definition fv_get (v : fvec) (i : N) : outcome (option A) :=
  if vlen v <=? i then Ok None
  else match vbuf v i with None => UB | Some x => Ok (Some x) end.

Definition fv_clone (v : fvec) : outcome fvec :=
  bind (peek_range (vbuf v) 0 (N.to_nat (vlen v))) (fun l =>
  Ok (fold_left fv_push l (fv_with_capacity (vlen v)))).

Inductive vop : Type :=
| VPush (x : A)
| VPop
| VInsert (i : N) (x : A)
| VRemove (i : N)
| VResize (n : N) (x : A)
| VClear
| VShrink
| VExtend (xs : list A)
| VReserve (n : N)
| VGet (i : N).

Definition fv_step (v : fvec) (o : vop) : outcome (fvec * obs) :=
  match o with
  | VPush x => Ok (fv_push v x, (RUnit, []))
  | VPop => bind (fv_pop v) (fun r => Ok (fst r, (ROpt (snd r), [])))
  | VInsert i x => let r := fv_insert v i x in
                   Ok (fst r, (snd r, match snd r with RErr => [x] | _ => [] end))
  | VRemove i => bind (fv_remove v i) (fun r => Ok (fst r, (snd r, [])))
  | VResize n x => bind (fv_resize v n x) (fun r => Ok (fst r, (RUnit, snd r ++ [x])))
  | VClear => bind (fv_clear v) (fun r => Ok (fst r, (RUnit, snd r)))
  | VShrink => Ok (fv_shrink_to_fit v, (RUnit, []))
  | VExtend xs => Ok (fv_extend v xs, (RUnit, []))
  | VReserve n => Ok (fv_reserve v n, (RUnit, []))
  | VGet i => bind (fv_get v i) (fun r => Ok (v, (ROpt r, [])))
  end.

Fixpoint fv_run (v : fvec) (ops : list vop) : outcome (fvec * list obs) :=
  match ops with
  | [] => Ok (v, [])
  | o :: t => bind (fv_step v o) (fun r =>
              bind (fv_run (fst r) t) (fun r2 => Ok (fst r2, snd r :: snd r2)))
  end.

(* the Vec FastVec must implement *)
Definition vec_step (l : list A) (o : vop) : list A * obs :=
  match o with
  | VPush x => (l ++ [x], (RUnit, []))
  | VPop => (removelast l, (ROpt (last_error l), []))
  | VInsert i x => if nlen l <? i then (l, (RErr, [x]))
                   else (firstn (N.to_nat i) l ++ x :: skipn (N.to_nat i) l, (RUnit, []))
  | VRemove i => match nth_error l (N.to_nat i) with
                 | None => (l, (RErr, []))
                 | Some x => (firstn (N.to_nat i) l ++ skipn (S (N.to_nat i)) l, (ROpt (Some x), []))
                 end
  | VResize n x => if nlen l <? n then (l ++ repeat x (N.to_nat (n - nlen l)), (RUnit, [x]))
                   else (firstn (N.to_nat n) l, (RUnit, skipn (N.to_nat n) l ++ [x]))
  | VClear => ([], (RUnit, l))
  | VShrink => (l, (RUnit, []))
  | VExtend xs => (l ++ xs, (RUnit, []))
  | VReserve _ => (l, (RUnit, []))
  | VGet i => (l, (ROpt (nth_error l (N.to_nat i)), []))
  end.

Fixpoint vec_run (l : list A) (ops : list vop) : list A * list obs :=
  match ops with
  | [] => (l, [])
  | o :: t => let r := vec_step l o in
              let r2 := vec_run (fst r) t in (fst r2, snd r :: snd r2)
  end.

End Containers.

Arguments RUnit {A}.
Arguments RErr {A}.
Arguments ROpt {A} o.
Arguments RList {A} l.
Arguments RNum {A} n.
Arguments PushBack {A} x.
Arguments PopFront {A}.
Arguments PushBulk {A} xs.
Arguments PopBulk {A} n.
Arguments Reserve {A} n.
Arguments Clear {A}.
Arguments Front {A}.
Arguments Back {A}.
Arguments VPush {A} x.
Arguments VPop {A}.
Arguments VInsert {A} i x.
Arguments VRemove {A} i.
Arguments VResize {A} n x.
Arguments VClear {A}.
Arguments VShrink {A}.
Arguments VExtend {A} xs.
Arguments VReserve {A} n.
Arguments VGet {A} i.
Arguments buf {A} r.
Arguments cap {A} r.
Arguments mask {A} r.
Arguments head {A} r.
Arguments tail {A} r.
Arguments len {A} r.
Arguments vbuf {A} f.
Arguments vlen {A} f.
Arguments vcap {A} f.
Arguments fbuf {A} f.
Arguments fhead {A} f.
Arguments ftail {A} f.
Arguments fcount {A} f.
Arguments empty_mem {A}.
Arguments upd {A} m i v.
Arguments with_capacity {A} c.
Arguments fixed_new {A}.
Arguments fv_new {A}.
Arguments fv_with_capacity {A} c.

(* =====================================================================
   Encoding of observations for the correspondence check (elements are ids : N)
   ===================================================================== *)
Definition zs (l : list N) : list Z := map Z.of_N l.
Definition enc_ret (r : ret N) : list Z :=
  match r with
  | RUnit => [0%Z]
  | RErr => [(-1)%Z]
  | ROpt None => [1%Z]
  | ROpt (Some x) => [2%Z; Z.of_N x]
  | RList l => 3%Z :: zs l
  | RNum n => [4%Z; Z.of_N n]
  end.
(* the order in which destructors run inside one operation is not part of the property: compare as a multiset *)
Fixpoint ins_sorted (x : N) (l : list N) : list N :=
  match l with [] => [x] | y :: t => if x <=? y then x :: l else y :: ins_sorted x t end.
Definition isort (l : list N) : list N := fold_right ins_sorted [] l.
Definition enc_obs (b : obs N) : list Z := enc_ret (fst b) ++ (-7)%Z :: zs (isort (snd b)).

Definition ring_state (q : ring N) : list Z :=
  [(-8)%Z; Z.of_N (len q); Z.of_N (cap q); Z.of_N (head q); Z.of_N (tail q)].
Definition fixed_state (q : fixedq N) : list Z :=
  [(-8)%Z; Z.of_N (fcount q)].
Definition fv_state (v : fvec N) : list Z := [(-8)%Z; Z.of_N (vlen v); Z.of_N (vcap v)].

(* trace-level operations: a container operation, or "clone, drop the original, continue with the clone" *)
Inductive tq : Type := TQ (o : qop N) | TQClone.
Inductive tv : Type := TV (o : vop N) | TVClone.

Definition ring_tstep (le : bool) (q : ring N) (o : tq) : outcome (ring N * obs N) :=
  match o with
  | TQ o => ring_step_with N le q o
  | TQClone => bind (clone_with N le q) (fun c =>
               bind (clear_with N le q) (fun r => Ok (c, (RUnit, snd r))))
  end.
Definition fv_tstep (v : fvec N) (o : tv) : outcome (fvec N * obs N) :=
  match o with
  | TV o => fv_step N v o
  | TVClone => bind (fv_clone N v) (fun c =>
               bind (fv_clear N v) (fun r => Ok (c, (RUnit, snd r))))
  end.

(* run a history and list, per operation, observation ++ state; UB is a single [-99] *)
Fixpoint ring_trace (le : bool) (q : ring N) (ops : list tq) : list (list Z) :=
  match ops with
  | [] => []
  | o :: t => match ring_tstep le q o with
              | UB => [[(-99)%Z]]
              | Ok r => (enc_obs (snd r) ++ ring_state (fst r)) :: ring_trace le (fst r) t
              end
  end.
Fixpoint fixed_trace (n : N) (q : fixedq N) (ops : list (qop N)) : list (list Z) :=
  match ops with
  | [] => []
  | o :: t => match fixed_step N n q o with
              | UB => [[(-99)%Z]]
              | Ok r => (enc_obs (snd r) ++ fixed_state (fst r)) :: fixed_trace n (fst r) t
              end
  end.
Fixpoint fv_trace (v : fvec N) (ops : list tv) : list (list Z) :=
  match ops with
  | [] => []
  | o :: t => match fv_tstep v o with
              | UB => [[(-99)%Z]]
              | Ok r => (enc_obs (snd r) ++ fv_state (fst r)) :: fv_trace (fst r) t
              end
  end.

(* ---------- cases written by the harness ---------- *)
Inductive case_t : Type :=
| CRing (c : N) (ops : list tq) (expect : list (list Z))
| CFixed (n : N) (ops : list (qop N)) (expect : list (list Z))
| CVec (c : N) (ops : list tv) (expect : list (list Z)).

Fixpoint eqb_llz (a b : list (list Z)) : bool :=
  match a, b with
  | [], [] => true
  | x :: a', y :: b' => ZV.Common.Run.eqb_lz x y && eqb_llz a' b'
  | _, _ => false
  end.

Definition ok (c : case_t) : bool :=
  match c with
  | CRing c ops e => eqb_llz (ring_trace false (with_capacity c) ops) e
  | CFixed n ops e => eqb_llz (fixed_trace n fixed_new ops) e
  | CVec c ops e => eqb_llz (fv_trace (if c =? 0 then fv_new else fv_with_capacity c) ops) e
  end.
