(* C10 mechanism model of the paths FastVec<T> takes for Copy element types (definitions only).

   Modelled code: src/containers/fast_vec.rs, the branches guarded by
   `is_simd_safe::<T>() && is_simd_beneficial::<T>(count)` (count * size_of::<T>() >= 64):
     insert / remove (the tail is copied into a temporary Vec<u8> with fast_copy and copied back one slot further /
     nearer with fast_copy, instead of ptr::copy), resize (growing: fast_fill when additionally
     size_of::<T>() == 1, else the clone loop), extend (the iterator is collected and fast_copy'd behind len),
     extend_from_slice_fast (reserve, then fast_copy or copy_nonoverlapping), fill_range_fast (bounds check, empty
     range, fast_fill for one-byte types, otherwise one of three assignment loops), copy_from_slice_fast
     (ensure_capacity(src.len()), copy to slot 0, len = src.len()), ensure_capacity, PartialEq (fast_compare on
     the byte view when beneficial, else slice equality).  push, pop, clear, shrink_to_fit, reserve, get and Clone
     are the functions of Model.v.
   The SIMD kernels themselves (memory::simd_ops::fast_copy / fast_fill / fast_compare; property C14) are
   parameters; `esz` is size_of::<T>().
   Copy types have no destructor: a slot beyond len that still holds a stale copy is not an element, and is
   written as None here (so that the abstraction relation V of Spec.v applies unchanged).
   `legacy` = the pinned tree: ensure_capacity aborted the process (zipora_verify_ge!) for a request below len, and
   copy_from_slice_fast returned early on an empty source.  An abort is the outcome UB. *)
From ZV.Common Require Import Base Run.
From ZV.C10 Require Import Model.
Open Scope N_scope.

Section FastVecCopy.
Variable A : Type.
Variable esz : N.
Variable fast_copy : list A -> list A.
Variable fast_fill : A -> nat -> list A.
Variable fast_compare : list A -> list A -> bool.    (* true: the kernel reports "equal" *)
Variable aeqb : A -> A -> bool.                      (* T::eq *)

Definition beneficial (count : N) : bool := 64 <=? count * esz.

(* a bulk write of xs into slots dst .. dst + |xs| *)
Definition put_list (m : mem A) (dst : N) (xs : list A) : mem A :=
  fun j => if (dst <=? j) && (j <? dst + nlen xs) then nth_error xs (N.to_nat (j - dst)) else m j.

Definition fvc_ensure_capacity (legacy : bool) (v : fvec A) (min_cap : N) : outcome (fvec A) :=
  if legacy && (min_cap <? vlen v) then UB else Ok (fv_ensure_capacity A v min_cap).

Definition fvc_insert (v : fvec A) (index : N) (x : A) : outcome (fvec A * ret A) :=
  if vlen v <? index then Ok (v, RErr)
  else
    let v1 := if vcap v <=? vlen v then fv_ensure_capacity A v (vlen v + 1) else v in
    let move_count := vlen v1 - index in
    bind (if (0 <? move_count) && beneficial move_count then
            bind (peek_range A (vbuf v1) index (N.to_nat move_count)) (fun src =>
            Ok (put_list (vbuf v1) (index + 1) (fast_copy (fast_copy src))))
          else if 0 <? move_count then Ok (move_range A (vbuf v1) index (index + 1) move_count)
          else Ok (vbuf v1)) (fun m =>
    Ok ({| vbuf := upd m index (Some x); vlen := vlen v1 + 1; vcap := vcap v1 |}, RUnit)).

Definition fvc_remove (v : fvec A) (index : N) : outcome (fvec A * ret A) :=
  if vlen v <=? index then Ok (v, RErr)
  else
    match vbuf v index with
    | None => UB
    | Some x =>
      let move_count := vlen v - index - 1 in
      bind (if (0 <? move_count) && beneficial move_count then
              bind (peek_range A (vbuf v) (index + 1) (N.to_nat move_count)) (fun src =>
              Ok (upd (put_list (vbuf v) index (fast_copy (fast_copy src))) (vlen v - 1) None))
            else if 0 <? move_count then Ok (move_range A (upd (vbuf v) index None) (index + 1) index move_count)
            else Ok (upd (vbuf v) index None)) (fun m =>
      Ok ({| vbuf := m; vlen := vlen v - 1; vcap := vcap v |}, ROpt (Some x)))
    end.

Definition fvc_resize (v : fvec A) (new_len : N) (x : A) : outcome (fvec A) :=
  if vlen v <? new_len then
    let v1 := fv_ensure_capacity A v new_len in
    let fill_count := new_len - vlen v1 in
    Ok {| vbuf := if beneficial fill_count && (esz =? 1)
                  then put_list (vbuf v1) (vlen v1) (fast_fill x (N.to_nat fill_count))
                  else fill_range A (vbuf v1) (vlen v1) (N.to_nat fill_count) x;
          vlen := new_len; vcap := vcap v1 |}
  else bind (fv_resize A v new_len x) (fun r => Ok (fst r)).

(* extend(iter) *)
Definition fvc_extend (v : fvec A) (xs : list A) : fvec A :=
  let v1 := fv_reserve A v (nlen xs) in
  if beneficial (nlen xs)
  then {| vbuf := put_list (vbuf v1) (vlen v1) (fast_copy xs); vlen := vlen v1 + nlen xs; vcap := vcap v1 |}
  else fold_left (fv_write_end A) xs v1.

Definition fvc_extend_fast (v : fvec A) (xs : list A) : fvec A :=
  match xs with
  | [] => v
  | _ =>
    let v1 := fv_reserve A v (nlen xs) in
    {| vbuf := put_list (vbuf v1) (vlen v) (if beneficial (nlen xs) then fast_copy xs else xs);
       vlen := vlen v1 + nlen xs; vcap := vcap v1 |}
  end.

Definition fvc_fill_range (v : fvec A) (start stop : N) (x : A) : fvec A * ret A :=
  if (stop <? start) || (vlen v <? stop) then (v, RErr)
  else if start =? stop then (v, RUnit)
  else
    let range_len := stop - start in
    ({| vbuf := if beneficial range_len && (esz =? 1)
                then put_list (vbuf v) start (fast_fill x (N.to_nat range_len))
                else fill_range A (vbuf v) start (N.to_nat range_len) x;   (* one of the three assignment loops *)
        vlen := vlen v; vcap := vcap v |}, RUnit).

Definition fvc_copy_from (legacy : bool) (v : fvec A) (xs : list A) : outcome (fvec A) :=
  match xs with
  | [] => if legacy then Ok v
          else Ok {| vbuf := fun j => if j <? vlen v then None else vbuf v j; vlen := 0; vcap := vcap v |}
  | _ =>
    bind (fvc_ensure_capacity legacy v (nlen xs)) (fun v1 =>
    let src := if beneficial (nlen xs) then fast_copy xs else xs in
    Ok {| vbuf := fun j => if j <? nlen xs then nth_error src (N.to_nat j)
                           else if j <? vlen v then None else vbuf v1 j;
          vlen := nlen xs; vcap := vcap v1 |})
  end.

Fixpoint list_eqb (a b : list A) : bool :=
  match a, b with
  | [], [] => true
  | x :: a', y :: b' => aeqb x y && list_eqb a' b'
  | _, _ => false
  end.

(* PartialEq::eq *)
Definition fvc_eq (v w : fvec A) : outcome bool :=
  if negb (vlen v =? vlen w) then Ok false
  else if vlen v =? 0 then Ok true
  else bind (peek_range A (vbuf v) 0 (N.to_nat (vlen v))) (fun a =>
       bind (peek_range A (vbuf w) 0 (N.to_nat (vlen w))) (fun b =>
       Ok (if beneficial (vlen v) then fast_compare a b else list_eqb a b))).

Inductive cop : Type :=
| CPush (x : A)
| CPop
| CInsert (i : N) (x : A)
| CRemove (i : N)
| CResize (n : N) (x : A)
| CClear
| CShrink
| CExtend (xs : list A)
| CExtendFast (xs : list A)
| CReserve (n : N)
| CGet (i : N)
| CFill (a b : N) (x : A)
| CCopyFrom (xs : list A)
| CEnsure (n : N).

Definition fvc_step_with (legacy : bool) (v : fvec A) (o : cop) : outcome (fvec A * ret A) :=
  match o with
  | CPush x => Ok (fv_push A v x, RUnit)
  | CPop => bind (fv_pop A v) (fun r => Ok (fst r, ROpt (snd r)))
  | CInsert i x => fvc_insert v i x
  | CRemove i => fvc_remove v i
  | CResize n x => bind (fvc_resize v n x) (fun v' => Ok (v', RUnit))
  | CClear => bind (fv_clear A v) (fun r => Ok (fst r, RUnit))
  | CShrink => Ok (fv_shrink_to_fit A v, RUnit)
  | CExtend xs => Ok (fvc_extend v xs, RUnit)
  | CExtendFast xs => Ok (fvc_extend_fast v xs, RUnit)
  | CReserve n => Ok (fv_reserve A v n, RUnit)
  | CGet i => bind (fv_get A v i) (fun r => Ok (v, ROpt r))
  | CFill a b x => Ok (fvc_fill_range v a b x)
  | CCopyFrom xs => bind (fvc_copy_from legacy v xs) (fun v' => Ok (v', RUnit))
  | CEnsure n => bind (fvc_ensure_capacity legacy v n) (fun v' => Ok (v', RUnit))
  end.
Definition fvc_step := fvc_step_with false.

Fixpoint fvc_run_with (legacy : bool) (v : fvec A) (ops : list cop) : outcome (fvec A * list (ret A)) :=
  match ops with
  | [] => Ok (v, [])
  | o :: t => bind (fvc_step_with legacy v o) (fun r =>
              bind (fvc_run_with legacy (fst r) t) (fun r2 => Ok (fst r2, snd r :: snd r2)))
  end.
Definition fvc_run := fvc_run_with false.

(* ----- the list functions: the scalar path of Model.v (vec_step) where there is one ----- *)
Definition cvec_step (l : list A) (o : cop) : list A * ret A :=
  match o with
  | CPush x => (fst (vec_step A l (VPush x)), RUnit)
  | CPop => let r := vec_step A l VPop in (fst r, fst (snd r))
  | CInsert i x => let r := vec_step A l (VInsert i x) in (fst r, fst (snd r))
  | CRemove i => let r := vec_step A l (VRemove i) in (fst r, fst (snd r))
  | CResize n x => (fst (vec_step A l (VResize n x)), RUnit)
  | CClear => ([], RUnit)
  | CShrink | CReserve _ | CEnsure _ => (l, RUnit)
  | CExtend xs | CExtendFast xs => (l ++ xs, RUnit)
  | CGet i => (l, ROpt (nth_error l (N.to_nat i)))
  | CFill a b x =>
      if (b <? a) || (nlen l <? b) then (l, RErr)
      else (firstn (N.to_nat a) l ++ repeat x (N.to_nat (b - a)) ++ skipn (N.to_nat b) l, RUnit)
  | CCopyFrom xs => (xs, RUnit)
  end.

Fixpoint cvec_run (l : list A) (ops : list cop) : list A * list (ret A) :=
  match ops with
  | [] => (l, [])
  | o :: t => let r := cvec_step l o in
              let r2 := cvec_run (fst r) t in (fst r2, snd r :: snd r2)
  end.

(* the scalar operation of Model.v an operation corresponds to, where there is one *)
Definition scalar_of (o : cop) : option (vop A) :=
  match o with
  | CPush x => Some (VPush x)
  | CPop => Some VPop
  | CInsert i x => Some (VInsert i x)
  | CRemove i => Some (VRemove i)
  | CResize n x => Some (VResize n x)
  | CClear => Some VClear
  | CShrink => Some VShrink
  | CExtend xs | CExtendFast xs => Some (VExtend xs)
  | CReserve n => Some (VReserve n)
  | CGet i => Some (VGet i)
  | _ => None
  end.

End FastVecCopy.

Arguments CPush {A} x.
Arguments CPop {A}.
Arguments CInsert {A} i x.
Arguments CRemove {A} i.
Arguments CResize {A} n x.
Arguments CClear {A}.
Arguments CShrink {A}.
Arguments CExtend {A} xs.
Arguments CExtendFast {A} xs.
Arguments CReserve {A} n.
Arguments CGet {A} i.
Arguments CFill {A} a b x.
Arguments CCopyFrom {A} xs.
Arguments CEnsure {A} n.

(* ---------- trace for the correspondence check: the kernels are what they must equal ---------- *)
Definition k_copy (l : list N) : list N := l.
Definition k_fill (x : N) (n : nat) : list N := repeat x n.
Definition k_compare (a b : list N) : bool := ZV.Common.Run.eqb_ln a b.

Inductive tc : Type := TC (o : cop N) | TCClone.

(* clone, compare the clone with the original (PartialEq), drop the original, continue with the clone;
   a clone that compares unequal is reported as -2 *)
Definition fvc_tstep (esz : N) (v : fvec N) (o : tc) : outcome (fvec N * ret N) :=
  match o with
  | TC o => fvc_step N esz k_copy k_fill v o
  | TCClone => bind (fv_clone N v) (fun c =>
               bind (fvc_eq N esz k_compare N.eqb c v) (fun same =>
               Ok (c, if same then RUnit else RErr)))
  end.

Fixpoint fvc_trace (esz : N) (v : fvec N) (ops : list tc) : list (list Z) :=
  match ops with
  | [] => []
  | o :: t => match fvc_tstep esz v o with
              | UB => [[(-99)%Z]]
              | Ok r => (enc_ret (snd r) ++ [(-7)%Z] ++ fv_state (fst r)) :: fvc_trace esz (fst r) t
              end
  end.
