(* C10 mechanism model of AutoGrowCircularQueue::pop_bulk at the level of the caller's slice (definitions only).

   Modelled code: src/containers/specialized/circular_queue.rs, `pop_bulk(&mut self, output: &mut [T]) -> usize`:
     to_pop = min(output.len(), len); single run `for i in 0..to_pop { output[i] = buffer.add(head + i).read() }`
     when `head < tail || head + to_pop <= capacity`, otherwise two runs split at the wrap point (the second one
     writes `output[first_part + i]`).  `output[i] = value` is an assignment: the value the slice held there is
     destroyed, in index order, before the moved-out element takes its place; slots of the slice beyond to_pop keep
     their values.  `Model.pop_bulk` is the same function seen from the ring only (the moved-out elements as a list);
     here the slice is part of the state: outcome = (ring, (slice afterwards, values destroyed in order)). *)
From ZV.Common Require Import Base Run.
From ZV.C10 Require Import Model.
Open Scope N_scope.

Section RingBulk.
Variable A : Type.

(* for i in 0..n { out[i] = ptr.add(s + i).read() }: UB on an uninitialised slot; an index past the slice is a panic
   in the code and never happens because n <= out.len() *)
Fixpoint read_into (m : mem A) (s : N) (n : nat) (out : list A) : outcome (mem A * (list A * list A)) :=
  match n with
  | O => Ok (m, (out, []))
  | S n' =>
    match m s, out with
    | Some x, old :: rest =>
        bind (read_into (upd m s None) (s + 1) n' rest) (fun r =>
        Ok (fst r, (x :: fst (snd r), old :: snd (snd r))))
    | _, _ => UB
    end
  end.

Definition pop_bulk_into (q : ring A) (out : list A) : outcome (ring A * (list A * list A)) :=
  let to_pop := N.min (nlen out) (len q) in
  if to_pop =? 0 then Ok (q, (out, []))
  else
    bind (if (head q <? tail q) || (head q + to_pop <=? cap q)
          then read_into (buf q) (head q) (N.to_nat to_pop) out
          else
            let first := cap q - head q in
            let second := to_pop - first in
            bind (read_into (buf q) (head q) (N.to_nat first) out) (fun r1 =>
            bind (read_into (fst r1) 0 (N.to_nat second) (skipn (N.to_nat first) (fst (snd r1)))) (fun r2 =>
            Ok (fst r2, (firstn (N.to_nat first) (fst (snd r1)) ++ fst (snd r2), snd (snd r1) ++ snd (snd r2))))))
         (fun r =>
    Ok ({| buf := fst r; cap := cap q; mask := mask q; head := N.land (head q + to_pop) (mask q);
           tail := tail q; len := len q - to_pop |}, snd r)).

End RingBulk.

(* ---------- trace for the correspondence check: a history, then one pop_bulk into a slice of identified values ---------- *)
Fixpoint ring_trun (q : ring N) (ops : list tq) : outcome (ring N) :=
  match ops with
  | [] => Ok q
  | o :: t => bind (ring_tstep false q o) (fun r => ring_trun (fst r) t)
  end.

Definition ring_into_trace (c : N) (pre : list tq) (out : list N) : list Z :=
  match ring_trun (with_capacity c) pre with
  | UB => [(-99)%Z]
  | Ok q =>
    match pop_bulk_into N q out with
    | UB => [(-99)%Z]
    | Ok (q', (out', dropped)) =>
        Z.of_N (nlen dropped) :: zs out' ++ (-7)%Z :: zs dropped ++ ring_state q'
    end
  end.
