(* C10 mechanism model of SortableStrVec (definitions only).

   Modelled code: src/containers/specialized/sortable_str_vec.rs
     CompactEntry (one u64: offset in the low OFFSET_BITS bits, then LENGTH_BITS bits of length, then the
     sequence id; offset()/length()/seq_id() mask and shift with the constants of the impl block, which are
     regenerated from the source into ConstsC10.v on every run), push_str / push (the two refusals, the packing
     with the *literal* shifts 40 and 60 and `entries.len() & 0xF`), get / get_by_id (entries.get(i), then the
     arena slice - a range outside the arena panics), len, iter, clear, Clone (field-wise copy),
     sort_lexicographic / sort (<= 1 entry: special case; otherwise indices 0..n, (index, slice) pairs, sorted by
     slice comparison - the path compiled with debug assertions, which is the one the harness runs),
     sort_by (indices 0..n, comparator on the arena slices), sort_by_length (indices re-initialised only when their
     number differs from the number of entries; key entries[idx].length()), get_sorted, iter_sorted.
     radix_sort (index vector re-used like sort_by_length; radix_sort_msd_helper: <= 1 element: nothing; < 32
     elements: sort_unstable_by on the suffixes from `depth`; otherwise bucket by the byte at `depth` - 0 for a
     string that has ended, byte + 1 otherwise -, ended strings first, then the buckets 1..256 in order, each
     sorted recursively at depth + 1).  The counting sort that distributes the indices into the buckets (257
     counters, exclusive prefix sums, scatter into the scratch buffer, copy back) is modelled by its result, the
     stable partition by bucket key.
   Not modelled: binary_search, the statistics, the release-mode comparator fast_lexicographic_cmp (not compiled
   into the harness).

   The standard library's sort_unstable_by is a parameter `usort`; theorems quantify over every sorting routine
   that returns a permutation of its input which is sorted whenever the comparator is a total preorder.  When a
   model is executed, `usort` is insertion sort. *)
From Coq Require Import Permutation.
From ZV.Common Require Import Base Run.
From ZV.Gen Require Import ConstsC10.
From ZV.C10 Require Import ModelArena.
Open Scope N_scope.

(* ---------- CompactEntry ---------- *)
Definition ce_offset (e : N) : N := N.land e SSV_OFFSET_MASK.
Definition ce_length (e : N) : N := N.land (N.shiftr e SSV_OFFSET_BITS) SSV_LENGTH_MASK.
Definition ce_seq_id (e : N) : N := N.land (N.shiftr e (SSV_OFFSET_BITS + SSV_LENGTH_BITS)) SSV_SEQ_ID_MASK.
(* push_str: (offset as u64) | ((length as u64) << 40) | ((seq_id as u64) << 60), in u64 arithmetic *)
Definition ce_pack (offset length seq_id : N) : N :=
  N.lor (N.lor offset (N.shiftl length 40 mod 2 ^ 64)) (N.shiftl seq_id 60 mod 2 ^ 64).

Record ssv : Type := { arena : bytes; entries : list N; sidx : list N; is_sorted : bool }.

Definition ssv_new : ssv := {| arena := []; entries := []; sidx := []; is_sorted := false |}.

Inductive sobs : Type :=
| OUnit
| OErr
| OId (n : N)
| OStr (o : option bytes)
| ONum (n : N)
| OList (l : list bytes).

Inductive sop : Type :=
| SPush (s : bytes)
| SGet (i : N)
| SLen
| SIter
| SClear
| SSortLex
| SSortByLen
| SSortBy (f : bytes -> bytes -> comparison)
| SGetSorted (i : N)
| SIterSorted
| SRadix.

(* push_str.  checked = true: the code after fix commit 1a81140 (length > MAX_LENGTH refused);
   checked = false: the pinned tree (no check of the length field) *)
Definition ssv_push_str_with (checked : bool) (v : ssv) (s : bytes) : ssv * sobs :=
  let offset := nlen (arena v) in
  let length := nlen s in
  if (N.shiftr SSV_MAX_OFFSET 1 <? offset) && (SSV_MAX_OFFSET <? offset + length) then (v, OErr)
  else if checked && (SSV_MAX_LENGTH <? length) then (v, OErr)
  else
    let seq_id := N.land (nlen (entries v)) 15 in
    ({| arena := arena v ++ s; entries := entries v ++ [ce_pack offset length seq_id];
        sidx := sidx v; is_sorted := false |}, OId (nlen (entries v))).

Definition ssv_entry_bytes (v : ssv) (e : N) : res bytes := slice (arena v) (ce_offset e) (ce_length e).

(* get: entries.get(index).map(|entry| &arena[offset..offset + length]) *)
Definition ssv_get (v : ssv) (i : N) : res (option bytes) :=
  match nth_error (entries v) (N.to_nat i) with
  | None => Done None
  | Some e => rbind (ssv_entry_bytes v e) (fun b => Done (Some b))
  end.

Definition ssv_all (v : ssv) : list N := nseq 0 (length (entries v)).

(* iter(): get(0), get(1), ... while current < len *)
Definition ssv_iter (v : ssv) : res (list bytes) :=
  rbind (rmap (ssv_get v) (ssv_all v)) (fun l => Done (until_none l)).

Definition ssv_clear (v : ssv) : ssv := ssv_new.

Section Sorting.
Variable usort : forall T : Type, (T -> T -> comparison) -> list T -> list T.

Definition ssv_set_sorted (v : ssv) (idx : list N) : ssv :=
  {| arena := arena v; entries := entries v; sidx := idx; is_sorted := true |}.

(* (idx, slice) for every index: entries[idx], then the arena slice *)
Definition ssv_keyed (v : ssv) (idx : list N) : res (list (N * bytes)) :=
  rmap (fun i => rbind (index (entries v) i) (fun e => rbind (ssv_entry_bytes v e) (fun b => Done (i, b)))) idx.

Definition ssv_sort_lex (v : ssv) : res ssv :=
  if nlen (entries v) <=? 1 then Done (ssv_set_sorted v (if nlen (entries v) =? 1 then [0] else []))
  else rbind (ssv_keyed v (ssv_all v)) (fun data =>
       Done (ssv_set_sorted v (map fst (usort _ (fun a b => lex_cmp (snd a) (snd b)) data)))).

(* sort_by(compare): the comparator slices the arena for both operands *)
Definition ssv_sort_by (f : bytes -> bytes -> comparison) (v : ssv) : res ssv :=
  rbind (ssv_keyed v (ssv_all v)) (fun data =>
  Done (ssv_set_sorted v (map fst (usort _ (fun a b => f (snd a) (snd b)) data)))).

(* sort_by_length: sort_unstable_by_key(|idx| entries[idx].length()) on the existing index vector, which is
   re-initialised only if its length differs from the number of entries *)
Definition ssv_sort_by_length (v : ssv) : res ssv :=
  let idx0 := if nlen (sidx v) =? nlen (entries v) then sidx v else ssv_all v in
  rbind (rmap (fun i => rbind (index (entries v) i) (fun e => Done (i, ce_length e))) idx0) (fun data =>
  Done (ssv_set_sorted v (map fst (usort _ (fun a b => snd a ?= snd b) data)))).

(* radix_sort_msd_helper on (index, string) pairs *)
Definition rkey (depth : nat) (p : N * bytes) : N :=
  match nth_error (snd p) depth with Some b => b + 1 | None => 0 end.
Definition bucket (depth : nat) (k : N) (items : list (N * bytes)) : list (N * bytes) :=
  filter (fun p => rkey depth p =? k) items.
Fixpoint msd (fuel : nat) (depth : nat) (items : list (N * bytes)) : list (N * bytes) :=
  if (length items <=? 1)%nat then items
  else if (length items <? 32)%nat then
    usort _ (fun a b => lex_cmp (skipn depth (snd a)) (skipn depth (snd b))) items
  else match fuel with
       | O => items       (* out of fuel: cannot happen with fuel > the longest string *)
       | S f => bucket depth 0 items ++ concat (map (fun k => msd f (S depth) (bucket depth k items)) (nseq 1 256))
       end.
Definition msd_fuel (items : list (N * bytes)) : nat := S (list_max (map (fun p => length (snd p)) items)).

Definition ssv_radix_sort (v : ssv) : res ssv :=
  let idx0 := if nlen (sidx v) =? nlen (entries v) then sidx v else ssv_all v in
  if nlen (entries v) =? 0 then Done (ssv_set_sorted v idx0)
  else rbind (ssv_keyed v idx0) (fun data => Done (ssv_set_sorted v (map fst (msd (msd_fuel data) 0 data)))).

Definition ssv_get_sorted (v : ssv) (i : N) : res (option bytes) :=
  if negb (is_sorted v) || (nlen (sidx v) <=? i) then Done None
  else rbind (index (sidx v) i) (fun original => ssv_get v original).

(* iter_sorted(): get_sorted(0), get_sorted(1), ... while current < sorted_indices.len(), ends at the first None *)
Definition ssv_iter_sorted (v : ssv) : res (list bytes) :=
  rbind (rmap (ssv_get_sorted v) (nseq 0 (length (sidx v)))) (fun l => Done (until_none l)).

Definition ssv_step_with (checked : bool) (v : ssv) (o : sop) : res (ssv * sobs) :=
  match o with
  | SPush s => Done (ssv_push_str_with checked v s)
  | SGet i => rbind (ssv_get v i) (fun r => Done (v, OStr r))
  | SLen => Done (v, ONum (nlen (entries v)))
  | SIter => rbind (ssv_iter v) (fun l => Done (v, OList l))
  | SClear => Done (ssv_clear v, OUnit)
  | SSortLex => rbind (ssv_sort_lex v) (fun v' => Done (v', OUnit))
  | SSortByLen => rbind (ssv_sort_by_length v) (fun v' => Done (v', OUnit))
  | SSortBy f => rbind (ssv_sort_by f v) (fun v' => Done (v', OUnit))
  | SGetSorted i => rbind (ssv_get_sorted v i) (fun r => Done (v, OStr r))
  | SIterSorted => rbind (ssv_iter_sorted v) (fun l => Done (v, OList l))
  | SRadix => rbind (ssv_radix_sort v) (fun v' => Done (v', OUnit))
  end.
Definition ssv_step := ssv_step_with true.

Fixpoint ssv_run_with (checked : bool) (v : ssv) (ops : list sop) : res (ssv * list sobs) :=
  match ops with
  | [] => Done (v, [])
  | o :: t => rbind (ssv_step_with checked v o) (fun r =>
              rbind (ssv_run_with checked (fst r) t) (fun r2 => Done (fst r2, snd r :: snd r2)))
  end.
Definition ssv_run := ssv_run_with true.

(* ---------- the specification: a Vec of strings plus the index vector of the last sort ---------- *)
Record svs : Type := { sl : list bytes; sx : list N; ssorted : bool }.
Definition svs_new : svs := {| sl := []; sx := []; ssorted := false |}.

Definition total_len (l : list bytes) : N := nlen (concat l).
Definition str_at (l : list bytes) (i : N) : bytes := nth (N.to_nat i) l [].
Definition svs_keyed (l : list bytes) (idx : list N) : list (N * bytes) := map (fun i => (i, str_at l i)) idx.
Definition svs_all (l : list bytes) : list N := nseq 0 (length l).

Definition svs_get_sorted (st : svs) (i : N) : option bytes :=
  if negb (ssorted st) || (nlen (sx st) <=? i) then None
  else nth_error (sl st) (N.to_nat (nth (N.to_nat i) (sx st) 0)).

Definition svs_step (st : svs) (o : sop) : svs * sobs :=
  match o with
  | SPush s =>
      (* refused exactly when the length does not fit the 20-bit field or the arena would outgrow the offset field *)
      if (SSV_MAX_LENGTH <? nlen s) || (SSV_MAX_OFFSET <? total_len (sl st) + nlen s) then (st, OErr)
      else ({| sl := sl st ++ [s]; sx := sx st; ssorted := false |}, OId (nlen (sl st)))
  | SGet i => (st, OStr (nth_error (sl st) (N.to_nat i)))
  | SLen => (st, ONum (nlen (sl st)))
  | SIter => (st, OList (sl st))
  | SClear => (svs_new, OUnit)
  | SSortLex =>
      ({| sl := sl st;
          sx := if nlen (sl st) <=? 1 then (if nlen (sl st) =? 1 then [0] else [])
                else map fst (usort _ (fun a b => lex_cmp (snd a) (snd b)) (svs_keyed (sl st) (svs_all (sl st))));
          ssorted := true |}, OUnit)
  | SSortByLen =>
      let idx0 := if nlen (sx st) =? nlen (sl st) then sx st else svs_all (sl st) in
      ({| sl := sl st;
          sx := map fst (usort _ (fun a b => snd a ?= snd b) (map (fun i => (i, nlen (str_at (sl st) i))) idx0));
          ssorted := true |}, OUnit)
  | SSortBy f =>
      ({| sl := sl st;
          sx := map fst (usort _ (fun a b => f (snd a) (snd b)) (svs_keyed (sl st) (svs_all (sl st))));
          ssorted := true |}, OUnit)
  | SGetSorted i => (st, OStr (svs_get_sorted st i))
  | SIterSorted => (st, OList (until_none (map (svs_get_sorted st) (nseq 0 (length (sx st))))))
  | SRadix =>
      let idx0 := if nlen (sx st) =? nlen (sl st) then sx st else svs_all (sl st) in
      ({| sl := sl st;
          sx := if nlen (sl st) =? 0 then idx0
                else map fst (msd (msd_fuel (svs_keyed (sl st) idx0)) 0 (svs_keyed (sl st) idx0));
          ssorted := true |}, OUnit)
  end.

Fixpoint svs_run (st : svs) (ops : list sop) : svs * list sobs :=
  match ops with
  | [] => (st, [])
  | o :: t => let r := svs_step st o in
              let r2 := svs_run (fst r) t in (fst r2, snd r :: snd r2)
  end.

End Sorting.

(* the strings handed to push are byte strings *)
Definition sop_wf (o : sop) : Prop := match o with SPush s => bytes_ok s | _ => True end.

(* the entries a sequence of pushes lays out: offsets are the running sums of the lengths *)
Fixpoint layout (off : N) (n : N) (l : list bytes) : list N :=
  match l with
  | [] => []
  | s :: t => ce_pack off (nlen s) (N.land n 15) :: layout (off + nlen s) (n + 1) t
  end.

(* SV v st: the arena is the concatenation of the pushed strings, the entries are their layout, every string
   fits the length field and consists of bytes, the arena fits the offset field; the index vector is the specification's, it is a
   permutation of 0..its own length, not longer than the entry vector, and complete whenever is_sorted *)
Record SV (v : ssv) (st : svs) : Prop := {
  SV_arena : arena v = concat (sl st);
  SV_entries : entries v = layout 0 0 (sl st);
  SV_lens : Forall (fun s => nlen s <= SSV_MAX_LENGTH) (sl st);
  SV_bytes : Forall bytes_ok (sl st);
  SV_total : total_len (sl st) <= SSV_MAX_OFFSET;
  SV_idx : sidx v = sx st;
  SV_flag : is_sorted v = ssorted st;
  SV_perm : Permutation (sx st) (nseq 0 (length (sx st)));
  SV_short : (length (sx st) <= length (sl st))%nat;
  SV_full : ssorted st = true -> length (sx st) = length (sl st)
}.

(* the observations of a run, None when it panicked *)
Definition run_outs (r : res (ssv * list sobs)) : option (list sobs) :=
  match r with Done x => Some (snd x) | Panic => None end.

(* a string of 2^20 bytes: one more than the length field can hold *)
Definition long_str : bytes := repeat 120 (N.to_nat 1048576).

(* ---------- trace for the correspondence check ---------- *)
Definition rev_lex (a b : bytes) : comparison := lex_cmp b a.

Definition enc_sobs (b : sobs) : list Z :=
  match b with
  | OUnit => [0%Z]
  | OErr => [(-1)%Z]
  | OId n => [5%Z; Z.of_N n]
  | OStr None => [1%Z]
  | OStr (Some s) => 2%Z :: enc_bytes s
  | ONum n => [4%Z; Z.of_N n]
  | OList l => 3%Z :: Z.of_N (nlen l) :: enc_strs l
  end.

(* trace-level operations: a container operation, "clone and continue with the clone" (field-wise copy), and the
   sorted view in canonical form (lengths in view order, then the strings in lexicographic order) for the sorts
   whose result is not determined by the comparator (sort_by_length on strings of equal length) *)
Inductive ts : Type := TS (o : sop) | TSClone | TSViewCanon.

Definition canon_view (l : list bytes) : sobs :=
  OList (map (fun s => [nlen s]) l ++ isort_by _ lex_cmp l).

Fixpoint ssv_trace (v : ssv) (ops : list ts) : list (list Z) :=
  match ops with
  | [] => []
  | TS o :: t => match ssv_step isort_by v o with
                 | Panic => [[(-99)%Z]]
                 | Done r => enc_sobs (snd r) :: ssv_trace (fst r) t
                 end
  | TSClone :: t => [0%Z] :: ssv_trace v t
  | TSViewCanon :: t => match ssv_iter_sorted v with
                        | Panic => [[(-99)%Z]]
                        | Done l => enc_sobs (canon_view l) :: ssv_trace v t
                        end
  end.
