(* ensure_power_of_two: the bit-smearing round-up really yields a power of two that is large enough. *)
From ZV.Common Require Import Base.
From ZV.C10 Require Import Model.
Open Scope N_scope.

(* bits (L-w, L] are set / no bit above L *)
Definition top (a L w : N) : Prop := forall i, i <= L -> L < i + w -> N.testbit a i = true.
Definition high (a L : N) : Prop := forall i, L < i -> N.testbit a i = false.

Lemma smear_step a L w w2 :
  w2 = w + w -> top a L w -> high a L ->
  top (N.lor a (N.shiftr a w)) L w2 /\ high (N.lor a (N.shiftr a w)) L.
Proof.
  intros -> Ht Hh. split.
  - intros i Hi Hw. rewrite N.lor_spec, N.shiftr_spec'.
    destruct (N.ltb_spec L (i + w)) as [H|H].
    + rewrite (Ht i Hi H). reflexivity.
    + rewrite (Ht (i + w)) by lia. apply Bool.orb_true_r.
  - intros i Hi. rewrite N.lor_spec, N.shiftr_spec'.
    rewrite (Hh i Hi), (Hh (i + w)) by lia. reflexivity.
Qed.

Lemma smear_ones n : 0 < n -> N.log2 n < 64 -> smear n = N.ones (N.log2 n + 1).
Proof.
  intros Hn HL. set (L := N.log2 n) in *.
  assert (T0 : top n L 1).
  { intros i Hi Hw. replace i with L by lia. apply N.bit_log2. lia. }
  assert (G0 : high n L).
  { intros i Hi. apply N.bits_above_log2. exact Hi. }
  unfold smear.
  destruct (smear_step n L 1 2 eq_refl T0 G0) as [T1 G1].
  destruct (smear_step _ L 2 4 eq_refl T1 G1) as [T2 G2].
  destruct (smear_step _ L 4 8 eq_refl T2 G2) as [T3 G3].
  destruct (smear_step _ L 8 16 eq_refl T3 G3) as [T4 G4].
  destruct (smear_step _ L 16 32 eq_refl T4 G4) as [T5 G5].
  destruct (smear_step _ L 32 64 eq_refl T5 G5) as [T6 G6].
  cbv zeta.
  apply N.bits_inj. intros i.
  destruct (N.ltb_spec i (L + 1)) as [Hi|Hi].
  - rewrite N.ones_spec_low by exact Hi. apply T6; lia.
  - rewrite N.ones_spec_high by exact Hi. apply G6; lia.
Qed.

Lemma land_pred_zero_pow2 c : 0 < c -> N.land c (c - 1) = 0 -> c = 2 ^ N.log2 c.
Proof.
  intros Hc Hl.
  destruct (N.eq_dec c (2 ^ N.log2 c)) as [E|NE]; [exact E|exfalso].
  pose proof (N.log2_spec c Hc) as [Hlo Hhi].
  assert (Hb : N.testbit (N.land c (c - 1)) (N.log2 c) = true).
  { rewrite N.land_spec. rewrite N.bit_log2 by lia. cbn [andb].
    assert (E2 : N.log2 (c - 1) = N.log2 c).
    { apply N.log2_unique; [lia|].
      replace (N.succ (N.log2 c)) with (N.log2 c + 1) in * by lia. split; lia. }
    rewrite <- E2. apply N.bit_log2. lia. }
  rewrite Hl in Hb. rewrite N.bits_0 in Hb. discriminate.
Qed.

(* the specification used by the queue proofs *)
Lemma ensure_pow2_ok c m :
  0 < c -> c <= 2 ^ m -> m <= 62 ->
  exists k, ensure_pow2 c = 2 ^ k /\ c <= 2 ^ k /\ k <= m.
Proof.
  intros Hc Hm Hm62. unfold ensure_pow2.
  destruct (N.eqb_spec c 0) as [->|_]; [lia|].
  destruct (N.eqb_spec (N.land c (c - 1)) 0) as [Hz|Hz].
  - pose proof (land_pred_zero_pow2 c Hc Hz) as E.
    exists (N.log2 c). split; [exact E|]. split; [lia|].
    destruct (N.le_gt_cases (N.log2 c) m) as [H|H]; [exact H|exfalso].
    assert (2 ^ (m + 1) <= 2 ^ N.log2 c) by (apply N.pow_le_mono_r; lia).
    rewrite N.pow_add_r in H0. change (2 ^ 1) with 2 in H0. pose proof (pow2_pos m). lia.
  - assert (Hc1 : 0 < c - 1).
    { destruct (N.eq_dec c 1) as [->|]; [exfalso; apply Hz; reflexivity|lia]. }
    assert (HL : N.log2 (c - 1) < m).
    { apply N.log2_lt_pow2; lia. }
    rewrite smear_ones by lia.
    exists (N.log2 (c - 1) + 1).
    rewrite N.ones_equiv.
    pose proof (pow2_pos (N.log2 (c - 1) + 1)).
    split; [lia|]. split; [|lia].
    pose proof (N.log2_spec (c - 1) Hc1) as [_ Hhi].
    replace (N.succ (N.log2 (c - 1))) with (N.log2 (c - 1) + 1) in Hhi by lia. lia.
Qed.

Lemma ensure_pow2_of_pow2 k : ensure_pow2 (2 ^ k) = 2 ^ k.
Proof.
  unfold ensure_pow2. pose proof (pow2_pos k).
  destruct (N.eqb_spec (2 ^ k) 0) as [E|_]; [lia|].
  replace (2 ^ k - 1) with (N.ones k) by (rewrite N.ones_equiv; lia).
  rewrite N.land_ones, N.mod_same by lia. reflexivity.
Qed.

Example ensure_pow2_examples :
  ensure_pow2 0 = 4 /\ ensure_pow2 1 = 1 /\ ensure_pow2 3 = 4 /\ ensure_pow2 9 = 16 /\ ensure_pow2 1025 = 2048.
Proof. vm_compute. repeat split. Qed.
