(* memory::cache::CacheAlignedVec and BumpVec refine a Vec / a bounded Vec: the cache-line capacity arithmetic of
   reallocate, simulation between the len/cap/buffer model with allocation-checked slot accesses and list
   operations, destruction exactly once by clear / truncate / Drop. *)
From Coq Require Import Permutation.
From ZV.Common Require Import Base.
From ZV.C10 Require Import Model Spec ProofsRing ProofsVec ModelValVec32 ProofsValVec32 ModelCacheVec.
Open Scope N_scope.

(* ---------- capacity arithmetic ---------- *)
Lemma round64 x : x <= (x + 63) / 64 * 64 /\ (x + 63) / 64 * 64 <= x + 63.
Proof. lia. Qed.

Lemma cav_aligned_ok sz n :
  0 < sz -> n * sz <= 2 ^ 62 ->
  exists a, cav_aligned_capacity sz n = Some a /\ n <= a /\ a * sz <= n * sz + 63.
Proof.
  intros Hsz Hb. unfold cav_aligned_capacity, USIZE_MAX, ISIZE_MAX, CACHE_LINE.
  change (64 - 1) with 63.
  assert (H62 : 2 ^ 62 = 4611686018427387904) by reflexivity. rewrite H62 in Hb.
  destruct (N.ltb_spec 18446744073709551615 (n * sz)); [lia|].
  destruct (N.ltb_spec 18446744073709551615 (n * sz + 63)); [lia|].
  destruct (round64 (n * sz)) as [Hlo Hhi].
  set (bytes := (n * sz + 63) / 64 * 64) in *.
  assert (Ha : bytes / sz * sz <= bytes).
  { rewrite N.mul_comm. apply N.mul_div_le. lia. }
  assert (Hn : n <= bytes / sz).
  { apply N.div_le_lower_bound; [lia|]. rewrite N.mul_comm. exact Hlo. }
  destruct (N.ltb_spec (9223372036854775807 - 63) (bytes / sz * sz)); [lia|].
  eexists. split; [reflexivity|]. split; [exact Hn|lia].
Qed.

Section CAV.
Variable A : Type.
Local Notation AW := (ModelCacheVec.AW A).
Local Notation AW_len := (ModelCacheVec.AW_len A).
Local Notation AW_le := (ModelCacheVec.AW_le A).
Local Notation AW_live := (ModelCacheVec.AW_live A).
Local Notation AW_dead := (ModelCacheVec.AW_dead A).

Lemma AW_new : AW cav_new [].
Proof. constructor; cbn [cav_new alen acap abuf length]; try lia; reflexivity. Qed.

Lemma AW_reallocate sz v l nc :
  0 < sz -> AW v l -> 0 < nc -> alen v <= nc -> nc * sz <= 2 ^ 62 ->
  exists v1, cav_reallocate A sz v nc = Ok (Some v1) /\ AW v1 l /\ alen v1 = alen v /\ nc <= acap v1 /\
             acap v1 * sz <= nc * sz + 63.
Proof.
  intros Hsz H Hnc Hfit0 Hb. unfold cav_reallocate.
  destruct (N.eqb_spec nc 0); [lia|]. destruct (N.eqb_spec sz 0); [lia|].
  destruct (cav_aligned_ok sz nc Hsz Hb) as [a [Ea [Hna Hsl]]]. rewrite Ea.
  pose proof (AW_len _ _ H) as Hl. pose proof (AW_le _ _ H) as Hle.
  destruct (N.eqb_spec (acap v) 0) as [Hz|Hnz].
  - eexists. split; [reflexivity|]. split; [|cbn [alen acap]; split; [reflexivity|split; [exact Hna|exact Hsl]]].
    assert (l = []) by (destruct l; [reflexivity|cbn [length] in Hl; lia]). subst l.
    constructor; cbn [alen acap abuf length]; try lia; try reflexivity.
  - destruct (N.leb_spec (alen v) (acap v)); [|lia].
    destruct (N.leb_spec (alen v) a) as [Hfit|Hshort]; [|lia]. cbn [andb].
    eexists. split; [reflexivity|]. split; [|cbn [alen acap]; split; [reflexivity|split; [exact Hna|exact Hsl]]].
    constructor; cbn [alen acap abuf].
    + exact Hl.
    + exact Hfit.
    + intros i Hi. destruct (N.ltb_spec (N.of_nat i) (alen v)); [|lia]. apply (AW_live _ _ H). exact Hi.
    + intros j Hj. destruct (N.ltb_spec j (alen v)); [lia|reflexivity].
Qed.

Lemma new_cap_bounds required capacity :
  capacity < required ->
  required <= cav_new_cap required capacity /\ cav_new_cap required capacity <= 4 * required.
Proof. intros H. unfold cav_new_cap, USIZE_MAX. lia. Qed.

Lemma AW_reserve sz v l n :
  0 < sz -> AW v l -> (alen v + n) * sz <= 2 ^ 60 ->
  exists v1, cav_reserve A sz v n = Ok (Some v1) /\ AW v1 l /\ alen v1 = alen v /\ alen v + n <= acap v1.
Proof.
  intros Hsz H Hb. unfold cav_reserve.
  assert (H60 : 2 ^ 60 = 1152921504606846976) by reflexivity.
  assert (Hreq : alen v + n <= 2 ^ 60) by nia.
  destruct (N.ltb_spec USIZE_MAX (alen v + n)); [unfold USIZE_MAX in *; lia|].
  destruct (N.leb_spec (alen v + n) (acap v)) as [Hfit|Hgrow].
  - exists v. split; [reflexivity|]. split; [exact H|split; [reflexivity|exact Hfit]].
  - destruct (new_cap_bounds (alen v + n) (acap v) Hgrow) as [Hlo Hhi].
    set (nc := cav_new_cap (alen v + n) (acap v)) in *.
    assert (Hnb : nc * sz <= 2 ^ 62).
    { replace (2 ^ 62) with (4 * 2 ^ 60) by reflexivity. nia. }
    destruct (AW_reallocate sz v l nc Hsz H ltac:(lia) ltac:(lia) Hnb) as [v1 [E [HW [Hl [Hc _]]]]].
    exists v1. split; [exact E|]. split; [exact HW|split; [exact Hl|lia]].
Qed.

Lemma AW_write_end v l x :
  AW v l -> alen v < acap v ->
  exists v', cav_write_end A v x = Ok (v', (RUnit, [])) /\ AW v' (l ++ [x]) /\ acap v' = acap v.
Proof.
  intros H Hlt. pose proof (AW_len _ _ H) as Hl. unfold cav_write_end, cav_wr.
  destruct (N.ltb_spec (alen v) (acap v)); [|lia]. cbn [bind abuf alen acap].
  eexists. split; [reflexivity|]. split; [|reflexivity].
  constructor; cbn [alen acap abuf].
  - rewrite app_length. cbn [length]. lia.
  - lia.
  - intros i Hi. rewrite app_length in Hi. cbn [length] in Hi. unfold upd.
    destruct (N.eqb_spec (N.of_nat i) (alen v)) as [E|Hne].
    + assert (i = length l) by lia. subst i. rewrite nth_error_app2 by lia.
      replace (length l - length l)%nat with 0%nat by lia. reflexivity.
    + rewrite nth_error_app1 by lia. apply (AW_live _ _ H). lia.
  - intros j Hj. unfold upd. destruct (N.eqb_spec j (alen v)); [lia|]. apply (AW_dead _ _ H). lia.
Qed.

Lemma AW_push sz v l x :
  0 < sz -> AW v l -> (alen v + 1) * sz <= 2 ^ 60 ->
  exists v', cav_push A sz v x = Ok (v', (RUnit, [])) /\ AW v' (l ++ [x]).
Proof.
  intros Hsz H Hb. pose proof (AW_le _ _ H) as Hle. unfold cav_push.
  destruct (N.eqb_spec (alen v) (acap v)) as [Hfull|Hroom].
  - destruct (AW_reserve sz v l 1 Hsz H Hb) as [v1 [E [HW [Hl Hc]]]]. rewrite E. cbn [bind].
    destruct (AW_write_end v1 l x HW ltac:(lia)) as [v' [E' [HW' _]]].
    exists v'. split; [exact E'|exact HW'].
  - destruct (AW_write_end v l x H ltac:(lia)) as [v' [E' [HW' _]]].
    exists v'. split; [exact E'|exact HW'].
Qed.

Lemma AW_pop v l :
  AW v l -> exists v', cav_pop A v = Ok (v', (ROpt (last_error A l), [])) /\ AW v' (removelast l) /\ acap v' = acap v.
Proof.
  intros H. unfold cav_pop. pose proof (AW_len _ _ H) as Hl. pose proof (AW_le _ _ H).
  destruct (N.eqb_spec (alen v) 0) as [Hz|Hnz].
  - assert (l = []) by (destruct l; [reflexivity|cbn [length] in Hl; lia]). subst l.
    exists v. split; [reflexivity|split; [exact H|reflexivity]].
  - rewrite (last_error_nth A). unfold cav_rd. destruct (N.ltb_spec (alen v - 1) (acap v)); [|lia].
    pose proof (AW_live _ _ H (length l - 1)%nat ltac:(lia)) as Hv.
    replace (N.of_nat (length l - 1)) with (alen v - 1) in Hv by lia. rewrite Hv.
    destruct (nth_error l (length l - 1)) as [x|] eqn:E; [|apply nth_error_None in E; lia].
    eexists. split; [reflexivity|]. split; [|reflexivity].
    constructor; cbn [alen acap abuf].
    + rewrite (length_removelast A). lia.
    + lia.
    + intros i Hi. rewrite (length_removelast A) in Hi. rewrite (nth_error_removelast A) by exact Hi.
      unfold upd. destruct (N.eqb_spec (N.of_nat i) (alen v - 1)); [lia|]. apply (AW_live _ _ H). lia.
    + intros j Hj. unfold upd. destruct (N.eqb_spec j (alen v - 1)); [reflexivity|]. apply (AW_dead _ _ H). lia.
Qed.

Lemma AW_get v l i : AW v l -> cav_get A v i = Ok (nth_error l (N.to_nat i)).
Proof.
  intros H. pose proof (AW_len _ _ H) as Hl. pose proof (AW_le _ _ H). unfold cav_get, cav_rd.
  destruct (N.ltb_spec i (alen v)).
  - destruct (N.ltb_spec i (acap v)); [|lia].
    pose proof (AW_live _ _ H (N.to_nat i) ltac:(lia)) as Hv. rewrite N2Nat.id in Hv. rewrite Hv.
    destruct (nth_error l (N.to_nat i)) eqn:E; [reflexivity|]. apply nth_error_None in E. lia.
  - symmetry. f_equal. apply nth_error_None. lia.
Qed.

(* truncate destroys exactly the tail, in order, and leaves no initialised slot behind the new length *)
Lemma AW_truncate v l n :
  AW v l ->
  exists v', cav_truncate A v n = Ok (v', skipn (N.to_nat n) l) /\ AW v' (firstn (N.to_nat n) l) /\ acap v' = acap v.
Proof.
  intros H. pose proof (AW_len _ _ H) as Hl. pose proof (AW_le _ _ H). unfold cav_truncate.
  destruct (N.leb_spec (alen v) n) as [Hge|Hlt].
  - rewrite skipn_all2 by lia. rewrite firstn_all2 by lia. exists v. split; [reflexivity|split; [exact H|reflexivity]].
  - set (k := N.to_nat n) in *.
    assert (Hk : (k < length l)%nat) by (unfold k; lia).
    replace (N.to_nat (alen v - n)) with (length (skipn k l)) by (rewrite skipn_length; unfold k; lia).
    destruct (take_range_list A (skipn k l) (cav_rd A v) n) as [m' [E Hm']].
    { intros i Hi. rewrite skipn_length in Hi. unfold cav_rd.
      destruct (N.ltb_spec (n + N.of_nat i) (acap v)); [|lia].
      rewrite (nth_error_skipn A). replace (n + N.of_nat i) with (N.of_nat (k + i)) by (unfold k; lia).
      apply (AW_live _ _ H). lia. }
    rewrite E. cbn [bind fst snd]. eexists. split; [reflexivity|]. split; [|reflexivity].
    rewrite skipn_length in Hm'.
    constructor; cbn [alen acap abuf].
    + rewrite firstn_length. unfold k. lia.
    + lia.
    + intros i Hi. rewrite firstn_length in Hi. rewrite Hm'.
      destruct ((n <=? N.of_nat i) && (N.of_nat i <? n + N.of_nat (length l - k))) eqn:Eb; [unfold k in *; pos_lia|].
      unfold cav_rd. destruct (N.ltb_spec (N.of_nat i) (acap v)); [|lia].
      rewrite (nth_error_firstn_lt A) by lia. apply (AW_live _ _ H). lia.
    + intros j Hj. rewrite Hm'.
      destruct ((n <=? j) && (j <? n + N.of_nat (length l - k))) eqn:Eb; [reflexivity|].
      unfold cav_rd. destruct (j <? acap v); [|reflexivity]. apply (AW_dead _ _ H). unfold k in *. pos_lia.
Qed.

Lemma AW_clear v l :
  AW v l -> exists v', cav_clear A v = Ok (v', l) /\ AW v' [] /\ acap v' = acap v /\ forall j, abuf v' j = None.
Proof.
  intros H. pose proof (AW_len _ _ H) as Hl. pose proof (AW_le _ _ H). unfold cav_clear.
  replace (N.to_nat (alen v)) with (length l) by lia.
  destruct (take_range_list A l (cav_rd A v) 0) as [m' [E Hm']].
  { intros i Hi. unfold cav_rd. destruct (N.ltb_spec (0 + N.of_nat i) (acap v)); [|lia].
    rewrite <- (AW_live _ _ H i Hi). f_equal. }
  rewrite E. cbn [bind fst snd]. eexists. split; [reflexivity|].
  assert (Hall : forall j, m' j = None).
  { intros j. rewrite Hm'. destruct ((0 <=? j) && (j <? 0 + N.of_nat (length l))) eqn:Eb; [reflexivity|].
    unfold cav_rd. destruct (j <? acap v); [|reflexivity]. apply (AW_dead _ _ H). pos_lia. }
  split; [|split; [reflexivity|exact Hall]].
  constructor; cbn [alen acap abuf length]; try lia; try (intros i Hi; exfalso; lia).
  intros j _. apply Hall.
Qed.

(* ---------- histories ---------- *)
Lemma cav_step_refines sz v l o :
  0 < sz -> AW v l -> (alen v + aop_size A o) * sz <= 2 ^ 60 ->
  exists v', cav_step A sz v o = Ok (v', snd (avec_step A l o)) /\ AW v' (fst (avec_step A l o)) /\
             alen v' <= alen v + aop_size A o.
Proof.
  intros Hsz H Hb. pose proof (AW_len _ _ H) as Hl.
  destruct o as [x| |i| |n|n]; cbn [cav_step avec_step aop_size fst snd] in *.
  - destruct (AW_push sz v l x Hsz H Hb) as [v' [E HW]]. exists v'. split; [exact E|split; [exact HW|]].
    rewrite (AW_len _ _ HW), app_length. cbn [length]. lia.
  - destruct (AW_pop v l H) as [v' [E [HW _]]]. exists v'. split; [exact E|split; [exact HW|]].
    rewrite (AW_len _ _ HW), (length_removelast A). lia.
  - rewrite (AW_get v l i H). cbn [bind]. exists v. split; [reflexivity|split; [exact H|lia]].
  - destruct (AW_clear v l H) as [v' [E [HW _]]]. rewrite E. cbn [bind fst snd].
    exists v'. split; [reflexivity|split; [exact HW|]]. rewrite (AW_len _ _ HW). cbn [length]. lia.
  - destruct (AW_truncate v l n H) as [v' [E [HW _]]]. rewrite E. cbn [bind fst snd].
    exists v'. split; [reflexivity|split; [exact HW|]]. rewrite (AW_len _ _ HW), firstn_length. lia.
  - destruct (AW_reserve sz v l n Hsz H Hb) as [v1 [E [HW [Hlen _]]]]. rewrite E. cbn [bind].
    exists v1. split; [reflexivity|split; [exact HW|lia]].
Qed.

Lemma cav_run_refines sz ops : forall v l,
  0 < sz -> AW v l -> (alen v + ahist_size A ops) * sz <= 2 ^ 60 ->
  exists v', cav_run A sz v ops = Ok (v', snd (avec_run A l ops)) /\ AW v' (fst (avec_run A l ops)).
Proof.
  induction ops as [|o t IH]; intros v l Hsz H Hb.
  - exists v. split; [reflexivity|exact H].
  - cbn [ahist_size] in Hb. cbn [cav_run avec_run].
    destruct (cav_step_refines sz v l o Hsz H ltac:(nia)) as [v1 [E [HW Hlen]]]. rewrite E. cbn [bind fst snd].
    destruct (IH v1 (fst (avec_step A l o)) Hsz HW ltac:(nia)) as [v' [E' HW']]. rewrite E'. cbn [bind fst snd].
    exists v'. split; [reflexivity|exact HW'].
Qed.

(* ---------- BumpVec ---------- *)
Lemma bv_step_refines c v l o :
  AW v l -> acap v = c ->
  exists v', bv_step A v o = Ok (v', snd (bvec_step A c l o)) /\ AW v' (fst (bvec_step A c l o)) /\ acap v' = c.
Proof.
  intros H Hc. pose proof (AW_len _ _ H) as Hl. pose proof (AW_le _ _ H) as Hle.
  destruct o as [x| |i]; cbn [bv_step bvec_step].
  - unfold bv_push. rewrite nlen_length, <- Hl, <- Hc.
    destruct (N.leb_spec (acap v) (alen v)) as [Hfull|Hroom]; cbn [fst snd].
    + exists v. split; [reflexivity|split; [exact H|reflexivity]].
    + destruct (AW_write_end v l x H Hroom) as [v' [E [HW Hc']]]. exists v'. split; [exact E|split; [exact HW|exact Hc']].
  - destruct (AW_pop v l H) as [v' [E [HW Hc']]]. cbn [fst snd]. exists v'. split; [exact E|split; [exact HW|lia]].
  - rewrite (AW_get v l i H). cbn [bind fst snd]. exists v. split; [reflexivity|split; [exact H|exact Hc]].
Qed.

Lemma bv_run_refines c ops : forall v l,
  AW v l -> acap v = c ->
  exists v', bv_run A v ops = Ok (v', snd (bvec_run A c l ops)) /\ AW v' (fst (bvec_run A c l ops)) /\ acap v' = c.
Proof.
  induction ops as [|o t IH]; intros v l H Hc.
  - exists v. split; [reflexivity|split; [exact H|exact Hc]].
  - cbn [bv_run bvec_run].
    destruct (bv_step_refines c v l o H Hc) as [v1 [E [HW Hc1]]]. rewrite E. cbn [bind fst snd].
    destruct (IH v1 _ HW Hc1) as [v' [E' [HW' Hc']]]. rewrite E'. cbn [bind fst snd].
    exists v'. split; [reflexivity|split; [exact HW'|exact Hc']].
Qed.

(* a bounded Vec never holds more than its bound *)
Lemma bvec_run_bounded c ops : forall l,
  nlen l <= c -> nlen (fst (bvec_run A c l ops)) <= c.
Proof.
  induction ops as [|o t IH]; intros l Hl; [exact Hl|].
  cbn [bvec_run fst]. apply IH.
  destruct o as [x| |i]; cbn [bvec_step].
  - destruct (N.leb_spec c (nlen l)); cbn [fst]; [exact Hl|]. rewrite nlen_app. change (nlen [x]) with 1. lia.
  - cbn [fst]. rewrite !nlen_length in *. rewrite (length_removelast A). lia.
  - exact Hl.
Qed.

(* ---------- every element is handed back or destroyed exactly once ---------- *)
Lemma avec_balance ops : forall l,
  Permutation (l ++ ahistory_in A ops)
              (ahistory_out A ops (snd (avec_run A l ops)) ++ fst (avec_run A l ops)).
Proof.
  induction ops as [|o t IH]; intros l.
  - cbn [ahistory_in ahistory_out avec_run fst snd]. rewrite app_nil_r. apply Permutation_refl.
  - cbn [avec_run fst snd ahistory_in ahistory_out].
    destruct o as [x| |i| |n|n]; cbn [avec_step aop_in aobs_out fst snd]; unfold obs_out; cbn [ret_out fst snd app].
    + specialize (IH (l ++ [x])). rewrite <- app_assoc in IH. exact IH.
    + rewrite app_nil_r.
      destruct (last_error A l) as [x|] eqn:E; cbn [ret_out app].
      * rewrite (ProofsValVec32.last_removelast A l x E) at 1. rewrite <- app_assoc. cbn [app].
        eapply Permutation_trans; [apply Permutation_sym, Permutation_middle|]. apply perm_skip. apply IH.
      * apply (ProofsValVec32.last_error_none A) in E. subst l. apply (IH []).
    + apply IH.
    + rewrite <- app_assoc. apply Permutation_app_head. apply (IH []).
    + rewrite <- (firstn_skipn (N.to_nat n) l) at 1. rewrite <- !app_assoc.
      eapply Permutation_trans; [apply Permutation_app_swap_app|]. apply Permutation_app_head. apply IH.
    + apply IH.
Qed.

Lemma bvec_balance c ops : forall l,
  Permutation (l ++ bhistory_in A ops)
              (bhistory_out A ops (snd (bvec_run A c l ops)) ++ fst (bvec_run A c l ops)).
Proof.
  induction ops as [|o t IH]; intros l.
  - cbn [bhistory_in bhistory_out bvec_run fst snd]. rewrite app_nil_r. apply Permutation_refl.
  - cbn [bvec_run fst snd bhistory_in bhistory_out].
    destruct o as [x| |i]; cbn [bvec_step bop_in bobs_out].
    + destruct (c <=? nlen l); cbn [fst snd]; unfold obs_out; cbn [ret_out fst snd app].
      * eapply Permutation_trans; [apply Permutation_sym, Permutation_middle|]. apply perm_skip. apply IH.
      * specialize (IH (l ++ [x])). rewrite <- app_assoc in IH. exact IH.
    + cbn [fst snd]. unfold obs_out. cbn [fst snd]. rewrite app_nil_r.
      destruct (last_error A l) as [x|] eqn:E; cbn [ret_out app].
      * rewrite (ProofsValVec32.last_removelast A l x E) at 1. rewrite <- app_assoc. cbn [app].
        eapply Permutation_trans; [apply Permutation_sym, Permutation_middle|]. apply perm_skip. apply IH.
      * apply (ProofsValVec32.last_error_none A) in E. subst l. apply (IH []).
    + cbn [fst snd app]. apply IH.
Qed.

End CAV.

(* ---------- the statements of Properties.v ---------- *)
Lemma cachevec_refines_list_proof (A : Type) sz c (ops : list (aop A)) :
  0 < sz -> (c + ahist_size A ops) * sz <= 2 ^ 60 ->
  exists v0 v', cav_with_capacity A sz c = Ok (Some v0) /\ c <= acap v0 /\
                cav_run A sz v0 ops = Ok (v', snd (avec_run A [] ops)) /\ AW A v' (fst (avec_run A [] ops)).
Proof.
  intros Hsz Hb. unfold cav_with_capacity.
  destruct (AW_reserve A sz cav_new [] c Hsz (AW_new A)) as [v0 [E [HW [Hl Hc]]]].
  { cbn [cav_new alen]. nia. }
  cbn [cav_new alen] in Hl, Hc.
  destruct (cav_run_refines A sz ops v0 [] Hsz HW) as [v' [E' HW']]; [rewrite Hl; nia|].
  exists v0, v'. split; [exact E|split; [lia|split; [exact E'|exact HW']]].
Qed.

Lemma bumpvec_refines_bounded_vec_proof (A : Type) c (ops : list (bop A)) :
  0 < c ->
  exists v0 v', bv_new_in A c = Some v0 /\ bv_run A v0 ops = Ok (v', snd (bvec_run A c [] ops)) /\
                AW A v' (fst (bvec_run A c [] ops)) /\ acap v' = c /\ nlen (fst (bvec_run A c [] ops)) <= c.
Proof.
  intros Hc. unfold bv_new_in. destruct (N.eqb_spec c 0); [lia|].
  eexists. 
  destruct (bv_run_refines A c ops {| abuf := empty_mem; alen := 0; acap := c |} []) as [v' [E [HW Hc']]].
  { constructor; cbn [alen acap abuf length]; try lia; try reflexivity. }
  { reflexivity. }
  exists v'. split; [reflexivity|]. split; [exact E|split; [exact HW|split; [exact Hc'|]]].
  apply bvec_run_bounded. cbn. lia.
Qed.

Lemma cachevec_exactly_once_proof (A : Type) sz c (ops : list (aop A)) :
  0 < sz -> (c + ahist_size A ops) * sz <= 2 ^ 60 ->
  exists v0 v' outs v'' d,
    cav_with_capacity A sz c = Ok (Some v0) /\ cav_run A sz v0 ops = Ok (v', outs) /\
    cav_drop A v' = Ok (v'', d) /\
    Permutation (ahistory_in A ops) (ahistory_out A ops outs ++ d) /\
    (forall j, abuf v'' j = None).
Proof.
  intros Hsz Hb.
  destruct (cachevec_refines_list_proof A sz c ops Hsz Hb) as [v0 [v' [E0 [_ [E HW]]]]].
  destruct (AW_clear A v' _ HW) as [v'' [E2 [_ [_ Hnone]]]].
  exists v0, v', (snd (avec_run A [] ops)), v'', (fst (avec_run A [] ops)).
  split; [exact E0|]. split; [exact E|]. split; [exact E2|]. split; [|exact Hnone].
  apply (avec_balance A ops []).
Qed.

Lemma bumpvec_exactly_once_proof (A : Type) c (ops : list (bop A)) :
  0 < c ->
  exists v0 v' outs v'' d,
    bv_new_in A c = Some v0 /\ bv_run A v0 ops = Ok (v', outs) /\
    bv_drop A v' = Ok (v'', d) /\
    Permutation (bhistory_in A ops) (bhistory_out A ops outs ++ d) /\
    (forall j, abuf v'' j = None).
Proof.
  intros Hc.
  destruct (bumpvec_refines_bounded_vec_proof A c ops Hc) as [v0 [v' [E0 [E [HW _]]]]].
  destruct (AW_clear A v' _ HW) as [v'' [E2 [_ [_ Hnone]]]].
  exists v0, v', (snd (bvec_run A c [] ops)), v'', (fst (bvec_run A c [] ops)).
  split; [exact E0|]. split; [exact E|]. split; [exact E2|]. split; [|exact Hnone].
  apply (bvec_balance A c ops []).
Qed.

(* the hypotheses of the history theorems are satisfiable by non-trivial histories: 4-byte elements grow
   0 -> 16 -> 32 -> 112 (whole cache lines), 24-byte elements get 5 slots for a request of 4 (128 bytes) and 8 for 6,
   truncate in the middle, a refused push and a pop on a full BumpVec *)
Example cachevec_history_example :
  let ops := [APush 1; APush 2; APush 3; APop; AGet 1; AGet 2; AReserve 15; APush 4; ATruncate 1; ATruncate 7;
              AReserve 100; APush 5; AClear; APop] in
  (0 + ahist_size N ops) * 4 <= 2 ^ 60 /\
  match cav_with_capacity N 4 0 with
  | Ok (Some v0) =>
    match cav_run N 4 v0 ops with
    | Ok (v, outs) => outs = snd (avec_run N [] ops) /\ alen v = 0 /\ acap v = 112
    | UB => False
    end
  | _ => False
  end /\
  cav_aligned_capacity 24 4 = Some 5 /\ cav_aligned_capacity 24 6 = Some 8 /\ cav_aligned_capacity 1 4 = Some 64 /\
  cav_aligned_capacity 8 2305843009213693952 = None.
Proof. vm_compute. repeat split; try discriminate. Qed.

Example bumpvec_history_example :
  let ops := [BPush 1; BPush 2; BPush 3; BGet 1; BGet 2; BPop; BPush 4; BPop; BPop; BPop] in
  match bv_new_in N 2 with
  | Some v0 =>
    match bv_run N v0 ops with
    | Ok (v, outs) => outs = snd (bvec_run N 2 [] ops) /\ alen v = 0 /\ acap v = 2 /\
                      nth_error outs 2 = Some (RErr, [3])
    | UB => False
    end
  | None => False
  end /\ bv_new_in N 0 = None.
Proof. vm_compute. repeat split. Qed.
