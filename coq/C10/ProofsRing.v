(* AutoGrowCircularQueue refines a deque: simulation between the ring model and list operations. *)
From ZV.Common Require Import Base.
From ZV.C10 Require Import Model Spec ProofsPow2.
Open Scope N_scope.


Ltac splits_ltb :=
  repeat match goal with
  | |- context [?a <? ?b] => destruct (N.ltb_spec a b)
  | H : context [?a <? ?b] |- _ => destruct (N.ltb_spec a b)
  | |- context [?a <=? ?b] => destruct (N.leb_spec a b)
  | H : context [?a <=? ?b] |- _ => destruct (N.leb_spec a b)
  | |- context [?a =? ?b] => destruct (N.eqb_spec a b)
  | H : context [?a =? ?b] |- _ => destruct (N.eqb_spec a b)
  end.
Ltac pos_lia := unfold pos in *; splits_ltb; cbn [andb orb] in *; try lia; try congruence.

Lemma land_wrap c k x :
  c = 2 ^ k -> x < 2 * c -> N.land x (c - 1) = if x <? c then x else x - c.
Proof.
  intros -> Hx. pose proof (pow2_pos k).
  replace (2 ^ k - 1) with (N.ones k) by (rewrite N.ones_equiv; lia).
  rewrite N.land_ones.
  destruct (N.ltb_spec x (2 ^ k)).
  - apply N.mod_small. assumption.
  - replace x with ((x - 2 ^ k) + 1 * 2 ^ k) at 1 by lia.
    rewrite N.mod_add by lia. apply N.mod_small. lia.
Qed.

(* ---------- list helpers ---------- *)
Section Lists.
Variable A : Type.
Local Notation R := (Spec.R A).
Local Notation R_pow := (Spec.R_pow A).
Local Notation R_mask := (Spec.R_mask A).
Local Notation R_head := (Spec.R_head A).
Local Notation R_len := (Spec.R_len A).
Local Notation R_le := (Spec.R_le A).
Local Notation R_tail := (Spec.R_tail A).
Local Notation R_live := (Spec.R_live A).
Local Notation R_dead := (Spec.R_dead A).

Lemma nth_error_app_l (l r : list A) i : (i < length l)%nat -> nth_error (l ++ r) i = nth_error l i.
Proof. intros. apply nth_error_app1. assumption. Qed.

Lemma nth_error_app_r (l r : list A) i : (length l <= i)%nat -> nth_error (l ++ r) i = nth_error r (i - length l).
Proof. intros. apply nth_error_app2. assumption. Qed.

Lemma nth_error_skipn (l : list A) k i : nth_error (skipn k l) i = nth_error l (k + i).
Proof.
  revert l. induction k as [|k IH]; intros l; [reflexivity|].
  destruct l as [|x l]; cbn [skipn Nat.add nth_error].
  - destruct i; reflexivity.
  - apply IH.
Qed.

Lemma nth_error_firstn_lt (l : list A) k i : (i < k)%nat -> nth_error (firstn k l) i = nth_error l i.
Proof.
  revert l i. induction k as [|k IH]; intros l i Hi; [lia|].
  destruct l as [|x l]; cbn [firstn].
  - reflexivity.
  - destruct i; cbn [nth_error]; [reflexivity|]. apply IH. lia.
Qed.

Lemma firstn_add (l : list A) a b : firstn (a + b) l = firstn a l ++ firstn b (skipn a l).
Proof.
  revert l. induction a as [|a IH]; intros l; [reflexivity|].
  destruct l as [|x l]; cbn [Nat.add firstn skipn app].
  - rewrite firstn_nil. reflexivity.
  - f_equal. apply IH.
Qed.

Lemma last_error_nth (l : list A) : last_error A l = nth_error l (length l - 1).
Proof.
  induction l as [|x l IH]; [reflexivity|].
  cbn [last_error length]. destruct l as [|y l]; [reflexivity|].
  rewrite IH. cbn [length]. replace (S (S (length l)) - 1)%nat with (S (length l - 0))%nat by lia.
  cbn [nth_error]. replace (S (length l) - 1)%nat with (length l - 0)%nat by lia. reflexivity.
Qed.

Lemma hd_error_nth (l : list A) : hd_error l = nth_error l 0.
Proof. destruct l; reflexivity. Qed.

(* ---------- range readers ---------- *)
Lemma take_range_list (xs : list A) : forall (m : mem A) s,
  (forall i, (i < length xs)%nat -> m (s + N.of_nat i) = nth_error xs i) ->
  exists m', take_range A m s (length xs) = Ok (m', xs) /\
             forall j, m' j = if (s <=? j) && (j <? s + N.of_nat (length xs)) then None else m j.
Proof.
  induction xs as [|x xs IH]; intros m s H.
  - exists m. split; [reflexivity|]. intros j. cbn [length]. pos_lia.
  - cbn [length take_range].
    pose proof (H 0%nat ltac:(cbn [length]; lia)) as H0. cbn [nth_error] in H0.
    replace (s + N.of_nat 0) with s in H0 by lia. rewrite H0.
    destruct (IH (upd m s None) (s + 1)) as [m' [E Hm']].
    { intros i Hi. unfold upd. destruct (N.eqb_spec (s + 1 + N.of_nat i) s); [lia|].
      replace (s + 1 + N.of_nat i) with (s + N.of_nat (S i)) by lia.
      rewrite H by (cbn [length]; lia). reflexivity. }
    rewrite E. cbn [bind fst snd]. exists m'. split; [reflexivity|].
    intros j. rewrite Hm'. unfold upd. pos_lia.
Qed.

Lemma peek_range_list (xs : list A) : forall (m : mem A) s,
  (forall i, (i < length xs)%nat -> m (s + N.of_nat i) = nth_error xs i) ->
  peek_range A m s (length xs) = Ok xs.
Proof.
  induction xs as [|x xs IH]; intros m s H; [reflexivity|].
  cbn [length peek_range].
  pose proof (H 0%nat ltac:(cbn [length]; lia)) as H0. cbn [nth_error] in H0.
  replace (s + N.of_nat 0) with s in H0 by lia. rewrite H0.
  rewrite IH; [reflexivity|].
  intros i Hi. replace (s + 1 + N.of_nat i) with (s + N.of_nat (S i)) by lia.
  rewrite H by (cbn [length]; lia). reflexivity.
Qed.

Lemma peek_range_n (xs : list A) n (m : mem A) s :
  n = length xs ->
  (forall i, (i < length xs)%nat -> m (s + N.of_nat i) = nth_error xs i) ->
  peek_range A m s n = Ok xs.
Proof. intros ->. apply peek_range_list. Qed.

Lemma R_cap_pos q l : R q l -> 0 < cap q.
Proof. intros [[k [E _]] _ _ _ _ _ _ _]. rewrite E. apply pow2_pos. Qed.

Lemma R_cap_bound q l : R q l -> cap q <= 2 ^ 62.
Proof. intros [[k [E Hk]] _ _ _ _ _ _ _]. rewrite E. apply N.pow_le_mono_r; lia. Qed.

Lemma R_wrap q l x : R q l -> x < 2 * cap q -> N.land x (mask q) = if x <? cap q then x else x - cap q.
Proof. intros H Hx. destruct (R_pow _ _ H) as [k [E _]]. rewrite (R_mask _ _ H). eapply land_wrap; eauto. Qed.

Lemma R_with_capacity c : c <= 2 ^ 62 -> R (with_capacity c) [].
Proof.
  intros Hc. unfold with_capacity.
  assert (Hk : exists k, (if c =? 0 then INITIAL_CAPACITY else ensure_pow2 c) = 2 ^ k /\ k <= 62).
  { destruct (N.eqb_spec c 0).
    - exists 2. split; [reflexivity|lia].
    - destruct (ensure_pow2_ok c 62) as [k [E [_ Hk]]]; try lia. exists k. split; assumption. }
  destruct Hk as [k [E Hk]]. rewrite E. pose proof (pow2_pos k).
  constructor; cbn [cap mask head tail len buf length].
  - exists k. split; [reflexivity|assumption].
  - lia.
  - lia.
  - lia.
  - lia.
  - pos_lia.
  - intros i Hi. exfalso. lia.
  - reflexivity.
Qed.

(* ---------- write_tail ---------- *)
Lemma R_write_tail q l x : R q l -> len q < cap q -> R (write_tail A q x) (l ++ [x]).
Proof.
  intros H Hlt. pose proof (R_head _ _ H) as Hh. pose proof (R_len _ _ H) as Hl.
  pose proof (R_tail _ _ H) as Ht.
  constructor; cbn [write_tail cap mask head tail len buf].
  - exact (R_pow _ _ H).
  - exact (R_mask _ _ H).
  - exact Hh.
  - rewrite app_length. cbn [length]. lia.
  - lia.
  - rewrite (R_wrap _ _ _ H) by (rewrite Ht; pos_lia). rewrite Ht. pos_lia.
  - intros i Hi. rewrite app_length in Hi. cbn [length] in Hi. unfold upd.
    destruct (N.eqb_spec (pos (head q) (cap q) (N.of_nat i)) (tail q)) as [E|NE].
    + assert (i = length l) by (rewrite Ht in E; pos_lia). subst i.
      rewrite nth_error_app_r by lia. replace (length l - length l)%nat with 0%nat by lia. reflexivity.
    + assert (i <> length l) by (intros ->; apply NE; rewrite Ht, Hl; reflexivity).
      rewrite nth_error_app_l by lia. apply (R_live _ _ H). lia.
  - intros j Hj. unfold upd.
    destruct (N.eqb_spec j (tail q)) as [E|NE].
    + exfalso. apply (Hj (len q)); [lia|]. rewrite E, Ht. reflexivity.
    + apply (R_dead _ _ H). intros i Hi. apply Hj. lia.
Qed.

Lemma R_fold_write_tail xs : forall q l,
  R q l -> len q + N.of_nat (length xs) <= cap q -> R (fold_left (write_tail A) xs q) (l ++ xs).
Proof.
  induction xs as [|x xs IH]; intros q l H Hb; cbn [fold_left].
  - rewrite app_nil_r. exact H.
  - cbn [length] in Hb. replace (l ++ x :: xs) with ((l ++ [x]) ++ xs) by (rewrite <- app_assoc; reflexivity).
    apply IH.
    + apply R_write_tail; [exact H|lia].
    + cbn [write_tail len cap]. lia.
Qed.

(* ---------- grow_to ---------- *)
Lemma R_grow_to q l nc :
  R q l -> nc <= 2 ^ 62 ->
  R (grow_to A q nc) l /\ nc <= cap (grow_to A q nc) /\ cap q <= cap (grow_to A q nc).
Proof.
  intros H Hnc. unfold grow_to.
  destruct (N.leb_spec nc (cap q)) as [Hle|Hgt]; [split; [exact H|lia]|].
  pose proof (R_cap_pos _ _ H) as Hcp.
  destruct (ensure_pow2_ok nc 62) as [k [E [Hk1 Hk2]]]; try lia.
  rewrite E. pose proof (R_head _ _ H) as Hh. pose proof (R_len _ _ H) as Hl.
  pose proof (R_tail _ _ H) as Ht. pose proof (R_le _ _ H) as Hle.
  destruct (N.eqb_spec (len q) 0) as [Hz|Hnz].
  - split; [|cbn [cap]; lia].
    assert (l = []) by (destruct l; [reflexivity|cbn [length] in Hl; lia]). subst l.
    constructor; cbn [cap mask head tail len buf length].
    + exists k. split; [reflexivity|assumption].
    + lia.
    + lia.
    + lia.
    + lia.
    + rewrite Ht, Hz. pos_lia.
    + intros i Hi. exfalso. lia.
    + reflexivity.
  - destruct (N.ltb_spec (head q) (tail q)) as [Hc|Hw].
    + (* contiguous: in-place realloc *)
      assert (Hfit : head q + len q < cap q) by (rewrite Ht in Hc; pos_lia).
      split; [|cbn [cap]; lia].
      constructor; cbn [cap mask head tail len buf].
      * exists k. split; [reflexivity|assumption].
      * lia.
      * lia.
      * lia.
      * lia.
      * rewrite Ht. pos_lia.
      * intros i Hi. pose proof (R_live _ _ H i Hi) as Hv.
        replace (pos (head q) (2 ^ k) (N.of_nat i)) with (pos (head q) (cap q) (N.of_nat i)) by pos_lia.
        destruct (N.ltb_spec (pos (head q) (cap q) (N.of_nat i)) (cap q)); [exact Hv|pos_lia].
      * intros j Hj. destruct (N.ltb_spec j (cap q)); [|reflexivity].
        apply (R_dead _ _ H). intros i Hi. specialize (Hj i Hi). pos_lia.
    + (* wrapped or full: linearise *)
      assert (Hwrap : cap q <= head q + len q) by (rewrite Ht in Hw; pos_lia).
      assert (Htl : tail q = head q + len q - cap q) by (rewrite Ht; pos_lia).
      split; [|cbn [cap]; lia].
      constructor; cbn [cap mask head tail len buf].
      * exists k. split; [reflexivity|assumption].
      * lia.
      * lia.
      * lia.
      * lia.
      * pos_lia.
      * intros i Hi. pose proof (R_live _ _ H i Hi) as Hv.
        replace (pos 0 (2 ^ k) (N.of_nat i)) with (N.of_nat i) by pos_lia.
        unfold linearise. destruct (N.ltb_spec (head q) (tail q)); [lia|].
        unfold copy_range, empty_mem. rewrite <- Hv. rewrite Htl. pos_lia; f_equal; lia.
      * intros j Hj. unfold linearise. destruct (N.ltb_spec (head q) (tail q)); [lia|].
        unfold copy_range, empty_mem. rewrite Htl.
        assert (len q <= j).
        { destruct (N.le_gt_cases (len q) j); [assumption|]. exfalso. apply (Hj j); pos_lia. }
        pos_lia.
Qed.

Lemma R_reserve q l n :
  R q l -> len q + n <= 2 ^ 61 ->
  R (reserve A q n) l /\ len q + n <= cap (reserve A q n).
Proof.
  intros H Hb. unfold reserve.
  destruct (N.leb_spec (len q + n) (cap q)) as [Hle|Hgt]; [split; assumption|].
  pose proof (R_cap_pos _ _ H).
  destruct (ensure_pow2_ok (len q + n) 61) as [k [E [Hk1 Hk2]]]; try lia.
  assert (2 ^ k <= 2 ^ 62) by (apply N.pow_le_mono_r; lia).
  destruct (R_grow_to q l (ensure_pow2 (len q + n)) H) as [HR [Hc _]]; [rewrite E; lia|].
  split; [exact HR|]. rewrite <- E in Hk1. lia.
Qed.

(* ---------- the operations ---------- *)
Lemma R_push_back q l x : R q l -> len q + 1 <= 2 ^ 61 -> R (push_back A q x) (l ++ [x]).
Proof.
  intros H Hb. unfold push_back. pose proof (R_cap_pos _ _ H).
  destruct (N.ltb_spec (len q) (cap q - 1)) as [Hf|Hs].
  - apply R_write_tail; [exact H|lia].
  - assert (Hc : cap q <= 2 ^ 61) by lia.
    rewrite N.shiftl_mul_pow2. change (2 ^ 1) with 2.
    destruct (R_grow_to q l (N.max (cap q * 2) INITIAL_CAPACITY) H) as [HR [Hc1 Hc2]].
    { unfold INITIAL_CAPACITY. change (2 ^ 62) with (2 * 2 ^ 61). lia. }
    apply R_write_tail; [exact HR|].
    replace (len (grow_to A q (N.max (cap q * 2) INITIAL_CAPACITY))) with (len q).
    + pose proof (R_le _ _ H). unfold INITIAL_CAPACITY in *. lia.
    + unfold grow_to. repeat match goal with |- context [if ?b then _ else _] => destruct b end; reflexivity.
Qed.

Lemma R_pop_front q l :
  R q l ->
  exists q', pop_front A q = Ok (q', hd_error l) /\ R q' (tl l).
Proof.
  intros H. unfold pop_front. pose proof (R_head _ _ H) as Hh. pose proof (R_len _ _ H) as Hl.
  pose proof (R_tail _ _ H) as Ht. pose proof (R_le _ _ H) as Hle.
  destruct l as [|x l].
  - cbn [length] in Hl. rewrite Hl. cbn [N.of_nat]. exists q. split; [reflexivity|exact H].
  - cbn [length] in Hl. destruct (N.eqb_spec (len q) 0) as [Hz|_]; [lia|].
    pose proof (R_live _ _ H 0%nat ltac:(cbn [length]; lia)) as H0. cbn [nth_error] in H0.
    replace (pos (head q) (cap q) (N.of_nat 0)) with (head q) in H0 by pos_lia.
    rewrite H0. eexists. split; [reflexivity|]. cbn [tl].
    assert (Hw : N.land (head q + 1) (mask q) = if head q + 1 <? cap q then head q + 1 else head q + 1 - cap q)
      by (apply (R_wrap _ _ _ H); lia).
    constructor; cbn [cap mask head tail len buf]; rewrite ?Hw.
    + exact (R_pow _ _ H).
    + exact (R_mask _ _ H).
    + pos_lia.
    + lia.
    + lia.
    + rewrite Ht. pos_lia.
    + intros i Hi. pose proof (R_live _ _ H (S i) ltac:(cbn [length]; lia)) as Hv. cbn [nth_error] in Hv.
      rewrite <- Hv. unfold upd.
      replace (pos (if head q + 1 <? cap q then head q + 1 else head q + 1 - cap q) (cap q) (N.of_nat i))
        with (pos (head q) (cap q) (N.of_nat (S i))) by pos_lia.
      destruct (N.eqb_spec (pos (head q) (cap q) (N.of_nat (S i))) (head q)); [pos_lia|reflexivity].
    + intros j Hj. unfold upd. destruct (N.eqb_spec j (head q)); [reflexivity|].
      apply (R_dead _ _ H). intros i Hi.
      destruct (N.eq_dec i 0) as [->|Hi0]; [pos_lia|].
      specialize (Hj (i - 1) ltac:(lia)). pos_lia.
Qed.

Lemma R_front q l : R q l -> front A q = Ok (hd_error l).
Proof.
  intros H. unfold front. pose proof (R_len _ _ H) as Hl. pose proof (R_head _ _ H).
  destruct l as [|x l].
  - cbn [length] in Hl. rewrite Hl. reflexivity.
  - cbn [length] in Hl. destruct (N.eqb_spec (len q) 0); [lia|].
    pose proof (R_live _ _ H 0%nat ltac:(cbn [length]; lia)) as Hv0. cbn [nth_error] in Hv0.
    replace (pos (head q) (cap q) (N.of_nat 0)) with (head q) in Hv0 by pos_lia.
    rewrite Hv0. reflexivity.
Qed.

Lemma R_back q l : R q l -> back A q = Ok (last_error A l).
Proof.
  intros H. unfold back. pose proof (R_len _ _ H) as Hl. pose proof (R_head _ _ H).
  pose proof (R_tail _ _ H) as Ht. pose proof (R_le _ _ H). pose proof (R_cap_pos _ _ H).
  destruct (N.eqb_spec (len q) 0) as [Hz|Hnz].
  - destruct l; [reflexivity|cbn [length] in Hl; lia].
  - rewrite (R_wrap _ _ _ H) by (rewrite Ht; pos_lia).
    rewrite last_error_nth.
    pose proof (R_live _ _ H (length l - 1)%nat ltac:(lia)) as Hv.
    replace (if tail q + cap q - 1 <? cap q then tail q + cap q - 1 else tail q + cap q - 1 - cap q)
      with (pos (head q) (cap q) (N.of_nat (length l - 1))) by (rewrite Ht; pos_lia).
    rewrite Hv. destruct (nth_error l (length l - 1)) eqn:E; [reflexivity|].
    apply nth_error_None in E. lia.
Qed.

(* clear(): every element is dropped once, in queue order, and no initialised slot remains *)
Lemma R_clear q l :
  R q l ->
  exists q', clear A q = Ok (q', l) /\ R q' [] /\ cap q' = cap q /\ forall j, buf q' j = None.
Proof.
  intros H. unfold clear, clear_with, contiguous.
  pose proof (R_head _ _ H) as Hh. pose proof (R_len _ _ H) as Hl.
  pose proof (R_tail _ _ H) as Ht. pose proof (R_le _ _ H) as Hle. pose proof (R_cap_pos _ _ H).
  destruct (N.eqb_spec (len q) 0) as [Hz|Hnz].
  - assert (l = []) by (destruct l; [reflexivity|cbn [length] in Hl; lia]). subst l.
    exists q. split; [reflexivity|]. split; [exact H|]. split; [reflexivity|].
    intros j. apply (R_dead _ _ H). intros i Hi. exfalso. lia.
  - destruct (N.ltb_spec (head q) (tail q)) as [Hc|Hw].
    + assert (Hfit : head q + len q < cap q) by (rewrite Ht in Hc; pos_lia).
      assert (Hn : N.to_nat (tail q - head q) = length l) by (rewrite Ht; pos_lia).
      rewrite Hn.
      destruct (take_range_list l (buf q) (head q)) as [m' [E Hm']].
      { intros i Hi. rewrite <- (R_live _ _ H i Hi). f_equal. pos_lia. }
      rewrite E. cbn [bind fst snd]. eexists. split; [reflexivity|].
      assert (Hall : forall j, m' j = None).
      { intros j. rewrite Hm'.
        destruct ((head q <=? j) && (j <? head q + N.of_nat (length l))) eqn:Eb; [reflexivity|].
        apply (R_dead _ _ H). intros i Hi. pos_lia. }
      split; [|split; [reflexivity|exact Hall]].
      constructor; cbn [reset cap mask head tail len buf length].
      * exact (R_pow _ _ H).
      * exact (R_mask _ _ H).
      * lia.
      * lia.
      * lia.
      * pos_lia.
      * intros i Hi. exfalso. lia.
      * intros j _. apply Hall.
    + assert (Hwrap : cap q <= head q + len q) by (rewrite Ht in Hw; pos_lia).
      assert (Htl : tail q = head q + len q - cap q) by (rewrite Ht; pos_lia).
      set (a := N.to_nat (cap q - head q)).
      assert (Ha : (a <= length l)%nat) by (unfold a; lia).
      assert (Hl1 : length (firstn a l) = a) by (rewrite firstn_length; lia).
      assert (Hl2 : length (skipn a l) = N.to_nat (tail q)) by (rewrite skipn_length; unfold a; lia).
      destruct (take_range_list (firstn a l) (buf q) (head q)) as [m1 [E1 Hm1]].
      { intros i Hi. rewrite Hl1 in Hi. rewrite nth_error_firstn_lt by exact Hi.
        rewrite <- (R_live _ _ H i ltac:(lia)). f_equal. unfold a in Hi. pos_lia. }
      rewrite Hl1 in E1. rewrite E1. cbn [bind fst snd].
      destruct (take_range_list (skipn a l) m1 0) as [m2 [E2 Hm2]].
      { intros i Hi. rewrite Hl2 in Hi. rewrite nth_error_skipn. rewrite Hm1, Hl1.
        rewrite <- (R_live _ _ H (a + i)%nat ltac:(lia)).
        replace (pos (head q) (cap q) (N.of_nat (a + i))) with (0 + N.of_nat i) by (unfold a; pos_lia).
        unfold a. pos_lia. }
      rewrite Hl2 in E2. rewrite E2. cbn [bind fst snd]. rewrite firstn_skipn.
      eexists. split; [reflexivity|].
      assert (Hall : forall j, m2 j = None).
      { intros j. rewrite Hm2, Hl2.
        destruct ((0 <=? j) && (j <? 0 + N.of_nat (N.to_nat (tail q)))) eqn:Eb; [reflexivity|].
        rewrite Hm1, Hl1.
        destruct ((head q <=? j) && (j <? head q + N.of_nat a)) eqn:Eb2; [reflexivity|].
        apply (R_dead _ _ H). intros i Hi. unfold a in Eb2. pos_lia. }
      split; [|split; [reflexivity|exact Hall]].
      constructor; cbn [reset cap mask head tail len buf length].
      * exact (R_pow _ _ H).
      * exact (R_mask _ _ H).
      * lia.
      * lia.
      * lia.
      * pos_lia.
      * intros i Hi. exfalso. lia.
      * intros j _. apply Hall.
Qed.

Lemma R_push_bulk q l xs :
  R q l -> len q + N.of_nat (length xs) <= 2 ^ 61 -> R (push_bulk A q xs) (l ++ xs).
Proof.
  intros H Hb. unfold push_bulk. destruct xs as [|x xs]; [rewrite app_nil_r; exact H|].
  rewrite nlen_length.
  destruct (R_reserve q l (N.of_nat (length (x :: xs))) H Hb) as [HR Hc].
  apply R_fold_write_tail; [exact HR|].
  replace (len (reserve A q (N.of_nat (length (x :: xs))))) with (len q); [exact Hc|].
  unfold reserve, grow_to.
  repeat match goal with |- context [if ?b then _ else _] => destruct b end; reflexivity.
Qed.

Lemma R_pop_bulk q l n :
  R q l ->
  let k := N.to_nat (N.min n (N.of_nat (length l))) in
  exists q', pop_bulk A q n = Ok (q', firstn k l) /\ R q' (skipn k l).
Proof.
  intros H k. unfold pop_bulk.
  pose proof (R_head _ _ H) as Hh. pose proof (R_len _ _ H) as Hl.
  pose proof (R_tail _ _ H) as Ht. pose proof (R_le _ _ H) as Hle. pose proof (R_cap_pos _ _ H).
  rewrite Hl. fold k.
  assert (Hk : N.min n (N.of_nat (length l)) = N.of_nat k) by (unfold k; lia).
  rewrite Hk.
  destruct (N.eqb_spec (N.of_nat k) 0) as [Hz|Hnz].
  - replace k with 0%nat by lia. exists q. split; [reflexivity|exact H].
  - assert (Hkl : (k <= length l)%nat) by (unfold k; lia).
    assert (Hlk : length (firstn k l) = k) by (rewrite firstn_length; lia).
    (* both layouts read firstn k l and clear exactly the slots pos 0 .. pos (k-1) *)
    assert (Hread : exists m',
      (if (head q <? tail q) || (head q + N.of_nat k <=? cap q)
       then take_range A (buf q) (head q) k
       else bind (take_range A (buf q) (head q) (N.to_nat (cap q - head q))) (fun r1 =>
            bind (take_range A (fst r1) 0 (N.to_nat (N.of_nat k - (cap q - head q)))) (fun r2 =>
            Ok (fst r2, snd r1 ++ snd r2)))) = Ok (m', firstn k l) /\
      (forall i, i < N.of_nat k -> m' (pos (head q) (cap q) i) = None) /\
      (forall j, (forall i, i < N.of_nat k -> pos (head q) (cap q) i <> j) -> m' j = buf q j)).
    { destruct ((head q <? tail q) || (head q + N.of_nat k <=? cap q)) eqn:Eb.
      - assert (Hfit : head q + N.of_nat k <= cap q) by (rewrite Ht in Eb; pos_lia).
        destruct (take_range_list (firstn k l) (buf q) (head q)) as [m' [E Hm']].
        { intros i Hi. rewrite Hlk in Hi. rewrite nth_error_firstn_lt by exact Hi.
          rewrite <- (R_live _ _ H i ltac:(lia)). f_equal. pos_lia. }
        rewrite Hlk in E, Hm'. exists m'. split; [exact E|]. split.
        + intros i Hi. rewrite Hm'. pos_lia.
        + intros j Hj. rewrite Hm'.
          destruct ((head q <=? j) && (j <? head q + N.of_nat k)) eqn:Eb2; [|reflexivity].
          exfalso. apply (Hj (j - head q)); pos_lia.
      - assert (Hover : cap q < head q + N.of_nat k) by pos_lia.
        set (a := N.to_nat (cap q - head q)).
        set (b := N.to_nat (N.of_nat k - (cap q - head q))).
        assert (Hab : k = (a + b)%nat) by (unfold a, b; lia).
        assert (Hl1 : length (firstn a l) = a) by (rewrite firstn_length; unfold a in *; lia).
        assert (Hl2 : length (firstn b (skipn a l)) = b) by (rewrite firstn_length, skipn_length; unfold a, b in *; lia).
        destruct (take_range_list (firstn a l) (buf q) (head q)) as [m1 [E1 Hm1]].
        { intros i Hi. rewrite Hl1 in Hi. rewrite nth_error_firstn_lt by exact Hi.
          rewrite <- (R_live _ _ H i ltac:(lia)). f_equal. unfold a in Hi. pos_lia. }
        rewrite Hl1 in E1. rewrite E1. cbn [bind fst snd].
        destruct (take_range_list (firstn b (skipn a l)) m1 0) as [m2 [E2 Hm2]].
        { intros i Hi. rewrite Hl2 in Hi. rewrite nth_error_firstn_lt by exact Hi. rewrite nth_error_skipn.
          rewrite Hm1, Hl1. rewrite <- (R_live _ _ H (a + i)%nat ltac:(lia)).
          replace (pos (head q) (cap q) (N.of_nat (a + i))) with (0 + N.of_nat i) by (unfold a, b in *; pos_lia).
          unfold a, b in *. pos_lia. }
        rewrite Hl2 in E2. rewrite E2. cbn [bind fst snd].
        exists m2. split; [rewrite Hab, firstn_add; reflexivity|]. rewrite Hl2 in Hm2. rewrite Hl1 in Hm1. split.
        + intros i Hi. rewrite Hm2.
          destruct ((0 <=? pos (head q) (cap q) i) && (pos (head q) (cap q) i <? 0 + N.of_nat b)) eqn:Eb2; [reflexivity|].
          rewrite Hm1. unfold a, b in *. pos_lia.
        + intros j Hj. rewrite Hm2.
          destruct ((0 <=? j) && (j <? 0 + N.of_nat b)) eqn:Eb2.
          * exfalso. apply (Hj (j + (cap q - head q))); unfold a, b in *; pos_lia.
          * rewrite Hm1. destruct ((head q <=? j) && (j <? head q + N.of_nat a)) eqn:Eb3; [|reflexivity].
            exfalso. apply (Hj (j - head q)); unfold a, b in *; pos_lia. }
    destruct Hread as [m' [E [Hnone Hsame]]].
    rewrite E. cbn [bind fst snd]. eexists. split; [reflexivity|].
    assert (Hw : N.land (head q + N.of_nat k) (mask q) = pos (head q) (cap q) (N.of_nat k))
      by (rewrite (R_wrap _ _ _ H) by lia; reflexivity).
    constructor; cbn [cap mask head tail len buf]; rewrite ?Hw.
    + exact (R_pow _ _ H).
    + exact (R_mask _ _ H).
    + pos_lia.
    + rewrite skipn_length. lia.
    + lia.
    + rewrite Ht. pos_lia.
    + intros i Hi. rewrite skipn_length in Hi. rewrite nth_error_skipn.
      rewrite <- (R_live _ _ H (k + i)%nat ltac:(lia)).
      replace (pos (pos (head q) (cap q) (N.of_nat k)) (cap q) (N.of_nat i))
        with (pos (head q) (cap q) (N.of_nat (k + i))) by pos_lia.
      apply Hsame. intros i' Hi'. pos_lia.
    + intros j Hj.
      destruct (N.ltb_spec j (cap q)) as [Hjc|Hjc].
      * (* j = pos i0 for the unique i0 < cap *)
        set (i0 := if head q <=? j then j - head q else j + cap q - head q).
        assert (Hp : pos (head q) (cap q) i0 = j) by (unfold i0; pos_lia).
        assert (Hi0 : i0 < cap q) by (unfold i0; pos_lia).
        destruct (N.ltb_spec i0 (N.of_nat k)) as [Hlt|Hge].
        -- rewrite <- Hp. apply Hnone. exact Hlt.
        -- rewrite Hsame by (intros i' Hi'; unfold i0 in *; pos_lia).
           apply (R_dead _ _ H). intros i Hi.
           destruct (N.ltb_spec i (N.of_nat k)) as [Hik|Hik]; [unfold i0 in *; pos_lia|].
           specialize (Hj (i - N.of_nat k) ltac:(lia)). pos_lia.
      * rewrite Hsame by (intros i' Hi'; pos_lia).
        apply (R_dead _ _ H). intros i Hi. pos_lia.
Qed.

(* Clone: the copy holds the same sequence *)
Lemma R_fold_push_back xs : forall q l,
  R q l -> len q + N.of_nat (length xs) <= 2 ^ 61 -> R (fold_left (push_back A) xs q) (l ++ xs).
Proof.
  induction xs as [|x xs IH]; intros q l H Hb; cbn [fold_left].
  - rewrite app_nil_r. exact H.
  - cbn [length] in Hb. replace (l ++ x :: xs) with ((l ++ [x]) ++ xs) by (rewrite <- app_assoc; reflexivity).
    apply IH.
    + apply R_push_back; [exact H|lia].
    + pose proof (R_len _ _ (R_push_back q l x H ltac:(lia))) as Hl'. rewrite Hl'.
      rewrite app_length. cbn [length]. pose proof (R_len _ _ H). lia.
Qed.

Lemma R_clone q l :
  R q l -> len q <= 2 ^ 61 -> exists q', clone A q = Ok q' /\ R q' l.
Proof.
  intros H Hb. unfold clone, clone_with, contiguous.
  pose proof (R_head _ _ H) as Hh. pose proof (R_len _ _ H) as Hl.
  pose proof (R_tail _ _ H) as Ht. pose proof (R_le _ _ H) as Hle. pose proof (R_cap_pos _ _ H).
  assert (HF : R (with_capacity (cap q)) []) by (apply R_with_capacity; apply (R_cap_bound _ _ H)).
  destruct (N.eqb_spec (len q) 0) as [Hz|Hnz].
  - assert (l = []) by (destruct l; [reflexivity|cbn [length] in Hl; lia]). subst l.
    eexists. split; [reflexivity|exact HF].
  - assert (HFl : len (with_capacity (A:=A) (cap q)) = 0) by reflexivity.
    destruct (N.ltb_spec (head q) (tail q)) as [Hc|Hw].
    + assert (Hfit : head q + len q < cap q) by (rewrite Ht in Hc; pos_lia).
      assert (Hn : N.to_nat (tail q - head q) = length l) by (rewrite Ht; pos_lia).
      rewrite Hn, (peek_range_list l).
      * cbn [bind]. eexists. split; [reflexivity|].
        apply (R_fold_push_back l _ [] HF). rewrite HFl. lia.
      * intros i Hi. rewrite <- (R_live _ _ H i Hi). f_equal. pos_lia.
    + assert (Hwrap : cap q <= head q + len q) by (rewrite Ht in Hw; pos_lia).
      assert (Htl : tail q = head q + len q - cap q) by (rewrite Ht; pos_lia).
      set (a := N.to_nat (cap q - head q)).
      assert (Ha : (a <= length l)%nat) by (unfold a; lia).
      assert (Hl1 : length (firstn a l) = a) by (rewrite firstn_length; lia).
      assert (Hl2 : length (skipn a l) = N.to_nat (tail q)) by (rewrite skipn_length; unfold a; lia).
      rewrite (peek_range_n (firstn a l) a) by
        (try (symmetry; exact Hl1); intros i Hi; rewrite Hl1 in Hi; rewrite nth_error_firstn_lt by exact Hi;
         rewrite <- (R_live _ _ H i ltac:(lia)); f_equal; unfold a in Hi; pos_lia).
      cbn [bind].
      rewrite (peek_range_n (skipn a l) (N.to_nat (tail q))) by
        (try (symmetry; exact Hl2); intros i Hi; rewrite Hl2 in Hi; rewrite nth_error_skipn;
         rewrite <- (R_live _ _ H (a + i)%nat ltac:(lia)); f_equal; unfold a; pos_lia).
      cbn [bind]. rewrite firstn_skipn. eexists. split; [reflexivity|].
      apply (R_fold_push_back l _ [] HF). rewrite HFl. lia.
Qed.

End Lists.
