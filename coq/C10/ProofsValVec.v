(* ValVec32 capacity arithmetic (u32 length/capacity, growth by 103/64). *)
From ZV.Common Require Import Base.
From ZV.C10 Require Import Model.
Open Scope N_scope.

Lemma vv_reserve_spec len cap additional :
  len <= cap -> cap <= MAX_CAPACITY ->
  match vv_reserve len cap additional with
  | None => MAX_CAPACITY < len + additional
  | Some c => len + additional <= c /\ cap <= c /\ c <= MAX_CAPACITY
  end.
Proof.
  intros H1 H2. unfold vv_reserve, calculate_new_capacity, larger_capacity, MAX_CAPACITY in *.
  destruct (N.ltb_spec 4294967295 (len + additional)); [assumption|].
  destruct (N.leb_spec (len + additional) cap); [lia|].
  destruct (N.eqb_spec cap 0); lia.
Qed.

Lemma vv_push_spec len cap :
  len <= cap -> cap <= MAX_CAPACITY ->
  match vv_push_cap len cap with
  | None => len = MAX_CAPACITY
  | Some c => len < c /\ cap <= c /\ c <= MAX_CAPACITY
  end.
Proof.
  intros H1 H2. unfold vv_push_cap, calculate_new_capacity, larger_capacity, MAX_CAPACITY in *.
  destruct (N.ltb_spec len cap); [lia|].
  destruct (N.leb_spec 4294967295 len); [lia|].
  destruct (N.eqb_spec cap 0); lia.
Qed.

Example vv_growth_examples :
  vv_push_cap 0 0 = Some 8 /\ vv_push_cap 8 8 = Some 12 /\ vv_push_cap 1 1 = Some 2 /\
  vv_reserve 4294967295 4294967295 1 = None /\ vv_push_cap 4294967295 4294967295 = None /\
  vv_reserve 10 12 4294967285 = Some 4294967295.
Proof. vm_compute. repeat split. Qed.
