(* FastVec refines a Vec (list): simulation between the len/cap/buffer model and list operations. *)
From ZV.Common Require Import Base.
From ZV.C10 Require Import Model Spec ProofsRing.
Open Scope N_scope.

Section VecProofs.
Variable A : Type.
Local Notation V := (Spec.V A).
Local Notation V_len := (Spec.V_len A).
Local Notation V_le := (Spec.V_le A).
Local Notation V_live := (Spec.V_live A).
Local Notation V_dead := (Spec.V_dead A).

Lemma nth_error_insert (l : list A) i x j :
  (i <= length l)%nat ->
  nth_error (firstn i l ++ x :: skipn i l) j =
  if (j <? i)%nat then nth_error l j else if (j =? i)%nat then Some x else nth_error l (j - 1).
Proof.
  intros Hi. assert (Hf : length (firstn i l) = i) by (rewrite firstn_length; lia).
  destruct (Nat.ltb_spec j i) as [Hlt|Hge].
  - rewrite nth_error_app1 by lia. apply nth_error_firstn_lt. exact Hlt.
  - rewrite nth_error_app2 by lia. rewrite Hf.
    destruct (Nat.eqb_spec j i) as [->|Hne].
    + replace (i - i)%nat with 0%nat by lia. reflexivity.
    + destruct (j - i)%nat as [|k] eqn:Ek; [lia|]. cbn [nth_error].
      rewrite nth_error_skipn. f_equal. lia.
Qed.

Lemma nth_error_remove (l : list A) i j :
  (i < length l)%nat ->
  nth_error (firstn i l ++ skipn (S i) l) j = if (j <? i)%nat then nth_error l j else nth_error l (S j).
Proof.
  intros Hi. assert (Hf : length (firstn i l) = i) by (rewrite firstn_length; lia).
  destruct (Nat.ltb_spec j i) as [Hlt|Hge].
  - rewrite nth_error_app1 by lia. apply nth_error_firstn_lt. exact Hlt.
  - rewrite nth_error_app2 by lia. rewrite Hf, nth_error_skipn. f_equal. lia.
Qed.

Lemma nth_error_removelast (l : list A) j :
  (j < length l - 1)%nat -> nth_error (removelast l) j = nth_error l j.
Proof.
  revert j. induction l as [|x l IH]; intros j Hj; [cbn [length] in Hj; lia|].
  destruct l as [|y l]; [cbn [length] in Hj; lia|].
  change (removelast (x :: y :: l)) with (x :: removelast (y :: l)).
  destruct j; [reflexivity|]. cbn [nth_error]. apply IH. cbn [length] in *. lia.
Qed.

Lemma length_removelast (l : list A) : length (removelast l) = (length l - 1)%nat.
Proof.
  induction l as [|x l IH]; [reflexivity|].
  destruct l as [|y l]; [reflexivity|].
  change (removelast (x :: y :: l)) with (x :: removelast (y :: l)).
  cbn [length] in *. lia.
Qed.

Lemma nth_error_repeat (x : A) n j : (j < n)%nat -> nth_error (repeat x n) j = Some x.
Proof.
  revert j. induction n as [|n IH]; intros j Hj; [lia|].
  destruct j; [reflexivity|]. cbn [repeat nth_error]. apply IH. lia.
Qed.

Lemma V_new : V (fv_new (A:=A)) [].
Proof. constructor; cbn [fv_new vlen vcap vbuf length]; try lia; try reflexivity; intros i Hi; exfalso; lia. Qed.

Lemma V_with_capacity c : V (fv_with_capacity (A:=A) c) [].
Proof. constructor; cbn [fv_with_capacity vlen vcap vbuf length]; try lia; try reflexivity; intros i Hi; exfalso; lia. Qed.

Lemma V_ensure v l c : V v l -> V (fv_ensure_capacity A v c) l /\ c <= vcap (fv_ensure_capacity A v c).
Proof.
  intros H. unfold fv_ensure_capacity, fv_realloc. destruct (N.leb_spec c (vcap v)); [split; assumption|].
  pose proof (V_le _ _ H). split; [|cbn [vcap]; lia].
  constructor; cbn [vlen vcap vbuf]; [apply (V_len _ _ H)|lia|apply (V_live _ _ H)|apply (V_dead _ _ H)].
Qed.

Lemma V_reserve v l n : V v l -> V (fv_reserve A v n) l /\ vlen v + n <= vcap (fv_reserve A v n).
Proof.
  intros H. unfold fv_reserve, fv_realloc. destruct (N.leb_spec (vlen v + n) (vcap v)); [split; assumption|].
  pose proof (V_le _ _ H). split; [|cbn [vcap]; lia].
  constructor; cbn [vlen vcap vbuf]; [apply (V_len _ _ H)|lia|apply (V_live _ _ H)|apply (V_dead _ _ H)].
Qed.

Lemma V_write_end v l x : V v l -> vlen v < vcap v -> V (fv_write_end A v x) (l ++ [x]).
Proof.
  intros H Hlt. pose proof (V_len _ _ H) as Hl.
  constructor; cbn [fv_write_end vlen vcap vbuf].
  - rewrite app_length. cbn [length]. lia.
  - lia.
  - intros i Hi. rewrite app_length in Hi. cbn [length] in Hi. unfold upd.
    destruct (N.eqb_spec (N.of_nat i) (vlen v)) as [E|NE].
    + assert (i = length l) by lia. subst i. rewrite nth_error_app2 by lia.
      replace (length l - length l)%nat with 0%nat by lia. reflexivity.
    + rewrite nth_error_app1 by lia. apply (V_live _ _ H). lia.
  - intros j Hj. unfold upd. destruct (N.eqb_spec j (vlen v)); [lia|]. apply (V_dead _ _ H). lia.
Qed.

Lemma V_fold_write_end xs : forall v l,
  V v l -> vlen v + N.of_nat (length xs) <= vcap v -> V (fold_left (fv_write_end A) xs v) (l ++ xs).
Proof.
  induction xs as [|x xs IH]; intros v l H Hb; cbn [fold_left].
  - rewrite app_nil_r. exact H.
  - cbn [length] in Hb. replace (l ++ x :: xs) with ((l ++ [x]) ++ xs) by (rewrite <- app_assoc; reflexivity).
    apply IH; [apply V_write_end; [exact H|lia]|cbn [fv_write_end vlen vcap]; lia].
Qed.

Lemma V_push v l x : V v l -> V (fv_push A v x) (l ++ [x]).
Proof.
  intros H. unfold fv_push. pose proof (V_le _ _ H).
  destruct (N.leb_spec (vcap v) (vlen v)).
  - destruct (V_ensure v l (vlen v + 1) H) as [HV1 Hc]. apply V_write_end; [exact HV1|].
    replace (vlen (fv_ensure_capacity A v (vlen v + 1))) with (vlen v); [lia|].
    unfold fv_ensure_capacity. destruct (vlen v + 1 <=? vcap v); reflexivity.
  - apply V_write_end; [exact H|lia].
Qed.

Lemma V_pop v l : V v l -> exists v', fv_pop A v = Ok (v', last_error A l) /\ V v' (removelast l).
Proof.
  intros H. unfold fv_pop. pose proof (V_len _ _ H) as Hl. pose proof (V_le _ _ H).
  destruct (N.eqb_spec (vlen v) 0) as [Hz|Hnz].
  - assert (l = []) by (destruct l; [reflexivity|cbn [length] in Hl; lia]). subst l.
    exists v. split; [reflexivity|exact H].
  - rewrite last_error_nth.
    pose proof (V_live _ _ H (length l - 1)%nat ltac:(lia)) as Hv.
    replace (N.of_nat (length l - 1)) with (vlen v - 1) in Hv by lia. rewrite Hv.
    destruct (nth_error l (length l - 1)) as [x|] eqn:E; [|apply nth_error_None in E; lia].
    eexists. split; [reflexivity|].
    constructor; cbn [vlen vcap vbuf].
    + rewrite length_removelast. lia.
    + lia.
    + intros i Hi. rewrite length_removelast in Hi. rewrite nth_error_removelast by exact Hi.
      unfold upd. destruct (N.eqb_spec (N.of_nat i) (vlen v - 1)); [lia|]. apply (V_live _ _ H). lia.
    + intros j Hj. unfold upd. destruct (N.eqb_spec j (vlen v - 1)); [reflexivity|]. apply (V_dead _ _ H). lia.
Qed.

Lemma V_insert v l i x :
  V v l -> i <= vlen v ->
  fv_insert A v i x = (fst (fv_insert A v i x), RUnit) /\
  V (fst (fv_insert A v i x)) (firstn (N.to_nat i) l ++ x :: skipn (N.to_nat i) l).
Proof.
  intros H Hi. unfold fv_insert. pose proof (V_len _ _ H) as Hl.
  destruct (N.ltb_spec (vlen v) i); [lia|].
  set (v1 := if vcap v <=? vlen v then fv_ensure_capacity A v (vlen v + 1) else v).
  assert (HV1 : V v1 l /\ vlen v1 = vlen v /\ vlen v < vcap v1).
  { unfold v1. destruct (N.leb_spec (vcap v) (vlen v)).
    - destruct (V_ensure v l (vlen v + 1) H) as [Ha Hb]. split; [exact Ha|].
      assert (vlen (fv_ensure_capacity A v (vlen v + 1)) = vlen v)
        by (unfold fv_ensure_capacity; destruct (vlen v + 1 <=? vcap v); reflexivity).
      split; [assumption|lia].
    - split; [exact H|]. split; [reflexivity|lia]. }
  destruct HV1 as [HV1 [Hlen Hcap]]. cbn [fst]. split; [reflexivity|].
  constructor; cbn [vlen vcap vbuf].
  - rewrite app_length, firstn_length. cbn [length]. rewrite skipn_length. lia.
  - lia.
  - intros j Hj. rewrite app_length, firstn_length in Hj. cbn [length] in Hj. rewrite skipn_length in Hj.
    rewrite nth_error_insert by lia.
    unfold upd. destruct (N.eqb_spec (N.of_nat j) i) as [E|NE].
    + destruct (Nat.ltb_spec j (N.to_nat i)); [lia|]. destruct (Nat.eqb_spec j (N.to_nat i)); [reflexivity|lia].
    + destruct (N.ltb_spec 0 (vlen v1 - i)) as [Hm|Hm].
      * unfold move_range.
        destruct (Nat.ltb_spec j (N.to_nat i)) as [Hlt|Hge].
        -- destruct ((i + 1 <=? N.of_nat j) && (N.of_nat j <? i + 1 + (vlen v1 - i))) eqn:Eb; [pos_lia|].
           destruct ((i <=? N.of_nat j) && (N.of_nat j <? i + (vlen v1 - i))) eqn:Eb2; [pos_lia|].
           apply (V_live _ _ HV1). lia.
        -- destruct (Nat.eqb_spec j (N.to_nat i)); [lia|].
           destruct ((i + 1 <=? N.of_nat j) && (N.of_nat j <? i + 1 + (vlen v1 - i))) eqn:Eb; [|pos_lia].
           rewrite <- (V_live _ _ HV1 (j - 1)%nat ltac:(lia)). f_equal. lia.
      * (* inserting at the end *)
        destruct (Nat.ltb_spec j (N.to_nat i)) as [Hlt|Hge]; [apply (V_live _ _ HV1); lia|].
        destruct (Nat.eqb_spec j (N.to_nat i)); lia.
  - intros j Hj. unfold upd. destruct (N.eqb_spec j i); [lia|].
    destruct (N.ltb_spec 0 (vlen v1 - i)) as [Hm|Hm].
    + unfold move_range.
      destruct ((i + 1 <=? j) && (j <? i + 1 + (vlen v1 - i))) eqn:Eb; [pos_lia|].
      destruct ((i <=? j) && (j <? i + (vlen v1 - i))) eqn:Eb2; [reflexivity|].
      apply (V_dead _ _ HV1). lia.
    + apply (V_dead _ _ HV1). lia.
Qed.

Lemma V_insert_refused v i x : vlen v < i -> fv_insert A v i x = (v, RErr).
Proof. intros Hi. unfold fv_insert. destruct (N.ltb_spec (vlen v) i); [reflexivity|lia]. Qed.

Lemma V_remove v l i x :
  V v l -> nth_error l (N.to_nat i) = Some x ->
  exists v', fv_remove A v i = Ok (v', ROpt (Some x)) /\
             V v' (firstn (N.to_nat i) l ++ skipn (S (N.to_nat i)) l).
Proof.
  intros H Hx. pose proof (V_len _ _ H) as Hl. pose proof (V_le _ _ H).
  assert (Hi : (N.to_nat i < length l)%nat) by (apply nth_error_Some; rewrite Hx; discriminate).
  unfold fv_remove. destruct (N.leb_spec (vlen v) i); [lia|].
  pose proof (V_live _ _ H (N.to_nat i) Hi) as Hv. rewrite N2Nat.id in Hv. rewrite Hv, Hx.
  eexists. split; [reflexivity|].
  constructor; cbn [vlen vcap vbuf].
  - rewrite app_length, firstn_length, skipn_length. lia.
  - lia.
  - intros j Hj. rewrite app_length, firstn_length, skipn_length in Hj.
    rewrite nth_error_remove by exact Hi.
    destruct (N.ltb_spec 0 (vlen v - i - 1)) as [Hm|Hm].
    + unfold move_range, upd.
      destruct (Nat.ltb_spec j (N.to_nat i)) as [Hlt|Hge].
      * destruct ((i <=? N.of_nat j) && (N.of_nat j <? i + (vlen v - i - 1))) eqn:Eb; [pos_lia|].
        destruct ((i + 1 <=? N.of_nat j) && (N.of_nat j <? i + 1 + (vlen v - i - 1))) eqn:Eb2; [pos_lia|].
        destruct (N.eqb_spec (N.of_nat j) i); [lia|]. apply (V_live _ _ H). lia.
      * destruct ((i <=? N.of_nat j) && (N.of_nat j <? i + (vlen v - i - 1))) eqn:Eb; [|pos_lia].
        destruct (N.eqb_spec (i + 1 + (N.of_nat j - i)) i); [lia|].
        rewrite <- (V_live _ _ H (S j) ltac:(lia)). f_equal. lia.
    + unfold upd. destruct (Nat.ltb_spec j (N.to_nat i)) as [Hlt|Hge]; [|lia].
      destruct (N.eqb_spec (N.of_nat j) i); [lia|]. apply (V_live _ _ H). lia.
  - intros j Hj.
    destruct (N.ltb_spec 0 (vlen v - i - 1)) as [Hm|Hm].
    + unfold move_range, upd.
      destruct ((i <=? j) && (j <? i + (vlen v - i - 1))) eqn:Eb; [pos_lia|].
      destruct ((i + 1 <=? j) && (j <? i + 1 + (vlen v - i - 1))) eqn:Eb2; [reflexivity|].
      destruct (N.eqb_spec j i); [reflexivity|]. apply (V_dead _ _ H). pos_lia.
    + unfold upd. destruct (N.eqb_spec j i); [reflexivity|]. apply (V_dead _ _ H). lia.
Qed.

Lemma V_remove_refused v l i : V v l -> nth_error l (N.to_nat i) = None -> fv_remove A v i = Ok (v, RErr).
Proof.
  intros H Hn. apply nth_error_None in Hn. pose proof (V_len _ _ H).
  unfold fv_remove. destruct (N.leb_spec (vlen v) i); [reflexivity|lia].
Qed.

Lemma fill_range_spec x : forall n (m : mem A) s j,
  fill_range A m s n x j = if (s <=? j) && (j <? s + N.of_nat n) then Some x else m j.
Proof.
  induction n as [|n IH]; intros m s j; cbn [fill_range].
  - pos_lia.
  - rewrite IH. unfold upd. pos_lia.
Qed.

Lemma V_resize v l n x :
  V v l ->
  exists v', fv_resize A v n x = Ok (v', if N.of_nat (length l) <? n then [] else skipn (N.to_nat n) l) /\
             V v' (if N.of_nat (length l) <? n then l ++ repeat x (N.to_nat (n - N.of_nat (length l)))
                   else firstn (N.to_nat n) l).
Proof.
  intros H. pose proof (V_len _ _ H) as Hl. pose proof (V_le _ _ H). unfold fv_resize. rewrite <- Hl.
  destruct (N.ltb_spec (vlen v) n) as [Hg|Hs].
  - destruct (V_ensure v l n H) as [HV1 Hc].
    assert (Hlen : vlen (fv_ensure_capacity A v n) = vlen v)
      by (unfold fv_ensure_capacity; destruct (n <=? vcap v); reflexivity).
    eexists. split; [reflexivity|].
    constructor; cbn [vlen vcap vbuf].
    + rewrite app_length, repeat_length. lia.
    + lia.
    + intros i Hi. rewrite app_length, repeat_length in Hi. rewrite fill_range_spec, Hlen.
      destruct (Nat.ltb_spec i (length l)).
      * rewrite nth_error_app1 by lia. rewrite <- (V_live _ _ HV1 i ltac:(lia)). pos_lia.
      * rewrite nth_error_app2 by lia. rewrite nth_error_repeat by lia. pos_lia.
    + intros j Hj. rewrite fill_range_spec, Hlen.
      destruct ((vlen v <=? j) && (j <? vlen v + N.of_nat (N.to_nat (n - vlen v)))) eqn:Eb; [pos_lia|].
      apply (V_dead _ _ HV1). lia.
  - destruct (N.ltb_spec n (vlen v)) as [Hlt|Hge].
    + assert (Hk : N.to_nat (vlen v - n) = length (skipn (N.to_nat n) l)) by (rewrite skipn_length; lia).
      rewrite Hk.
      destruct (take_range_list A (skipn (N.to_nat n) l) (vbuf v) n) as [m' [E Hm']].
      { intros i Hi. rewrite skipn_length in Hi. rewrite nth_error_skipn.
        rewrite <- (V_live _ _ H (N.to_nat n + i)%nat ltac:(lia)). f_equal. lia. }
      rewrite E. cbn [bind fst snd]. eexists. split; [reflexivity|].
      rewrite skipn_length in Hm'.
      constructor; cbn [vlen vcap vbuf].
      * rewrite firstn_length. lia.
      * lia.
      * intros i Hi. rewrite firstn_length in Hi. rewrite nth_error_firstn_lt by lia. rewrite Hm'.
        destruct ((n <=? N.of_nat i) && (N.of_nat i <? n + N.of_nat (length l - N.to_nat n))) eqn:Eb; [pos_lia|].
        apply (V_live _ _ H). lia.
      * intros j Hj. rewrite Hm'.
        destruct ((n <=? j) && (j <? n + N.of_nat (length l - N.to_nat n))) eqn:Eb; [reflexivity|].
        apply (V_dead _ _ H). pos_lia.
    + assert (n = vlen v) by lia. subst n.
      exists v. split.
      * f_equal. f_equal. rewrite skipn_all2 by lia. reflexivity.
      * rewrite firstn_all2 by lia. exact H.
Qed.

Lemma V_clear v l : V v l -> exists v', fv_clear A v = Ok (v', l) /\ V v' [] /\ forall j, vbuf v' j = None.
Proof.
  intros H. pose proof (V_len _ _ H) as Hl. unfold fv_clear.
  replace (N.to_nat (vlen v)) with (length l) by lia.
  destruct (take_range_list A l (vbuf v) 0) as [m' [E Hm']].
  { intros i Hi. rewrite <- (V_live _ _ H i Hi). f_equal. }
  rewrite E. cbn [bind fst snd]. eexists. split; [reflexivity|].
  assert (Hall : forall j, m' j = None).
  { intros j. rewrite Hm'. destruct ((0 <=? j) && (j <? 0 + N.of_nat (length l))) eqn:Eb; [reflexivity|].
    apply (V_dead _ _ H). pos_lia. }
  split; [|exact Hall].
  constructor; cbn [vlen vcap vbuf length]; try lia; try (intros i Hi; exfalso; lia); intros j _; apply Hall.
Qed.

Lemma V_shrink v l : V v l -> V (fv_shrink_to_fit A v) l.
Proof.
  intros H. pose proof (V_len _ _ H) as Hl. unfold fv_shrink_to_fit.
  destruct (N.eqb_spec (vlen v) (vcap v)); [exact H|].
  destruct (N.eqb_spec (vlen v) 0) as [Hz|Hnz].
  - assert (l = []) by (destruct l; [reflexivity|cbn [length] in Hl; lia]). subst l. apply V_new.
  - constructor; cbn [vlen vcap vbuf]; [exact Hl|lia|apply (V_live _ _ H)|apply (V_dead _ _ H)].
Qed.

Lemma V_extend v l xs : V v l -> V (fv_extend A v xs) (l ++ xs).
Proof.
  intros H. unfold fv_extend. rewrite nlen_length.
  destruct (V_reserve v l (N.of_nat (length xs)) H) as [HV1 Hc].
  apply V_fold_write_end; [exact HV1|].
  replace (vlen (fv_reserve A v (N.of_nat (length xs)))) with (vlen v); [exact Hc|].
  unfold fv_reserve. destruct (vlen v + N.of_nat (length xs) <=? vcap v); reflexivity.
Qed.

Lemma V_get v l i : V v l -> fv_get A v i = Ok (nth_error l (N.to_nat i)).
Proof.
  intros H. pose proof (V_len _ _ H) as Hl. unfold fv_get.
  destruct (N.leb_spec (vlen v) i).
  - symmetry. f_equal. apply nth_error_None. lia.
  - pose proof (V_live _ _ H (N.to_nat i) ltac:(lia)) as Hv. rewrite N2Nat.id in Hv. rewrite Hv.
    destruct (nth_error l (N.to_nat i)) eqn:E; [reflexivity|]. apply nth_error_None in E. lia.
Qed.

Lemma V_fold_push xs : forall v l, V v l -> V (fold_left (fv_push A) xs v) (l ++ xs).
Proof.
  induction xs as [|x xs IH]; intros v l H; cbn [fold_left].
  - rewrite app_nil_r. exact H.
  - replace (l ++ x :: xs) with ((l ++ [x]) ++ xs) by (rewrite <- app_assoc; reflexivity).
    apply IH. apply V_push. exact H.
Qed.

Lemma V_clone v l : V v l -> exists v', fv_clone A v = Ok v' /\ V v' l.
Proof.
  intros H. pose proof (V_len _ _ H) as Hl. unfold fv_clone.
  replace (N.to_nat (vlen v)) with (length l) by lia.
  rewrite (peek_range_list A l) by (intros i Hi; rewrite <- (V_live _ _ H i Hi); f_equal).
  cbn [bind]. eexists. split; [reflexivity|]. apply (V_fold_push l _ []). apply V_with_capacity.
Qed.

(* ---------- whole histories ---------- *)
Lemma fv_step_refines v l o :
  V v l -> exists v', fv_step A v o = Ok (v', snd (vec_step A l o)) /\ V v' (fst (vec_step A l o)).
Proof.
  intros H. pose proof (V_len _ _ H) as Hl.
  destruct o as [x| |i x|i|n x| | |xs|n|i]; cbn [fv_step vec_step].
  - eexists. split; [reflexivity|]. apply V_push. exact H.
  - destruct (V_pop v l H) as [v' [E H']]. rewrite E. cbn [bind fst snd]. exists v'. split; [reflexivity|exact H'].
  - rewrite nlen_length. destruct (N.ltb_spec (N.of_nat (length l)) i) as [Hgt|Hle].
    + rewrite V_insert_refused by lia. cbn [fst snd]. exists v. split; [reflexivity|exact H].
    + destruct (V_insert v l i x H ltac:(lia)) as [E H']. rewrite E. cbn [fst snd].
      eexists. split; [reflexivity|exact H'].
  - destruct (nth_error l (N.to_nat i)) as [x|] eqn:E.
    + destruct (V_remove v l i x H E) as [v' [E' H']]. rewrite E'. cbn [bind fst snd].
      exists v'. split; [reflexivity|exact H'].
    + rewrite (V_remove_refused v l i H E). cbn [bind fst snd]. exists v. split; [reflexivity|exact H].
  - rewrite nlen_length. destruct (V_resize v l n x H) as [v' [E H']]. rewrite E. cbn [bind fst snd].
    exists v'. destruct (N.of_nat (length l) <? n); cbn [fst snd app]; (split; [reflexivity|exact H']).
  - destruct (V_clear v l H) as [v' [E [H' _]]]. rewrite E. cbn [bind fst snd]. exists v'. split; [reflexivity|exact H'].
  - eexists. split; [reflexivity|]. apply V_shrink. exact H.
  - eexists. split; [reflexivity|]. apply V_extend. exact H.
  - eexists. split; [reflexivity|]. apply (V_reserve v l n H).
  - rewrite (V_get v l i H). cbn [bind]. exists v. split; [reflexivity|exact H].
Qed.

Lemma fastvec_refines_list_proof ops : forall v l,
  V v l -> exists v', fv_run A v ops = Ok (v', snd (vec_run A l ops)) /\ V v' (fst (vec_run A l ops)).
Proof.
  induction ops as [|o t IH]; intros v l H.
  - exists v. split; [reflexivity|exact H].
  - destruct (fv_step_refines v l o H) as [v1 [E1 HV1]].
    destruct (IH v1 _ HV1) as [v2 [E2 HV2]].
    cbn [fv_run vec_run]. rewrite E1. cbn [bind fst snd]. rewrite E2. cbn [bind fst snd].
    exists v2. split; [reflexivity|exact HV2].
Qed.

End VecProofs.

Lemma fastvec_refines_list_top (A : Type) c (ops : list (vop A)) :
  exists v', fv_run A (fv_with_capacity c) ops = Ok (v', snd (vec_run A [] ops)) /\
             V A v' (fst (vec_run A [] ops)).
Proof. apply fastvec_refines_list_proof. apply V_with_capacity. Qed.

(* the hypotheses are satisfiable by a non-trivial history: growth, insert/remove in the middle, shrinking resize *)
Example fastvec_history_example :
  let ops := [VPush 1; VPush 2; VInsert 1 9; VInsert 7 5; VRemove 0; VResize 5 4; VResize 1 3; VExtend [6; 7]; VShrink; VGet 2; VClear] in
  match fv_run N (fv_with_capacity 1) ops with
  | Ok (v, outs) => outs = snd (vec_run N [] ops) /\ vlen v = 0
  | UB => False
  end.
Proof. vm_compute. split; reflexivity. Qed.
