(* C10 property theorems.  Statements + exact + Print Assumptions only. *)
From Coq Require Import Permutation Sorted.
From ZV.Common Require Import Base.
From ZV.C10 Require Import Model Spec ProofsPow2 ProofsRing ProofsHist ProofsVec ProofsValVec ProofsFixed.
From ZV.Gen Require Import ConstsC10.
From ZV.C10 Require Import ModelValVec32 ProofsValVec32 ModelArena ProofsArena ModelStrVec ProofsStrVec ModelFixedLen ProofsFixedLen ModelFastVecCopy ProofsFastVecCopy ModelCacheVec ProofsCacheVec ModelBitPacked ProofsBitPacked ModelRingBulk ProofsRingBulk ModelCases.
Open Scope N_scope.

(* ensure_power_of_two (bit smearing) returns a power of two that is large enough, for every request up to 2^62 *)
Theorem ensure_pow2_correct :
  forall c m, 0 < c -> c <= 2 ^ m -> m <= 62 -> exists k, ensure_pow2 c = 2 ^ k /\ c <= 2 ^ k /\ k <= m.
Proof. exact ensure_pow2_ok. Qed.
Check ensure_pow2_correct :
  forall c m, 0 < c -> c <= 2 ^ m -> m <= 62 -> exists k, ensure_pow2 c = 2 ^ k /\ c <= 2 ^ k /\ k <= m.
Print Assumptions ensure_pow2_correct.

(* ring_refines_deque: for every element type, every initial capacity and every history of
   push_back/pop_front/push_bulk/pop_bulk/reserve/clear/front/back, the ring model never touches an
   uninitialised slot (no UB outcome), returns exactly what a deque returns (values, bulk results, and the
   elements destroyed by clear, in order), and ends in a well-formed ring holding the deque's sequence *)
Theorem ring_refines_deque :
  forall (A : Type) c (ops : list (qop A)), c <= 2 ^ 61 -> hist_size A ops <= 2 ^ 61 ->
  exists q', ring_run A (with_capacity c) ops = Ok (q', snd (deque_run A [] ops)) /\
             R A q' (fst (deque_run A [] ops)).
Proof. exact ring_refines_deque_proof. Qed.
Check ring_refines_deque :
  forall (A : Type) c (ops : list (qop A)), c <= 2 ^ 61 -> hist_size A ops <= 2 ^ 61 ->
  exists q', ring_run A (with_capacity c) ops = Ok (q', snd (deque_run A [] ops)) /\
             R A q' (fst (deque_run A [] ops)).
Print Assumptions ring_refines_deque.

(* what R means for the observer: len/front/back of a ring related to l are those of l *)
Theorem ring_observable :
  forall (A : Type) q (l : list A), R A q l ->
  len q = N.of_nat (length l) /\ front A q = Ok (hd_error l) /\ back A q = Ok (last_error A l).
Proof. exact R_observable. Qed.
Check ring_observable :
  forall (A : Type) q (l : list A), R A q l ->
  len q = N.of_nat (length l) /\ front A q = Ok (hd_error l) /\ back A q = Ok (last_error A l).
Print Assumptions ring_observable.

(* wrap_growth_preserves_order: growing (in-place realloc of a contiguous ring, or the linearising two-part
   copy of a wrapped or full ring) keeps the sequence, at every head offset *)
Theorem wrap_growth_preserves_order :
  forall (A : Type) q (l : list A) nc, R A q l -> nc <= 2 ^ 62 -> R A (grow_to A q nc) l.
Proof. exact wrap_growth_preserves_order_proof. Qed.
Check wrap_growth_preserves_order :
  forall (A : Type) q (l : list A) nc, R A q l -> nc <= 2 ^ 62 -> R A (grow_to A q nc) l.
Print Assumptions wrap_growth_preserves_order.

(* Clone holds the same sequence (also for a full ring) *)
Theorem ring_clone_same_sequence :
  forall (A : Type) q (l : list A), R A q l -> len q <= 2 ^ 61 -> exists q', clone A q = Ok q' /\ R A q' l.
Proof. exact ring_clone_proof. Qed.
Check ring_clone_same_sequence :
  forall (A : Type) q (l : list A), R A q l -> len q <= 2 ^ 61 -> exists q', clone A q = Ok q' /\ R A q' l.
Print Assumptions ring_clone_same_sequence.

(* clear() destroys exactly the held sequence, each element once, and leaves no initialised slot behind *)
Theorem ring_clear_drops_each_once :
  forall (A : Type) q (l : list A), R A q l ->
  exists q', clear A q = Ok (q', l) /\ R A q' [] /\ cap q' = cap q /\ forall j, buf q' j = None.
Proof. exact R_clear. Qed.
Check ring_clear_drops_each_once :
  forall (A : Type) q (l : list A), R A q l ->
  exists q', clear A q = Ok (q', l) /\ R A q' [] /\ cap q' = cap q /\ forall j, buf q' j = None.
Print Assumptions ring_clear_drops_each_once.

(* drop_exactly_once: over a whole history followed by Drop of the queue, the elements handed in are - as a
   multiset - exactly the elements handed back (pop_front, pop_bulk) plus the elements destroyed (clear, Drop);
   nothing is destroyed twice (no UB) and nothing is left in the freed buffer (no leak) *)
Theorem ring_exactly_once :
  forall (A : Type) c (ops : list (qop A)), c <= 2 ^ 61 -> hist_size A ops <= 2 ^ 61 ->
  exists q' outs q'' d,
    ring_run A (with_capacity c) ops = Ok (q', outs) /\
    ring_drop A q' = Ok (q'', d) /\
    Permutation (history_in A ops) (history_out A ops outs ++ d) /\
    (forall j, buf q'' j = None).
Proof. exact ring_exactly_once_proof. Qed.
Check ring_exactly_once :
  forall (A : Type) c (ops : list (qop A)), c <= 2 ^ 61 -> hist_size A ops <= 2 ^ 61 ->
  exists q' outs q'' d,
    ring_run A (with_capacity c) ops = Ok (q', outs) /\
    ring_drop A q' = Ok (q'', d) /\
    Permutation (history_in A ops) (history_out A ops outs ++ d) /\
    (forall j, buf q'' j = None).
Print Assumptions ring_exactly_once.

(* fixed finding (commit 3d47b1b): with the pinned tree's `head <= tail` test a full ring is cloned as empty and
   cleared without destroying anything; with `head < tail` both are right.  full2 = push_bulk [7;8] on capacity 2 *)
Theorem full_ring_le_refuted :
  len full2 = 2 /\ cap full2 = 2 /\ head full2 = tail full2 /\
  match clone_with N true full2 with Ok q' => len q' = 0 | UB => False end /\
  match clear_with N true full2 with Ok (q', d) => d = [] /\ buf q' 0 = Some 7 /\ buf q' 1 = Some 8 | UB => False end /\
  match clone N full2 with Ok q' => len q' = 2 | UB => False end /\
  match clear N full2 with Ok (q', d) => d = [7; 8] /\ buf q' 0 = None /\ buf q' 1 = None | UB => False end.
Proof. exact full_ring_le_refuted_proof. Qed.
Check full_ring_le_refuted :
  len full2 = 2 /\ cap full2 = 2 /\ head full2 = tail full2 /\
  match clone_with N true full2 with Ok q' => len q' = 0 | UB => False end /\
  match clear_with N true full2 with Ok (q', d) => d = [] /\ buf q' 0 = Some 7 /\ buf q' 1 = Some 8 | UB => False end /\
  match clone N full2 with Ok q' => len q' = 2 | UB => False end /\
  match clear N full2 with Ok (q', d) => d = [7; 8] /\ buf q' 0 = None /\ buf q' 1 = None | UB => False end.
Print Assumptions full_ring_le_refuted.

(* fastvec_refines_list: for every element type and every history of push/pop/insert/remove/resize/clear/
   shrink_to_fit/extend/reserve/get, the FastVec model never touches an uninitialised slot, refuses exactly the
   out-of-range insert/remove, returns what a Vec returns, destroys what a Vec destroys, and ends holding the
   Vec's sequence *)
Theorem fastvec_refines_list :
  forall (A : Type) c (ops : list (vop A)),
  exists v', fv_run A (fv_with_capacity c) ops = Ok (v', snd (vec_run A [] ops)) /\
             V A v' (fst (vec_run A [] ops)).
Proof. exact ProofsVec.fastvec_refines_list_top. Qed.
Check fastvec_refines_list :
  forall (A : Type) c (ops : list (vop A)),
  exists v', fv_run A (fv_with_capacity c) ops = Ok (v', snd (vec_run A [] ops)) /\
             V A v' (fst (vec_run A [] ops)).
Print Assumptions fastvec_refines_list.

(* clear()/Drop of a FastVec destroys exactly the held sequence and leaves no initialised slot *)
Theorem fastvec_clear_drops_each_once :
  forall (A : Type) v (l : list A), V A v l ->
  exists v', fv_clear A v = Ok (v', l) /\ V A v' [] /\ forall j, vbuf v' j = None.
Proof. exact ProofsVec.V_clear. Qed.
Check fastvec_clear_drops_each_once :
  forall (A : Type) v (l : list A), V A v l ->
  exists v', fv_clear A v = Ok (v', l) /\ V A v' [] /\ forall j, vbuf v' j = None.
Print Assumptions fastvec_clear_drops_each_once.

Theorem fastvec_clone_same_sequence :
  forall (A : Type) v (l : list A), V A v l -> exists v', fv_clone A v = Ok v' /\ V A v' l.
Proof. exact ProofsVec.V_clone. Qed.
Check fastvec_clone_same_sequence :
  forall (A : Type) v (l : list A), V A v l -> exists v', fv_clone A v = Ok v' /\ V A v' l.
Print Assumptions fastvec_clone_same_sequence.

(* ValVec32: reserve/push either provide the room asked for within u32, or refuse exactly at the u32 limit *)
Theorem valvec32_reserve_capacity :
  forall len cap additional, len <= cap -> cap <= MAX_CAPACITY ->
  match vv_reserve len cap additional with
  | None => MAX_CAPACITY < len + additional
  | Some c => len + additional <= c /\ cap <= c /\ c <= MAX_CAPACITY
  end.
Proof. exact ProofsValVec.vv_reserve_spec. Qed.
Check valvec32_reserve_capacity :
  forall len cap additional, len <= cap -> cap <= MAX_CAPACITY ->
  match vv_reserve len cap additional with
  | None => MAX_CAPACITY < len + additional
  | Some c => len + additional <= c /\ cap <= c /\ c <= MAX_CAPACITY
  end.
Print Assumptions valvec32_reserve_capacity.

Theorem valvec32_push_capacity :
  forall len cap, len <= cap -> cap <= MAX_CAPACITY ->
  match vv_push_cap len cap with
  | None => len = MAX_CAPACITY
  | Some c => len < c /\ cap <= c /\ c <= MAX_CAPACITY
  end.
Proof. exact ProofsValVec.vv_push_spec. Qed.
Check valvec32_push_capacity :
  forall len cap, len <= cap -> cap <= MAX_CAPACITY ->
  match vv_push_cap len cap with
  | None => len = MAX_CAPACITY
  | Some c => len < c /\ cap <= c /\ c <= MAX_CAPACITY
  end.
Print Assumptions valvec32_push_capacity.

(* FixedCircularQueue<T, n>: every history of push_back/pop_front/clear/front/back behaves like a deque bounded
   by n (push on a full queue returns Err and destroys only the refused value), never touches an
   uninitialised slot, and ends holding the bounded deque's sequence *)
Theorem fixed_refines_bounded_deque :
  forall (A : Type) n (ops : list (qop A)), 0 < n ->
  exists q', fixed_run A n fixed_new ops = Ok (q', snd (bdeque_run A n [] ops)) /\
             F A n q' (fst (bdeque_run A n [] ops)).
Proof. exact ProofsFixed.fixed_refines_bounded_deque_proof. Qed.
Check fixed_refines_bounded_deque :
  forall (A : Type) n (ops : list (qop A)), 0 < n ->
  exists q', fixed_run A n fixed_new ops = Ok (q', snd (bdeque_run A n [] ops)) /\
             F A n q' (fst (bdeque_run A n [] ops)).
Print Assumptions fixed_refines_bounded_deque.

(* fixed_refuses_when_full *)
Theorem fixed_refuses_when_full :
  forall (A : Type) n q (l : list A) x, 0 < n -> F A n q l -> N.of_nat (length l) = n ->
  fixed_step A n q (PushBack x) = Ok (q, (RErr, [x])).
Proof. exact ProofsFixed.fixed_refuses_when_full_proof. Qed.
Check fixed_refuses_when_full :
  forall (A : Type) n q (l : list A) x, 0 < n -> F A n q l -> N.of_nat (length l) = n ->
  fixed_step A n q (PushBack x) = Ok (q, (RErr, [x])).
Print Assumptions fixed_refuses_when_full.

(* clear()/Drop of the fixed queue destroys exactly the held sequence and leaves no initialised slot *)
Theorem fixed_clear_drops_each_once :
  forall (A : Type) n, 0 < n -> forall q (l : list A), F A n q l ->
  exists q', fixed_clear A n q = Ok (q', l) /\ F A n q' [] /\ forall j, fbuf q' j = None.
Proof. exact ProofsFixed.F_clear. Qed.
Check fixed_clear_drops_each_once :
  forall (A : Type) n, 0 < n -> forall q (l : list A), F A n q l ->
  exists q', fixed_clear A n q = Ok (q', l) /\ F A n q' [] /\ forall j, fbuf q' j = None.
Print Assumptions fixed_clear_drops_each_once.

(* ===================== ValVec32<T> at element level (ModelValVec32.v) ===================== *)

(* valvec32_refines_list: for every element type, every requested capacity c and every capacity `usable` >= c the
   allocator hands out, and every history of push/push_panic/pop/get/set/clear/extend_from_slice/
   extend_from_slice_copy/push_n_copy/reserve (no bound on its length or on the slice lengths), the model never
   accesses a slot outside the allocation or an uninitialised slot (no UB), returns what a Vec bounded by
   u32::MAX returns - Err exactly for a push at len = u32::MAX, an extend/push_n/reserve whose resulting length
   would exceed u32::MAX and a set past the end - destroys what a Vec destroys (the old element of set, the
   refused value, the elements of clear), and ends holding the Vec's sequence with len <= capacity <= u32::MAX *)
Theorem valvec32_refines_list :
  forall (A : Type) c usable (ops : list (wop A)), c <= usable -> c <= MAX_CAPACITY ->
  exists v', vv32_run A (vv_with_capacity A c usable) ops = Ok (v', snd (vec32_run A [] ops)) /\
             W A v' (fst (vec32_run A [] ops)).
Proof. exact ProofsValVec32.valvec32_refines_list_proof. Qed.
Check valvec32_refines_list :
  forall (A : Type) c usable (ops : list (wop A)), c <= usable -> c <= MAX_CAPACITY ->
  exists v', vv32_run A (vv_with_capacity A c usable) ops = Ok (v', snd (vec32_run A [] ops)) /\
             W A v' (fst (vec32_run A [] ops)).
Print Assumptions valvec32_refines_list.

(* valvec32_exactly_once: over a whole history followed by Drop, the elements handed to the vector (pushed, set,
   cloned from an accepted slice) are - as a multiset - exactly the elements handed back (pop) plus the elements
   destroyed (old element of set, refused values, clear, Drop); no UB, and no initialised slot is left in the
   buffer that is freed *)
Theorem valvec32_exactly_once :
  forall (A : Type) c usable (ops : list (wop A)), c <= usable -> c <= MAX_CAPACITY ->
  exists v' outs v'' d,
    vv32_run A (vv_with_capacity A c usable) ops = Ok (v', outs) /\
    vv32_drop A v' = Ok (v'', d) /\
    Permutation (whistory_in A ops outs) (whistory_out A ops outs ++ d) /\
    (forall j, wbuf v'' j = None).
Proof. exact ProofsValVec32.valvec32_exactly_once_proof. Qed.
Check valvec32_exactly_once :
  forall (A : Type) c usable (ops : list (wop A)), c <= usable -> c <= MAX_CAPACITY ->
  exists v' outs v'' d,
    vv32_run A (vv_with_capacity A c usable) ops = Ok (v', outs) /\
    vv32_drop A v' = Ok (v'', d) /\
    Permutation (whistory_in A ops outs) (whistory_out A ops outs ++ d) /\
    (forall j, wbuf v'' j = None).
Print Assumptions valvec32_exactly_once.

(* Clone holds the same sequence, whatever capacity >= len the allocator hands out *)
Theorem valvec32_clone_same_sequence :
  forall (A : Type) v (l : list A) usable, W A v l -> N.of_nat (length l) <= usable ->
  exists v', vv32_clone A v usable = Ok v' /\ W A v' l.
Proof. exact ProofsValVec32.W_clone. Qed.
Check valvec32_clone_same_sequence :
  forall (A : Type) v (l : list A) usable, W A v l -> N.of_nat (length l) <= usable ->
  exists v', vv32_clone A v usable = Ok v' /\ W A v' l.
Print Assumptions valvec32_clone_same_sequence.

(* clear()/Drop destroys exactly the held sequence, each element once, and leaves no initialised slot *)
Theorem valvec32_clear_drops_each_once :
  forall (A : Type) v (l : list A), W A v l ->
  exists v', vv32_clear A v = Ok (v', l) /\ W A v' [] /\ forall j, wbuf v' j = None.
Proof. exact ProofsValVec32.W_clear. Qed.
Check valvec32_clear_drops_each_once :
  forall (A : Type) v (l : list A), W A v l ->
  exists v', vv32_clear A v = Ok (v', l) /\ W A v' [] /\ forall j, wbuf v' j = None.
Print Assumptions valvec32_clear_drops_each_once.

(* the element-level model grows by exactly the capacity arithmetic of valvec32_reserve_capacity /
   valvec32_push_capacity (golden-ratio growth, refusal at u32::MAX) *)
Theorem valvec32_capacity_agrees :
  forall (A : Type) (v : vv32 A) n x, wlen v <= wcap v ->
  match vv32_reserve A v n, vv_reserve (wlen v) (wcap v) n with
  | Some v1, Some c => wcap v1 = c
  | None, None => True
  | _, _ => False
  end /\
  match vv32_push A v x, vv_push_cap (wlen v) (wcap v) with
  | Ok (v1, (RUnit, _)), Some c => wcap v1 = c
  | Ok (_, (RErr, _)), None => True
  | _, _ => False
  end.
Proof. exact ProofsValVec32.valvec32_capacity_agrees_proof. Qed.
Check valvec32_capacity_agrees :
  forall (A : Type) (v : vv32 A) n x, wlen v <= wcap v ->
  match vv32_reserve A v n, vv_reserve (wlen v) (wcap v) n with
  | Some v1, Some c => wcap v1 = c
  | None, None => True
  | _, _ => False
  end /\
  match vv32_push A v x, vv_push_cap (wlen v) (wcap v) with
  | Ok (v1, (RUnit, _)), Some c => wcap v1 = c
  | Ok (_, (RErr, _)), None => True
  | _, _ => False
  end.
Print Assumptions valvec32_capacity_agrees.

(* fixed finding (commit 6bed45f): set() stored with ptr::write, the old element was never destroyed:
   push 1, set(0, 2), Drop: elements 1 and 2 were handed in, only 2 is ever destroyed.  With the assignment
   (`*ptr = value`) both are *)
Theorem valvec32_set_leak_refuted :
  let ops := [WPush 1; WSet 0 2] in
  match vv32_run_with N true false vv_new ops with
  | Ok (v, outs) => match vv32_drop N v with
                    | Ok (_, d) => whistory_in N ops outs = [1; 2] /\ whistory_out N ops outs ++ d = [2]
                    | UB => False
                    end
  | UB => False
  end /\
  match vv32_run N vv_new ops with
  | Ok (v, outs) => match vv32_drop N v with
                    | Ok (_, d) => whistory_in N ops outs = [1; 2] /\ whistory_out N ops outs ++ d = [1; 2]
                    | UB => False
                    end
  | UB => False
  end.
Proof. exact ProofsValVec32.valvec32_set_leak_refuted_proof. Qed.
Check valvec32_set_leak_refuted :
  let ops := [WPush 1; WSet 0 2] in
  match vv32_run_with N true false vv_new ops with
  | Ok (v, outs) => match vv32_drop N v with
                    | Ok (_, d) => whistory_in N ops outs = [1; 2] /\ whistory_out N ops outs ++ d = [2]
                    | UB => False
                    end
  | UB => False
  end /\
  match vv32_run N vv_new ops with
  | Ok (v, outs) => match vv32_drop N v with
                    | Ok (_, d) => whistory_in N ops outs = [1; 2] /\ whistory_out N ops outs ++ d = [1; 2]
                    | UB => False
                    end
  | UB => False
  end.
Print Assumptions valvec32_set_leak_refuted.

(* fixed finding: extend_from_slice(_copy) converted slice.len() with `as u32`.  For a slice of 2^32 elements the
   converted length is 0, nothing is reserved, and the first element is written outside the allocation (UB; on
   the real code: extend_from_slice_copy of 2^32+3 bytes into a ValVec32<u8> is a heap overflow, and of 2^32+3
   zero-sized elements returns Ok with len 3).  With u32::try_from the call is refused *)
Theorem valvec32_extend_truncation_refuted :
  let big := repeat 0 (N.to_nat 4294967296) in
  vv32_run_with N false true vv_new [WExtend big] = UB /\
  vv32_run N vv_new [WExtend big] = Ok (vv_new, [(RErr, [])]).
Proof. exact ProofsValVec32.valvec32_extend_truncation_refuted_proof. Qed.
Check valvec32_extend_truncation_refuted :
  let big := repeat 0 (N.to_nat 4294967296) in
  vv32_run_with N false true vv_new [WExtend big] = UB /\
  vv32_run N vv_new [WExtend big] = Ok (vv_new, [(RErr, [])]).
Print Assumptions valvec32_extend_truncation_refuted.

(* ===================== SortableStrVec (ModelStrVec.v) ===================== *)

(* the constants of the source (regenerated into gen/ConstsC10.v by the constant extractor on every run) have the
   values the proofs rely on: the accessors' field widths are the 40/60 that push_str hard-codes, the masks are
   all-ones of the field widths, and the constants the other models copy agree with the source *)
Theorem strvec_consts_ok :
  SSV_OFFSET_BITS = 40 /\ SSV_LENGTH_BITS = 20 /\ SSV_SEQ_ID_BITS = 4 /\
  SSV_OFFSET_MASK = N.ones 40 /\ SSV_LENGTH_MASK = N.ones 20 /\ SSV_SEQ_ID_MASK = N.ones 4 /\
  SSV_MAX_OFFSET = 2 ^ 40 - 1 /\ SSV_MAX_LENGTH = 2 ^ 20 - 1 /\
  VV32_MAX_CAPACITY = MAX_CAPACITY /\ RING_INITIAL_CAPACITY = INITIAL_CAPACITY.
Proof. exact ProofsStrVec.consts_ok. Qed.
Check strvec_consts_ok :
  SSV_OFFSET_BITS = 40 /\ SSV_LENGTH_BITS = 20 /\ SSV_SEQ_ID_BITS = 4 /\
  SSV_OFFSET_MASK = N.ones 40 /\ SSV_LENGTH_MASK = N.ones 20 /\ SSV_SEQ_ID_MASK = N.ones 4 /\
  SSV_MAX_OFFSET = 2 ^ 40 - 1 /\ SSV_MAX_LENGTH = 2 ^ 20 - 1 /\
  VV32_MAX_CAPACITY = MAX_CAPACITY /\ RING_INITIAL_CAPACITY = INITIAL_CAPACITY.
Print Assumptions strvec_consts_ok.

(* CompactEntry: offset(), length() and seq_id() read back what push_str packed, for every offset, length and
   sequence id that fits its field (bit-level: or of disjoint fields, mask, shift) *)
Theorem strvec_entry_roundtrip :
  forall o l s, o <= SSV_MAX_OFFSET -> l <= SSV_MAX_LENGTH -> s < 16 ->
  ce_offset (ce_pack o l s) = o /\ ce_length (ce_pack o l s) = l /\ ce_seq_id (ce_pack o l s) = s.
Proof. exact ProofsStrVec.ce_unpack. Qed.
Check strvec_entry_roundtrip :
  forall o l s, o <= SSV_MAX_OFFSET -> l <= SSV_MAX_LENGTH -> s < 16 ->
  ce_offset (ce_pack o l s) = o /\ ce_length (ce_pack o l s) = l /\ ce_seq_id (ce_pack o l s) = s.
Print Assumptions strvec_entry_roundtrip.

(* strvec_refines_spec: for every sorting routine that returns a permutation of its input and every history of
   push_str/get/len/iter/clear/sort_lexicographic/sort_by_length/sort_by(f)/radix_sort/get_sorted/iter_sorted whose
   pushed strings are byte strings, the arena + packed-entry model never panics (no slice or index out of range) and
   returns exactly what a Vec of strings with an index vector returns - Err exactly for a string longer than 2^20-1
   bytes or an arena beyond 2^40-1 bytes - and ends related to it (arena = concatenation, entries = layout, index
   vector a permutation) *)
Theorem strvec_refines_spec :
  forall usort : forall T : Type, (T -> T -> comparison) -> list T -> list T,
  (forall T c l, Permutation l (usort T c l)) ->
  forall ops, Forall sop_wf ops ->
  exists v', ssv_run usort ssv_new ops = Done (v', snd (svs_run usort svs_new ops)) /\
             SV v' (fst (svs_run usort svs_new ops)).
Proof. exact ProofsStrVec.strvec_refines_spec_proof. Qed.
Check strvec_refines_spec :
  forall usort : forall T : Type, (T -> T -> comparison) -> list T -> list T,
  (forall T c l, Permutation l (usort T c l)) ->
  forall ops, Forall sop_wf ops ->
  exists v', ssv_run usort ssv_new ops = Done (v', snd (svs_run usort svs_new ops)) /\
             SV v' (fst (svs_run usort svs_new ops)).
Print Assumptions strvec_refines_spec.

(* strvec_get_pushes: every push history whose strings fit the length field and whose total fits the offset field is
   accepted, push k returns id k, get i is the i-th pushed string (None past the end), iter() yields the pushed
   sequence *)
Theorem strvec_get_pushes :
  forall usort : forall T : Type, (T -> T -> comparison) -> list T -> list T,
  (forall T c l, Permutation l (usort T c l)) ->
  forall (ss : list bytes) i,
  Forall bytes_ok ss -> Forall (fun s => nlen s <= SSV_MAX_LENGTH) ss -> total_len ss <= SSV_MAX_OFFSET ->
  exists v', ssv_run usort ssv_new (map SPush ss) = Done (v', map (fun k => OId (N.of_nat k)) (seq 0 (length ss))) /\
             ssv_get v' i = Done (nth_error ss (N.to_nat i)) /\
             ssv_iter v' = Done ss.
Proof. exact ProofsStrVec.strvec_get_pushes_proof. Qed.
Check strvec_get_pushes :
  forall usort : forall T : Type, (T -> T -> comparison) -> list T -> list T,
  (forall T c l, Permutation l (usort T c l)) ->
  forall (ss : list bytes) i,
  Forall bytes_ok ss -> Forall (fun s => nlen s <= SSV_MAX_LENGTH) ss -> total_len ss <= SSV_MAX_OFFSET ->
  exists v', ssv_run usort ssv_new (map SPush ss) = Done (v', map (fun k => OId (N.of_nat k)) (seq 0 (length ss))) /\
             ssv_get v' i = Done (nth_error ss (N.to_nat i)) /\
             ssv_iter v' = Done ss.
Print Assumptions strvec_get_pushes.

(* a push is refused exactly when a field would overflow: the length does not fit 20 bits or the arena would
   outgrow the 40-bit offset field (the code's `offset > MAX_OFFSET/2 && ...` shortcut is equivalent) *)
Theorem strvec_push_refused_iff :
  forall v st s, SV v st ->
  (snd (ssv_push_str_with true v s) = OErr <->
   SSV_MAX_LENGTH < nlen s \/ SSV_MAX_OFFSET < total_len (sl st) + nlen s).
Proof. exact ProofsStrVec.strvec_push_refused_iff_proof. Qed.
Check strvec_push_refused_iff :
  forall v st s, SV v st ->
  (snd (ssv_push_str_with true v s) = OErr <->
   SSV_MAX_LENGTH < nlen s \/ SSV_MAX_OFFSET < total_len (sl st) + nlen s).
Print Assumptions strvec_push_refused_iff.

(* strvec_sort_is_sorted_perm: for every sorting routine meeting the contract of slice::sort_unstable_by (a
   permutation; sorted when the comparator is a total preorder), sort_lexicographic()/sort() does not panic,
   leaves the strings and their insertion order untouched (still related to the same sequence: only the index
   vector changed), and the sorted view is a permutation of the pushed strings in byte-lexicographic order - which
   is unique, hence independent of the routine (no stability is claimed: the code sorts unstably and equal strings
   are indistinguishable) *)
Theorem strvec_sort_is_sorted_perm :
  forall usort : forall T : Type, (T -> T -> comparison) -> list T -> list T,
  (forall T c l, Permutation l (usort T c l)) ->
  (forall T c l, total_preorder c -> StronglySorted (fun a b => c a b <> Gt) (usort T c l)) ->
  forall v st, SV v st ->
  exists v' view,
    ssv_sort_lex usort v = Done v' /\
    SV v' {| sl := sl st; sx := sidx v'; ssorted := true |} /\
    ssv_iter_sorted v' = Done view /\
    Permutation view (sl st) /\ StronglySorted lex_le view /\
    view = isort_by _ lex_cmp (sl st).
Proof. exact ProofsStrVec.strvec_sort_lex_proof. Qed.
Check strvec_sort_is_sorted_perm :
  forall usort : forall T : Type, (T -> T -> comparison) -> list T -> list T,
  (forall T c l, Permutation l (usort T c l)) ->
  (forall T c l, total_preorder c -> StronglySorted (fun a b => c a b <> Gt) (usort T c l)) ->
  forall v st, SV v st ->
  exists v' view,
    ssv_sort_lex usort v = Done v' /\
    SV v' {| sl := sl st; sx := sidx v'; ssorted := true |} /\
    ssv_iter_sorted v' = Done view /\
    Permutation view (sl st) /\ StronglySorted lex_le view /\
    view = isort_by _ lex_cmp (sl st).
Print Assumptions strvec_sort_is_sorted_perm.

(* sort_by(f) for a comparator that is a total preorder on strings: sorted permutation, strings untouched *)
Theorem strvec_sort_by_is_sorted_perm :
  forall usort : forall T : Type, (T -> T -> comparison) -> list T -> list T,
  (forall T c l, Permutation l (usort T c l)) ->
  (forall T c l, total_preorder c -> StronglySorted (fun a b => c a b <> Gt) (usort T c l)) ->
  forall v st (f : bytes -> bytes -> comparison), SV v st -> total_preorder f ->
  exists v' view,
    ssv_sort_by usort f v = Done v' /\
    SV v' {| sl := sl st; sx := sidx v'; ssorted := true |} /\
    ssv_iter_sorted v' = Done view /\
    Permutation view (sl st) /\ StronglySorted (fun a b => f a b <> Gt) view.
Proof. exact ProofsStrVec.strvec_sort_by_proof. Qed.
Check strvec_sort_by_is_sorted_perm :
  forall usort : forall T : Type, (T -> T -> comparison) -> list T -> list T,
  (forall T c l, Permutation l (usort T c l)) ->
  (forall T c l, total_preorder c -> StronglySorted (fun a b => c a b <> Gt) (usort T c l)) ->
  forall v st (f : bytes -> bytes -> comparison), SV v st -> total_preorder f ->
  exists v' view,
    ssv_sort_by usort f v = Done v' /\
    SV v' {| sl := sl st; sx := sidx v'; ssorted := true |} /\
    ssv_iter_sorted v' = Done view /\
    Permutation view (sl st) /\ StronglySorted (fun a b => f a b <> Gt) view.
Print Assumptions strvec_sort_by_is_sorted_perm.

(* sort_by_length (which re-uses the previous index vector when it is complete): a permutation ordered by length *)
Theorem strvec_sort_by_length_is_sorted_perm :
  forall usort : forall T : Type, (T -> T -> comparison) -> list T -> list T,
  (forall T c l, Permutation l (usort T c l)) ->
  (forall T c l, total_preorder c -> StronglySorted (fun a b => c a b <> Gt) (usort T c l)) ->
  forall v st, SV v st ->
  exists v' view,
    ssv_sort_by_length usort v = Done v' /\
    SV v' {| sl := sl st; sx := sidx v'; ssorted := true |} /\
    ssv_iter_sorted v' = Done view /\
    Permutation view (sl st) /\ StronglySorted (fun a b => nlen a <= nlen b) view.
Proof. exact ProofsStrVec.strvec_sort_by_length_proof. Qed.
Check strvec_sort_by_length_is_sorted_perm :
  forall usort : forall T : Type, (T -> T -> comparison) -> list T -> list T,
  (forall T c l, Permutation l (usort T c l)) ->
  (forall T c l, total_preorder c -> StronglySorted (fun a b => c a b <> Gt) (usort T c l)) ->
  forall v st, SV v st ->
  exists v' view,
    ssv_sort_by_length usort v = Done v' /\
    SV v' {| sl := sl st; sx := sidx v'; ssorted := true |} /\
    ssv_iter_sorted v' = Done view /\
    Permutation view (sl st) /\ StronglySorted (fun a b => nlen a <= nlen b) view.
Print Assumptions strvec_sort_by_length_is_sorted_perm.

(* radix_sort (MSD radix: ended strings first, then the buckets of byte value 0..255 in order, each sorted recursively
   one byte deeper; fewer than 32 items are handed to the comparison sort on the remaining suffixes; the index vector of
   a previous sort is re-used): never panics, leaves the strings untouched, and the sorted view is the same
   lexicographically sorted permutation that sort_lexicographic produces - for strings of any length (the recursion
   depth is bounded by the longest string) *)
Theorem strvec_radix_sort_is_sorted_perm :
  forall usort : forall T : Type, (T -> T -> comparison) -> list T -> list T,
  (forall T c l, Permutation l (usort T c l)) ->
  (forall T c l, total_preorder c -> StronglySorted (fun a b => c a b <> Gt) (usort T c l)) ->
  forall v st, SV v st ->
  exists v' view,
    ssv_radix_sort usort v = Done v' /\
    SV v' {| sl := sl st; sx := sidx v'; ssorted := true |} /\
    ssv_iter_sorted v' = Done view /\
    Permutation view (sl st) /\ StronglySorted lex_le view /\
    view = isort_by _ lex_cmp (sl st).
Proof. exact ProofsStrVec.strvec_radix_sort_proof. Qed.
Check strvec_radix_sort_is_sorted_perm :
  forall usort : forall T : Type, (T -> T -> comparison) -> list T -> list T,
  (forall T c l, Permutation l (usort T c l)) ->
  (forall T c l, total_preorder c -> StronglySorted (fun a b => c a b <> Gt) (usort T c l)) ->
  forall v st, SV v st ->
  exists v' view,
    ssv_radix_sort usort v = Done v' /\
    SV v' {| sl := sl st; sx := sidx v'; ssorted := true |} /\
    ssv_iter_sorted v' = Done view /\
    Permutation view (sl st) /\ StronglySorted lex_le view /\
    view = isort_by _ lex_cmp (sl st).
Print Assumptions strvec_radix_sort_is_sorted_perm.

(* fixed finding (commit 1a81140): without the check of the length field a string of 2^20 bytes is accepted, its
   length overflows into the sequence-id bits and get() returns the empty string; with the check it is refused *)
Theorem strvec_long_string_refuted :
  let ops := [SPush [104]; SPush long_str; SGet 1; SGet 0] in
  run_outs (ssv_run_with isort_by false ssv_new ops) = Some [OId 0; OId 1; OStr (Some []); OStr (Some [104])] /\
  run_outs (ssv_run isort_by ssv_new ops) = Some [OId 0; OErr; OStr None; OStr (Some [104])].
Proof. exact ProofsStrVec.strvec_long_string_refuted_proof. Qed.
Check strvec_long_string_refuted :
  let ops := [SPush [104]; SPush long_str; SGet 1; SGet 0] in
  run_outs (ssv_run_with isort_by false ssv_new ops) = Some [OId 0; OId 1; OStr (Some []); OStr (Some [104])] /\
  run_outs (ssv_run isort_by ssv_new ops) = Some [OId 0; OErr; OStr None; OStr (Some [104])].
Print Assumptions strvec_long_string_refuted.

(* ===================== FixedLenStrVec<N> (ModelFixedLen.v) ===================== *)

(* fixedlen_refines_list: for every N and every history of push/get/get_bytes/len/find_exact/count_prefix whose
   pushed strings are well-formed UTF-8 (they are &str), the arena + (offset:24 | length:8) model never panics and
   returns what a Vec of strings returns: Err exactly for a string longer than N or 255 bytes or an arena that
   would reach 2^24 bytes, get = the string as pushed (shorter than N: no padding; embedded NUL: kept),
   find_exact = first index, count_prefix = number of strings with the prefix *)
Theorem fixedlen_refines_list :
  forall n (ops : list fop), Forall fop_wf ops ->
  exists v', flv_run n flv_new ops = Done (v', snd (fls_run n [] ops)) /\ FV n v' (fst (fls_run n [] ops)).
Proof. exact ProofsFixedLen.fixedlen_refines_list_proof. Qed.
Check fixedlen_refines_list :
  forall n (ops : list fop), Forall fop_wf ops ->
  exists v', flv_run n flv_new ops = Done (v', snd (fls_run n [] ops)) /\ FV n v' (fst (fls_run n [] ops)).
Print Assumptions fixedlen_refines_list.

(* fixedlen_get_pushes: all pushes of strings of at most min(N, 255) bytes are accepted while the total stays below
   2^24 bytes, and get / get_bytes i is the i-th pushed string byte for byte *)
Theorem fixedlen_get_pushes :
  forall n (ss : list bytes) i,
  Forall (fun s => nlen s <= n /\ nlen s <= 255) ss -> Forall (fun s => utf8_valid s = true) ss ->
  nlen (concat ss) < 16777216 ->
  exists v', flv_run n flv_new (map FPush ss) = Done (v', map (fun _ => FUnit) ss) /\
             flv_get v' i = Done (nth_error ss (N.to_nat i)) /\
             flv_get_bytes v' i = Done (nth_error ss (N.to_nat i)) /\
             fcnt v' = nlen ss.
Proof. exact ProofsFixedLen.fixedlen_get_pushes_proof. Qed.
Check fixedlen_get_pushes :
  forall n (ss : list bytes) i,
  Forall (fun s => nlen s <= n /\ nlen s <= 255) ss -> Forall (fun s => utf8_valid s = true) ss ->
  nlen (concat ss) < 16777216 ->
  exists v', flv_run n flv_new (map FPush ss) = Done (v', map (fun _ => FUnit) ss) /\
             flv_get v' i = Done (nth_error ss (N.to_nat i)) /\
             flv_get_bytes v' i = Done (nth_error ss (N.to_nat i)) /\
             fcnt v' = nlen ss.
Print Assumptions fixedlen_get_pushes.

(* a push is refused exactly when the string is longer than N or 255 bytes, or the arena would reach 2^24 bytes *)
Theorem fixedlen_push_refused_iff :
  forall n v l s, FV n v l ->
  (snd (flv_push n v s) = FErr <-> n < nlen s \/ 255 < nlen s \/ 16777216 <= nlen (concat l) + nlen s).
Proof. exact ProofsFixedLen.fixedlen_push_refused_iff_proof. Qed.
Check fixedlen_push_refused_iff :
  forall n v l s, FV n v l ->
  (snd (flv_push n v s) = FErr <-> n < nlen s \/ 255 < nlen s \/ 16777216 <= nlen (concat l) + nlen s).
Print Assumptions fixedlen_push_refused_iff.

(* ===================== FastVec<T: Copy>: the SIMD / bulk paths (ModelFastVecCopy.v) ===================== *)

(* fastvec_copy_refines_list: for every element type and size, every kernel triple meeting its contract (copy =
   identity, fill = repeat, compare decides equality) and every history of push/pop/insert/remove/resize/clear/
   shrink_to_fit/extend/extend_from_slice_fast/reserve/get/fill_range_fast/copy_from_slice_fast/ensure_capacity, the
   Copy-type paths (temporary-buffer moves, bulk copies behind len, kernel fills, size thresholds) never read an
   uninitialised slot, refuse exactly the out-of-range insert/remove/fill, and hold the sequence the list functions
   give: the scalar path's vec_step, `firstn a l ++ repeat x (b - a) ++ skipn b l` for fill_range_fast(a, b, x),
   and the source itself for copy_from_slice_fast *)
Theorem fastvec_copy_refines_list :
  forall (A : Type) esz (fast_copy : list A -> list A) (fast_fill : A -> nat -> list A)
         (fast_compare : list A -> list A -> bool) (aeqb : A -> A -> bool),
  (forall l, fast_copy l = l) -> (forall x n, fast_fill x n = repeat x n) ->
  (forall x y, aeqb x y = true <-> x = y) ->
  (forall a b, length a = length b -> (fast_compare a b = true <-> a = b)) ->
  forall c (ops : list (cop A)),
  exists v', fvc_run A esz fast_copy fast_fill (fv_with_capacity c) ops = Ok (v', snd (cvec_run A [] ops)) /\
             V A v' (fst (cvec_run A [] ops)).
Proof. exact ProofsFastVecCopy.fastvec_copy_refines_list_proof. Qed.
Check fastvec_copy_refines_list :
  forall (A : Type) esz (fast_copy : list A -> list A) (fast_fill : A -> nat -> list A)
         (fast_compare : list A -> list A -> bool) (aeqb : A -> A -> bool),
  (forall l, fast_copy l = l) -> (forall x n, fast_fill x n = repeat x n) ->
  (forall x y, aeqb x y = true <-> x = y) ->
  (forall a b, length a = length b -> (fast_compare a b = true <-> a = b)) ->
  forall c (ops : list (cop A)),
  exists v', fvc_run A esz fast_copy fast_fill (fv_with_capacity c) ops = Ok (v', snd (cvec_run A [] ops)) /\
             V A v' (fst (cvec_run A [] ops)).
Print Assumptions fastvec_copy_refines_list.

(* fastvec_bulk_equals_scalar: on every well-formed vector, each operation of the Copy path that has a scalar
   counterpart in Model.v (extend_from_slice_fast ~ extend) returns the same value and ends in the same len, the
   same capacity and a pointwise equal buffer as the scalar path *)
Theorem fastvec_bulk_equals_scalar :
  forall (A : Type) esz (fast_copy : list A -> list A) (fast_fill : A -> nat -> list A)
         (fast_compare : list A -> list A -> bool) (aeqb : A -> A -> bool),
  (forall l, fast_copy l = l) -> (forall x n, fast_fill x n = repeat x n) ->
  (forall x y, aeqb x y = true <-> x = y) ->
  (forall a b, length a = length b -> (fast_compare a b = true <-> a = b)) ->
  forall (v : fvec A) (l : list A) (o : cop A) (so : vop A), V A v l -> scalar_of A o = Some so ->
  exists v1 v2 b2,
    fvc_step A esz fast_copy fast_fill v o = Ok (v1, fst b2) /\ fv_step A v so = Ok (v2, b2) /\
    vlen v1 = vlen v2 /\ vcap v1 = vcap v2 /\ (forall j, vbuf v1 j = vbuf v2 j).
Proof. exact ProofsFastVecCopy.fastvec_bulk_equals_scalar_proof. Qed.
Check fastvec_bulk_equals_scalar :
  forall (A : Type) esz (fast_copy : list A -> list A) (fast_fill : A -> nat -> list A)
         (fast_compare : list A -> list A -> bool) (aeqb : A -> A -> bool),
  (forall l, fast_copy l = l) -> (forall x n, fast_fill x n = repeat x n) ->
  (forall x y, aeqb x y = true <-> x = y) ->
  (forall a b, length a = length b -> (fast_compare a b = true <-> a = b)) ->
  forall (v : fvec A) (l : list A) (o : cop A) (so : vop A), V A v l -> scalar_of A o = Some so ->
  exists v1 v2 b2,
    fvc_step A esz fast_copy fast_fill v o = Ok (v1, fst b2) /\ fv_step A v so = Ok (v2, b2) /\
    vlen v1 = vlen v2 /\ vcap v1 = vcap v2 /\ (forall j, vbuf v1 j = vbuf v2 j).
Print Assumptions fastvec_bulk_equals_scalar.

(* PartialEq (length check, fast_compare on the byte view when beneficial, slice equality otherwise) decides
   equality of the held sequences *)
Theorem fastvec_copy_eq_decides :
  forall (A : Type) esz (fast_copy : list A -> list A) (fast_fill : A -> nat -> list A)
         (fast_compare : list A -> list A -> bool) (aeqb : A -> A -> bool),
  (forall l, fast_copy l = l) -> (forall x n, fast_fill x n = repeat x n) ->
  (forall x y, aeqb x y = true <-> x = y) ->
  (forall a b, length a = length b -> (fast_compare a b = true <-> a = b)) ->
  forall (v w : fvec A) (l m : list A), V A v l -> V A w m ->
  exists b, fvc_eq A esz fast_compare aeqb v w = Ok b /\ (b = true <-> l = m).
Proof. exact ProofsFastVecCopy.fvc_eq_spec. Qed.
Check fastvec_copy_eq_decides :
  forall (A : Type) esz (fast_copy : list A -> list A) (fast_fill : A -> nat -> list A)
         (fast_compare : list A -> list A -> bool) (aeqb : A -> A -> bool),
  (forall l, fast_copy l = l) -> (forall x n, fast_fill x n = repeat x n) ->
  (forall x y, aeqb x y = true <-> x = y) ->
  (forall a b, length a = length b -> (fast_compare a b = true <-> a = b)) ->
  forall (v w : fvec A) (l m : list A), V A v l -> V A w m ->
  exists b, fvc_eq A esz fast_compare aeqb v w = Ok b /\ (b = true <-> l = m).
Print Assumptions fastvec_copy_eq_decides.

(* fixed findings (commits e1bd0ea, d3bd929): on the pinned tree ensure_capacity(1) on [1; 2] aborts the process
   (outcome UB), so does copy_from_slice_fast(&[9]), and copy_from_slice_fast(&[]) leaves both elements; the
   repaired code yields [9] and []  *)
Theorem fastvec_copy_from_refuted :
  let v12 := fv_push N (fv_push N fv_new 1) 2 in
  fvc_step_with N 8 k_copy k_fill true v12 (CCopyFrom [9]) = UB /\
  fvc_step_with N 8 k_copy k_fill true v12 (CEnsure 1) = UB /\
  match fvc_step_with N 8 k_copy k_fill true v12 (CCopyFrom []) with Ok (v, _) => vlen v = 2 | UB => False end /\
  match fvc_step N 8 k_copy k_fill v12 (CCopyFrom [9]) with Ok (v, _) => vlen v = 1 /\ vbuf v 0 = Some 9 /\ vbuf v 1 = None | UB => False end /\
  match fvc_step N 8 k_copy k_fill v12 (CCopyFrom []) with Ok (v, _) => vlen v = 0 /\ vbuf v 0 = None | UB => False end.
Proof. exact ProofsFastVecCopy.fastvec_copy_from_refuted_proof. Qed.
Check fastvec_copy_from_refuted :
  let v12 := fv_push N (fv_push N fv_new 1) 2 in
  fvc_step_with N 8 k_copy k_fill true v12 (CCopyFrom [9]) = UB /\
  fvc_step_with N 8 k_copy k_fill true v12 (CEnsure 1) = UB /\
  match fvc_step_with N 8 k_copy k_fill true v12 (CCopyFrom []) with Ok (v, _) => vlen v = 2 | UB => False end /\
  match fvc_step N 8 k_copy k_fill v12 (CCopyFrom [9]) with Ok (v, _) => vlen v = 1 /\ vbuf v 0 = Some 9 /\ vbuf v 1 = None | UB => False end /\
  match fvc_step N 8 k_copy k_fill v12 (CCopyFrom []) with Ok (v, _) => vlen v = 0 /\ vbuf v 0 = None | UB => False end.
Print Assumptions fastvec_copy_from_refuted.

(* ===== extension 3: memory::cache::CacheAlignedVec and BumpVec (ModelCacheVec.v) ===== *)

(* memory::cache::CacheAlignedVec::reallocate: for every element size and every request of at most 2^62 bytes the
   capacity recorded after `(n * size + 63) & !63` / size covers the request and wastes less than one cache line *)
Theorem cachevec_capacity_aligned :
  forall sz n, 0 < sz -> n * sz <= 2 ^ 62 ->
  exists a, cav_aligned_capacity sz n = Some a /\ n <= a /\ a * sz <= n * sz + 63.
Proof. exact ProofsCacheVec.cav_aligned_ok. Qed.
Check cachevec_capacity_aligned :
  forall sz n, 0 < sz -> n * sz <= 2 ^ 62 ->
  exists a, cav_aligned_capacity sz n = Some a /\ n <= a /\ a * sz <= n * sz + 63.
Print Assumptions cachevec_capacity_aligned.

(* cachevec_refines_list: for every element type and size, requested capacity and history of push/pop/get/clear/
   truncate/reserve whose slots fit 2^60 bytes, the model of memory::cache::CacheAlignedVec never touches a slot
   outside its block or an uninitialised one (no UB), nothing is refused, every operation returns what a Vec returns
   (values, and the elements destroyed by clear/truncate in order), and the final state holds the Vec's sequence *)
Theorem cachevec_refines_list :
  forall (A : Type) sz c (ops : list (aop A)), 0 < sz -> (c + ahist_size A ops) * sz <= 2 ^ 60 ->
  exists v0 v', cav_with_capacity A sz c = Ok (Some v0) /\ c <= acap v0 /\
                cav_run A sz v0 ops = Ok (v', snd (avec_run A [] ops)) /\ AW A v' (fst (avec_run A [] ops)).
Proof. exact ProofsCacheVec.cachevec_refines_list_proof. Qed.
Check cachevec_refines_list :
  forall (A : Type) sz c (ops : list (aop A)), 0 < sz -> (c + ahist_size A ops) * sz <= 2 ^ 60 ->
  exists v0 v', cav_with_capacity A sz c = Ok (Some v0) /\ c <= acap v0 /\
                cav_run A sz v0 ops = Ok (v', snd (avec_run A [] ops)) /\ AW A v' (fst (avec_run A [] ops)).
Print Assumptions cachevec_refines_list.

(* over a whole history followed by Drop the pushed elements are - as a multiset - exactly the elements handed back
   by pop plus the elements destroyed by clear, truncate and Drop; no initialised slot is left in the freed block *)
Theorem cachevec_exactly_once :
  forall (A : Type) sz c (ops : list (aop A)), 0 < sz -> (c + ahist_size A ops) * sz <= 2 ^ 60 ->
  exists v0 v' outs v'' d,
    cav_with_capacity A sz c = Ok (Some v0) /\ cav_run A sz v0 ops = Ok (v', outs) /\
    cav_drop A v' = Ok (v'', d) /\
    Permutation (ahistory_in A ops) (ahistory_out A ops outs ++ d) /\
    (forall j, abuf v'' j = None).
Proof. exact ProofsCacheVec.cachevec_exactly_once_proof. Qed.
Check cachevec_exactly_once :
  forall (A : Type) sz c (ops : list (aop A)), 0 < sz -> (c + ahist_size A ops) * sz <= 2 ^ 60 ->
  exists v0 v' outs v'' d,
    cav_with_capacity A sz c = Ok (Some v0) /\ cav_run A sz v0 ops = Ok (v', outs) /\
    cav_drop A v' = Ok (v'', d) /\
    Permutation (ahistory_in A ops) (ahistory_out A ops outs ++ d) /\
    (forall j, abuf v'' j = None).
Print Assumptions cachevec_exactly_once.

(* truncate(n) destroys exactly the elements from n on, in order, keeps the first n and the capacity *)
Theorem cachevec_truncate_drops_tail :
  forall (A : Type) v (l : list A) n, AW A v l ->
  exists v', cav_truncate A v n = Ok (v', skipn (N.to_nat n) l) /\ AW A v' (firstn (N.to_nat n) l) /\ acap v' = acap v.
Proof. exact ProofsCacheVec.AW_truncate. Qed.
Check cachevec_truncate_drops_tail :
  forall (A : Type) v (l : list A) n, AW A v l ->
  exists v', cav_truncate A v n = Ok (v', skipn (N.to_nat n) l) /\ AW A v' (firstn (N.to_nat n) l) /\ acap v' = acap v.
Print Assumptions cachevec_truncate_drops_tail.

(* BumpVec: for every element type, capacity > 0 and history of push/pop/get the model never touches a slot outside
   the block handed out by the allocator or an uninitialised one, a push is refused exactly when len = capacity (the
   refused value is destroyed, nothing else changes), everything else is what a Vec returns; capacity never changes *)
Theorem bumpvec_refines_bounded_vec :
  forall (A : Type) c (ops : list (bop A)), 0 < c ->
  exists v0 v', bv_new_in A c = Some v0 /\ bv_run A v0 ops = Ok (v', snd (bvec_run A c [] ops)) /\
                AW A v' (fst (bvec_run A c [] ops)) /\ acap v' = c /\ nlen (fst (bvec_run A c [] ops)) <= c.
Proof. exact ProofsCacheVec.bumpvec_refines_bounded_vec_proof. Qed.
Check bumpvec_refines_bounded_vec :
  forall (A : Type) c (ops : list (bop A)), 0 < c ->
  exists v0 v', bv_new_in A c = Some v0 /\ bv_run A v0 ops = Ok (v', snd (bvec_run A c [] ops)) /\
                AW A v' (fst (bvec_run A c [] ops)) /\ acap v' = c /\ nlen (fst (bvec_run A c [] ops)) <= c.
Print Assumptions bumpvec_refines_bounded_vec.

(* history + Drop of a BumpVec: pushed = popped + destroyed (refused values, Drop), nothing initialised stays behind *)
Theorem bumpvec_exactly_once :
  forall (A : Type) c (ops : list (bop A)), 0 < c ->
  exists v0 v' outs v'' d,
    bv_new_in A c = Some v0 /\ bv_run A v0 ops = Ok (v', outs) /\
    bv_drop A v' = Ok (v'', d) /\
    Permutation (bhistory_in A ops) (bhistory_out A ops outs ++ d) /\
    (forall j, abuf v'' j = None).
Proof. exact ProofsCacheVec.bumpvec_exactly_once_proof. Qed.
Check bumpvec_exactly_once :
  forall (A : Type) c (ops : list (bop A)), 0 < c ->
  exists v0 v' outs v'' d,
    bv_new_in A c = Some v0 /\ bv_run A v0 ops = Ok (v', outs) /\
    bv_drop A v' = Ok (v'', d) /\
    Permutation (bhistory_in A ops) (bhistory_out A ops outs ++ d) /\
    (forall j, abuf v'' j = None).
Print Assumptions bumpvec_exactly_once.

(* ===== extension 3: BitPackedStringVec32/64 (ModelBitPacked.v) ===== *)

(* BitPackedEntry: offset()/length() of a packed entry are the packed values whenever each fits its bit field
   (32 + 32 bits for the u32 variant, 40 + 24 bits for the u64 variant); bit-level proof *)
Theorem bitpacked_entry_roundtrip :
  forall (w64 : bool) o l, o <= (if w64 then MASK40 else U32_MAX) -> l <= bp_max_length w64 ->
  bp_offset w64 (bp_pack w64 o l) = o /\ bp_length w64 (bp_pack w64 o l) = l.
Proof. exact ProofsBitPacked.bp_unpack. Qed.
Check bitpacked_entry_roundtrip :
  forall (w64 : bool) o l, o <= (if w64 then MASK40 else U32_MAX) -> l <= bp_max_length w64 ->
  bp_offset w64 (bp_pack w64 o l) = o /\ bp_length w64 (bp_pack w64 o l) = l.
Print Assumptions bitpacked_entry_roundtrip.

(* bitpacked_refines_list: for both variants and every history of push/get/get_bytes/len over well-formed UTF-8
   strings (64-bit variant: at most 2^40 - 1 bytes pushed in total, the width of its offset field), no indexing panics,
   push returns the Vec index or refuses exactly at the limits (u32 variant: arena would exceed u32::MAX; u64 variant:
   string longer than 2^24 - 1 bytes - whose bytes stay in the arena without an entry), get/get_bytes i = i-th accepted
   string, len = their number; BV holds at the end *)
Theorem bitpacked_refines_list :
  forall (w64 : bool) (ops : list pop), Forall pop_wf ops -> (w64 = true -> phist_bytes ops <= MASK40) ->
  exists v', bpv_run w64 bpv_new ops = Done (v', snd (bps_run w64 ([], 0) ops)) /\
             BV w64 v' (fst (bps_run w64 ([], 0) ops)).
Proof. exact ProofsBitPacked.bitpacked_refines_list_proof. Qed.
Check bitpacked_refines_list :
  forall (w64 : bool) (ops : list pop), Forall pop_wf ops -> (w64 = true -> phist_bytes ops <= MASK40) ->
  exists v', bpv_run w64 bpv_new ops = Done (v', snd (bps_run w64 ([], 0) ops)) /\
             BV w64 v' (fst (bps_run w64 ([], 0) ops)).
Print Assumptions bitpacked_refines_list.

(* strings of at most 2^24 - 1 bytes with a total of at most u32::MAX bytes are all accepted by both variants and
   get / get_bytes i is the i-th pushed string byte for byte *)
Theorem bitpacked_get_pushes :
  forall (w64 : bool) (ss : list bytes) i,
  Forall (fun s => utf8_valid s = true /\ nlen s <= MASK24) ss -> nlen (concat ss) <= U32_MAX ->
  exists v outs, bpv_run w64 bpv_new (map PPush ss) = Done (v, outs) /\
                 bpv_get w64 v i = Done (nth_error ss (N.to_nat i)) /\
                 bpv_get_bytes w64 v i = Done (nth_error ss (N.to_nat i)) /\ nlen (pentries v) = nlen ss.
Proof. exact ProofsBitPacked.bitpacked_get_pushes_proof. Qed.
Check bitpacked_get_pushes :
  forall (w64 : bool) (ss : list bytes) i,
  Forall (fun s => utf8_valid s = true /\ nlen s <= MASK24) ss -> nlen (concat ss) <= U32_MAX ->
  exists v outs, bpv_run w64 bpv_new (map PPush ss) = Done (v, outs) /\
                 bpv_get w64 v i = Done (nth_error ss (N.to_nat i)) /\
                 bpv_get_bytes w64 v i = Done (nth_error ss (N.to_nat i)) /\ nlen (pentries v) = nlen ss.
Print Assumptions bitpacked_get_pushes.

(* ===== extension 3: AutoGrowCircularQueue::pop_bulk and the caller's slice (ModelRingBulk.v) ===== *)

(* pop_bulk(&mut out) seen from the caller's slice: for every ring holding l (any head offset, wrapped or not) and every
   slice, the first k = min(|out|, |l|) slots of the slice receive the first k elements of l in order, exactly the k
   overwritten values are destroyed (in index order, each once), the other slots keep their values, no uninitialised
   slot is read, and the ring holds the rest of l *)
Theorem ring_pop_bulk_into_slice :
  forall (A : Type) q (l out : list A), R A q l ->
  let k := Nat.min (length out) (length l) in
  exists q', pop_bulk_into A q out = Ok (q', (firstn k l ++ skipn k out, firstn k out)) /\ R A q' (skipn k l).
Proof. exact ProofsRingBulk.ring_pop_bulk_into_proof. Qed.
Check ring_pop_bulk_into_slice :
  forall (A : Type) q (l out : list A), R A q l ->
  let k := Nat.min (length out) (length l) in
  exists q', pop_bulk_into A q out = Ok (q', (firstn k l ++ skipn k out, firstn k out)) /\ R A q' (skipn k l).
Print Assumptions ring_pop_bulk_into_slice.

(* the slice-level function moves exactly what Model.pop_bulk (the operation of ring_refines_deque) moves *)
Theorem ring_pop_bulk_into_agrees :
  forall (A : Type) q (out : list A) q' xs, pop_bulk A q (nlen out) = Ok (q', xs) ->
  pop_bulk_into A q out = Ok (q', (xs ++ skipn (length xs) out, firstn (length xs) out)).
Proof. exact ProofsRingBulk.pop_bulk_into_spec. Qed.
Check ring_pop_bulk_into_agrees :
  forall (A : Type) q (out : list A) q' xs, pop_bulk A q (nlen out) = Ok (q', xs) ->
  pop_bulk_into A q out = Ok (q', (xs ++ skipn (length xs) out, firstn (length xs) out)).
Print Assumptions ring_pop_bulk_into_agrees.
