(* C10 property theorems.  Statements + exact + Print Assumptions only. *)
From ZV.Common Require Import Base.
From ZV.C10 Require Import Model.
Open Scope N_scope.
