(* MSD radix sort on (index, string) pairs (SortableStrVec::radix_sort_msd_helper): a permutation, and sorted in
   byte-lexicographic order whenever the items share their first `depth` bytes and the fuel exceeds the longest string. *)
From Coq Require Import Permutation Sorted.
From ZV.Common Require Import Base.
From ZV.C10 Require Import ModelArena ProofsArena ModelStrVec.
Open Scope N_scope.

Definition item : Type := (N * bytes)%type.
Definition item_ok (p : item) : Prop := bytes_ok (snd p).
Definition ile (a b : item) : Prop := lex_le (snd a) (snd b).

(* ---------- generic list facts ---------- *)
Lemma filter_split_perm {T} (f g : T -> bool) (l : list T) :
  (forall x, f x = true -> g x = false) ->
  Permutation (filter (fun x => f x || g x) l) (filter f l ++ filter g l).
Proof.
  intros Hd. induction l as [|x l IH]; [apply Permutation_refl|]. cbn [filter].
  destruct (f x) eqn:Ef; cbn [orb].
  - rewrite (Hd x Ef). cbn [app]. apply perm_skip. exact IH.
  - destruct (g x) eqn:Eg.
    + eapply Permutation_trans; [apply perm_skip; exact IH|]. apply Permutation_middle.
    + exact IH.
Qed.

Lemma partition_perm {T} (key : T -> N) (l : list T) n :
  Permutation (filter (fun x => key x <? N.of_nat n) l)
              (concat (map (fun k => filter (fun x => key x =? k) l) (nseq 0 n))).
Proof.
  induction n as [|n IH].
  - cbn [nseq map concat]. assert (E : filter (fun x => key x <? N.of_nat 0) l = []).
    { induction l as [|x l IHl]; [reflexivity|]. cbn [filter]. destruct (N.ltb_spec (key x) (N.of_nat 0)); [lia|exact IHl]. }
    rewrite E. apply Permutation_refl.
  - rewrite nseq_S, map_app, concat_app. cbn [map concat]. rewrite app_nil_r.
    eapply Permutation_trans; [|apply Permutation_app_tail; exact IH].
    replace (0 + N.of_nat n) with (N.of_nat n) by lia.
    rewrite (filter_ext _ (fun x => (key x <? N.of_nat n) || (key x =? N.of_nat n))).
    + apply filter_split_perm. intros x Hx. destruct (N.ltb_spec (key x) (N.of_nat n)); [|discriminate].
      destruct (N.eqb_spec (key x) (N.of_nat n)); [lia|reflexivity].
    + intros x. destruct (N.ltb_spec (key x) (N.of_nat (S n))); destruct (N.ltb_spec (key x) (N.of_nat n));
        destruct (N.eqb_spec (key x) (N.of_nat n)); cbn [orb]; try reflexivity; lia.
Qed.

Lemma filter_all {T} (f : T -> bool) (l : list T) : (forall x, In x l -> f x = true) -> filter f l = l.
Proof.
  induction l as [|x l IH]; intros H; [reflexivity|]. cbn [filter]. rewrite (H x (or_introl eq_refl)). f_equal.
  apply IH. intros y Hy. apply H. right. exact Hy.
Qed.

Lemma Permutation_concat_map {T K} (f g : K -> list T) (ks : list K) :
  (forall k, In k ks -> Permutation (f k) (g k)) -> Permutation (concat (map f ks)) (concat (map g ks)).
Proof.
  induction ks as [|k ks IH]; intros H; [apply Permutation_refl|]. cbn [map concat].
  apply Permutation_app; [apply H; left; reflexivity|apply IH; intros k' Hk'; apply H; right; exact Hk'].
Qed.

Lemma StronglySorted_app {T} (R : T -> T -> Prop) l1 l2 :
  StronglySorted R l1 -> StronglySorted R l2 -> (forall a b, In a l1 -> In b l2 -> R a b) ->
  StronglySorted R (l1 ++ l2).
Proof.
  intros H1 H2 Hc. induction H1 as [|x l1 Hs IH Hall]; [exact H2|]. cbn [app]. constructor.
  - apply IH. intros a b Ha Hb. apply Hc; [right; exact Ha|exact Hb].
  - apply Forall_app. split; [exact Hall|]. rewrite Forall_forall. intros b Hb. apply Hc; [left; reflexivity|exact Hb].
Qed.

Lemma StronglySorted_in_impl {T} (R R' : T -> T -> Prop) l :
  StronglySorted R l -> (forall a b, In a l -> In b l -> R a b -> R' a b) -> StronglySorted R' l.
Proof.
  induction 1 as [|x l Hs IH Hall]; intros Hi; [constructor|]. constructor.
  - apply IH. intros a b Ha Hb. apply Hi; right; assumption.
  - rewrite Forall_forall in *. intros b Hb. apply Hi; [left; reflexivity|right; exact Hb|apply Hall; exact Hb].
Qed.

Lemma all_related_sorted {T} (R : T -> T -> Prop) l : (forall a b, In a l -> In b l -> R a b) -> StronglySorted R l.
Proof.
  induction l as [|x l IH]; intros H; [constructor|]. constructor.
  - apply IH. intros a b Ha Hb. apply H; right; assumption.
  - rewrite Forall_forall. intros b Hb. apply H; [left; reflexivity|right; exact Hb].
Qed.

(* parts indexed by increasing keys: sorted parts, ordered across parts *)
Lemma sorted_concat_keys {T} (R : T -> T -> Prop) (part : N -> list T) n : forall s,
  (forall k, In k (nseq s n) -> StronglySorted R (part k)) ->
  (forall k1 k2 a b, In k1 (nseq s n) -> In k2 (nseq s n) -> k1 < k2 -> In a (part k1) -> In b (part k2) -> R a b) ->
  StronglySorted R (concat (map part (nseq s n))).
Proof.
  induction n as [|n IH]; intros s Hs Hc; [constructor|]. cbn [nseq map concat].
  apply StronglySorted_app.
  - apply Hs. left. reflexivity.
  - apply IH.
    + intros k Hk. apply Hs. right. exact Hk.
    + intros k1 k2 a b H1 H2. apply Hc; right; assumption.
  - intros a b Ha Hb. apply in_concat in Hb. destruct Hb as [l [Hl Hb]]. apply in_map_iff in Hl. destruct Hl as [k [<- Hk]].
    apply (Hc s k); [left; reflexivity|right; exact Hk|apply nseq_In in Hk; lia|exact Ha|exact Hb].
Qed.

(* ---------- strings with a common prefix ---------- *)
Lemma lex_cmp_app_prefix (p : bytes) a b : lex_cmp (p ++ a) (p ++ b) = lex_cmp a b.
Proof. induction p as [|x p IH]; [reflexivity|]. cbn [app lex_cmp]. rewrite N.compare_refl. exact IH. Qed.

Lemma lex_cmp_common (d : nat) (a b : bytes) :
  firstn d a = firstn d b -> lex_cmp a b = lex_cmp (skipn d a) (skipn d b).
Proof.
  intros H. rewrite <- (firstn_skipn d a) at 1. rewrite <- (firstn_skipn d b) at 1. rewrite H. apply lex_cmp_app_prefix.
Qed.

Lemma firstn_S_nth {T} (l : list T) d x : nth_error l d = Some x -> firstn (S d) l = firstn d l ++ [x].
Proof.
  revert d. induction l as [|y l IH]; intros [|d] H; cbn [nth_error] in H; try discriminate.
  - injection H as ->. reflexivity.
  - cbn [firstn app]. f_equal. apply IH. exact H.
Qed.

Lemma skipn_nth_cons {T} (l : list T) d x : nth_error l d = Some x -> exists t, skipn d l = x :: t.
Proof.
  revert d. induction l as [|y l IH]; intros [|d] H; cbn [nth_error] in H; try discriminate.
  - injection H as ->. exists l. reflexivity.
  - cbn [skipn]. apply IH. exact H.
Qed.

(* items that agree on their first d bytes (and are at least that long) *)
Definition common (d : nat) (items : list item) : Prop :=
  (forall p q, In p items -> In q items -> firstn d (snd p) = firstn d (snd q)) /\
  (forall p, In p items -> (d <= length (snd p))%nat).

Lemma key_lt_ile d a b :
  firstn d (snd a) = firstn d (snd b) -> rkey d a < rkey d b -> ile a b.
Proof.
  intros Hp Hk. unfold ile. unfold lex_le. unfold rkey in Hk. unfold item, bytes in *. rewrite (lex_cmp_common d _ _ Hp).
  destruct (nth_error (snd b) d) as [y|] eqn:Eb; [|lia].
  destruct (skipn_nth_cons _ _ _ Eb) as [tb ->].
  destruct (nth_error (snd a) d) as [x|] eqn:Ea.
  - destruct (skipn_nth_cons _ _ _ Ea) as [ta ->]. cbn [lex_cmp].
    assert (E : (x ?= y) = Lt) by (apply N.compare_lt_iff; lia). rewrite E. discriminate.
  - apply nth_error_None in Ea. rewrite skipn_all2 by exact Ea. cbn [lex_cmp]. discriminate.
Qed.

Lemma ended_equal d a b :
  firstn d (snd a) = firstn d (snd b) -> (d <= length (snd a))%nat -> (d <= length (snd b))%nat ->
  rkey d a = 0 -> rkey d b = 0 -> ile a b.
Proof.
  intros Hp Ha Hb Ka Kb. unfold rkey in *. unfold ile. unfold lex_le. unfold item, bytes in *.
  destruct (nth_error (snd a) d) eqn:Ea; [lia|]. destruct (nth_error (snd b) d) eqn:Eb; [lia|].
  apply nth_error_None in Ea, Eb.
  rewrite (firstn_all2 (n:=d) (snd a)) in Hp by lia. rewrite (firstn_all2 (n:=d) (snd b)) in Hp by lia.
  rewrite Hp, lex_cmp_refl. discriminate.
Qed.

Section Radix.
Variable usort : forall T : Type, (T -> T -> comparison) -> list T -> list T.
Hypothesis usort_perm : forall T c l, Permutation l (usort T c l).

Lemma bucket_in d k items p : In p (bucket d k items) <-> In p items /\ rkey d p = k.
Proof. unfold bucket. rewrite filter_In. split; intros [H1 H2]; (split; [exact H1|]); [apply N.eqb_eq|apply N.eqb_eq]; exact H2. Qed.

Lemma rkey_bound d p : item_ok p -> rkey d p < 257.
Proof.
  intros Hp. unfold rkey. destruct (nth_error (snd p) d) as [b|] eqn:E; [|lia].
  unfold item_ok, bytes_ok in Hp. rewrite Forall_forall in Hp. pose proof (Hp b (nth_error_In _ _ E)) as Hb. unfold is_byte in Hb. lia.
Qed.

(* the buckets 0, 1..256 partition the items *)
Lemma buckets_perm d items :
  Forall item_ok items ->
  Permutation items (bucket d 0 items ++ concat (map (fun k => bucket d k items) (nseq 1 256))).
Proof.
  intros Hok.
  pose proof (partition_perm (rkey d) items 257) as Hp.
  rewrite (filter_all _ items) in Hp.
  - change (nseq 0 257) with (0 :: nseq (0 + 1) 256) in Hp. cbn [map concat] in Hp. exact Hp.
  - intros p Hin. rewrite Forall_forall in Hok. pose proof (rkey_bound d p (Hok p Hin)).
    destruct (N.ltb_spec (rkey d p) (N.of_nat 257)); [reflexivity|lia].
Qed.

Ltac case_if := match goal with |- context [if ?c then _ else _] => destruct c eqn:? end.

Lemma msd_perm fuel : forall d items, Forall item_ok items -> Permutation items (msd usort fuel d items).
Proof.
  induction fuel as [|f IH]; intros d items Hok; cbn [msd].
  - case_if; [apply Permutation_refl|]. case_if; [apply usort_perm|apply Permutation_refl].
  - case_if; [apply Permutation_refl|]. case_if; [apply usort_perm|].
    eapply Permutation_trans; [apply (buckets_perm d items Hok)|]. apply Permutation_app_head.
    apply Permutation_concat_map. intros k _. apply IH.
    unfold bucket. rewrite Forall_forall in *. intros p Hp. apply filter_In in Hp. apply Hok. apply Hp.
Qed.

Hypothesis usort_sorted : forall T c l, total_preorder c -> StronglySorted (fun a b => c a b <> Gt) (usort T c l).

Lemma msd_sorted fuel : forall d items,
  Forall item_ok items -> common d items ->
  (forall p, In p items -> (length (snd p) + 1 <= d + fuel)%nat) ->
  StronglySorted ile (msd usort fuel d items).
Proof.
  induction fuel as [|f IH]; intros d items Hok [Hpre Hlen] Hfuel.
  - (* no fuel left: every item would be shorter than the depth, so there is none *)
    destruct items as [|p items].
    + cbn [msd length]. constructor.
    + exfalso. pose proof (Hfuel p (or_introl eq_refl)). pose proof (Hlen p (or_introl eq_refl)). lia.
  - cbn [msd]. match goal with |- context [if ?c then _ else _] => destruct c eqn:E1 end.
    + apply Nat.leb_le in E1. destruct items as [|p [|q r]]; cbn [length] in E1; try lia; repeat constructor.
    + match goal with |- context [if ?c then _ else _] => destruct c eqn:E2 end.
      * pose proof (usort_sorted _ (fun a b : item => lex_cmp (skipn d (snd a)) (skipn d (snd b))) items
                      (total_preorder_on lex_cmp (fun p : item => skipn d (snd p)) lex_total_preorder)) as Hs.
        eapply StronglySorted_in_impl; [exact Hs|]. intros a b Ha Hb Hab.
        apply (Permutation_in _ (Permutation_sym (usort_perm _ _ items))) in Ha, Hb.
        unfold ile; unfold lex_le; unfold bytes in *. rewrite (lex_cmp_common d _ _ (Hpre a b Ha Hb)). exact Hab.
      * apply StronglySorted_app.
        -- apply all_related_sorted. intros a b Ha Hb. apply bucket_in in Ha, Hb. destruct Ha as [Ha Ka], Hb as [Hb Kb].
           apply (ended_equal d); [apply Hpre; assumption|apply Hlen; assumption|apply Hlen; assumption|exact Ka|exact Kb].
        -- apply sorted_concat_keys.
           ++ intros k Hk. apply nseq_In in Hk. apply IH.
              ** unfold bucket. rewrite Forall_forall in *. intros p Hp. apply filter_In in Hp. apply Hok. apply Hp.
              ** split.
                 --- intros p q Hp Hq. apply bucket_in in Hp, Hq. destruct Hp as [Hp Kp], Hq as [Hq Kq]. unfold rkey in Kp, Kq.
                     destruct (nth_error (snd p) d) as [x|] eqn:Ex; [|lia]. destruct (nth_error (snd q) d) as [y|] eqn:Ey; [|lia].
                     rewrite (firstn_S_nth _ _ _ Ex), (firstn_S_nth _ _ _ Ey), (Hpre p q Hp Hq). f_equal. f_equal. lia.
                 --- intros p Hp. apply bucket_in in Hp. destruct Hp as [Hp Kp]. unfold rkey in Kp.
                     destruct (nth_error (snd p) d) as [x|] eqn:Ex; [|lia].
                     assert (d < length (snd p))%nat by (apply nth_error_Some; rewrite Ex; discriminate). lia.
              ** intros p Hp. apply bucket_in in Hp. destruct Hp as [Hp _]. specialize (Hfuel p Hp). lia.
           ++ intros k1 k2 a b Hk1 Hk2 Hlt Ha Hb.
              assert (Hin : forall k x, In x (msd usort f (S d) (bucket d k items)) -> In x items /\ rkey d x = k).
              { intros k x Hx. apply bucket_in. eapply Permutation_in; [apply Permutation_sym, msd_perm|exact Hx].
                unfold bucket. rewrite Forall_forall in *. intros p Hp. apply filter_In in Hp. apply Hok. apply Hp. }
              destruct (Hin _ _ Ha) as [Hia Ka]. destruct (Hin _ _ Hb) as [Hib Kb].
              apply (key_lt_ile d); [apply Hpre; assumption|lia].
        -- intros a b Ha Hb. apply bucket_in in Ha. destruct Ha as [Hia Ka].
           apply in_concat in Hb. destruct Hb as [l [Hl Hb]]. apply in_map_iff in Hl. destruct Hl as [k [<- Hk]].
           apply nseq_In in Hk.
           assert (Hb' : In b items /\ rkey d b = k).
           { apply bucket_in. eapply Permutation_in; [apply Permutation_sym, msd_perm|exact Hb].
             unfold bucket. rewrite Forall_forall in *. intros p Hp. apply filter_In in Hp. apply Hok. apply Hp. }
           destruct Hb' as [Hib Kb]. apply (key_lt_ile d); [apply Hpre; assumption|lia].
Qed.

(* at depth 0 with the fuel the model uses *)
Lemma msd_top_sorted items :
  Forall item_ok items -> StronglySorted ile (msd usort (msd_fuel items) 0 items).
Proof.
  intros Hok. apply msd_sorted; [exact Hok| |].
  - split; [intros p q _ _; reflexivity|intros p _; lia].
  - intros p Hp. unfold msd_fuel. set (m := list_max _).
    assert (Hle : (length (snd p) <= m)%nat).
    { pose proof (proj1 (list_max_le (map (fun q : N * bytes => length (snd q)) items) m) (Nat.le_refl _)) as Hm.
      rewrite Forall_forall in Hm. apply Hm. apply in_map_iff. exists p. split; [reflexivity|exact Hp]. }
    lia.
Qed.

End Radix.
