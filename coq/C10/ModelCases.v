(* C10: the cases written by the correspondence harness, over all mechanism models (definitions only).
   `C0` wraps the cases of Model.v (ring, fixed queue, FastVec with drop-counting elements). *)
From ZV.Common Require Import Base Run.
From ZV.C10 Require Import Model ModelValVec32 ModelArena ModelStrVec ModelFixedLen ModelFastVecCopy ModelCacheVec ModelBitPacked ModelRingBulk.
Open Scope N_scope.

Inductive case_t : Type :=
| C0 (c : Model.case_t)
(* ValVec32: counted (false = Copy element type), requested capacity, capacity handed out by the allocator *)
| CVV (counted : bool) (c usable : N) (ops : list tw) (expect : list (list Z))
(* SortableStrVec *)
| CStr (ops : list ts) (expect : list (list Z))
(* FixedLenStrVec<n> *)
| CFix (n : N) (ops : list fop) (expect : list (list Z))
(* FastVec<T: Copy>: size_of::<T>(), initial capacity *)
| CVecC (esz c : N) (ops : list tc) (expect : list (list Z))
(* memory::cache::CacheAlignedVec<T>: counted (false = Copy element type), size_of::<T>(), requested capacity *)
| CCav (counted : bool) (sz c : N) (ops : list (aop N)) (expect : list (list Z))
(* BumpVec<T>: capacity *)
| CBump (c : N) (ops : list (bop N)) (expect : list (list Z))
(* BitPackedStringVec32 (false) / 64 (true) *)
| CBitP (w64 : bool) (ops : list pop) (expect : list (list Z))
(* AutoGrowCircularQueue: a history, then pop_bulk into the slice `out` *)
| CRingInto (c : N) (pre : list tq) (out : list N) (expect : list Z).

Definition ok (c : case_t) : bool :=
  match c with
  | C0 c => Model.ok c
  | CVV counted c usable ops e => eqb_llz (vv32_trace counted (vv_with_capacity N c usable) ops) e
  | CStr ops e => eqb_llz (ssv_trace ssv_new ops) e
  | CFix n ops e => eqb_llz (flv_trace n flv_new ops) e
  | CVecC esz c ops e => eqb_llz (fvc_trace esz (if c =? 0 then fv_new else fv_with_capacity c) ops) e
  | CCav counted sz c ops e => eqb_llz (cav_trace0 counted sz c ops) e
  | CBump c ops e => eqb_llz (bv_trace0 c ops) e
  | CBitP w64 ops e => eqb_llz (bpv_trace w64 bpv_new ops) e
  | CRingInto c pre out e => eqb_llz [ring_into_trace c pre out] [e]
  end.
