(* C10 mechanism model of FixedLenStrVec<N> (definitions only).

   Modelled code: src/containers/specialized/fixed_len_str_vec.rs (as compiled with the default feature "simd")
     Despite its name the container stores strings of *at most* N bytes, unpadded, in one arena; each string has a
     u32 index entry: offset in the low 24 bits, length in the high 8 bits.  So a string shorter than N is stored
     with its own length and embedded NUL bytes are ordinary bytes - nothing is padded or cut.
     push (refuses length > N, length > 255, and an arena that would reach 2^24 bytes; packs
     `(offset as u32) | ((length as u32) << 24)`), get (index >= len -> None; unpack with `& 0x00FFFFFF` and
     `>> 24`; a range outside the arena -> None; str::from_utf8(slice).ok()), get_bytes, len, is_empty,
     find_exact (needle longer than N or 255 -> None; otherwise the first index whose stored length equals the
     needle's and whose string equals it), count_prefix (prefix longer than N or 255 -> 0; otherwise the number of
     strings at least as long as the prefix that start with it).
   `indices[i]` is Rust indexing: out of range is the outcome Panic. *)
From ZV.Common Require Import Base Run.
From ZV.C10 Require Import ModelArena.
Open Scope N_scope.

(* str::from_utf8: well-formed UTF-8 (RFC 3629: no overlong forms, no surrogates, at most U+10FFFF) *)
Definition cont (b : N) : bool := (128 <=? b) && (b <=? 191).
Fixpoint utf8_valid (l : bytes) : bool :=
  match l with
  | [] => true
  | b0 :: t =>
    if b0 <? 128 then utf8_valid t
    else if (194 <=? b0) && (b0 <=? 223) then
      match t with b1 :: t' => cont b1 && utf8_valid t' | _ => false end
    else if (224 <=? b0) && (b0 <=? 239) then
      match t with
      | b1 :: b2 :: t' =>
        (if b0 =? 224 then (160 <=? b1) && (b1 <=? 191)
         else if b0 =? 237 then (128 <=? b1) && (b1 <=? 159)
         else cont b1) && cont b2 && utf8_valid t'
      | _ => false
      end
    else if (240 <=? b0) && (b0 <=? 244) then
      match t with
      | b1 :: b2 :: b3 :: t' =>
        (if b0 =? 240 then (144 <=? b1) && (b1 <=? 191)
         else if b0 =? 244 then (128 <=? b1) && (b1 <=? 143)
         else cont b1) && cont b2 && cont b3 && utf8_valid t'
      | _ => false
      end
    else false
  end.

Fixpoint bytes_eqb (a b : bytes) : bool :=
  match a, b with
  | [], [] => true
  | x :: a', y :: b' => (x =? y) && bytes_eqb a' b'
  | _, _ => false
  end.
Fixpoint starts_with (s p : bytes) : bool :=
  match p, s with
  | [], _ => true
  | y :: p', x :: s' => (x =? y) && starts_with s' p'
  | _ :: _, [] => false
  end.

Record flv : Type := { farena : bytes; findices : list N; fcnt : N }.
Definition flv_new : flv := {| farena := []; findices := []; fcnt := 0 |}.

(* (offset as u32) | ((length as u32) << 24), in u32 arithmetic *)
Definition fl_pack (offset length : N) : N :=
  N.lor (offset mod 2 ^ 32) (N.shiftl (length mod 2 ^ 32) 24 mod 2 ^ 32).
Definition fl_offset (p : N) : N := N.land p 16777215.     (* packed & 0x00FFFFFF *)
Definition fl_length (p : N) : N := N.shiftr p 24.          (* packed >> 24 *)

Inductive fop : Type :=
| FPush (s : bytes)
| FGet (i : N)
| FGetBytes (i : N)
| FLen
| FFind (needle : bytes)
| FCount (prefix : bytes).

Inductive fobs : Type :=
| FUnit
| FErr
| FStr (o : option bytes)
| FNum (n : N)
| FIdx (o : option N).

Section FixedLen.
Variable n : N.     (* the const generic N *)

Definition flv_push (v : flv) (s : bytes) : flv * fobs :=
  if n <? nlen s then (v, FErr)
  else if 255 <? nlen s then (v, FErr)
  else if 16777216 <=? nlen (farena v) + nlen s then (v, FErr)
  else ({| farena := farena v ++ s; findices := findices v ++ [fl_pack (nlen (farena v)) (nlen s)];
           fcnt := fcnt v + 1 |}, FUnit).

(* get_bytes *)
Definition flv_get_bytes (v : flv) (i : N) : res (option bytes) :=
  if fcnt v <=? i then Done None
  else rbind (index (findices v) i) (fun p =>
       let offset := fl_offset p in
       let length := fl_length p in
       if offset + length <=? nlen (farena v)
       then rbind (slice (farena v) offset length) (fun b => Done (Some b))
       else Done None).

(* get: the same slice, then str::from_utf8(slice).ok() *)
Definition flv_get (v : flv) (i : N) : res (option bytes) :=
  rbind (flv_get_bytes v i) (fun r =>
  Done (match r with Some b => if utf8_valid b then Some b else None | None => None end)).

(* find_exact_fallback: for i in 0..len *)
Fixpoint flv_find_go (v : flv) (needle : bytes) (i : N) (k : nat) : res (option N) :=
  match k with
  | O => Done None
  | S k' =>
    rbind (index (findices v) i) (fun p =>
    if fl_length p =? nlen needle then
      rbind (flv_get v i) (fun r =>
      match r with
      | Some s => if bytes_eqb s needle then Done (Some i) else flv_find_go v needle (i + 1) k'
      | None => flv_find_go v needle (i + 1) k'
      end)
    else flv_find_go v needle (i + 1) k')
  end.
Definition flv_find_exact (v : flv) (needle : bytes) : res (option N) :=
  if (n <? nlen needle) || (255 <? nlen needle) then Done None
  else flv_find_go v needle 0 (N.to_nat (fcnt v)).

Fixpoint flv_count_go (v : flv) (prefix : bytes) (i : N) (k : nat) (count : N) : res N :=
  match k with
  | O => Done count
  | S k' =>
    rbind (index (findices v) i) (fun p =>
    if nlen prefix <=? fl_length p then
      rbind (flv_get v i) (fun r =>
      match r with
      | Some s => flv_count_go v prefix (i + 1) k' (if starts_with s prefix then count + 1 else count)
      | None => flv_count_go v prefix (i + 1) k' count
      end)
    else flv_count_go v prefix (i + 1) k' count)
  end.
Definition flv_count_prefix (v : flv) (prefix : bytes) : res N :=
  if (n <? nlen prefix) || (255 <? nlen prefix) then Done 0
  else flv_count_go v prefix 0 (N.to_nat (fcnt v)) 0.

Definition flv_step (v : flv) (o : fop) : res (flv * fobs) :=
  match o with
  | FPush s => Done (flv_push v s)
  | FGet i => rbind (flv_get v i) (fun r => Done (v, FStr r))
  | FGetBytes i => rbind (flv_get_bytes v i) (fun r => Done (v, FStr r))
  | FLen => Done (v, FNum (fcnt v))
  | FFind needle => rbind (flv_find_exact v needle) (fun r => Done (v, FIdx r))
  | FCount prefix => rbind (flv_count_prefix v prefix) (fun r => Done (v, FNum r))
  end.

Fixpoint flv_run (v : flv) (ops : list fop) : res (flv * list fobs) :=
  match ops with
  | [] => Done (v, [])
  | o :: t => rbind (flv_step v o) (fun r =>
              rbind (flv_run (fst r) t) (fun r2 => Done (fst r2, snd r :: snd r2)))
  end.

(* ----- the Vec<String> it must implement ----- *)
Fixpoint find_first (l : list bytes) (needle : bytes) (i : N) : option N :=
  match l with
  | [] => None
  | s :: t => if bytes_eqb s needle then Some i else find_first t needle (i + 1)
  end.
Fixpoint count_with_prefix (l : list bytes) (prefix : bytes) : N :=
  match l with
  | [] => 0
  | s :: t => (if starts_with s prefix then 1 else 0) + count_with_prefix t prefix
  end.

Definition fls_step (l : list bytes) (o : fop) : list bytes * fobs :=
  match o with
  | FPush s =>
      (* refused exactly when the string is longer than N or 255 bytes, or the arena would reach 2^24 bytes *)
      if (n <? nlen s) || (255 <? nlen s) || (16777216 <=? nlen (concat l) + nlen s) then (l, FErr)
      else (l ++ [s], FUnit)
  | FGet i | FGetBytes i => (l, FStr (nth_error l (N.to_nat i)))
  | FLen => (l, FNum (nlen l))
  | FFind needle => (l, FIdx (find_first l needle 0))
  | FCount prefix => (l, FNum (count_with_prefix l prefix))
  end.

Fixpoint fls_run (l : list bytes) (ops : list fop) : list bytes * list fobs :=
  match ops with
  | [] => (l, [])
  | o :: t => let r := fls_step l o in
              let r2 := fls_run (fst r) t in (fst r2, snd r :: snd r2)
  end.

(* the strings handed to push are &str, i.e. well-formed UTF-8 *)
Definition fop_wf (o : fop) : Prop := match o with FPush s => utf8_valid s = true | _ => True end.

End FixedLen.

(* the index entries a sequence of pushes lays out *)
Fixpoint fl_layout (off : N) (l : list bytes) : list N :=
  match l with
  | [] => []
  | s :: t => fl_pack off (nlen s) :: fl_layout (off + nlen s) t
  end.

(* FV n v l: arena = concatenation of the pushed strings, indices = their layout, len = their number; every string
   is at most min(N, 255) bytes of well-formed UTF-8 and the arena is below 2^24 bytes *)
Record FV (n : N) (v : flv) (l : list bytes) : Prop := {
  FV_arena : farena v = concat l;
  FV_indices : findices v = fl_layout 0 l;
  FV_cnt : fcnt v = nlen l;
  FV_lens : Forall (fun s => nlen s <= n /\ nlen s <= 255 /\ utf8_valid s = true) l;
  FV_total : nlen (concat l) < 16777216
}.

(* ---------- trace for the correspondence check ---------- *)
Definition enc_fobs (b : fobs) : list Z :=
  match b with
  | FUnit => [0%Z]
  | FErr => [(-1)%Z]
  | FStr None => [1%Z]
  | FStr (Some s) => 2%Z :: enc_bytes s
  | FNum k => [4%Z; Z.of_N k]
  | FIdx None => [6%Z]
  | FIdx (Some i) => [7%Z; Z.of_N i]
  end.

Fixpoint flv_trace (n : N) (v : flv) (ops : list fop) : list (list Z) :=
  match ops with
  | [] => []
  | o :: t => match flv_step n v o with
              | Panic => [[(-99)%Z]]
              | Done r => enc_fobs (snd r) :: flv_trace n (fst r) t
              end
  end.
