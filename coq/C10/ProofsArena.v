(* Facts shared by the arena-based string vectors: the lexicographic order on byte strings is a total order,
   insertion sort meets the contract assumed of the standard sort, a sorted permutation is unique under an
   antisymmetric total preorder, slices of a concatenation, index sequences. *)
From Coq Require Import Permutation Sorted.
From ZV.Common Require Import Base.
From ZV.C10 Require Import ModelArena.
Open Scope N_scope.

(* ---------- lex_cmp ---------- *)
Lemma lex_cmp_refl a : lex_cmp a a = Eq.
Proof. induction a as [|x a IH]; [reflexivity|]. cbn [lex_cmp]. rewrite N.compare_refl. exact IH. Qed.

Lemma lex_cmp_eq a : forall b, lex_cmp a b = Eq -> a = b.
Proof.
  induction a as [|x a IH]; intros [|y b] H; cbn [lex_cmp] in H; try discriminate; [reflexivity|].
  destruct (x ?= y) eqn:E; try discriminate. apply N.compare_eq in E. subst y. f_equal. apply IH. exact H.
Qed.

Lemma lex_cmp_antisym a : forall b, lex_cmp b a = CompOpp (lex_cmp a b).
Proof.
  induction a as [|x a IH]; intros [|y b]; cbn [lex_cmp]; try reflexivity.
  rewrite (N.compare_antisym x y). destruct (x ?= y); cbn [CompOpp]; [apply IH|reflexivity|reflexivity].
Qed.

Lemma lex_le_trans a : forall b c, lex_le a b -> lex_le b c -> lex_le a c.
Proof.
  unfold lex_le. induction a as [|x a IH]; intros [|y b] [|z c] H1 H2; cbn [lex_cmp] in *; try congruence.
  destruct (x ?= y) eqn:E1; destruct (y ?= z) eqn:E2; try congruence.
  - apply N.compare_eq in E1, E2. subst. rewrite N.compare_refl. eapply IH; eassumption.
  - apply N.compare_eq in E1. subst. rewrite E2. discriminate.
  - apply N.compare_eq in E2. subst. rewrite E1. discriminate.
  - rewrite N.compare_lt_iff in E1, E2. assert (E : (x ?= z) = Lt) by (apply N.compare_lt_iff; lia). rewrite E. discriminate.
Qed.

Lemma lex_total_preorder : total_preorder lex_cmp.
Proof. split; [intros a b; apply lex_cmp_antisym|intros a b d; apply lex_le_trans]. Qed.

(* a comparator on a key inherits the preorder *)
Lemma total_preorder_on {T U} (c : U -> U -> comparison) (k : T -> U) :
  total_preorder c -> total_preorder (fun a b => c (k a) (k b)).
Proof. intros [Ha Ht]. split; [intros a b; apply Ha|intros a b d; apply Ht]. Qed.

Lemma N_compare_total_preorder : total_preorder N.compare.
Proof.
  split; [intros a b; apply N.compare_antisym|].
  intros a b d H1 H2. rewrite N.compare_gt_iff in *. lia.
Qed.

Lemma rev_total_preorder {T} (c : T -> T -> comparison) : total_preorder c -> total_preorder (fun a b => c b a).
Proof. intros [Ha Ht]. split; [intros a b; apply Ha|]. intros a b d H1 H2. eapply Ht; eassumption. Qed.

(* ---------- insertion sort meets the contract of the standard sort ---------- *)
Section Sort.
Variable T : Type.
Variable c : T -> T -> comparison.
Definition cle (a b : T) : Prop := c a b <> Gt.

Lemma insert_by_perm x l : Permutation (x :: l) (insert_by c x l).
Proof.
  induction l as [|y l IH]; [apply Permutation_refl|]. cbn [insert_by].
  destruct (c x y); try apply Permutation_refl.
  eapply Permutation_trans; [apply perm_swap|]. apply perm_skip. exact IH.
Qed.

Lemma isort_by_perm l : Permutation l (isort_by T c l).
Proof.
  induction l as [|x l IH]; [apply Permutation_refl|]. unfold isort_by in *. cbn [fold_right].
  eapply Permutation_trans; [apply perm_skip; exact IH|]. apply insert_by_perm.
Qed.

Hypothesis Hc : total_preorder c.

Lemma cle_total a b : cle a b \/ cle b a.
Proof. destruct Hc as [Ha _]. unfold cle. rewrite (Ha a b). destruct (c a b); cbn [CompOpp]; [left|left|right]; discriminate. Qed.

Lemma insert_by_sorted x l : StronglySorted cle l -> StronglySorted cle (insert_by c x l).
Proof.
  induction 1 as [|y l Hs IH Hall]; [repeat constructor|]. cbn [insert_by].
  destruct (c x y) eqn:E.
  - constructor; [constructor; assumption|]. constructor; [unfold cle; rewrite E; discriminate|].
    eapply Forall_impl; [|exact Hall]. intros z Hz. destruct Hc as [_ Ht]. eapply Ht; [|exact Hz]. unfold cle. rewrite E. discriminate.
  - constructor; [constructor; assumption|]. constructor; [unfold cle; rewrite E; discriminate|].
    eapply Forall_impl; [|exact Hall]. intros z Hz. destruct Hc as [_ Ht]. eapply Ht; [|exact Hz]. unfold cle. rewrite E. discriminate.
  - constructor; [exact IH|].
    assert (Hyx : cle y x). { destruct Hc as [Ha _]. unfold cle. rewrite (Ha x y), E. discriminate. }
    eapply Permutation_Forall; [apply insert_by_perm|]. constructor; assumption.
Qed.

Lemma isort_by_sorted l : StronglySorted cle (isort_by T c l).
Proof.
  induction l as [|x l IH]; [constructor|]. unfold isort_by in *. cbn [fold_right]. apply insert_by_sorted. exact IH.
Qed.

(* a sorted permutation is unique when the preorder is antisymmetric *)
Hypothesis Hanti : forall a b, c a b = Eq -> a = b.

Lemma sorted_perm_unique : forall l1 l2,
  Permutation l1 l2 -> StronglySorted cle l1 -> StronglySorted cle l2 -> l1 = l2.
Proof.
  induction l1 as [|x l1 IH]; intros l2 Hp H1 H2.
  - apply Permutation_nil in Hp. subst. reflexivity.
  - destruct l2 as [|y l2]; [apply Permutation_sym, Permutation_nil in Hp; discriminate|].
    inversion H1 as [|? ? Hs1 Hall1]; subst. inversion H2 as [|? ? Hs2 Hall2]; subst.
    assert (Hxy : x = y).
    { assert (Hin1 : In x (y :: l2)) by (eapply Permutation_in; [exact Hp|left; reflexivity]).
      assert (Hin2 : In y (x :: l1)) by (eapply Permutation_in; [apply Permutation_sym; exact Hp|left; reflexivity]).
      destruct Hin1 as [->|Hin1]; [reflexivity|]. destruct Hin2 as [->|Hin2]; [reflexivity|].
      rewrite Forall_forall in Hall1, Hall2. pose proof (Hall1 y Hin2) as Hxy. pose proof (Hall2 x Hin1) as Hyx.
      destruct Hc as [Ha _]. unfold cle in *. rewrite (Ha x y) in Hyx.
      destruct (c x y) eqn:E; cbn [CompOpp] in *; try congruence. apply Hanti. exact E. }
    subst y. f_equal. apply IH; [eapply Permutation_cons_inv; exact Hp|assumption|assumption].
Qed.

End Sort.

Lemma StronglySorted_map {T U} (R : U -> U -> Prop) (f : T -> U) l :
  StronglySorted (fun a b => R (f a) (f b)) l -> StronglySorted R (map f l).
Proof.
  induction 1 as [|x l Hs IH Hall]; cbn [map]; constructor; [exact IH|].
  rewrite Forall_map. exact Hall.
Qed.

(* ---------- nseq ---------- *)
Lemma nseq_length s n : length (nseq s n) = n.
Proof. revert s. induction n as [|n IH]; intros s; cbn [nseq length]; [reflexivity|]. rewrite IH. reflexivity. Qed.

Lemma nseq_nth_error n : forall s i, (i < n)%nat -> nth_error (nseq s n) i = Some (s + N.of_nat i).
Proof.
  induction n as [|n IH]; intros s i Hi; [lia|]. destruct i as [|i]; cbn [nseq nth_error].
  - f_equal. lia.
  - rewrite IH by lia. f_equal. lia.
Qed.

Lemma nseq_In n : forall s x, In x (nseq s n) <-> s <= x /\ x < s + N.of_nat n.
Proof.
  induction n as [|n IH]; intros s x; cbn [nseq In]; [split; [tauto|lia]|].
  rewrite IH. split; [intros [->|H]; lia|]. intros H. destruct (N.eq_dec s x); [left; assumption|right; lia].
Qed.

Lemma nseq_S s n : nseq s (S n) = nseq s n ++ [s + N.of_nat n].
Proof.
  revert s. induction n as [|n IH]; intros s; [cbn [nseq app]; f_equal; f_equal; lia|].
  change (nseq s (S (S n))) with (s :: nseq (s + 1) (S n)). rewrite IH. cbn [nseq app]. f_equal. f_equal. f_equal. lia.
Qed.

Lemma map_nth_nseq {T} (l : list T) d : map (fun i => nth (N.to_nat i) l d) (nseq 0 (length l)) = l.
Proof.
  induction l as [|x l IH] using rev_ind; [reflexivity|].
  rewrite app_length. cbn [length]. replace (length l + 1)%nat with (S (length l)) by lia.
  rewrite nseq_S, map_app. cbn [map]. f_equal.
  - rewrite <- IH at 2. apply map_ext_in. intros i Hi. apply nseq_In in Hi. apply app_nth1. lia.
  - f_equal. replace (N.to_nat (0 + N.of_nat (length l))) with (length l) by lia.
    rewrite app_nth2 by lia. replace (length l - length l)%nat with 0%nat by lia. reflexivity.
Qed.

(* ---------- res ---------- *)
Lemma rmap_done {T U} (f : T -> res U) (g : T -> U) l :
  (forall x, In x l -> f x = Done (g x)) -> rmap f l = Done (map g l).
Proof.
  induction l as [|x l IH]; intros H; [reflexivity|]. cbn [rmap map].
  rewrite (H x (or_introl eq_refl)). cbn [rbind]. rewrite IH by (intros y Hy; apply H; right; exact Hy). reflexivity.
Qed.

Lemma until_none_some {T} (l : list T) : until_none (map Some l) = l.
Proof. induction l as [|x l IH]; [reflexivity|]. cbn [map until_none]. f_equal. exact IH. Qed.

(* ---------- slices of a concatenation ---------- *)
Lemma nlen_concat_app (l : list bytes) s : nlen (concat (l ++ [s])) = nlen (concat l) + nlen s.
Proof. rewrite concat_app. cbn [concat]. rewrite app_nil_r, nlen_app. reflexivity. Qed.

(* the i-th string starts at the total length of the strings before it *)
Lemma slice_concat (l : list bytes) : forall i s,
  nth_error l i = Some s ->
  slice (concat l) (nlen (concat (firstn i l))) (nlen s) = Done s.
Proof.
  induction l as [|x l IH]; intros [|i] s H; cbn [nth_error] in H; try discriminate.
  - injection H as ->. cbn [firstn concat nlen]. unfold slice.
    rewrite nlen_app. destruct (N.leb_spec (0 + nlen s) (nlen s + nlen (concat l))); [|lia].
    change (N.to_nat 0) with 0%nat. cbn [skipn]. rewrite nlen_length, Nat2N.id.
    rewrite firstn_app, firstn_all. replace (length s - length s)%nat with 0%nat by lia. cbn [firstn]. rewrite app_nil_r. reflexivity.
  - specialize (IH i s H). cbn [firstn concat]. unfold slice in *. rewrite !nlen_app.
    destruct (N.leb_spec (nlen (concat (firstn i l)) + nlen s) (nlen (concat l))) as [Hle|Hgt]; [|discriminate].
    destruct (N.leb_spec (nlen x + nlen (concat (firstn i l)) + nlen s) (nlen x + nlen (concat l))); [|lia].
    rewrite <- IH. f_equal. f_equal.
    replace (N.to_nat (nlen x + nlen (concat (firstn i l)))) with (length x + N.to_nat (nlen (concat (firstn i l))))%nat
      by (rewrite (nlen_length x); lia).
    rewrite skipn_app. rewrite (skipn_all2 x) by lia. cbn [app]. f_equal. lia.
Qed.
