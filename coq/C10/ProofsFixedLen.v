(* FixedLenStrVec<N>: the arena + (offset:24 | length:8) index entries implement a Vec of strings of at most
   min(N, 255) bytes with a total of less than 2^24 bytes. *)
From ZV.Common Require Import Base.
From ZV.C10 Require Import ModelArena ProofsArena ModelFixedLen.
Open Scope N_scope.

Lemma fl_unpack o l :
  o < 16777216 -> l <= 255 -> fl_offset (fl_pack o l) = o /\ fl_length (fl_pack o l) = l.
Proof.
  intros Ho Hl. unfold fl_offset, fl_length, fl_pack.
  change (2 ^ 32) with 4294967296. rewrite N.shiftl_mul_pow2. change (2 ^ 24) with 16777216.
  rewrite (N.mod_small o), (N.mod_small l), (N.mod_small (l * 16777216)) by lia.
  change (l * 16777216) with (l * 2 ^ 24). rewrite (lor_disjoint_add o l 24) by (change (2 ^ 24) with 16777216; lia).
  change 16777215 with (N.ones 24). rewrite N.land_ones, N.shiftr_div_pow2. change (2 ^ 24) with 16777216.
  split; lia.
Qed.

Lemma fl_layout_length l : forall off, length (fl_layout off l) = length l.
Proof. induction l as [|s l IH]; intros off; cbn [fl_layout length]; [reflexivity|]. rewrite IH. reflexivity. Qed.

Lemma fl_layout_app l1 : forall off l2,
  fl_layout off (l1 ++ l2) = fl_layout off l1 ++ fl_layout (off + nlen (concat l1)) l2.
Proof.
  induction l1 as [|s l1 IH]; intros off l2; cbn [fl_layout app concat nlen].
  - f_equal. lia.
  - rewrite IH, nlen_app. f_equal. f_equal. f_equal. lia.
Qed.

Lemma fl_layout_nth l : forall off i s,
  nth_error l i = Some s ->
  nth_error (fl_layout off l) i = Some (fl_pack (off + nlen (concat (firstn i l))) (nlen s)).
Proof.
  induction l as [|x l IH]; intros off [|i] s H; cbn [nth_error] in H; try discriminate.
  - injection H as ->. cbn [fl_layout nth_error firstn concat nlen]. f_equal. f_equal. lia.
  - cbn [fl_layout nth_error firstn concat]. rewrite (IH _ _ _ H). rewrite nlen_app. f_equal. f_equal. lia.
Qed.

Lemma bytes_eqb_len a : forall b, bytes_eqb a b = true -> nlen a = nlen b.
Proof.
  induction a as [|x a IH]; intros [|y b] H; cbn [bytes_eqb nlen] in *; try discriminate; [reflexivity|].
  apply andb_prop in H. destruct H as [_ H]. rewrite (IH b H). reflexivity.
Qed.

Lemma starts_with_len p : forall s, starts_with s p = true -> nlen p <= nlen s.
Proof.
  induction p as [|y p IH]; intros [|x s] H; cbn [starts_with nlen] in *; try discriminate; try lia.
  apply andb_prop in H. destruct H as [_ H]. specialize (IH s H). lia.
Qed.

Section FL.
Variable n : N.
Local Notation FV := (ModelFixedLen.FV n).

Lemma concat_prefix_le (l : list bytes) i : nlen (concat (firstn i l)) <= nlen (concat l).
Proof. rewrite <- (firstn_skipn i l) at 2. rewrite concat_app, nlen_app. lia. Qed.

Lemma FV_indices_length v l : FV v l -> length (findices v) = length l.
Proof. intros H. rewrite (FV_indices _ _ _ H). apply fl_layout_length. Qed.

Lemma FV_entry v l i s :
  FV v l -> nth_error l i = Some s ->
  exists p, nth_error (findices v) i = Some p /\ fl_length p = nlen s /\
            fl_offset p + fl_length p <= nlen (farena v) /\
            slice (farena v) (fl_offset p) (fl_length p) = Done s /\ utf8_valid s = true.
Proof.
  intros H Hs. eexists. split; [rewrite (FV_indices _ _ _ H); apply fl_layout_nth; exact Hs|].
  pose proof (FV_total _ _ _ H) as Ht. pose proof (concat_prefix_le l i) as Hp.
  assert (Hl : nlen s <= n /\ nlen s <= 255 /\ utf8_valid s = true).
  { pose proof (FV_lens _ _ _ H) as Hf. rewrite Forall_forall in Hf. apply Hf. eapply nth_error_In. exact Hs. }
  destruct (fl_unpack (0 + nlen (concat (firstn i l))) (nlen s)) as [Ho Hlen]; [lia|lia|].
  rewrite Ho, Hlen, (FV_arena _ _ _ H).
  replace (0 + nlen (concat (firstn i l))) with (nlen (concat (firstn i l))) by lia.
  pose proof (slice_concat l i s Hs) as Hsl.
  split; [reflexivity|]. split; [|split; [exact Hsl|apply Hl]].
  unfold slice in Hsl. destruct (N.leb_spec (nlen (concat (firstn i l)) + nlen s) (nlen (concat l))); [assumption|discriminate].
Qed.

Lemma FV_get_bytes v l i : FV v l -> flv_get_bytes v i = Done (nth_error l (N.to_nat i)).
Proof.
  intros H. unfold flv_get_bytes. rewrite (FV_cnt _ _ _ H), nlen_length.
  destruct (N.leb_spec (N.of_nat (length l)) i).
  - symmetry. f_equal. apply nth_error_None. lia.
  - destruct (nth_error l (N.to_nat i)) as [s|] eqn:E; [|apply nth_error_None in E; lia].
    destruct (FV_entry v l _ s H E) as [p [Hp [_ [Hin [Hsl _]]]]]. unfold index. rewrite Hp. cbn [rbind].
    destruct (N.leb_spec (fl_offset p + fl_length p) (nlen (farena v))); [|lia]. rewrite Hsl. reflexivity.
Qed.

Lemma FV_get v l i : FV v l -> flv_get v i = Done (nth_error l (N.to_nat i)).
Proof.
  intros H. unfold flv_get. rewrite (FV_get_bytes v l i H). cbn [rbind].
  destruct (nth_error l (N.to_nat i)) as [s|] eqn:E; [|reflexivity].
  destruct (FV_entry v l _ s H E) as [_ [_ [_ [_ [_ Hu]]]]]. rewrite Hu. reflexivity.
Qed.

Lemma FV_new : FV flv_new [].
Proof.
  constructor; cbn [flv_new farena findices fcnt concat fl_layout nlen]; try reflexivity.
  all: try (apply Forall_nil). all: try lia.
Qed.

Lemma FV_push v l s :
  FV v l -> utf8_valid s = true ->
  snd (flv_push n v s) = snd (fls_step n l (FPush s)) /\ FV (fst (flv_push n v s)) (fst (fls_step n l (FPush s))).
Proof.
  intros H Hu. unfold flv_push. cbn [fls_step]. rewrite (FV_arena _ _ _ H).
  destruct (N.ltb_spec n (nlen s)); cbn [orb fst snd]; [split; [reflexivity|exact H]|].
  destruct (N.ltb_spec 255 (nlen s)); cbn [orb fst snd]; [split; [reflexivity|exact H]|].
  destruct (N.leb_spec 16777216 (nlen (concat l) + nlen s)); cbn [orb fst snd]; [split; [reflexivity|exact H]|].
  split; [reflexivity|].
  constructor; cbn [farena findices fcnt].
  - rewrite concat_app. cbn [concat]. rewrite app_nil_r. reflexivity.
  - rewrite fl_layout_app. cbn [fl_layout]. rewrite (FV_indices _ _ _ H). repeat f_equal; lia.
  - rewrite (FV_cnt _ _ _ H), nlen_app. cbn [nlen]. lia.
  - apply Forall_app. split; [apply (FV_lens _ _ _ H)|]. constructor; [repeat split; assumption|constructor].
  - rewrite nlen_concat_app. assumption.
Qed.

(* the search loops, generalised over the part of the vector already passed *)
Lemma FV_find_go v l needle : FV v l -> forall l2 l1,
  l = l1 ++ l2 ->
  flv_find_go v needle (nlen l1) (length l2) = Done (find_first l2 needle (nlen l1)).
Proof.
  intros H. induction l2 as [|s l2 IH]; intros l1 El; [reflexivity|].
  cbn [length flv_find_go find_first].
  assert (Hs : nth_error l (N.to_nat (nlen l1)) = Some s).
  { rewrite El, nlen_length, Nat2N.id, nth_error_app2 by lia. replace (length l1 - length l1)%nat with 0%nat by lia. reflexivity. }
  destruct (FV_entry v l _ s H Hs) as [p [Hp [Hlen _]]]. unfold index. rewrite Hp. cbn [rbind]. rewrite Hlen.
  assert (Hnext : flv_find_go v needle (nlen l1 + 1) (length l2) = Done (find_first l2 needle (nlen l1 + 1))).
  { replace (nlen l1 + 1) with (nlen (l1 ++ [s])) by (rewrite nlen_app; cbn [nlen]; lia).
    apply IH. rewrite <- app_assoc. exact El. }
  destruct (N.eqb_spec (nlen s) (nlen needle)) as [Eq|Ne].
  - rewrite (FV_get v l _ H), Hs. cbn [rbind]. destruct (bytes_eqb s needle); [reflexivity|exact Hnext].
  - destruct (bytes_eqb s needle) eqn:Eb; [apply bytes_eqb_len in Eb; lia|exact Hnext].
Qed.

Lemma find_first_too_long (l : list bytes) needle i m :
  Forall (fun s => nlen s <= m) l -> m < nlen needle -> find_first l needle i = None.
Proof.
  intros Hf Hm. revert i. induction l as [|s l IH]; intros i; [reflexivity|]. inversion Hf as [|? ? Hs Hf']; subst.
  cbn [find_first]. destruct (bytes_eqb s needle) eqn:Eb; [apply bytes_eqb_len in Eb; lia|]. apply IH. exact Hf'.
Qed.

Lemma FV_find v l needle : FV v l -> flv_find_exact n v needle = Done (find_first l needle 0).
Proof.
  intros H. unfold flv_find_exact.
  destruct (N.ltb_spec n (nlen needle)) as [Hn|Hn]; cbn [orb].
  - rewrite (find_first_too_long l needle 0 n); [reflexivity| |exact Hn].
    eapply Forall_impl; [|apply (FV_lens _ _ _ H)]. intros s Hs. apply Hs.
  - destruct (N.ltb_spec 255 (nlen needle)) as [Hb|Hb].
    + rewrite (find_first_too_long l needle 0 255); [reflexivity| |exact Hb].
      eapply Forall_impl; [|apply (FV_lens _ _ _ H)]. intros s Hs. apply Hs.
    + rewrite (FV_cnt _ _ _ H), nlen_length, Nat2N.id. apply (FV_find_go v l needle H l []). reflexivity.
Qed.

Lemma FV_count_go v l prefix : FV v l -> forall l2 l1 c,
  l = l1 ++ l2 ->
  flv_count_go v prefix (nlen l1) (length l2) c = Done (c + count_with_prefix l2 prefix).
Proof.
  intros H. induction l2 as [|s l2 IH]; intros l1 c El; [cbn [length flv_count_go count_with_prefix]; f_equal; lia|].
  cbn [length flv_count_go count_with_prefix].
  assert (Hs : nth_error l (N.to_nat (nlen l1)) = Some s).
  { rewrite El, nlen_length, Nat2N.id, nth_error_app2 by lia. replace (length l1 - length l1)%nat with 0%nat by lia. reflexivity. }
  destruct (FV_entry v l _ s H Hs) as [p [Hp [Hlen _]]]. unfold index. rewrite Hp. cbn [rbind]. rewrite Hlen.
  assert (Hnext : forall c', flv_count_go v prefix (nlen l1 + 1) (length l2) c' = Done (c' + count_with_prefix l2 prefix)).
  { intros c'. replace (nlen l1 + 1) with (nlen (l1 ++ [s])) by (rewrite nlen_app; cbn [nlen]; lia).
    apply IH. rewrite <- app_assoc. exact El. }
  destruct (N.leb_spec (nlen prefix) (nlen s)) as [Hle|Hgt].
  - rewrite (FV_get v l _ H), Hs. cbn [rbind]. rewrite Hnext. destruct (starts_with s prefix); f_equal; lia.
  - rewrite Hnext. destruct (starts_with s prefix) eqn:Es; [apply starts_with_len in Es; lia|]. f_equal; lia.
Qed.

Lemma count_prefix_too_long (l : list bytes) prefix m :
  Forall (fun s => nlen s <= m) l -> m < nlen prefix -> count_with_prefix l prefix = 0.
Proof.
  intros Hf Hm. induction l as [|s l IH]; [reflexivity|]. inversion Hf as [|? ? Hs Hf']; subst.
  cbn [count_with_prefix]. destruct (starts_with s prefix) eqn:Es; [apply starts_with_len in Es; lia|]. rewrite (IH Hf'). reflexivity.
Qed.

Lemma FV_count v l prefix : FV v l -> flv_count_prefix n v prefix = Done (count_with_prefix l prefix).
Proof.
  intros H. unfold flv_count_prefix.
  destruct (N.ltb_spec n (nlen prefix)) as [Hn|Hn]; cbn [orb].
  - rewrite (count_prefix_too_long l prefix n); [reflexivity| |exact Hn].
    eapply Forall_impl; [|apply (FV_lens _ _ _ H)]. intros s Hs. apply Hs.
  - destruct (N.ltb_spec 255 (nlen prefix)) as [Hb|Hb].
    + rewrite (count_prefix_too_long l prefix 255); [reflexivity| |exact Hb].
      eapply Forall_impl; [|apply (FV_lens _ _ _ H)]. intros s Hs. apply Hs.
    + rewrite (FV_cnt _ _ _ H), nlen_length, Nat2N.id. pose proof (FV_count_go v l prefix H l [] 0 eq_refl) as Hg. cbn [nlen] in Hg. rewrite Hg. reflexivity.
Qed.

Lemma flv_step_refines v l o :
  FV v l -> fop_wf o ->
  exists v', flv_step n v o = Done (v', snd (fls_step n l o)) /\ FV v' (fst (fls_step n l o)).
Proof.
  intros H Hwf. destruct o as [s|i|i| |needle|prefix]; cbn [flv_step].
  - destruct (FV_push v l s H Hwf) as [Ho HF]. eexists. split; [|exact HF]. rewrite <- Ho. destruct (flv_push n v s). reflexivity.
  - rewrite (FV_get v l i H). cbn [rbind fls_step fst snd]. exists v. split; [reflexivity|exact H].
  - rewrite (FV_get_bytes v l i H). cbn [rbind fls_step fst snd]. exists v. split; [reflexivity|exact H].
  - cbn [fls_step fst snd]. rewrite (FV_cnt _ _ _ H). exists v. split; [reflexivity|exact H].
  - rewrite (FV_find v l needle H). cbn [rbind fls_step fst snd]. exists v. split; [reflexivity|exact H].
  - rewrite (FV_count v l prefix H). cbn [rbind fls_step fst snd]. exists v. split; [reflexivity|exact H].
Qed.

Lemma flv_run_refines ops : forall v l,
  FV v l -> Forall fop_wf ops ->
  exists v', flv_run n v ops = Done (v', snd (fls_run n l ops)) /\ FV v' (fst (fls_run n l ops)).
Proof.
  induction ops as [|o t IH]; intros v l H Hwf.
  - exists v. split; [reflexivity|exact H].
  - inversion Hwf as [|? ? Ho Ht]; subst.
    destruct (flv_step_refines v l o H Ho) as [v1 [E1 H1]].
    destruct (IH v1 _ H1 Ht) as [v2 [E2 H2]].
    cbn [flv_run fls_run]. rewrite E1. cbn [rbind fst snd]. rewrite E2. cbn [rbind fst snd].
    exists v2. split; [reflexivity|exact H2].
Qed.

End FL.

(* ---------- top-level statements ---------- *)
Lemma fixedlen_refines_list_proof n (ops : list fop) :
  Forall fop_wf ops ->
  exists v', flv_run n flv_new ops = Done (v', snd (fls_run n [] ops)) /\ FV n v' (fst (fls_run n [] ops)).
Proof. intros Hwf. apply flv_run_refines; [apply FV_new|exact Hwf]. Qed.

Lemma fls_pushes_all_accepted n ss : forall l,
  Forall (fun s => nlen s <= n /\ nlen s <= 255) ss -> nlen (concat (l ++ ss)) < 16777216 ->
  fst (fls_run n l (map FPush ss)) = l ++ ss /\ snd (fls_run n l (map FPush ss)) = map (fun _ => FUnit) ss.
Proof.
  induction ss as [|s ss IH]; intros l Hl Ht.
  - cbn [map fls_run fst snd]. rewrite app_nil_r. split; reflexivity.
  - inversion Hl as [|? ? [Hs1 Hs2] Hl']; subst. cbn [map fls_run].
    assert (Hstep : fls_step n l (FPush s) = (l ++ [s], FUnit)).
    { cbn [fls_step]. rewrite concat_app, nlen_app in Ht. cbn [concat] in Ht. rewrite nlen_app in Ht.
      destruct (N.ltb_spec n (nlen s)); [lia|]. destruct (N.ltb_spec 255 (nlen s)); [lia|].
      destruct (N.leb_spec 16777216 (nlen (concat l) + nlen s)); [lia|]. reflexivity. }
    rewrite Hstep. cbn [fst snd]. destruct (IH (l ++ [s]) Hl') as [Ha Hb]; [rewrite <- app_assoc; exact Ht|].
    split; [rewrite Ha, <- app_assoc; reflexivity|cbn [map]; rewrite Hb; reflexivity].
Qed.

(* fixedlen_get_pushes: every push of a well-formed string of at most min(N, 255) bytes is accepted while the
   total stays below 2^24 bytes, and then get / get_bytes i is the i-th pushed string, byte for byte *)
Lemma fixedlen_get_pushes_proof n (ss : list bytes) i :
  Forall (fun s => nlen s <= n /\ nlen s <= 255) ss -> Forall (fun s => utf8_valid s = true) ss ->
  nlen (concat ss) < 16777216 ->
  exists v', flv_run n flv_new (map FPush ss) = Done (v', map (fun _ => FUnit) ss) /\
             flv_get v' i = Done (nth_error ss (N.to_nat i)) /\
             flv_get_bytes v' i = Done (nth_error ss (N.to_nat i)) /\
             fcnt v' = nlen ss.
Proof.
  intros Hl Hu Ht.
  destruct (fixedlen_refines_list_proof n (map FPush ss)) as [v' [E HF]].
  { rewrite Forall_map. eapply Forall_impl; [|exact Hu]. intros s Hs. exact Hs. }
  destruct (fls_pushes_all_accepted n ss (@nil bytes) Hl Ht) as [Ha Hb]. change ([] ++ ss) with ss in Ha. rewrite Ha in HF. rewrite Hb in E.
  exists v'. split; [exact E|]. split; [apply (FV_get n v' ss i HF)|]. split; [apply (FV_get_bytes n v' ss i HF)|].
  apply (FV_cnt _ _ _ HF).
Qed.

(* a push is refused exactly when the string is longer than N or 255 bytes or the arena would reach 2^24 bytes *)
Lemma fixedlen_push_refused_iff_proof n v l s :
  FV n v l ->
  (snd (flv_push n v s) = FErr <-> n < nlen s \/ 255 < nlen s \/ 16777216 <= nlen (concat l) + nlen s).
Proof.
  intros H. unfold flv_push. rewrite (FV_arena _ _ _ H).
  destruct (N.ltb_spec n (nlen s)); cbn [snd]; [split; [intros _; left; assumption|reflexivity]|].
  destruct (N.ltb_spec 255 (nlen s)); cbn [snd]; [split; [intros _; right; left; assumption|reflexivity]|].
  destruct (N.leb_spec 16777216 (nlen (concat l) + nlen s)); cbn [snd]; [split; [intros _; right; right; assumption|reflexivity]|].
  split; [discriminate|]. intros [Hx|[Hx|Hx]]; lia.
Qed.

(* shorter than N, embedded NUL, multi-byte UTF-8, a refused over-long string, find_exact, count_prefix *)
Example fixedlen_history_example :
  let ops := [FPush [97]; FPush [97; 0; 98]; FPush [195; 169]; FPush [97; 98; 99; 100; 101]; FPush [97; 0; 98; 99];
              FGet 1; FGetBytes 2; FGet 4; FLen; FFind [97; 0; 98]; FFind [122]; FCount [97]; FCount [97; 0]] in
  Forall fop_wf ops /\
  match flv_run 4 flv_new ops with
  | Done (v, outs) => outs = snd (fls_run 4 [] ops) /\
                      outs = [FUnit; FUnit; FUnit; FErr; FUnit; FStr (Some [97; 0; 98]); FStr (Some [195; 169]); FStr None;
                              FNum 4; FIdx (Some 1); FIdx None; FNum 3; FNum 2]
  | Panic => False
  end.
Proof. split; [repeat constructor|vm_compute; split; reflexivity]. Qed.
