(* C10 mechanism model of ValVec32<T> at element level (definitions only).

   Modelled code: src/containers/specialized/valvec32.rs
     new, with_capacity (capacity = malloc_usable_size / size_of::<T>(), i.e. whatever the allocator hands
     out, at least the request, capped at u32::MAX), reserve, calculate_new_capacity, grow_to (realloc),
     push / push_panic (fast path len < capacity, cold path push_slow), pop, get, set, clear,
     extend_from_slice (clone loop), extend_from_slice_copy (one memcpy), push_n_copy (loop for count <= 16,
     otherwise the doubling strategy: write one, then copy_nonoverlapping(dst, dst + written, min(written, rest))),
     Clone (with_capacity(len), element-wise clone; partial clone when the new capacity is short), Drop.

   Memory is the map slot -> option A of Model.v.  In addition every access is checked against the size of
   the allocation: a write or read at a slot >= capacity is the outcome UB (heap overflow in the real code).
   len and capacity are u32 in the code; here they are N and the theorems show that they never exceed
   MAX_CAPACITY = u32::MAX.  `slice.len() as u32` (pinned tree) and `u32::try_from(slice.len())` (after the
   fix commit) are both expressible: the flag `trunc` selects the truncating conversion. *)
From ZV.Common Require Import Base Run.
From ZV.C10 Require Import Model.
Open Scope N_scope.

Section ValVec32.
Variable A : Type.

Record vv32 : Type := { wbuf : mem A; wlen : N; wcap : N }.

Definition vv_new : vv32 := {| wbuf := empty_mem; wlen := 0; wcap := 0 |}.

(* with_capacity(c): `usable` is malloc_usable_size(ptr) / size_of::<T>() as reported by the allocator *)
Definition vv_with_capacity (c usable : N) : vv32 :=
  if c =? 0 then vv_new else {| wbuf := empty_mem; wlen := 0; wcap := N.min usable MAX_CAPACITY |}.

(* slot accesses, checked against the allocation *)
Definition vv_rd (v : vv32) (i : N) : option A := if i <? wcap v then wbuf v i else None.
Definition vv_wr (v : vv32) (i : N) (x : A) : outcome vv32 :=
  if i <? wcap v then Ok {| wbuf := upd (wbuf v) i (Some x); wlen := wlen v; wcap := wcap v |} else UB.
Definition vv_set_len (v : vv32) (n : N) : vv32 := {| wbuf := wbuf v; wlen := n; wcap := wcap v |}.

(* grow_to: realloc keeps the old block's contents, the added slots are uninitialised *)
Definition vv_grow_to (v : vv32) (new_capacity : N) : vv32 :=
  if new_capacity <=? wcap v then v
  else {| wbuf := fun j => if j <? wcap v then wbuf v j else None; wlen := wlen v; wcap := new_capacity |}.

(* reserve: None = Err("Capacity overflow") *)
Definition vv32_reserve (v : vv32) (additional : N) : option vv32 :=
  let required := wlen v + additional in
  if MAX_CAPACITY <? required then None
  else if required <=? wcap v then Some v
  else Some (vv_grow_to v (calculate_new_capacity (wcap v) required)).

(* push: the refused value is destroyed *)
Definition vv32_push (v : vv32) (x : A) : outcome (vv32 * obs A) :=
  if wlen v <? wcap v then
    bind (vv_wr v (wlen v) x) (fun v1 => Ok (vv_set_len v1 (wlen v + 1), (RUnit, [])))
  else (* push_slow *)
    if MAX_CAPACITY <=? wlen v then Ok (v, (RErr, [x]))
    else
      let v1 := vv_grow_to v (calculate_new_capacity (wcap v) (wlen v + 1)) in
      bind (vv_wr v1 (wlen v1) x) (fun v2 => Ok (vv_set_len v2 (wlen v1 + 1), (RUnit, []))).

(* pop: len -= 1; ptr::read(ptr + len) *)
Definition vv32_pop (v : vv32) : outcome (vv32 * obs A) :=
  if wlen v =? 0 then Ok (v, (ROpt None, []))
  else
    let n := wlen v - 1 in
    match vv_rd v n with
    | None => UB
    | Some x => Ok ({| wbuf := upd (wbuf v) n None; wlen := n; wcap := wcap v |}, (ROpt (Some x), []))
    end.

Definition vv32_get (v : vv32) (i : N) : outcome (option A) :=
  if i <? wlen v then match vv_rd v i with None => UB | Some x => Ok (Some x) end
  else Ok None.

(* set: `*ptr = value` drops the old element, then stores (leaky = false, the code after the fix commit);
   `ptr::write(ptr, value)` stores without dropping (leaky = true, the pinned tree) *)
Definition vv32_set_with (leaky : bool) (v : vv32) (i : N) (x : A) : outcome (vv32 * obs A) :=
  if wlen v <=? i then Ok (v, (RErr, [x]))
  else match vv_rd v i with
       | None => UB
       | Some old => bind (vv_wr v i x) (fun v1 => Ok (v1, (RUnit, if leaky then [] else [old])))
       end.

(* clear: drop_in_place for 0..len in order *)
Definition vv32_clear (v : vv32) : outcome (vv32 * list A) :=
  bind (take_range A (vv_rd v) 0 (N.to_nat (wlen v))) (fun r =>
  Ok ({| wbuf := fst r; wlen := 0; wcap := wcap v |}, snd r)).

(* for (i, item) in slice.iter().enumerate() { ptr::write(dst.add(i), item.clone()) } *)
Fixpoint vv_write_list (v : vv32) (dst : N) (xs : list A) : outcome vv32 :=
  match xs with
  | [] => Ok v
  | x :: t => bind (vv_wr v dst x) (fun v1 => vv_write_list v1 (dst + 1) t)
  end.

(* ptr::copy_nonoverlapping(slice.as_ptr(), dst, slice.len()) *)
Definition vv_memcpy (v : vv32) (dst : N) (xs : list A) : outcome vv32 :=
  if dst + nlen xs <=? wcap v then
    Ok {| wbuf := fun j => if (dst <=? j) && (j <? dst + nlen xs) then nth_error xs (N.to_nat (j - dst))
                           else wbuf v j;
          wlen := wlen v; wcap := wcap v |}
  else UB.

(* the conversion of slice.len() (usize) to u32: None = Err("Length overflow") *)
Definition slice_len_u32 (trunc : bool) (n : N) : option N :=
  if trunc then Some (n mod 4294967296)
  else if MAX_CAPACITY <? n then None else Some n.

Definition vv32_extend_with (trunc copy : bool) (v : vv32) (xs : list A) : outcome (vv32 * ret A) :=
  match xs with
  | [] => Ok (v, RUnit)
  | _ =>
    match slice_len_u32 trunc (nlen xs) with
    | None => Ok (v, RErr)
    | Some additional =>
      if MAX_CAPACITY <? wlen v + additional then Ok (v, RErr)     (* checked_add *)
      else match vv32_reserve v additional with
           | None => Ok (v, RErr)
           | Some v1 =>
             bind (if copy then vv_memcpy v1 (wlen v1) xs else vv_write_list v1 (wlen v1) xs) (fun v2 =>
             Ok (vv_set_len v2 (wlen v + additional), RUnit))
           end
    end
  end.

(* push_n_copy *)
Fixpoint vv_fill (v : vv32) (dst : N) (n : nat) (x : A) : outcome vv32 :=
  match n with
  | O => Ok v
  | S n' => bind (vv_wr v dst x) (fun v1 => vv_fill v1 (dst + 1) n' x)
  end.

(* copy_nonoverlapping(p + src, p + dst, n) inside the buffer: the source must be initialised and both
   ranges must lie inside the allocation *)
Definition vv_dup (v : vv32) (src dst n : N) : outcome vv32 :=
  bind (peek_range A (vv_rd v) src (N.to_nat n)) (fun l => vv_memcpy v dst l).

(* while written < count { to_copy = min(written, count - written); copy(dst, dst + written, to_copy);
   written += to_copy }   (running out of fuel is reported as UB; N.to_nat count steps suffice) *)
Fixpoint vv_double (fuel : nat) (v : vv32) (dst written count : N) : outcome vv32 :=
  if count <=? written then Ok v
  else match fuel with
       | O => UB
       | S f =>
         let to_copy := N.min written (count - written) in
         bind (vv_dup v dst (dst + written) to_copy) (fun v1 => vv_double f v1 dst (written + to_copy) count)
       end.

Definition vv32_push_n (v : vv32) (count : N) (x : A) : outcome (vv32 * ret A) :=
  if count =? 0 then Ok (v, RUnit)
  else if MAX_CAPACITY <? wlen v + count then Ok (v, RErr)
  else match vv32_reserve v count with
       | None => Ok (v, RErr)
       | Some v1 =>
         bind (if count <=? 16 then vv_fill v1 (wlen v1) (N.to_nat count) x
               else bind (vv_wr v1 (wlen v1) x) (fun v2 => vv_double (N.to_nat count) v2 (wlen v1) 1 count))
              (fun v3 => Ok (vv_set_len v3 (wlen v + count), RUnit))
       end.

(* Clone: for i in 0..n: write(new + i, clone of the element at self + i) *)
Fixpoint vv_clone_loop (src dst : vv32) (i : N) (n : nat) : outcome vv32 :=
  match n with
  | O => Ok dst
  | S n' => match vv_rd src i with
            | None => UB
            | Some x => bind (vv_wr dst i x) (fun d => vv_clone_loop src d (i + 1) n')
            end
  end.

Definition vv32_clone (v : vv32) (usable : N) : outcome vv32 :=
  let nv := vv_with_capacity (wlen v) usable in
  if (0 <? wlen v) && (wlen v <=? wcap nv) then
    bind (vv_clone_loop v nv 0 (N.to_nat (wlen v))) (fun d => Ok (vv_set_len d (wlen v)))
  else if 0 <? wlen v then
    let k := N.min (wcap nv) (wlen v) in
    bind (vv_clone_loop v nv 0 (N.to_nat k)) (fun d => Ok (vv_set_len d k))
  else Ok nv.

(* Drop: clear(), then free(ptr): a slot that is still Some afterwards is a leaked element *)
Definition vv32_drop (v : vv32) : outcome (vv32 * list A) := vv32_clear v.

Inductive wop : Type :=
| WPush (x : A)
| WPushPanic (x : A)         (* push_panic: same paths, a refusal is a panic instead of Err *)
| WPop
| WGet (i : N)
| WSet (i : N) (x : A)
| WClear
| WExtend (xs : list A)      (* extend_from_slice *)
| WExtendCopy (xs : list A)  (* extend_from_slice_copy *)
| WPushN (k : N) (x : A)     (* push_n_copy *)
| WReserve (n : N).

Definition vv32_step_with (leaky trunc : bool) (v : vv32) (o : wop) : outcome (vv32 * obs A) :=
  match o with
  | WPush x | WPushPanic x => vv32_push v x
  | WPop => vv32_pop v
  | WGet i => bind (vv32_get v i) (fun r => Ok (v, (ROpt r, [])))
  | WSet i x => vv32_set_with leaky v i x
  | WClear => bind (vv32_clear v) (fun r => Ok (fst r, (RUnit, snd r)))
  | WExtend xs => bind (vv32_extend_with trunc false v xs) (fun r => Ok (fst r, (snd r, [])))
  | WExtendCopy xs => bind (vv32_extend_with trunc true v xs) (fun r => Ok (fst r, (snd r, [])))
  | WPushN k x => bind (vv32_push_n v k x) (fun r => Ok (fst r, (snd r, [])))
  | WReserve n => match vv32_reserve v n with
                  | None => Ok (v, (RErr, []))
                  | Some v1 => Ok (v1, (RUnit, []))
                  end
  end.
Definition vv32_step := vv32_step_with false false.

Fixpoint vv32_run_with (leaky trunc : bool) (v : vv32) (ops : list wop) : outcome (vv32 * list (obs A)) :=
  match ops with
  | [] => Ok (v, [])
  | o :: t => bind (vv32_step_with leaky trunc v o) (fun r =>
              bind (vv32_run_with leaky trunc (fst r) t) (fun r2 => Ok (fst r2, snd r :: snd r2)))
  end.
Definition vv32_run := vv32_run_with false false.

(* ----- the Vec bounded by u32::MAX that ValVec32 must implement ----- *)
Definition vec32_step (l : list A) (o : wop) : list A * obs A :=
  match o with
  | WPush x | WPushPanic x =>
      if MAX_CAPACITY <=? nlen l then (l, (RErr, [x])) else (l ++ [x], (RUnit, []))
  | WPop => (removelast l, (ROpt (last_error A l), []))
  | WGet i => (l, (ROpt (nth_error l (N.to_nat i)), []))
  | WSet i x => match nth_error l (N.to_nat i) with
                | None => (l, (RErr, [x]))
                | Some old => (firstn (N.to_nat i) l ++ x :: skipn (S (N.to_nat i)) l, (RUnit, [old]))
                end
  | WClear => ([], (RUnit, l))
  | WExtend xs | WExtendCopy xs =>
      if MAX_CAPACITY <? nlen l + nlen xs then (l, (RErr, [])) else (l ++ xs, (RUnit, []))
  | WPushN k x =>
      if MAX_CAPACITY <? nlen l + k then (l, (RErr, [])) else (l ++ repeat x (N.to_nat k), (RUnit, []))
  | WReserve n => (l, (if MAX_CAPACITY <? nlen l + n then RErr else RUnit, []))
  end.

Fixpoint vec32_run (l : list A) (ops : list wop) : list A * list (obs A) :=
  match ops with
  | [] => (l, [])
  | o :: t => let r := vec32_step l o in
              let r2 := vec32_run (fst r) t in (fst r2, snd r :: snd r2)
  end.

(* elements created for / handed to the container by an operation (clones of a slice count only when the
   operation was accepted), and elements handed back or destroyed by it; WGet hands out a reference *)
Definition wop_in (o : wop) (b : obs A) : list A :=
  match o with
  | WPush x | WPushPanic x | WSet _ x => [x]
  | WExtend xs | WExtendCopy xs => match fst b with RErr => [] | _ => xs end
  | WPushN k x => match fst b with RErr => [] | _ => repeat x (N.to_nat k) end
  | _ => []
  end.
Definition wobs_out (o : wop) (b : obs A) : list A :=
  match o with WGet _ => snd b | _ => obs_out A b end.
Fixpoint whistory_in (ops : list wop) (bs : list (obs A)) : list A :=
  match ops, bs with
  | o :: t, b :: bt => wop_in o b ++ whistory_in t bt
  | _, _ => []
  end.
Fixpoint whistory_out (ops : list wop) (bs : list (obs A)) : list A :=
  match ops, bs with
  | o :: t, b :: bt => wobs_out o b ++ whistory_out t bt
  | _, _ => []
  end.

(* W v l: the ValVec32 v holds exactly the sequence l in slots 0..len, len <= capacity <= u32::MAX, and every
   slot from len on - inside or outside the allocation - is uninitialised *)
Record W (v : vv32) (l : list A) : Prop := {
  W_len : wlen v = N.of_nat (length l);
  W_le : wlen v <= wcap v;
  W_cap : wcap v <= MAX_CAPACITY;
  W_live : forall i, (i < length l)%nat -> wbuf v (N.of_nat i) = nth_error l i;
  W_dead : forall j, wlen v <= j -> wbuf v j = None
}.

End ValVec32.

Arguments wbuf {A} v.
Arguments wlen {A} v.
Arguments wcap {A} v.
Arguments vv_new {A}.
Arguments WPush {A} x.
Arguments WPushPanic {A} x.
Arguments WPop {A}.
Arguments WGet {A} i.
Arguments WSet {A} i x.
Arguments WClear {A}.
Arguments WExtend {A} xs.
Arguments WExtendCopy {A} xs.
Arguments WPushN {A} k x.
Arguments WReserve {A} n.

(* ---------- trace for the correspondence check (elements are ids : N) ---------- *)
Inductive tw : Type := TW (o : wop N) | TWClone (usable : N).

Definition vv32_tstep (v : vv32 N) (o : tw) : outcome (vv32 N * obs N) :=
  match o with
  | TW o => vv32_step N v o
  | TWClone usable => bind (vv32_clone N v usable) (fun c =>
                      bind (vv32_drop N v) (fun r => Ok (c, (RUnit, snd r))))
  end.

Definition vv32_state (v : vv32 N) : list Z := [(-8)%Z; Z.of_N (wlen v); Z.of_N (wcap v)].

(* counted = false: the element type is Copy (u64), destructors do not exist and are not compared *)
Definition enc_obs_c (counted : bool) (b : obs N) : list Z :=
  if counted then enc_obs b else enc_obs (fst b, []).

Fixpoint vv32_trace (counted : bool) (v : vv32 N) (ops : list tw) : list (list Z) :=
  match ops with
  | [] => []
  | o :: t => match vv32_tstep v o with
              | UB => [[(-99)%Z]]
              | Ok r => (enc_obs_c counted (snd r) ++ vv32_state (fst r)) :: vv32_trace counted (fst r) t
              end
  end.
