(* BitPackedStringVec32/64: the arena + one packed (offset, length) u64 per string implement a Vec of strings; the
   bit fields read back what was packed; a refused push never disturbs the held strings (even where it leaves its
   bytes in the arena). *)
From ZV.Common Require Import Base.
From ZV.C10 Require Import ModelArena ProofsArena ModelFixedLen ModelBitPacked.
Open Scope N_scope.

Lemma bp_unpack (w64 : bool) o l :
  o <= (if w64 then MASK40 else U32_MAX) -> l <= bp_max_length w64 ->
  bp_offset w64 (bp_pack w64 o l) = o /\ bp_length w64 (bp_pack w64 o l) = l.
Proof.
  intros Ho Hl. unfold bp_offset, bp_length, bp_pack, bp_max_length in *. destruct w64.
  - unfold MASK40, MASK24 in *.
    change 1099511627775 with (N.ones 40). change 16777215 with (N.ones 24) in *.
    rewrite !N.land_ones, N.shiftl_mul_pow2, N.shiftr_div_pow2.
    assert (H40 : 2 ^ 40 = 1099511627776) by reflexivity.
    assert (H64 : 2 ^ 64 = 18446744073709551616) by reflexivity.
    assert (H24 : 2 ^ 24 = 16777216) by reflexivity.
    assert (Ho' : o < 2 ^ 40) by (change (N.ones 40) with 1099511627775 in Ho; lia).
    assert (Hl' : l < 2 ^ 24) by (change (N.ones 24) with 16777215 in Hl; lia).
    rewrite (N.mod_small o) by exact Ho'.
    rewrite (N.mod_small (l * 2 ^ 40)) by (rewrite H40, H64; lia).
    rewrite (lor_disjoint_add o l 40) by exact Ho'.
    rewrite H40 in *. rewrite H24 in *. split; lia.
  - unfold U32_MAX in *.
    change 4294967295 with (N.ones 32). rewrite !N.land_ones, N.shiftl_mul_pow2, N.shiftr_div_pow2.
    assert (H32 : 2 ^ 32 = 4294967296) by reflexivity.
    assert (H64 : 2 ^ 64 = 18446744073709551616) by reflexivity.
    assert (Ho' : o < 2 ^ 32) by lia.
    rewrite (N.mod_small (l * 2 ^ 32)) by (rewrite H32, H64; lia).
    rewrite (lor_disjoint_add o l 32) by exact Ho'.
    rewrite H32 in *. split; lia.
Qed.

Lemma slice_app_l (a b : bytes) off len s : slice a off len = Done s -> slice (a ++ b) off len = Done s.
Proof.
  unfold slice. rewrite nlen_app. rewrite !nlen_length.
  destruct (N.leb_spec (off + len) (N.of_nat (length a))) as [H|H]; [|discriminate].
  intros E. destruct (N.leb_spec (off + len) (N.of_nat (length a) + N.of_nat (length b))); [|lia].
  rewrite skipn_app, firstn_app, skipn_length.
  replace (N.to_nat len - (length a - N.to_nat off))%nat with 0%nat by lia.
  cbn [firstn]. rewrite app_nil_r. exact E.
Qed.

Lemma slice_app_r (a s : bytes) : slice (a ++ s) (nlen a) (nlen s) = Done s.
Proof.
  unfold slice. rewrite nlen_app. destruct (N.leb_spec (nlen a + nlen s) (nlen a + nlen s)); [|lia].
  rewrite !nlen_length, !Nat2N.id. rewrite skipn_app, skipn_all, Nat.sub_diag. cbn [skipn app].
  rewrite firstn_all. reflexivity.
Qed.

Lemma Forall2_nth {T U} (P : T -> U -> Prop) l1 : forall l2 i y,
  Forall2 P l1 l2 -> nth_error l2 i = Some y -> exists x, nth_error l1 i = Some x /\ P x y.
Proof.
  induction l1 as [|a l1 IH]; intros l2 i y H E; inversion H; subst.
  - destruct i; discriminate.
  - destruct i as [|i]; cbn [nth_error] in *.
    + injection E as ->. eexists. split; [reflexivity|assumption].
    + eapply IH; eassumption.
Qed.

Lemma Forall2_len {T U} (P : T -> U -> Prop) l1 l2 : Forall2 P l1 l2 -> length l1 = length l2.
Proof. induction 1; cbn [length]; congruence. Qed.

Lemma Forall2_imp {T U} (P Q : T -> U -> Prop) l1 l2 :
  (forall x y, P x y -> Q x y) -> Forall2 P l1 l2 -> Forall2 Q l1 l2.
Proof. intros H. induction 1; constructor; auto. Qed.

Section BP.
Variable w64 : bool.
Local Notation BV := (ModelBitPacked.BV w64).
Local Notation entry_ok := (ModelBitPacked.entry_ok w64).

Lemma entry_ok_mono a b p s : entry_ok a p s -> entry_ok (a ++ b) p s.
Proof.
  intros [off [Hp [Hin [Hsl [Hl Hu]]]]]. exists off. split; [exact Hp|]. split; [rewrite nlen_app; lia|].
  split; [apply slice_app_l; exact Hsl|]. split; assumption.
Qed.

Lemma BV_new : BV bpv_new ([], 0).
Proof.
  constructor; cbn [bpv_new parena pentries fst snd nlen]; [reflexivity|constructor|].
  destruct w64; unfold MASK40, U32_MAX; lia.
Qed.

Lemma BV_len v st : BV v st -> nlen (pentries v) = nlen (fst st).
Proof. intros H. rewrite !nlen_length. f_equal. eapply Forall2_len. apply (BV_entries _ _ _ H). Qed.

Lemma BV_get_bytes v st i : BV v st -> bpv_get_bytes w64 v i = Done (nth_error (fst st) (N.to_nat i)).
Proof.
  intros H. unfold bpv_get_bytes. rewrite (BV_len v st H), nlen_length.
  destruct (N.leb_spec (N.of_nat (length (fst st))) i).
  - symmetry. f_equal. apply nth_error_None. lia.
  - destruct (nth_error (fst st) (N.to_nat i)) as [s|] eqn:E; [|apply nth_error_None in E; lia].
    destruct (Forall2_nth _ _ _ _ _ (BV_entries _ _ _ H) E) as [p [Hp [off [Hpk [Hin [Hsl [Hl Hu]]]]]]].
    unfold index. rewrite Hp. cbn [rbind].
    pose proof (BV_fits _ _ _ H) as Hf.
    destruct (bp_unpack w64 off (nlen s)) as [Ho Hlen]; [destruct w64; lia|exact Hl|].
    rewrite Hpk, Ho, Hlen.
    destruct (N.leb_spec (off + nlen s) (nlen (parena v))); [|lia]. rewrite Hsl. reflexivity.
Qed.

Lemma BV_get v st i : BV v st -> bpv_get w64 v i = Done (nth_error (fst st) (N.to_nat i)).
Proof.
  intros H. unfold bpv_get. rewrite (BV_get_bytes v st i H). cbn [rbind].
  destruct (nth_error (fst st) (N.to_nat i)) as [s|] eqn:E; [|reflexivity].
  destruct (Forall2_nth _ _ _ _ _ (BV_entries _ _ _ H) E) as [p [_ [off [_ [_ [_ [_ Hu]]]]]]]. rewrite Hu. reflexivity.
Qed.

Lemma BV_push v st s :
  BV v st -> utf8_valid s = true -> (w64 = true -> snd st + nlen s <= MASK40) ->
  snd (bpv_push w64 v s) = snd (bps_step w64 st (PPush s)) /\
  BV (fst (bpv_push w64 v s)) (fst (bps_step w64 st (PPush s))) /\
  snd (fst (bps_step w64 st (PPush s))) <= snd st + nlen s.
Proof.
  intros H Hu Hb. destruct st as [l used].
  pose proof (BV_used _ _ _ H) as Hus. pose proof (BV_fits _ _ _ H) as Hf. pose proof (BV_entries _ _ _ H) as He.
  pose proof (BV_len _ _ H) as Hn. cbn [fst snd] in *. subst used.
  assert (Hnew : forall a, a = parena v ->
                 entry_ok (a ++ s) (bp_pack w64 (nlen a) (nlen s)) s \/ bp_max_length w64 < nlen s).
  { intros a ->. destruct (N.ltb_spec (bp_max_length w64) (nlen s)); [right; assumption|left].
    exists (nlen (parena v)). split; [reflexivity|]. split; [rewrite nlen_app; lia|].
    split; [apply slice_app_r|]. split; assumption. }
  assert (Hold : Forall2 (entry_ok (parena v ++ s)) (pentries v) l).
  { eapply Forall2_imp; [|exact He]. intros p x. apply entry_ok_mono. }
  unfold bpv_push, bps_step, bp_max_offset, bp_max_length in *. destruct w64; cbn [negb andb].
  - specialize (Hb eq_refl). unfold MASK40, MASK24, U64_MAX in *.
    destruct (N.ltb_spec 18446744073709551615 (nlen (parena v) + nlen s)); [lia|].
    destruct (N.ltb_spec 18446744073709551615 (nlen (parena v))); [lia|].
    destruct (N.ltb_spec 16777215 (nlen s)) as [Hlong|Hshort]; cbn [fst snd].
    + split; [reflexivity|]. split; [|lia].
      constructor; cbn [fst snd parena pentries]; [rewrite nlen_app; reflexivity|exact Hold|rewrite nlen_app; cbv beta iota; unfold MASK40, U32_MAX; lia].
    + split; [rewrite Hn; reflexivity|]. split; [|lia].
      constructor; cbn [fst snd parena pentries]; [rewrite nlen_app; reflexivity| |rewrite nlen_app; cbv beta iota; unfold MASK40, U32_MAX; lia].
      apply Forall2_app; [exact Hold|]. constructor; [|constructor].
      destruct (Hnew _ eq_refl) as [Hok|Hbad]; [exact Hok|lia].
  - unfold U32_MAX in *.
    destruct (N.ltb_spec 4294967295 (nlen (parena v))); [lia|].
    destruct (N.ltb_spec 4294967295 (nlen (parena v) + nlen s)) as [Hfull|Hroom]; cbn [fst snd].
    + split; [reflexivity|]. split; [exact H|lia].
    + destruct (N.ltb_spec 4294967295 (nlen s)); [lia|]. cbn [fst snd].
      split; [rewrite Hn; reflexivity|]. split; [|lia].
      constructor; cbn [fst snd parena pentries]; [rewrite nlen_app; reflexivity| |rewrite nlen_app; cbv beta iota; unfold MASK40, U32_MAX; lia].
      apply Forall2_app; [exact Hold|]. constructor; [|constructor].
      destruct (Hnew _ eq_refl) as [Hok|Hbad]; [exact Hok|lia].
Qed.

Lemma bpv_step_refines v st o :
  BV v st -> pop_wf o -> (w64 = true -> snd st + pop_bytes o <= MASK40) ->
  exists v', bpv_step w64 v o = Done (v', snd (bps_step w64 st o)) /\ BV v' (fst (bps_step w64 st o)) /\
             snd (fst (bps_step w64 st o)) <= snd st + pop_bytes o.
Proof.
  intros H Hwf Hb. destruct o as [s|i|i|]; cbn [bpv_step pop_bytes pop_wf] in *.
  - destruct (BV_push v st s H Hwf Hb) as [Ho [HB Hle]].
    exists (fst (bpv_push w64 v s)). split; [rewrite <- Ho; destruct (bpv_push w64 v s); reflexivity|split; assumption].
  - rewrite (BV_get v st i H). cbn [rbind]. destruct st as [l used]. cbn [bps_step fst snd].
    exists v. split; [reflexivity|split; [exact H|lia]].
  - rewrite (BV_get_bytes v st i H). cbn [rbind]. destruct st as [l used]. cbn [bps_step fst snd].
    exists v. split; [reflexivity|split; [exact H|lia]].
  - rewrite (BV_len v st H). destruct st as [l used]. cbn [bps_step fst snd].
    exists v. split; [reflexivity|split; [exact H|lia]].
Qed.

Lemma bpv_run_refines ops : forall v st,
  BV v st -> Forall pop_wf ops -> (w64 = true -> snd st + phist_bytes ops <= MASK40) ->
  exists v', bpv_run w64 v ops = Done (v', snd (bps_run w64 st ops)) /\ BV v' (fst (bps_run w64 st ops)).
Proof.
  induction ops as [|o t IH]; intros v st H Hwf Hb.
  - exists v. split; [reflexivity|exact H].
  - cbn [phist_bytes] in Hb. inversion Hwf as [|? ? Ho Ht]; subst. cbn [bpv_run bps_run].
    destruct (bpv_step_refines v st o H Ho ltac:(intros E; specialize (Hb E); lia)) as [v1 [E [HB Hle]]].
    rewrite E. cbn [rbind fst snd].
    destruct (IH v1 _ HB Ht ltac:(intros E'; specialize (Hb E'); lia)) as [v' [E' HB']]. rewrite E'. cbn [rbind fst snd].
    exists v'. split; [reflexivity|exact HB'].
Qed.

End BP.

Lemma bitpacked_refines_list_proof w64 (ops : list pop) :
  Forall pop_wf ops -> (w64 = true -> phist_bytes ops <= MASK40) ->
  exists v', bpv_run w64 bpv_new ops = Done (v', snd (bps_run w64 ([], 0) ops)) /\
             BV w64 v' (fst (bps_run w64 ([], 0) ops)).
Proof.
  intros Hwf Hb. apply bpv_run_refines; [apply BV_new|exact Hwf|]. cbn [snd]. intros E. specialize (Hb E). lia.
Qed.

(* pushes below the limits are all accepted with indices 0, 1, ... *)
Lemma bps_pushes_accepted w64 ss : forall l used,
  Forall (fun s => nlen s <= MASK24) ss -> used + nlen (concat ss) <= U32_MAX ->
  fst (fst (bps_run w64 (l, used) (map PPush ss))) = l ++ ss.
Proof.
  induction ss as [|s ss IH]; intros l used Hf Hb; [cbn; rewrite app_nil_r; reflexivity|].
  inversion Hf; subst. cbn [map bps_run concat] in *. rewrite nlen_app in Hb. cbv zeta. cbn [fst].
  assert (E : fst (bps_step w64 (l, used) (PPush s)) = (l ++ [s], used + nlen s)).
  { unfold bps_step, MASK24, U32_MAX in *. destruct w64.
    - destruct (N.ltb_spec 16777215 (nlen s)); [lia|reflexivity].
    - destruct (N.ltb_spec 4294967295 (used + nlen s)); [lia|reflexivity]. }
  rewrite E, IH by (assumption || lia). rewrite <- app_assoc. reflexivity.
Qed.

Lemma phist_bytes_pushes ss : phist_bytes (map PPush ss) = nlen (concat ss).
Proof.
  induction ss as [|s ss IH]; [reflexivity|]. cbn [map phist_bytes pop_bytes concat]. rewrite nlen_app, IH. reflexivity.
Qed.

Lemma bitpacked_get_pushes_proof w64 (ss : list bytes) i :
  Forall (fun s => utf8_valid s = true /\ nlen s <= MASK24) ss -> nlen (concat ss) <= U32_MAX ->
  exists v outs, bpv_run w64 bpv_new (map PPush ss) = Done (v, outs) /\
                 bpv_get w64 v i = Done (nth_error ss (N.to_nat i)) /\
                 bpv_get_bytes w64 v i = Done (nth_error ss (N.to_nat i)) /\ nlen (pentries v) = nlen ss.
Proof.
  intros Hf Hb.
  destruct (bitpacked_refines_list_proof w64 (map PPush ss)) as [v [E HB]].
  { apply Forall_forall. intros o Ho. apply in_map_iff in Ho. destruct Ho as [s [<- Hs]].
    rewrite Forall_forall in Hf. apply (Hf s Hs). }
  { intros _. rewrite phist_bytes_pushes. unfold U32_MAX, MASK40 in *. lia. }
  assert (Hl : fst (fst (bps_run w64 ([], 0) (map PPush ss))) = ss).
  { rewrite bps_pushes_accepted; [reflexivity| |lia].
    eapply Forall_impl; [|exact Hf]. intros s Hs. apply Hs. }
  exists v, (snd (bps_run w64 ([], 0) (map PPush ss))). split; [exact E|].
  rewrite (BV_get w64 v _ i HB), (BV_get_bytes w64 v _ i HB), (BV_len w64 v _ HB), Hl. repeat split; reflexivity.
Qed.

(* the hypotheses are satisfiable: both variants on a history with empty strings, a NUL byte, multi-byte UTF-8 and
   reads past the end *)
Example bitpacked_history_example :
  let ops := [PPush [97; 98]; PPush []; PPush [0; 195; 169]; PGet 0; PGet 1; PGetBytes 2; PGet 3; PLen; PPush [99]; PGet 3] in
  Forall pop_wf ops /\ phist_bytes ops <= MASK40 /\
  match bpv_run true bpv_new ops, bpv_run false bpv_new ops with
  | Done (v, outs), Done (v', outs') =>
      outs = snd (bps_run true ([], 0) ops) /\ outs' = snd (bps_run false ([], 0) ops) /\ outs = outs' /\
      nth_error outs 5 = Some (PStr (Some [0; 195; 169])) /\ nth_error outs 9 = Some (PStr (Some [99])) /\
      pentries v = [2199023255552; 2; 3298534883330; 1099511627781] /\ pentries v' = [8589934592; 2; 12884901890; 4294967301]
  | _, _ => False
  end.
Proof. vm_compute. repeat split; try discriminate; repeat constructor. Qed.
