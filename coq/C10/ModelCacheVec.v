(* C10 mechanism models of the two small raw-pointer vectors (definitions only).

   Modelled code, as written in the tree under verification:
     src/memory/cache.rs   CacheAlignedVec<T>: new, with_capacity (= new + reserve), reserve
        (checked_add; `required.max(capacity.saturating_mul(2)).max(4)`), reallocate (zero request: nothing;
        zero-sized elements: capacity = usize::MAX; `bytes = (new_capacity * size + 63) & !63` with checked
        arithmetic, `aligned_capacity = bytes / size`, Layout::from_size_align(aligned_capacity * size, 64);
        first allocation: fresh block; otherwise fresh block + copy_nonoverlapping(old, new, len) + dealloc),
        push (`len == capacity` -> reserve(1)?; ptr::write), pop (len -= 1; ptr::read), get, clear
        (drop_in_place 0..len in order), truncate (drop_in_place len'..len in order), Drop (clear + dealloc).
     src/memory/bump.rs    BumpVec<'a, T>: new_in (capacity 0 refused; one alloc_slice of `capacity` slots),
        push (refused when len >= capacity; never grows), pop, len, capacity, Drop (drop_in_place 0..len; the
        memory stays with the allocator).

   Memory is the map slot -> option A of Model.v; every access is checked against the size of the block
   (a slot >= capacity is the outcome UB = heap overflow in the real code).  usize is 64 bits; the element
   size `sz` = size_of::<T>() is a parameter, the alignment of the block is the cache line (element types
   with a larger alignment are not covered).  The allocator is assumed to succeed. *)
From ZV.Common Require Import Base Run.
From ZV.C10 Require Import Model.
Open Scope N_scope.

Definition USIZE_MAX : N := 18446744073709551615.
Definition ISIZE_MAX : N := 9223372036854775807.
Definition CACHE_LINE : N := 64.

(* ---------- capacity arithmetic of memory::cache::CacheAlignedVec (no element type involved) ---------- *)
(* reallocate(new_capacity) up to the allocation: None = Err, Some c = the capacity recorded afterwards *)
Definition cav_aligned_capacity (sz new_capacity : N) : option N :=
  if USIZE_MAX <? new_capacity * sz then None                               (* checked_mul *)
  else if USIZE_MAX <? new_capacity * sz + (CACHE_LINE - 1) then None       (* checked_add *)
  else
    let bytes := (new_capacity * sz + (CACHE_LINE - 1)) / CACHE_LINE * CACHE_LINE in   (* & !63 *)
    let aligned := bytes / sz in
    if ISIZE_MAX - (CACHE_LINE - 1) <? aligned * sz then None                (* Layout::from_size_align *)
    else Some aligned.

(* reserve's target: required.max(capacity.saturating_mul(2)).max(4) *)
Definition cav_new_cap (required capacity : N) : N :=
  N.max (N.max required (N.min (capacity * 2) USIZE_MAX)) 4.

Section CacheVec.
Variable A : Type.

Record cav : Type := { abuf : mem A; alen : N; acap : N }.

Definition cav_new : cav := {| abuf := empty_mem; alen := 0; acap := 0 |}.

Definition cav_rd (v : cav) (i : N) : option A := if i <? acap v then abuf v i else None.
Definition cav_wr (v : cav) (i : N) (x : A) : outcome cav :=
  if i <? acap v then Ok {| abuf := upd (abuf v) i (Some x); alen := alen v; acap := acap v |} else UB.

(* reallocate: None = Err (nothing changed) *)
Definition cav_reallocate (sz : N) (v : cav) (new_capacity : N) : outcome (option cav) :=
  if new_capacity =? 0 then Ok (Some v)
  else if sz =? 0 then Ok (Some {| abuf := abuf v; alen := alen v; acap := USIZE_MAX |})
  else match cav_aligned_capacity sz new_capacity with
       | None => Ok None
       | Some aligned =>
         if acap v =? 0 then Ok (Some {| abuf := empty_mem; alen := alen v; acap := aligned |})
         else (* copy_nonoverlapping(old, new, len): both blocks must hold len slots *)
           if (alen v <=? acap v) && (alen v <=? aligned)
           then Ok (Some {| abuf := fun j => if j <? alen v then abuf v j else None; alen := alen v; acap := aligned |})
           else UB
       end.

Definition cav_reserve (sz : N) (v : cav) (additional : N) : outcome (option cav) :=
  let required := alen v + additional in
  if USIZE_MAX <? required then Ok None
  else if required <=? acap v then Ok (Some v)
  else cav_reallocate sz v (cav_new_cap required (acap v)).

Definition cav_with_capacity (sz c : N) : outcome (option cav) := cav_reserve sz cav_new c.

Definition cav_write_end (v : cav) (x : A) : outcome (cav * obs A) :=
  bind (cav_wr v (alen v) x) (fun v1 =>
  Ok ({| abuf := abuf v1; alen := alen v + 1; acap := acap v1 |}, (RUnit, []))).

(* push: a refusal destroys the value (it is dropped when the function returns the error) *)
Definition cav_push (sz : N) (v : cav) (x : A) : outcome (cav * obs A) :=
  if alen v =? acap v then
    bind (cav_reserve sz v 1) (fun r =>
    match r with
    | None => Ok (v, (RErr, [x]))
    | Some v1 => cav_write_end v1 x
    end)
  else cav_write_end v x.

Definition cav_pop (v : cav) : outcome (cav * obs A) :=
  if alen v =? 0 then Ok (v, (ROpt None, []))
  else
    let n := alen v - 1 in
    match cav_rd v n with
    | None => UB
    | Some x => Ok ({| abuf := upd (abuf v) n None; alen := n; acap := acap v |}, (ROpt (Some x), []))
    end.

Definition cav_get (v : cav) (i : N) : outcome (option A) :=
  if i <? alen v then match cav_rd v i with None => UB | Some x => Ok (Some x) end
  else Ok None.

(* truncate(n): drop_in_place for n..len in order; clear = the same from 0 *)
Definition cav_truncate (v : cav) (n : N) : outcome (cav * list A) :=
  if alen v <=? n then Ok (v, [])
  else bind (take_range A (cav_rd v) n (N.to_nat (alen v - n))) (fun r =>
       Ok ({| abuf := fst r; alen := n; acap := acap v |}, snd r)).

Definition cav_clear (v : cav) : outcome (cav * list A) :=
  bind (take_range A (cav_rd v) 0 (N.to_nat (alen v))) (fun r =>
  Ok ({| abuf := fst r; alen := 0; acap := acap v |}, snd r)).

(* Drop: clear(), then dealloc: a slot that is still Some afterwards is a leaked element *)
Definition cav_drop (v : cav) : outcome (cav * list A) := cav_clear v.

Inductive aop : Type :=
| APush (x : A)
| APop
| AGet (i : N)
| AClear
| ATruncate (n : N)
| AReserve (n : N).

Definition cav_step (sz : N) (v : cav) (o : aop) : outcome (cav * obs A) :=
  match o with
  | APush x => cav_push sz v x
  | APop => cav_pop v
  | AGet i => bind (cav_get v i) (fun r => Ok (v, (ROpt r, [])))
  | AClear => bind (cav_clear v) (fun r => Ok (fst r, (RUnit, snd r)))
  | ATruncate n => bind (cav_truncate v n) (fun r => Ok (fst r, (RUnit, snd r)))
  | AReserve n => bind (cav_reserve sz v n) (fun r =>
                  match r with None => Ok (v, (RErr, [])) | Some v1 => Ok (v1, (RUnit, [])) end)
  end.

Fixpoint cav_run (sz : N) (v : cav) (ops : list aop) : outcome (cav * list (obs A)) :=
  match ops with
  | [] => Ok (v, [])
  | o :: t => bind (cav_step sz v o) (fun r =>
              bind (cav_run sz (fst r) t) (fun r2 => Ok (fst r2, snd r :: snd r2)))
  end.

(* ----- the Vec it must implement (no refusals: the theorems bound the byte size of the history) ----- *)
Definition avec_step (l : list A) (o : aop) : list A * obs A :=
  match o with
  | APush x => (l ++ [x], (RUnit, []))
  | APop => (removelast l, (ROpt (last_error A l), []))
  | AGet i => (l, (ROpt (nth_error l (N.to_nat i)), []))
  | AClear => ([], (RUnit, l))
  | ATruncate n => (firstn (N.to_nat n) l, (RUnit, skipn (N.to_nat n) l))
  | AReserve n => (l, (RUnit, []))
  end.

Fixpoint avec_run (l : list A) (ops : list aop) : list A * list (obs A) :=
  match ops with
  | [] => (l, [])
  | o :: t => let r := avec_step l o in
              let r2 := avec_run (fst r) t in (fst r2, snd r :: snd r2)
  end.

(* number of slots a history can ask for *)
Definition aop_size (o : aop) : N :=
  match o with APush _ => 1 | AReserve n => n | _ => 0 end.
Fixpoint ahist_size (ops : list aop) : N :=
  match ops with [] => 0 | o :: t => aop_size o + ahist_size t end.

(* elements handed to the vector by an operation, and elements handed back or destroyed by it (AGet hands out
   a reference) *)
Definition aop_in (o : aop) : list A := match o with APush x => [x] | _ => [] end.
Definition aobs_out (o : aop) (b : obs A) : list A :=
  match o with AGet _ => snd b | _ => obs_out A b end.
Fixpoint ahistory_in (ops : list aop) : list A :=
  match ops with [] => [] | o :: t => aop_in o ++ ahistory_in t end.
Fixpoint ahistory_out (ops : list aop) (bs : list (obs A)) : list A :=
  match ops, bs with
  | o :: t, b :: bt => aobs_out o b ++ ahistory_out t bt
  | _, _ => []
  end.

(* AW v l: v holds exactly l in slots 0..len, len <= capacity, every other slot is uninitialised *)
Record AW (v : cav) (l : list A) : Prop := {
  AW_len : alen v = N.of_nat (length l);
  AW_le : alen v <= acap v;
  AW_live : forall i, (i < length l)%nat -> abuf v (N.of_nat i) = nth_error l i;
  AW_dead : forall j, alen v <= j -> abuf v j = None
}.

(* =====================================================================
   BumpVec
   ===================================================================== *)
(* new_in: None = Err("capacity cannot be zero"); the block handed out by alloc_slice is uninitialised *)
Definition bv_new_in (capacity : N) : option cav :=
  if capacity =? 0 then None else Some {| abuf := empty_mem; alen := 0; acap := capacity |}.

Definition bv_push (v : cav) (x : A) : outcome (cav * obs A) :=
  if acap v <=? alen v then Ok (v, (RErr, [x])) else cav_write_end v x.

Inductive bop : Type :=
| BPush (x : A)
| BPop
| BGet (i : N).        (* as_slice().get(i) *)

Definition bv_step (v : cav) (o : bop) : outcome (cav * obs A) :=
  match o with
  | BPush x => bv_push v x
  | BPop => cav_pop v
  | BGet i => bind (cav_get v i) (fun r => Ok (v, (ROpt r, [])))
  end.

Fixpoint bv_run (v : cav) (ops : list bop) : outcome (cav * list (obs A)) :=
  match ops with
  | [] => Ok (v, [])
  | o :: t => bind (bv_step v o) (fun r =>
              bind (bv_run (fst r) t) (fun r2 => Ok (fst r2, snd r :: snd r2)))
  end.

(* Drop: drop_in_place 0..len; nothing is deallocated *)
Definition bv_drop (v : cav) : outcome (cav * list A) := cav_clear v.

(* a Vec bounded by n: a push onto a full vector is refused and the value destroyed *)
Definition bvec_step (n : N) (l : list A) (o : bop) : list A * obs A :=
  match o with
  | BPush x => if n <=? nlen l then (l, (RErr, [x])) else (l ++ [x], (RUnit, []))
  | BPop => (removelast l, (ROpt (last_error A l), []))
  | BGet i => (l, (ROpt (nth_error l (N.to_nat i)), []))
  end.

Fixpoint bvec_run (n : N) (l : list A) (ops : list bop) : list A * list (obs A) :=
  match ops with
  | [] => (l, [])
  | o :: t => let r := bvec_step n l o in
              let r2 := bvec_run n (fst r) t in (fst r2, snd r :: snd r2)
  end.

Definition bop_in (o : bop) : list A := match o with BPush x => [x] | _ => [] end.
Definition bobs_out (o : bop) (b : obs A) : list A :=
  match o with BGet _ => snd b | _ => obs_out A b end.
Fixpoint bhistory_in (ops : list bop) : list A :=
  match ops with [] => [] | o :: t => bop_in o ++ bhistory_in t end.
Fixpoint bhistory_out (ops : list bop) (bs : list (obs A)) : list A :=
  match ops, bs with
  | o :: t, b :: bt => bobs_out o b ++ bhistory_out t bt
  | _, _ => []
  end.

End CacheVec.

Arguments abuf {A} c.
Arguments alen {A} c.
Arguments acap {A} c.
Arguments cav_new {A}.
Arguments APush {A} x.
Arguments APop {A}.
Arguments AGet {A} i.
Arguments AClear {A}.
Arguments ATruncate {A} n.
Arguments AReserve {A} n.
Arguments BPush {A} x.
Arguments BPop {A}.
Arguments BGet {A} i.

(* ---------- traces for the correspondence check (elements are ids : N) ---------- *)
Definition cav_state (v : cav N) : list Z := [(-8)%Z; Z.of_N (alen v); Z.of_N (acap v)].

Definition enc_obs_a (counted : bool) (b : obs N) : list Z :=
  if counted then enc_obs b else enc_obs (fst b, []).

Fixpoint cav_trace (counted : bool) (sz : N) (v : cav N) (ops : list (aop N)) : list (list Z) :=
  match ops with
  | [] => []
  | o :: t => match cav_step N sz v o with
              | UB => [[(-99)%Z]]
              | Ok r => (enc_obs_a counted (snd r) ++ cav_state (fst r)) :: cav_trace counted sz (fst r) t
              end
  end.

Definition cav_trace0 (counted : bool) (sz c : N) (ops : list (aop N)) : list (list Z) :=
  match (if c =? 0 then Ok (Some cav_new) else cav_with_capacity N sz c) with
  | Ok (Some v) => cav_trace counted sz v ops
  | _ => [[(-99)%Z]]
  end.

Fixpoint bv_trace (v : cav N) (ops : list (bop N)) : list (list Z) :=
  match ops with
  | [] => []
  | o :: t => match bv_step N v o with
              | UB => [[(-99)%Z]]
              | Ok r => (enc_obs (snd r) ++ cav_state (fst r)) :: bv_trace (fst r) t
              end
  end.

Definition bv_trace0 (c : N) (ops : list (bop N)) : list (list Z) :=
  match bv_new_in N c with
  | Some v => bv_trace v ops
  | None => [[(-99)%Z]]
  end.
