(* C18: Pipeline::execute_stream - for every interleaving of the stage tasks the delivered outputs are a
   prefix of the sequential result, and a finished run without a reported failure delivered one result
   per input. *)
From ZV.Common Require Import Base.
From ZV.C18 Require Import Model ProofsProgress ProofsComplete.
Open Scope nat_scope.

(* ---- mapwhile ---- *)
Lemma mapwhile_length_le {A} (f : A -> option A) l : length (mapwhile f l) <= length l.
Proof. induction l as [|x r IH]; cbn [mapwhile length]; [lia|]. destruct (f x); cbn [length]; lia. Qed.

Lemma mapwhile_app_full {A} (f : A -> option A) l r :
  length (mapwhile f l) = length l -> mapwhile f (l ++ r) = mapwhile f l ++ mapwhile f r.
Proof.
  induction l as [|x l IH]; cbn [mapwhile length app]; intros H; [reflexivity|].
  destruct (f x); cbn [length] in H; [|discriminate]. cbn [app]. rewrite IH by lia. reflexivity.
Qed.

Lemma mapwhile_app_prefix {A} (f : A -> option A) l r : exists e, mapwhile f (l ++ r) = mapwhile f l ++ e.
Proof.
  induction l as [|x l IH]; cbn [mapwhile app]; [exists (mapwhile f r); reflexivity|].
  destruct (f x); [|exists []; reflexivity]. destruct IH as [e He]. exists e. rewrite He. reflexivity.
Qed.

Definition prefix {A} (a b : list A) : Prop := exists e, b = a ++ e.

Lemma prefix_refl {A} (a : list A) : prefix a a.
Proof. exists []. rewrite app_nil_r. reflexivity. Qed.
Lemma prefix_trans {A} (a b c : list A) : prefix a b -> prefix b c -> prefix a c.
Proof. intros [e1 H1] [e2 H2]. exists (e1 ++ e2). rewrite H2, H1, app_assoc. reflexivity. Qed.
Lemma prefix_firstn {A} n (l : list A) : prefix (firstn n l) l.
Proof. exists (skipn n l). symmetry. apply firstn_skipn. Qed.
Lemma mapwhile_mono {A} (f : A -> option A) a b : prefix a b -> prefix (mapwhile f a) (mapwhile f b).
Proof. intros [e He]. subst b. destruct (mapwhile_app_prefix f a e) as [e' He']. exists e'. exact He'. Qed.

Lemma firstn_snoc {A} (l : list A) : forall n x, nth_error l n = Some x -> firstn (S n) l = firstn n l ++ [x].
Proof.
  induction l as [|a r IH]; intros [|n] x H; cbn [nth_error] in H; try discriminate.
  - inversion H; subst. destruct r; reflexivity.
  - change (firstn (S (S n)) (a :: r)) with (a :: firstn (S n) r).
    change (firstn (S n) (a :: r)) with (a :: firstn n r).
    rewrite (IH n x H). reflexivity.
Qed.

Lemma firstn_app_le {A} (l r : list A) n : n <= length l -> firstn n (l ++ r) = firstn n l.
Proof.
  intros H. rewrite firstn_app. replace (n - length l) with 0 by lia. cbn [firstn]. apply app_nil_r.
Qed.

Lemma nth_set {A} (l : list A) j0 j x :
  nth_error (set_nth j0 x l) j = if Nat.eqb j j0 then (if j0 <? length l then Some x else None) else nth_error l j.
Proof.
  destruct (Nat.eqb_spec j j0) as [->|Hne].
  - destruct (Nat.ltb_spec j0 (length l)) as [Hlt|Hge].
    + apply nth_error_set_nth_eq. exact Hlt.
    + apply nth_error_None. rewrite set_nth_length. exact Hge.
  - apply nth_error_set_nth_neq. congruence.
Qed.

Section StreamProofs.
  Context {A : Type}.
  Variable fs : list (A -> option A).
  Variable inputs : list A.

  Notation up := (upstream_sent inputs).

  Definition stage_ok (st : list (stg A)) (j : nat) (s : stg A) (f : A -> option A) : Prop :=
    s_taken s <= length (up st j) /\
    prefix (s_sent s) (mapwhile f (firstn (s_taken s) (up st j))) /\
    ((s_status s = SAlive \/ s_status s = SDone) ->
       mapwhile f (firstn (s_taken s) (up st j)) = s_sent s /\ length (s_sent s) = s_taken s) /\
    (s_status s = SDone -> s_taken s = length (up st j) /\ upstream_dead st j = true) /\
    (s_status s = SClosed -> exists s', nth_error st (S j) = Some s' /\ (s_status s' = SFailed \/ s_status s' = SClosed)).

  Definition inv (st : list (stg A)) : Prop :=
    length st = length fs /\
    (forall j s f, nth_error st j = Some s -> nth_error fs j = Some f -> stage_ok st j s f) /\
    (forall j s s', nth_error st j = Some s -> nth_error st (S j) = Some s' -> s_status s' = SDone -> s_status s <> SAlive).

  Lemma inv_init : inv (stream_init fs).
  Proof.
    unfold stream_init. split; [apply repeat_length|]. split.
    - intros j s f Hs Hf. apply nth_error_In in Hs. apply repeat_spec in Hs. subst s.
      unfold stage_ok; cbn [s_taken s_sent s_status firstn mapwhile length].
      split; [lia|]. split; [apply prefix_refl|]. split; [intros _; split; reflexivity|].
      split; intros H; discriminate.
    - intros j s s' Hs Hs' Hd. apply nth_error_In in Hs'. apply repeat_spec in Hs'. subst s'. discriminate.
  Qed.

  (* what a step can do *)
  Inductive step_kind (st : list (stg A)) (j0 : nat) (s : stg A) (f : A -> option A) : stg A -> Prop :=
  | KSend x y : nth_error (up st j0) (s_taken s) = Some x -> f x = Some y -> downstream_alive st j0 = true ->
      step_kind st j0 s f (mkS (S (s_taken s)) (s_sent s ++ [y]) SAlive)
  | KClosed x y : nth_error (up st j0) (s_taken s) = Some x -> f x = Some y -> downstream_alive st j0 = false ->
      step_kind st j0 s f (mkS (S (s_taken s)) (s_sent s) SClosed)
  | KFail x : nth_error (up st j0) (s_taken s) = Some x -> f x = None ->
      step_kind st j0 s f (mkS (S (s_taken s)) (s_sent s) SFailed)
  | KDone : nth_error (up st j0) (s_taken s) = None -> upstream_dead st j0 = true ->
      step_kind st j0 s f (mkS (s_taken s) (s_sent s) SDone).

  Lemma sstep_cases st j0 :
    sstep fs inputs st j0 = st \/
    exists s f s', nth_error st j0 = Some s /\ nth_error fs j0 = Some f /\ s_status s = SAlive /\
      step_kind st j0 s f s' /\ sstep fs inputs st j0 = set_nth j0 s' st.
  Proof.
    unfold sstep.
    destruct (nth_error st j0) as [s|] eqn:Hs; [|left; reflexivity].
    destruct (nth_error fs j0) as [f|] eqn:Hf; [|left; reflexivity].
    destruct (s_status s) eqn:Hst; cbn [is_alive]; try (left; reflexivity).
    destruct (nth_error (up st j0) (s_taken s)) as [x|] eqn:Hx.
    - destruct (f x) as [y|] eqn:Hy.
      + destruct (downstream_alive st j0) eqn:Hd; right; eexists; eexists; eexists;
          (split; [reflexivity|split; [reflexivity|split; [exact Hst|split; [|reflexivity]]]]).
        * eapply KSend; eassumption.
        * eapply KClosed; eassumption.
      + right; eexists; eexists; eexists;
          (split; [reflexivity|split; [reflexivity|split; [exact Hst|split; [|reflexivity]]]]).
        eapply KFail; eassumption.
    - destruct (upstream_dead st j0) eqn:Hu; [|left; reflexivity].
      right; eexists; eexists; eexists;
        (split; [reflexivity|split; [reflexivity|split; [exact Hst|split; [|reflexivity]]]]).
      apply KDone; assumption.
  Qed.

  (* the new record of the stepping stage: its taken count does not shrink, its sent list only grows *)
  Lemma step_kind_grows st j0 s f s' : step_kind st j0 s f s' ->
    prefix (s_sent s) (s_sent s') /\ s_taken s <= s_taken s' /\ (s_status s' = SAlive -> True).
  Proof.
    intros K. destruct K; cbn [s_sent s_taken]; split; try (split; [lia|auto]).
    - exists [y]. reflexivity.
    - apply prefix_refl.
    - apply prefix_refl.
    - apply prefix_refl.
  Qed.

  Lemma up_set (st : list (stg A)) j0 s' j : j0 < length st ->
    up (set_nth j0 s' st) j = if Nat.eqb j (S j0) then s_sent s' else up st j.
  Proof.
    intros Hlt. destruct j as [|i]; cbn [upstream_sent]; [reflexivity|].
    rewrite nth_set. cbn [Nat.eqb]. destruct (Nat.eqb i j0); [|reflexivity].
    apply Nat.ltb_lt in Hlt. rewrite Hlt. reflexivity.
  Qed.

  Lemma dead_set (st : list (stg A)) j0 s' j : j0 < length st ->
    upstream_dead (set_nth j0 s' st) j = if Nat.eqb j (S j0) then negb (is_alive (s_status s')) else upstream_dead st j.
  Proof.
    intros Hlt. destruct j as [|i]; cbn [upstream_dead]; [reflexivity|].
    rewrite nth_set. cbn [Nat.eqb]. destruct (Nat.eqb i j0); [|reflexivity].
    apply Nat.ltb_lt in Hlt. rewrite Hlt. reflexivity.
  Qed.

  Lemma inv_step st j0 : inv st -> inv (sstep fs inputs st j0).
  Proof.
    intros [HL [HS HD]].
    destruct (sstep_cases st j0) as [Heq|[s0 [f0 [s0' [Hs0 [Hf0 [Hal [K Heq]]]]]]]]; rewrite Heq; [split; [exact HL|split; assumption]|].
    assert (Hlt : j0 < length st) by (apply nth_error_Some; rewrite Hs0; discriminate).
    assert (Hltb : (j0 <? length st) = true) by (apply Nat.ltb_lt; exact Hlt).
    pose proof (HS j0 s0 f0 Hs0 Hf0) as [O1 [O2 [O3 [O4 O5]]]].
    destruct (O3 (or_introl Hal)) as [Oeq Olen].
    split; [rewrite set_nth_length; exact HL|]. split.
    - (* per-stage invariant *)
      intros j s f Hs Hf. rewrite nth_set in Hs. unfold stage_ok. rewrite (up_set st j0 s0' j Hlt).
      destruct (Nat.eqb_spec j j0) as [->|Hne].
      + (* the stage that stepped *)
        rewrite Hltb in Hs. inversion Hs; subst s. rewrite Hf0 in Hf. inversion Hf; subst f. clear Hs Hf.
        replace (Nat.eqb j0 (S j0)) with false by (symmetry; apply Nat.eqb_neq; lia).
        destruct K as [x y Hx Hy Hd|x y Hx Hy Hd|x Hx Hy|Hx Hu]; cbn [s_taken s_sent s_status].
        * (* sent *)
          assert (Hlt2 : s_taken s0 < length (up st j0)) by (apply nth_error_Some; rewrite Hx; discriminate).
          rewrite (firstn_snoc _ _ _ Hx).
          assert (Hfull : length (mapwhile f0 (firstn (s_taken s0) (up st j0))) = length (firstn (s_taken s0) (up st j0))).
          { rewrite Oeq, Olen. rewrite firstn_length. lia. }
          rewrite (mapwhile_app_full f0 _ [x] Hfull). cbn [mapwhile]. rewrite Hy, Oeq.
          split; [lia|]. split; [apply prefix_refl|]. split.
          { intros _. split; [reflexivity|]. rewrite app_length. cbn [length]. lia. }
          split; intros H; discriminate.
        * (* downstream gone *)
          assert (Hlt2 : s_taken s0 < length (up st j0)) by (apply nth_error_Some; rewrite Hx; discriminate).
          rewrite (firstn_snoc _ _ _ Hx).
          assert (Hfull : length (mapwhile f0 (firstn (s_taken s0) (up st j0))) = length (firstn (s_taken s0) (up st j0))).
          { rewrite Oeq, Olen. rewrite firstn_length. lia. }
          rewrite (mapwhile_app_full f0 _ [x] Hfull). cbn [mapwhile]. rewrite Hy, Oeq.
          split; [lia|]. split; [exists [y]; reflexivity|]. split; [intros [H|H]; discriminate|].
          split; [intros H; discriminate|]. intros _.
          unfold downstream_alive in Hd. destruct (nth_error st (S j0)) as [s1|] eqn:Hs1; [|discriminate].
          exists s1. split.
          { rewrite nth_set. replace (Nat.eqb (S j0) j0) with false by (symmetry; apply Nat.eqb_neq; lia). exact Hs1. }
          destruct (s_status s1) eqn:E1; cbn [is_alive] in Hd; try discriminate; auto.
          exfalso. exact (HD j0 s0 s1 Hs0 Hs1 E1 Hal).
        * (* failed *)
          assert (Hlt2 : s_taken s0 < length (up st j0)) by (apply nth_error_Some; rewrite Hx; discriminate).
          rewrite (firstn_snoc _ _ _ Hx).
          assert (Hfull : length (mapwhile f0 (firstn (s_taken s0) (up st j0))) = length (firstn (s_taken s0) (up st j0))).
          { rewrite Oeq, Olen. rewrite firstn_length. lia. }
          rewrite (mapwhile_app_full f0 _ [x] Hfull). cbn [mapwhile]. rewrite Hy, Oeq, app_nil_r.
          split; [lia|]. split; [apply prefix_refl|]. split; [intros [H|H]; discriminate|].
          split; intros H; discriminate.
        * (* input exhausted and closed *)
          apply nth_error_None in Hx.
          split; [exact O1|]. split; [exact O2|]. split; [intros _; split; assumption|].
          split; [|intros H; discriminate]. intros _. split; [lia|].
          rewrite (dead_set st j0 _ j0 Hlt).
          replace (Nat.eqb j0 (S j0)) with false by (symmetry; apply Nat.eqb_neq; lia). exact Hu.
      + (* another stage *)
        pose proof (HS j s f Hs Hf) as [P1 [P2 [P3 [P4 P5]]]].
        destruct (step_kind_grows _ _ _ _ _ K) as [[e He] _].
        assert (Hup : firstn (s_taken s) (if Nat.eqb j (S j0) then s_sent s0' else up st j) = firstn (s_taken s) (up st j)
                      /\ length (up st j) <= length (if Nat.eqb j (S j0) then s_sent s0' else up st j)).
        { destruct (Nat.eqb_spec j (S j0)) as [->|Hn2]; [|split; [reflexivity|lia]].
          assert (Hupj : up st (S j0) = s_sent s0) by (cbn [upstream_sent]; rewrite Hs0; reflexivity).
          rewrite Hupj in *. rewrite He. split; [apply firstn_app_le; exact P1|rewrite app_length; lia]. }
        destruct Hup as [Hup1 Hup2]. rewrite Hup1.
        split; [lia|]. split; [exact P2|]. split; [exact P3|]. split.
        * intros Hdone. destruct (P4 Hdone) as [Q1 Q2].
          destruct (Nat.eqb_spec j (S j0)) as [->|Hn2].
          { (* a finished stage has a dead upstream, but the upstream just stepped *)
            exfalso. exact (HD j0 s0 s Hs0 Hs Hdone Hal). }
          split; [exact Q1|]. rewrite (dead_set st j0 s0' j Hlt).
          replace (Nat.eqb j (S j0)) with false by (symmetry; apply Nat.eqb_neq; exact Hn2). exact Q2.
        * intros Hcl. destruct (P5 Hcl) as [s1 [Hs1 Hst1]]. exists s1. split; [|exact Hst1].
          rewrite nth_set. destruct (Nat.eqb_spec (S j) j0) as [Hj|Hj]; [|exact Hs1].
          (* the downstream of a closed stage is dead, so it cannot be the one that stepped *)
          exfalso. subst j0. rewrite Hs0 in Hs1. inversion Hs1; subst s1. rewrite Hal in Hst1. destruct Hst1; discriminate.
    - (* a finished stage has a dead upstream *)
      intros j s s' Hs Hs' Hdone. rewrite nth_set in Hs, Hs'.
      destruct (Nat.eqb_spec j j0) as [->|Hne].
      + rewrite Hltb in Hs. inversion Hs; subst s.
        replace (Nat.eqb (S j0) j0) with false in Hs' by (symmetry; apply Nat.eqb_neq; lia).
        destruct K; cbn [s_status]; try discriminate.
        (* the stage stays alive: its downstream was not finished before *)
        intros _. exact (HD j0 s0 s' Hs0 Hs' Hdone Hal).
      + destruct (Nat.eqb_spec (S j) j0) as [Hj|Hj].
        * rewrite Hltb in Hs'. inversion Hs'; subst s'. subst j0.
          destruct K as [x y Hx Hy Hd|x y Hx Hy Hd|x Hx Hy|Hx Hu]; cbn [s_status] in Hdone; try discriminate.
          cbn [upstream_dead] in Hu. rewrite Hs in Hu. intros Ha. rewrite Ha in Hu. discriminate.
        * exact (HD j s s' Hs Hs' Hdone).
  Qed.

  Lemma inv_run sched : inv (stream_run fs inputs sched).
  Proof.
    unfold stream_run. generalize (stream_init fs) (inv_init). induction sched as [|j r IH]; intros st Hi; cbn [fold_left].
    - exact Hi.
    - apply IH. apply inv_step. exact Hi.
  Qed.

  (* ---- the sequential reference, stage by stage ---- *)
  Definition want_upto (j : nat) : list A := fold_left (fun acc f => mapwhile f acc) (firstn j fs) inputs.

  Lemma want_upto_S j f : nth_error fs j = Some f -> want_upto (S j) = mapwhile f (want_upto j).
  Proof.
    intros Hf. unfold want_upto. rewrite (firstn_snoc _ _ _ Hf). rewrite fold_left_app. reflexivity.
  Qed.

  Lemma want_upto_all : want_upto (length fs) = stream_want fs inputs.
  Proof. unfold want_upto, stream_want. rewrite firstn_all. reflexivity. Qed.

  Lemma up_prefix st : inv st -> forall j, j <= length fs -> prefix (up st j) (want_upto j).
  Proof.
    intros [HL [HS HD]]. induction j as [|j IH]; intros Hj.
    - cbn [upstream_sent]. unfold want_upto. cbn [firstn fold_left]. apply prefix_refl.
    - assert (Hjs : j < length st) by lia.
      destruct (nth_error st j) as [s|] eqn:Hs; [|apply nth_error_None in Hs; lia].
      destruct (nth_error fs j) as [f|] eqn:Hf; [|apply nth_error_None in Hf; lia].
      cbn [upstream_sent]. rewrite Hs. rewrite (want_upto_S j f Hf).
      destruct (HS j s f Hs Hf) as [_ [P2 _]].
      eapply prefix_trans; [exact P2|].
      apply mapwhile_mono. eapply prefix_trans; [apply prefix_firstn|]. apply IH. lia.
  Qed.

  Lemma output_is_up st : length st = length fs -> stream_output fs inputs st = up st (length fs).
  Proof. intros HL. unfold stream_output. destruct (length fs); reflexivity. Qed.

  (* stream_prefix *)
  Lemma stream_prefix_proof sched :
    exists rest, stream_want fs inputs = stream_output fs inputs (stream_run fs inputs sched) ++ rest.
  Proof.
    pose proof (inv_run sched) as Hi. destruct Hi as [HL HR].
    rewrite (output_is_up _ HL). rewrite <- want_upto_all.
    apply (up_prefix _ (conj HL HR)). lia.
  Qed.

  (* ---- finished without a reported failure ---- *)
  Lemma no_closed st : inv st -> stream_err st = false ->
    forall d j s, length fs <= j + d -> nth_error st j = Some s -> s_status s <> SClosed.
  Proof.
    intros [HL [HS HD]] Herr. induction d as [|d IH]; intros j s Hk Hs Hc.
    - assert (j < length st) by (apply nth_error_Some; rewrite Hs; discriminate). lia.
    - destruct (nth_error fs j) as [f|] eqn:Hf.
      2:{ apply nth_error_None in Hf. assert (j < length st) by (apply nth_error_Some; rewrite Hs; discriminate). lia. }
      destruct (HS j s f Hs Hf) as [_ [_ [_ [_ P5]]]]. destruct (P5 Hc) as [s1 [Hs1 [Hf1|Hc1]]].
      + unfold stream_err in Herr. assert (Hex : existsb (fun s => is_failed (s_status s)) st = true).
        { apply existsb_exists. exists s1. split; [eapply nth_error_In; exact Hs1|rewrite Hf1; reflexivity]. }
        rewrite Hex in Herr. discriminate.
      + apply (IH (S j) s1); [lia|exact Hs1|exact Hc1].
  Qed.

  Lemma all_done st : inv st -> stream_finished st = true -> stream_err st = false ->
    forall j s, nth_error st j = Some s -> s_status s = SDone.
  Proof.
    intros Hi Hfin Herr j s Hs.
    pose proof (no_closed st Hi Herr (length fs) j s ltac:(lia) Hs) as Hnc.
    unfold stream_finished in Hfin. rewrite forallb_forall in Hfin.
    pose proof (Hfin s (nth_error_In _ _ Hs)) as Hna.
    unfold stream_err in Herr.
    assert (Hnf : is_failed (s_status s) = false).
    { destruct (is_failed (s_status s)) eqn:E; [|reflexivity].
      assert (Hex : existsb (fun s => is_failed (s_status s)) st = true).
      { apply existsb_exists. exists s. split; [eapply nth_error_In; exact Hs|exact E]. }
      rewrite Hex in Herr. discriminate. }
    destruct (s_status s); cbn [is_alive is_failed negb] in *; try discriminate; [reflexivity|congruence].
  Qed.

  Lemma up_full st : inv st -> stream_finished st = true -> stream_err st = false ->
    forall j, j <= length fs -> up st j = want_upto j /\ length (up st j) = length inputs.
  Proof.
    intros Hi Hfin Herr. pose proof Hi as [HL [HS HD]]. induction j as [|j IH]; intros Hj.
    - cbn [upstream_sent]. unfold want_upto. cbn [firstn fold_left]. split; reflexivity.
    - destruct (IH ltac:(lia)) as [I1 I2].
      destruct (nth_error st j) as [s|] eqn:Hs; [|apply nth_error_None in Hs; lia].
      destruct (nth_error fs j) as [f|] eqn:Hf; [|apply nth_error_None in Hf; lia].
      pose proof (all_done st Hi Hfin Herr j s Hs) as Hd.
      destruct (HS j s f Hs Hf) as [_ [_ [P3 [P4 _]]]].
      destruct (P3 (or_intror Hd)) as [Q1 Q2]. destruct (P4 Hd) as [Q3 _].
      cbn [upstream_sent]. rewrite Hs. rewrite (want_upto_S j f Hf).
      rewrite Q3, firstn_all in Q1. rewrite <- I1. split; [symmetry; exact Q1|]. lia.
  Qed.

  (* stream_complete *)
  Lemma stream_complete_proof sched :
    let st := stream_run fs inputs sched in
    stream_finished st = true -> stream_err st = false ->
    stream_output fs inputs st = stream_want fs inputs /\ length (stream_output fs inputs st) = length inputs.
  Proof.
    cbv zeta. intros Hfin Herr. pose proof (inv_run sched) as Hi. pose proof Hi as [HL _].
    rewrite (output_is_up _ HL). rewrite <- want_upto_all.
    apply (up_full _ Hi Hfin Herr). lia.
  Qed.
End StreamProofs.

Example stream_nontrivial :
  let fs := [stage; stage] in
  let st := stream_run fs [1; 2]%Z [0; 0; 1; 0; 1; 1]%nat in
  stream_finished st = true /\ stream_err st = false /\ stream_output fs [1; 2]%Z st = [13; 22]%Z.
Proof. vm_compute. auto. Qed.

Example stream_failure_nontrivial :
  let fs := [stage; stage] in
  let st := stream_run fs [1; 4; 2]%Z [0; 0; 1; 1; 0; 1]%nat in
  stream_finished st = true /\ stream_err st = true /\ stream_output fs [1; 4; 2]%Z st = [13]%Z.
Proof. vm_compute. auto. Qed.
