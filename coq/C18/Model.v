(* C18 mechanism model.  Definitions only.

   Part 1: src/concurrency/work_stealing.rs as written:
     WorkStealingQueue::{push_local, pop_local, steal, balance, len},
     WorkStealingExecutor::{submit, find_task, worker_loop (one iteration), total_queued, is_idle}.
   Every queue operation is one atomic step (each is a critical section of the queue's mutexes);
   a worker is a slot `erun` holding the task it is executing.  `fixed` selects the behaviour of
   pop_local: false = the pinned tree (pop_local looks at the local queue only), true = after the
   repair (an empty local queue falls back to the worker's own steal queue).
   Part 2: the result collection of FiberPool::parallel_map / parallel_for_each / parallel_reduce,
   concurrency::{parallel_map, parallel_reduce, join_all}, Pipeline::process_batch and
   BatchCollector as index-tagged collection. *)
From ZV.Common Require Import Base Run.
Open Scope N_scope.

(* ------------------------------------------------------------------ *)
(* Part 1: work stealing                                               *)
(* ------------------------------------------------------------------ *)

Record task := mkT { tid : N; tprio : N; tsteal : bool }.

(* queue.iter().position(|t| t.priority() < priority).unwrap_or(queue.len()); queue.insert(pos, task) *)
Fixpoint insert_prio (t : task) (l : list task) : list task :=
  match l with
  | [] => [t]
  | x :: r => if tprio x <? tprio t then t :: l else x :: insert_prio t r
  end.

Record wsq := mkQ { qlocal : list task; qsteal : list task }.

Definition qempty : wsq := mkQ [] [].

Definition push_local (cap : N) (q : wsq) (t : task) : option wsq :=
  if cap <=? nlen (qlocal q) then None
  else Some (mkQ (insert_prio t (qlocal q)) (qsteal q)).

Definition pop_local (fixed : bool) (q : wsq) : option task * wsq :=
  match qlocal q with
  | t :: r => (Some t, mkQ r (qsteal q))
  | [] =>
      if fixed then
        match qsteal q with
        | t :: r => (Some t, mkQ [] r)
        | [] => (None, q)
        end
      else (None, q)
  end.

(* for (i, task) in local_queue.iter().enumerate().rev() { if task.is_stealable() { found = i; break } }
   local_queue.remove(index): the last stealable element is taken out *)
Fixpoint remove_last_stealable (l : list task) : option (task * list task) :=
  match l with
  | [] => None
  | x :: r =>
      match remove_last_stealable r with
      | Some (t, r') => Some (t, x :: r')
      | None => if tsteal x then Some (x, r) else None
      end
  end.

Definition steal (q : wsq) : option task * wsq :=
  match qsteal q with
  | t :: r => (Some t, mkQ (qlocal q) r)
  | [] =>
      if 1 <? nlen (qlocal q) then
        match remove_last_stealable (qlocal q) with
        | Some (t, l') => (Some t, mkQ l' [])
        | None => (None, q)
        end
      else (None, q)
  end.

(* the loop of balance(), on the reversed local queue (pop_back = head of the reversal) *)
Fixpoint bal_loop (n : nat) (rl : list task) (st : list task) : list task * list task :=
  match n with
  | O => (rl, st)
  | S n' =>
      match rl with
      | [] => (rl, st)
      | t :: r => if tsteal t then bal_loop n' r (st ++ [t]) else (rl, st)
      end
  end.

Definition balance (q : wsq) : wsq :=
  let ll := nlen (qlocal q) in
  let sl := nlen (qsteal q) in
  if sl + 1 <? ll then
    let '(rl, st) := bal_loop (N.to_nat ((ll - sl) / 2)) (rev (qlocal q)) (qsteal q) in
    mkQ (rev rl) st
  else q.

Definition qlen (q : wsq) : N := nlen (qlocal q) + nlen (qsteal q).
Definition qtasks (q : wsq) : list task := qlocal q ++ qsteal q.

(* -------- executor -------- *)

Definition GLOBAL_CAP : N := 10000.

Record exec := mkE {
  eqs : list wsq;              (* queues[w] *)
  eglob : list task;           (* global_queue *)
  enext : N;                   (* next_worker *)
  erun : list (option task);   (* the task worker w is executing *)
  edone : list task            (* executed tasks, in completion order; total_executed = length *)
}.

Fixpoint set_nth {A} (i : nat) (x : A) (l : list A) : list A :=
  match l, i with
  | [], _ => []
  | _ :: r, O => x :: r
  | y :: r, S i' => y :: set_nth i' x r
  end.

Definition init (nw : nat) : exec := mkE (repeat qempty nw) [] 0 (repeat None nw) [].

Definition set_q (e : exec) (w : nat) (q : wsq) : exec :=
  mkE (set_nth w q (eqs e)) (eglob e) (enext e) (erun e) (edone e).
Definition set_run (e : exec) (w : nat) (r : option task) : exec :=
  mkE (eqs e) (eglob e) (enext e) (set_nth w r (erun e)) (edone e).

(* WorkStealingExecutor::submit *)
Definition submit (cap : N) (e : exec) (t : task) : bool * exec :=
  let nw := N.of_nat (length (eqs e)) in
  let w := N.to_nat (enext e mod nw) in
  let e1 := mkE (eqs e) (eglob e) (w64 (enext e + 1)) (erun e) (edone e) in
  match nth_error (eqs e) w with
  | None => (false, e1)
  | Some q =>
      if nlen (qlocal q) <? cap then
        match push_local cap q t with
        | Some q' => (true, set_q e1 w q')
        | None => (false, e1)
        end
      else if nlen (eglob e) <? GLOBAL_CAP then
        (true, mkE (eqs e1) (insert_prio t (eglob e)) (enext e1) (erun e1) (edone e1))
      else (false, e1)
  end.

Definition worker_free (e : exec) (w : nat) : bool :=
  match nth_error (erun e) w with Some None => true | _ => false end.

(* the atomic steps a schedule is made of.  PopLocal and StealFrom are whole calls of pop_local() /
   steal(); since each of these takes its two mutexes one after the other, their halves are steps of
   their own as well (PopOwnSteal, StealQ, StealL), so that every execution of the real code, in which
   only a single critical section is atomic, is an interleaving of these steps. *)
Inductive step :=
| Submit (t : task)
| SubmitRace                (* submit whose capacity probe passed but whose push_local lost the race: rejected *)
| PopLocal (w : nat)        (* find_task step 1 *)
| PopOwnSteal (w : nat)     (* second critical section of the repaired pop_local: own steal queue *)
| PopGlobal (w : nat)       (* find_task step 2 (try_lock succeeded) *)
| StealFrom (w v : nat)     (* find_task step 3, victim v *)
| StealQ (w v : nat)        (* first critical section of steal(): the victim's steal queue *)
| StealL (w v : nat)        (* second critical section of steal(): the victim's local queue *)
| Balance (w : nat)         (* my_queue.balance(), also public *)
| Finish (w : nat).         (* task.execute().await returned; total_executed += 1 *)

Definition wstep (fixed : bool) (e : exec) (s : step) : exec :=
  match s with
  | Submit _ => e
  | SubmitRace => mkE (eqs e) (eglob e) (w64 (enext e + 1)) (erun e) (edone e)
  | PopOwnSteal w =>
      if fixed && worker_free e w then
        match nth_error (eqs e) w with
        | Some q => match qsteal q with
                    | t :: r => set_run (set_q e w (mkQ (qlocal q) r)) w (Some t)
                    | [] => e
                    end
        | None => e
        end
      else e
  | StealQ w v =>
      if worker_free e w && negb (Nat.eqb w v) then
        match nth_error (eqs e) v with
        | Some q => match qsteal q with
                    | t :: r => set_run (set_q e v (mkQ (qlocal q) r)) w (Some t)
                    | [] => e
                    end
        | None => e
        end
      else e
  | StealL w v =>
      if worker_free e w && negb (Nat.eqb w v) then
        match nth_error (eqs e) v with
        | Some q => if 1 <? nlen (qlocal q) then
                      match remove_last_stealable (qlocal q) with
                      | Some (t, l') => set_run (set_q e v (mkQ l' (qsteal q))) w (Some t)
                      | None => e
                      end
                    else e
        | None => e
        end
      else e
  | PopLocal w =>
      if worker_free e w then
        match nth_error (eqs e) w with
        | Some q => match pop_local fixed q with
                    | (Some t, q') => set_run (set_q e w q') w (Some t)
                    | (None, _) => e
                    end
        | None => e
        end
      else e
  | PopGlobal w =>
      if worker_free e w then
        match eglob e with
        | t :: r => set_run (mkE (eqs e) r (enext e) (erun e) (edone e)) w (Some t)
        | [] => e
        end
      else e
  | StealFrom w v =>
      if worker_free e w && negb (Nat.eqb w v) then
        match nth_error (eqs e) v with
        | Some q => match steal q with
                    | (Some t, q') => set_run (set_q e v q') w (Some t)
                    | (None, _) => e
                    end
        | None => e
        end
      else e
  | Balance w =>
      match nth_error (eqs e) w with
      | Some q => set_q e w (balance q)
      | None => e
      end
  | Finish w =>
      match nth_error (erun e) w with
      | Some (Some t) => mkE (eqs e) (eglob e) (enext e) (set_nth w None (erun e)) (edone e ++ [t])
      | _ => e
      end
  end.

(* a history: returns the final state and the list of accepted tasks (submit returned Ok) *)
Fixpoint run (fixed : bool) (cap : N) (e : exec) (acc : list task) (steps : list step) : exec * list task :=
  match steps with
  | [] => (e, acc)
  | Submit t :: r =>
      let '(ok, e') := submit cap e t in
      run fixed cap e' (if ok then acc ++ [t] else acc) r
  | s :: r => run fixed cap (wstep fixed e s) acc r
  end.

Definition is_submit (s : step) : bool := match s with Submit _ | SubmitRace => true | _ => false end.

Fixpoint cat_some {A} (l : list (option A)) : list A :=
  match l with
  | [] => []
  | Some x :: r => x :: cat_some r
  | None :: r => cat_some r
  end.

Definition queued (e : exec) : list task := flat_map qtasks (eqs e) ++ eglob e.
Definition running (e : exec) : list task := cat_some (erun e).
Definition all_tasks (e : exec) : list task := queued e ++ running e ++ edone e.

(* total_queued() and is_idle() *)
Definition total_queued (e : exec) : N := nlen (queued e).
Definition is_idle (e : exec) : bool := (nlen (running e) =? 0) && (total_queued e =? 0).

(* find_task as one function of a quiescent state: own pop_local, global, others' steal in order *)
Fixpoint steal_others (w : nat) (i : nat) (qs : list wsq) : option (task * nat * wsq) :=
  match qs with
  | [] => None
  | q :: r =>
      if Nat.eqb i w then steal_others w (S i) r
      else match steal q with
           | (Some t, q') => Some (t, i, q')
           | (None, _) => steal_others w (S i) r
           end
  end.

Definition find_task (fixed : bool) (e : exec) (w : nat) : option (task * exec) :=
  match nth_error (eqs e) w with
  | None => None
  | Some q =>
      match pop_local fixed q with
      | (Some t, q') => Some (t, set_q e w q')
      | (None, _) =>
          match eglob e with
          | t :: r => Some (t, mkE (eqs e) r (enext e) (erun e) (edone e))
          | [] =>
              match steal_others w 0 (eqs e) with
              | Some (t, v, q') => Some (t, set_q e v q')
              | None => None
              end
          end
      end
  end.

(* one iteration of worker_loop with the task run to completion:
   find_task; execute; total_executed += 1; if total_executed % 100 == 0 { my_queue.balance() } *)
Definition turn (fixed : bool) (e : exec) (w : nat) : exec :=
  let e1 := match find_task fixed e w with
            | Some (t, e') => mkE (eqs e') (eglob e') (enext e') (erun e') (edone e' ++ [t])
            | None => e
            end in
  if nlen (edone e1) mod 100 =? 0 then wstep fixed e1 (Balance w) else e1.

Definition round (fixed : bool) (e : exec) : exec :=
  fold_left (turn fixed) (seq 0 (length (eqs e))) e.

Fixpoint rounds (fixed : bool) (n : nat) (e : exec) : exec :=
  match n with O => e | S k => rounds fixed k (round fixed e) end.

(* ------------------------------------------------------------------ *)
(* Part 2: ordered collection                                          *)
(* ------------------------------------------------------------------ *)

Inductive res (B : Type) : Type :=
| ROk (b : B)      (* Ok(value) *)
| RErr             (* Err(_): the stage function failed / timed out / panicked (join error) *)
| RLost.           (* no result was ever produced for a handle: a dropped task *)
Arguments ROk {B} b.
Arguments RErr {B}.
Arguments RLost {B}.

Section Par.
  Context {A B : Type}.
  Variable f : A -> option B.        (* the stage function; None = it fails *)

  (* spawn: input i becomes the tagged task (i, x) *)
  Definition tagged (xs : list A) : list (nat * A) := combine (seq 0 (length xs)) xs.

  (* the tasks complete in the order `sched`; each leaves (index, result) *)
  Definition complete (sched : list (nat * A)) : list (nat * option B) :=
    map (fun p => (fst p, f (snd p))) sched.

  Fixpoint lookup {V} (i : nat) (done : list (nat * V)) : option V :=
    match done with
    | [] => None
    | (j, v) :: r => if Nat.eqb i j then Some v else lookup i r
    end.

  (* for handle in handles { results.push(handle.await?) } : handles are awaited in index order *)
  Fixpoint await_from (i : nat) (n : nat) (done : list (nat * option B)) : res (list B) :=
    match n with
    | O => ROk []
    | S k =>
        match lookup i done with
        | None => RLost
        | Some None => RErr
        | Some (Some b) =>
            match await_from (S i) k done with
            | ROk l => ROk (b :: l)
            | RErr => RErr
            | RLost => RLost
            end
        end
    end.

  Definition parallel_map (xs : list A) (sched : list (nat * A)) : res (list B) :=
    await_from 0 (length xs) (complete sched).

  (* sequential reference: apply the stage function left to right, stop at the first failure *)
  Fixpoint seq_map (xs : list A) : option (list B) :=
    match xs with
    | [] => Some []
    | x :: r => match f x with
                | None => None
                | Some b => match seq_map r with Some l => Some (b :: l) | None => None end
                end
    end.
End Par.

Section Reduce.
  Context {T : Type}.
  Variable op : T -> T -> option T.   (* f(acc, item) *)
  Variable ident : T.

  Fixpoint fold_opt (acc : T) (xs : list T) : option T :=
    match xs with
    | [] => Some acc
    | x :: r => match op acc x with Some a => fold_opt a r | None => None end
    end.

  (* items.chunks(chunk_size) *)
  Fixpoint chunks_fuel (fuel : nat) (k : nat) (xs : list T) : list (list T) :=
    match fuel with
    | O => []
    | S fu => match xs with
              | [] => []
              | _ => firstn k xs :: chunks_fuel fu k (skipn k xs)
              end
    end.
  Definition chunks (k : nat) (xs : list T) : list (list T) := chunks_fuel (length xs) k xs.

  Fixpoint all_some (l : list (option T)) : option (list T) :=
    match l with
    | [] => Some []
    | Some x :: r => match all_some r with Some l' => Some (x :: l') | None => None end
    | None :: r => None
    end.

  (* FiberPool::parallel_reduce: chunk_size = max(1, len / max(1, max_workers)); one fiber per chunk folds
     from the identity; the partial results are folded from the identity in chunk order *)
  Definition parallel_reduce_k (k : nat) (xs : list T) : option T :=
    match xs with
    | [] => Some ident
    | _ => match all_some (map (fold_opt ident) (chunks k xs)) with
           | Some parts => fold_opt ident parts
           | None => None
           end
    end.
  Definition fiber_chunk (max_workers : nat) (len : nat) : nat := Nat.max 1 (len / Nat.max 1 max_workers).
  (* concurrency::parallel_reduce: chunk_size = ceil(len / ncpu) *)
  Definition global_chunk (ncpu : nat) (len : nat) : nat := (len + ncpu - 1) / ncpu.
End Reduce.

(* Pipeline::execute_stream (after the repair): k stage tasks connected by FIFO channels.  Stage j
   repeatedly receives an item from its input channel, applies its function (None = it fails or
   times out) and sends the result downstream.  A stage ends when its input is exhausted and closed
   (SDone), when its function fails (SFailed: reported as Err by execute_stream) or when the
   downstream receiver is gone (SClosed).  History variables: `s_sent` = everything the stage has
   ever sent, `s_taken` = how many items it has received.  Channel capacities only restrict the
   schedules, so every real interleaving is one of the model's. *)
Inductive sstatus := SAlive | SDone | SFailed | SClosed.
Definition is_alive (s : sstatus) : bool := match s with SAlive => true | _ => false end.
Definition is_failed (s : sstatus) : bool := match s with SFailed => true | _ => false end.
Record stg (A : Type) := mkS { s_taken : nat; s_sent : list A; s_status : sstatus }.
Arguments mkS {A} s_taken s_sent s_status.
Arguments s_taken {A} s.
Arguments s_sent {A} s.
Arguments s_status {A} s.

Fixpoint mapwhile {A} (f : A -> option A) (l : list A) : list A :=
  match l with
  | [] => []
  | x :: r => match f x with Some y => y :: mapwhile f r | None => [] end
  end.

Section Stream.
  Context {A : Type}.
  Variable fs : list (A -> option A).   (* the stages *)
  Variable inputs : list A.             (* what the producer sends before closing the input channel *)

  Definition upstream_sent (st : list (stg A)) (j : nat) : list A :=
    match j with
    | O => inputs
    | S i => match nth_error st i with Some s => s_sent s | None => [] end
    end.
  Definition upstream_dead (st : list (stg A)) (j : nat) : bool :=
    match j with
    | O => true
    | S i => match nth_error st i with Some s => negb (is_alive (s_status s)) | None => true end
    end.
  (* the last stage writes to the pipeline output, whose receiver the caller keeps *)
  Definition downstream_alive (st : list (stg A)) (j : nat) : bool :=
    match nth_error st (S j) with Some s => is_alive (s_status s) | None => true end.

  Definition sstep (st : list (stg A)) (j : nat) : list (stg A) :=
    match nth_error st j, nth_error fs j with
    | Some s, Some f =>
        if is_alive (s_status s) then
          match nth_error (upstream_sent st j) (s_taken s) with
          | Some x =>
              match f x with
              | Some y =>
                  if downstream_alive st j
                  then set_nth j (mkS (S (s_taken s)) (s_sent s ++ [y]) SAlive) st
                  else set_nth j (mkS (S (s_taken s)) (s_sent s) SClosed) st
              | None => set_nth j (mkS (S (s_taken s)) (s_sent s) SFailed) st
              end
          | None => if upstream_dead st j then set_nth j (mkS (s_taken s) (s_sent s) SDone) st else st
          end
        else st
    | _, _ => st
    end.

  Definition stream_init : list (stg A) := repeat (mkS 0 [] SAlive) (length fs).
  Definition stream_run (sched : list nat) : list (stg A) := fold_left sstep sched stream_init.
  Definition stream_output (st : list (stg A)) : list A :=
    match length fs with O => inputs | S i => upstream_sent st (S i) end.
  Definition stream_finished (st : list (stg A)) : bool := forallb (fun s => negb (is_alive (s_status s))) st.
  (* execute_stream returns Err iff some stage task reported a failure *)
  Definition stream_err (st : list (stg A)) : bool := existsb (fun s => is_failed (s_status s)) st.
  (* sequential reference: push the whole input through stage after stage, each stopping at its first failure *)
  Definition stream_want : list A := fold_left (fun acc f => mapwhile f acc) fs inputs.
End Stream.

(* BatchCollector: buffer + emitted batches.  add pushes and flushes when len >= max; flush drains *)
Record coll (A : Type) := mkC { cbuf : list A; cout : list (list A) }.
Arguments mkC {A} cbuf cout.
Arguments cbuf {A} c.
Arguments cout {A} c.

Definition coll_add {A} (maxb : N) (c : coll A) (x : A) : coll A :=
  let b := cbuf c ++ [x] in
  if maxb <=? nlen b then mkC [] (cout c ++ [b]) else mkC b (cout c).
Definition coll_flush {A} (c : coll A) : coll A :=
  match cbuf c with [] => c | b => mkC [] (cout c ++ [b]) end.

(* a collector history: Some x = add(x), None = flush() (or a check_timeout that fires) *)
Fixpoint coll_run {A} (maxb : N) (c : coll A) (ops : list (option A)) : coll A :=
  match ops with
  | [] => c
  | Some x :: r => coll_run maxb (coll_add maxb c x) r
  | None :: r => coll_run maxb (coll_flush c) r
  end.

(* priority order of a queue: every element is at least as urgent as everything behind it *)
Fixpoint desc (l : list task) : Prop :=
  match l with
  | [] => True
  | x :: r => (forall y, In y r -> tprio y <= tprio x) /\ desc r
  end.

(* ------------------------------------------------------------------ *)
(* Part 3: evaluation of harness cases                                 *)
(* ------------------------------------------------------------------ *)

Definition dec_task (id : N) (code : Z) : task :=
  let c := Z.to_N (code - 1000) in mkT id (c / 2) (N.odd c).
Definition obs_opt (o : option task) : Z := match o with Some t => Z.of_N (tid t) | None => (-1)%Z end.

(* queue history: 1000+2*prio+stealable = push_local, 1 = pop_local, 2 = steal, 3 = balance, 4 = len *)
Fixpoint run_queue (fixed : bool) (cap : N) (q : wsq) (next : N) (ops : list Z) : wsq * list Z :=
  match ops with
  | [] => (q, [])
  | o :: r =>
      if (1000 <=? o)%Z then
        match push_local cap q (dec_task next o) with
        | Some q' => let '(qf, obs) := run_queue fixed cap q' (next + 1) r in (qf, 1%Z :: obs)
        | None => let '(qf, obs) := run_queue fixed cap q (next + 1) r in (qf, 0%Z :: obs)
        end
      else if (o =? 1)%Z then
        let '(t, q') := pop_local fixed q in
        let '(qf, obs) := run_queue fixed cap q' next r in (qf, obs_opt t :: obs)
      else if (o =? 2)%Z then
        let '(t, q') := steal q in
        let '(qf, obs) := run_queue fixed cap q' next r in (qf, obs_opt t :: obs)
      else if (o =? 3)%Z then
        run_queue fixed cap (balance q) next r
      else
        let '(qf, obs) := run_queue fixed cap q next r in (qf, Z.of_N (qlen q) :: obs)
  end.

(* final dump: steal until None, then pop_local until None, then len *)
Fixpoint drain_steal (fuel : nat) (q : wsq) : wsq * list Z :=
  match fuel with
  | O => (q, [])
  | S k => match steal q with
           | (Some t, q') => let '(qf, obs) := drain_steal k q' in (qf, Z.of_N (tid t) :: obs)
           | (None, _) => (q, [])
           end
  end.
Fixpoint drain_local (fixed : bool) (fuel : nat) (q : wsq) : wsq * list Z :=
  match fuel with
  | O => (q, [])
  | S k => match pop_local fixed q with
           | (Some t, q') => let '(qf, obs) := drain_local fixed k q' in (qf, Z.of_N (tid t) :: obs)
           | (None, _) => (q, [])
           end
  end.

(* variant 0: thieves first (steal until None, pop_local until None, len);
   variant 1: the owner alone (pop_local until None, len), then steal until None, len *)
Definition case_queue (fixed : bool) (cap : N) (variant : N) (ops : list Z) : list Z :=
  let '(q, obs) := run_queue fixed cap qempty 0 ops in
  let fuel := S (N.to_nat (qlen q)) in
  if variant =? 0 then
    let '(q1, o1) := drain_steal fuel q in
    let '(q2, o2) := drain_local fixed fuel q1 in
    obs ++ [(-7)%Z] ++ o1 ++ [(-1)%Z] ++ o2 ++ [(-1)%Z; Z.of_N (qlen q2)]
  else
    let '(q1, o1) := drain_local fixed fuel q in
    let '(q2, o2) := drain_steal fuel q1 in
    obs ++ [(-7)%Z] ++ o1 ++ [(-1)%Z; Z.of_N (qlen q1)] ++ o2 ++ [(-1)%Z; Z.of_N (qlen q2)].

(* executor submissions on a runtime that has not polled the workers yet: accept bits, total_queued *)
Fixpoint run_submits (cap : N) (e : exec) (next : N) (ops : list Z) : exec * list Z :=
  match ops with
  | [] => (e, [])
  | o :: r =>
      let '(ok, e') := submit cap e (dec_task next o) in
      let '(ef, obs) := run_submits cap e' (next + 1) r in
      (ef, (if ok then 1%Z else 0%Z) :: obs)
  end.
Definition case_submit (nw : N) (cap : N) (ops : list Z) : list Z :=
  let '(e, obs) := run_submits cap (init (N.to_nat nw)) 0 ops in
  obs ++ [Z.of_N (total_queued e); if is_idle e then 1%Z else 0%Z].

(* one worker on a current-thread runtime, tasks that finish at once, all submitted before the worker
   is first polled: accept bits, then the order in which the tasks are executed *)
Definition case_order (fixed : bool) (cap : N) (ops : list Z) : list Z :=
  let '(e, obs) := run_submits cap (init 1) 0 ops in
  let e' := rounds fixed (length ops) e in
  obs ++ [(-7)%Z] ++ map (fun t => Z.of_N (tid t)) (edone e') ++ [(-7)%Z; Z.of_N (total_queued e')].

(* executor history driven through the verification hook (paused executor, real submit / find_task /
   balance in a chosen interleaving): task code = submit, 10+w = worker w's find_task (the task found
   counts as executed), 30+w = worker w's balance, anything else = total_queued.
   Final dump: passes of find_task over all workers until nothing is found, then total_queued. *)
Fixpoint run_hist (fixed : bool) (cap : N) (e : exec) (next : N) (ops : list Z) : exec * list Z :=
  match ops with
  | [] => (e, [])
  | o :: r =>
      if (1000 <=? o)%Z then
        let '(ok, e') := submit cap e (dec_task next o) in
        let '(ef, obs) := run_hist fixed cap e' (next + 1) r in
        (ef, (if ok then 1%Z else 0%Z) :: obs)
      else if (30 <=? o)%Z then
        run_hist fixed cap (wstep fixed e (Balance (Z.to_nat (o - 30)))) next r
      else if (10 <=? o)%Z then
        match find_task fixed e (Z.to_nat (o - 10)) with
        | Some (t, e') => let '(ef, obs) := run_hist fixed cap e' next r in (ef, Z.of_N (tid t) :: obs)
        | None => let '(ef, obs) := run_hist fixed cap e next r in (ef, (-1)%Z :: obs)
        end
      else
        let '(ef, obs) := run_hist fixed cap e next r in (ef, Z.of_N (total_queued e) :: obs)
  end.

Fixpoint drain_pass (fixed : bool) (ws : list nat) (e : exec) : exec * list Z :=
  match ws with
  | [] => (e, [])
  | w :: r =>
      match find_task fixed e w with
      | Some (t, e') => let '(ef, obs) := drain_pass fixed r e' in (ef, Z.of_N (tid t) :: obs)
      | None => drain_pass fixed r e
      end
  end.
Fixpoint drain_all (fixed : bool) (fuel : nat) (e : exec) : exec * list Z :=
  match fuel with
  | O => (e, [])
  | S k =>
      let '(e1, o1) := drain_pass fixed (seq 0 (length (eqs e))) e in
      let '(e2, o2) := drain_all fixed k e1 in (e2, o1 ++ o2)
  end.
Definition case_hist (fixed : bool) (nw cap : N) (ops : list Z) : list Z :=
  let '(e, obs) := run_hist fixed cap (init (N.to_nat nw)) 0 ops in
  let '(e', dump) := drain_all fixed (S (N.to_nat (total_queued e))) e in
  obs ++ [(-7)%Z] ++ dump ++ [(-7)%Z; Z.of_N (total_queued e')].

(* the stage function shared with the harness: fails on x = 13 (mod 16), else 3x+1 *)
Definition stage (x : Z) : option Z :=
  if (x mod 16 =? 13)%Z then None else Some (3 * x + 1)%Z.
Definition obs_res (r : res (list Z)) : list Z :=
  match r with ROk l => 1%Z :: l | RErr => [0%Z] | RLost => [(-9)%Z] end.
Definition obs_optl (r : option (list Z)) : list Z :=
  match r with Some l => 1%Z :: l | None => [0%Z] end.

(* parallel_map: the completion order chosen for evaluation is the reverse of submission *)
Definition case_pmap (xs : list Z) : list Z :=
  obs_res (parallel_map stage xs (rev (tagged xs))).

(* reduce over lists with concatenation (associative, not commutative); an element 13 (mod 16) fails *)
Definition cat_op (a b : list Z) : option (list Z) :=
  if existsb (fun x => (x mod 16 =? 13)%Z) b then None else Some (a ++ b).
Definition case_reduce (k : N) (xs : list Z) : list Z :=
  obs_optl (parallel_reduce_k cat_op [] (N.to_nat k) (map (fun x => [x]) xs)).

(* BatchCollector history: 1000+x = add x, 1 = flush; emitted batches separated by -1, then the buffer *)
Fixpoint run_coll (maxb : N) (c : coll Z) (ops : list Z) : coll Z :=
  match ops with
  | [] => c
  | o :: r => if (1000 <=? o)%Z then run_coll maxb (coll_add maxb c (o - 1000)%Z) r
              else run_coll maxb (coll_flush c) r
  end.
Definition case_coll (maxb : N) (ops : list Z) : list Z :=
  let c := run_coll maxb (mkC [] []) ops in
  flat_map (fun b => b ++ [(-1)%Z]) (cout c) ++ [(-2)%Z] ++ cbuf c.

(* execute_stream: k copies of the shared stage function (the first one also times out on x = 7 mod 32
   when `slow`), evaluated under the round-robin schedule; by stream_complete / stream_prefix the verdict
   and a successful output do not depend on the schedule *)
Definition stage_slow (x : Z) : option Z := if (x mod 32 =? 7)%Z then None else stage x.
Definition case_stream (k : N) (slow : N) (xs : list Z) : list Z :=
  let kn := N.to_nat k in
  let fs := match kn with
            | O => []
            | S r => (if slow =? 0 then stage else stage_slow) :: repeat stage r
            end in
  let sched := concat (repeat (seq 0 kn) (length xs + kn + 2)) in
  let st := stream_run fs xs sched in
  if stream_err st then [0%Z] else 1%Z :: stream_output fs xs st.

(* kind 0 queue, 1 submit, 2 parallel_map / process_batch, 3 reduce, 4 collector, 5 single-worker execution order, 6 hooked executor history, 7 execute_stream *)
Definition run_case (fixed : bool) (kind a b : N) (ops : list Z) : list Z :=
  match kind with
  | 0 => case_queue fixed a b ops
  | 1 => case_submit a b ops
  | 2 => case_pmap ops
  | 3 => case_reduce a ops
  | 4 => case_coll a ops
  | 5 => case_order fixed a ops
  | 6 => case_hist fixed a b ops
  | _ => case_stream a b ops
  end.
