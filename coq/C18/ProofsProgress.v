(* C18: no task is parked where no worker looks (after the repair), the workers drain every queue,
   and the refutation of both on the pinned tree's pop_local. *)
From ZV.Common Require Import Base.
From ZV.C18 Require Import Model ProofsQueue.
From Coq Require Import Permutation.
Open Scope N_scope.

Lemma set_nth_length {A} (l : list A) : forall i x, length (set_nth i x l) = length l.
Proof. induction l as [|a r IH]; intros [|i] x; cbn [set_nth length]; auto. Qed.

Lemma set_nth_same {A} (l : list A) : forall i x, nth_error l i = Some x -> set_nth i x l = l.
Proof.
  induction l as [|a r IH]; intros [|i] x H; cbn [nth_error] in H; cbn [set_nth]; try discriminate.
  - inversion H; reflexivity.
  - rewrite IH by assumption. reflexivity.
Qed.

Lemma steal_others_some w qs : forall i t v q',
  steal_others w i qs = Some (t, v, q') ->
  exists k q, v = (i + k)%nat /\ nth_error qs k = Some q /\ steal q = (Some t, q').
Proof.
  induction qs as [|q r IH]; intros i t v q' H; cbn [steal_others] in H; [discriminate|].
  destruct (Nat.eqb i w).
  - apply IH in H. destruct H as [k [q0 [Hv [Hn Hs]]]].
    exists (S k), q0. split; [lia|]. split; assumption.
  - destruct (steal q) as [[t0|] q0] eqn:Es.
    + inversion H; subst. exists O, q. split; [lia|]. split; [reflexivity|assumption].
    + apply IH in H. destruct H as [k [q1 [Hv [Hn Hs]]]].
      exists (S k), q1. split; [lia|]. split; assumption.
Qed.

(* what find_task removes is exactly one queued task; nothing else changes *)
Lemma find_task_some fixed e w t e' :
  find_task fixed e w = Some (t, e') ->
  Permutation (queued e) (t :: queued e') /\ erun e' = erun e /\ edone e' = edone e /\
  length (eqs e') = length (eqs e).
Proof.
  unfold find_task.
  destruct (nth_error (eqs e) w) as [q|] eqn:Hq; [|discriminate].
  destruct (pop_local fixed q) as [[t0|] q0] eqn:Hp.
  - intros H; inversion H; subst. unfold queued, set_q; cbn [eqs eglob erun edone].
    split; [|split; [reflexivity|split; [reflexivity|apply set_nth_length]]].
    change (t :: flat_map qtasks (set_nth w q0 (eqs e)) ++ eglob e)
      with ((t :: flat_map qtasks (set_nth w q0 (eqs e))) ++ eglob e).
    apply Permutation_app_tail.
    eapply set_nth_flat_cons; [eassumption|]. eapply pop_local_some; eassumption.
  - destruct (eglob e) as [|g r] eqn:Hg.
    + destruct (steal_others w 0 (eqs e)) as [[[t1 v] q1]|] eqn:Hs; [|discriminate].
      intros H; inversion H; subst. unfold queued, set_q; cbn [eqs eglob erun edone].
      split; [|split; [reflexivity|split; [reflexivity|apply set_nth_length]]].
      rewrite Hg, !app_nil_r.
      apply steal_others_some in Hs. destruct Hs as [k [q2 [Hv [Hn Hst]]]].
      cbn [Nat.add] in Hv. subst v.
      eapply set_nth_flat_cons; [eassumption|]. eapply steal_some; eassumption.
    + intros H; inversion H; subst. unfold queued; cbn [eqs eglob erun edone].
      split; [|split; [reflexivity|split; reflexivity]].
      rewrite Hg. symmetry. apply Permutation_middle.
Qed.

(* no_parked_task: after the repair, a worker whose find_task comes back empty-handed has nothing in
   either of its own queues and there is nothing in the global queue *)
Lemma find_task_none_proof e w q :
  nth_error (eqs e) w = Some q ->
  find_task true e w = None ->
  qlocal q = [] /\ qsteal q = [] /\ eglob e = [].
Proof.
  intros Hq. unfold find_task. rewrite Hq.
  unfold pop_local. destruct (qlocal q) as [|x r]; [|discriminate].
  destruct (qsteal q) as [|y s]; [|discriminate].
  destruct (eglob e) as [|g r]; [|discriminate].
  intros _. auto.
Qed.

Lemma flat_map_all_nil {A B} (f : A -> list B) (l : list A) :
  (forall i x, nth_error l i = Some x -> f x = []) -> flat_map f l = [].
Proof.
  induction l as [|a r IH]; intros H; cbn [flat_map]; [reflexivity|].
  rewrite (H O a eq_refl). cbn [app]. apply IH. intros i x Hx. apply (H (S i) x Hx).
Qed.

Lemma all_none_empty e :
  (0 < length (eqs e))%nat ->
  (forall w, (w < length (eqs e))%nat -> find_task true e w = None) ->
  queued e = [].
Proof.
  intros Hnw Hall. unfold queued.
  assert (Hg : eglob e = []).
  { destruct (nth_error (eqs e) 0) as [q|] eqn:Hq.
    - destruct (find_task_none_proof e 0 q Hq (Hall _ Hnw)) as [_ [_ Hg]]. exact Hg.
    - apply nth_error_None in Hq. lia. }
  rewrite Hg, app_nil_r.
  apply flat_map_all_nil. intros i q Hq.
  assert (Hi : (i < length (eqs e))%nat) by (apply nth_error_Some; rewrite Hq; discriminate).
  destruct (find_task_none_proof e i q Hq (Hall _ Hi)) as [Hl [Hs _]].
  unfold qtasks. rewrite Hl, Hs. reflexivity.
Qed.

Lemma flat_map_nonempty {A B} (f : A -> list B) (l : list A) :
  flat_map f l <> [] -> exists i x, nth_error l i = Some x /\ f x <> [].
Proof.
  induction l as [|a r IH]; cbn [flat_map]; intros H; [congruence|].
  destruct (f a) as [|b fb] eqn:Ef.
  - cbn [app] in H. destruct (IH H) as [i [x [Hn Hx]]]. exists (S i), x. split; assumption.
  - exists O, a. split; [reflexivity|]. rewrite Ef. discriminate.
Qed.

(* progress: while anything is queued, some worker's find_task returns a task *)
Lemma progress_proof e :
  (0 < length (eqs e))%nat -> queued e <> [] ->
  exists w, (w < length (eqs e))%nat /\ find_task true e w <> None.
Proof.
  intros Hnw Hq. unfold queued in Hq.
  destruct (eglob e) as [|g r] eqn:Hg.
  - rewrite app_nil_r in Hq. apply flat_map_nonempty in Hq.
    destruct Hq as [i [q [Hn Hne]]]. exists i. split.
    + apply nth_error_Some. rewrite Hn. discriminate.
    + unfold find_task. rewrite Hn. unfold pop_local, qtasks in *.
      destruct (qlocal q) as [|x l]; [|discriminate].
      destruct (qsteal q) as [|y s]; [|discriminate].
      cbn [app] in Hne. congruence.
  - exists O. split; [assumption|].
    unfold find_task. destruct (nth_error (eqs e) 0) as [q|] eqn:Hn.
    + destruct (pop_local true q) as [[t|] q']; [discriminate|]. rewrite Hg. discriminate.
    + apply nth_error_None in Hn. lia.
Qed.

(* ---- the workers drain everything ---- *)

Definition pend (e : exec) : nat := length (queued e).

Lemma balance_step_queued e w :
  Permutation (queued (wstep true e (Balance w))) (queued e) /\
  edone (wstep true e (Balance w)) = edone e /\ erun (wstep true e (Balance w)) = erun e /\
  length (eqs (wstep true e (Balance w))) = length (eqs e).
Proof.
  cbn [wstep]. destruct (nth_error (eqs e) w) as [q|] eqn:Hq.
  - unfold queued, set_q; cbn [eqs eglob erun edone].
    split; [|split; [reflexivity|split; [reflexivity|apply set_nth_length]]].
    apply Permutation_app_tail. eapply set_nth_flat_same; [eassumption|]. apply balance_perm.
  - split; [reflexivity|split; [reflexivity|split; reflexivity]].
Qed.

Definition maybe_balance (e : exec) (w : nat) : exec :=
  if nlen (edone e) mod 100 =? 0 then wstep true e (Balance w) else e.

Lemma maybe_balance_facts e w :
  Permutation (queued (maybe_balance e w)) (queued e) /\ edone (maybe_balance e w) = edone e /\
  erun (maybe_balance e w) = erun e /\ length (eqs (maybe_balance e w)) = length (eqs e).
Proof.
  unfold maybe_balance. destruct (nlen (edone e) mod 100 =? 0).
  - apply balance_step_queued.
  - split; [reflexivity|split; [reflexivity|split; reflexivity]].
Qed.

Lemma turn_unfold e w :
  turn true e w =
  maybe_balance (match find_task true e w with
                 | Some (t, e') => mkE (eqs e') (eglob e') (enext e') (erun e') (edone e' ++ [t])
                 | None => e
                 end) w.
Proof. reflexivity. Qed.

(* a turn that finds a task moves exactly that task from the queues to the executed list *)
Lemma turn_some e w t e' :
  find_task true e w = Some (t, e') ->
  Permutation (queued e) (t :: queued (turn true e w)) /\
  edone (turn true e w) = edone e ++ [t] /\ erun (turn true e w) = erun e /\
  length (eqs (turn true e w)) = length (eqs e).
Proof.
  intros H. rewrite turn_unfold, H.
  destruct (find_task_some _ _ _ _ _ H) as [Hp [Hr [Hd Hl]]].
  set (e1 := mkE (eqs e') (eglob e') (enext e') (erun e') (edone e' ++ [t])).
  destruct (maybe_balance_facts e1 w) as [Bq [Bd [Br Bl]]].
  split; [|split; [|split]].
  - rewrite Hp. apply perm_skip. symmetry. exact Bq.
  - rewrite Bd. unfold e1; cbn [edone]. rewrite Hd. reflexivity.
  - rewrite Br. unfold e1; cbn [erun]. exact Hr.
  - rewrite Bl. unfold e1; cbn [eqs]. exact Hl.
Qed.

(* a turn that finds nothing changes nothing (the balance it may run sees an empty local queue) *)
Lemma turn_none e w :
  (w < length (eqs e))%nat -> find_task true e w = None -> turn true e w = e.
Proof.
  intros Hw H. rewrite turn_unfold, H. unfold maybe_balance.
  destruct (nlen (edone e) mod 100 =? 0); [|reflexivity].
  cbn [wstep]. destruct (nth_error (eqs e) w) as [q|] eqn:Hq; [|reflexivity].
  destruct (find_task_none_proof e w q Hq H) as [Hl [Hs _]].
  assert (Hb : balance q = q).
  { unfold balance. rewrite Hl, Hs. cbn [nlen]. reflexivity. }
  rewrite Hb. unfold set_q. rewrite (set_nth_same _ _ _ Hq). destruct e; reflexivity.
Qed.

Lemma turn_facts e w :
  (w < length (eqs e))%nat ->
  (pend (turn true e w) <= pend e)%nat /\
  Permutation (queued (turn true e w) ++ edone (turn true e w)) (queued e ++ edone e) /\
  erun (turn true e w) = erun e /\ length (eqs (turn true e w)) = length (eqs e) /\
  (pend (turn true e w) = pend e -> find_task true e w = None).
Proof.
  intros Hw. destruct (find_task true e w) as [[t e']|] eqn:Hf.
  - destruct (turn_some _ _ _ _ Hf) as [Hp [Hd [Hr Hl]]].
    assert (Hlen : pend e = S (pend (turn true e w))).
    { unfold pend. rewrite (Permutation_length Hp). reflexivity. }
    split; [lia|]. split; [|split; [exact Hr|split; [exact Hl|lia]]].
    rewrite Hd, Hp. cbn [app]. rewrite app_assoc. rewrite <- Permutation_middle.
    rewrite app_nil_r. reflexivity.
  - rewrite (turn_none _ _ Hw Hf).
    split; [lia|]. split; [reflexivity|]. split; [reflexivity|]. split; [reflexivity|]. intros _. reflexivity.
Qed.

Lemma fold_turn_facts ws : forall e,
  (forall w, In w ws -> (w < length (eqs e))%nat) ->
  let e' := fold_left (turn true) ws e in
  (pend e' <= pend e)%nat /\
  Permutation (queued e' ++ edone e') (queued e ++ edone e) /\
  erun e' = erun e /\ length (eqs e') = length (eqs e) /\
  (pend e' = pend e -> forall w, In w ws -> find_task true e w = None).
Proof.
  induction ws as [|w r IH]; intros e Hin; cbv zeta; cbn [fold_left].
  - split; [lia|]. split; [reflexivity|]. split; [reflexivity|]. split; [reflexivity|]. intros _ w [].
  - assert (Hw : (w < length (eqs e))%nat) by (apply Hin; left; reflexivity).
    destruct (turn_facts e w Hw) as [T1 [T2 [T3 [T4 T5]]]].
    assert (Hin' : forall v, In v r -> (v < length (eqs (turn true e w)))%nat).
    { intros v Hv. rewrite T4. apply Hin. right. exact Hv. }
    pose proof (IH (turn true e w) Hin') as IH'. cbv zeta in IH'.
    destruct IH' as [I1 [I2 [I3 [I4 I5]]]].
    split; [lia|]. split; [rewrite I2; exact T2|]. split; [congruence|]. split; [congruence|].
    intros Heq v [Hv|Hv].
    + subst v. apply T5. lia.
    + assert (Hsame : pend (turn true e w) = pend e) by lia.
      pose proof (T5 Hsame) as Hnone.
      rewrite (turn_none _ _ Hw Hnone) in I5, Heq. apply I5; [exact Heq|exact Hv].
Qed.

Lemma round_facts e :
  (0 < length (eqs e))%nat ->
  let e' := round true e in
  (pend e' <= pend e)%nat /\ ((0 < pend e)%nat -> (pend e' < pend e)%nat) /\
  Permutation (queued e' ++ edone e') (queued e ++ edone e) /\
  erun e' = erun e /\ length (eqs e') = length (eqs e).
Proof.
  intros Hnw. cbv zeta. unfold round.
  assert (Hin : forall w, In w (seq 0 (length (eqs e))) -> (w < length (eqs e))%nat).
  { intros w Hw. apply in_seq in Hw. lia. }
  pose proof (fold_turn_facts _ e Hin) as FF. cbv zeta in FF.
  destruct FF as [F1 [F2 [F3 [F4 F5]]]].
  split; [exact F1|]. split; [|split; [exact F2|split; [exact F3|exact F4]]].
  intros Hpos.
  destruct (Nat.eq_dec (pend (fold_left (turn true) (seq 0 (length (eqs e))) e)) (pend e)) as [Heq|Hne]; [|lia].
  exfalso.
  assert (Hq : queued e = []).
  { apply all_none_empty; [exact Hnw|]. intros w Hw. apply (F5 Heq). apply in_seq. lia. }
  unfold pend in Hpos. rewrite Hq in Hpos. cbn [length] in Hpos. lia.
Qed.

(* drains: with the repaired pop_local, after as many rounds of the worker loops as there are queued
   tasks, nothing is queued and everything that was queued has been executed *)
Lemma drains_proof : forall n e,
  (0 < length (eqs e))%nat -> (length (queued e) <= n)%nat ->
  queued (rounds true n e) = [] /\
  Permutation (edone (rounds true n e)) (edone e ++ queued e) /\
  running (rounds true n e) = running e.
Proof.
  induction n as [|n IH]; intros e Hnw Hle; cbn [rounds].
  - destruct (queued e) as [|x r] eqn:Hq; [|cbn [length] in Hle; lia].
    split; [reflexivity|]. split; [rewrite app_nil_r; reflexivity|reflexivity].
  - pose proof (round_facts e Hnw) as RF. cbv zeta in RF.
    destruct RF as [R1 [R2 [R3 [R4 R5]]]].
    assert (Hnw' : (0 < length (eqs (round true e)))%nat) by lia.
    assert (Hle' : (length (queued (round true e)) <= n)%nat).
    { fold (pend (round true e)). fold (pend e) in Hle.
      destruct (Nat.eq_dec (pend e) 0) as [Hz|Hz]; [lia|]. specialize (R2 ltac:(lia)). lia. }
    destruct (IH (round true e) Hnw' Hle') as [I1 [I2 I3]].
    split; [exact I1|]. split.
    + rewrite I2. rewrite (Permutation_app_comm (edone (round true e))). rewrite R3.
      apply Permutation_app_comm.
    + rewrite I3. unfold running. rewrite R4. reflexivity.
Qed.

Example drains_nontrivial :
  exists e acc, run true 8 (init 1) [] (map (fun i => Submit (mkT i (i mod 3) true)) [0;1;2;3;4;5] ++ [Balance 0]) = (e, acc)
    /\ length (queued e) = 6%nat /\ queued (rounds true 6 e) = [] /\ length (edone (rounds true 6 e)) = 6%nat.
Proof. eexists. eexists. split; [vm_compute; reflexivity|]. vm_compute. auto. Qed.

(* ---- the pinned tree: pop_local never looks at the worker's own steal queue ---- *)

Lemma rounds_fixpoint fixed e : round fixed e = e -> forall n, rounds fixed n e = e.
Proof. intros H n. induction n as [|n IH]; cbn [rounds]; [reflexivity|]. rewrite H. exact IH. Qed.

Lemma rounds_add fixed a : forall b e, rounds fixed (a + b) e = rounds fixed b (rounds fixed a e).
Proof. induction a as [|a IH]; intros b e; cbn [Nat.add rounds]; [reflexivity|apply IH]. Qed.

(* six tasks, one worker, balance(): three tasks end in the worker's own steal queue and the single
   worker never finds them, however long it runs; is_idle() stays false *)
Definition parked_steps : list step :=
  map (fun i => Submit (mkT i 0 true)) [0;1;2;3;4;5] ++ [Balance 0].

Lemma parked_task_refuted_proof :
  exists e acc, run false 8 (init 1) [] parked_steps = (e, acc) /\ length acc = 6%nat /\
    forall n, (3 <= n)%nat ->
      length (queued (rounds false n e)) = 3%nat /\ length (edone (rounds false n e)) = 3%nat /\
      is_idle (rounds false n e) = false.
Proof.
  eexists. eexists. split; [vm_compute; reflexivity|]. split; [reflexivity|].
  intros n Hn. replace n with (3 + (n - 3))%nat by lia. rewrite rounds_add.
  rewrite rounds_fixpoint; [vm_compute; auto|]. vm_compute. reflexivity.
Qed.

(* the executor's own schedule: 202 tasks submitted to one worker with a large queue; the periodic
   balance at total_executed = 100 parks 51 tasks for good *)
Definition many_submits (n : nat) : list step :=
  map (fun i => Submit (mkT (N.of_nat i) 0 true)) (seq 0 n).

Lemma executor_parks_refuted_proof :
  exists e acc, run false 256 (init 1) [] (many_submits 202) = (e, acc) /\ length acc = 202%nat /\
    forall n, (151 <= n)%nat ->
      length (queued (rounds false n e)) = 51%nat /\ length (edone (rounds false n e)) = 151%nat.
Proof.
  eexists. eexists. split; [vm_compute; reflexivity|]. split; [vm_compute; reflexivity|].
  intros n Hn. replace n with (151 + (n - 151))%nat by lia. rewrite rounds_add.
  rewrite rounds_fixpoint; [vm_compute; auto|]. vm_compute. reflexivity.
Qed.
